/* apiharness -- case interpreter: directives, ops, dumps. */
#define _GNU_SOURCE 1
#include <stdio.h>
#include <stdlib.h>
#include <string.h>
#include <errno.h>
#include <unistd.h>
#include <dirent.h>
#include <sys/stat.h>
#include "harness.h"

#define MAXTOK 16

static const char *fmt_names[VH_NFMT] = { "cab", "chm", "szdd", "kwaj", "oab" };

/* ------------------------------------------------------------------ */
/* small helpers                                                       */

static int hexval(int ch) {
  if (ch >= '0' && ch <= '9') return ch - '0';
  if (ch >= 'a' && ch <= 'f') return ch - 'a' + 10;
  if (ch >= 'A' && ch <= 'F') return ch - 'A' + 10;
  return -1;
}

/* "-" is the empty string.  Returns 0 on success; *out is malloc'd with one
 * extra NUL byte that is not counted in *len. */
int vh_unhex(const char *s, unsigned char **out, size_t *len) {
  size_t n, i;
  unsigned char *b;
  if (strcmp(s, "-") == 0) { *out = vh_xmalloc(1); (*out)[0] = 0; *len = 0; return 0; }
  n = strlen(s);
  if (n & 1) return -1;
  b = vh_xmalloc(n / 2 + 1);
  for (i = 0; i < n / 2; i++) {
    int h = hexval(s[2 * i]), l = hexval(s[2 * i + 1]);
    if (h < 0 || l < 0) { free(b); return -1; }
    b[i] = (unsigned char) (h << 4 | l);
  }
  b[n / 2] = 0;
  *out = b; *len = n / 2;
  return 0;
}

static int parse_num(const char *s, long long *v) {
  char *end;
  int neg = 0;
  const char *p = s;
  if (*p == '-') { neg = 1; p++; }
  if (!*p) return -1;
  errno = 0;
  if (p[0] == '0' && (p[1] == 'x' || p[1] == 'X')) *v = (long long) strtoull(p + 2, &end, 16);
  else *v = (long long) strtoull(p, &end, 10);
  if (*end || errno) return -1;
  if (neg) *v = -*v;
  return 0;
}

static int parse_id(const char *s, char prefix, long *v) {
  long long x;
  if (s[0] != prefix || !s[1]) return -1;
  if (s[1] < '0' || s[1] > '9') return -1;
  if (parse_num(s + 1, &x) || x < 0) return -1;
  *v = (long) x;
  return 0;
}

/* C string as hex: NULL -> "-", "" -> "=" */
static void out_cstr(struct vh_ctx *c, const char *s) {
  if (!s) vh_out(c, "-");
  else if (!*s) vh_out(c, "=");
  else vh_out_hex(c, (const unsigned char *) s, strlen(s));
}

void vh_out_snapshot(struct vh_ctx *c, const char *name) {
  struct vh_memfile *mf = vh_file_find(c, name);
  if (!mf) { vh_out(c, "-"); return; }
  vh_out(c, "%zu:%016llx", mf->len, (unsigned long long) vh_fnv1a(mf->data, mf->len));
  if (mf->len <= 64) {
    vh_out(c, ":");
    if (mf->len) vh_out_hex(c, mf->data, mf->len); else vh_out(c, "-");
  }
}

/* ------------------------------------------------------------------ */
/* per-op accounting                                                   */

static void op_reset(struct vh_ctx *c) {
  c->op_edges = 0;
  memset(c->op_calls, 0, sizeof c->op_calls);
  c->op_counted = 0;
}

void vh_call_begin(struct vh_ctx *c, const char *outname) {
  c->call_outname = outname;
  c->call_written = 0;
  memset(c->call_cnt, 0, sizeof c->call_cnt);
  vh_out_flush(c);
  vh_edge_counter = 0;
}

void vh_call_end(struct vh_ctx *c) {
  unsigned long long e = vh_edge_counter;
  int k;
  c->op_edges += e;
  for (k = 0; k < VH_NKIND; k++) c->op_calls[k] += c->call_cnt[k];
  c->op_counted = 1;
  c->call_outname = NULL;
}

void vh_out_counts(struct vh_ctx *c) {
  if (!c->edges || !c->op_counted) return;
  vh_out(c, " edges=%llu calls=alloc:%ld,open:%ld,read:%ld,write:%ld,seek:%ld,tell:%ld",
         c->op_edges, c->op_calls[VH_K_ALLOC], c->op_calls[VH_K_OPEN],
         c->op_calls[VH_K_READ], c->op_calls[VH_K_WRITE], c->op_calls[VH_K_SEEK],
         c->op_calls[VH_K_TELL]);
}

/* ------------------------------------------------------------------ */
/* default-system support: a scratch directory with real files         */

static int name_ok_for_disk(const char *name) {
  if (!*name || strchr(name, '/')) return 0;
  if (strcmp(name, ".") == 0 || strcmp(name, "..") == 0) return 0;
  return 1;
}

static void rm_rf(const char *path) {
  DIR *d = opendir(path);
  struct dirent *e;
  if (d) {
    while ((e = readdir(d))) {
      char *sub;
      if (strcmp(e->d_name, ".") == 0 || strcmp(e->d_name, "..") == 0) continue;
      if (asprintf(&sub, "%s/%s", path, e->d_name) < 0) continue;
      if (unlink(sub) != 0) rm_rf(sub);
      free(sub);
    }
    closedir(d);
  }
  rmdir(path);
}

static void mkdir_p(const char *path) {
  char *p = vh_xstrdup(path), *s;
  for (s = p + 1; *s; s++) {
    if (*s == '/') { *s = 0; mkdir(p, 0777); *s = '/'; }
  }
  mkdir(p, 0777);
  free(p);
}

static int scratch_enter(struct vh_ctx *c) {
  char *dir;
  if (c->scratch) return 0;
  mkdir_p(c->scratch_base);
  if (asprintf(&dir, "%s/%ld-%ld", c->scratch_base, c->scratch_pid, c->scratch_n) < 0) return -1;
  rm_rf(dir);
  if (mkdir(dir, 0777) != 0) { free(dir); return -1; }
  c->oldcwd = getcwd(NULL, 0);
  if (chdir(dir) != 0) { rm_rf(dir); free(dir); return -1; }
  c->scratch = dir;
  return 0;
}

static void scratch_leave(struct vh_ctx *c) {
  if (!c->scratch) return;
  if (c->oldcwd) { if (chdir(c->oldcwd) != 0) { /* nothing sensible to do */ } }
  else if (chdir("/") != 0) { }
  rm_rf(c->scratch);
  free(c->scratch); c->scratch = NULL;
  free(c->oldcwd); c->oldcwd = NULL;
}

/* write every in-memory file into the scratch directory */
static void disk_sync_out(struct vh_ctx *c) {
  size_t i;
  for (i = 0; i < c->nfiles; i++) {
    struct vh_memfile *mf = c->files[i];
    FILE *f;
    if (!name_ok_for_disk(mf->name)) continue;
    if ((f = fopen(mf->name, "wb"))) {
      if (mf->len) fwrite(mf->data, 1, mf->len, f);
      fclose(f);
    }
  }
}

/* read one file back from the scratch directory */
static void disk_read_back(struct vh_ctx *c, const char *name) {
  FILE *f = fopen(name, "rb");
  unsigned char *buf = NULL;
  size_t len = 0, cap = 0, n;
  if (!f) return;
  for (;;) {
    if (len == cap) { cap = cap ? cap * 2 : 65536; buf = vh_xrealloc(buf, cap); }
    n = fread(buf + len, 1, cap - len, f);
    if (!n) break;
    len += n;
  }
  fclose(f);
  vh_file_put(c, name, buf, len);
  free(buf);
}

/* ------------------------------------------------------------------ */
/* instances and handles                                               */

static long inst_add(struct vh_ctx *c, int fmt, void *p, int is_default) {
  if (c->ninsts == c->cinsts) {
    c->cinsts = c->cinsts ? c->cinsts * 2 : 8;
    c->insts = vh_xrealloc(c->insts, c->cinsts * sizeof *c->insts);
  }
  c->insts[c->ninsts].fmt = fmt;
  c->insts[c->ninsts].p = p;
  c->insts[c->ninsts].is_default = is_default;
  c->insts[c->ninsts].live = 1;
  return (long) c->ninsts++;
}

static long hand_add(struct vh_ctx *c, int fmt, void *p, long inst) {
  if (c->nhands == c->chands) {
    c->chands = c->chands ? c->chands * 2 : 8;
    c->hands = vh_xrealloc(c->hands, c->chands * sizeof *c->hands);
  }
  c->hands[c->nhands].fmt = fmt;
  c->hands[c->nhands].p = p;
  c->hands[c->nhands].inst = (int) inst;
  c->hands[c->nhands].is_default = c->insts[inst].is_default;
  c->hands[c->nhands].live = 1;
  return (long) c->nhands++;
}

/* live handle number of a library object, or -1 */
static long hand_of(struct vh_ctx *c, int fmt, const void *p) {
  size_t i;
  for (i = c->nhands; i-- > 0; )
    if (c->hands[i].live && c->hands[i].fmt == fmt && c->hands[i].p == p) return (long) i;
  return -1;
}

static int fail_line(struct vh_ctx *c, const char *op, const char *what) {
  vh_out(c, "%s %s", op, what);
  vh_out_nl(c);
  return -1;
}

static int get_inst(struct vh_ctx *c, const char *op, const char *tok, long *ii) {
  if (parse_id(tok, 'i', ii) || (size_t) *ii >= c->ninsts) return fail_line(c, op, "bad-handle");
  if (!c->insts[*ii].live) return fail_line(c, op, "dead-handle");
  return 0;
}

static int get_hand(struct vh_ctx *c, const char *op, const char *tok, long ii, long *hi) {
  if (parse_id(tok, 'h', hi) || (size_t) *hi >= c->nhands) return fail_line(c, op, "bad-handle");
  if (c->hands[*hi].fmt != c->insts[ii].fmt ||
      c->hands[*hi].is_default != c->insts[ii].is_default) return fail_line(c, op, "bad-handle");
  if (!c->hands[*hi].live) return fail_line(c, op, "dead-handle");
  return 0;
}

/* names handed to a default-system instance must be plain file names */
static int check_disk_names(struct vh_ctx *c, const char *op, long ii, int n, ...) {
  va_list ap;
  int i, ok = 1;
  if (!c->insts[ii].is_default) return 0;
  va_start(ap, n);
  for (i = 0; i < n; i++) if (!name_ok_for_disk(va_arg(ap, const char *))) ok = 0;
  va_end(ap);
  if (!ok) return fail_line(c, op, "bad-name");
  return 0;
}

static int last_error(struct vh_ctx *c, long ii) {
  struct vh_inst *in = &c->insts[ii];
  switch (in->fmt) {
  case VH_CAB:  return ((struct mscab_decompressor *) in->p)->last_error(in->p);
  case VH_CHM:  return ((struct mschm_decompressor *) in->p)->last_error(in->p);
  case VH_SZDD: return ((struct msszdd_decompressor *) in->p)->last_error(in->p);
  case VH_KWAJ: return ((struct mskwaj_decompressor *) in->p)->last_error(in->p);
  }
  return 0;
}

static void out_err(struct vh_ctx *c, long ii) {
  if (c->insts[ii].fmt == VH_OAB) vh_out(c, " err=-");
  else vh_out(c, " err=%d", last_error(c, ii));
}

/* ------------------------------------------------------------------ */
/* dumps                                                               */

/* F(c, lvalue): the value of a library structure field that is about to be
 * printed.  In the MSan build a field that was never initialised is reported
 * as `MONITOR uninit-field EXPR` (and then treated as initialised) instead
 * of silently printing whatever the fill byte left there. */
#ifdef VH_MSAN
# include <sanitizer/msan_interface.h>
static void chk_field(struct vh_ctx *c, const volatile void *p, size_t n, const char *expr) {
  if (__msan_test_shadow((const void *) p, n) >= 0) {
    __msan_unpoison((const void *) p, n);
    vh_monitor(c, "uninit-field %s", expr);
  }
}
# define F(c, lv) (chk_field((c), &(lv), sizeof(lv), #lv), (lv))
#else
# define F(c, lv) (lv)
#endif

static int cab_live(struct vh_ctx *c, const void *p) { return hand_of(c, VH_CAB, p) >= 0; }

static void dump_cab_one(struct vh_ctx *c, struct mscabd_cabinet *cab) {
  struct mscabd_folder *fol;
  struct mscabd_file *fi;
  long nfol = 0, nfi = 0, j, h = hand_of(c, VH_CAB, cab);
  for (fol = F(c, cab->folders); fol; fol = F(c, fol->next)) nfol++;
  for (fi = F(c, cab->files); fi; fi = F(c, fi->next)) nfi++;
  if (h >= 0) vh_out(c, "cab h%ld", h); else vh_out(c, "cab h?");
  vh_out(c, " off=%lld len=%u set=%u idx=%u hres=%u flags=0x%x prevname=",
         (long long) F(c, cab->base_offset), F(c, cab->length), (unsigned) F(c, cab->set_id),
         (unsigned) F(c, cab->set_index), (unsigned) F(c, cab->header_resv),
         (unsigned) F(c, cab->flags));
  out_cstr(c, F(c, cab->prevname));
  vh_out(c, " nextname="); out_cstr(c, F(c, cab->nextname));
  vh_out(c, " previnfo="); out_cstr(c, F(c, cab->previnfo));
  vh_out(c, " nextinfo="); out_cstr(c, F(c, cab->nextinfo));
  vh_out(c, " nfolders=%ld nfiles=%ld", nfol, nfi);
  vh_out_nl(c);
  for (j = 0, fol = cab->folders; fol; fol = fol->next, j++) {
    vh_out(c, "folder %ld comp=0x%x nblocks=%u", j, (unsigned) F(c, fol->comp_type),
           F(c, fol->num_blocks));
    vh_out_nl(c);
  }
  for (j = 0, fi = cab->files; fi; fi = fi->next, j++) {
    long fj = 0;
    for (fol = cab->folders; fol && fol != F(c, fi->folder); fol = fol->next) fj++;
    if (!fol) fj = -1;
    vh_out(c, "file %ld name=", j);
    out_cstr(c, F(c, fi->filename));
    vh_out(c, " len=%u attr=0x%x date=%d/%d/%d time=%d:%d:%d folder=%ld off=%u",
           F(c, fi->length), (unsigned) F(c, fi->attribs), F(c, fi->date_y),
           (int) F(c, fi->date_m), (int) F(c, fi->date_d), (int) F(c, fi->time_h),
           (int) F(c, fi->time_m), (int) F(c, fi->time_s), fj, F(c, fi->offset));
    vh_out_nl(c);
  }
}

static void dump_cab(struct vh_ctx *c, struct mscabd_cabinet *cab) {
  size_t guard = c->nhands + 1;
  /* only walk through cabinets the harness knows to be alive */
  for (; cab && cab_live(c, cab) && guard--; cab = F(c, cab->next)) dump_cab_one(c, cab);
}

static void dump_chm_files(struct vh_ctx *c, const char *word, struct mschmd_file *fi) {
  long j;
  for (j = 0; fi; fi = F(c, fi->next), j++) {
    vh_out(c, "%s %ld name=", word, j);
    out_cstr(c, F(c, fi->filename));
    if (F(c, fi->section)) vh_out(c, " sec=%u", F(c, fi->section->id)); else vh_out(c, " sec=-1");
    vh_out(c, " off=%lld len=%lld", (long long) F(c, fi->offset), (long long) F(c, fi->length));
    vh_out_nl(c);
  }
}

static void dump_chm(struct vh_ctx *c, long h, struct mschmd_header *chm) {
  vh_out(c, "chm h%ld len=%lld ver=%u ts=%u lang=%u diroff=%lld nchunks=%u chunksize=%u "
         "density=%u depth=%u indexroot=%u firstpmgl=%u lastpmgl=%u sec0off=%lld",
         h, (long long) F(c, chm->length), F(c, chm->version), F(c, chm->timestamp),
         F(c, chm->language), (long long) F(c, chm->dir_offset), F(c, chm->num_chunks),
         F(c, chm->chunk_size), F(c, chm->density), F(c, chm->depth), F(c, chm->index_root),
         F(c, chm->first_pmgl), F(c, chm->last_pmgl), (long long) F(c, chm->sec0.offset));
  vh_out_nl(c);
  dump_chm_files(c, "file", F(c, chm->files));
  dump_chm_files(c, "sysfile", F(c, chm->sysfiles));
}

static void dump_szdd(struct vh_ctx *c, long h, struct msszddd_header *s) {
  vh_out(c, "szdd h%ld fmt=%d len=%lld missing=%02x", h, F(c, s->format),
         (long long) F(c, s->length), (unsigned) (unsigned char) F(c, s->missing_char));
  vh_out_nl(c);
}

static void dump_kwaj(struct vh_ctx *c, long h, struct mskwajd_header *k) {
  vh_out(c, "kwaj h%ld comp=%u dataoff=%lld flags=0x%x len=%lld name=", h,
         (unsigned) F(c, k->comp_type), (long long) F(c, k->data_offset),
         (unsigned) F(c, k->headers), (long long) F(c, k->length));
  out_cstr(c, F(c, k->filename));
  vh_out(c, " extra=");
  if (!F(c, k->extra)) vh_out(c, "-");
  else if (!F(c, k->extra_length)) vh_out(c, "=");
  else vh_out_hex(c, (unsigned char *) k->extra, k->extra_length);
  vh_out_nl(c);
}

static void dump_hand(struct vh_ctx *c, long h) {
  struct vh_hand *hd = &c->hands[h];
  switch (hd->fmt) {
  case VH_CAB:  dump_cab(c, hd->p); break;
  case VH_CHM:  dump_chm(c, h, hd->p); break;
  case VH_SZDD: dump_szdd(c, h, hd->p); break;
  case VH_KWAJ: dump_kwaj(c, h, hd->p); break;
  }
}

/* ------------------------------------------------------------------ */
/* ops                                                                 */

static void op_new(struct vh_ctx *c, int nt, char **t) {
  int fmt, is_default = 0;
  void *p = NULL;
  struct mspack_system *sys = &c->sys;
  if (nt < 2 || nt > 3) { fail_line(c, "new", "bad-args"); return; }
  for (fmt = 0; fmt < VH_NFMT; fmt++) if (strcmp(t[1], fmt_names[fmt]) == 0) break;
  if (fmt == VH_NFMT) { fail_line(c, "new", "unsupported"); return; }
  if (nt == 3) {
    if (strcmp(t[2], "default") != 0) { fail_line(c, "new", "bad-args"); return; }
    if (!c->allow_default || scratch_enter(c) != 0) { fail_line(c, "new", "unsupported"); return; }
    is_default = 1;
    c->any_default = 1;
    sys = NULL;
  }
  vh_call_begin(c, NULL);
  switch (fmt) {
  case VH_CAB:  p = mspack_create_cab_decompressor(sys); break;
  case VH_CHM:  p = mspack_create_chm_decompressor(sys); break;
  case VH_SZDD: p = mspack_create_szdd_decompressor(sys); break;
  case VH_KWAJ: p = mspack_create_kwaj_decompressor(sys); break;
  case VH_OAB:  p = mspack_create_oab_decompressor(sys); break;
  }
  vh_call_end(c);
  if (p) vh_out(c, "new %s i%ld", t[1], inst_add(c, fmt, p, is_default));
  else   vh_out(c, "new %s NULL", t[1]);
  vh_out_counts(c);
  vh_out_nl(c);
}

static void op_param(struct vh_ctx *c, int nt, char **t) {
  static const char *cabp[] = { "SEARCHBUF", "FIXMSZIP", "DECOMPBUF", "SALVAGE" };
  long ii; long long id = -1, val;
  int st = 0, k;
  if (nt != 4) { fail_line(c, "param", "bad-args"); return; }
  if (get_inst(c, "param", t[1], &ii)) return;
  if (parse_num(t[3], &val)) { fail_line(c, "param", "bad-args"); return; }
  if (c->insts[ii].fmt == VH_CAB) {
    for (k = 0; k < 4; k++) if (strcmp(t[2], cabp[k]) == 0) id = k;
  }
  else if (c->insts[ii].fmt == VH_OAB) {
    if (strcmp(t[2], "DECOMPBUF") == 0) id = MSOABD_PARAM_DECOMPBUF;
  }
  else { fail_line(c, "param", "unsupported"); return; }
  if (id < 0 && parse_num(t[2], &id)) { fail_line(c, "param", "bad-args"); return; }
  vh_call_begin(c, NULL);
  if (c->insts[ii].fmt == VH_CAB) {
    struct mscab_decompressor *d = c->insts[ii].p;
    st = d->set_param(d, (int) id, (int) val);
  }
  else {
    struct msoab_decompressor *d = c->insts[ii].p;
    st = d->set_param(d, (int) id, (int) val);
  }
  vh_call_end(c);
  vh_out(c, "param st=%d", st);
  vh_out_counts(c);
  vh_out_nl(c);
}

/* open / fastopen */
static void op_open(struct vh_ctx *c, int nt, char **t) {
  const char *op = t[0], *name;
  long ii, h;
  void *p = NULL;
  int fast = strcmp(op, "fastopen") == 0, err;
  struct vh_inst *in;
  if (nt != 3) { fail_line(c, op, "bad-args"); return; }
  if (get_inst(c, op, t[1], &ii)) return;
  in = &c->insts[ii];
  if (in->fmt == VH_OAB || (fast && in->fmt != VH_CHM)) { fail_line(c, op, "unsupported"); return; }
  if (check_disk_names(c, op, ii, 1, t[2])) return;
  name = vh_name_reg(c, t[2], VH_ROLE_IN);
  if (in->is_default) disk_sync_out(c);
  vh_call_begin(c, NULL);
  switch (in->fmt) {
  case VH_CAB:  p = ((struct mscab_decompressor *) in->p)->open(in->p, name); break;
  case VH_CHM:
    if (fast) p = ((struct mschm_decompressor *) in->p)->fast_open(in->p, name);
    else      p = ((struct mschm_decompressor *) in->p)->open(in->p, name);
    break;
  case VH_SZDD: p = ((struct msszdd_decompressor *) in->p)->open(in->p, name); break;
  case VH_KWAJ: p = ((struct mskwaj_decompressor *) in->p)->open(in->p, name); break;
  }
  vh_call_end(c);
  err = last_error(c, ii);
  if (p) {
    h = hand_add(c, in->fmt, p, ii);
    vh_out(c, "%s h%ld st=0 err=%d", op, h, err);
  }
  else vh_out(c, "%s NULL st=%d err=%d", op, err, err);
  vh_out_counts(c);
  vh_out_nl(c);
  if (p) dump_hand(c, h);
}

static void op_search(struct vh_ctx *c, int nt, char **t) {
  long ii, first = -1, last = -1;
  struct mscabd_cabinet *cab, *p;
  struct mscab_decompressor *d;
  const char *name;
  int err;
  if (nt != 3) { fail_line(c, "search", "bad-args"); return; }
  if (get_inst(c, "search", t[1], &ii)) return;
  if (c->insts[ii].fmt != VH_CAB) { fail_line(c, "search", "unsupported"); return; }
  if (check_disk_names(c, "search", ii, 1, t[2])) return;
  name = vh_name_reg(c, t[2], VH_ROLE_IN);
  if (c->insts[ii].is_default) disk_sync_out(c);
  d = c->insts[ii].p;
  vh_call_begin(c, NULL);
  cab = d->search(d, name);
  vh_call_end(c);
  err = d->last_error(d);
  for (p = cab; p; p = p->next) {
    last = hand_add(c, VH_CAB, p, ii);
    if (first < 0) first = last;
  }
  if (cab) vh_out(c, "search h%ld..h%ld st=0 err=%d", first, last, err);
  else     vh_out(c, "search NULL st=%d err=%d", err, err);
  vh_out_counts(c);
  vh_out_nl(c);
  if (cab) dump_cab(c, cab);
}

/* Which cabinet structures does cabd_close(cab) free?  (cabd.c: for the
 * cabinet and then for every cabinet on its ->next chain: the cabinet
 * itself, everything on its ->prevcab chain, everything on its ->nextcab
 * chain.)  Only pointers the harness knows to be alive are followed. */
static size_t cab_close_set(struct vh_ctx *c, struct mscabd_cabinet *cab,
                            struct mscabd_cabinet ***set_out)
{
  struct mscabd_cabinet **set = vh_xmalloc((c->nhands + 1) * sizeof *set), *o, *p;
  size_t n = 0, i;
#define IN_SET(x, res) do { res = 0; for (i = 0; i < n; i++) if (set[i] == (x)) res = 1; } while (0)
  int in;
  for (o = cab; o && cab_live(c, o); o = o->next) {
    IN_SET(o, in); if (in) break;
    set[n++] = o;
    for (p = o->prevcab; p && cab_live(c, p); p = p->prevcab) {
      IN_SET(p, in); if (in) break;
      set[n++] = p;
    }
    for (p = o->nextcab; p && cab_live(c, p); p = p->nextcab) {
      IN_SET(p, in); if (in) break;
      set[n++] = p;
    }
  }
#undef IN_SET
  *set_out = set;
  return n;
}

static void op_close(struct vh_ctx *c, int nt, char **t) {
  long ii, h;
  struct vh_inst *in;
  if (nt != 3) { fail_line(c, "close", "bad-args"); return; }
  if (get_inst(c, "close", t[1], &ii)) return;
  in = &c->insts[ii];
  if (in->fmt == VH_OAB) { fail_line(c, "close", "unsupported"); return; }
  if (get_hand(c, "close", t[2], ii, &h)) return;
  if (in->fmt == VH_CAB) {
    struct mscabd_cabinet **set, *x;
    size_t n = cab_close_set(c, c->hands[h].p, &set), i, j, k, steps;
    char *taint = vh_xmalloc(c->nhands + 1);
    /* live cabinets outside the set whose ->next chain leads into it would be
     * left with a dangling pointer: nothing can safely be done with them */
    memset(taint, 0, c->nhands + 1);
    for (k = 0; k < c->nhands; k++) {
      int inset = 0;
      if (!c->hands[k].live || c->hands[k].fmt != VH_CAB) continue;
      for (i = 0; i < n; i++) if (set[i] == c->hands[k].p) inset = 1;
      if (inset) continue;
      x = ((struct mscabd_cabinet *) c->hands[k].p)->next;
      for (steps = 0; x && cab_live(c, x) && steps <= c->nhands; x = x->next, steps++) {
        for (i = 0; i < n; i++) if (set[i] == x) taint[k] = 1;
        if (taint[k]) break;
      }
    }
    vh_call_begin(c, NULL);
    ((struct mscab_decompressor *) in->p)->close(in->p, c->hands[h].p);
    vh_call_end(c);
    for (j = 0; j < n; j++)
      for (k = 0; k < c->nhands; k++)
        if (c->hands[k].live && c->hands[k].fmt == VH_CAB && c->hands[k].p == set[j])
          c->hands[k].live = 0;
    for (k = 0; k < c->nhands; k++) if (taint[k]) c->hands[k].live = 0;
    free(set);
    free(taint);
  }
  else {
    vh_call_begin(c, NULL);
    switch (in->fmt) {
    case VH_CHM:  ((struct mschm_decompressor *) in->p)->close(in->p, c->hands[h].p); break;
    case VH_SZDD: ((struct msszdd_decompressor *) in->p)->close(in->p, c->hands[h].p); break;
    case VH_KWAJ: ((struct mskwaj_decompressor *) in->p)->close(in->p, c->hands[h].p); break;
    }
    vh_call_end(c);
    c->hands[h].live = 0;
  }
  vh_out(c, "close ok");
  vh_out_counts(c);
  vh_out_nl(c);
}

static void op_merge(struct vh_ctx *c, int nt, char **t) {
  const char *op = t[0];
  long ii, ha, hb;
  struct mscab_decompressor *d;
  int st;
  if (nt != 4) { fail_line(c, op, "bad-args"); return; }
  if (get_inst(c, op, t[1], &ii)) return;
  if (c->insts[ii].fmt != VH_CAB) { fail_line(c, op, "unsupported"); return; }
  if (get_hand(c, op, t[2], ii, &ha)) return;
  if (get_hand(c, op, t[3], ii, &hb)) return;
  d = c->insts[ii].p;
  vh_call_begin(c, NULL);
  if (strcmp(op, "append") == 0) st = d->append(d, c->hands[ha].p, c->hands[hb].p);
  else                           st = d->prepend(d, c->hands[ha].p, c->hands[hb].p);
  vh_call_end(c);
  vh_out(c, "%s st=%d err=%d", op, st, d->last_error(d));
  vh_out_counts(c);
  vh_out_nl(c);
}

static void op_dump(struct vh_ctx *c, int nt, char **t) {
  long ii, h;
  if (nt != 3) { fail_line(c, "dump", "bad-args"); return; }
  if (get_inst(c, "dump", t[1], &ii)) return;
  if (c->insts[ii].fmt == VH_OAB) { fail_line(c, "dump", "unsupported"); return; }
  if (get_hand(c, "dump", t[2], ii, &h)) return;
  vh_out(c, "dump h%ld", h);
  vh_out_nl(c);
  dump_hand(c, h);
}

/* prints " written=W declared=D out=..." (declared omitted if < 0) */
static void out_extract_tail(struct vh_ctx *c, long ii, long long declared, int with_declared,
                             const char *outname)
{
  if (c->insts[ii].is_default) {
    disk_read_back(c, outname);
    vh_out(c, " written=-");
  }
  else vh_out(c, " written=%lld", c->call_written);
  if (with_declared) vh_out(c, " declared=%lld", declared);
  vh_out(c, " out=");
  vh_out_snapshot(c, outname);
}

static void op_extract(struct vh_ctx *c, int nt, char **t) {
  long ii, h;
  long long idx = 0, declared = 0, j;
  struct vh_inst *in;
  const char *out;
  int st = 0, sysfiles = 0;
  if (nt != 5) { fail_line(c, "extract", "bad-args"); return; }
  if (get_inst(c, "extract", t[1], &ii)) return;
  in = &c->insts[ii];
  if (in->fmt == VH_OAB) { fail_line(c, "extract", "unsupported"); return; }
  if (get_hand(c, "extract", t[2], ii, &h)) return;
  if (in->fmt == VH_CAB || in->fmt == VH_CHM) {
    const char *s = t[3];
    if (in->fmt == VH_CHM && s[0] == 's') { sysfiles = 1; s++; }
    if (parse_num(s, &idx) || idx < 0) { fail_line(c, "extract", "bad-args"); return; }
  }
  else if (strcmp(t[3], "-") != 0) { fail_line(c, "extract", "bad-args"); return; }
  if (check_disk_names(c, "extract", ii, 1, t[4])) return;

  if (in->fmt == VH_CAB) {
    struct mscabd_cabinet *cab = c->hands[h].p;
    struct mscabd_file *fi = cab->files;
    struct mscab_decompressor *d = in->p;
    for (j = 0; fi && j < idx; j++) fi = fi->next;
    if (!fi) { fail_line(c, "extract", "bad-index"); return; }
    declared = fi->length;
    out = vh_name_reg(c, t[4], VH_ROLE_OUT);
    if (in->is_default) disk_sync_out(c);
    vh_call_begin(c, out);
    st = d->extract(d, fi, out);
  }
  else if (in->fmt == VH_CHM) {
    struct mschmd_header *chm = c->hands[h].p;
    struct mschmd_file *fi = sysfiles ? chm->sysfiles : chm->files;
    struct mschm_decompressor *d = in->p;
    for (j = 0; fi && j < idx; j++) fi = fi->next;
    if (!fi) { fail_line(c, "extract", "bad-index"); return; }
    declared = fi->length;
    out = vh_name_reg(c, t[4], VH_ROLE_OUT);
    if (in->is_default) disk_sync_out(c);
    vh_call_begin(c, out);
    st = d->extract(d, fi, out);
  }
  else if (in->fmt == VH_SZDD) {
    struct msszdd_decompressor *d = in->p;
    declared = ((struct msszddd_header *) c->hands[h].p)->length;
    out = vh_name_reg(c, t[4], VH_ROLE_OUT);
    if (in->is_default) disk_sync_out(c);
    vh_call_begin(c, out);
    st = d->extract(d, c->hands[h].p, out);
  }
  else {
    struct mskwaj_decompressor *d = in->p;
    declared = ((struct mskwajd_header *) c->hands[h].p)->length;
    out = vh_name_reg(c, t[4], VH_ROLE_OUT);
    if (in->is_default) disk_sync_out(c);
    vh_call_begin(c, out);
    st = d->extract(d, c->hands[h].p, out);
  }
  vh_call_end(c);
  vh_out(c, "extract st=%d", st);
  out_err(c, ii);
  out_extract_tail(c, ii, declared, 1, out);
  vh_out_counts(c);
  vh_out_nl(c);
}

/* fastfind / ffextract */
static void op_fastfind(struct vh_ctx *c, int nt, char **t) {
  const char *op = t[0], *out = NULL;
  int ff = strcmp(op, "ffextract") == 0, st, err, sec;
  long ii, h;
  unsigned char *name; size_t nlen;
  struct mschmd_file f;
  struct mschm_decompressor *d;
  struct mschmd_header *chm;
  if (nt != (ff ? 5 : 4)) { fail_line(c, op, "bad-args"); return; }
  if (get_inst(c, op, t[1], &ii)) return;
  if (c->insts[ii].fmt != VH_CHM) { fail_line(c, op, "unsupported"); return; }
  if (get_hand(c, op, t[2], ii, &h)) return;
  if (ff && check_disk_names(c, op, ii, 1, t[4])) return;
  if (vh_unhex(t[3], &name, &nlen)) { fail_line(c, op, "bad-args"); return; }
  d = c->insts[ii].p;
  chm = c->hands[h].p;
  if (ff) out = vh_name_reg(c, t[4], VH_ROLE_OUT);
  if (c->insts[ii].is_default) disk_sync_out(c);
  memset(&f, c->fill, sizeof f);
  vh_call_begin(c, NULL);
  st = d->fast_find(d, chm, (char *) name, &f, (int) sizeof f);
  vh_call_end(c);
  err = d->last_error(d);
  free(name);
  if (st != 0) sec = -2;
  else if (!f.section) sec = -1;
  else if (f.section == (struct mschmd_section *) &chm->sec0) sec = 0;
  else if (f.section == (struct mschmd_section *) &chm->sec1) sec = 1;
  else sec = -2;
  if (!ff) {
    vh_out(c, "fastfind st=%d err=%d", st, err);
    if (st != 0) vh_out(c, " sec=-1 off=0 len=0");
    else if (sec == -2) vh_out(c, " sec=? off=%lld len=%lld", (long long) f.offset, (long long) f.length);
    else vh_out(c, " sec=%d off=%lld len=%lld", sec, (long long) f.offset, (long long) f.length);
  }
  else if (st != 0 || sec < 0) {
    vh_out(c, "ffextract st=%d err=%d notfound", st, err);
  }
  else {
    vh_call_begin(c, out);
    st = d->extract(d, &f, out);
    vh_call_end(c);
    vh_out(c, "ffextract st=%d", st);
    out_err(c, ii);
    out_extract_tail(c, ii, (long long) f.length, 1, out);
  }
  vh_out_counts(c);
  vh_out_nl(c);
}

static void op_decompress(struct vh_ctx *c, int nt, char **t) {
  const char *op = t[0], *in_name, *base_name = NULL, *out;
  int inc = strcmp(op, "decompressinc") == 0, st = 0;
  long ii;
  struct vh_inst *in;
  if (nt != (inc ? 5 : 4)) { fail_line(c, op, "bad-args"); return; }
  if (get_inst(c, op, t[1], &ii)) return;
  in = &c->insts[ii];
  if (inc ? in->fmt != VH_OAB : (in->fmt != VH_SZDD && in->fmt != VH_KWAJ && in->fmt != VH_OAB)) {
    fail_line(c, op, "unsupported"); return;
  }
  if (inc ? check_disk_names(c, op, ii, 3, t[2], t[3], t[4])
          : check_disk_names(c, op, ii, 2, t[2], t[3])) return;
  in_name = vh_name_reg(c, t[2], VH_ROLE_IN);
  if (inc) base_name = vh_name_reg(c, t[3], VH_ROLE_IN);
  out = vh_name_reg(c, t[inc ? 4 : 3], VH_ROLE_OUT);
  if (in->is_default) disk_sync_out(c);
  vh_call_begin(c, out);
  switch (in->fmt) {
  case VH_SZDD: st = ((struct msszdd_decompressor *) in->p)->decompress(in->p, in_name, out); break;
  case VH_KWAJ: st = ((struct mskwaj_decompressor *) in->p)->decompress(in->p, in_name, out); break;
  case VH_OAB:
    if (inc) st = ((struct msoab_decompressor *) in->p)->decompress_incremental(in->p, in_name, base_name, out);
    else     st = ((struct msoab_decompressor *) in->p)->decompress(in->p, in_name, out);
    break;
  }
  vh_call_end(c);
  vh_out(c, "%s st=%d", op, st);
  out_err(c, ii);
  out_extract_tail(c, ii, 0, 0, out);
  vh_out_counts(c);
  vh_out_nl(c);
}

static void op_destroy(struct vh_ctx *c, int nt, char **t) {
  long ii;
  struct vh_inst *in;
  if (nt != 2) { fail_line(c, "destroy", "bad-args"); return; }
  if (get_inst(c, "destroy", t[1], &ii)) return;
  in = &c->insts[ii];
  vh_call_begin(c, NULL);
  switch (in->fmt) {
  case VH_CAB:  mspack_destroy_cab_decompressor(in->p); break;
  case VH_CHM:  mspack_destroy_chm_decompressor(in->p); break;
  case VH_SZDD: mspack_destroy_szdd_decompressor(in->p); break;
  case VH_KWAJ: mspack_destroy_kwaj_decompressor(in->p); break;
  case VH_OAB:  mspack_destroy_oab_decompressor(in->p); break;
  }
  vh_call_end(c);
  in->live = 0;
  vh_out(c, "destroy ok");
  vh_out_counts(c);
  vh_out_nl(c);
}

/* ------------------------------------------------------------------ */
/* directives                                                          */

static int dir_file(struct vh_ctx *c, int nt, char **t) {
  unsigned char *b; size_t n;
  if (nt != 3 || vh_unhex(t[2], &b, &n)) return -1;
  vh_file_put(c, t[1], b, n);
  free(b);
  return 0;
}

static int dir_filerep(struct vh_ctx *c, int nt, char **t) {
  unsigned char *b, *full; size_t n, i;
  long long total;
  if (nt != 4 || parse_num(t[2], &total) || total < 0 || vh_unhex(t[3], &b, &n)) return -1;
  if (total > 0 && n == 0) { free(b); return -1; }
  full = vh_xmalloc((size_t) total + 1);
  for (i = 0; i < (size_t) total; i++) full[i] = b[i % n];
  vh_file_put(c, t[1], full, (size_t) total);
  free(full); free(b);
  return 0;
}

static int dir_fileref(struct vh_ctx *c, int nt, char **t) {
  FILE *f;
  unsigned char *buf = NULL; size_t len = 0, cap = 0, n;
  if (nt != 3) return -1;
  if (!(f = fopen(t[2], "rb"))) return -1;
  for (;;) {
    if (len == cap) { cap = cap ? cap * 2 : 65536; buf = vh_xrealloc(buf, cap); }
    n = fread(buf + len, 1, cap - len, f);
    if (!n) break;
    len += n;
  }
  fclose(f);
  vh_file_put(c, t[1], buf, len);
  free(buf);
  return 0;
}

static int dir_fault(struct vh_ctx *c, int nt, char **t) {
  static const char *kinds[] = { "alloc", "open", "read", "write", "seek" };
  int k, kind = -1, mode = 0;
  long long n;
  if (nt < 3 || nt > 4) return -1;
  for (k = 0; k < 5; k++) if (strcmp(t[1], kinds[k]) == 0) kind = k;
  if (kind < 0 || parse_num(t[2], &n) || n < 1) return -1;
  if (nt == 4) {
    if (kind != VH_K_WRITE) return -1;
    if (strcmp(t[3], "short") == 0) mode = 1;
    else if (strcmp(t[3], "err") != 0) return -1;
  }
  if (c->nfaults == c->cfaults) {
    c->cfaults = c->cfaults ? c->cfaults * 2 : 8;
    c->faults = vh_xrealloc(c->faults, c->cfaults * sizeof *c->faults);
  }
  c->faults[c->nfaults].kind = kind;
  c->faults[c->nfaults].k = (long) n;
  c->faults[c->nfaults].mode = mode;
  c->nfaults++;
  return 0;
}

static int dir_onoff(int nt, char **t, int *flag) {
  if (nt != 2) return -1;
  if (strcmp(t[1], "on") == 0) *flag = 1;
  else if (strcmp(t[1], "off") == 0) *flag = 0;
  else return -1;
  return 0;
}

/* ------------------------------------------------------------------ */

void vh_ctx_init(struct vh_ctx *c, int out_fd) {
  const char *sb = getenv("VERIF_SCRATCH");
  memset(c, 0, sizeof *c);
  c->out_fd = out_fd;
  c->fill = 0xa5;
  c->scratch_base = (sb && *sb) ? sb : "/verif/build/scratch";
  c->scratch_pid = (long) getpid();
  vh_sys_init(c);
}

void vh_ctx_free(struct vh_ctx *c) {
  vh_sys_destroy(c);
  free(c->insts); free(c->hands); free(c->out);
  memset(c, 0, sizeof *c);
}

void vh_run_case(struct vh_ctx *c, const char *path) {
  FILE *f = fopen(path, "r");
  char *line = NULL;
  size_t cap = 0;
  ssize_t n;
  long lineno = 0, opno = 0;

  vh_sys_set_tls(c);
  if (!f) {
    vh_out(c, "error cannot-read-case");
    vh_out_nl(c);
    return;
  }
  while ((n = getline(&line, &cap, f)) >= 0) {
    char *tok[MAXTOK], *p;
    int nt = 0, r = 0, is_dir = 1;
    lineno++;
    while (n > 0 && (line[n - 1] == '\n' || line[n - 1] == '\r')) line[--n] = 0;
    if (n == 0 || line[0] == '#') continue;
    for (p = line; nt < MAXTOK; ) {
      tok[nt++] = p;
      if (!(p = strchr(p, ' '))) break;
      *p++ = 0;
    }
    if (p) {                                     /* too many tokens */
      vh_out(c, "%s bad-args", tok[0]); vh_out_nl(c);
      continue;
    }

    if      (strcmp(tok[0], "file") == 0)    r = dir_file(c, nt, tok);
    else if (strcmp(tok[0], "filerep") == 0) r = dir_filerep(c, nt, tok);
    else if (strcmp(tok[0], "fileref") == 0) r = dir_fileref(c, nt, tok);
    else if (strcmp(tok[0], "fill") == 0) {
      unsigned char *b; size_t bl;
      if (nt != 2 || vh_unhex(tok[1], &b, &bl)) r = -1;
      else { if (bl == 1) c->fill = b[0]; else r = -1; free(b); }
    }
    else if (strcmp(tok[0], "fault") == 0)   r = dir_fault(c, nt, tok);
    else if (strcmp(tok[0], "trace") == 0)   r = dir_onoff(nt, tok, &c->trace);
    else if (strcmp(tok[0], "edges") == 0)   r = dir_onoff(nt, tok, &c->edges);
    else is_dir = 0;

    if (is_dir) {
      if (r) { vh_out(c, "error line=%ld %s bad-directive", lineno, tok[0]); vh_out_nl(c); }
      continue;
    }

    c->op_index = opno++;
    if (c->op_index_shared) *c->op_index_shared = c->op_index;
    op_reset(c);

    if      (strcmp(tok[0], "new") == 0)       op_new(c, nt, tok);
    else if (strcmp(tok[0], "param") == 0)     op_param(c, nt, tok);
    else if (strcmp(tok[0], "open") == 0 ||
             strcmp(tok[0], "fastopen") == 0)  op_open(c, nt, tok);
    else if (strcmp(tok[0], "search") == 0)    op_search(c, nt, tok);
    else if (strcmp(tok[0], "close") == 0)     op_close(c, nt, tok);
    else if (strcmp(tok[0], "append") == 0 ||
             strcmp(tok[0], "prepend") == 0)   op_merge(c, nt, tok);
    else if (strcmp(tok[0], "dump") == 0)      op_dump(c, nt, tok);
    else if (strcmp(tok[0], "extract") == 0)   op_extract(c, nt, tok);
    else if (strcmp(tok[0], "fastfind") == 0 ||
             strcmp(tok[0], "ffextract") == 0) op_fastfind(c, nt, tok);
    else if (strcmp(tok[0], "decompress") == 0 ||
             strcmp(tok[0], "decompressinc") == 0) op_decompress(c, nt, tok);
    else if (strcmp(tok[0], "destroy") == 0)   op_destroy(c, nt, tok);
    else if (strcmp(tok[0], "prim") == 0)      vh_op_prim(c, nt, tok);
    else if (strcmp(tok[0], "end") == 0)       break;
    else { vh_out(c, "%s unsupported", tok[0]); vh_out_nl(c); }
  }
  free(line);
  fclose(f);

  if (c->op_index_shared) *c->op_index_shared = -1;
  if (c->any_default)
    vh_out(c, "end allocs_live=- handles_live=- monitor=%ld", c->monitors);
  else
    vh_out(c, "end allocs_live=%ld handles_live=%ld monitor=%ld",
           vh_allocs_live(c), vh_handles_live(c), c->monitors);
  vh_out_nl(c);
  scratch_leave(c);
  vh_sys_set_tls(NULL);
}
