/* apiharness -- the instrumented in-memory mspack_system.
 *
 * Every callback finds its context through a thread-local pointer: free(),
 * copy() and message(NULL, ...) carry no self pointer at all, and the self
 * pointer that open()/alloc() receive is not always the caller's structure
 * (cabd.c and chmd.c hand the decoders a *copy* of the mspack_system, so
 * casting self back to the embedding context would be wrong there).
 */
#include <stdio.h>
#include <stdlib.h>
#include <string.h>
#include <stdarg.h>
#include <stdint.h>
#include <limits.h>
#include "harness.h"

#ifdef VH_MSAN
# include <sanitizer/msan_interface.h>
# define ARGCHK(c, var, call) do {                                        \
    if (__msan_test_shadow((const void *) &(var), sizeof(var)) >= 0) {    \
      __msan_unpoison((void *) &(var), sizeof(var));                      \
      vh_monitor((c), "uninit-arg %s", (call));                           \
    } } while (0)
#else
# define ARGCHK(c, var, call) ((void) 0)
#endif

static _Thread_local struct vh_ctx *vh_tls_ctx;

void vh_sys_set_tls(struct vh_ctx *c) { vh_tls_ctx = c; }

/* ------------------------------------------------------------------ */
/* monitor / trace helpers                                             */

void vh_monitor(struct vh_ctx *c, const char *fmt, ...) {
  char buf[2048];
  va_list ap;
  va_start(ap, fmt);
  vsnprintf(buf, sizeof buf, fmt, ap);
  va_end(ap);
  c->monitors++;
  vh_out(c, "MONITOR %s", buf);
  vh_out_nl(c);
}

/* a name printed raw when it is a plain token, else hex:<bytes> ; NULL -> - */
static void fmt_name(char *dst, size_t dstsz, const char *s) {
  size_t i, n;
  int plain = 1;
  if (!s) { snprintf(dst, dstsz, "-"); return; }
  n = strlen(s);
  if (n == 0) plain = 0;
  for (i = 0; i < n; i++) {
    unsigned char ch = (unsigned char) s[i];
    if (ch < 0x21 || ch > 0x7e) { plain = 0; break; }
  }
  if (plain && n + 1 <= dstsz) { memcpy(dst, s, n + 1); return; }
  {
    size_t o = 0;
    o += (size_t) snprintf(dst, dstsz, "hex:");
    for (i = 0; i < n && o + 3 < dstsz; i++)
      o += (size_t) snprintf(dst + o, dstsz - o, "%02x", (unsigned char) s[i]);
  }
}

/* ------------------------------------------------------------------ */
/* in-memory files and names                                           */

struct vh_memfile *vh_file_find(struct vh_ctx *c, const char *name) {
  size_t i;
  for (i = 0; i < c->nfiles; i++)
    if (strcmp(c->files[i]->name, name) == 0) return c->files[i];
  return NULL;
}

static struct vh_memfile *file_create(struct vh_ctx *c, const char *name) {
  struct vh_memfile *mf = vh_xmalloc(sizeof *mf);
  mf->name = vh_xstrdup(name);
  mf->data = NULL; mf->len = mf->cap = 0;
  if (c->nfiles == c->cfiles) {
    c->cfiles = c->cfiles ? c->cfiles * 2 : 16;
    c->files = vh_xrealloc(c->files, c->cfiles * sizeof *c->files);
  }
  c->files[c->nfiles++] = mf;
  return mf;
}

static void file_reserve(struct vh_memfile *mf, size_t need) {
  if (need > mf->cap) {
    size_t nc = mf->cap ? mf->cap : 256;
    while (nc < need) nc *= 2;
    mf->data = vh_xrealloc(mf->data, nc);
    mf->cap = nc;
  }
}

struct vh_memfile *vh_file_put(struct vh_ctx *c, const char *name,
                               const unsigned char *data, size_t len)
{
  struct vh_memfile *mf = vh_file_find(c, name);
  if (!mf) mf = file_create(c, name);
  file_reserve(mf, len ? len : 1);
  if (len) memcpy(mf->data, data, len);
  mf->len = len;
  return mf;
}

const char *vh_name_reg(struct vh_ctx *c, const char *name, int role) {
  size_t i;
  for (i = 0; i < c->nnames; i++) {
    if (strcmp(c->names[i].s, name) == 0) {
      c->names[i].roles |= role;
      return c->names[i].s;
    }
  }
  if (c->nnames == c->cnames) {
    c->cnames = c->cnames ? c->cnames * 2 : 16;
    c->names = vh_xrealloc(c->names, c->cnames * sizeof *c->names);
  }
  c->names[c->nnames].s = vh_xstrdup(name);
  c->names[c->nnames].roles = role;
  return c->names[c->nnames++].s;
}

static struct vh_name *name_find(struct vh_ctx *c, const char *s) {
  size_t i;
  for (i = 0; i < c->nnames; i++) if (c->names[i].s == s) return &c->names[i];
  for (i = 0; i < c->nnames; i++) if (strcmp(c->names[i].s, s) == 0) return &c->names[i];
  return NULL;
}

/* ------------------------------------------------------------------ */
/* fault plan                                                          */

/* counts the call; returns 0 = no fault, 1 = fail, 2 = short write */
static int fault_hit(struct vh_ctx *c, int kind) {
  size_t i;
  long n = ++c->kind_calls[kind];
  c->call_cnt[kind]++;
  for (i = 0; i < c->nfaults; i++) {
    if (c->faults[i].kind == kind && c->faults[i].k == n)
      return (kind == VH_K_WRITE && c->faults[i].mode == 1) ? 2 : 1;
  }
  return 0;
}

/* ------------------------------------------------------------------ */
/* allocation ledger                                                   */

static size_t ptr_hash(const void *p, size_t mask) {
  uint64_t x = (uint64_t) (uintptr_t) p;
  x ^= x >> 33; x *= 0xff51afd7ed558ccdULL; x ^= x >> 33;
  return (size_t) x & mask;
}

static void ptab_insert(struct vh_ctx *c, void *p, size_t idx);

static void ptab_grow(struct vh_ctx *c) {
  size_t *old = c->ptab, oldsize = c->ptab_size, i;
  c->ptab_size = oldsize ? oldsize * 2 : 1024;
  c->ptab = vh_xmalloc(c->ptab_size * sizeof *c->ptab);
  memset(c->ptab, 0, c->ptab_size * sizeof *c->ptab);
  c->ptab_used = 0;
  for (i = 0; i < oldsize; i++)
    if (old[i]) ptab_insert(c, c->arecs[old[i] - 1].ptr, old[i] - 1);
  free(old);
}

static void ptab_insert(struct vh_ctx *c, void *p, size_t idx) {
  size_t mask, h;
  if ((c->ptab_used + 1) * 2 > c->ptab_size) ptab_grow(c);
  mask = c->ptab_size - 1;
  for (h = ptr_hash(p, mask); ; h = (h + 1) & mask) {
    if (!c->ptab[h]) { c->ptab[h] = idx + 1; c->ptab_used++; return; }
    if (c->arecs[c->ptab[h] - 1].ptr == p) { c->ptab[h] = idx + 1; return; }
  }
}

static struct vh_arec *ptab_find(struct vh_ctx *c, const void *p) {
  size_t mask, h;
  if (!c->ptab_size) return NULL;
  mask = c->ptab_size - 1;
  for (h = ptr_hash(p, mask); c->ptab[h]; h = (h + 1) & mask)
    if (c->arecs[c->ptab[h] - 1].ptr == p) return &c->arecs[c->ptab[h] - 1];
  return NULL;
}

/* the live allocation containing address p, or NULL */
static struct vh_arec *ledger_containing(struct vh_ctx *c, const void *p) {
  struct vh_arec *r = ptab_find(c, p);
  size_t i;
  if (r && r->live) return r;
  for (i = c->nlive; i-- > 0; ) {
    r = &c->arecs[c->live[i]];
    if ((uintptr_t) p >= (uintptr_t) r->ptr &&
        (uintptr_t) p <  (uintptr_t) r->ptr + r->size) return r;
  }
  return NULL;
}

/* if buf lies in a live allocation and buf+n leaves it: monitor, and return
 * the number of bytes that do fit; otherwise n */
static size_t ledger_room(struct vh_ctx *c, const void *buf, size_t n, const char *call) {
  struct vh_arec *r;
  size_t room;
  if (!buf || n == 0) return n;
  if (!(r = ledger_containing(c, buf))) return n;
  room = (size_t) ((uintptr_t) r->ptr + r->size - (uintptr_t) buf);
  if (n > room) {
    vh_monitor(c, "buffer-too-small %s", call);
    return room;
  }
  return n;
}

long vh_allocs_live(struct vh_ctx *c) { return (long) c->nlive; }
long vh_handles_live(struct vh_ctx *c) { return c->fhs_live; }

/* ------------------------------------------------------------------ */
/* handles                                                             */

enum { H_OK, H_NULL, H_UNKNOWN, H_CLOSED };

static struct vh_fh *fh_lookup(struct vh_ctx *c, struct mspack_file *file, int *st) {
  size_t i;
  if (!file) { *st = H_NULL; return NULL; }
  for (i = c->nfhs; i-- > 0; ) {
    if ((struct mspack_file *) c->fhs[i] == file) {
      *st = c->fhs[i]->closed ? H_CLOSED : H_OK;
      return c->fhs[i];
    }
  }
  *st = H_UNKNOWN;
  return NULL;
}

/* validates the handle for an I/O call; prints the monitor line if bad */
static struct vh_fh *fh_use(struct vh_ctx *c, struct mspack_file *file,
                            const char *call, char *idbuf, size_t idsz)
{
  int st;
  struct vh_fh *fh = fh_lookup(c, file, &st);
  switch (st) {
  case H_OK:      snprintf(idbuf, idsz, "f%ld", fh->id); return fh;
  case H_NULL:    vh_monitor(c, "null-handle %s", call); snprintf(idbuf, idsz, "-"); break;
  case H_UNKNOWN: vh_monitor(c, "unknown-handle %s", call); snprintf(idbuf, idsz, "f?"); break;
  case H_CLOSED:  vh_monitor(c, "use-closed-handle %s", call); snprintf(idbuf, idsz, "f%ld", fh->id); break;
  }
  return NULL;
}

/* ------------------------------------------------------------------ */
/* the callbacks                                                       */

static struct mspack_file *cb_open(struct mspack_system *self, const char *filename, int mode) {
  struct vh_ctx *c = vh_tls_ctx;
  struct vh_fh *fh = NULL;
  struct vh_memfile *mf;
  struct vh_name *nm;
  char nbuf[1200];
  int fault, bad = 0;
  (void) self;

  ARGCHK(c, filename, "open");
  ARGCHK(c, mode, "open");
  fault = fault_hit(c, VH_K_OPEN);

  if (!filename) {
    vh_monitor(c, "filename-identity -");
    if (c->trace) { vh_out(c, "ev open - %d -> NULL", mode); vh_out_nl(c); }
    return NULL;
  }
  fmt_name(nbuf, sizeof nbuf, filename);
  nm = name_find(c, filename);
  if (!nm) vh_monitor(c, "filename-identity %s", nbuf);

  if (mode < MSPACK_SYS_OPEN_READ || mode > MSPACK_SYS_OPEN_APPEND) {
    vh_monitor(c, "bad-open-mode %s %d", nbuf, mode);
    bad = 1;
  }
  else if (nm) {
    int ok = 0;
    if ((nm->roles & VH_ROLE_IN)  && mode == MSPACK_SYS_OPEN_READ)  ok = 1;
    if ((nm->roles & VH_ROLE_OUT) && mode == MSPACK_SYS_OPEN_WRITE) ok = 1;
    if (!ok) vh_monitor(c, "bad-open-mode %s %d", nbuf, mode);
  }

  if (!fault && !bad) {
    mf = vh_file_find(c, filename);
    switch (mode) {
    case MSPACK_SYS_OPEN_READ:
    case MSPACK_SYS_OPEN_UPDATE:
      break;                       /* must exist */
    case MSPACK_SYS_OPEN_WRITE:
      if (!mf) mf = file_create(c, filename);
      mf->len = 0;
      break;
    case MSPACK_SYS_OPEN_APPEND:
      if (!mf) mf = file_create(c, filename);
      break;
    }
    if (mf) {
      fh = vh_xmalloc(sizeof *fh);
      fh->base.dummy = 0;
      fh->ctx = c;
      fh->id = (long) c->nfhs;
      fh->mf = mf;
      fh->name = mf->name;
      fh->mode = mode;
      fh->closed = 0;
      fh->pos = (mode == MSPACK_SYS_OPEN_APPEND) ? (off_t) mf->len : 0;
      if (c->nfhs == c->cfhs) {
        c->cfhs = c->cfhs ? c->cfhs * 2 : 16;
        c->fhs = vh_xrealloc(c->fhs, c->cfhs * sizeof *c->fhs);
      }
      c->fhs[c->nfhs++] = fh;
      c->fhs_live++;
    }
  }
  if (c->trace) {
    if (fh) vh_out(c, "ev open %s %d -> f%ld", nbuf, mode, fh->id);
    else    vh_out(c, "ev open %s %d -> NULL", nbuf, mode);
    vh_out_nl(c);
  }
  return (struct mspack_file *) fh;
}

static void cb_close(struct mspack_file *file) {
  struct vh_ctx *c = vh_tls_ctx;
  struct vh_fh *fh;
  int st;
  ARGCHK(c, file, "close");
  fh = fh_lookup(c, file, &st);
  switch (st) {
  case H_NULL:    vh_monitor(c, "null-handle close"); break;
  case H_UNKNOWN: vh_monitor(c, "close-unknown close"); break;
  case H_CLOSED:  vh_monitor(c, "double-close close"); break;
  case H_OK:
    fh->closed = 1;
    c->fhs_live--;
    break;
  }
  if (c->trace) {
    if (fh) vh_out(c, "ev close f%ld", fh->id);
    else    vh_out(c, "ev close %s", st == H_NULL ? "-" : "f?");
    vh_out_nl(c);
  }
}

static int cb_read(struct mspack_file *file, void *buffer, int bytes) {
  struct vh_ctx *c = vh_tls_ctx;
  struct vh_fh *fh;
  char id[32];
  int fault, r = -1;

  ARGCHK(c, file, "read");
  ARGCHK(c, buffer, "read");
  ARGCHK(c, bytes, "read");
  fault = fault_hit(c, VH_K_READ);
  fh = fh_use(c, file, "read", id, sizeof id);
  if (bytes < 0) vh_monitor(c, "negative-size read");
  else if (!buffer && bytes > 0) vh_monitor(c, "null-buffer read");
  else if (fh && !fault && fh->mode != MSPACK_SYS_OPEN_WRITE) {
    size_t n = ledger_room(c, buffer, (size_t) bytes, "read");
    size_t avail = ((size_t) fh->pos < fh->mf->len) ? fh->mf->len - (size_t) fh->pos : 0;
    if (n > avail) n = avail;
    if (n) memcpy(buffer, fh->mf->data + fh->pos, n);
    fh->pos += (off_t) n;
    r = (int) n;
  }
  if (c->trace) { vh_out(c, "ev read %s %d -> %d", id, bytes, r); vh_out_nl(c); }
  return r;
}

static int cb_write(struct mspack_file *file, void *buffer, int bytes) {
  struct vh_ctx *c = vh_tls_ctx;
  struct vh_fh *fh;
  char id[32];
  int fault, r = -1;

  ARGCHK(c, file, "write");
  ARGCHK(c, buffer, "write");
  ARGCHK(c, bytes, "write");
  fault = fault_hit(c, VH_K_WRITE);
  fh = fh_use(c, file, "write", id, sizeof id);
  if (bytes < 0) vh_monitor(c, "negative-size write");
  else if (!buffer && bytes > 0) vh_monitor(c, "null-buffer write");
  else if (fh && fault != 1 && fh->mode != MSPACK_SYS_OPEN_READ) {
    size_t n = ledger_room(c, buffer, (size_t) bytes, "write");
    struct vh_memfile *mf = fh->mf;
#ifdef VH_MSAN
    if (n) {
      intptr_t k = __msan_test_shadow(buffer, n);
      if (k >= 0) vh_monitor(c, "uninit-write off=%ld", (long) k);
    }
#endif
    if (fault == 2) n = (size_t) bytes / 2 < n ? (size_t) bytes / 2 : n;
    if (n) {
      file_reserve(mf, (size_t) fh->pos + n);
      if ((size_t) fh->pos > mf->len)
        memset(mf->data + mf->len, 0, (size_t) fh->pos - mf->len);
      memcpy(mf->data + fh->pos, buffer, n);
#ifdef VH_MSAN
      __msan_unpoison(mf->data + fh->pos, n);
#endif
      fh->pos += (off_t) n;
      if ((size_t) fh->pos > mf->len) mf->len = (size_t) fh->pos;
    }
    if (c->call_outname && strcmp(fh->name, c->call_outname) == 0)
      c->call_written += (long long) n;
    r = (int) n;
  }
  if (c->trace) { vh_out(c, "ev write %s %d -> %d", id, bytes, r); vh_out_nl(c); }
  return r;
}

static int cb_seek(struct mspack_file *file, off_t offset, int mode) {
  struct vh_ctx *c = vh_tls_ctx;
  struct vh_fh *fh;
  char id[32];
  int fault, r = -1;

  ARGCHK(c, file, "seek");
  ARGCHK(c, offset, "seek");
  ARGCHK(c, mode, "seek");
  fault = fault_hit(c, VH_K_SEEK);
  fh = fh_use(c, file, "seek", id, sizeof id);
  if (mode != MSPACK_SYS_SEEK_START && mode != MSPACK_SYS_SEEK_CUR &&
      mode != MSPACK_SYS_SEEK_END)
  {
    vh_monitor(c, "bad-seek-mode %d", mode);
  }
  else if (fh && !fault) {
    off_t base = 0, np;
    if (mode == MSPACK_SYS_SEEK_CUR) base = fh->pos;
    if (mode == MSPACK_SYS_SEEK_END) base = (off_t) fh->mf->len;
    if (!__builtin_add_overflow(base, offset, &np) && np >= 0) {
      fh->pos = np;
      r = 0;
    }
  }
  if (c->trace) {
    vh_out(c, "ev seek %s %lld %d -> %d", id, (long long) offset, mode, r);
    vh_out_nl(c);
  }
  return r;
}

static off_t cb_tell(struct mspack_file *file) {
  struct vh_ctx *c = vh_tls_ctx;
  struct vh_fh *fh;
  char id[32];
  off_t r = 0;
  ARGCHK(c, file, "tell");
  (void) fault_hit(c, VH_K_TELL);          /* counted, never faulted */
  fh = fh_use(c, file, "tell", id, sizeof id);
  if (fh) r = fh->pos;
  if (c->trace) { vh_out(c, "ev tell %s -> %lld", id, (long long) r); vh_out_nl(c); }
  return r;
}

static void cb_message(struct mspack_file *file, const char *format, ...) {
  struct vh_ctx *c = vh_tls_ctx;
  char id[32], text[1024];
  va_list ap;
  int n;
  ARGCHK(c, file, "message");
  ARGCHK(c, format, "message");
  if (file) (void) fh_use(c, file, "message", id, sizeof id);
  else snprintf(id, sizeof id, "-");
  if (!format) { vh_monitor(c, "null-buffer message"); return; }
  va_start(ap, format);
  n = vsnprintf(text, sizeof text, format, ap);
  va_end(ap);
  if (n < 0) n = 0;
  if ((size_t) n >= sizeof text) n = (int) sizeof text - 1;
#ifdef VH_MSAN
  __msan_unpoison(text, sizeof text);
#endif
  if (c->trace) {
    vh_out(c, "ev msg %s ", id);
    if (n) vh_out_hex(c, (unsigned char *) text, (size_t) n); else vh_out(c, "-");
    vh_out_nl(c);
  }
}

static void *cb_alloc(struct mspack_system *self, size_t bytes) {
  struct vh_ctx *c = vh_tls_ctx;
  struct vh_arec *r;
  void *p = NULL;
  int fault;
  (void) self;
  ARGCHK(c, bytes, "alloc");
  fault = fault_hit(c, VH_K_ALLOC);
  if (bytes > (size_t) PTRDIFF_MAX) vh_monitor(c, "negative-size alloc");
  else if (!fault) p = malloc(bytes ? bytes : 1);
  if (p) {
    memset(p, c->fill, bytes ? bytes : 1);
#ifdef VH_MSAN
    __msan_allocated_memory(p, bytes ? bytes : 1);
#endif
    if (c->narecs == c->carecs) {
      c->carecs = c->carecs ? c->carecs * 2 : 256;
      c->arecs = vh_xrealloc(c->arecs, c->carecs * sizeof *c->arecs);
    }
    r = &c->arecs[c->narecs];
    r->ptr = p; r->size = bytes; r->id = (long) c->narecs; r->live = 1;
    if (c->nlive == c->clive) {
      c->clive = c->clive ? c->clive * 2 : 256;
      c->live = vh_xrealloc(c->live, c->clive * sizeof *c->live);
    }
    r->livepos = c->nlive;
    c->live[c->nlive++] = c->narecs;
    ptab_insert(c, p, c->narecs);
    c->narecs++;
  }
  if (c->trace) {
    if (p) vh_out(c, "ev alloc %zu -> a%ld", bytes, (long) c->narecs - 1);
    else   vh_out(c, "ev alloc %zu -> NULL", bytes);
    vh_out_nl(c);
  }
  return p;
}

static void cb_free(void *ptr) {
  struct vh_ctx *c = vh_tls_ctx;
  struct vh_arec *r;
  ARGCHK(c, ptr, "free");
  if (!ptr) {
    if (c->trace) { vh_out(c, "ev free -"); vh_out_nl(c); }
    return;
  }
  r = ptab_find(c, ptr);
  if (!r) {
    vh_monitor(c, "free-unknown free");
    if (c->trace) { vh_out(c, "ev free a?"); vh_out_nl(c); }
    return;
  }
  if (!r->live) {
    vh_monitor(c, "double-free free");
    if (c->trace) { vh_out(c, "ev free a%ld", r->id); vh_out_nl(c); }
    return;
  }
  r->live = 0;
  {
    size_t last = c->live[c->nlive - 1];
    c->live[r->livepos] = last;
    c->arecs[last].livepos = r->livepos;
    c->nlive--;
  }
  if (c->trace) { vh_out(c, "ev free a%ld", r->id); vh_out_nl(c); }
  free(ptr);
}

static void cb_copy(void *src, void *dest, size_t bytes) {
  struct vh_ctx *c = vh_tls_ctx;
  size_t n = bytes, m;
  ARGCHK(c, src, "copy");
  ARGCHK(c, dest, "copy");
  ARGCHK(c, bytes, "copy");
  if (c->trace) { vh_out(c, "ev copy %zu", bytes); vh_out_nl(c); }
  if (bytes > (size_t) PTRDIFF_MAX) { vh_monitor(c, "negative-size copy"); return; }
  if (bytes == 0) return;
  if (!src || !dest) { vh_monitor(c, "null-buffer copy"); return; }
  if ((uintptr_t) src < (uintptr_t) dest + bytes &&
      (uintptr_t) dest < (uintptr_t) src + bytes)
    vh_monitor(c, "copy-overlap");
  m = ledger_room(c, src, n, "copy");  if (m < n) n = m;
  m = ledger_room(c, dest, n, "copy"); if (m < n) n = m;
  memmove(dest, src, n);
}

void vh_sys_init(struct vh_ctx *c) {
  c->sys.open = cb_open;
  c->sys.close = cb_close;
  c->sys.read = cb_read;
  c->sys.write = cb_write;
  c->sys.seek = cb_seek;
  c->sys.tell = cb_tell;
  c->sys.message = cb_message;
  c->sys.alloc = cb_alloc;
  c->sys.free = cb_free;
  c->sys.copy = cb_copy;
  c->sys.null_ptr = NULL;
}

/* releases the harness's own bookkeeping; live library allocations are
 * released too (only used by --threads mode, where contexts are recycled) */
void vh_sys_destroy(struct vh_ctx *c) {
  size_t i;
  for (i = 0; i < c->nlive; i++) free(c->arecs[c->live[i]].ptr);
  free(c->arecs); free(c->live); free(c->ptab);
  for (i = 0; i < c->nfhs; i++) free(c->fhs[i]);
  free(c->fhs);
  for (i = 0; i < c->nfiles; i++) {
    free(c->files[i]->name); free(c->files[i]->data); free(c->files[i]);
  }
  free(c->files);
  for (i = 0; i < c->nnames; i++) free(c->names[i].s);
  free(c->names);
  free(c->faults);
}
