/* apiharness -- main program: runs case files against the real libmspack.
 *
 *   apiharness [--threads N] CASE...
 *
 * See README.md and /verif/PROTOCOL.md.
 */
#define _GNU_SOURCE 1
#include <stdio.h>
#include <stdlib.h>
#include <string.h>
#include <errno.h>
#include <signal.h>
#include <time.h>
#include <unistd.h>
#include <pthread.h>
#include <sys/mman.h>
#include <sys/wait.h>
#include <sys/stat.h>
#include "harness.h"

/* ------------------------------------------------------------------ */
/* sanitizer plumbing                                                  */

/* the only mutable "global" of the harness: sanitizer-coverage edge
 * executions since the last reset; thread-local, so that --threads runs do
 * not race on it */
_Thread_local unsigned long long vh_edge_counter;

void __sanitizer_cov_trace_pc_guard_init(uint32_t *start, uint32_t *stop) {
  static uint32_t n;
  uint32_t *x;
  if (start == stop || *start) return;
  for (x = start; x < stop; x++) *x = ++n;
}

void __sanitizer_cov_trace_pc_guard(uint32_t *guard) {
  (void) guard;
  vh_edge_counter++;
}

#define DEFOPT __attribute__((used, visibility("default")))
DEFOPT const char *__asan_default_options(void) {
  return "detect_leaks=0:abort_on_error=0:allocator_may_return_null=1";
}
DEFOPT const char *__ubsan_default_options(void) {
  return "print_stacktrace=1";
}
DEFOPT const char *__msan_default_options(void) {
  return "allocator_may_return_null=1";
}
DEFOPT const char *__tsan_default_options(void) {
  return "allocator_may_return_null=1";
}

/* ------------------------------------------------------------------ */
/* utilities                                                           */

void *vh_xmalloc(size_t n) {
  void *p = malloc(n ? n : 1);
  if (!p) { fprintf(stderr, "apiharness: out of memory\n"); _exit(3); }
  return p;
}

void *vh_xrealloc(void *p, size_t n) {
  p = realloc(p, n ? n : 1);
  if (!p) { fprintf(stderr, "apiharness: out of memory\n"); _exit(3); }
  return p;
}

char *vh_xstrdup(const char *s) {
  size_t n = strlen(s) + 1;
  char *p = vh_xmalloc(n);
  memcpy(p, s, n);
  return p;
}

uint64_t vh_fnv1a(const unsigned char *p, size_t n) {
  uint64_t h = 0xcbf29ce484222325ULL;
  size_t i;
  for (i = 0; i < n; i++) { h ^= p[i]; h *= 0x100000001b3ULL; }
  return h;
}

static void out_reserve(struct vh_ctx *c, size_t extra) {
  if (c->out_len + extra + 1 > c->out_cap) {
    size_t nc = c->out_cap ? c->out_cap : 4096;
    while (nc < c->out_len + extra + 1) nc *= 2;
    c->out = vh_xrealloc(c->out, nc);
    c->out_cap = nc;
  }
}

void vh_out(struct vh_ctx *c, const char *fmt, ...) {
  va_list ap;
  int n;
  va_start(ap, fmt);
  n = vsnprintf(NULL, 0, fmt, ap);
  va_end(ap);
  if (n < 0) return;
  out_reserve(c, (size_t) n);
  va_start(ap, fmt);
  vsnprintf(c->out + c->out_len, (size_t) n + 1, fmt, ap);
  va_end(ap);
  c->out_len += (size_t) n;
}

void vh_out_hex(struct vh_ctx *c, const unsigned char *p, size_t n) {
  static const char dig[] = "0123456789abcdef";
  size_t i;
  out_reserve(c, 2 * n);
  for (i = 0; i < n; i++) {
    c->out[c->out_len++] = dig[p[i] >> 4];
    c->out[c->out_len++] = dig[p[i] & 15];
  }
  c->out[c->out_len] = 0;
}

void vh_out_flush(struct vh_ctx *c) {
  size_t off = 0;
  if (c->out_fd < 0) return;
  while (off < c->out_len) {
    ssize_t w = write(c->out_fd, c->out + off, c->out_len - off);
    if (w < 0) { if (errno == EINTR) continue; break; }
    off += (size_t) w;
  }
  c->out_len = 0;
}

void vh_out_nl(struct vh_ctx *c) {
  out_reserve(c, 1);
  c->out[c->out_len++] = '\n';
  c->out[c->out_len] = 0;
  vh_out_flush(c);
}

/* ------------------------------------------------------------------ */
/* fork mode                                                           */

static char *slurp(FILE *f, size_t *len) {
  char *buf = NULL; size_t n = 0, cap = 0, r;
  rewind(f);
  for (;;) {
    if (n + 1 >= cap) { cap = cap ? cap * 2 : 65536; buf = vh_xrealloc(buf, cap); }
    r = fread(buf + n, 1, cap - n - 1, f);
    if (!r) break;
    n += r;
  }
  buf[n] = 0;
  *len = n;
  return buf;
}

/* copies the line starting at s (without newline) */
static char *dup_line(const char *s) {
  size_t n = strcspn(s, "\r\n");
  char *r = vh_xmalloc(n + 1);
  memcpy(r, s, n); r[n] = 0;
  return r;
}

static const char *find_line_with(const char *text, const char *needle, int at_start) {
  const char *p = text;
  while ((p = strstr(p, needle))) {
    const char *ls = p;
    while (ls > text && ls[-1] != '\n') ls--;
    if (!at_start || ls == p) return at_start ? p : ls;
    p++;
  }
  return NULL;
}

static void report_crash(const char *path, int status, const char *err, size_t errlen) {
  char kind[64], *summary = NULL, *spath;
  const char *s = find_line_with(err, "SUMMARY: ", 1);
  const char *re = find_line_with(err, "runtime error:", 0);
  kind[0] = 0;
  if (s) {
    summary = dup_line(s + 9);
    if      (strncmp(summary, "AddressSanitizer", 16) == 0) strcpy(kind, "asan");
    else if (strncmp(summary, "UndefinedBehaviorSanitizer", 26) == 0) strcpy(kind, "ubsan");
    else if (strncmp(summary, "MemorySanitizer", 15) == 0) strcpy(kind, "msan");
    else if (strncmp(summary, "ThreadSanitizer", 15) == 0) strcpy(kind, "tsan");
  }
  if (!kind[0] && re) strcpy(kind, "ubsan");
  if (!summary && re) summary = dup_line(re);
  if (!kind[0] && strstr(err, "ERROR: AddressSanitizer")) strcpy(kind, "asan");
  if (!kind[0] && strstr(err, "WARNING: MemorySanitizer")) strcpy(kind, "msan");
  if (!kind[0]) {
    if (WIFSIGNALED(status)) snprintf(kind, sizeof kind, "signal:%d", WTERMSIG(status));
    else snprintf(kind, sizeof kind, "exit:%d", WEXITSTATUS(status));
  }
  if (summary) {                       /* trim trailing blanks */
    size_t sl = strlen(summary);
    while (sl && (summary[sl - 1] == ' ' || summary[sl - 1] == '\t')) summary[--sl] = 0;
  }
  printf("CRASH kind=%s summary=%s\n", kind, (summary && *summary) ? summary : "-");
  fflush(stdout);
  free(summary);
  if (asprintf(&spath, "%s.stderr", path) >= 0) {
    FILE *o = fopen(spath, "wb");
    if (o) { fwrite(err, 1, errlen, o); fclose(o); }
    free(spath);
  }
}

static void rm_rf_shell(const char *dir) {
  /* the child removes its own scratch directory; this is only for children
   * that died before they could (rm is exec'ed directly, no shell) */
  struct stat st;
  if (lstat(dir, &st) != 0) return;
  if (S_ISDIR(st.st_mode)) {
    pid_t pid = fork();
    if (pid == 0) {
      execl("/bin/rm", "rm", "-rf", "--", dir, (char *) NULL);
      _exit(127);
    }
    if (pid > 0) { int stt; waitpid(pid, &stt, 0); }
  }
}

static void run_forked(const char *path, long caseidx, int timeout) {
  FILE *errf;
  volatile long *shared;
  pid_t pid;
  int status = 0, timed_out = 0;
  struct timespec deadline, now;
  sigset_t chld;
  char *spath;
  const char *sb = getenv("VERIF_SCRATCH");

  printf("== CASE %s\n", path);
  fflush(stdout);
  if (asprintf(&spath, "%s.stderr", path) >= 0) { unlink(spath); free(spath); }

  errf = tmpfile();
  shared = mmap(NULL, sizeof(long), PROT_READ | PROT_WRITE, MAP_SHARED | MAP_ANONYMOUS, -1, 0);
  if (shared == MAP_FAILED) shared = NULL;
  if (shared) *shared = -1;

  sigemptyset(&chld);
  sigaddset(&chld, SIGCHLD);

  pid = fork();
  if (pid < 0) {
    printf("CRASH kind=exit:-1 summary=fork failed\n");
    fflush(stdout);
    if (errf) fclose(errf);
    return;
  }
  if (pid == 0) {
    struct vh_ctx *c = vh_xmalloc(sizeof *c);
    sigset_t none;
    sigemptyset(&none);
    sigprocmask(SIG_SETMASK, &none, NULL);
    if (errf) dup2(fileno(errf), 2);
    alarm((unsigned) timeout + 5);            /* safety net if the parent dies */
    vh_ctx_init(c, 1);
    c->allow_default = 1;
    c->scratch_n = caseidx;
    c->op_index_shared = shared;
    vh_run_case(c, path);
    vh_out_flush(c);
    _exit(0);
  }

  clock_gettime(CLOCK_MONOTONIC, &deadline);
  deadline.tv_sec += timeout;
  for (;;) {
    pid_t r = waitpid(pid, &status, WNOHANG);
    struct timespec left;
    if (r == pid) break;
    if (r < 0 && errno != EINTR) break;
    clock_gettime(CLOCK_MONOTONIC, &now);
    left.tv_sec = deadline.tv_sec - now.tv_sec;
    left.tv_nsec = deadline.tv_nsec - now.tv_nsec;
    if (left.tv_nsec < 0) { left.tv_nsec += 1000000000L; left.tv_sec--; }
    if (left.tv_sec < 0) {
      kill(pid, SIGKILL);
      waitpid(pid, &status, 0);
      timed_out = 1;
      break;
    }
    sigtimedwait(&chld, NULL, &left);
  }

  if (timed_out || (WIFSIGNALED(status) && WTERMSIG(status) == SIGALRM)) {
    if (shared && *shared >= 0) printf("TIMEOUT op=%ld\n", *shared);
    else printf("TIMEOUT op=-\n");
    fflush(stdout);
  }
  else if (WIFSIGNALED(status) || (WIFEXITED(status) && WEXITSTATUS(status) != 0)) {
    size_t n = 0;
    char *err = errf ? slurp(errf, &n) : vh_xstrdup("");
    report_crash(path, status, err, n);
    free(err);
  }
  if (errf) fclose(errf);
  if (shared) munmap((void *) shared, sizeof(long));

  /* scratch directory of a child that did not get to clean up */
  {
    char *dir;
    if (asprintf(&dir, "%s/%ld-%ld", (sb && *sb) ? sb : "/verif/build/scratch",
                 (long) pid, caseidx) >= 0) {
      rm_rf_shell(dir);
      free(dir);
    }
  }
}

/* ------------------------------------------------------------------ */
/* --threads mode                                                      */

struct tjob {
  int t;
  const char *path;
  pthread_barrier_t *bar;
  char *out; size_t len;
};

static void run_buffered(const char *path, char **out, size_t *len) {
  struct vh_ctx *c = vh_xmalloc(sizeof *c);
  vh_ctx_init(c, -1);
  c->allow_default = 0;
  vh_run_case(c, path);
  *out = c->out; *len = c->out_len;
  c->out = NULL;
  vh_ctx_free(c);
  free(c);
}

static void *thread_main(void *arg) {
  struct tjob *j = arg;
  pthread_barrier_wait(j->bar);
  run_buffered(j->path, &j->out, &j->len);
  return NULL;
}

static int run_threads(int nthreads, int ncases, char **cases) {
  struct tjob *jobs = vh_xmalloc((size_t) nthreads * sizeof *jobs);
  pthread_t *tids = vh_xmalloc((size_t) nthreads * sizeof *tids);
  char **solo = vh_xmalloc((size_t) ncases * sizeof *solo);
  size_t *sololen = vh_xmalloc((size_t) ncases * sizeof *sololen);
  pthread_barrier_t bar;
  int t, k, differ = 0;

  pthread_barrier_init(&bar, NULL, (unsigned) nthreads);
  for (t = 0; t < nthreads; t++) {
    jobs[t].t = t;
    jobs[t].path = cases[t % ncases];
    jobs[t].bar = &bar;
    jobs[t].out = NULL; jobs[t].len = 0;
    if (pthread_create(&tids[t], NULL, thread_main, &jobs[t]) != 0) {
      fprintf(stderr, "apiharness: cannot create thread %d\n", t);
      return 2;
    }
  }
  for (t = 0; t < nthreads; t++) pthread_join(tids[t], NULL);
  pthread_barrier_destroy(&bar);

  for (k = 0; k < ncases; k++) run_buffered(cases[k], &solo[k], &sololen[k]);

  for (t = 0; t < nthreads; t++) {
    k = t % ncases;
    if (jobs[t].len == sololen[k] &&
        (jobs[t].len == 0 || memcmp(jobs[t].out, solo[k], jobs[t].len) == 0)) {
      printf("thread %d case %s same\n", t, cases[k]);
    }
    else {
      differ = 1;
      printf("thread %d case %s DIFFERENT\n", t, cases[k]);
      printf("--- concurrent\n");
      if (jobs[t].len) fwrite(jobs[t].out, 1, jobs[t].len, stdout);
      printf("--- solo\n");
      if (sololen[k]) fwrite(solo[k], 1, sololen[k], stdout);
      printf("---\n");
    }
  }
  fflush(stdout);
  for (t = 0; t < nthreads; t++) free(jobs[t].out);
  for (k = 0; k < ncases; k++) free(solo[k]);
  free(jobs); free(tids); free(solo); free(sololen);
  return differ;
}

/* ------------------------------------------------------------------ */

static void on_sigchld(int sig) { (void) sig; }

int main(int argc, char **argv) {
  int nthreads = 0, i = 1, timeout = 20;
  const char *te = getenv("VERIF_CASE_TIMEOUT");
  sigset_t chld;

  if (te && atoi(te) > 0) timeout = atoi(te);
  if (argc > 2 && strcmp(argv[1], "--threads") == 0) {
    nthreads = atoi(argv[2]);
    i = 3;
    if (nthreads < 1) { fprintf(stderr, "apiharness: bad thread count\n"); return 2; }
  }
  if (i >= argc) {
    fprintf(stderr, "usage: apiharness [--threads N] CASE...\n");
    return 2;
  }
  signal(SIGPIPE, SIG_IGN);
  signal(SIGCHLD, on_sigchld);

  if (nthreads) return run_threads(nthreads, argc - i, argv + i);

  sigemptyset(&chld);
  sigaddset(&chld, SIGCHLD);
  sigprocmask(SIG_BLOCK, &chld, NULL);
  for (; i < argc; i++) run_forked(argv[i], (long) i, timeout);
  return 0;
}
