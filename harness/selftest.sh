#!/bin/bash
# selftest.sh -- builds the harness into a temporary directory under /tmp,
# runs the sample cases of cases/ (real fixtures from $VERIF_REPO, default
# /repo) and checks the basic promises of the harness.  Exit status 0 = all
# checks passed.  Everything created under /tmp is removed again.

set -u
HERE=$(cd "$(dirname "${BASH_SOURCE[0]}")" && pwd)
TMP=$(mktemp -d /tmp/vh-selftest.XXXXXX) || exit 2
trap 'rm -rf "$TMP"' EXIT
export VERIF_SCRATCH=$TMP/scratch
BIN=$TMP/bin
CASES=$HERE/cases
fails=0

ok()   { echo "ok   - $*"; }
fail() { echo "FAIL - $*"; fails=$((fails + 1)); }
check() { # check DESCRIPTION COMMAND...   (passes if the command succeeds)
  local d=$1; shift
  if "$@"; then ok "$d"; else fail "$d"; fi
}

# --- build -------------------------------------------------------------------
t0=$(date +%s%N)
if ! "$HERE/build.sh" "$BIN" >"$TMP/build.out" 2>"$TMP/build.err"; then
  cat "$TMP/build.err"
  fail "build.sh"
  echo "selftest: $fails check(s) failed"
  exit 1
fi
t1=$(date +%s%N)
ok "build.sh ($(( (t1 - t0) / 1000000 )) ms)"
check "build.sh is silent on stderr" test ! -s "$TMP/build.err"
for b in apiharness apiharness-msan apiharness-tsan cabextract; do
  check "built $b" test -x "$BIN/$b"
done

INSTR="cab_simple cab_mixed cab_split cab_search chm_fixture kwaj_fixtures szdd_handmade cab_faults cab_fault_write prims"
PAIRS="cab_simple cab_mixed cab_split kwaj_fixtures szdd_handmade"

run() { # run BINARY CASE -> $TMP/out/BINARY.CASE
  mkdir -p "$TMP/out"
  (cd "$CASES" && "$BIN/$1" "$2.case") >"$TMP/out/$1.$2" 2>"$TMP/out/$1.$2.err"
}

# --- ASan/UBSan harness --------------------------------------------------------
for c in $INSTR; do
  run apiharness $c
  o=$TMP/out/apiharness.$c
  check "$c: no CRASH/TIMEOUT" bash -c "! grep -q '^CRASH\|^TIMEOUT' '$o'"
  check "$c: no MONITOR lines" bash -c "! grep -q '^MONITOR' '$o'"
  check "$c: ledger ends at 0/0" grep -q '^end allocs_live=0 handles_live=0 monitor=0$' "$o"
  check "$c: no stale .stderr file" test ! -e "$CASES/$c.case.stderr"
done
for c in cab_simple cab_mixed cab_split cab_search kwaj_fixtures szdd_handmade; do
  o=$TMP/out/apiharness.$c
  check "$c: every extract/decompress has st=0" bash -c \
    "grep -q '^extract st=\|^decompress st=' '$o' && ! grep '^extract st=\|^decompress st=' '$o' | grep -qv ' st=0 err=0 '"
done
check "cab_split: 6 members of the 5-part set extracted with written == declared" bash -c \
  "[ \$(grep -c '^extract st=0 err=0 written=\([0-9]*\) declared=\1 ' '$TMP/out/apiharness.cab_split') = 6 ]"
check "cab_split: closing one cabinet of the set kills the other handles" \
  grep -q '^dump dead-handle$' "$TMP/out/apiharness.cab_split"
check "cab_faults: alloc, open and read faults surface as st=6, st=2, st=3" bash -c \
  "grep -q '^open NULL st=6 err=6' '$TMP/out/apiharness.cab_faults' &&
   grep -q '^extract st=2 err=2' '$TMP/out/apiharness.cab_faults' &&
   grep -q '^extract st=3 err=3' '$TMP/out/apiharness.cab_faults'"
check "cab_fault_write: short write accepted 38 bytes, then st=4" \
  grep -q '^extract st=4 err=4 written=38 declared=77 out=38:' "$TMP/out/apiharness.cab_fault_write"
check "prims: all prim ops available" bash -c "! grep -q 'unavailable\|bad-args\|unsupported' '$TMP/out/apiharness.prims'"
check "prims: FNV-1a/crc32/cksum known answers" bash -c \
  "grep -q '^prim crc32 771566984' '$TMP/out/apiharness.prims' &&
   grep -q '^prim lzss st=0 out=13:7d1bf8fc10fac636:4142434445464748494a414243' '$TMP/out/apiharness.prims' &&
   grep -q '^prim outname 6178782f62' '$TMP/out/apiharness.prims'"

# --- default (stdio) system vs instrumented system -----------------------------
norm() { sed 's/ written=[0-9-]*//; s/^end .*/end/' "$1"; }
for c in $PAIRS; do
  run apiharness ${c}_default
  d=$TMP/out/apiharness.${c}_default
  check "${c}_default: no CRASH/TIMEOUT" bash -c "! grep -q '^CRASH\|^TIMEOUT' '$d'"
  check "${c}_default: end line has no ledger" grep -q '^end allocs_live=- handles_live=- monitor=0$' "$d"
  if diff <(norm "$TMP/out/apiharness.$c" | tail -n +2) <(norm "$d" | tail -n +2) >"$TMP/out/diff.$c"; then
    ok "$c: default system gives the same listing, statuses and output bytes"
  else
    fail "$c: default system differs from instrumented system"; cat "$TMP/out/diff.$c"
  fi
done
check "scratch directories were removed" bash -c "[ -z \"\$(ls -A '$VERIF_SCRATCH' 2>/dev/null)\" ]"

# --- MSan variant ----------------------------------------------------------------
for c in $INSTR; do
  run apiharness-msan $c
  # (the msan build has no coverage instrumentation: edges=0 there)
  if diff <(sed 's/ edges=[0-9]*//' "$TMP/out/apiharness.$c") \
          <(sed 's/ edges=[0-9]*//' "$TMP/out/apiharness-msan.$c") >"$TMP/out/mdiff.$c"; then
    ok "$c: msan build prints the same lines (no uninit-write, no CRASH)"
  else
    fail "$c: msan build differs"; cat "$TMP/out/mdiff.$c"
  fi
done

# --- TSan variant, --threads -------------------------------------------------------
tcases=""
for c in $INSTR; do tcases="$tcases $c.case"; done
(cd "$CASES" && "$BIN/apiharness-tsan" --threads 12 $tcases) >"$TMP/out/tsan" 2>"$TMP/out/tsan.err"
rc=$?
check "tsan --threads 12: exit status 0" test $rc -eq 0
check "tsan --threads 12: 12 result lines, all 'same'" bash -c \
  "[ \$(grep -c ' same\$' '$TMP/out/tsan') = 12 ] && ! grep -q DIFFERENT '$TMP/out/tsan'"
check "tsan --threads 12: no ThreadSanitizer report" bash -c "! grep -q ThreadSanitizer '$TMP/out/tsan.err'"

# --- crash / timeout / monitor machinery (cases live in the temp dir) ---------------
mkdir -p "$TMP/neg"
cat >"$TMP/neg/overflow.case" <<'EOF'
# caller error on purpose: table of 2 entries for a 2-bit code -> heap overflow inside make_decode_table
new cab
prim mdt msb 8 2 2 0101030303030303
prim crc32 00
EOF
cat >"$TMP/neg/shift.case" <<'EOF'
# caller error on purpose: nbits = 40 -> shift exponent too large
prim mdt msb 4 40 16 02020202
EOF
cat >"$TMP/neg/slow.case" <<'EOF'
filerep big 60000000 4d534346
new cab
param i0 SEARCHBUF 4
search i0 big
EOF
cat >"$TMP/neg/deadhandle.case" <<'EOF'
fileref simple.cab /repo/cabextract/test/cabs/simple.cab
new cab
open i0 simple.cab
close i0 h0
close i0 h0
extract i0 h7 0 x
destroy i0
open i0 simple.cab
frobnicate 1 2
EOF
sed -i "s|/repo/|${VERIF_REPO:-/repo}/|" "$TMP/neg/deadhandle.case"
(cd "$TMP/neg" && VERIF_CASE_TIMEOUT=1 "$BIN/apiharness" overflow.case shift.case slow.case deadhandle.case) >"$TMP/out/neg" 2>&1
check "heap overflow in a prim is reported as CRASH kind=asan, earlier lines kept" bash -c \
  "grep -A2 '^== CASE overflow.case' '$TMP/out/neg' | grep -q '^new cab i0' &&
   grep -q '^CRASH kind=asan summary=AddressSanitizer: heap-buffer-overflow .*make_decode_table' '$TMP/out/neg'"
check "full sanitizer report saved next to the case" grep -q 'heap-buffer-overflow' "$TMP/neg/overflow.case.stderr"
check "UBSan report is CRASH kind=ubsan" grep -q '^CRASH kind=ubsan summary=UndefinedBehaviorSanitizer: undefined-behavior .*readhuff.h' "$TMP/out/neg"
check "runaway case is reported as TIMEOUT op=2" grep -q '^TIMEOUT op=2$' "$TMP/out/neg"
check "dead / unknown handles and unknown ops" bash -c \
  "grep -q '^close dead-handle$' '$TMP/out/neg' && grep -q '^extract bad-handle$' '$TMP/out/neg' &&
   grep -q '^open dead-handle$' '$TMP/out/neg' && grep -q '^frobnicate unsupported$' '$TMP/out/neg'"

# --- the real CLI --------------------------------------------------------------------
check "cabextract -t simple.cab" bash -c "'$BIN/cabextract' -q -t '${VERIF_REPO:-/repo}/cabextract/test/cabs/simple.cab' >/dev/null 2>&1"

if [ $fails -eq 0 ]; then echo "selftest: all checks passed"; exit 0; fi
echo "selftest: $fails check(s) failed"
exit 1
