/* wrapper TU: chmd.c plus exported entry points for its static functions */
#include "chmd.c"

long long vp_chmd_read_encint(const unsigned char **p, const unsigned char *end, int *err) {
  return (long long) read_encint(p, end, err);
}

int vp_chmd_compare(const char *s1, const char *s2, int l1, int l2) {
  return compare(s1, s2, l1, l2);
}
