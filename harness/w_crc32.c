/* wrapper TU: crc32.c plus an exported entry point for the static inline
 * crc32() of crc32.h */
#include "crc32.c"
#include <crc32.h>

unsigned int vp_crc32(unsigned int val, const void *ss, int len) {
  return crc32(val, ss, len);
}
