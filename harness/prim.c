/* apiharness -- `prim` ops: direct calls of static functions.
 *
 * The functions are reached through the vp_* wrappers exported by the w_*.c
 * translation units.  They are declared weak: if build.sh had to fall back
 * to the plain library source for some TU (or could not build the
 * cabextract TU), the symbol is absent, its address is NULL, and the op
 * prints `prim WHAT unavailable`.
 */
#include <stdio.h>
#include <stdlib.h>
#include <string.h>
#include "harness.h"

#define WEAK __attribute__((weak))
extern unsigned int vp_cabd_checksum(unsigned char *data, unsigned int bytes, unsigned int cksum) WEAK;
extern unsigned int vp_crc32(unsigned int val, const void *ss, int len) WEAK;
extern long long vp_chmd_read_encint(const unsigned char **p, const unsigned char *end, int *err) WEAK;
extern int vp_chmd_compare(const char *s1, const char *s2, int l1, int l2) WEAK;
extern int vp_lzxd_make_decode_table(unsigned int nsyms, unsigned int nbits,
                                     unsigned char *length, unsigned short *table) WEAK;
extern int vp_mszipd_make_decode_table(unsigned int nsyms, unsigned int nbits,
                                       unsigned char *length, unsigned short *table) WEAK;
extern int vp_kwajd_make_decode_table(unsigned int nsyms, unsigned int nbits,
                                      unsigned char *length, unsigned short *table) WEAK;
/* lzssd.c exports this one itself (declared in the internal lzss.h) */
extern int lzss_decompress(struct mspack_system *system, struct mspack_file *input,
                           struct mspack_file *output, int input_buffer_size, int mode) WEAK;
extern char *vp_create_output_name(const char *fname, const char *dir,
                                   int lower, int isunix, int utf8) WEAK;

static void line(struct vh_ctx *c, const char *what, const char *msg) {
  vh_out(c, "prim %s %s", what, msg);
  vh_out_nl(c);
}

static int num(const char *s, long long *v) {
  char *end;
  if (!*s) return -1;
  if (s[0] == '0' && (s[1] == 'x' || s[1] == 'X')) *v = (long long) strtoull(s + 2, &end, 16);
  else if (s[0] == '-') *v = -(long long) strtoull(s + 1, &end, 10);
  else *v = (long long) strtoull(s, &end, 10);
  return *end ? -1 : 0;
}

/* bytes in a heap block of exactly that size, so that ASan sees over-reads */
static unsigned char *exact(const unsigned char *b, size_t n) {
  unsigned char *p = vh_xmalloc(n ? n : 1);
  if (n) memcpy(p, b, n);
  return p;
}

static void finish(struct vh_ctx *c) {
  vh_out_counts(c);
  vh_out_nl(c);
}

static void prim_cksum(struct vh_ctx *c, int nt, char **t) {
  unsigned char *b, *e; size_t n; long long seed; unsigned int v;
  if (!vp_cabd_checksum) { line(c, "cksum", "unavailable"); return; }
  if (nt != 4 || num(t[3], &seed) || vh_unhex(t[2], &b, &n)) { line(c, "cksum", "bad-args"); return; }
  e = exact(b, n);
  vh_call_begin(c, NULL);
  v = vp_cabd_checksum(e, (unsigned int) n, (unsigned int) seed);
  vh_call_end(c);
  vh_out(c, "prim cksum %u", v);
  finish(c);
  free(e); free(b);
}

static void prim_crc32(struct vh_ctx *c, int nt, char **t) {
  unsigned char *b, *e; size_t n; unsigned int v;
  if (!vp_crc32) { line(c, "crc32", "unavailable"); return; }
  if (nt != 3 || vh_unhex(t[2], &b, &n)) { line(c, "crc32", "bad-args"); return; }
  e = exact(b, n);
  vh_call_begin(c, NULL);
  v = vp_crc32(0, e, (int) n);
  vh_call_end(c);
  vh_out(c, "prim crc32 %u", v);
  finish(c);
  free(e); free(b);
}

static void prim_encint(struct vh_ctx *c, int nt, char **t) {
  unsigned char *b, *e; size_t n; const unsigned char *p; int err = 0; long long v;
  if (!vp_chmd_read_encint) { line(c, "encint", "unavailable"); return; }
  if (nt != 3 || vh_unhex(t[2], &b, &n)) { line(c, "encint", "bad-args"); return; }
  e = exact(b, n);
  p = e;
  vh_call_begin(c, NULL);
  v = vp_chmd_read_encint(&p, e + n, &err);
  vh_call_end(c);
  vh_out(c, "prim encint %lld %ld %d", v, (long) (p - e), err);
  finish(c);
  free(e); free(b);
}

static void prim_outname(struct vh_ctx *c, int nt, char **t) {
  unsigned char *name, *dir = NULL; size_t nl, dl; long long utf8, lower; char *r;
  if (!vp_create_output_name) { line(c, "outname", "unavailable"); return; }
  if (nt != 6 || num(t[3], &utf8) || num(t[4], &lower) || vh_unhex(t[2], &name, &nl)) {
    line(c, "outname", "bad-args"); return;
  }
  if (strcmp(t[5], "-") == 0) dir = NULL;
  else if (strcmp(t[5], "=") == 0) { dir = vh_xmalloc(1); dir[0] = 0; }
  else if (vh_unhex(t[5], &dir, &dl)) { free(name); line(c, "outname", "bad-args"); return; }
  vh_call_begin(c, NULL);
  r = vp_create_output_name((char *) name, (char *) dir, (int) lower, 0, (int) utf8);
  vh_call_end(c);
  vh_out(c, "prim outname ");
  if (!r) vh_out(c, "NULL");
  else if (!*r) vh_out(c, "=");
  else vh_out_hex(c, (unsigned char *) r, strlen(r));
  finish(c);
  free(r); free(name); free(dir);
}

static void prim_mdt(struct vh_ctx *c, int nt, char **t) {
  int (*fn)(unsigned int, unsigned int, unsigned char *, unsigned short *) = NULL;
  long long nsyms, nbits, tsize;
  unsigned char *b, *lens; size_t n, i;
  unsigned short *table;
  int ret;
  if (nt != 7) { line(c, "mdt", "bad-args"); return; }
  if      (strcmp(t[2], "msb") == 0)      fn = vp_lzxd_make_decode_table;
  else if (strcmp(t[2], "lsb") == 0)      fn = vp_mszipd_make_decode_table;
  else if (strcmp(t[2], "msb-kwaj") == 0) fn = vp_kwajd_make_decode_table;
  else { line(c, "mdt", "bad-args"); return; }
  if (!fn) { line(c, "mdt", "unavailable"); return; }
  if (num(t[3], &nsyms) || num(t[4], &nbits) || num(t[5], &tsize) ||
      nsyms < 0 || nbits < 0 || tsize < 0 || tsize > (1 << 22) || vh_unhex(t[6], &b, &n)) {
    line(c, "mdt", "bad-args"); return;
  }
  if (n < (size_t) nsyms) { free(b); line(c, "mdt", "bad-args"); return; }
  lens = exact(b, n);
  table = vh_xmalloc(tsize ? (size_t) tsize * 2 : 1);
  memset(table, c->fill, tsize ? (size_t) tsize * 2 : 1);
  vh_call_begin(c, NULL);
  ret = fn((unsigned int) nsyms, (unsigned int) nbits, lens, table);
  vh_call_end(c);
  if (ret == 0) {
    unsigned char *ser = vh_xmalloc(tsize ? (size_t) tsize * 2 : 1);
    for (i = 0; i < (size_t) tsize; i++) {
      ser[2 * i] = (unsigned char) (table[i] & 0xff);
      ser[2 * i + 1] = (unsigned char) (table[i] >> 8);
    }
    vh_out(c, "prim mdt 0 %016llx", (unsigned long long) vh_fnv1a(ser, (size_t) tsize * 2));
    free(ser);
  }
  else vh_out(c, "prim mdt %d -", ret);
  finish(c);
  free(table); free(lens); free(b);
}

static void prim_lzss(struct vh_ctx *c, int nt, char **t) {
  unsigned char *b; size_t n; long long mode;
  const char *inname, *outname;
  struct mspack_file *in, *out;
  int st;
  if (!lzss_decompress) { line(c, "lzss", "unavailable"); return; }
  if (nt != 4 || num(t[2], &mode) || vh_unhex(t[3], &b, &n)) { line(c, "lzss", "bad-args"); return; }
  vh_file_put(c, "@lzss.in", b, n);
  free(b);
  inname = vh_name_reg(c, "@lzss.in", VH_ROLE_IN);
  outname = vh_name_reg(c, "@lzss.out", VH_ROLE_OUT);
  in = c->sys.open(&c->sys, inname, MSPACK_SYS_OPEN_READ);
  out = in ? c->sys.open(&c->sys, outname, MSPACK_SYS_OPEN_WRITE) : NULL;
  if (!in || !out) {
    if (in) c->sys.close(in);
    line(c, "lzss", "open-failed");
    return;
  }
  vh_call_begin(c, outname);
  st = lzss_decompress(&c->sys, in, out, 2048, (int) mode);
  vh_call_end(c);
  c->sys.close(in);
  c->sys.close(out);
  vh_out(c, "prim lzss st=%d out=", st);
  vh_out_snapshot(c, outname);
  finish(c);
}

static void prim_utf8cmp(struct vh_ctx *c, int nt, char **t) {
  unsigned char *a, *b, *ea, *eb; size_t la, lb; int r;
  if (!vp_chmd_compare) { line(c, "utf8cmp", "unavailable"); return; }
  if (nt != 4 || vh_unhex(t[2], &a, &la)) { line(c, "utf8cmp", "bad-args"); return; }
  if (vh_unhex(t[3], &b, &lb)) { free(a); line(c, "utf8cmp", "bad-args"); return; }
  ea = exact(a, la); eb = exact(b, lb);
  vh_call_begin(c, NULL);
  r = vp_chmd_compare((char *) ea, (char *) eb, (int) la, (int) lb);
  vh_call_end(c);
  vh_out(c, "prim utf8cmp %d", r < 0 ? -1 : r > 0 ? 1 : 0);
  finish(c);
  free(ea); free(eb); free(a); free(b);
}

void vh_op_prim(struct vh_ctx *c, int nt, char **t) {
  if (nt < 2) { vh_out(c, "prim bad-args"); vh_out_nl(c); return; }
  if      (strcmp(t[1], "cksum") == 0)   prim_cksum(c, nt, t);
  else if (strcmp(t[1], "crc32") == 0)   prim_crc32(c, nt, t);
  else if (strcmp(t[1], "encint") == 0)  prim_encint(c, nt, t);
  else if (strcmp(t[1], "outname") == 0) prim_outname(c, nt, t);
  else if (strcmp(t[1], "mdt") == 0)     prim_mdt(c, nt, t);
  else if (strcmp(t[1], "lzss") == 0)    prim_lzss(c, nt, t);
  else if (strcmp(t[1], "utf8cmp") == 0) prim_utf8cmp(c, nt, t);
  else line(c, t[1], "unsupported");
}
