/* wrapper TU: cabextract.c with its main() renamed, plus an exported entry
 * point for the static create_output_name().  Built without config.h; the
 * HAVE_* macros come from build.sh. */
#define main cabextract_main__
#include "src/cabextract.c"
#undef main

char *vp_create_output_name(const char *fname, const char *dir,
                            int lower, int isunix, int utf8)
{
  return create_output_name(fname, dir, lower, isunix, utf8);
}
