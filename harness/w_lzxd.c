/* wrapper TU: lzxd.c plus an exported entry point for its copy of
 * make_decode_table() (static, from readhuff.h) */
#include "lzxd.c"

int vp_lzxd_make_decode_table(unsigned int nsyms, unsigned int nbits,
                              unsigned char *length, unsigned short *table)
{
  return make_decode_table(nsyms, nbits, length, table);
}
