#!/bin/bash
# build.sh OUTDIR -- builds the verification harness from the CURRENT sources
# in $VERIF_REPO (default /repo).  Nothing under $VERIF_REPO is written and no
# prebuilt object or archive from there is used.
#
#   OUTDIR/apiharness        ASan + selected UBSan checks, library TUs with
#                            -fsanitize-coverage=trace-pc-guard
#   OUTDIR/apiharness-msan   MemorySanitizer, no coverage
#   OUTDIR/apiharness-tsan   ThreadSanitizer, for --threads
#   OUTDIR/cabextract        the real CLI, ASan + UBSan
#
# Prints the paths built on stdout; problems go to stderr.  The exit status
# is non-zero if one of the four binaries could not be produced.

set -u
if [ $# -ne 1 ]; then echo "usage: build.sh OUTDIR" >&2; exit 2; fi

OUT=$1
REPO=${VERIF_REPO:-/repo}
CC=${VERIF_CC:-clang-14}
HERE=$(cd "$(dirname "${BASH_SOURCE[0]}")" && pwd)
MSP=$REPO/libmspack/mspack
CX=$REPO/cabextract

mkdir -p "$OUT" || exit 2
OUT=$(cd "$OUT" && pwd)
OBJ=$OUT/obj
rm -rf "$OBJ"
mkdir -p "$OBJ"/{asan,msan,tsan,cli}
rm -f "$OUT"/apiharness "$OUT"/apiharness-msan "$OUT"/apiharness-tsan "$OUT"/cabextract

LIBDEFS="-DKYZ_LIBMSPACK_VERIF -DSIZEOF_OFF_T=8 -DHAVE_INTTYPES_H=1 -DHAVE_LIMITS_H=1 -DHAVE_TOWLOWER=1 -DHAVE_FSEEKO=1 -DHAVE_STRING_H=1 -I$MSP"
# what the generated (git-ignored) cabextract/config.h would say on this host
CXDEFS="-DHAVE_FNMATCH=1 -DHAVE_ICONV=1 -DICONV_CONST= -DHAVE_MKDIR=1 -DHAVE_UMASK=1 -DHAVE_UTIME=1 -DHAVE_UTIMES=1 -DHAVE_GETOPT_LONG=1 -DHAVE_GETOPT_H=1 -DHAVE_SYS_STAT_H=1 -DHAVE_SYS_TYPES_H=1 -DHAVE_STDLIB_H=1 -DHAVE_STRINGS_H=1 -DHAVE_UNISTD_H=1 -DHAVE_STDINT_H=1 -DHAVE_STDIO_H=1 -DSTDC_HEADERS=1 -DPACKAGE=\"cabextract\" -DVERSION=\"1.11\" -I$CX"

BASE="-O1 -g -fno-omit-frame-pointer"
SAN_asan="$BASE -fsanitize=address,bounds,null,pointer-overflow,shift-exponent,integer-divide-by-zero -fno-sanitize-recover=all"
SAN_msan="$BASE -fsanitize=memory -fsanitize-memory-track-origins=0"
SAN_tsan="$BASE -fsanitize=thread"
COV_asan="-fsanitize-coverage=trace-pc-guard"
COV_msan=""
COV_tsan=""
SAN_cli="-O1 -g -fsanitize=address,undefined -fno-sanitize-recover=all"

# wrapper TUs: quiet, except for what a refactored static function would cause
WSTRICT="-Wno-everything -Werror=implicit-function-declaration -Werror=incompatible-pointer-types -Werror=incompatible-function-pointer-types -Werror=int-conversion -Werror=return-type"

LIBSRC="system cabd chmd kwajd szddd oabd lzxd qtmd mszipd lzssd crc32"
WRAPPED=" cabd chmd kwajd lzxd mszipd crc32 "
HSRC="harness sys ops prim"
CLILIB="system cabd lzxd mszipd qtmd"

# --- compile jobs (each runs in the background) ------------------------------

# library TU for variant $1: the wrapper w_$2.c if there is one and it
# compiles, else the plain source (the prim ops of that TU become unavailable)
lib_tu() {
  local v=$1 n=$2 san cov
  eval "san=\$SAN_$v; cov=\$COV_$v"
  if [[ "$WRAPPED" == *" $n "* ]]; then
    if $CC $san $cov $LIBDEFS $WSTRICT -c "$HERE/w_$n.c" -o "$OBJ/$v/$n.o" 2>"$OBJ/$v/$n.log"; then
      return 0
    fi
    {
      echo "build.sh: [$v] wrapper w_$n.c no longer compiles against $MSP/$n.c;"
      echo "build.sh: [$v] falling back to the plain source, prim ops of $n.c will print 'unavailable':"
      sed 's/^/    /' "$OBJ/$v/$n.log"
    } >&2
  fi
  $CC $san $cov $LIBDEFS -w -c "$MSP/$n.c" -o "$OBJ/$v/$n.o"
}

harness_tu() {
  local v=$1 n=$2 san
  eval "san=\$SAN_$v"
  $CC $san $LIBDEFS -std=gnu11 -Wall -Wextra -c "$HERE/$n.c" -o "$OBJ/$v/h_$n.o"
}

# optional layer: cabextract.c (for prim outname) + the md5.c it needs
cx_tu() {
  local v=$1 san
  eval "san=\$SAN_$v"
  if $CC $san $LIBDEFS $CXDEFS $WSTRICT -c "$HERE/w_cabextract.c" -o "$OBJ/$v/cx.o" 2>"$OBJ/$v/cx.log" &&
     $CC $san $LIBDEFS $CXDEFS -w -c "$CX/md5.c" -o "$OBJ/$v/cxmd5.o" 2>>"$OBJ/$v/cx.log"; then
    return 0
  fi
  rm -f "$OBJ/$v/cx.o" "$OBJ/$v/cxmd5.o"
  {
    echo "build.sh: [$v] w_cabextract.c / md5.c do not compile; 'prim outname' will print 'unavailable':"
    sed 's/^/    /' "$OBJ/$v/cx.log"
  } >&2
  return 0
}

cli_tu() {
  local src=$1 o=$2
  $CC $SAN_cli $LIBDEFS $CXDEFS -w -c "$src" -o "$OBJ/cli/$o.o"
}

declare -A JOBS
for v in asan msan tsan; do
  for n in $LIBSRC; do lib_tu $v $n & JOBS[$!]="$v:$n"; done
  for n in $HSRC;   do harness_tu $v $n & JOBS[$!]="$v:h_$n"; done
  cx_tu $v & JOBS[$!]="$v:cx"
done
cli_tu "$CX/src/cabextract.c" cabextract & JOBS[$!]="cli:cabextract"
cli_tu "$CX/md5.c" md5 & JOBS[$!]="cli:md5"
for n in $CLILIB; do cli_tu "$MSP/$n.c" $n & JOBS[$!]="cli:$n"; done

declare -A BAD
for pid in "${!JOBS[@]}"; do
  if ! wait "$pid"; then
    j=${JOBS[$pid]}
    echo "build.sh: compile job $j failed" >&2
    BAD[${j%%:*}]=1
  fi
done

# --- link --------------------------------------------------------------------

link_harness() {
  local v=$1 outname=$2 san objs n
  eval "san=\$SAN_$v"
  objs=""
  for n in $LIBSRC; do objs="$objs $OBJ/$v/$n.o"; done
  for n in $HSRC;   do objs="$objs $OBJ/$v/h_$n.o"; done
  if [ -f "$OBJ/$v/cx.o" ] && [ -f "$OBJ/$v/cxmd5.o" ]; then
    objs="$objs $OBJ/$v/cx.o $OBJ/$v/cxmd5.o"
  fi
  $CC $san $objs -lpthread -o "$OUT/$outname"
}

link_cli() {
  local objs="$OBJ/cli/cabextract.o $OBJ/cli/md5.o" n
  for n in $CLILIB; do objs="$objs $OBJ/cli/$n.o"; done
  $CC $SAN_cli $objs -o "$OUT/cabextract"
}

declare -A LJOBS
[ -z "${BAD[asan]:-}" ] && { link_harness asan apiharness & LJOBS[$!]=apiharness; }
[ -z "${BAD[msan]:-}" ] && { link_harness msan apiharness-msan & LJOBS[$!]=apiharness-msan; }
[ -z "${BAD[tsan]:-}" ] && { link_harness tsan apiharness-tsan & LJOBS[$!]=apiharness-tsan; }
[ -z "${BAD[cli]:-}" ]  && { link_cli & LJOBS[$!]=cabextract; }
for pid in "${!LJOBS[@]}"; do
  wait "$pid" || echo "build.sh: linking ${LJOBS[$pid]} failed" >&2
done

rc=0
for b in apiharness apiharness-msan apiharness-tsan cabextract; do
  if [ -x "$OUT/$b" ]; then echo "$OUT/$b"; else echo "build.sh: $OUT/$b was NOT built" >&2; rc=1; fi
done
exit $rc
