/* wrapper TU: cabd.c plus exported entry points for its static functions */
#include "cabd.c"

unsigned int vp_cabd_checksum(unsigned char *data, unsigned int bytes, unsigned int cksum) {
  return cabd_checksum(data, bytes, cksum);
}
