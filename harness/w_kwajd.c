/* wrapper TU: kwajd.c plus an exported entry point for its copy of
 * make_decode_table() (static, from readhuff.h) */
#include "kwajd.c"

int vp_kwajd_make_decode_table(unsigned int nsyms, unsigned int nbits,
                              unsigned char *length, unsigned short *table)
{
  return make_decode_table(nsyms, nbits, length, table);
}
