/* apiharness -- shared declarations.  See README.md and /verif/PROTOCOL.md.
 *
 * All symbols of the harness carry the prefix vh_ (the optional prim layer
 * links cabextract.c, which exports many unprefixed globals such as `cabd`
 * and `args`).
 */
#ifndef VH_HARNESS_H
#define VH_HARNESS_H 1

#include <sys/types.h>
#include <stddef.h>
#include <stdarg.h>
#include <stdint.h>
#include <mspack.h>

#if defined(__has_feature)
# if __has_feature(memory_sanitizer)
#  define VH_MSAN 1
# endif
# if __has_feature(thread_sanitizer)
#  define VH_TSAN 1
# endif
# if __has_feature(address_sanitizer)
#  define VH_ASAN 1
# endif
#endif

enum { VH_CAB, VH_CHM, VH_SZDD, VH_KWAJ, VH_OAB, VH_NFMT };
enum { VH_K_ALLOC, VH_K_OPEN, VH_K_READ, VH_K_WRITE, VH_K_SEEK, VH_K_TELL, VH_NKIND };

#define VH_ROLE_IN  1
#define VH_ROLE_OUT 2

struct vh_ctx;

/* an in-memory file */
struct vh_memfile {
  char *name;
  unsigned char *data;
  size_t len, cap;
};

/* what the library sees as struct mspack_file * */
struct vh_fh {
  struct mspack_file base;
  struct vh_ctx *ctx;
  long id;                 /* fK */
  struct vh_memfile *mf;
  const char *name;        /* name as stored in the memfile table */
  off_t pos;
  int mode;
  int closed;
};

/* one record per alloc() that returned non-NULL */
struct vh_arec {
  void *ptr;
  size_t size;
  long id;                 /* aK */
  int live;
  size_t livepos;          /* index in ctx->live[] while live */
};

/* a name the harness passed into the API */
struct vh_name {
  char *s;
  int roles;
};

struct vh_fault {
  int kind;
  long k;
  int mode;                /* write only: 0 err, 1 short */
};

struct vh_inst {
  int fmt;
  void *p;
  int is_default;
  int live;
};

struct vh_hand {
  int fmt;
  void *p;
  int inst;                /* creating instance */
  int is_default;
  int live;
};

struct vh_ctx {
  struct mspack_system sys;        /* must be first */

  /* output */
  char *out; size_t out_len, out_cap;
  int out_fd;                      /* -1: keep everything in the buffer */

  /* in-memory files */
  struct vh_memfile **files; size_t nfiles, cfiles;

  /* file handles ever created */
  struct vh_fh **fhs; size_t nfhs, cfhs;
  long fhs_live;

  /* allocation ledger */
  struct vh_arec *arecs; size_t narecs, carecs;
  size_t *live; size_t nlive, clive;          /* indices into arecs */
  size_t *ptab; size_t ptab_size, ptab_used;  /* ptr hash -> index+1 into arecs */

  /* names given to the API */
  struct vh_name *names; size_t nnames, cnames;

  /* fault plan */
  struct vh_fault *faults; size_t nfaults, cfaults;
  long kind_calls[VH_NKIND];       /* case-wide counters (fault plan) */
  long call_cnt[VH_NKIND];         /* per API call counters */

  unsigned char fill;
  int trace, edges;
  long monitors;

  /* accounting for the API call in progress */
  const char *call_outname;
  long long call_written;

  /* instances and handles */
  struct vh_inst *insts; size_t ninsts, cinsts;
  struct vh_hand *hands; size_t nhands, chands;

  /* default-system support */
  int any_default;
  char *scratch;                   /* scratch dir (absolute) or NULL */
  char *oldcwd;
  const char *scratch_base; long scratch_pid; long scratch_n;
  int allow_default;

  /* progress (shared with the parent in fork mode) */
  volatile long *op_index_shared;
  long op_index;

  /* edge/callback accounting of the current op */
  unsigned long long op_edges;
  long op_calls[VH_NKIND];
  int op_counted;
};

/* harness.c */
extern _Thread_local unsigned long long vh_edge_counter;
void vh_out(struct vh_ctx *c, const char *fmt, ...) __attribute__((format(printf, 2, 3)));
void vh_out_hex(struct vh_ctx *c, const unsigned char *p, size_t n);
void vh_out_nl(struct vh_ctx *c);           /* end the line (and flush in fd mode) */
void vh_out_flush(struct vh_ctx *c);
void *vh_xmalloc(size_t n);
void *vh_xrealloc(void *p, size_t n);
char *vh_xstrdup(const char *s);
uint64_t vh_fnv1a(const unsigned char *p, size_t n);

/* sys.c */
void vh_sys_init(struct vh_ctx *c);
void vh_sys_set_tls(struct vh_ctx *c);
struct vh_memfile *vh_file_find(struct vh_ctx *c, const char *name);
struct vh_memfile *vh_file_put(struct vh_ctx *c, const char *name, const unsigned char *data, size_t len);
const char *vh_name_reg(struct vh_ctx *c, const char *name, int role);
void vh_monitor(struct vh_ctx *c, const char *fmt, ...) __attribute__((format(printf, 2, 3)));
long vh_allocs_live(struct vh_ctx *c);
long vh_handles_live(struct vh_ctx *c);
void vh_sys_destroy(struct vh_ctx *c);

/* ops.c */
void vh_run_case(struct vh_ctx *c, const char *path);
void vh_ctx_init(struct vh_ctx *c, int out_fd);
void vh_ctx_free(struct vh_ctx *c);
int vh_unhex(const char *s, unsigned char **out, size_t *len);
void vh_out_snapshot(struct vh_ctx *c, const char *name);
void vh_call_begin(struct vh_ctx *c, const char *outname);
void vh_call_end(struct vh_ctx *c);
void vh_out_counts(struct vh_ctx *c);

/* prim.c */
void vh_op_prim(struct vh_ctx *c, int ntok, char **tok);

#endif
