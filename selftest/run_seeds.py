#!/usr/bin/env python3
"""run_seeds.py [ID ...]  — replays the seeded changes kept under /verif/seeded/<id>/ (patch.diff, the
sub-agent's demonstration run.sh + sources, meta.json) through selftest/try_seed.py and records the outcome
in meta.json["last_run"].  /repo is never modified (try_seed works on a scratch copy via VERIF_REPO)."""
import json, os, subprocess, sys, time
V = os.path.dirname(os.path.dirname(os.path.abspath(__file__)))
SD = os.path.join(V, "seeded")
ids = sys.argv[1:] or sorted(d for d in os.listdir(SD) if os.path.isdir(os.path.join(SD, d)))
for i in ids:
    d = os.path.join(SD, i)
    meta = json.load(open(os.path.join(d, "meta.json")))
    r = subprocess.run([sys.executable, os.path.join(V, "selftest", "try_seed.py"), d] + meta["checks"], capture_output=True, text=True)
    t = r.stdout
    try:
        o = json.loads(t[t.index("{"):])
    except Exception:
        print(i, "ERROR", t[-300:], r.stderr[-300:]); continue
    meta["last_run"] = dict(when=time.strftime("%Y-%m-%d %H:%M"), demo_clean_rc=o["demo_clean"]["rc"], suite_with_patch=o["suite_mutant"],
                            demo_with_patch_rc=o["demo_mutant"]["rc"],
                            checks={c: dict(rc=v["rc"], violations=v["violations"], no_failing_input=v["no_input"], first=(v["first"] or "")[:300]) for c, v in o["checks"].items()})
    json.dump(meta, open(os.path.join(d, "meta.json"), "w"), indent=1)
    caught = [c for c, v in o["checks"].items() if v["rc"] == 1 and v["violations"] > 0]
    print(i, "| demo clean", o["demo_clean"]["rc"], "| suite", o["suite_mutant"].get("PASS"), "/", o["suite_mutant"].get("TOTAL"), "| demo mutant", o["demo_mutant"]["rc"],
          "| caught by", caught or "NONE", flush=True)
