#!/bin/bash
# usage: mutant.sh <patch-file|-e 'sed-expr' file> -- C12 [C01 ...]
# applies a change to a scratch copy of /repo and runs the named checks against it (VERIF_REPO)
set -u
S=/tmp/vmut-$$
rm -rf /verif/build/evidence.keep; cp -r /verif/evidence /verif/build/evidence.keep 2>/dev/null
mkdir -p $S && cp -r /repo/libmspack /repo/cabextract $S/ 2>/dev/null
if [ "$1" = "-e" ]; then sed -i -e "$2" "$S/$3"; shift 3; else (cd $S && patch -p1 -s < "$1") || { echo "patch failed"; rm -rf $S; exit 2; }; shift; fi
[ "${1:-}" = "--" ] && shift
for p in "$@"; do
  echo "### $p on mutant"; VERIF_REPO=$S /verif/bin/check $p 2>&1 | tail -8; echo "exit=$?"
done
rm -rf $S
# evidence written while testing a mutant is not evidence about /repo
rm -rf /verif/evidence; mv /verif/build/evidence.keep /verif/evidence 2>/dev/null
# restore the generated files for the real tree
python3 /verif/translate/translate.py >/dev/null
