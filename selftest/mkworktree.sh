#!/bin/bash
# usage: mkworktree.sh NAME  -> /tmp/wt-NAME : a git worktree of /repo's HEAD with the (git-ignored) configured build files copied in,
# so that `make -C /tmp/wt-NAME/cabextract check` works there.  Remove with: git -C /repo worktree remove --force /tmp/wt-NAME
set -e
W=/tmp/wt-$1
git -C /repo worktree remove --force $W 2>/dev/null || true
rm -rf $W
git -C /repo worktree add -q $W HEAD
rsync -a --ignore-existing /repo/cabextract/ $W/cabextract/
find $W/cabextract -name "*.o" -delete; rm -f $W/cabextract/cabextract $W/cabextract/libmscab.a $W/cabextract/configure~
echo $W
