#!/usr/bin/env python3
"""seed_table.py — rewrites the table of seeded changes in DESIGN.md (between the SEED-TABLE markers) from
seeded/*/meta.json (title, the checks that reported a violation in the last replay)."""
import glob, json, os, re
V = os.path.dirname(os.path.dirname(os.path.abspath(__file__)))
rows = []; n = 0; caught_own = 0; caught_other = 0; missed = []
for p in sorted(glob.glob(os.path.join(V, "seeded", "*", "meta.json"))):
    m = json.load(open(p)); n += 1
    lr = m.get("last_run", {}); ch = lr.get("checks", {})
    by = [c for c, r in ch.items() if r.get("rc") == 1 and r.get("violations", 0) > 0]
    nfi = [c for c, r in ch.items() if r.get("no_failing_input", 0) > 0 and r.get("violations", 0) == r.get("no_failing_input", 0)]
    if m["property"] in by: caught_own += 1
    elif by: caught_other += 1
    else: missed.append(m["id"])
    title = re.sub(r"\s+", " ", m.get("title", "")).replace("|", "/")
    title = re.sub(r"^C\d\d ?/ ?m\d\s*[-—–:]+\s*", "", title)
    rows.append(f"| {m['id']} | {title[:150]} | {', '.join(by) if by else 'NONE'}" + (f" (no-failing-input-found: {', '.join(nfi)})" if nfi else "") + " |")
head = (f"Final state ({n} changes, each replayed with `selftest/run_seeds.py` after the additions above; {caught_own} caught by the property's own check, "
        f"{caught_other} only by a neighbouring property's check, {len(missed)} missed{': ' + ', '.join(missed) if missed else ''}):\n\n"
        "| id | change | caught by |\n|---|---|---|\n")
txt = head + "\n".join(rows) + "\n"
d = os.path.join(V, "DESIGN.md"); s = open(d).read()
a, b = "<!-- SEED-TABLE-BEGIN -->", "<!-- SEED-TABLE-END -->"
if a in s:
    s = s[:s.index(a) + len(a)] + "\n" + txt + s[s.index(b):]
    open(d, "w").write(s); print(f"table rewritten: {n} seeds, own {caught_own}, other {caught_other}, missed {missed}")
else:
    print(txt)
