#!/usr/bin/env python3
"""try_seed.py SEEDDIR CHECK [CHECK...]
Confirms a seeded change (SEEDDIR/patch.diff + SEEDDIR/run.sh) on a scratch copy of /repo and runs
the named checks against it.  Prints a JSON summary.  /repo itself is never modified (the checks
read the copy through VERIF_REPO); evidence files written meanwhile are restored afterwards."""
import json, os, re, shutil, subprocess, sys, tempfile, time

V = os.path.dirname(os.path.dirname(os.path.abspath(__file__)))

def sh(cmd, **kw):
    return subprocess.run(cmd, shell=isinstance(cmd, str), capture_output=True, text=True, **kw)

def suite(tree):
    r = sh(f"make -C {tree}/cabextract check 2>&1 | grep -E '^# (TOTAL|PASS|FAIL)'")
    m = dict(re.findall(r"# (\w+):\s+(\d+)", r.stdout))
    return m

def demo(seed, tree):
    r = sh(["bash", os.path.join(seed, "run.sh"), os.path.join(tree, "libmspack")], cwd=seed, timeout=900)
    if r.returncode != 0 and "No such file" in (r.stdout + r.stderr):
        # some demonstrations want the repository root rather than its libmspack/ directory
        r = sh(["bash", os.path.join(seed, "run.sh"), tree], cwd=seed, timeout=900)
    return r.returncode, (r.stdout + r.stderr)[-600:]

def main():
    seed = os.path.abspath(sys.argv[1]); checks = sys.argv[2:]
    S = tempfile.mkdtemp(prefix="vseed-", dir="/tmp")
    out = {"seed": seed, "checks": {}}
    keep = os.path.join(V, "build", "evidence.keep")
    shutil.rmtree(keep, ignore_errors=True)
    if os.path.isdir(os.path.join(V, "evidence")): shutil.copytree(os.path.join(V, "evidence"), keep)
    try:
        sh(f"cp -r /repo/libmspack /repo/cabextract {S}/")
        sh(f"find {S}/cabextract -name '*.o' -delete; rm -f {S}/cabextract/cabextract {S}/cabextract/libmscab.a")
        rc, txt = demo(seed, S)
        out["demo_clean"] = {"rc": rc, "tail": txt[-200:]}
        r = sh(["git", "apply", "--directory=" + os.path.relpath(S, "/"), "--unsafe-paths", os.path.join(seed, "patch.diff")], cwd="/")
        if r.returncode != 0:
            r = sh(["patch", "-p1", "-s", "-i", os.path.join(seed, "patch.diff")], cwd=S)
        out["apply_rc"] = r.returncode
        out["apply_err"] = (r.stdout + r.stderr)[-300:]
        out["suite_mutant"] = suite(S)
        rc, txt = demo(seed, S)
        out["demo_mutant"] = {"rc": rc, "tail": txt[-300:]}
        env = dict(os.environ, VERIF_REPO=S)
        for c in checks:
            t0 = time.time()
            r = subprocess.run([os.path.join(V, "bin", "check"), c], capture_output=True, text=True, env=env)
            lines = [l for l in r.stdout.splitlines() if l.startswith(("VIOLATION", "KNOWN-FINDING", c + " ", "  detail"))]
            out["checks"][c] = {"rc": r.returncode, "secs": round(time.time() - t0), "violations": sum(1 for l in lines if l.startswith("VIOLATION")),
                                "no_input": sum(1 for l in lines if "no-failing-input-found" in l),
                                "first": next((l[:300] for l in lines if l.startswith("  detail")), None)}
    finally:
        shutil.rmtree(S, ignore_errors=True)
        shutil.rmtree(os.path.join(V, "evidence"), ignore_errors=True)
        if os.path.isdir(keep): shutil.move(keep, os.path.join(V, "evidence"))
        sh([sys.executable, os.path.join(V, "translate", "translate.py")])
    print(json.dumps(out, indent=1))

if __name__ == "__main__":
    main()
