def fnv1a(b):
    h = 0xcbf29ce484222325
    for x in b:
        h = ((h ^ x) * 0x100000001b3) & 0xFFFFFFFFFFFFFFFF
    return h

def digest(b):
    """LEN:FNV[:HEX] as harness and driver print it"""
    s = "%d:%016x" % (len(b), fnv1a(b))
    if len(b) <= 64:
        s += ":" + (b.hex() if b else "-")
    return s
