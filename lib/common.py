"""Shared plumbing of /verif/bin/check: build steps, proof audit, running harness and driver,
evidence and replay files, known findings.  Python 3 stdlib only."""
import fcntl, hashlib, json, os, re, shutil, subprocess, sys, time, glob, random

VERIF = os.path.dirname(os.path.dirname(os.path.abspath(__file__)))
REPO = os.environ.get("VERIF_REPO", "/repo")
BUILD = os.path.join(VERIF, "build")
LEAN = os.path.join(VERIF, "lean")
DRIVER = os.path.join(LEAN, ".lake", "build", "bin", "mspack-driver")
NCPU = os.cpu_count() or 4
ACCEPTED_AXIOMS = {"propext", "Quot.sound", "Classical.choice"}
FORBIDDEN = re.compile(r"\b(sorry|admit|native_decide|bv_decide|implemented_by|unsafe|partial)\b|^\s*axiom\s|maxHeartbeats\s+0")

def log(msg):
    print(msg, flush=True)

class Lock:
    def __init__(self, name):
        os.makedirs(BUILD, exist_ok=True)
        self.path = os.path.join(BUILD, name + ".lock")
    def __enter__(self):
        self.f = open(self.path, "w")
        fcntl.flock(self.f, fcntl.LOCK_EX)
        return self
    def __exit__(self, *a):
        fcntl.flock(self.f, fcntl.LOCK_UN)
        self.f.close()

def run(cmd, **kw):
    kw.setdefault("capture_output", True)
    kw.setdefault("text", True)
    return subprocess.run(cmd, **kw)

# ---------------------------------------------------------------------------- source tie

def repo_source_hash():
    h = hashlib.sha256()
    pats = ["libmspack/mspack/*.[ch]", "cabextract/src/*.[ch]", "cabextract/md5.[ch]"]
    for p in pats:
        for f in sorted(glob.glob(os.path.join(REPO, p))):
            h.update(f.encode()); h.update(open(f, "rb").read())
    for f in sorted(glob.glob(os.path.join(VERIF, "harness", "*"))):
        if os.path.isfile(f):
            h.update(f.encode()); h.update(open(f, "rb").read())
    return h.hexdigest()[:16]

def translate():
    """step 1: regenerate Generated/*.lean from the current tree. Returns (ok, message)."""
    r = run([sys.executable, os.path.join(VERIF, "translate", "translate.py"), "--repo", REPO])
    return r.returncode == 0, (r.stdout + r.stderr).strip()

def lake_build(targets):
    """returns (ok, output)"""
    with Lock("lake"):
        r = run(["lake", "build"] + targets, cwd=LEAN)
    out = "\n".join(l for l in (r.stdout + r.stderr).splitlines() if not l.startswith("trace:") and "WARNING conda" not in l)
    return r.returncode == 0, out

def harness_dir():
    """step 4a: build (or reuse) the harness for the current sources; returns dir or raises"""
    key = repo_source_hash()
    d = os.path.join(BUILD, "harness-" + key)
    with Lock("harness"):
        if not os.path.exists(os.path.join(d, "apiharness")):
            # drop stale harness builds
            # (another check may still be running against an older build: only drop builds
            #  nobody has touched for two hours)
            for old in glob.glob(os.path.join(BUILD, "harness-*")):
                if old != d and os.path.isdir(old) and time.time() - os.path.getmtime(old) > 7200:
                    shutil.rmtree(old, ignore_errors=True)
            os.makedirs(d, exist_ok=True)
            env = dict(os.environ, VERIF_REPO=REPO)
            r = run(["bash", os.path.join(VERIF, "harness", "build.sh"), d], env=env)
            open(os.path.join(d, "build.log"), "w").write(r.stdout + r.stderr)
            if r.returncode != 0 or not os.path.exists(os.path.join(d, "apiharness")):
                raise RuntimeError("harness build failed:\n" + (r.stdout + r.stderr)[-3000:])
    return d

# ---------------------------------------------------------------------------- proof audit

def strip_lean_comments(src):
    src = re.sub(r"/-.*?-/", " ", src, flags=re.S)
    src = re.sub(r"--[^\n]*", " ", src)
    return src

def grep_forbidden(files):
    hits = []
    for f in files:
        src = strip_lean_comments(open(f).read())
        for i, line in enumerate(src.splitlines(), 1):
            if FORBIDDEN.search(line):
                hits.append(f"{os.path.relpath(f, VERIF)}:{i}: {line.strip()[:120]}")
    return hits

def lean_cone(module):
    """source files of `module` and everything of ours it imports (transitively)"""
    seen, todo = set(), [module]
    while todo:
        m = todo.pop()
        if m in seen: continue
        path = os.path.join(LEAN, m.replace(".", "/") + ".lean")
        if not os.path.exists(path): continue
        seen.add(m)
        for mm in re.findall(r"^import\s+([\w.]+)", open(path).read(), flags=re.M):
            todo.append(mm)
    return [os.path.join(LEAN, m.replace(".", "/") + ".lean") for m in sorted(seen)]

def audit_theorems(module, theorems):
    """#print axioms for each theorem; returns dict name -> list of axioms, or name -> None if missing"""
    os.makedirs(os.path.join(BUILD, "audit"), exist_ok=True)
    f = os.path.join(BUILD, "audit", f"audit_{module.replace('.', '_')}_{os.getpid()}.lean")
    with open(f, "w") as fh:
        fh.write(f"import {module}\n")
        for t in theorems:
            fh.write(f"#print axioms {t}\n")
    with Lock("lake"):
        r = run(["lake", "env", "lean", f], cwd=LEAN)
    os.unlink(f)
    out = r.stdout + r.stderr
    res = {t: None for t in theorems}
    # messages: "'name' depends on axioms: [a, b]" or "'name' does not depend on any axioms"
    for m in re.finditer(r"'([^']+)' depends on axioms: \[([^\]]*)\]", out, flags=re.S):
        res[m.group(1)] = [a.strip() for a in m.group(2).replace("\n", " ").split(",") if a.strip()]
    for m in re.finditer(r"'([^']+)' does not depend on any axioms", out):
        res[m.group(1)] = []
    return res, out

def recheck_oleans(modules):
    """thorough tier: Lean's independent re-checker over the compiled theorem modules (one module per call).
    Returns list of problems."""
    problems = []
    for m in modules:
        with Lock("lake"):
            r = run(["lake", "env", "leanchecker", m], cwd=LEAN)
        if r.returncode != 0:
            problems.append(f"leanchecker rejects {m}: " + (r.stdout + r.stderr).strip()[-600:])
    return problems

def check_proofs(prop_modules, theorems_by_module):
    """Builds the property's theorem modules, audits them.
    Returns dict(ok, obligations, discharged, axioms, problems[])."""
    problems = []
    obligations = sum(len(v) for v in theorems_by_module.values())
    ok, out = lake_build(prop_modules)
    if not ok:
        problems.append("lake build failed for " + ",".join(prop_modules) + ":\n" + out[-2500:])
        return dict(ok=False, obligations=obligations, discharged=0, axioms=[], problems=problems, failed_build=True)
    discharged = 0
    axioms = set()
    for mod, thms in theorems_by_module.items():
        res, raw = audit_theorems(mod, thms)
        for t, ax in res.items():
            if ax is None:
                problems.append(f"theorem {t} not found in {mod} ({raw.strip()[:300]})")
            else:
                bad = [a for a in ax if a not in ACCEPTED_AXIOMS]
                if bad:
                    problems.append(f"theorem {t} depends on unaccepted axioms {bad}")
                else:
                    discharged += 1
                axioms.update(ax)
        hits = grep_forbidden(lean_cone(mod))
        if hits:
            problems.append("forbidden constructs in the proof cone: " + "; ".join(hits[:5]))
    return dict(ok=not problems, obligations=obligations, discharged=discharged,
                axioms=sorted(axioms), problems=problems, failed_build=False)

# ---------------------------------------------------------------------------- running cases

OPWORDS = {"new", "param", "open", "fastopen", "search", "close", "append", "prepend", "dump", "extract",
           "fastfind", "ffextract", "decompress", "decompressinc", "destroy", "prim", "end"}

def split_cases(text):
    """output of harness/driver over several cases -> dict path -> list of op blocks (each a list of lines)"""
    res = {}
    cur = None
    for line in text.splitlines():
        if line.startswith("== CASE "):
            cur = []
            res[line[8:].strip()] = cur
            continue
        if cur is None or not line.strip():
            continue
        w = line.split(" ", 1)[0]
        if w in OPWORDS or w in ("CRASH", "TIMEOUT") or not cur:
            cur.append([line])
        else:
            cur[-1].append(line)
    return res

def run_tool(exe, case_paths, env=None, timeout=900, chunk=64, args=()):
    """runs exe over case files in parallel chunks; returns dict path -> blocks"""
    from concurrent.futures import ThreadPoolExecutor
    chunk = min(chunk, max(1, -(-len(case_paths) // NCPU)))      # few cases: still use every core
    chunks = [case_paths[i:i + chunk] for i in range(0, len(case_paths), chunk)]
    def one(ch):
        try:
            r = subprocess.run([exe, *args] + ch, capture_output=True, text=True, errors="replace", env=env, timeout=timeout)
            return r.stdout
        except subprocess.TimeoutExpired as e:
            return (e.stdout or b"").decode(errors="replace") if isinstance(e.stdout, bytes) else (e.stdout or "")
    res = {}
    with ThreadPoolExecutor(max_workers=NCPU) as ex:
        for out in ex.map(one, chunks):
            res.update(split_cases(out))
    return res

def hexs(b):
    return b.hex() if b else "-"

class CaseWriter:
    """writes case files into a fresh directory under build/"""
    def __init__(self, prop, tier):
        self.dir = os.path.join(BUILD, "cases", f"{prop}-{tier}-{os.getpid()}")
        shutil.rmtree(self.dir, ignore_errors=True)
        os.makedirs(self.dir)
        self.n = 0
        self.paths = []
        self.meta = {}
    def add(self, lines, meta=None, name=None):
        p = os.path.join(self.dir, (name or f"c{self.n:06d}") + ".case")
        self.n += 1
        with open(p, "w") as f:
            f.write("\n".join(lines) + "\n")
        self.paths.append(p)
        self.meta[p] = meta or {}
        return p
    def cleanup(self):
        shutil.rmtree(self.dir, ignore_errors=True)

def kv(line):
    """'extract st=0 err=0 out=3:ab' -> {'_': 'extract', 'st': '0', ...}"""
    d = {"_": line.split(" ", 1)[0]}
    for tok in line.split(" ")[1:]:
        if "=" in tok:
            k, v = tok.split("=", 1)
            d[k] = v
        else:
            d.setdefault("_args", []).append(tok)
    return d

# ---------------------------------------------------------------------------- evidence, replays, findings

def save_replay(prop, case_path_or_lines, header):
    d = os.path.join(VERIF, "replays", prop)
    os.makedirs(d, exist_ok=True)
    if isinstance(case_path_or_lines, str) and os.path.exists(case_path_or_lines):
        body = open(case_path_or_lines).read()
    else:
        body = "\n".join(case_path_or_lines) + "\n"
    meta = header.pop("meta", None)
    head = "".join(f"# {k}: {v}\n" for k, v in header.items())
    if meta is not None:
        head += "# meta: " + json.dumps(meta, default=str) + "\n"
    sha = hashlib.sha256((head + body).encode()).hexdigest()[:12]
    p = os.path.join(d, sha + ".case")
    with open(p, "w") as f:
        f.write(head + body)
    return p

def load_case(path):
    """-> (lines without header comments, meta dict from a '# meta: {...}' header line)"""
    lines, meta = [], {}
    for l in open(path):
        l = l.rstrip("\n")
        if l.startswith("# meta: "):
            try: meta = json.loads(l[8:])
            except ValueError: pass
        elif l.startswith("# "):
            continue
        else:
            lines.append(l)
    return lines, meta

def known_findings(prop):
    p = os.path.join(VERIF, "known_findings.json")
    if not os.path.exists(p):
        return []
    return [e for e in json.load(open(p)) if e.get("property") == prop]

def write_evidence(prop, tier, seed, level, coverage, wall_s, violations, assumptions):
    os.makedirs(os.path.join(VERIF, "evidence"), exist_ok=True)
    ev = dict(property_id=prop, tier=tier, seed=seed, level=level, coverage=coverage,
              assumptions=assumptions, wall_s=round(wall_s, 2), violations=violations)
    p = os.path.join(VERIF, "evidence", prop + ".json")
    tmp = p + ".tmp"
    json.dump(ev, open(tmp, "w"), indent=1, default=str)
    os.replace(tmp, p)
    return p

class Result:
    """accumulates what a check did"""
    def __init__(self, prop, tier, seed):
        self.prop, self.tier, self.seed = prop, tier, seed
        self.t0 = time.time()
        self.violations = []      # (replay_path, text, no_input_found)
        self.known = []           # KNOWN-FINDING texts
        self.notes = []
        self.cov = dict(evaluations=0, distinct_nontrivial=0, rule="", samples=[],
                        obligations=0, discharged=0, checker_cmd="", trusted_base=[],
                        traces_validated_against_impl=0)
        self.assumptions = []
    def violation(self, replay, text, no_input=False):
        self.violations.append((replay, text, no_input))
    def finish(self, level="proof"):
        for k in self.known:
            log(f"KNOWN-FINDING: property={self.prop} {k}")
        for (rp, text, no_input) in self.violations:
            log(f"  detail: {text}")
            log(f"VIOLATION property={self.prop} replay={rp}" + (" no-failing-input-found" if no_input else ""))
        self.cov["notes"] = self.notes
        self.cov["known_findings_reported"] = self.known
        write_evidence(self.prop, self.tier, self.seed, level, self.cov, time.time() - self.t0,
                       len(self.violations), self.assumptions)
        return 1 if self.violations else 0
