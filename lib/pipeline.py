"""The check pipeline of DESIGN.md §3, generic over a property module.

A property module (checks/cXX.py) provides:
  PROP            "C12"
  THEOREMS        {lean module: [theorem names]}    the obligations registered for the property
  LEVEL           evidence level ("proof")
  ASSUMPTIONS     list of strings
  RULE            how cases are generated / what counts as distinct non-trivial
  generate(ctx)   -> yields (lines, meta) case files (ctx has .rng, .tier, .seed, .extra)
  judge(ctx, meta, impl, model) -> list of Finding       impl/model: list of op blocks (or None)
  classify(ctx, meta, finding) -> id of a known finding this failure is an instance of, or None
  USES_MODEL      True if the driver is run and compared
Optional: extra_obligations(ctx) -> list of (name, ok, detail)   (e.g. inventories)
          search(ctx, res)        budgeted hunt for a failing input after a broken obligation
"""
import os, random, sys, time, json, hashlib, traceback
from . import common as C

class Finding:
    def __init__(self, kind, text, nontrivial=True):
        # kind: "violation" = the property's own oracle fails on the implementation (a concrete
        # failing input); "mismatch" = model and implementation differ on an observable of the
        # property (broken correspondence, not yet a violation)
        self.kind, self.text = kind, text

class Ctx:
    def __init__(self, prop, tier, seed):
        self.prop, self.tier, self.seed = prop, tier, seed
        self.rng = random.Random((hash(prop) & 0xffff) * 1000003 + seed) if False else random.Random(f"{prop}-{seed}")
        self.extra = {}
        self.hdir = None

def run_cases(ctx, mod, res, cw, use_model=True, harness_args=(), harness_exe="apiharness", env=None):
    """runs all cases of cw on implementation (and model), judges them; returns (violations, mismatches)"""
    impl = C.run_tool(os.path.join(ctx.hdir, harness_exe), cw.paths, env=env, args=harness_args)
    model = C.run_tool(C.DRIVER, cw.paths) if use_model else {}
    violations, mismatches = [], []
    seen = set()
    for p in cw.paths:
        meta = cw.meta[p]
        ib, mb = impl.get(p), model.get(p) if use_model else None
        if ib is None:
            violations.append((p, meta, Finding("violation", "harness produced no output for this case (crashed outside a case child?)")))
            continue
        try:
            fs = mod.judge(ctx, meta, ib, mb)
        except Exception as e:
            fs = [Finding("mismatch", "judge raised " + repr(e) + " " + traceback.format_exc()[-400:])]
        res.cov["evaluations"] += 1
        if use_model and mb is not None:
            res.cov["traces_validated_against_impl"] += 1
        sig = meta.get("sig")
        if sig is None:
            sig = hashlib.sha256(open(p, "rb").read()).hexdigest()
        if meta.get("nontrivial", True) and sig not in seen:
            seen.add(sig)
            res.cov["distinct_nontrivial"] += 1
        for f in fs:
            (violations if f.kind == "violation" else mismatches).append((p, meta, f))
    return violations, mismatches

def main(mod, argv):
    """checks of the default tree (/repo) may run side by side; a check of another tree (VERIF_REPO: the selftest's
    scratch copies) regenerates lean/MsPack/Generated and rebuilds the driver from *that* tree, so it runs alone"""
    import fcntl
    os.makedirs(C.BUILD, exist_ok=True)
    with open(os.path.join(C.BUILD, "tree.lock"), "w") as lf:
        fcntl.flock(lf, fcntl.LOCK_SH if C.REPO == "/repo" else fcntl.LOCK_EX)
        return _main(mod, argv)

def _main(mod, argv):
    import argparse
    ap = argparse.ArgumentParser()
    ap.add_argument("--tier", default=os.environ.get("VERIF_TIER", "quick"))
    ap.add_argument("--replay", default=None)
    a = ap.parse_args(argv)
    tier = a.tier if a.tier in ("quick", "thorough") else "quick"
    seed = int(os.environ.get("VERIF_SEED", "1") or 1)
    prop = mod.PROP
    ctx = Ctx(prop, tier, seed)
    res = C.Result(prop, tier, seed)
    res.assumptions = list(getattr(mod, "ASSUMPTIONS", []))
    res.cov["rule"] = getattr(mod, "RULE", "")
    broken = []      # names of obligations / correspondences that no longer check

    # 1. translator
    ok, msg = C.translate()
    if not ok:
        broken.append("translator: " + msg[-500:])
    # 2. model + driver
    ok, out = C.lake_build(["MsPack", "mspack-driver"])
    model_ok = ok
    if not ok:
        broken.append("model build (lake build MsPack mspack-driver): " + out[-1500:])
    # 3. theorems
    thms = mod.THEOREMS
    if model_ok:
        pr = C.check_proofs(list(thms.keys()), thms)
    else:
        pr = dict(ok=False, obligations=sum(len(v) for v in thms.values()), discharged=0, axioms=[], problems=["model does not build"])
    res.cov["obligations"] = pr["obligations"]
    res.cov["discharged"] = pr["discharged"]
    res.cov["trusted_base"] = ["Lean 4.33.0 kernel"] + ["axiom " + a for a in pr["axioms"]] + \
        ["translator /verif/translate/translate.py", "correspondence harness /verif/harness + driver /verif/lean/Main.lean"]
    res.cov["checker_cmd"] = "lake build " + " ".join(thms.keys()) + " && lake env lean <#print axioms of every registered theorem>"
    res.cov["theorems"] = {m: t for m, t in thms.items()}
    if not pr["ok"]:
        broken += ["proof obligation: " + p for p in pr["problems"]]
    elif tier == "thorough" and not a.replay:
        rc = C.recheck_oleans(list(thms.keys()))
        res.cov["checker_cmd"] += " && lake env leanchecker <each theorem module>"
        res.cov["leanchecker_modules"] = len(thms)
        broken += ["proof obligation: " + p for p in rc]
    if hasattr(mod, "extra_obligations") and model_ok:
        for (name, ok, detail) in mod.extra_obligations(ctx):
            res.cov["obligations"] += 1
            if ok: res.cov["discharged"] += 1
            else: broken.append(f"obligation {name}: {detail}")

    # 4. harness, cases, correspondence + property oracle
    try:
        ctx.hdir = C.harness_dir()
    except Exception as e:
        broken.append("harness: " + str(e)[-1500:])
    violations, mismatches = [], []
    cw = C.CaseWriter(prop, tier)
    dist = {}
    if ctx.hdir:
        if a.replay:
            lines, m0 = C.load_case(a.replay)
            m = dict(getattr(mod, "replay_meta", lambda l: {})(lines)); m.update(m0); m["replay"] = a.replay
            if hasattr(mod, "insize"): m["insize"] = mod.insize(lines)
            cw.add(lines, m)
        else:
            # known-finding witnesses and the regression corpus run first
            for e in C.known_findings(prop):
                w = os.path.join(C.VERIF, e["witness"])
                lines, m0 = C.load_case(w)
                m = dict(getattr(mod, "replay_meta", lambda l: {})(lines)); m.update(m0); m.update(e.get("meta", {}))
                m.update(finding_witness=e["id"], kind=e["kind"])
                if hasattr(mod, "insize"): m["insize"] = mod.insize(lines)
                cw.add(lines, m, name="finding-" + e["id"])
            for (lines, meta) in mod.generate(ctx):
                if hasattr(mod, "insize"): meta["insize"] = mod.insize(lines)
                cw.add(lines, meta)
                fam = meta.get("family", "?")
                dist[fam] = dist.get(fam, 0) + 1
        if hasattr(mod, "custom_run"):
            v, m = mod.custom_run(ctx, res, cw)
        else:
            v, m = run_cases(ctx, mod, res, cw, use_model=getattr(mod, "USES_MODEL", True) and model_ok)
        violations += v; mismatches += m
        if a.replay:
            impl = C.run_tool(os.path.join(ctx.hdir, "apiharness"), cw.paths)
            for p in cw.paths:
                C.log("--- implementation")
                for b in impl.get(p, []): C.log("\n".join(b))
                if getattr(mod, "USES_MODEL", True) and model_ok:
                    C.log("--- model")
                    for b in C.run_tool(C.DRIVER, cw.paths).get(p, []): C.log("\n".join(b))
    res.cov["family_distribution"] = dist
    if hasattr(mod, "distribution"):
        res.cov["input_distribution"] = mod.distribution(ctx)

    # 5./6. triage
    known = {e["id"]: e for e in C.known_findings(prop)}
    reported_known = set()
    fixed_regressed = []
    real = []
    for (p, meta, f) in violations:
        fid = meta.get("finding_witness")
        if fid is None and hasattr(mod, "classify"):
            fid = mod.classify(ctx, meta, f)
        if fid in known and known[fid]["kind"] == "known":
            reported_known.add(fid)
        else:
            real.append((p, meta, f))
    # known-finding witnesses that no longer fail are said out loud
    for fid, e in known.items():
        if e["kind"] == "known":
            if fid in reported_known:
                res.known.append(f"{fid}: {e['summary']}")
            elif not a.replay and ctx.hdir:
                res.notes.append(f"known finding {fid} no longer reproduces (repaired upstream?)")
    samples = []
    for p in cw.paths[:3] + cw.paths[-2:]:
        try:
            txt = open(p).read()
            samples.append({"case": os.path.basename(p), "meta": {k: v for k, v in cw.meta[p].items() if k != "sig"},
                            "text": txt[:600] + ("..." if len(txt) > 600 else "")})
        except OSError:
            pass
    res.cov["samples"] = samples + [{"theorem": t, "module": m} for m, ts in thms.items() for t in ts][:12]

    shown = 0
    seen_kinds = set()
    res.cov["violations_total"] = len(real)
    for (p, meta, f) in real:
        kind = (meta.get("family", "?"), "".join(ch for ch in f.text[:60] if not ch.isdigit()))
        if kind in seen_kinds: continue
        seen_kinds.add(kind)
        if shown >= 8: break
        shown += 1
        rp = C.save_replay(prop, p, dict(property=prop, kind="failing-input", seed=seed, tier=tier,
                                         family=meta.get("family", "?"), what=f.text[:300], meta=meta))
        res.violation(rp, f.text)
    if not real and (broken or mismatches):
        # the property is no longer shown to hold; hunt for a concrete failing input
        found = None
        if hasattr(mod, "search") and ctx.hdir:
            try:
                found = mod.search(ctx, res, broken, mismatches)
            except Exception as e:
                res.notes.append("search stage raised " + repr(e))
        if found:
            lines, meta, text = found
            rp = C.save_replay(prop, lines, dict(property=prop, kind="failing-input", seed=seed, tier=tier,
                                                 family=meta.get("family", "search"), what=text[:300]))
            res.violation(rp, text)
        else:
            first = mismatches[0] if mismatches else None
            hdr = dict(property=prop, kind="broken-obligation", seed=seed, tier=tier)
            body = ["# no failing input was found; what no longer checks:"]
            for b in broken[:10]:
                body += ["#   " + l for l in b.splitlines()[:40]]
            if first:
                body.append(f"# correspondence family {first[1].get('family','?')}: first differing case follows; {first[2].text[:400]}")
                body += open(first[0]).read().splitlines()
            rp = C.save_replay(prop, body, hdr)
            what = (broken[0].splitlines()[0] if broken else "model and implementation differ: " + first[2].text)[:300]
            res.violation(rp, what, no_input=True)
    res.cov["correspondence_mismatches"] = len(mismatches)
    res.cov["programs"] = res.cov["traces_validated_against_impl"]     # model/implementation runs compared
    res.cov["disagreements_checked"] = len(mismatches)
    res.cov["broken"] = [b[:300] for b in broken]
    C.log(f"{prop} {tier} seed={seed}: obligations {res.cov['discharged']}/{res.cov['obligations']}, cases {res.cov['evaluations']}, "
          f"mismatches {len(mismatches)}, violations {len(res.violations)}, known {len(res.known)}, {time.time()-res.t0:.0f}s")
    rc = res.finish(getattr(mod, "LEVEL", "proof"))
    if not os.environ.get("VERIF_KEEP_CASES"):
        cw.cleanup()
    return rc
