"""Small self-contained cabinet writer (one or more folders, no split sets) used by the checks
that need precise control over single blocks.  Format per [MS-CAB]; checksum as the format
defines it (same algorithm cabd_checksum implements, written independently here)."""
import struct

def cab_checksum(data, seed=0):
    ck = seed
    n = len(data) // 4
    for i in range(n):
        ck ^= struct.unpack_from("<I", data, 4 * i)[0]
    rest = data[4 * n:]
    ul = 0
    if len(rest) == 3: ul = (rest[0] << 16) | (rest[1] << 8) | rest[2]
    elif len(rest) == 2: ul = (rest[0] << 8) | rest[1]
    elif len(rest) == 1: ul = rest[0]
    return (ck ^ ul) & 0xFFFFFFFF

def data_block(payload, usize, checksum=True, reserve=b""):
    sizes = struct.pack("<HH", len(payload), usize)
    ck = cab_checksum(sizes, cab_checksum(payload)) if checksum else 0
    if checksum and reserve:
        # the reserved area is covered by the real format's checksum too, but libmspack skips it
        # before checksumming only sizes+payload; keep libmspack's view
        pass
    return struct.pack("<I", ck) + sizes + reserve + payload

def dos_date(y, m, d): return ((y - 1980) << 9) | (m << 5) | d
def dos_time(h, m, s): return (h << 11) | (m << 5) | (s >> 1)

def build(folders, files, set_id=0x1234, cab_index=0, header_res=None, folder_res=0, data_res=0,
          prev=None, nxt=None, checksum=True, version=(3, 1)):
    """folders: list of (comp_type, [(payload, usize)], optional per-block checksum flags)
       files: list of dict(name=bytes, length, offset, folder, date=(y,m,d), time=(h,m,s), attribs)
       Returns (bytes, layout) where layout['blocks'][fi][bi] = (offset of CFDATA header, payload length)"""
    flags = 0
    if prev: flags |= 1
    if nxt: flags |= 2
    reserve = header_res is not None or folder_res or data_res
    if reserve: flags |= 4
    hres = header_res or b""
    ext = b""
    if reserve:
        ext = struct.pack("<HBB", len(hres), folder_res, data_res) + hres
    strs = b""
    if prev: strs += prev[0] + b"\0" + prev[1] + b"\0"
    if nxt: strs += nxt[0] + b"\0" + nxt[1] + b"\0"
    files_b = b""
    for f in files:
        d = f.get("date", (1997, 3, 12)); t = f.get("time", (11, 13, 52))
        files_b += struct.pack("<IIHHHH", f["length"], f["offset"], f["folder"], dos_date(*d), dos_time(*t),
                               f.get("attribs", 0x20)) + f["name"] + b"\0"
    hdr_len = 36 + len(ext) + len(strs)
    fold_len = (8 + folder_res) * len(folders)
    data_off = hdr_len + fold_len + len(files_b)
    fold_b = b""; data_b = b""; layout = {"blocks": []}
    for fo in folders:
        comp, blocks = fo[0], fo[1]
        cks = fo[2] if len(fo) > 2 else [checksum] * len(blocks)
        fold_b += struct.pack("<IHH", data_off + len(data_b), len(blocks), comp) + b"\xEE" * folder_res
        bl = []
        for (payload, usize), ck in zip(blocks, cks):
            bl.append((data_off + len(data_b), len(payload)))
            data_b += data_block(payload, usize, ck, b"\xDD" * data_res)
        layout["blocks"].append(bl)
    total = data_off + len(data_b)
    h = struct.pack("<4sIIIIIBBHHHHH", b"MSCF", 0, total, 0, hdr_len + fold_len, 0, version[0], version[1],
                    len(folders), len(files), flags, set_id, cab_index)
    layout["data_res"] = data_res
    return h + ext + strs + fold_b + files_b + data_b, layout
