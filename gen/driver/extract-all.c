/* extract-all: list and extract every member of an archive with the real
 * libmspack (default stdio mspack_system).  Used only by gen/roundtrip.py.
 *   extract-all cab       OUTDIR FILE [FILE...]   open each, append in order
 *   extract-all cabsearch OUTDIR FILE             search(), every cabinet found
 *   extract-all chm       OUTDIR FILE
 *   extract-all szdd|kwaj OUTDIR FILE
 *   extract-all oab       OUTDIR FILE  |  oabinc OUTDIR PATCH BASE
 * Members are extracted in listing order to OUTDIR/f<i> and then in reverse
 * order (forcing decoder restarts) to OUTDIR/r<i>; names are printed as hex. */
#include <stdio.h>
#include <stdlib.h>
#include <string.h>
#include <mspack.h>

static void hex(const char *k, const char *s, int n) {
  int i; printf(" %s=", k);
  if (!s) { printf("~"); return; }
  if (n < 0) n = (int) strlen(s);
  if (!n) printf("-");
  for (i = 0; i < n; i++) printf("%02x", (unsigned char) s[i]);
}
static char *path(const char *dir, char t, int i) {
  static char buf[4096]; snprintf(buf, sizeof buf, "%s/%c%d", dir, t, i); return buf;
}

static int do_cab(struct mscab_decompressor *d, struct mscabd_cabinet *c, const char *out, int base) {
  struct mscabd_cabinet *k; struct mscabd_folder *fo; struct mscabd_file *fi, **v; int i, n = 0;
  for (k = c; k; k = k->nextcab) {
    printf("cab off=%ld len=%u set=%u idx=%u hres=%u flags=%d", (long) k->base_offset, k->length, k->set_id, k->set_index, k->header_resv, k->flags);
    hex("prev", k->prevname, -1); hex("previnfo", k->previnfo, -1); hex("next", k->nextname, -1); hex("nextinfo", k->nextinfo, -1); printf("\n");
  }
  for (i = 0, fo = c->folders; fo; fo = fo->next, i++) printf("folder %d comp=0x%x nblocks=%u\n", i, fo->comp_type, fo->num_blocks);
  for (fi = c->files; fi; fi = fi->next) n++;
  v = calloc(n + 1, sizeof *v);
  for (i = 0, fi = c->files; fi; fi = fi->next, i++) {
    int fidx = 0; v[i] = fi;
    for (fo = c->folders; fo && fo != fi->folder; fo = fo->next) fidx++;
    printf("file %d", base + i); hex("name", fi->filename, -1);
    printf(" len=%u off=%u attr=0x%x date=%d/%d/%d time=%d:%d:%d folder=%d\n", fi->length, fi->offset, fi->attribs,
           fi->date_y, fi->date_m, fi->date_d, fi->time_h, fi->time_m, fi->time_s, fo ? fidx : -1);
  }
  for (i = 0; i < n; i++) printf("extract f%d st=%d\n", base + i, d->extract(d, v[i], path(out, 'f', base + i)));
  for (i = n - 1; i >= 0; i--) printf("extract r%d st=%d\n", base + i, d->extract(d, v[i], path(out, 'r', base + i)));
  free(v); return n;
}

int main(int argc, char **argv) {
  const char *fmt, *out; int i, st = 0;
  if (argc < 4) return 2;
  fmt = argv[1]; out = argv[2];
  if (!strcmp(fmt, "cab") || !strcmp(fmt, "cabsearch")) {
    struct mscab_decompressor *d = mspack_create_cab_decompressor(NULL);
    struct mscabd_cabinet *c, *first = NULL, *last = NULL; int base = 0;
    if (!strcmp(fmt, "cabsearch")) {
      first = d->search(d, argv[3]); printf("search st=%d\n", d->last_error(d));
      for (c = first; c; c = c->next) base += do_cab(d, c, out, base);
    } else {
      for (i = 3; i < argc; i++) {
        if (!(c = d->open(d, argv[i]))) { printf("open %d st=%d\n", i - 3, d->last_error(d)); exit(0); }
        printf("open %d st=0\n", i - 3);
        if (last) printf("append st=%d\n", d->append(d, last, c)); else first = c;
        last = c;
      }
      do_cab(d, first, out, 0);
    }
    if (first) d->close(d, first);
    mspack_destroy_cab_decompressor(d);
  }
  else if (!strcmp(fmt, "chm")) {
    struct mschm_decompressor *d = mspack_create_chm_decompressor(NULL);
    struct mschmd_header *h = d->open(d, argv[3]); struct mschmd_file *fi, **v, r; int n = 0;
    printf("open st=%d\n", d->last_error(d)); if (!h) exit(0);
    printf("chm len=%ld ver=%u ts=%u lang=%u diroff=%ld nchunks=%u chunksize=%u density=%u depth=%u root=%u first=%u last=%u sec0=%ld\n",
           (long) h->length, h->version, h->timestamp, h->language, (long) h->dir_offset, h->num_chunks, h->chunk_size,
           h->density, h->depth, h->index_root, h->first_pmgl, h->last_pmgl, (long) h->sec0.offset);
    for (fi = h->sysfiles; fi; fi = fi->next) { printf("sysfile"); hex("name", fi->filename, -1); printf(" sec=%u off=%ld len=%ld\n", fi->section->id, (long) fi->offset, (long) fi->length); }
    for (fi = h->files; fi; fi = fi->next) n++;
    v = calloc(n + 1, sizeof *v);
    for (i = 0, fi = h->files; fi; fi = fi->next, i++) {
      v[i] = fi; printf("file %d", i); hex("name", fi->filename, -1);
      printf(" sec=%u off=%ld len=%ld\n", fi->section->id, (long) fi->offset, (long) fi->length);
    }
    for (i = 0; i < n; i++) {
      st = d->fast_find(d, h, v[i]->filename, &r, sizeof r);
      printf("find %d st=%d sec=%d off=%ld len=%ld\n", i, st, r.section ? (int) r.section->id : -1, (long) r.offset, (long) r.length);
    }
    st = d->fast_find(d, h, "/no such file \x7f", &r, sizeof r); printf("findmissing st=%d sec=%d\n", st, r.section ? 1 : -1);
    for (i = 0; i < n; i++) printf("extract f%d st=%d\n", i, d->extract(d, v[i], path(out, 'f', i)));
    for (i = n - 1; i >= 0; i--) printf("extract r%d st=%d\n", i, d->extract(d, v[i], path(out, 'r', i)));
    free(v); d->close(d, h); mspack_destroy_chm_decompressor(d);
  }
  else if (!strcmp(fmt, "szdd")) {
    struct msszdd_decompressor *d = mspack_create_szdd_decompressor(NULL);
    struct msszddd_header *h = d->open(d, argv[3]);
    printf("open st=%d\n", d->last_error(d)); if (!h) exit(0);
    printf("szdd fmt=%d len=%ld missing=%02x\n", h->format, (long) h->length, (unsigned char) h->missing_char);
    printf("extract f0 st=%d\n", d->extract(d, h, path(out, 'f', 0)));
    d->close(d, h);
    printf("extract r0 st=%d\n", d->decompress(d, argv[3], path(out, 'r', 0)));
    mspack_destroy_szdd_decompressor(d);
  }
  else if (!strcmp(fmt, "kwaj")) {
    struct mskwaj_decompressor *d = mspack_create_kwaj_decompressor(NULL);
    struct mskwajd_header *h = d->open(d, argv[3]);
    printf("open st=%d\n", d->last_error(d)); if (!h) exit(0);
    printf("kwaj comp=%u dataoff=%ld flags=0x%x len=%ld", h->comp_type, (long) h->data_offset, h->headers, (long) h->length);
    hex("name", h->filename, -1); hex("extra", h->extra, h->extra ? h->extra_length : 0); printf("\n");
    printf("extract f0 st=%d\n", d->extract(d, h, path(out, 'f', 0)));
    d->close(d, h);
    printf("extract r0 st=%d\n", d->decompress(d, argv[3], path(out, 'r', 0)));
    mspack_destroy_kwaj_decompressor(d);
  }
  else if (!strcmp(fmt, "oab") || !strcmp(fmt, "oabinc")) {
    struct msoab_decompressor *d = mspack_create_oab_decompressor(NULL);
    for (i = 0; i < 2; i++) {
      if (i) d->set_param(d, MSOABD_PARAM_DECOMPBUF, 16 + 2 * (argc & 1));
      st = !strcmp(fmt, "oab") ? d->decompress(d, argv[3], path(out, i ? 'r' : 'f', 0))
                               : d->decompress_incremental(d, argv[3], argv[4], path(out, i ? 'r' : 'f', 0));
      printf("extract %c0 st=%d\n", i ? 'r' : 'f', st);
    }
    mspack_destroy_oab_decompressor(d);
  }
  else return 2;
  return 0;
}
