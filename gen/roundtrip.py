#!/usr/bin/env python3
"""Round-trip validation of the vgen archive builders against the real libmspack.

For N seeds per format and size class: build a random case, write its files to
a scratch directory, run driver/extract-all (compiled here from /repo sources
with ASan+UBSan, default stdio mspack_system), and compare the listing and
every extracted byte with the plan - members are extracted in listing order
and again in reverse order.  Known defects of the pinned library that a case is
predicted to trigger (meta['quirks'], see vgen/cab.py) are counted separately
and do not fail the run; anything else does.  Exit status 0 only if all matched.

  roundtrip.py [-n SEEDS] [--seed BASE] [--formats cab,chm,...] [--sizes small,medium,large] [--keep] [-v]
"""
import argparse, collections, os, random, shutil, subprocess, sys, tempfile, time
sys.path.insert(0, os.path.dirname(os.path.abspath(__file__)))
from vgen import cab, chm, kwaj, oab, szdd

MODS = {'cab': cab, 'chm': chm, 'szdd': szdd, 'kwaj': kwaj, 'oab': oab}
SRC = 'system cabd chmd kwajd szddd oabd lzxd qtmd mszipd lzssd crc32'.split()
REPO = os.environ.get('MSPACK_SRC', '/repo/libmspack/mspack')


def build_driver(scratch):
    exe = os.path.join(scratch, 'extract-all')
    here = os.path.dirname(os.path.abspath(__file__))
    cmd = [os.environ.get('CC', 'clang'), '-O1', '-g', '-fsanitize=address,undefined', '-fno-sanitize-recover=undefined',
           '-DSIZEOF_OFF_T=8', '-DHAVE_INTTYPES_H=1', '-DHAVE_LIMITS_H=1', '-DHAVE_TOWLOWER=1', '-DHAVE_FSEEKO=1',
           '-I' + REPO, os.path.join(here, 'driver', 'extract-all.c')] + [os.path.join(REPO, s + '.c') for s in SRC] + ['-o', exe]
    subprocess.run(cmd, check=True)
    return exe


def parse(out):
    """driver output -> list of (word, [positional], {key: value})"""
    recs = []
    for line in out.splitlines():
        w = line.split(' ')
        recs.append((w[0], [x for x in w[1:] if '=' not in x], dict(x.split('=', 1) for x in w[1:] if '=' in x)))
    return recs


def unhex(s):
    return None if s == '~' else b'' if s == '-' else bytes.fromhex(s)


class Check:
    def __init__(self): self.errors = []; self.quirks = []
    def eq(self, what, got, want):
        if got != want: self.errors.append('%s: got %r want %r' % (what, got, want))


def check_extracts(ck, recs, outdir, members, quirk_for=lambda i: None):
    st = {r[1][0]: int(r[2]['st']) for r in recs if r[0] == 'extract'}
    for i, m in enumerate(members):
        for t in 'fr':
            key = '%s%d' % (t, i); s = st.get(key)
            try: got = open(os.path.join(outdir, key), 'rb').read()
            except OSError: got = None
            if s == 0 and got == m['data']: continue
            q = quirk_for(i)
            if q and s not in (0, None): ck.quirks.append('%s %s st=%s' % (q, key, s)); continue
            ck.errors.append('member %s %r: st=%s, %s bytes, want %d' % (key, m['name'][:40], s, None if got is None else len(got), len(m['data'])))


def check_cab(ck, case, recs, outdir):
    meta = case['meta']; members = case['members']
    subs = meta['sub'] if meta['open'] == 'search' else [meta]
    hidden = set(meta.get('hidden_by_find_defect', []))
    if sum(1 for r in recs if r[0] == 'cab') == len(subs): hidden = set()      # library has the cabd_find fix
    for k in hidden: ck.quirks.append('cabd_find misses cabinet %d (preceded by M/MS/MSC)' % k)
    members = [m for m in members if m.get('cab') not in hidden]
    for r in recs:
        if r[0] in ('open', 'append', 'search'): ck.eq(r[0] + ' status', r[2]['st'], '0')
    want_cabs = [c for k, s in enumerate(subs) if k not in hidden for c in s['expect']['cabs']]
    got_cabs = [r[2] for r in recs if r[0] == 'cab']
    ck.eq('number of cabinets', len(got_cabs), len(want_cabs))
    for g, w in zip(got_cabs, want_cabs):
        for f in ('set', 'idx', 'hres', 'flags'): ck.eq('cab ' + f, int(g[f]), w[f])
        for f in ('prev', 'previnfo', 'next', 'nextinfo'): ck.eq('cab ' + f, unhex(g[f]), w[f])
    want_fold = [f for k, s in enumerate(subs) if k not in hidden for f in s['expect']['folders']]
    got_fold = [(int(r[2]['comp'], 16), int(r[2]['nblocks'])) for r in recs if r[0] == 'folder']
    ck.eq('folders', got_fold, want_fold)
    got_files = [r for r in recs if r[0] == 'file']
    ck.eq('number of files', len(got_files), len(members))
    for r, m in zip(got_files, members):
        g = r[2]
        ck.eq('file name', unhex(g['name']), m['name'])
        ck.eq('file fields %r' % m['name'][:30], (int(g['len']), int(g['off']), int(g['attr'], 16), g['date'], g['time'], int(g['folder'])),
              (len(m['data']), m['offset'], m['attribs'], '%d/%d/%d' % m['date'], '%d:%d:%d' % m['time'], m['folder']))
    quirky = {(k, int(q.rsplit('folder', 1)[1])): q for k, s in enumerate(subs) for q in s.get('quirks', [])}
    check_extracts(ck, recs, outdir, members, lambda i: quirky.get((members[i].get('cab', 0), members[i]['folder'])))


def check_chm(ck, case, recs, outdir):
    members = case['members']; e = case['meta']['expect']
    head = [r[2] for r in recs if r[0] == 'chm']
    ck.eq('open', [r[2]['st'] for r in recs if r[0] == 'open'], ['0'])
    if not head: return
    for f, v in e['header'].items(): ck.eq('chm ' + f, int(head[0][f]), v)
    got = [(unhex(r[2]['name']), int(r[2]['sec']), int(r[2]['off']), int(r[2]['len'])) for r in recs if r[0] == 'file']
    want = [(m['name'], m['section'], m['offset'], len(m['data'])) for m in members]
    ck.eq('file list', got, want)
    ck.eq('system files', sorted(unhex(r[2]['name']) for r in recs if r[0] == 'sysfile'), sorted(e['sysfiles']))
    finds = [(int(r[2]['st']), int(r[2]['sec']), int(r[2]['off']), int(r[2]['len'])) for r in recs if r[0] == 'find']
    ck.eq('fast_find', finds, [(0, m['section'], m['offset'], len(m['data'])) for m in members])
    ck.eq('fast_find of a missing name', [(r[2]['st'], r[2]['sec']) for r in recs if r[0] == 'findmissing'], [('0', '-1')])
    check_extracts(ck, recs, outdir, members)


def check_single(ck, case, recs, outdir):
    kind = case['kind']; e = case['meta'].get('expect', {})
    if kind != 'oab': ck.eq('open', [r[2]['st'] for r in recs if r[0] == 'open'], ['0'])
    head = [r[2] for r in recs if r[0] == kind]
    if kind == 'szdd' and head:
        ck.eq('szdd header', (int(head[0]['fmt']), int(head[0]['len']), int(head[0]['missing'], 16)), (e['fmt'], e['length'], e['missing']))
    if kind == 'kwaj' and head:
        h = head[0]
        ck.eq('kwaj header', (int(h['comp']), int(h['dataoff']), int(h['flags'], 16), int(h['len']), unhex(h['name']), unhex(h['extra'])),
              (e['comp'], e['dataoff'], e['flags'], e['length'], e['name'], e['extra']))
    check_extracts(ck, recs, outdir, case['members'])


def run_case(exe, case, scratch, verbose=False):
    d = tempfile.mkdtemp(dir=scratch); out = os.path.join(d, 'out'); os.mkdir(out)
    for name, data in case['files'].items():
        with open(os.path.join(d, name), 'wb') as f: f.write(data)
    meta = case['meta']; kind = case['kind']
    mode = {'search': 'cabsearch', 'oabinc': 'oabinc'}.get(meta.get('open'), kind)
    cmd = [exe, mode, out] + [os.path.join(d, n) for n in meta['order']]
    p = subprocess.run(cmd, capture_output=True)
    ck = Check()
    stdout = p.stdout.decode('latin-1'); stderr = p.stderr.decode('latin-1')
    if p.returncode: ck.errors.append('driver exit %d: %s' % (p.returncode, stderr[-1500:]))
    recs = parse(stdout)
    try:
        {'cab': check_cab, 'chm': check_chm}.get(kind, check_single)(ck, case, recs, out)
    except Exception as ex:                      # malformed driver output
        ck.errors.append('checker: %r' % ex)
    if ck.errors and verbose: print(stdout[-4000:], stderr[-2000:])
    if not ck.errors: shutil.rmtree(d)
    return ck, d


def fixture_check():
    """rebuild the makecab-produced split set shipped with cabextract from its own
    parts: parse -> join_set -> build_set must give the same five files"""
    d = os.path.join(os.path.dirname(REPO.rstrip('/')), '..', 'cabextract', 'test', 'cabs')
    try: orig = [open(os.path.join(d, 'split-%d.cab' % i), 'rb').read() for i in range(1, 6)]
    except OSError: return None
    p = [cab.parse(x) for x in orig]; lf, files, cuts = cab.join_set(p)
    names = [p[1]['prev']] + [x['next'] for x in p[:-1]]
    out = cab.build_set(lf, files, cuts, names, set_id=p[0]['set_id'], reserve=p[0]['reserve'], version=p[0]['version'])
    return out == orig


def flatten(meta, prefix=''):
    """meta -> [(key, value-as-text)] for the feature histogram"""
    for k, v in meta.items():
        if k in ('expect', 'order', 'sub'):
            if k == 'sub':
                for s in v: yield from flatten(s, prefix)
            continue
        if isinstance(v, dict): yield from flatten(v, prefix + k + '.')
        elif isinstance(v, (list, tuple, set)):
            if not v: yield prefix + k, '[]'
            for x in v:
                if isinstance(x, dict): yield from flatten(x, prefix + k + '.')
                else: yield prefix + k, str(x)
        else: yield prefix + k, str(v)


def bucket(key, val):
    if val.lstrip('-').isdigit() and int(val) > 24:
        n = int(val)
        for lim in (100, 1000, 10000, 100000, 1000000):
            if n <= lim: return '<=%d' % lim
        return '>1e6'
    return val


def main():
    ap = argparse.ArgumentParser()
    ap.add_argument('-n', type=int, default=20, help='seeds per format and size class')
    ap.add_argument('--seed', type=int, default=1)
    ap.add_argument('--formats', default='cab,chm,szdd,kwaj,oab')
    ap.add_argument('--sizes', default='small,medium,large')
    ap.add_argument('--keep', action='store_true', help='keep the scratch directory')
    ap.add_argument('-v', action='store_true')
    a = ap.parse_args()
    scratch = tempfile.mkdtemp(prefix='vgen-rt-')
    bad = 0
    try:
        exe = build_driver(scratch)
        fx = fixture_check()
        print('fixture: split-[1-5].cab rebuilt by cab.build_set: %s' % {None: 'not found', True: 'byte-identical', False: 'DIFFERENT'}[fx])
        bad += fx is False
        for fmt in a.formats.split(','):
            t0 = time.time(); ncase = nmem = nbytes = nin = 0; hist = collections.Counter(); quirks = collections.Counter(); fails = []
            for size in a.sizes.split(','):
                for s in range(a.n):
                    seed = '%s/%s/%d' % (fmt, size, a.seed + s)
                    case = MODS[fmt].random_case(random.Random(seed), size)
                    ck, d = run_case(exe, case, scratch, a.v)
                    ncase += 1; nmem += len(case['members']); nbytes += sum(len(m['data']) for m in case['members'])
                    nin += sum(map(len, case['files'].values()))
                    for k, v in set(flatten(case['meta'])): hist[(k, bucket(k, v))] += 1
                    for q in ck.quirks: quirks[q.split(' ')[0].split(':')[0]] += 1
                    if ck.errors: fails.append((seed, d, ck.errors))
            print('== %s: %d cases, %d members, %d plaintext bytes, %d archive bytes, %d failed, %.0fs'
                  % (fmt, ncase, nmem, nbytes, nin, len(fails), time.time() - t0))
            if quirks: print('   known-defect triggers tolerated: ' + ', '.join('%s x%d' % kv for kv in sorted(quirks.items())))
            keys = collections.OrderedDict()
            for (k, v), c in sorted(hist.items()): keys.setdefault(k, []).append((v, c))
            for k, vs in keys.items():
                vs.sort(key=lambda x: -x[1])
                print('   %-28s %s%s' % (k, ' '.join('%s:%d' % x for x in vs[:14]), ' ...(+%d)' % (len(vs) - 14) if len(vs) > 14 else ''))
            for seed, d, errs in fails[:10]:
                print('   FAIL %s (kept in %s)' % (seed, d))
                for e in errs[:6]: print('      ' + e[:600])
            bad += len(fails)
    finally:
        if a.keep or bad: print('scratch kept: ' + scratch)
        else: shutil.rmtree(scratch, ignore_errors=True)
    print('RESULT: ' + ('all round trips matched' if not bad else '%d case(s) failed' % bad))
    return 1 if bad else 0


if __name__ == '__main__':
    sys.exit(main())
