"""vgen - builders of well-formed archives for every format libmspack reads.

Each format module (cab, chm, szdd, kwaj, oab) turns an explicit plan into file
bytes and offers random_case(rng, size, **features) returning
{'files', 'kind', 'members', 'meta'}.  The codec modules (deflate, lzx, qtm) and
helpers (bits, huff, lz) expose every coding choice as a parameter, so the same
code serves as a statement of "every legal coding".  All randomness comes from
the random.Random passed in.  Validated by /verif/gen/roundtrip.py against the
real decoders in /repo.
"""
SIZES = {'small': (0, 3000), 'medium': (3000, 120000), 'large': (120000, 400000)}


def pick_size(rng, size):
    lo, hi = SIZES[size]
    return rng.randint(lo, hi)


def hist_add(meta, key, val):
    meta.setdefault(key, []).append(val)
