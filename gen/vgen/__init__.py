"""vgen - builders of well-formed archives for every format libmspack reads.

Each format module (cab, chm, szdd, kwaj, oab) turns an explicit plan into file
bytes and offers random_case(rng, size, **features) returning
{'files', 'kind', 'members', 'meta'}.  The codec modules (deflate, lzx, qtm) and
helpers (bits, huff, lz) expose every coding choice as a parameter, so the same
code serves as a statement of "every legal coding".  All randomness comes from
the random.Random passed in.  Validated by /verif/gen/roundtrip.py against the
real decoders in /repo.
"""
SIZES = {'small': (0, 3000), 'medium': (3000, 120000), 'large': (120000, 400000)}


def pick_size(rng, size):
    """total plaintext bytes of a case; 'small' is biased towards tiny and empty,
    the others towards exact multiples of 32768 now and then"""
    lo, hi = SIZES[size]; n = rng.randint(lo, hi)
    if size == 'small' and rng.random() < 0.25: return rng.randint(0, 20)
    if size != 'small' and rng.random() < 0.15: return max(32768, n // 32768 * 32768)
    return n
