"""SZDD (COMPRESS.EXE) files, normal and QBasic variants, and the LZSS coder
shared with KWAJ method 2.

LZSS (lzssd.c): control byte, LSB first, 1 = literal byte, 0 = match of two
bytes: ring position low 8 bits, then (high 4 bits << 4 | length-3).  The ring
is 4096 bytes pre-filled with 0x20; writing starts at 4096-16 (SZDD) or 4096-18
(QBasic SZDD and KWAJ).  The stream simply ends; unused bits of the last
control byte are free.  In token terms: offsets 1..4096 (4096 = the byte about
to be overwritten), lengths 3..18, and offsets reaching before the start of the
output read spaces: expand(tokens, ref=b' ' * 4096).

Headers: 'SZDD' 88 F0 27 33, 'A', missing-char, u32 length   (data at 14)
         'SZ ' 88 F0 27 33 D1, u32 length                     (data at 12)
The length field is only reported, never used to stop decoding.
"""
import struct
from . import lz, pick_size

RING = b' ' * 4096
SIG_NORMAL = b'SZDD\x88\xf0\x27\x33'
SIG_QBASIC = b'SZ \x88\xf0\x27\x33\xd1'


def lzss_encode(tokens, start, last_ctrl_fill=0):
    out = bytearray(); pos = start; group = bytearray(); ctrl = 0; k = 0
    for t in tokens:
        if t[0] == 'L':
            ctrl |= 1 << k; group.append(t[1]); pos += 1
        else:
            off, ln = t[1], t[2]; assert 1 <= off <= 4096 and 3 <= ln <= 18, t
            m = (pos - off) & 4095; group += bytes((m & 255, (m >> 4 & 0xF0) | (ln - 3))); pos += ln
        k += 1
        if k == 8: out.append(ctrl); out += group; group = bytearray(); ctrl = 0; k = 0
    if k:
        if last_ctrl_fill: ctrl |= (0xFF << k) & 0xFF
        out.append(ctrl); out += group
    return bytes(out)


def tokens_for(rng, n=None, data=None):
    """token plan + plaintext: random plan (matches into the pre-filled ring,
    at distance 4096, across the ring wrap) or greedy parse of data"""
    if data is None and rng.random() < 0.5:
        toks = lz.random_tokens(rng, n, 4096, 3, 18, frame=None, ref_len=4096, lit=b'ab \n\xe8')
        return toks, lz.expand(toks, RING), 'tokens'
    if data is None: data = lz.random_data(rng, n)
    return lz.greedy_tokens(data, 4096, 3, 18, ref=RING, lazy_skip=rng.choice([0, 0.3]), rng=rng), data, 'data'


def build(tokens, qbasic=False, missing=b'_', length=None, last_ctrl_fill=0):
    n = lz.length(tokens) if length is None else length
    body = lzss_encode(tokens, 4096 - (18 if qbasic else 16), last_ctrl_fill)
    if qbasic: return SIG_QBASIC + struct.pack('<I', n) + body
    return SIG_NORMAL + b'A' + missing + struct.pack('<I', n) + body


def random_case(rng, size='small', qbasic=None, **_):
    n = pick_size(rng, size)
    if qbasic is None: qbasic = rng.random() < 0.4
    toks, plain, src = tokens_for(rng, n)
    missing = bytes([rng.choice(b'_$exl\0\xff')]); fill = rng.getrandbits(1)
    wrong_len = rng.random() < 0.15
    length = rng.choice([0, n + 1, 0xFFFFFFFF]) if wrong_len else n
    f = build(toks, qbasic, missing, length, fill)
    nm = sum(1 for t in toks if t[0] == 'M')
    meta = {'order': ['f.sz_'], 'variant': 'qbasic' if qbasic else 'normal', 'source': src, 'plain_bytes': n,
            'matches': nm, 'matches_into_prefill': _prefill(toks), 'ring_wraps': n // 4096, 'offset_4096': sum(1 for t in toks if t[0] == 'M' and t[1] == 4096),
            'last_ctrl_fill': fill, 'header_length_wrong': wrong_len,
            'expect': {'fmt': 1 if qbasic else 0, 'length': length, 'missing': 0 if qbasic else missing[0]}}
    return {'kind': 'szdd', 'files': {'f.sz_': f}, 'members': [{'name': b'f.sz_', 'data': plain}], 'meta': meta}


def _prefill(toks):
    pos = 0; c = 0
    for t in toks:
        if t[0] == 'M':
            c += t[1] > pos; pos += t[2]
        else: pos += 1
    return c
