"""LZX and LZX DELTA encoder (inverse of lzxd.c).

Bit stream: MSB-first in 16-bit little-endian words.  Per stream (and again at
every CHM reset): 1 bit E8 flag (+ 2x16 bits file size).  Blocks: 3-bit type, 24-bit
size; 1 verbatim, 2 aligned-offset (8 x 3-bit aligned lengths first), 3
uncompressed (pad 1..16 bits to a word - a whole extra word if already aligned -
then R0,R1,R2 as 3 x u32 LE and raw bytes; an odd-sized block is followed by one
pad byte *iff* another block follows before the next reset).  Tree lengths are
coded as (prev - new) mod 17 against the previous block's lengths through a
20-symbol pretree: 17 = 4..19 zeros, 18 = 20..51 zeros, 19 = 4..5 copies of one
new length.  Every tree must be complete; only the length tree may be all-zero.
Output is cut in 32768-byte frames; at each frame end the stream is padded to a
word; no match crosses a frame; blocks may (verbatim/aligned ones too).
LZX DELTA (OAB): every frame starts with a 16-bit chunk size the decoder skips;
length 257 is followed by an extension (0+8, 10+10, 110+12, 111+15 bits); matches
may reach into reference data placed before the output.
CHM: every `reset_interval` frames lengths are zeroed, R0..R2 = 1, the E8 header
is sent again and a new block must start; matches must not reach before the reset.

lzx_frames(tokens, window_bits, ...) -> (frames, total, info).
E8: the decoder rewrites CALL targets on output (frames < 32768, > 10 bytes,
once a block was uncompressed or had a main-tree code for 0xE8); e8_encode is
the exact inverse, applied to the data before tokenising.
"""
import struct
from . import huff, lz
from .bits import MSB16LE

FRAME = 32768
SLOTS = [30, 32, 34, 36, 38, 42, 50, 66, 98, 162, 290]
XBITS = [0, 0, 0, 0] + [i // 2 - 1 for i in range(4, 36)] + [17] * 254
PBASE = [0]
for _e in XBITS[:-1]: PBASE.append(PBASE[-1] + (1 << _e))
KINDS = {'verbatim': 1, 'aligned': 2, 'uncompressed': 3}


def max_offset(window_bits): return (1 << window_bits) - 3
def slot_of(offset):
    fo = offset + 2; lo, hi = 0, len(PBASE) - 1
    while lo < hi:
        mid = (lo + hi + 1) // 2
        if PBASE[mid] <= fo: lo = mid
        else: hi = mid - 1
    return lo


def _e8(buf, filesize, started, encode):
    out = bytearray(buf)
    for f in range(0, (len(buf) + FRAME - 1) // FRAME):
        a = f * FRAME; size = min(FRAME, len(buf) - a)
        if not filesize or f >= 32768 or size <= 10 or (started is not None and not started[f]): continue
        i = 0; curpos = a
        while i < size - 10:
            if out[a + i] != 0xE8: i += 1; curpos += 1; continue
            (v,) = struct.unpack_from('<i', out, a + i + 1)
            if encode:
                if -curpos <= v < filesize - curpos: v += curpos
                elif filesize - curpos <= v < filesize: v -= filesize
            elif -curpos <= v < filesize:
                v = v - curpos if v >= 0 else v + filesize
            struct.pack_into('<i', out, a + i + 1, v); i += 5; curpos += 5
    return bytes(out)


def e8_decode(window_bytes, filesize, started=None):
    """what the decoder writes for these decoded bytes (started[f]: translation
    active in frame f; None = every frame)"""
    return _e8(window_bytes, filesize, started, False)


def e8_encode(data, filesize, started=None):
    """bytes to compress so that the decoder's translation restores `data`"""
    return _e8(data, filesize, started, True)


def _write_lens(bw, prev, new, first, last, runs, style, rng):
    syms = []; x = first
    while x < last:
        want = runs is True or (runs == 'random' and rng.random() < 0.6)
        r = 1
        while x + r < last and new[x + r] == new[x]: r += 1
        if want and new[x] == 0 and r >= 4:
            r = min(r, 51)
            if runs == 'random': r = rng.randint(4, r)
            syms.append((17, r - 4, 4, None) if r < 20 else (18, r - 20, 5, None)); x += r; continue
        if want and r >= 4:
            r = min(r, 5)
            if runs == 'random': r = rng.randint(4, r)
            syms.append((19, r - 4, 1, (prev[x] - new[x]) % 17)); x += r; continue
        syms.append(((prev[x] - new[x]) % 17, 0, 0, None)); x += 1
    freq = {}
    for s, _, _, z in syms:
        freq[s] = freq.get(s, 0) + 1
        if z is not None: freq[z] = freq.get(z, 0) + 1
    pl = huff.lengths(freq, 20, 15, style, rng); pc = huff.canonical(pl)
    for i in range(20): bw.put(pl[i], 4)
    for s, ex, n, z in syms:
        bw.put(*pc[s]); bw.put(ex, n)
        if z is not None: bw.put(*pc[z])


def lzx_frames(tokens, window_bits, delta=False, ref=b'', blocks=None, intel_filesize=0, reset_interval=0,
               rng=None, huffman='optimal', runs=True, explicit_repeat=0.0, chunk=None, random_r=False):
    """tokens -> (frames [bytes per 32768 output bytes], total, info)
    blocks: [(kind, nbytes)] covering the output, kind in KINDS; default one
    verbatim block per reset interval.  huffman: 'optimal' | 'random'; runs:
    True | False | 'random' (pretree run symbols); explicit_repeat: probability of
    coding an offset equal to R0..R2 as a plain offset; chunk: callable(frame,
    nbytes) -> 16-bit DELTA chunk field (default: frame's compressed size);
    random_r: uncompressed blocks store random R0..R2 instead of the current ones.
    info: {'intel_started': [per frame], 'slots', 'block_kinds', ...}"""
    assert (17 <= window_bits <= 25) if delta else (15 <= window_bits <= 21)
    nslots = SLOTS[window_bits - 15]; nmain = 256 + 8 * nslots
    total = lz.length(tokens); data = lz.expand(tokens, ref)
    rbytes = reset_interval * FRAME
    if blocks is None:
        step = rbytes or total or 1
        blocks = [('verbatim', min(step, total - p)) for p in range(0, total, step)]
    assert sum(n for _, n in blocks) == total
    bounds = [0]
    for _, n in blocks: bounds.append(bounds[-1] + n)
    tokens = lz.split_at(tokens, bounds + list(range(FRAME, total, FRAME)), 2, data)
    groups = lz.partition(tokens, [n for _, n in blocks])
    bw = MSB16LE(); ends = []; chunk_at = []
    st = dict(R=[1, 1, 1], pm=[0] * nmain, pl=[0] * 249, hdr=True, inframe=False, fout=0, started=False, oddpad=False)
    info = {'intel_started': [], 'block_kinds': [k for k, _ in blocks], 'slots': set(), 'repeat': [0, 0, 0],
            'ext_len': [0, 0, 0, 0], 'len_tree_empty': 0}

    def begin_frame():
        if st['inframe']: return
        if delta: chunk_at.append(len(bw.out)); bw.put(0, 16)
        if st['hdr']:
            if intel_filesize: bw.put(1, 1); bw.put(intel_filesize >> 16, 16); bw.put(intel_filesize & 0xFFFF, 16)
            else: bw.put(0, 1)
            st['hdr'] = False
        st['inframe'] = True

    def advance(n):
        st['fout'] += n; assert st['fout'] <= FRAME, "token crosses a frame"
        if st['fout'] == FRAME: end_frame()

    def end_frame():
        bw.align(); ends.append(len(bw.out)); info['intel_started'].append(st['started'])
        st['fout'] = 0; st['inframe'] = False

    pos = 0
    for (kind, blen), toks in zip(blocks, groups):
        if rbytes and pos % rbytes == 0:
            st.update(R=[1, 1, 1], pm=[0] * nmain, pl=[0] * 249, hdr=True, oddpad=False)
        else: assert not rbytes or pos // rbytes == (pos + blen - 1) // rbytes, "block crosses a reset"
        if blen == 0: continue
        begin_frame()
        if st['oddpad']: bw.raw(b'\0'); st['oddpad'] = False
        bw.put(KINDS[kind], 3); bw.put(blen >> 8, 16); bw.put(blen & 255, 8)
        if kind == 'uncompressed':
            st['started'] = True
            if bw.n == 0: bw.put(0, 16)
            else: bw.align()
            if random_r and rng: st['R'] = [rng.randint(1, max_offset(window_bits)) for _ in range(3)]
            bw.raw(struct.pack('<III', *st['R'])); p = pos
            while p < pos + blen:
                begin_frame(); n = min(pos + blen - p, FRAME - st['fout'])
                bw.raw(data[p:p + n]); p += n; advance(n)
            st['oddpad'] = bool(blen & 1); pos += blen
            continue
        aligned = kind == 'aligned'
        R = list(st['R']); items = []; fm = {}; fl = {}; fa = {}
        p = pos
        for t in toks:
            if t[0] == 'L':
                items.append(t); fm[t[1]] = fm.get(t[1], 0) + 1; p += 1; continue
            off, ln = t[1], t[2]
            assert 2 <= ln <= (33024 if delta else 257) and 1 <= off <= max_offset(window_bits) and off <= p + len(ref), t
            rep = R.index(off) if off in R and not (rng and rng.random() < explicit_repeat) else None
            if rep is not None:
                slot = rep; R[0], R[rep] = R[rep], R[0]; info['repeat'][rep] += 1
            else:
                slot = slot_of(off); assert 3 <= slot < nslots, (slot, off); R = [off, R[0], R[1]]
            info['slots'].add(slot)
            ext = None; l = ln
            if delta and ln >= 257: ext = ln - 257; l = 257
            lh = min(l - 2, 7); foot = l - 9 if lh == 7 else None
            s = 256 + (slot << 3) + lh; fm[s] = fm.get(s, 0) + 1
            if foot is not None: fl[foot] = fl.get(foot, 0) + 1
            extra = off + 2 - PBASE[slot] if slot >= 3 else 0
            if aligned and slot >= 3 and XBITS[slot] >= 3: fa[extra & 7] = fa.get(extra & 7, 0) + 1
            items.append(('M', s, foot, slot, extra, ext, ln)); p += ln
        ml = huff.lengths(fm, nmain, 16, huffman, rng)
        if fl or (huffman == 'random' and rng and rng.random() < 0.3): ll = huff.lengths(fl, 249, 16, huffman, rng)
        else: ll = [0] * 249; info['len_tree_empty'] += 1
        mc = huff.canonical(ml); lc = huff.canonical(ll)
        if aligned:
            al = huff.lengths(fa, 8, 7, huffman, rng); ac = huff.canonical(al)
            for i in range(8): bw.put(al[i], 3)
        _write_lens(bw, st['pm'], ml, 0, 256, runs, huffman, rng)
        _write_lens(bw, st['pm'], ml, 256, nmain, runs, huffman, rng)
        _write_lens(bw, st['pl'], ll, 0, 249, runs, huffman, rng)
        st['pm'] = ml; st['pl'] = ll
        if ml[0xE8]: st['started'] = True
        for it in items:
            begin_frame()
            if it[0] == 'L': bw.put(*mc[it[1]]); advance(1); continue
            _, s, foot, slot, extra, ext, ln = it
            bw.put(*mc[s])
            if foot is not None: bw.put(*lc[foot])
            if slot >= 3:
                e = XBITS[slot]
                if aligned and e >= 3:
                    bw.put(extra >> 3, e - 3); bw.put(*ac[extra & 7])
                else: bw.put(extra, e)
            if ext is not None:
                if ext < 0x100: bw.put(0, 1); bw.put(ext, 8); info['ext_len'][0] += 1
                elif ext < 0x500: bw.put(2, 2); bw.put(ext - 0x100, 10); info['ext_len'][1] += 1
                elif ext < 0x1500: bw.put(6, 3); bw.put(ext - 0x500, 12); info['ext_len'][2] += 1
                else: bw.put(7, 3); bw.put(ext, 15); info['ext_len'][3] += 1
            advance(ln)
        st['R'] = R; pos += blen
    if st['inframe']: end_frame()
    out = bw.out; frames = []; a = 0
    for i, e in enumerate(ends):
        if delta:
            v = chunk(i, e - a) if chunk else (e - a - 2) & 0xFFFF
            out[chunk_at[i]:chunk_at[i] + 2] = struct.pack('<H', v)
        frames.append(bytes(out[a:e])); a = e
    info['slots'] = sorted(info['slots'])
    return frames, total, info


def random_blocks(rng, total, reset_bytes=0, kinds=('verbatim', 'verbatim', 'aligned', 'uncompressed'), maxblocks=4):
    """random block plan: cut points anywhere (also inside frames), aligned to resets"""
    spans = [(p, min(total, p + reset_bytes)) for p in range(0, total, reset_bytes)] if reset_bytes else [(0, total)]
    plan = []
    for a, b in spans:
        k = rng.randint(1, maxblocks); n = b - a
        cuts = sorted(set(rng.choice([rng.randint(1, n), (rng.randint(0, n) // FRAME) * FRAME or 1]) for _ in range(k - 1))) if n > 1 else []
        pts = [0] + [c for c in cuts if 0 < c < n] + [n]
        plan += [(rng.choice(kinds), y - x) for x, y in zip(pts, pts[1:])]
    return plan


def compress(data, window_bits, rng, tokens=None, delta=False, ref=b'', reset_interval=0, e8=None,
             max_frame=None, cuts=(), **_):
    """random coding choices.  Either `data` (E8-pre-translated when the E8 header
    is on, then tokenised) or an explicit token plan (then the plaintext is what
    the decoder's E8 pass makes of it).  max_frame: limit on a frame's compressed
    size (cabd allows 32768+6144); random Huffman codes that exceed it are
    replaced by optimal ones.  cuts: output positions no token may cross (CHM:
    end of the real data before the padding).  Returns (frames, total, meta);
    the plaintext is meta['plain']."""
    given = tokens is not None
    n = len(data) if tokens is None else lz.length(tokens)
    if e8 is None: e8 = rng.random() < 0.35
    filesize = rng.choice([n or 1, 1, 12, 40000, 0x7FFFFFFF, rng.randint(1, 1 << 24)]) if e8 else 0
    if tokens is None:
        raw = e8_encode(data, filesize)
        tokens = lz.greedy_tokens(raw, max_offset(window_bits), 2, 32768 if delta else 257, frame=FRAME, ref=ref,
                                  reset=reset_interval * FRAME or None, lazy_skip=rng.choice([0, 0.3]), rng=rng)
    if cuts: tokens = lz.split_at(tokens, cuts, 2, lz.expand(tokens, ref))
    o = dict(huffman=rng.choice(['optimal', 'optimal', 'random']), runs=rng.choice([True, True, False, 'random']),
             explicit_repeat=rng.choice([0, 0, 0.3, 1]), random_r=rng.random() < 0.3)
    blocks = random_blocks(rng, n, reset_interval * FRAME)
    frames, total, info = lzx_frames(tokens, window_bits, delta, ref, blocks, filesize, reset_interval, rng, **o)
    if max_frame and max(map(len, frames), default=0) > max_frame:
        o['huffman'] = 'optimal'
        frames, total, info = lzx_frames(tokens, window_bits, delta, ref, blocks, filesize, reset_interval, rng, **o)
        assert max(map(len, frames)) <= max_frame
    plain = e8_decode(lz.expand(tokens, ref), filesize, info['intel_started'])
    if not given and plain != data:      # E8 bytes copied from reference data before translation began
        return compress(data, window_bits, rng, None, delta, ref, reset_interval, False, max_frame, cuts)
    meta = dict(o, lzx_window=window_bits, intel_filesize=filesize, e8_frames=sum(info['intel_started']) if filesize else 0,
                e8_changed_bytes=bool(filesize) and plain != lz.expand(tokens, ref),
                lzx_blocks=info['block_kinds'], frames=len(frames), max_slot=max(info['slots'], default=-1),
                slots17=sum(1 for x in info['slots'] if x >= 36), repeat_hits=['R%d' % i for i in range(3) if info['repeat'][i]],
                ext_len_classes=[i for i in range(4) if info['ext_len'][i]], len_tree_empty=info['len_tree_empty'], plain=plain)
    return frames, total, meta
