"""LZ77 token streams shared by all codecs.

A token is ('L', byte) or ('M', offset, length).  `expand` is the reference
semantics: a match copies `length` bytes from `offset` back, byte by byte (so
overlapping copies repeat), reading `ref` (LZX DELTA reference data, the
0x20-filled LZSS ring, the previous MSZIP window) when it reaches before the
start of the output.

Constraints are passed explicitly because they differ per codec:
  max_offset        farthest distance (int, or callable(length) -> int)
  min_len, max_len  match lengths
  frame             matches never cross a multiple of `frame` (32768 for the
                    CAB codecs; None for LZSS/LZH)
  reset             matches never reach back before the last multiple of
                    `reset` output bytes (CHM reset intervals); ref is ignored
"""


def expand(tokens, ref=b''):
    out = bytearray(); nref = len(ref)
    for t in tokens:
        if t[0] == 'L':
            out.append(t[1]); continue
        off, ln = t[1], t[2]; i = len(out) - off
        if i >= 0 and off >= ln:
            out += out[i:i + ln]
        else:
            for _ in range(ln):
                out.append(out[i] if i >= 0 else ref[nref + i]); i += 1
    return bytes(out)


def length(tokens):
    return sum(1 if t[0] == 'L' else t[2] for t in tokens)


def _limit(max_offset, ln):
    return max_offset(ln) if callable(max_offset) else max_offset


def greedy_tokens(data, max_offset, min_len, max_len, frame=None, ref=b'', reset=None,
                  max_chain=16, lazy_skip=0, rng=None):
    """simple hash-chain matcher over ref+data; `lazy_skip` (0..1, with rng)
    makes it skip that fraction of the matches it finds, for variety"""
    buf = bytes(ref) + bytes(data); base = len(ref); n = len(buf)
    k = max(2, min(min_len, 3)); head = {}; prev = {}; toks = []; p = base

    def insert(i):
        if i + k <= n:
            key = buf[i:i + k]; prev[i] = head.get(key); head[key] = i
    for i in range(max(0, base - _limit(max_offset, max_len)), base): insert(i)
    while p < n:
        room = n - p
        if frame: room = min(room, frame - ((p - base) % frame))
        cap = min(max_len, room); best = 0; boff = 0
        lo = base + ((p - base) // reset) * reset if reset else 0
        if cap >= min_len and not (rng and rng.random() < lazy_skip):
            c = head.get(buf[p:p + k]); chain = max_chain
            while c is not None and chain and c >= lo:
                off = p - c; chain -= 1
                if off > _limit(max_offset, max_len): break
                l = 0
                while l < cap and buf[c + l] == buf[p + l]: l += 1
                if l > best and l >= min_len and off <= _limit(max_offset, l): best, boff = l, off
                if best == cap: break
                c = prev.get(c)
        if best:
            toks.append(('M', boff, best))
            for i in range(p, p + best): insert(i)
            p += best
        else:
            toks.append(('L', buf[p])); insert(p); p += 1
    return toks


def random_tokens(rng, n, max_offset, min_len=2, max_len=257, frame=32768, ref_len=0,
                  reset=None, lit=b'abcdefgh \n\xe8', p_match=0.35, window=None):
    """random plan of n output bytes biased towards repeated offsets, long and
    maximal matches, matches at the farthest legal distance, matches that end
    exactly on a frame end and (if `window` given) matches touching the window end"""
    toks = []; pos = 0; recent = []
    lens = [min_len, min_len + 1, min_len + 2, 8, 9, 10, 30, 100, max_len - 1, max_len]
    while pos < n:
        room = min(n - pos, frame - pos % frame if frame else n)
        start = (pos // reset) * reset if reset else -ref_len
        avail = pos - start                     # how far back a match may reach
        if avail > 0 and room >= min_len and rng.random() < p_match:
            ln = min(rng.choice(lens), room, max_len)
            if rng.random() < 0.1: ln = min(room, max_len)
            if window and rng.random() < 0.2 and 0 < window - pos % window <= min(room, max_len):
                ln = max(min_len, window - pos % window)
            far = min(avail, _limit(max_offset, ln))
            r = rng.random()
            if recent and r < 0.3: off = rng.choice(recent)
            elif r < 0.4: off = far
            elif r < 0.5: off = rng.randint(1, min(far, 8))
            else: off = rng.randint(1, far)
            if off > far: off = far
            if far >= 1 and ln >= min_len:
                toks.append(('M', off, ln)); pos += ln; recent = ([off] + recent)[:3]
                continue
        toks.append(('L', rng.choice(lit) if rng.random() < 0.8 else rng.getrandbits(8))); pos += 1
    return toks


def split_at(tokens, cuts, min_len, data):
    """split matches so that no token crosses any position in `cuts`; pieces
    shorter than min_len become literals taken from `data` (= the expansion of
    `tokens`).  Returns the new token list."""
    cuts = [c for c in sorted(set(cuts)) if c > 0]
    if not cuts: return list(tokens)
    out = []; pos = 0; ci = 0
    for t in tokens:
        ln = 1 if t[0] == 'L' else t[2]
        while ci < len(cuts) and cuts[ci] <= pos: ci += 1
        if t[0] == 'L' or ci == len(cuts) or cuts[ci] >= pos + ln:
            out.append(t); pos += ln; continue
        a = pos; end = pos + ln
        while a < end:
            while ci < len(cuts) and cuts[ci] <= a: ci += 1
            b = min(end, cuts[ci]) if ci < len(cuts) else end
            if b - a >= min_len: out.append(('M', t[1], b - a))
            else: out += [('L', x) for x in data[a:b]]
            a = b
        pos = end
    return out


def partition(tokens, sizes):
    """cut a token list into consecutive groups producing sizes[i] bytes each
    (tokens must already be aligned, see split_at)"""
    groups = []; it = iter(tokens)
    for s in sizes:
        g = []; got = 0
        while got < s:
            t = next(it); g.append(t); got += 1 if t[0] == 'L' else t[2]
        assert got == s, "token crosses a partition boundary"
        groups.append(g)
    rest = list(it); assert not rest
    return groups


def random_data(rng, n, kind=None):
    """member contents of mixed compressibility"""
    kind = kind or rng.choice(['text', 'text', 'binary', 'zeros', 'runs', 'x86', 'mixed'])
    if kind == 'zeros': return bytes([rng.choice(b'\0\0 \xff')]) * n
    if kind == 'binary': return rng.randbytes(n)
    if kind == 'runs':
        out = bytearray()
        while len(out) < n: out += bytes([rng.getrandbits(8)]) * rng.choice([1, 2, 3, 17, 300, 5000])
        return bytes(out[:n])
    if kind == 'x86':
        out = bytearray()
        while len(out) < n:
            out += rng.randbytes(rng.randint(0, 12))
            out += b'\xe8' + (rng.randint(-70000, 70000) & 0xffffffff).to_bytes(4, 'little')
        return bytes(out[:n])
    if kind == 'mixed':
        out = bytearray()
        while len(out) < n: out += random_data(rng, min(n - len(out), rng.randint(1, 9000)), rng.choice(['text', 'binary', 'runs', 'x86']))
        return bytes(out)
    words = [bytes(rng.choice(b'abcdefghijklmnopqrstuvwxyzE\xe8') for _ in range(rng.randint(1, 9))) for _ in range(40)]
    out = bytearray()
    while len(out) < n: out += rng.choice(words) + rng.choice([b' ', b' ', b'\n', b', '])
    return bytes(out[:n])
