"""Bit writers for the four bit orders libmspack's decoders read.

MSB16LE  bits MSB-first inside 16-bit little-endian words        (LZX, lzxd.c READ_BYTES)
MSB16BE  bits MSB-first inside 16-bit big-endian words           (Quantum, qtmd.c)
MSBBytes bits MSB-first inside bytes                             (KWAJ LZH, kwajd.c)
LSBBytes bits LSB-first inside bytes, Huffman codes MSB-first    (deflate / MSZIP)

Big-endian 16-bit words read MSB-first are the same stream as bytes read
MSB-first, so MSB16BE only differs from MSBBytes in its alignment unit.
All writers: put(value, nbits), nbits (bits written so far), align(),
raw(bytes) (only when no partial unit is pending) and getvalue().
"""


class _MSB:
    unit = 8

    def __init__(self):
        self.out = bytearray(); self.acc = 0; self.n = 0

    @property
    def nbits(self):
        return len(self.out) * 8 + self.n

    def put(self, v, n):
        if n <= 0: return
        assert 0 <= v < (1 << n), (v, n)
        self.acc = (self.acc << n) | v; self.n += n
        while self.n >= self.unit:
            self.n -= self.unit
            self._emit((self.acc >> self.n) & ((1 << self.unit) - 1))
        self.acc &= (1 << self.n) - 1

    def putbits(self, bits):
        for b in bits: self.put(b, 1)

    def _emit(self, w):
        self.out.append(w)

    def aligned(self):
        return self.n == 0

    def align(self, fill=0):
        """pad with `fill` bits (0 or 1) up to the next unit boundary"""
        if self.n:
            k = self.unit - self.n
            self.put(((1 << k) - 1) if fill else 0, k)

    def raw(self, data):
        assert self.n == 0, "raw bytes need an aligned stream"
        self.out += data

    def getvalue(self):
        self.align()
        return bytes(self.out)


class MSBBytes(_MSB):
    pass


class MSB16BE(_MSB):
    unit = 16

    def _emit(self, w):
        self.out += bytes((w >> 8, w & 255))


class MSB16LE(_MSB):
    unit = 16

    def _emit(self, w):
        self.out += bytes((w & 255, w >> 8))


class LSBBytes:
    def __init__(self):
        self.out = bytearray(); self.acc = 0; self.n = 0

    @property
    def nbits(self):
        return len(self.out) * 8 + self.n

    def put(self, v, n):
        if n <= 0: return
        assert 0 <= v < (1 << n), (v, n)
        self.acc |= v << self.n; self.n += n
        while self.n >= 8:
            self.out.append(self.acc & 255); self.acc >>= 8; self.n -= 8

    def huff(self, code, n):
        """Huffman codes are packed starting from their most significant bit"""
        self.put(int(format(code, '0%db' % n)[::-1], 2), n)

    def aligned(self):
        return self.n == 0

    def align(self, fill=0):
        if self.n:
            k = 8 - self.n
            self.put(((1 << k) - 1) if fill else 0, k)

    def raw(self, data):
        assert self.n == 0
        self.out += data

    def getvalue(self):
        self.align()
        return bytes(self.out)
