"""Huffman code-length assignment and canonical codes.

libmspack's make_decode_table() accepts a length vector only if it is
*complete* (Kraft sum exactly 1) - or all zero where the caller allows an
empty tree - so every assignment here is complete and uses >= 2 symbols.
`lengths()` offers several legal assignments for the same symbol statistics:
  'optimal'  length-limited Huffman (heap + frequency flattening)
  'random'   a random complete code that covers the used symbols (and maybe
             some unused ones): legal, usually far from optimal
  'flat'     all `nsyms` symbols get log2(nsyms) bits (nsyms a power of two)
Codes are canonical in the order (length, symbol index), the order
make_decode_table() assigns them for both bit orders.
"""
import heapq


def optimal(freq, nsyms, maxlen):
    f = {s: c for s, c in freq.items() if c > 0}
    s = 0
    while len(f) < 2:                    # the decoders reject one-symbol codes
        if s not in f: f[s] = 1
        s += 1
    while True:
        h = [(c, i, [s]) for i, (s, c) in enumerate(sorted(f.items()))]
        heapq.heapify(h); L = dict.fromkeys(f, 0); k = len(h)
        while len(h) > 1:
            a = heapq.heappop(h); b = heapq.heappop(h)
            for s in a[2] + b[2]: L[s] += 1
            heapq.heappush(h, (a[0] + b[0], k, a[2] + b[2])); k += 1
        if max(L.values()) <= maxlen: break
        f = {s: max(1, c >> 1) for s, c in f.items()}
    out = [0] * nsyms
    for s, l in L.items(): out[s] = l
    return out


def random_complete(rng, used, nsyms, maxlen, extra=0.3):
    """random complete code: every symbol in `used` gets a code, plus a random
    number of unused symbols; depths from randomly splitting leaves"""
    used = sorted(set(used)); spare = [s for s in range(nsyms) if s not in set(used)]
    k = len(used)
    if spare and rng.random() < extra:
        k += rng.randint(1, min(len(spare), 1 + len(used) // 2 + 3))
    k = max(k, 2); assert k <= nsyms and k <= (1 << maxlen)
    depths = [0]
    while len(depths) < k:
        c = [i for i, d in enumerate(depths) if d < maxlen]
        # keep room: at most sum over leaves of 2^(maxlen-d) leaves are reachable
        i = rng.choice(c); d = depths.pop(i); depths += [d + 1, d + 1]
    rng.shuffle(depths)
    syms = used + rng.sample(spare, k - len(used))
    out = [0] * nsyms
    for s, d in zip(syms, depths): out[s] = d
    return out


def lengths(freq, nsyms, maxlen, style='optimal', rng=None):
    if style == 'flat' and nsyms & (nsyms - 1) == 0:
        return [nsyms.bit_length() - 1] * nsyms
    if style == 'random' and rng is not None:
        return random_complete(rng, [s for s, c in freq.items() if c > 0], nsyms, maxlen)
    return optimal(freq, nsyms, maxlen)


def kraft_ok(lens, maxlen=16):
    return sum(1 << (maxlen - l) for l in lens if l) == (1 << maxlen)


def canonical(lens):
    """{symbol: (code, length)}; code bits listed MSB first"""
    codes = {}; code = 0
    for l in range(1, max(lens, default=0) + 1):
        for s, x in enumerate(lens):
            if x == l: codes[s] = (code, l); code += 1
        code <<= 1
    return codes
