"""KWAJ files: header with any combination of optional fields, 5 methods.

Header (kwajd.c): 'KWAJ' 88 F0 27 D1, method u16, data offset u16, flags u16, then
 0x01 u32 length | 0x02 u16 unknown | 0x04 u16 n + n bytes | 0x08 name (<= 8 chars,
 NUL) | 0x10 extension (<= 3 chars, NUL) | 0x20 u16 n + n bytes of text;
data starts at the stated offset (slack after the header is legal).
Methods: 0 copy, 1 XOR 0xFF, 2 LZSS (QBasic ring start, see szdd.py),
3 LZH, 4 MSZIP blocks each prefixed by a u16 size and ended by a zero size.

LZH: bits MSB-first in bytes.  6 nibbles: coding type of the five trees
(MATCHLEN1 16 syms, MATCHLEN2 16, LITLEN 32, OFFSET 64, LITERAL 256) + one unused
nibble; then each tree's lengths in its type: 0 none (all log2 n), 1 = 4-bit
first, then 0 same / 10 +1 / 11 + 4 bits, 2 = 4-bit first, then 2-bit 0:-1 1:same
2:+1 3:4 bits follow, 3 = 4 bits each.  Every tree must be complete.  Then
operations: MATCHLEN symbol (tree 2 right after a literal run shorter than 32,
else tree 1): 0 = literal run: LITLEN symbol+1 literals follow; k>0 = match of
k+2 bytes, OFFSET symbol (distance >> 6) and 6 raw bits; distance 1..4096 coded
mod 4096 into a 4096 ring pre-filled with spaces.  There is no end marker.
libmspack ends at the first operation boundary after its 16-bit look-ahead has
met the end of the file, or mid-operation once it consumed made-up bits - so
short trailing operations can be lost and padding bits can decode as data.
lzh_encode() therefore checks its output with lzh_decode(), a model of that
behaviour, and searches tail paddings (and, failing that, re-tokenises the tail
as one literal run) until the stream decodes to exactly the plan.
"""
import struct
from . import deflate, huff, lz, szdd, pick_size
from .bits import MSBBytes

SIG = b'KWAJ\x88\xf0\x27\xd1'
NSYMS = (16, 16, 32, 64, 256)
RING = szdd.RING


def header(method, data_offset, length=None, unknown1=None, unknown2=None, name=None, ext=None, extra=None):
    flags = 0; body = b''
    if length is not None: flags |= 1; body += struct.pack('<I', length)
    if unknown1 is not None: flags |= 2; body += struct.pack('<H', unknown1)
    if unknown2 is not None: flags |= 4; body += struct.pack('<H', len(unknown2)) + unknown2
    if name is not None: assert len(name) <= 8 and 0 not in name; flags |= 8; body += name + b'\0'
    if ext is not None: assert len(ext) <= 3 and 0 not in ext; flags |= 0x10; body += ext + b'\0'
    if extra is not None: flags |= 0x20; body += struct.pack('<H', len(extra)) + extra
    return SIG + struct.pack('<HHH', method, data_offset if data_offset is not None else 14 + len(body), flags) + body


def build(method, payload, slack=b'', **fields):
    h = header(method, None, **fields)
    return header(method, len(h) + len(slack), **fields) + slack + payload


def _put_lens(bw, lens, typ, rng=None):
    n = len(lens)
    if typ == 0: assert lens == [n.bit_length() - 1] * n; return
    if typ == 3:
        for l in lens: bw.put(l, 4)
        return
    c = lens[0]; bw.put(c, 4)
    for l in lens[1:]:
        explicit = rng is not None and rng.random() < 0.1
        if typ == 1:
            if l == c and not explicit: bw.put(0, 1)
            elif l == c + 1 and not explicit: bw.put(2, 2)
            else: bw.put(3, 2); bw.put(l, 4)
        else:
            if abs(l - c) <= 1 and not explicit: bw.put(l - c + 1, 2)
            else: bw.put(3, 2); bw.put(l, 4)
        c = l


def _ops(tokens, rng, runs, tail=0):
    """tokens -> operations; literals are grouped into runs of 1..32 ('max': as
    long as possible, 'random'); the last `tail` literals stay one run"""
    ops = []; lits = []
    def flush(keep=0):
        while len(lits) > keep:
            k = min(len(lits) - keep, 32 if runs == 'max' else rng.randint(1, 32))
            ops.append(('R', lits[:k])); del lits[:k]
        if lits: ops.append(('R', lits[:]))
    for t in tokens:
        if t[0] == 'L': lits.append(t[1])
        else: flush(); del lits[:]; ops.append(t)
    flush(tail)
    return ops


def lzh_decode(buf):
    """model of kwajd.c lzh_decompress(), including how it stops"""
    class End(Exception): pass
    s = dict(acc=0, n=0, pos=0, end=0)
    def ensure(k):
        while s['n'] < k:
            if s['pos'] < len(buf): b = buf[s['pos']]; s['pos'] += 1
            else: b = 0; s['end'] += 8
            s['acc'] = (s['acc'] << 8) | b; s['n'] += 8
    def take(k):
        s['n'] -= k; v = (s['acc'] >> s['n']) & ((1 << k) - 1); s['acc'] &= (1 << s['n']) - 1
        if s['end'] and s['n'] < s['end']: raise End
        return v
    def bits(k): ensure(k); return take(k)
    out = bytearray(); ring = bytearray(RING); pos = 0
    try:
        types = [bits(4) for _ in range(6)]; trees = []
        for n, typ in zip(NSYMS, types):
            if typ == 0: lens = [n.bit_length() - 1] * n
            elif typ == 3: lens = [bits(4) for _ in range(n)]
            else:
                c = bits(4); lens = [c]
                for _ in range(n - 1):
                    if typ == 1:
                        if bits(1):
                            if bits(1): c = bits(4)
                            else: c += 1
                    else:
                        sel = bits(2); c = bits(4) if sel == 3 else c + sel - 1
                    lens.append(c)
            if not huff.kraft_ok(lens): return None
            trees.append({(l, c): sym for sym, (c, l) in huff.canonical(lens).items()})
        def sym(tree):
            ensure(16)
            for l in range(1, 17):
                v = tree.get((l, s['acc'] >> (s['n'] - l)))
                if v is not None: take(l); return v
        lit_run = 0
        while not s['end']:
            ln = sym(trees[1] if lit_run else trees[0])
            if ln > 0:
                ln += 2; lit_run = 0; off = sym(trees[3]) << 6; off |= bits(6)
                for _ in range(ln):
                    ring[pos] = ring[(pos - off) & 4095]; out.append(ring[pos]); pos = (pos + 1) & 4095
            else:
                ln = sym(trees[2]) + 1; lit_run = 0 if ln == 32 else 1
                for _ in range(ln):
                    ring[pos] = sym(trees[4]); out.append(ring[pos]); pos = (pos + 1) & 4095
    except End:
        pass
    return bytes(out)


def lzh_encode(tokens, rng=None, huffman='optimal', types=None, runs='max', spare_nibble=0):
    """tokens: matches 3..17 long at distance 1..4096 (ring pre-filled with spaces).
    types: coding type 0..3 per tree (None: random/any that fits); runs: 'max' or
    'random' literal-run lengths.  Returns (bytes, info)."""
    want = lz.expand(tokens, RING)
    for attempt in range(3):
        if attempt:                          # make the tail one literal run (up to 32 bytes)
            k = min(len(want), 32 if attempt == 2 else 16); toks = []; n = 0
            for t in tokens:
                ln = 1 if t[0] == 'L' else t[2]
                if n + ln > len(want) - k: break
                toks.append(t); n += ln
            tokens = toks + [('L', b) for b in want[n:]]
        ops = _ops(tokens, rng, runs, k if attempt else 0)
        f = [{} for _ in range(5)]; lit_run = 0
        def count(i, s): f[i][s] = f[i].get(s, 0) + 1
        for op in ops:
            if op[0] == 'R':
                count(1 if lit_run else 0, 0); count(2, len(op[1]) - 1); lit_run = 0 if len(op[1]) == 32 else 1
                for b in op[1]: count(4, b)
            else:
                assert 3 <= op[2] <= 17 and 1 <= op[1] <= 4096, op
                count(1 if lit_run else 0, op[2] - 2); count(3, (op[1] & 4095) >> 6); lit_run = 0
        lens = []; ty = []
        for i, n in enumerate(NSYMS):
            t = types[i] if types else (rng.choice([0, 1, 2, 3]) if rng else 3)
            l = huff.lengths(f[i], n, 15, 'flat' if t == 0 else huffman, rng)
            if t == 0 and l != [n.bit_length() - 1] * n: t = 3
            lens.append(l); ty.append(t)
        codes = [huff.canonical(l) for l in lens]
        bw = MSBBytes()
        for t in ty + [spare_nibble]: bw.put(t, 4)
        for l, t in zip(lens, ty): _put_lens(bw, l, t, rng)
        lit_run = 0
        for op in ops:
            ml = codes[1 if lit_run else 0]
            if op[0] == 'R':
                bw.put(*ml[0]); bw.put(*codes[2][len(op[1]) - 1]); lit_run = 0 if len(op[1]) == 32 else 1
                for b in op[1]: bw.put(*codes[4][b])
            else:
                bw.put(*ml[op[2] - 2]); bw.put(*codes[3][(op[1] & 4095) >> 6]); bw.put(op[1] & 63, 6); lit_run = 0
        # tail: pad bits that cannot complete an operation, optional extra bytes
        nxt = codes[1 if lit_run else 0]
        stop = [c for s, c in sorted(nxt.items()) if s > 0]
        body = bytes(bw.out); acc, n = bw.acc, bw.n
        pads = []; olong = max(codes[3].values(), key=lambda c: c[1])
        for code, l in stop[:2] + stop[-1:]:
            for extra in (0, 1, 2):
                t = MSBBytes(); t.put(acc, n); t.put(code, l); t.align(); t.raw(bytes(extra)); pads.append(bytes(t.out))
            t = MSBBytes(); t.put(acc, n); t.put(code, l); t.put(*olong); t.align(1); pads.append(bytes(t.out))
        pads += [bytes([acc << (8 - n)]) if n else b'', bytes([(acc << (8 - n)) | ((1 << (8 - n)) - 1)]) if n else b'']
        if rng: rng.shuffle(pads)
        for p in pads:
            if lzh_decode(body + p) == want:
                return body + p, {'lzh_types': ty, 'retokenised_tail': attempt, 'tail_bytes': len(p), 'ops': len(ops)}
    raise AssertionError('no decodable LZH tail found')


def mszip_payload(blocks, size_field=None):
    out = b''
    for p, _ in blocks: out += struct.pack('<H', size_field(len(p)) if size_field else len(p)) + p
    return out + b'\0\0'


def random_case(rng, size='small', method=None, **_):
    n = pick_size(rng, size)
    if method is None: method = rng.choice([0, 1, 2, 2, 3, 3, 3, 4, 4])
    meta = {'method': method}
    if method in (0, 1):
        plain = lz.random_data(rng, n); payload = plain if method == 0 else bytes(b ^ 0xFF for b in plain)
    elif method == 2:
        toks, plain, meta['source'] = szdd.tokens_for(rng, n); fill = rng.getrandbits(1)
        payload = szdd.lzss_encode(toks, 4096 - 18, fill); meta['last_ctrl_fill'] = fill
        meta['matches_into_prefill'] = szdd._prefill(toks)
    elif method == 3:
        if rng.random() < 0.5:
            toks = lz.random_tokens(rng, n, 4096, 3, 17, frame=None, ref_len=4096, lit=b'ab \n\xe8'); meta['source'] = 'tokens'
        else:
            toks = lz.greedy_tokens(lz.random_data(rng, n), 4096, 3, 17, ref=RING, lazy_skip=rng.choice([0, 0.3]), rng=rng); meta['source'] = 'data'
        plain = lz.expand(toks, RING)
        payload, info = lzh_encode(toks, rng, rng.choice(['optimal', 'random']), None, rng.choice(['max', 'random']), rng.getrandbits(4))
        meta.update(info); meta['matches_into_prefill'] = szdd._prefill(toks)
    else:
        plain = lz.random_data(rng, n); mode = rng.choice(['zlib', 'mixed', 'mixed', 'stored', 'fixed', 'dynamic'])
        if rng.random() < 0.4:
            toks = lz.random_tokens(rng, n, 32768, 3, 258, lit=bytes(range(97, 123))); plain = lz.expand(toks)
            blocks = deflate.mszip_blocks(toks, rng.choice(['mixed', 'fixed', 'dynamic']), rng)
        else: blocks = deflate.mszip_blocks(plain, mode, rng)
        honest = rng.random() < 0.8
        payload = mszip_payload(blocks, None if honest else (lambda k: rng.randint(1, 65535)))
        meta.update(mszip_mode=mode, nblocks=len(blocks), size_fields_honest=honest)
    fields = {}
    if rng.random() < 0.6: fields['length'] = rng.choice([len(plain), len(plain), 0, 0xFFFFFFFF])
    if rng.random() < 0.3: fields['unknown1'] = rng.getrandbits(16)
    if rng.random() < 0.3: fields['unknown2'] = rng.randbytes(rng.choice([0, 1, 30, 600]))
    if rng.random() < 0.5: fields['name'] = bytes(rng.choice(b'ABCxyz019_~\xe9') for _ in range(rng.randint(0, 8)))
    if rng.random() < 0.5: fields['ext'] = bytes(rng.choice(b'TXdl_0\xff') for _ in range(rng.randint(0, 3)))
    if rng.random() < 0.3: fields['extra'] = rng.randbytes(rng.choice([0, 5, 200])) if rng.random() < 0.5 else b'some text\0more'
    slack = rng.randbytes(rng.choice([0, 0, 0, 1, 17]))
    if not payload and not slack and (fields.get('name') == b'' or fields.get('ext') == b'') and 'extra' not in fields:
        slack = b'\0'                 # kwajd needs 2 readable bytes where a name starts
    f = build(method, payload, slack, **fields)
    name = None
    if 'name' in fields or 'ext' in fields: name = fields.get('name', b'') + (b'.' + fields['ext'] if 'ext' in fields else b'')
    flags = struct.unpack_from('<H', f, 12)[0]
    meta.update(order=['f.kwj'], plain_bytes=len(plain), header_fields=sorted(fields), slack=len(slack),
                expect={'comp': method, 'dataoff': struct.unpack_from('<H', f, 10)[0], 'flags': flags, 'length': fields.get('length', 0),
                        'name': name, 'extra': fields.get('extra')})
    return {'kind': 'kwaj', 'files': {'f.kwj': f}, 'members': [{'name': name or b'f.kwj', 'data': plain}], 'meta': meta}
