"""Quantum encoder (inverse of qtmd.c): adaptive arithmetic coder, 9 models.

Per 32768-byte frame: H=0xFFFF, L=0; the decoder pre-loads 16 bits into C, so a
raw (extra-bits) field requested after S arithmetic shifts sits in the stream
after arithmetic bit 16+S.  Models persist over frames.  A frame ends with the
flush (16 bits of a value in [L,H] - any such value decodes), padding to a byte
and 0..n trailing bytes of any value but 0xFF; cabd.c then appends its 0xFF
marker, which the decoder searches for.  Window 2^10..2^21; with windows
below 32 KiB matches may wrap the window inside a frame.

Token limits: length 3 needs offset <= 4096 (model 4 has min(24, 2wb) slots),
length 4 offset <= 2^18 (model 5, 36 slots), lengths 5..259 any offset <=
window.  encode(tokens, wb, ...) -> [(payload, usize)] per frame.
"""
from . import lz

FRAME = 32768
POS_BASE = [0, 1, 2, 3, 4, 6, 8, 12, 16, 24, 32, 48, 64, 96, 128, 192, 256, 384, 512, 768, 1024, 1536, 2048, 3072,
            4096, 6144, 8192, 12288, 16384, 24576, 32768, 49152, 65536, 98304, 131072, 196608, 262144, 393216,
            524288, 786432, 1048576, 1572864]
POS_XB = [max(0, i - 2) >> 1 for i in range(42)]
LEN_BASE = [0, 1, 2, 3, 4, 5, 6, 8, 10, 12, 14, 18, 22, 26, 30, 38, 46, 54, 62, 78, 94, 110, 126, 158, 190, 222, 254]
LEN_XB = [0, 0, 0, 0, 0, 0, 1, 1, 1, 1, 2, 2, 2, 2, 3, 3, 3, 3, 4, 4, 4, 4, 5, 5, 5, 5, 0]


def max_offset(wb):
    return lambda ln: min(1 << wb, 4096 if ln == 3 else 1 << 18 if ln == 4 else 1 << 21)


class Model:
    def __init__(s, start, n):
        s.shiftsleft = 4; s.entries = n
        s.sym = [start + i for i in range(n + 1)]; s.cf = [n - i for i in range(n + 1)]
        s.rescales = 0; s.sorts = 0

    def update(s):
        s.shiftsleft -= 1
        if s.shiftsleft:
            s.rescales += 1
            for i in range(s.entries - 1, -1, -1):
                s.cf[i] >>= 1
                if s.cf[i] <= s.cf[i + 1]: s.cf[i] = s.cf[i + 1] + 1
        else:
            s.shiftsleft = 50; s.sorts += 1
            for i in range(s.entries): s.cf[i] = (s.cf[i] - s.cf[i + 1] + 1) >> 1
            for i in range(s.entries - 1):          # selection sort, unstable exactly like the C
                for j in range(i + 1, s.entries):
                    if s.cf[i] < s.cf[j]:
                        s.cf[i], s.cf[j] = s.cf[j], s.cf[i]; s.sym[i], s.sym[j] = s.sym[j], s.sym[i]
            for i in range(s.entries - 1, -1, -1): s.cf[i] += s.cf[i + 1]


class Encoder:
    def __init__(s, wb):
        assert 10 <= wb <= 21
        i = wb * 2
        s.m = [Model(0, 64), Model(64, 64), Model(128, 64), Model(192, 64),
               Model(0, min(i, 24)), Model(0, min(i, 36)), Model(0, i)]
        s.mlen = Model(0, 27); s.msel = Model(0, 7); s.start_frame()

    def start_frame(s):
        s.H = 0xFFFF; s.L = 0; s.pending = 0; s.A = []; s.shifts = 0; s.rawq = []

    def _emit(s, b):
        s.A.append(b); s.A += [1 - b] * s.pending; s.pending = 0

    def sym(s, model, symbol):
        j = model.sym.index(symbol, 0, model.entries)
        rng = s.H - s.L + 1; tot = model.cf[0]
        s.H = s.L + model.cf[j] * rng // tot - 1
        s.L = s.L + model.cf[j + 1] * rng // tot
        for k in range(j + 1): model.cf[k] += 8
        if model.cf[0] > 3800: model.update()
        while True:
            if (s.L & 0x8000) != (s.H & 0x8000):
                if (s.L & 0x4000) and not (s.H & 0x4000):
                    s.pending += 1; s.L &= 0x3FFF; s.H |= 0x4000
                else: break
            else: s._emit(s.L >> 15 & 1)
            s.L = s.L << 1 & 0xFFFF; s.H = (s.H << 1 | 1) & 0xFFFF; s.shifts += 1

    def raw(s, v, n):
        if n: s.rawq.append((s.shifts, [v >> i & 1 for i in range(n - 1, -1, -1)]))

    def end_frame(s, trailing=b'', flush=None):
        """flush: None = the low end L; else a value in [L,H] (only used when no
        underflow bits are pending)"""
        v = s.L if (flush is None or s.pending) else flush
        assert s.L <= v <= s.H
        s._emit(v >> 15 & 1); s.A += [v >> i & 1 for i in range(14, -1, -1)]
        bits = []; ai = 0
        for sc, rb in s.rawq:
            bits += s.A[ai:16 + sc]; ai = 16 + sc; bits += rb
        bits += s.A[ai:]
        bits += [0] * (-len(bits) % 8)
        out = bytes(int(''.join(map(str, bits[i:i + 8])), 2) for i in range(0, len(bits), 8))
        assert 0xFF not in trailing
        s.start_frame()
        return out + trailing

    def literal(s, c):
        s.sym(s.msel, c >> 6); s.sym(s.m[c >> 6], c)

    def match(s, offset, length):
        o = offset - 1; sl = max(i for i in range(42) if POS_BASE[i] <= o)
        if length in (3, 4):
            s.sym(s.msel, length + 1); s.sym(s.m[length + 1], sl)
        else:
            s.sym(s.msel, 6); l = length - 5
            ls = max(i for i in range(27) if LEN_BASE[i] <= l)
            s.sym(s.mlen, ls); s.raw(l - LEN_BASE[ls], LEN_XB[ls]); s.sym(s.m[6], sl)
        s.raw(o - POS_BASE[sl], POS_XB[sl])


def encode(tokens, wb, trailing=None, flush=None):
    """trailing: callable(frame_index) -> bytes without 0xFF, appended to each frame;
    flush: callable(L, H) -> value in [L,H].  Returns ([(payload, usize)], stats)"""
    e = Encoder(wb); blocks = []; fr = 0; pos = 0; lim = max_offset(wb)

    def close():
        nonlocal fr
        v = flush(e.L, e.H) if flush else None
        blocks.append((e.end_frame(trailing(len(blocks)) if trailing else b'', v), fr)); fr = 0
    for t in tokens:
        if t[0] == 'L': e.literal(t[1]); fr += 1; pos += 1
        else:
            assert 3 <= t[2] <= 259 and 1 <= t[1] <= min(pos, lim(t[2])), t
            e.match(t[1], t[2]); fr += t[2]; pos += t[2]
        assert fr <= FRAME, "match crosses a frame boundary"
        if fr == FRAME: close()
    if fr: close()
    ms = e.m + [e.mlen, e.msel]
    return blocks, {'rescales': sum(m.rescales for m in ms), 'sorts': sum(m.sorts for m in ms)}


def wrap_matches(tokens, wb):
    """(start, window_end) of matches that wrap the window - input to the
    predicate for the known libmspack defect with windows < 32 KiB"""
    out = []; pos = 0; w = 1 << wb
    for t in tokens:
        ln = 1 if t[0] == 'L' else t[2]
        if ln > 1 and pos % w + ln > w: out.append((pos, pos - pos % w + w))
        pos += ln
    return out


def compress(data, wb, rng, tokens=None, **_):
    """random coding choices for `data` (or an explicit token plan)"""
    if tokens is None:
        tokens = lz.greedy_tokens(data, max_offset(wb), 3, 259, frame=FRAME, lazy_skip=rng.choice([0, 0.3]), rng=rng)
    style = rng.choice(['none', 'zeros', 'random'])
    trail = {'none': lambda i: b'', 'zeros': lambda i: bytes(rng.randint(0, 4)),
             'random': lambda i: bytes(rng.randrange(255) for _ in range(rng.randint(0, 6)))}[style]
    fl = rng.choice([None, lambda L, H: rng.randint(L, H)])
    blocks, st = encode(tokens, wb, trail, fl)
    st.update(qtm_window=wb, trailing=style, flush='low' if fl is None else 'random',
              wraps=wrap_matches(tokens, wb) if wb < 15 else [])
    return blocks, st
