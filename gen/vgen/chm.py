"""CHM (ITSF) writer.

File: ITSF header (0x38: 'ITSF', version 2|3, header length, 1, timestamp (read
big-endian by chmd.c), language, two GUIDs) + header-section table (offset/length
of HS0 and HS1; v3 adds the offset of content section 0) | HS0 (0x18, holds the
file length) | HS1 = ITSP directory header (0x54) followed by the chunks |
content section 0.  In v2 files section 0 starts right after the chunks.
Directory: PMGL listing chunks (0x14 header: 'PMGL', free+quickref size, 0, prev,
next) of entries  ENCINT name length, name, ENCINT section, offset, length,
sorted by chmd.c compare() (code points, lower-cased); the chunk ends with a
u16 entry count preceded by u16 quickref slots growing backwards: slot k holds
the offset (from the first entry) of entry k*(1 + 2^density).  Optional PMGI
index chunks (8-byte header) list (first name, chunk number) of each chunk of
the level below; the ITSP header names the root, the depth and the PMGL range.
chmd_read_headers() accepts chunk sizes from 22 up to 8192; a chunk must of
course hold its largest entry.
Section 1 is the file ::DataSpace/Storage/MSCompressed/Content of section 0: one
LZX stream (see lzx.py) reset every `reset_interval` frames, zero-padded to a
whole number of reset intervals (chmd rounds the length it takes from the
ResetTable up like that and decodes one frame past a member that ends on a frame
boundary); ControlData (28 bytes; v1 sizes in bytes, v2 in 32 KiB units),
ResetTable (0x28 header + one 8- or 4-byte compressed offset per frame) and
SpanInfo (u64 uncompressed length; used when the ResetTable is absent or lacks
the entry: decoding then restarts from offset 0) describe it.
"""
import struct
from . import lz, lzx, pick_size

GUID1 = bytes.fromhex('10FD017CAA7BD0119E0C00A0C922E6EC')
GUID2 = bytes.fromhex('11FD017CAA7BD0119E0C00A0C922E6EC')
GUID_ITSP = bytes.fromhex('6A92025D2E21D0119DF900A0C922E6EC')
P = b'::DataSpace/Storage/MSCompressed/'
CONTENT, CONTROL, SPANINFO = P + b'Content', P + b'ControlData', P + b'SpanInfo'
RTABLE = P + b'Transform/{7FC28940-9D31-11D0-9B27-00A0C91E9C7C}/InstanceData/ResetTable'
TLIST, NAMELIST = P + b'Transform/List', b'::DataSpace/NameList'
FRAME = 32768


def encint(n):
    out = [n & 0x7F]; n >>= 7
    while n: out.append(0x80 | (n & 0x7F)); n >>= 7
    return bytes(reversed(out))


def sort_key(name):
    """chmd.c compare(): code points after tolower (ASCII here), then length"""
    return [c + 32 if 65 <= c <= 90 else c for c in map(ord, name.decode('utf-8', 'surrogateescape'))], len(name)


def _fit(head_len, ents, chunk_size, density, qr_exact=False):
    """how many of `ents` (entry byte strings) fit into one chunk.  chmd.c only
    uses the quickref area if it has room for one slot more than needed;
    qr_exact packs without that spare slot (chmd then searches linearly)."""
    qd = 1 + (1 << density); n = 0; used = 0
    def room(k): return 2 + 2 * ((k + qd - 1) // qd - (1 if qr_exact else 0))
    while n < len(ents) and head_len + used + len(ents[n]) + room(n + 1) <= chunk_size:
        used += len(ents[n]); n += 1
    return n


def _emit(sig_head, head_len, ents, chunk_size, density):
    qd = 1 + (1 << density); body = b''.join(ents); free = chunk_size - head_len - len(body)
    tail = bytearray(free); offs = []; p = 0
    for i, e in enumerate(ents):
        if i and i % qd == 0: offs.append(p)
        p += len(e)
    struct.pack_into('<H', tail, free - 2, len(ents))
    for k, o in enumerate(offs, 1): struct.pack_into('<H', tail, free - 2 - 2 * k, o)
    return sig_head(free) + body + bytes(tail)


def directory(entries, chunk_size, density=2, index_levels=0, fill=None, pmgi_first=False, qr_exact=False):
    """entries: [(name, section, offset, length)] -> (chunks, fields) where fields
    has depth, index_root, first_pmgl, last_pmgl.  fill: callable() -> max entries
    for the next chunk (None = as many as fit).  index_levels: 0 = no PMGI; k > 0 =
    at least k levels (more if a level needs several chunks)."""
    entries = sorted(entries, key=lambda e: sort_key(e[0]))
    ents = [encint(len(n)) + n + encint(s) + encint(o) + encint(l) for n, s, o, l in entries]
    groups = []; i = 0                                  # PMGL chunks as (first index, count)
    while i < len(ents) or not groups:
        n = _fit(0x14, ents[i:i + 400], chunk_size, density, qr_exact)
        if fill and ents: n = max(1, min(n, fill()))
        assert n > 0 or not ents, "chunk size %d cannot hold entry %r" % (chunk_size, entries[i][0])
        groups.append((i, n)); i += n
        if not ents: break
    levels = []                                          # each: [(first name, [child entries...])]
    lower = [entries[a][0] if ents else b'' for a, _ in groups]
    while index_levels > len(levels) or (levels and len(levels[-1]) > 1):
        cur = []; j = 0
        while j < len(lower):
            cand = [encint(len(nm)) + nm + b'\x80\x80\x80\x00' for nm in lower[j:j + 400]]      # room for any chunk number
            n = _fit(8, cand, chunk_size, density, qr_exact)
            if fill: n = max(min(n, 2), min(n, fill()))        # >= 2 per index chunk, or levels never shrink
            assert n > 1 or (n == 1 and len(lower) - j == 1), "chunk size too small for two PMGI entries"
            cur.append((j, n)); j += n
        levels.append(cur); lower = [lower[a] for a, _ in cur]
    npmgl = len(groups); npmgi = sum(len(l) for l in levels)
    base_l = npmgi if pmgi_first else 0; base_i = []; b = 0 if pmgi_first else npmgl
    for l in levels: base_i.append(b); b += len(l)
    chunks_l = []
    for k, (a, n) in enumerate(groups):
        prev = base_l + k - 1 if k else 0xFFFFFFFF; nxt = base_l + k + 1 if k + 1 < npmgl else 0xFFFFFFFF
        chunks_l.append(_emit(lambda free: b'PMGL' + struct.pack('<IIII', free, 0, prev, nxt), 0x14, ents[a:a + n], chunk_size, density))
    chunks_i = []
    names = [entries[a][0] if ents else b'' for a, _ in groups]; child_base = base_l
    for li, l in enumerate(levels):
        for a, n in l:
            ie = [encint(len(nm)) + nm + encint(child_base + a + k) for k, nm in enumerate(names[a:a + n])]
            chunks_i.append(_emit(lambda free: b'PMGI' + struct.pack('<I', free), 8, ie, chunk_size, density))
        names = [names[a] for a, _ in l]; child_base = base_i[li]
    chunks = chunks_i + chunks_l if pmgi_first else chunks_l + chunks_i
    root = base_i[-1] if levels else 0xFFFFFFFF
    return chunks, {'depth': 1 + len(levels), 'index_root': root, 'first_pmgl': base_l, 'last_pmgl': base_l + npmgl - 1}


def control_data(version, reset_frames, window_bits, cache=None):
    unit = 1 if version == 2 else FRAME
    rs = reset_frames * unit; ws = (1 << window_bits) // FRAME * unit
    return struct.pack('<I4sIIIII', 6, b'LZXC', version, rs, ws, ws if cache is None else cache, 0)


def reset_table(frame_offsets, uncomp_len, comp_len, entry_size=8, gap=0, nentries=None):
    n = len(frame_offsets) if nentries is None else nentries
    out = struct.pack('<IIIIQQQ', 2, n, entry_size, 0x28 + gap, uncomp_len, comp_len, FRAME) + bytes(gap)
    for o in frame_offsets[:n]:
        if entry_size == 4: out += struct.pack('<I', o)
        else: out += (struct.pack('<Q', o) + bytes(entry_size))[:entry_size]       # sizes other than 4 and 8: chmd falls back to SpanInfo
    return out


def build(entries, section0, version=3, chunk_size=4096, density=2, timestamp=0, language=0x409,
          hs0_pos='before', gaps=(0, 0, 0), **dir_opts):
    """entries: directory entries [(name, section, offset, length)];
    section0: bytes of content section 0.  gaps: bytes inserted after the ITSF
    header, after HS0 and (v3 only) between the chunks and section 0.
    Returns (file bytes, header fields as chmd reports them)."""
    chunks, f = directory(entries, chunk_size, density, **dir_opts)
    hlen = 0x60 if version >= 3 else 0x58
    g0, g1, g2 = gaps
    if version < 3: g2 = 0
    dirlen = 0x54 + len(chunks) * chunk_size
    if hs0_pos == 'before': hs0 = hlen + g0; hs1 = hs0 + 0x18 + g1; sec0 = hs1 + dirlen + g2; total = sec0 + len(section0)
    elif hs0_pos == 'end': hs1 = hlen + g0; sec0 = hs1 + dirlen + g2; hs0 = sec0 + len(section0) + g1; total = hs0 + 0x18
    else: raise ValueError(hs0_pos)
    head = b'ITSF' + struct.pack('<III', version, hlen, 1) + struct.pack('>I', timestamp) + struct.pack('<I', language) + GUID1 + GUID2
    head += struct.pack('<QQQQ', hs0, 0x18, hs1, dirlen)
    if version >= 3: head += struct.pack('<Q', sec0)
    s0 = struct.pack('<IIQII', 0x1FE, 0, total, 0, 0)
    itsp = b'ITSP' + struct.pack('<IIIIIIiIIiII', 1, 0x54, 0x0A, chunk_size, density, f['depth'], f['index_root'] - (1 << 32) if f['index_root'] > 0x7FFFFFFF else f['index_root'],
                                 f['first_pmgl'], f['last_pmgl'], -1, len(chunks), language) + GUID_ITSP + struct.pack('<Iiii', 0x54, -1, -1, -1)
    assert len(itsp) == 0x54 and len(head) == hlen
    out = bytearray(total)
    out[0:hlen] = head; out[hs0:hs0 + 0x18] = s0; out[hs1:hs1 + dirlen] = itsp + b''.join(chunks); out[sec0:sec0 + len(section0)] = section0
    fields = {'len': total, 'ver': version, 'ts': timestamp, 'lang': language, 'diroff': hs1 + 0x54, 'nchunks': len(chunks), 'chunksize': chunk_size,
              'density': density, 'depth': f['depth'], 'root': f['index_root'], 'first': f['first_pmgl'], 'last': f['last_pmgl'], 'sec0': sec0}
    return bytes(out), fields


def _names(rng, k):
    seen = set(); out = []
    while len(out) < k:
        style = rng.random()
        if style < 0.5: nm = '/' + '/'.join(''.join(rng.choice('abcdeXYZ_019 .') for _ in range(rng.randint(1, 8))) for _ in range(rng.randint(1, 3)))
        elif style < 0.8: nm = '/' + ''.join(rng.choice('abéßñ中文あ\U0001f600\U00010348z-\uf900\ufffd\ufb01\ufe4f\ud7ff\ue000\u07ff\u0800') for _ in range(rng.randint(1, 12)))
        elif style < 0.9: nm = ''.join(rng.choice('#$abc') for _ in range(rng.randint(2, 6)))
        else: nm = '/' + 'long' * rng.randint(10, 60) + str(rng.randint(0, 99))
        if nm.endswith('/') or nm.startswith('::') or nm.lower() in seen or len(nm.encode()) < 2: continue
        seen.add(nm.lower()); out.append(nm.encode())
    return out


def random_case(rng, size='small', version=None, chunk_size=None, density=None, index_levels=None, rtable=None, rtgap=None, **_):
    """random CHM; the keyword features pin a choice (chunk_size is raised to the
    smallest size that holds the longest entry), everything else is random"""
    total = pick_size(rng, size); k = rng.choice([1, 2, 3, 5, 8, 20, 60]) if size != 'small' else rng.choice([1, 2, 3, 5, 8, 20])
    names = _names(rng, k); cuts = sorted(rng.randint(0, total) for _ in range(k - 1)); lens = [b - a for a, b in zip([0] + cuts, cuts + [total])]
    for i in range(k):
        if rng.random() < 0.1: lens[i] = 0
        elif rng.random() < 0.1 and lens[i] > FRAME: lens[i] = lens[i] // FRAME * FRAME
    sec = [rng.choice([0, 1, 1]) for _ in range(k)]
    members = []; meta = {}
    # --- section 1: the LZX stream
    one = [i for i in range(k) if sec[i] == 1 and lens[i]]
    s1len = sum(lens[i] for i in one); sysfiles = []
    entries = []
    if s1len:
        wb = rng.randint(15, 21); rframes = rng.choice([1, 2, 2, 4]); rb = rframes * FRAME
        padded = -(-s1len // rb) * rb
        rt = rtable or rng.choice(['normal', 'normal', 'normal', 'normal', 'entry4', 'entry4', 'missing', 'missing', 'short', 'short', 'entry16', 'entry12'])
        e8 = rt in ('normal', 'entry4') and padded <= rb and rng.random() < 0.5
        toks = None; data = None
        if rng.random() < 0.5:
            toks = lz.random_tokens(rng, s1len, lzx.max_offset(wb), 2, 257, reset=rb, window=1 << wb) + [('L', 0)] * min(1, padded - s1len)
            if padded - s1len > 1: toks += _zero_run(padded - s1len - 1)
        else: data = lz.random_data(rng, s1len) + bytes(padded - s1len)
        frames, tot, m = lzx.compress(data, wb, rng, tokens=toks, reset_interval=rframes, e8=e8, cuts=[s1len])
        plain = m.pop('plain'); assert tot == padded
        offs = [0]
        for fr in frames: offs.append(offs[-1] + len(fr))
        content = b''.join(frames) + rng.randbytes(rng.choice([0, 0, 5]))
        cver = rng.choice([1, 2])
        sysfiles = [(CONTENT, content), (CONTROL, control_data(cver, rframes, wb)), (SPANINFO, struct.pack('<Q', s1len)),
                    (TLIST, '{7FC28940-9D31-11D0'.encode('utf-16le')), (NAMELIST, struct.pack('<HH', 0x1E, 2) + ''.join('%c%s\0' % (len(s), s) for s in ('Uncompressed', 'MSCompressed')).encode('utf-16le'))]
        if rt != 'missing':
            sysfiles.append((RTABLE, reset_table(offs[:-1], s1len, offs[-1], {'entry4': 4, 'entry16': 16, 'entry12': 12, 'entry2': 2}.get(rt, 8), rng.choice([0, 0, 8]) if rtgap is None else rtgap,
                                                 max(1, len(frames) // 2 // rframes * rframes) if rt == 'short' else None)))
        m.update(reset_frames=rframes, reset_intervals=padded // rb, control_version=cver, reset_table=rt, stream_bytes=s1len, source='tokens' if toks else 'data')
        meta['lzx'] = m
        pos = 0
        order1 = one[:]; rng.shuffle(order1)
        for i in order1:
            members.append({'name': names[i], 'section': 1, 'offset': pos, 'data': plain[pos:pos + lens[i]]}); pos += lens[i]
    for i in range(k):
        if sec[i] == 1 and not lens[i]:
            members.append({'name': names[i], 'section': 1, 'offset': rng.choice([0, 0, s1len]) if s1len else 0, 'data': b''})
    # --- section 0 layout: system files and members in random order, random gaps
    pieces = [(nm, d, True) for nm, d in sysfiles] + [(names[i], lz.random_data(rng, lens[i]), False) for i in range(k) if sec[i] == 0]
    rng.shuffle(pieces); s0 = bytearray()
    for nm, d, is_sys in pieces:
        s0 += rng.randbytes(rng.choice([0, 0, 0, 3]))
        off = len(s0) if d or rng.random() < 0.5 else 0
        if is_sys: entries.append((nm, 0, off, len(d)))
        else: members.append({'name': nm, 'section': 0, 'offset': off, 'data': d})
        s0 += d
    ndirs = rng.choice([0, 0, 1, 3])
    entries += [(m['name'], m['section'], m['offset'], len(m['data'])) for m in members]
    entries += [(b'/' + nm.strip(b'/').split(b'/')[0] + b'_dir%d/' % j, 0, 0, 0) for j, nm in enumerate(names[:ndirs])]
    need = max(len(encint(len(n)) + n + encint(s) + encint(o) + encint(l)) for n, s, o, l in entries) + 0x14 + 4
    chunk_size = min(8192, max(need, chunk_size or rng.choice([22, need, need + rng.randint(0, 40), 256, 512, 4096, 4096, 8192, rng.randint(need, 8192)])))
    density = rng.choice([0, 1, 2, 2, 3, 5]) if density is None else density
    levels = rng.choice([0, 0, 1, 1, 2, 3]) if index_levels is None else index_levels
    if levels: chunk_size = min(8192, max(chunk_size, 2 * (need - 0x14) + 16))     # an index chunk must hold two entries
    version = version or rng.choice([2, 3, 3])
    fillstyle = rng.choice(['full', 'full', 'random', 'one'])
    fill = {'full': None, 'random': lambda: rng.randint(1, 12), 'one': lambda: rng.choice([1, 2])}[fillstyle]
    opts = dict(version=version, chunk_size=chunk_size, density=density, index_levels=levels, fill=fill, pmgi_first=rng.random() < 0.2,
                qr_exact=rng.random() < 0.2, timestamp=rng.getrandbits(32), language=rng.choice([0x409, 0x411, rng.getrandbits(16)]),
                hs0_pos=rng.choice(['before', 'before', 'end']), gaps=(rng.choice([0, 0, 8]), rng.choice([0, 0, 5]), rng.choice([0, 0, 100])))
    f, fields = build(entries, bytes(s0), **opts)
    members.sort(key=lambda m: sort_key(m['name']))
    meta.update(order=['f.chm'], version=version, chunk_size=chunk_size, density=density, depth=fields['depth'], nchunks=fields['nchunks'],
                index_levels_asked=levels, chunk_fill=fillstyle, pmgi_first=opts['pmgi_first'], qr_exact=opts['qr_exact'], hs0_pos=opts['hs0_pos'],
                nfiles=len(members), ndirs=ndirs, sec0_members=sum(1 for m in members if m['section'] == 0), sec1_members=sum(1 for m in members if m['section'] == 1),
                multibyte_names=sum(1 for m in members if any(b > 127 for b in m['name'])), zero_len_files=sum(1 for m in members if not m['data']),
                total_bytes=sum(len(m['data']) for m in members), expect={'header': fields, 'sysfiles': [n for n, _ in sysfiles]})
    return {'kind': 'chm', 'files': {'f.chm': f}, 'members': members, 'meta': meta}


def _zero_run(n):
    out = []
    while n:
        k = min(n, 257, FRAME)            # padding: literal 0 then matches at distance 1 (never crossing a frame: caller splits)
        if k < 2: out.append(('L', 0)); n -= 1
        else: out.append(('M', 1, k)); n -= k
    return out
