"""MSZIP: 'CK' + raw deflate (RFC 1951) per block of <= 32768 bytes, the 32 KiB
window carried over from block to block.

Two encoders:
  zlib_blocks(data)   Python's zlib (raw deflate, zdict = previous window) - an
                      independent encoder nobody here wrote.
  mszip_blocks(...)   our own, from LZ77 tokens: per deflate block a choice of
                      stored / fixed / dynamic Huffman, several deflate blocks
                      per MSZIP block, optimal or random complete Huffman codes,
                      code-length RLE with symbols 16/17/18 (always, never or at
                      random), HLIT/HDIST/HCLEN padded beyond the minimum.

What mszipd.c needs beyond RFC 1951: both literal and distance codes must be
*complete* (a lone 1-bit distance code is rejected), so blocks without matches
still carry a two-symbol distance code.  The history a block can reference is
the decoder's 32768-byte window image: block k overwrites window[0:len_k], the
rest keeps older data.  With full blocks that is "the previous 32 KiB"; after a
short block in mid-stream it is `window_after()` below.
"""
import zlib
from . import huff, lz
from .bits import LSBBytes

FRAME = 32768
LEN_BASE = [3, 4, 5, 6, 7, 8, 9, 10, 11, 13, 15, 17, 19, 23, 27, 31, 35, 43, 51, 59, 67, 83, 99, 115, 131, 163, 195, 227, 258]
LEN_XB = [0, 0, 0, 0, 0, 0, 0, 0, 1, 1, 1, 1, 2, 2, 2, 2, 3, 3, 3, 3, 4, 4, 4, 4, 5, 5, 5, 5, 0]
DIST_BASE = [1, 2, 3, 4, 5, 7, 9, 13, 17, 25, 33, 49, 65, 97, 129, 193, 257, 385, 513, 769, 1025, 1537, 2049, 3073, 4097, 6145, 8193, 12289, 16385, 24577]
DIST_XB = [0, 0, 0, 0, 1, 1, 2, 2, 3, 3, 4, 4, 5, 5, 6, 6, 7, 7, 8, 8, 9, 9, 10, 10, 11, 11, 12, 12, 13, 13]
CL_ORDER = [16, 17, 18, 0, 8, 7, 9, 6, 10, 5, 11, 4, 12, 3, 13, 2, 14, 1, 15]
FIXED_LIT = [8] * 144 + [9] * 112 + [7] * 24 + [8] * 8
FIXED_DIST = [5] * 32


def window_after(window, block):
    """decoder's window image after a block (window is b'' or 32768 bytes)"""
    return block + window[len(block):]


def zlib_blocks(data, level=6, sizes=None):
    out = []; window = b''; pos = 0
    sizes = list(sizes) if sizes else [FRAME] * ((len(data) + FRAME - 1) // FRAME)
    for s in sizes:
        chunk = data[pos:pos + s]; pos += s
        kw = {'zdict': window} if len(window) == FRAME else {}
        c = zlib.compressobj(level, zlib.DEFLATED, -15, **kw)
        out.append((b'CK' + c.compress(chunk) + c.flush(), len(chunk)))
        window = window_after(window, chunk)
    assert pos >= len(data)
    return out


def _len_sym(l):
    if l == 258: return 28
    i = max(k for k in range(28) if LEN_BASE[k] <= l)
    return i


def _dist_sym(d):
    return max(k for k in range(30) if DIST_BASE[k] <= d)


def _rle(seq, runs, rng):
    """code-length sequence -> [(sym, extra, nbits)] using 16/17/18 per `runs`:
    True = whenever possible, False = never, 'random' = coin flip per run"""
    out = []; i = 0; n = len(seq)
    while i < n:
        v = seq[i]; r = 1
        while i + r < n and seq[i + r] == v: r += 1
        want = runs is True or (runs == 'random' and rng.random() < 0.6)
        if want and v == 0 and r >= 3:
            r = min(r, 138)
            if runs == 'random': r = rng.randint(3, r)
            out.append((17, r - 3, 3) if r <= 10 else (18, r - 11, 7)); i += r; continue
        if want and i > 0 and seq[i - 1] == v and r >= 3:
            r = min(r, 6)
            if runs == 'random': r = rng.randint(3, r)
            out.append((16, r - 3, 2)); i += r; continue
        out.append((v, 0, 0)); i += 1
    return out


def put_block(bw, tokens, kind, final, rng=None, huffman='optimal', runs=True, pad_counts=False):
    """append one deflate block coding `tokens` (matches: 3..258 / 1..32768)"""
    bw.put(1 if final else 0, 1)
    if kind == 'stored':
        data = bytes(tokens)            # stored blocks are given their bytes, not tokens
        assert len(data) <= 65535
        bw.put(0, 2); bw.align(rng.getrandbits(1) if rng else 0)
        bw.raw(len(data).to_bytes(2, 'little') + (len(data) ^ 0xFFFF).to_bytes(2, 'little') + data)
        return
    if kind == 'fixed':
        bw.put(1, 2); ll, dl = FIXED_LIT, FIXED_DIST
    else:
        fl = {256: 1}; fd = {}
        for t in tokens:
            if t[0] == 'L': fl[t[1]] = fl.get(t[1], 0) + 1
            else:
                s = 257 + _len_sym(t[2]); fl[s] = fl.get(s, 0) + 1
                d = _dist_sym(t[1]); fd[d] = fd.get(d, 0) + 1
        ll = huff.lengths(fl, 286, 15, huffman, rng); dl = huff.lengths(fd, 30, 15, huffman, rng)
        nl = max(257, max(i for i, x in enumerate(ll) if x) + 1); nd = max(1, max(i for i, x in enumerate(dl) if x) + 1)
        if pad_counts and rng: nl = rng.randint(nl, 286); nd = rng.randint(nd, 30)
        syms = _rle(ll[:nl] + dl[:nd], runs, rng)
        fc = {}
        for s, _, _ in syms: fc[s] = fc.get(s, 0) + 1
        cl = huff.lengths(fc, 19, 7, huffman, rng); cc = huff.canonical(cl)
        nc = max(4, max(i for i, s in enumerate(CL_ORDER) if cl[s]) + 1)
        if pad_counts and rng: nc = rng.randint(nc, 19)
        bw.put(2, 2); bw.put(nl - 257, 5); bw.put(nd - 1, 5); bw.put(nc - 4, 4)
        for s in CL_ORDER[:nc]: bw.put(cl[s], 3)
        for s, ex, nb in syms:
            bw.huff(*cc[s]); bw.put(ex, nb)
    lc = huff.canonical(ll); dc = huff.canonical(dl)
    for t in tokens:
        if t[0] == 'L': bw.huff(*lc[t[1]])
        else:
            s = _len_sym(t[2]); bw.huff(*lc[257 + s]); bw.put(t[2] - LEN_BASE[s], LEN_XB[s])
            d = _dist_sym(t[1]); bw.huff(*dc[d]); bw.put(t[1] - DIST_BASE[d], DIST_XB[d])
    bw.huff(*lc[256])


def mszip_block(tokens, data, plan, rng=None, **opts):
    """one 'CK' block: `plan` = [(kind, nbytes)] partitions the block's bytes
    into deflate blocks (tokens must not cross those boundaries)"""
    bw = LSBBytes(); bw.raw(b'CK'); pos = 0
    groups = lz.partition(tokens, [n for _, n in plan]) if len(plan) > 1 else [tokens]
    for i, ((kind, n), g) in enumerate(zip(plan, groups)):
        put_block(bw, data[pos:pos + n] if kind == 'stored' else g, kind, i == len(plan) - 1, rng, **opts)
        pos += n
    if rng and not bw.aligned(): bw.align(rng.getrandbits(1))
    return bw.getvalue()


def mszip_blocks(src, mode='mixed', rng=None, sizes=None, trailing=0, max_block=FRAME + 6144):
    """src: bytes (tokenised here, block by block, against the decoder's window
    image) or a token list (matches never cross multiples of 32768, offsets <=
    32768, blocks are then the 32768-byte frames).  mode: 'zlib', 'stored',
    'fixed', 'dynamic' or 'mixed' (random kinds, sub-blocks, Huffman styles and
    RLE use - needs rng).  `trailing` random bytes may follow each deflate
    stream (mszipd skips to the next 'CK').  A block that would exceed
    max_block bytes (cabd's CAB_INPUTMAX; bad random codes can do that) is
    re-coded as stored.  Returns [(payload, usize)]."""
    if isinstance(src, (bytes, bytearray)):
        data = bytes(src)
        if mode == 'zlib': return zlib_blocks(data, rng.choice([1, 6, 9]) if rng else 6, sizes)
        sizes = list(sizes) if sizes else [FRAME] * ((len(data) + FRAME - 1) // FRAME)
        per = []; window = b''; pos = 0
        for s in sizes:
            chunk = data[pos:pos + s]; pos += s
            ref = window if len(window) == FRAME else b''
            per.append((lz.greedy_tokens(chunk, FRAME, 3, 258, ref=ref, lazy_skip=0.2 if rng else 0, rng=rng), chunk))
            window = window_after(window, chunk)
    else:
        data = lz.expand(src); n = len(data)
        per = list(zip(lz.partition(src, [min(FRAME, n - p) for p in range(0, n, FRAME)]),
                       [data[p:p + FRAME] for p in range(0, n, FRAME)]))
    out = []
    for toks, chunk in per:
        opts = {}
        if mode == 'mixed':
            k = rng.choice([1, 1, 1, 2, 3]); n = len(chunk)
            cuts = sorted(rng.sample(range(1, n), min(k - 1, max(0, n - 1)))) if n > 1 else []
            bounds = [0] + cuts + [n]
            plan = [(rng.choice(['stored', 'fixed', 'dynamic', 'dynamic']), b - a) for a, b in zip(bounds, bounds[1:])]
            toks = lz.split_at(toks, cuts, 3, chunk)
            opts = dict(huffman=rng.choice(['optimal', 'random']), runs=rng.choice([True, False, 'random']),
                        pad_counts=rng.random() < 0.3)
        else:
            plan = [(mode, len(chunk))]
        p = mszip_block(toks, chunk, plan, rng, **opts)
        if len(p) + trailing > max_block: p = mszip_block(toks, chunk, [('stored', len(chunk))], rng)
        if trailing and rng: p += bytes(rng.choice(b'\0\xffCA') for _ in range(rng.randint(0, trailing)))
        out.append((p, len(chunk)))
    return out
