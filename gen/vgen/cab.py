"""Microsoft Cabinet writer: single cabinets and makecab-style split sets.

build_cab(folders, files, ...)   one cabinet from explicit parts
build_set(folders, files, cuts)  one logical cabinet split into parts
compress_folder(data, comp, ...) folder data -> (comp_type word, blocks, meta)
random_case(rng, size)           random plan -> files + expected members

Layout (cab.h / cabd.c): CFHEADER(36) [cbCFHeader u16, cbCFFolder u8, cbCFData u8,
header reserve] [prev name\\0 info\\0] [next name\\0 info\\0], CFFOLDER(8)+reserve
each, CFFILE(16)+name\\0 each, then CFDATA(8)+reserve+payload blocks.
Checksums as cabd_checksum: xor of LE dwords, a 1..3 byte tail folded big-end
first; block checksum = cksum(cbData,cbUncomp words) seeded with cksum(payload).
libmspack leaves the per-block reserve out of the sum (Microsoft includes it;
identical when the reserve bytes are zero).  Checksum 0 means "none".

Split sets (conventions read off cabextract/test/cabs/split-*.cab and
cabd_merge / cabd_can_merge_folders / cabd_sys_read_block):
* a folder that continues into the next cabinet always has its last data block
  split: the first part carries cbUncomp = 0, the remainder (with the real
  cbUncomp) is the first block of the first folder of the next cabinet; each
  part has its own checksum; cCFData counts every part;
* every file of that folder whose data reaches into the split block is listed
  at the end of the first cabinet with iFolder = CONTINUED_TO_NEXT and at the
  start of the next one with CONTINUED_FROM_PREV (PREV_AND_NEXT if it also
  reaches the following split); files complete in earlier blocks are listed
  once, normally.
"""
import struct
from . import deflate, lz, lzx, qtm, hist_add, pick_size

FROM_PREV, TO_NEXT, PREV_AND_NEXT = 0xFFFD, 0xFFFE, 0xFFFF
NONE, MSZIP, QUANTUM, LZX = 0, 1, 2, 3


def checksum(data, seed=0):
    n = len(data) & ~3; ck = seed
    for (w,) in struct.iter_unpack('<I', data[:n]): ck ^= w
    ul = 0; tail = data[n:]
    if len(tail) == 3: ul = tail[0] << 16 | tail[1] << 8 | tail[2]
    elif len(tail) == 2: ul = tail[0] << 8 | tail[1]
    elif len(tail) == 1: ul = tail[0]
    return ck ^ ul


def data_block(payload, usize, reserve=b'', cksum=True):
    hdr = struct.pack('<HH', len(payload), usize)
    ck = checksum(hdr, checksum(payload)) if cksum else 0
    return struct.pack('<I', ck) + hdr + reserve + payload


def dos_date(y, m, d): return ((y - 1980) << 9) | (m << 5) | d
def dos_time(h, m, s): return (h << 11) | (m << 5) | (s >> 1)


def build_cab(folders, files, set_id=0, set_index=0, reserve=None, prev=None, next=None,
              cksum=lambda fi, bi: True, resv_fill=lambda n: bytes(n), version=(3, 1), flags_extra=0):
    """folders: [{'comp': word, 'blocks': [(payload, usize)]}]
    files: [{'name': bytes, 'length', 'offset', 'folder': index or CONTINUED code,
             'date': (y,m,d), 'time': (h,m,s), 'attribs'}]
    reserve: None or (header_reserve_bytes, folder_reserve_size, data_reserve_size)
    prev/next: None or (cabinet name bytes, disk label bytes)"""
    flags = flags_extra | (1 if prev else 0) | (2 if next else 0) | (4 if reserve is not None else 0)
    hres, fres, dres = reserve if reserve is not None else (b'', 0, 0)
    ext = struct.pack('<HBB', len(hres), fres, dres) + hres if reserve is not None else b''
    for p in (prev, next):
        if p: ext += p[0] + b'\0' + p[1] + b'\0'
    fent = b''
    for f in files:
        fent += struct.pack('<IIHHHH', f['length'], f['offset'], f['folder'], dos_date(*f.get('date', (1980, 1, 1))),
                            dos_time(*f.get('time', (0, 0, 0))), f.get('attribs', 0x20)) + f['name'] + b'\0'
    files_off = 36 + len(ext) + len(folders) * (8 + fres)
    off = files_off + len(fent); fold = b''; data = b''
    for fi, fo in enumerate(folders):
        fold += struct.pack('<IHH', off + len(data), len(fo['blocks']), fo['comp']) + resv_fill(fres)
        for bi, (payload, usize) in enumerate(fo['blocks']):
            data += data_block(payload, usize, resv_fill(dres), cksum(fi, bi))
    total = off + len(data)
    hdr = struct.pack('<4sIIIIIBBHHHHH', b'MSCF', 0, total, 0, files_off, 0, version[0], version[1],
                      len(folders), len(files), flags, set_id, set_index)
    return hdr + ext + fold + fent + data


def build_set(folders, files, cuts, names, **kw):
    """split the logical cabinet (files[i]['folder'] = folder index, files sorted
    by folder then offset) into len(cuts)+1 cabinets.  cuts (in stream order):
    ('folder', j) = next cabinet starts with folder j;  ('block', j, b, c) = cut
    inside payload of block b of folder j after c bytes (0 <= c <= len).
    names: [(cabinet name, disk label)] per part.  Returns [cabinet bytes]."""
    nparts = len(cuts) + 1; part = 0
    parts = [[] for _ in range(nparts)]            # per part: [(j, [(piece, usize)])]
    span = {}; split_at = {}                       # j -> [first, last part]; (j, part) -> S
    for j, fo in enumerate(folders):
        part += sum(1 for c in cuts if c[0] == 'folder' and c[1] == j)
        span[j] = [part, part]; ustart = 0

        def add(piece, u):
            if not parts[part] or parts[part][-1][0] != j: parts[part].append((j, []))
            parts[part][-1][1].append((piece, u))
        for b, (payload, usize) in enumerate(fo['blocks']):
            prevc = 0
            for c in sorted(c[3] for c in cuts if c[0] == 'block' and c[1] == j and c[2] == b):
                add(payload[prevc:c], 0); split_at[(j, part)] = ustart; part += 1; prevc = c
            add(payload[prevc:], usize); ustart += usize
        span[j][1] = part
    out = []
    for i in range(nparts):
        cf = []; cfiles = []
        for local, (j, blocks) in enumerate(parts[i]):
            a, z = span[j]
            cf.append({'comp': folders[j]['comp'], 'blocks': blocks})
            for f in files:
                if f['folder'] != j: continue
                end = f['offset'] + f['length']
                tail_here = i < z and end > split_at[(j, i)]
                if i == a: code = TO_NEXT if tail_here else local
                elif end > split_at[(j, i - 1)]: code = PREV_AND_NEXT if tail_here else FROM_PREV
                else: continue
                cfiles.append(dict(f, folder=code))
        out.append(build_cab(cf, cfiles, set_index=i, prev=names[i - 1] if i else None,
                             next=names[i + 1] if i + 1 < nparts else None, **kw))
    return out


def compress_folder(data, comp, rng, level=None, **o):
    """data -> (comp_type word, [(payload, usize)], meta) with random coding choices"""
    meta = {}
    if comp == NONE:
        sizes = []; n = len(data)
        while n: s = rng.choice([32768, 32768, rng.randint(1, 32768)]) if o.get('odd_blocks') else 32768; s = min(s, n); sizes.append(s); n -= s
        pos = 0; blocks = []
        for s in sizes: blocks.append((data[pos:pos + s], s)); pos += s
        return NONE, blocks, {'blocks': len(blocks)}
    if comp == MSZIP:
        mode = o.get('mode') or rng.choice(['zlib', 'mixed', 'mixed', 'stored', 'fixed', 'dynamic'])
        sizes = None
        if o.get('odd_blocks') and len(data) > 1:
            sizes = []; n = len(data)
            while n: s = min(n, rng.choice([32768, 32768, rng.randint(1, 32768)])); sizes.append(s); n -= s
        blocks = deflate.mszip_blocks(data, mode, rng, sizes, trailing=rng.choice([0, 0, 3]))
        return MSZIP, blocks, {'mszip_mode': mode, 'blocks': len(blocks), 'odd_blocks': bool(sizes)}
    if comp == QUANTUM:
        wb = level or rng.randint(10, 21)
        blocks, meta = qtm.compress(data, wb, rng, **o)
        return QUANTUM | rng.randint(1, 7) << 4 | wb << 8, blocks, meta
    wb = level or rng.randint(15, 21)
    frames, total, meta = lzx.compress(data, wb, rng, **o)
    return LZX | wb << 8, [(f, min(32768, total - 32768 * i)) for i, f in enumerate(frames)], meta
