"""Microsoft Cabinet writer: single cabinets and makecab-style split sets.

build_cab(folders, files, ...)   one cabinet from explicit parts
build_set(folders, files, cuts)  one logical cabinet split into parts
compress_folder(data, comp, ...) folder data -> (comp_type word, blocks, meta)
random_case(rng, size)           random plan -> files + expected members

Layout (cab.h / cabd.c): CFHEADER(36) [cbCFHeader u16, cbCFFolder u8, cbCFData u8,
header reserve] [prev name\\0 info\\0] [next name\\0 info\\0], CFFOLDER(8)+reserve
each, CFFILE(16)+name\\0 each, then CFDATA(8)+reserve+payload blocks.
Checksums as cabd_checksum: xor of LE dwords, a 1..3 byte tail folded big-end
first; block checksum = cksum(cbData,cbUncomp words) seeded with cksum(payload).
libmspack leaves the per-block reserve out of the sum (Microsoft includes it;
identical when the reserve bytes are zero).  Checksum 0 means "none".

Split sets (conventions read off cabextract/test/cabs/split-*.cab and
cabd_merge / cabd_can_merge_folders / cabd_sys_read_block):
* a folder that continues into the next cabinet always has its last data block
  split: the first part carries cbUncomp = 0, the remainder (with the real
  cbUncomp) is the first block of the first folder of the next cabinet; each
  part has its own checksum; cCFData counts every part;
* every file of that folder whose data reaches into the split block is listed
  at the end of the first cabinet with iFolder = CONTINUED_TO_NEXT and at the
  start of the next one with CONTINUED_FROM_PREV (PREV_AND_NEXT if it also
  reaches the following split); files complete in earlier blocks are listed
  once, normally.
"""
import struct
from . import deflate, lz, lzx, qtm, pick_size

FROM_PREV, TO_NEXT, PREV_AND_NEXT = 0xFFFD, 0xFFFE, 0xFFFF
NONE, MSZIP, QUANTUM, LZX = 0, 1, 2, 3


def checksum(data, seed=0):
    n = len(data) & ~3; ck = seed
    for (w,) in struct.iter_unpack('<I', data[:n]): ck ^= w
    ul = 0; tail = data[n:]
    if len(tail) == 3: ul = tail[0] << 16 | tail[1] << 8 | tail[2]
    elif len(tail) == 2: ul = tail[0] << 8 | tail[1]
    elif len(tail) == 1: ul = tail[0]
    return ck ^ ul


def data_block(payload, usize, reserve=b'', cksum=True):
    hdr = struct.pack('<HH', len(payload), usize)
    ck = checksum(hdr, checksum(payload)) if cksum else 0
    return struct.pack('<I', ck) + hdr + reserve + payload


def dos_date(y, m, d): return ((y - 1980) << 9) | (m << 5) | d
def dos_time(h, m, s): return (h << 11) | (m << 5) | (s >> 1)


def build_cab(folders, files, set_id=0, set_index=0, reserve=None, prev=None, next=None,
              cksum=lambda fi, bi: True, resv_fill=lambda n: bytes(n), version=(3, 1), flags_extra=0):
    """folders: [{'comp': word, 'blocks': [(payload, usize)]}]
    files: [{'name': bytes, 'length', 'offset', 'folder': index or CONTINUED code,
             'date': (y,m,d), 'time': (h,m,s), 'attribs'}]
    reserve: None or (header_reserve_bytes, folder_reserve_size, data_reserve_size)
    prev/next: None or (cabinet name bytes, disk label bytes)"""
    flags = flags_extra | (1 if prev else 0) | (2 if next else 0) | (4 if reserve is not None else 0)
    hres, fres, dres = reserve if reserve is not None else (b'', 0, 0)
    ext = struct.pack('<HBB', len(hres), fres, dres) + hres if reserve is not None else b''
    for p in (prev, next):
        if p: ext += p[0] + b'\0' + p[1] + b'\0'
    fent = b''
    for f in files:
        fent += struct.pack('<IIHHHH', f['length'], f['offset'], f['folder'], dos_date(*f.get('date', (1980, 1, 1))),
                            dos_time(*f.get('time', (0, 0, 0))), f.get('attribs', 0x20)) + f['name'] + b'\0'
    files_off = 36 + len(ext) + len(folders) * (8 + fres)
    off = files_off + len(fent); fold = b''; data = b''
    for fi, fo in enumerate(folders):
        fold += struct.pack('<IHH', off + len(data), len(fo['blocks']), fo['comp']) + resv_fill(fres)
        for bi, (payload, usize) in enumerate(fo['blocks']):
            data += data_block(payload, usize, resv_fill(dres), cksum(fi, bi))
    total = off + len(data)
    hdr = struct.pack('<4sIIIIIBBHHHHH', b'MSCF', 0, total, 0, files_off, 0, version[0], version[1],
                      len(folders), len(files), flags, set_id, set_index)
    return hdr + ext + fold + fent + data


def parse(d):
    """cabinet bytes -> dict (inverse of build_cab, for tests and fixtures)"""
    _, _, size, _, foff, _, vmin, vmaj, nfold, nfiles, flags, setid, idx = struct.unpack_from('<4sIIIIIBBHHHHH', d); p = 36
    hres = b''; fres = dres = 0
    if flags & 4: n, fres, dres = struct.unpack_from('<HBB', d, p); hres = d[p + 4:p + 4 + n]; p += 4 + n

    def z():
        nonlocal p
        e = d.index(b'\0', p); s = d[p:e]; p = e + 1; return s
    prev = (z(), z()) if flags & 1 else None; nxt = (z(), z()) if flags & 2 else None
    folders = []
    for _ in range(nfold):
        off, nb, ct = struct.unpack_from('<IHH', d, p); folders.append({'comp': ct, 'blocks': [], 'reserve': d[p + 8:p + 8 + fres], '_': (off, nb)}); p += 8 + fres
    files = []
    for _ in range(nfiles):
        ln, fo, fi, dt, tm, at = struct.unpack_from('<IIHHHH', d, p); p += 16
        files.append({'name': z(), 'length': ln, 'offset': fo, 'folder': fi, 'date': ((dt >> 9) + 1980, dt >> 5 & 15, dt & 31),
                      'time': (tm >> 11, tm >> 5 & 63, (tm & 31) * 2), 'attribs': at})
    for f in folders:
        q, nb = f.pop('_')
        for _ in range(nb):
            ck, cl, ul = struct.unpack_from('<IHH', d, q); f['blocks'].append((d[q + 8 + dres:q + 8 + dres + cl], ul)); q += 8 + dres + cl
    return {'folders': folders, 'files': files, 'set_id': setid, 'set_index': idx, 'flags': flags, 'version': (vmin, vmaj),
            'reserve': (hres, fres, dres) if flags & 4 else None, 'prev': prev, 'next': nxt, 'size': size}


def join_set(cabs):
    """parsed cabinets of a split set -> (logical folders, files, cuts) as build_set takes them"""
    lf = []; cuts = []; files = []; seen = set(); open_split = False
    for i, c in enumerate(cabs):
        base = len(lf) - (1 if open_split else 0)
        for k, fo in enumerate(c['folders']):
            if k or not open_split:
                if not k and i: cuts.append(('folder', len(lf)))
                lf.append({'comp': fo['comp'], 'blocks': []})
            for pl, ul in fo['blocks']:
                bl = lf[-1]['blocks']
                if bl and bl[-1][1] == 0: cuts.append(('block', len(lf) - 1, len(bl) - 1, len(bl[-1][0]))); bl[-1] = (bl[-1][0] + pl, ul)
                else: bl.append((pl, ul))
        open_split = lf[-1]['blocks'][-1][1] == 0
        for f in c['files']:
            j = base if f['folder'] in (FROM_PREV, PREV_AND_NEXT) else len(lf) - 1 if f['folder'] == TO_NEXT else base + f['folder']
            if (f['name'], j) not in seen: seen.add((f['name'], j)); files.append(dict(f, folder=j))
    return lf, files, cuts


def build_set(folders, files, cuts, names, **kw):
    """split the logical cabinet (files[i]['folder'] = folder index, files sorted
    by folder then offset) into len(cuts)+1 cabinets.  cuts (in stream order):
    ('folder', j) = next cabinet starts with folder j;  ('block', j, b, c) = cut
    inside payload of block b of folder j after c bytes (0 <= c <= len).
    names: [(cabinet name, disk label)] per part.  Returns [cabinet bytes]."""
    nparts = len(cuts) + 1; part = 0
    parts = [[] for _ in range(nparts)]            # per part: [(j, [(piece, usize)])]
    span = {}; split_at = {}                       # j -> [first, last part]; (j, part) -> S
    for j, fo in enumerate(folders):
        part += sum(1 for c in cuts if c[0] == 'folder' and c[1] == j)
        span[j] = [part, part]; ustart = 0
        parts[part].append((j, []))                # the folder starts here even if it has no blocks

        def add(piece, u):
            if parts[part][-1:] == [] or parts[part][-1][0] != j: parts[part].append((j, []))
            parts[part][-1][1].append((piece, u))
        for b, (payload, usize) in enumerate(fo['blocks']):
            prevc = 0
            for c in sorted(c[3] for c in cuts if c[0] == 'block' and c[1] == j and c[2] == b):
                add(payload[prevc:c], 0); split_at[(j, part)] = ustart; part += 1; prevc = c
            add(payload[prevc:], usize); ustart += usize
        span[j][1] = part
    out = []
    for i in range(nparts):
        cf = []; cfiles = []
        for local, (j, blocks) in enumerate(parts[i]):
            a, z = span[j]
            cf.append({'comp': folders[j]['comp'], 'blocks': blocks})
            for f in files:
                if f['folder'] != j: continue
                end = f['offset'] + f['length']
                tail_here = i < z and end > split_at[(j, i)]
                if i == a: code = TO_NEXT if tail_here else local
                elif end > split_at[(j, i - 1)]: code = PREV_AND_NEXT if tail_here else FROM_PREV
                else: continue
                cfiles.append(dict(f, folder=code))
        kwi = dict(kw)
        if isinstance(kw.get('reserve'), list): kwi['reserve'] = kw['reserve'][i]      # per-cabinet reserve sizes
        out.append(build_cab(cf, cfiles, set_index=i, prev=names[i - 1] if i else None,
                             next=names[i + 1] if i + 1 < nparts else None, **kwi))
    return out


def make_folder(rng, n, comp, level=None, data=None, odd_blocks=False):
    """folder of n bytes (or of `data`) -> (comp_type word, blocks, plaintext, meta).
    Content is either random data run through a matcher or a random token plan
    (repeated offsets, maximal matches, window-limit offsets) expanded."""
    plan = data is None and comp != NONE and rng.random() < 0.5      # token-driven?
    if data is None and not plan: data = lz.random_data(rng, n)
    meta = {'method': ['none', 'mszip', 'quantum', 'lzx'][comp], 'source': 'tokens' if plan else 'data'}

    def sizes():
        out = []; left = n if data is None else len(data)
        while left: s = min(left, rng.choice([32768, 32768, rng.randint(1, 32768)]) if odd_blocks else 32768); out.append(s); left -= s
        return out
    if comp == NONE:
        pos = 0; blocks = []
        for s in sizes(): blocks.append((data[pos:pos + s], s)); pos += s
        meta['odd_blocks'] = odd_blocks; word = NONE
    elif comp == MSZIP:
        if plan:
            src = lz.random_tokens(rng, n, 32768, 3, 258, lit=bytes(range(97, 123))); data = lz.expand(src)
            mode = rng.choice(['mixed', 'mixed', 'fixed', 'dynamic']); sz = None
        else:
            src = data; mode = rng.choice(['zlib', 'mixed', 'mixed', 'stored', 'fixed', 'dynamic'])
            sz = sizes() if odd_blocks else None
        blocks = deflate.mszip_blocks(src, mode, rng, sz, trailing=rng.choice([0, 0, 3]))
        meta.update(mszip_mode=mode, odd_blocks=bool(sz)); word = MSZIP
    elif comp == QUANTUM:
        wb = level or rng.randint(10, 21)
        toks = lz.random_tokens(rng, n, qtm.max_offset(wb), 3, 259, window=1 << wb) if plan else None
        blocks, m = qtm.compress(data, wb, rng, tokens=toks); meta.update(m)
        if plan: data = lz.expand(toks)
        word = QUANTUM | rng.randint(1, 7) << 4 | wb << 8
    else:
        wb = level or rng.randint(15, 21)
        toks = lz.random_tokens(rng, n, lzx.max_offset(wb), 2, 257, window=1 << wb) if plan else None
        frames, total, m = lzx.compress(data, wb, rng, tokens=toks, max_frame=32768 + 6144)
        data = m.pop('plain'); meta.update(m); word = LZX | wb << 8
        blocks = [(f, min(32768, total - 32768 * i)) for i, f in enumerate(frames)]
    meta['nblocks'] = len(blocks)
    return word, blocks, data, meta


def _name(rng, used):
    while True:
        k = rng.random()
        if k < 0.6: nm = ''.join(rng.choice('abcXYZ019_-. ') for _ in range(rng.randint(1, 12))).encode(); utf = False
        elif k < 0.75: nm = b'\\'.join(_name(rng, set())[0] for _ in range(rng.randint(2, 4)))[:255]; utf = False
        elif k < 0.9: nm = ''.join(rng.choice('a\u00e9\u00df\u4e2d\U0001f600/\\.') for _ in range(rng.randint(1, 20))).encode(); utf = True
        elif k < 0.95: nm = bytes(rng.randint(1, 255) for _ in range(rng.randint(1, 30))); utf = False
        else: nm = bytes(rng.choice(b'abcdefgh') for _ in range(rng.choice([254, 255]))); utf = False
        if nm and nm not in used: used.add(nm); return nm, utf


def _cut_points(rng, n):
    """member boundaries: block/frame multiples, their neighbours, anything"""
    c = rng.random()
    if c < 0.3 and n >= 32768: return rng.randrange(32768, n + 1, 32768)
    if c < 0.45 and n >= 32768: return min(n, max(0, rng.randrange(32768, n + 1, 32768) + rng.choice([-1, 1])))
    return rng.randint(0, n)


def random_case(rng, size='small', folders=None, comp=None, parts=None, embed=None, avoid_defects=False, **_):
    """random cabinet, split set or (embed) blob with cabinets for search().
    Cases predicted to trip a known defect of the pinned libmspack are listed in
    meta['quirks'] / meta['hidden_by_find_defect'] (a few are made on purpose);
    avoid_defects=True generates none of them."""
    if embed is None: embed = rng.random() < 0.08
    if embed:
        blob = b''; members = []; sub = []; hidden = []
        for k in range(rng.randint(1, 3)):
            c = random_case(rng, 'small', parts=1, embed=False, avoid_defects=avoid_defects)
            junk = rng.randbytes(rng.choice([0, 1, 5, 300])) + rng.choice([b'', b'', b'', b'M', b'MS', b'MSC'])
            if avoid_defects: junk = junk.rstrip(b'MSC')
            if junk.endswith((b'M', b'MS', b'MSC')): hidden.append(k)     # cabd_find defect in the pinned library
            members += [dict(m, cab=k) for m in c['members']]
            blob += junk + c['files'][c['meta']['order'][0]]; sub.append(c['meta'])
        blob += rng.randbytes(rng.choice([0, 0, 7, 40]))
        return {'kind': 'cab', 'files': {'blob.bin': blob}, 'members': members,
                'meta': {'open': 'search', 'order': ['blob.bin'], 'embedded': len(sub), 'hidden_by_find_defect': hidden, 'sub': sub,
                         'quirks': [q for sm in sub for q in sm.get('quirks', [])]}}
    nf = folders or rng.choice([1, 1, 2, 3]); total = pick_size(rng, size)
    bounds = sorted(rng.randint(0, total) for _ in range(nf - 1)); sizes = [b - a for a, b in zip([0] + bounds, bounds + [total])]
    lf = []; files = []; members = []; used = set(); fmeta = []; quirks = []
    for j, n in enumerate(sizes):
        c = comp if comp is not None else rng.choice([NONE, MSZIP, MSZIP, QUANTUM, LZX, LZX])
        while True:
            word, blocks, plain, m = make_folder(rng, n, c, odd_blocks=rng.random() < 0.2)
            d1 = c == LZX and len(blocks) > 1 and blocks[-1][1] < 32768 and sum(len(p) for p, _ in blocks[:-1]) % 4096 == 0
            if not (d1 and avoid_defects): break
        cuts = [_cut_points(rng, n) for _ in range(rng.choice([0, 0, 1, 2, 4]))]
        wraps = m.pop('wraps', [])
        if wraps and not avoid_defects and rng.random() < 0.15: p, w = rng.choice(wraps); cuts.append(rng.randint(p + 1, w - 1))
        if avoid_defects: cuts = [x for x in cuts if not any(p < x < w for p, w in wraps)]
        cuts.sort()
        for k in range(rng.choice([0, 0, 0, 1, 2])): cuts.insert(rng.randint(0, len(cuts)), None)   # zero-length files
        pos = 0; spans = []
        for cpt in cuts + [n]:
            if cpt is None: spans.append((pos, 0))
            else: spans.append((pos, cpt - pos)); pos = cpt
        for off, ln in spans:
            nm, utf = _name(rng, used)
            f = {'name': nm, 'length': ln, 'offset': off, 'folder': j, 'attribs': rng.choice([0x20, 0, rng.getrandbits(6) & 0x67]) | (0x80 if utf else 0),
                 'date': (1980 + rng.getrandbits(7), rng.choice([1, 12, rng.getrandbits(4)]), rng.getrandbits(5)),
                 'time': (rng.getrandbits(5), rng.getrandbits(6), 2 * rng.getrandbits(5))}
            files.append(f); members.append(dict(f, data=plain[off:off + ln]))
        m['members'] = len(spans)
        if any(p < o + l < w for p, w in wraps for o, l in spans[:-1]): quirks.append('qtm-wrap-request:folder%d' % j)
        if d1: quirks.append('lzx-last-frame-buffer:folder%d' % j)
        lf.append({'comp': word, 'blocks': blocks}); fmeta.append(m)
    resv = None
    if rng.random() < 0.4: resv = (rng.randbytes(rng.choice([0, 4, 20, 300])), rng.choice([0, 1, 8, 50]), rng.choice([0, 2, 10]))
    nock = set((j, b) for j, fo in enumerate(lf) for b in range(len(fo['blocks'])) if rng.random() < rng.choice([0, 0, 0.3, 1]))
    kw = dict(set_id=rng.getrandbits(16), reserve=resv, cksum=lambda fi, bi: True, resv_fill=rng.randbytes if rng.random() < 0.5 else (lambda k: bytes(k)))
    k = parts or rng.choice([1, 1, 1, 2, 3, 4, 5])
    cand = [('folder', j) for j in range(1, nf)]
    for j, fo in enumerate(lf):
        for b, (p, u) in enumerate(fo['blocks']):
            cand += [('block', j, b, rng.choice([0, len(p), rng.randint(0, len(p))])) for _ in range(2)]
    cuts = sorted(set(rng.sample(cand, min(k - 1, len(cand)))), key=lambda c: (c[1], -1, -1) if c[0] == 'folder' else c[1:])
    names = [(('part%d.cab' % (i + 1)).encode(), rng.choice([b'', b'Disk %d' % (i + 1)])) for i in range(len(cuts) + 1)]
    resv_parts = None
    if cuts:
        kw['cksum'] = lambda fi, bi: True       # folder/block indices differ per part: keep all checksums
        if rng.random() < 0.5:
            # every cabinet of a set has its own CFHEADER reserve sizes (header / folder / data)
            resv_parts = [rng.choice([None, (rng.randbytes(rng.choice([0, 4, 20])), rng.choice([0, 1, 8]), rng.choice([0, 2, 3, 10]))]) for _ in range(len(cuts) + 1)]
            kw['reserve'] = resv_parts
        cabs = build_set(lf, files, cuts, names, **kw)
    else:
        kw['cksum'] = lambda fi, bi: (fi, bi) not in nock
        first_index = rng.getrandbits(16)
        cabs = [build_cab(lf, files, set_index=first_index, **kw)]
    order = [n.decode() for n, _ in names[:len(cabs)]]; np = len(cabs)
    rp = (lambda i: resv_parts[i]) if resv_parts is not None else (lambda i: resv)
    expect = {'folders': [(fo['comp'], len(fo['blocks'])) for fo in lf], 'cabs': [
        {'set': kw['set_id'], 'idx': i if np > 1 else first_index, 'hres': len(rp(i)[0]) if rp(i) else 0,
         'flags': (1 if i else 0) | (2 if i + 1 < np else 0) | (4 if rp(i) else 0),
         'prev': names[i - 1][0] if i else None, 'previnfo': names[i - 1][1] if i else None,
         'next': names[i + 1][0] if i + 1 < np else None, 'nextinfo': names[i + 1][1] if i + 1 < np else None} for i in range(np)]}
    meta = {'open': 'open', 'order': order, 'parts': len(cabs), 'cuts': [c[0] + (':interior' if c[0] == 'block' and 0 < c[3] < len(lf[c[1]]['blocks'][c[2]][0]) else ':edge' if c[0] == 'block' else '') for c in cuts],
            'nfolders': nf, 'nfiles': len(files), 'zero_len_files': sum(1 for f in files if not f['length']),
            'reserve': ('per-part:' + ','.join('none' if r is None else 'h%d/f%d/d%d' % (len(r[0]), r[1], r[2]) for r in resv_parts)) if resv_parts is not None
                       else 'none' if resv is None else 'h%d/f%d/d%d' % (len(resv[0]), resv[1], resv[2]),
            'unchecksummed_blocks': 0 if cuts else len(nock), 'folders': fmeta, 'quirks': quirks,
            'total_bytes': total, 'exact_32k_multiple': total > 0 and total % 32768 == 0, 'expect': expect}
    return {'kind': 'cab', 'files': dict(zip(order, cabs)), 'members': members, 'meta': meta}
