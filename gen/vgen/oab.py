"""Offline Address Book files: full files (LZX DELTA or stored blocks) and
incremental patches (LZX DELTA against reference data from the base file).

oabd.c layout, all fields u32 LE:
 full : 3, 1, block_max, target_size; per block: flags (0 stored / 1 LZX),
        compressed size, uncompressed size, CRC; then the data.
 patch: 3, 2, block_max, source_size, target_size, source_crc, target_crc; per
        block: patch size, target size, source size, CRC; then LZX DELTA data
        whose reference data is the next `source size` bytes of the base file.
Each compressed block is its own LZX DELTA stream of `uncompressed size`
bytes; the window is the smallest 2^17..2^25 holding the block (full) or
round32k(source size) + target size (patch).  Bytes after the LZX data up to the
stated compressed size are skipped.  CRC is crc32 with initial value
0xFFFFFFFF and no final inversion, over the block's output; it is checked for
compressed blocks only.
"""
import struct, zlib
from . import lz, lzx, pick_size


def crc(data):
    return zlib.crc32(data) ^ 0xFFFFFFFF


def window_bits(size):
    wb = 17
    while wb < 25 and (1 << wb) < size: wb += 1
    return wb


def full_file(blocks, block_max=None, target_size=None):
    """blocks: [{'data': plaintext, 'payload': bytes, 'lzx': bool, 'crc': optional}]"""
    total = sum(len(b['data']) for b in blocks)
    out = struct.pack('<IIII', 3, 1, block_max if block_max is not None else max([len(b['data']) for b in blocks] + [0]),
                      total if target_size is None else target_size)
    for b in blocks:
        out += struct.pack('<IIII', 1 if b['lzx'] else 0, len(b['payload']), len(b['data']), b.get('crc', crc(b['data']))) + b['payload']
    return out


def patch_file(blocks, source_size, block_max=None, source_crc=0, target_crc=0):
    """blocks: [{'data', 'payload', 'source_size'}]"""
    total = sum(len(b['data']) for b in blocks)
    bm = block_max if block_max is not None else max([max(len(b['data']), b['source_size']) for b in blocks] + [0])
    out = struct.pack('<IIIIIII', 3, 2, bm, source_size, total, source_crc, target_crc)
    for b in blocks:
        out += struct.pack('<IIII', len(b['payload']), len(b['data']), b['source_size'], crc(b['data'])) + b['payload']
    return out


def lzx_block(rng, n, ref=b'', wb=None, data=None):
    """one LZX DELTA block of n bytes -> (plaintext, payload, meta)"""
    wb = wb or window_bits(((len(ref) + 32767) & ~32767) + n if ref else n)
    toks = None
    if data is None and rng.random() < 0.6:
        toks = lz.random_tokens(rng, n, lzx.max_offset(wb), 2, rng.choice([257, 300, 1400, 6000, 32768]), ref_len=len(ref),
                                p_match=rng.choice([0.35, 0.1]))
    elif data is None:
        data = lz.random_data(rng, n)
        if ref and rng.random() < 0.7:           # target resembles the source, as real patches do
            k = rng.randint(0, len(ref)); data = (ref[k:k + n] + data)[:n]
    frames, total, m = lzx.compress(data, wb, rng, tokens=toks, delta=True, ref=ref)
    plain = m.pop('plain'); m['source'] = 'tokens' if toks else 'data'
    return plain, b''.join(frames) + rng.randbytes(rng.choice([0, 0, 0, 1, 2, 9])), m


def random_case(rng, size='small', patch=None, **_):
    if patch is None: patch = rng.random() < 0.5
    total = pick_size(rng, size); nb = rng.choice([1, 1, 2, 3, 5]) if total else rng.choice([0, 1])
    cuts = sorted(rng.randint(0, total) for _ in range(nb - 1)); sizes = [b - a for a, b in zip([0] + cuts, cuts + [total])] if nb else []
    blocks = []; metas = []; base = b''
    for n in sizes:
        if patch:
            ss = rng.choice([0, rng.randint(0, 3000), rng.randint(0, 70000)] + ([rng.randint(100000, 3000000)] if size == 'large' and rng.random() < 0.3 else []))
            ref = lz.random_data(rng, ss); base += ref
            plain, payload, m = lzx_block(rng, n, ref); m['ref_bytes'] = ss
            blocks.append({'data': plain, 'payload': payload, 'source_size': ss})
        elif n and rng.random() < 0.7:
            plain, payload, m = lzx_block(rng, n)
            blocks.append({'data': plain, 'payload': payload, 'lzx': True})
        else:
            plain = lz.random_data(rng, n); m = {'stored': True}
            blocks.append({'data': plain, 'payload': plain, 'lzx': False, 'crc': rng.choice([crc(plain), 0, 0xDEADBEEF])})
        metas.append(m)
    plain = b''.join(b['data'] for b in blocks)
    slack = rng.choice([0, 0, 1, 1000])              # block_max may exceed the largest block
    if patch:
        bm = max([max(len(b['data']), b['source_size']) for b in blocks] + [0]) + slack
        f = patch_file(blocks, len(base), bm, rng.getrandbits(32), rng.getrandbits(32))
        base += rng.randbytes(rng.choice([0, 0, 10]))
        files = {'patch.oab': f, 'base.oab': base}; order = ['patch.oab', 'base.oab']
    else:
        bm = max([len(b['data']) for b in blocks] + [0]) + slack
        files = {'full.oab': full_file(blocks, bm)}; order = ['full.oab']
    meta = {'open': 'oabinc' if patch else 'oab', 'order': order, 'nblocks': len(blocks), 'blocks': metas, 'plain_bytes': len(plain),
            'base_bytes': len(base) if patch else 0}
    return {'kind': 'oab', 'files': files, 'members': [{'name': b'out', 'data': plain}], 'meta': meta}
