import MsPack
import MsPack.Driver.Util
/-
mspack-driver: replays case files (PROTOCOL.md) on the Lean model and prints the result lines
the C harness prints for the real library.  Ops the model does not cover print `<op> unsupported`.
-/
open MsPack MsPack.Driver MsPack.Cab

structure CabInst where
  searchbuf : Nat := 32768
  fixMszip  : Nat := 0
  decompbuf : Nat := 4096
  salvage   : Nat := 0
  error     : Nat := 0

inductive Inst
  | cab (c : CabInst)
  | other (fmt : String)
  | dead

inductive Handle
  | cab (inst : Nat) (fname : String) (c : Cabinet)
  | dead

structure St where
  files   : List (String × Bytes) := []
  insts   : Array Inst := #[]
  handles : Array Handle := #[]

abbrev M := StateT St IO

def out (s : String) : M Unit := IO.println s

def lookupFile (name : String) : M (Option Bytes) := do
  return (← get).files.lookup name

def dumpCab (k : Nat) (c : Cabinet) : M Unit := do
  out s!"cab h{k} off={c.baseOffset} len={c.length} set={c.setId} idx={c.setIndex} hres={c.headerResv} flags=0x{natHex c.flags} prevname={optHex c.prevname} nextname={optHex c.nextname} previnfo={optHex c.previnfo} nextinfo={optHex c.nextinfo} nfolders={c.folders.length} nfiles={c.files.length}"
  let mut j := 0
  for f in c.folders do
    out s!"folder {j} comp=0x{natHex f.compType} nblocks={f.numBlocks}"
    j := j + 1
  j := 0
  for f in c.files do
    out s!"file {j} name={optHex (some f.name)} len={f.length} attr=0x{natHex f.attribs} date={f.date_y}/{f.date_m}/{f.date_d} time={f.time_h}:{f.time_m}:{f.time_s} folder={f.folder} off={f.offset}"
    j := j + 1

def parseInst (s : String) : Option Nat := if s.startsWith "i" then (s.drop 1).toString.toNat? else none
def parseHandle (s : String) : Option Nat := if s.startsWith "h" then (s.drop 1).toString.toNat? else none

def setCabErr (i : Nat) (ci : CabInst) (e : Nat) : M Unit :=
  modify fun s => { s with insts := s.insts.set! i (.cab { ci with error := e }) }

def doOp (toks : List String) : M Unit := do
  match toks with
  | ["file", name, hex] =>
    match parseHex hex with
    | some bs => modify fun s => { s with files := (name, bs) :: s.files }
    | none => out "bad-case"
  | ["filerep", name, n, hex] =>
    match parseHex hex, n.toNat? with
    | some bs, some n =>
      let reps := if bs.isEmpty then [] else ((List.replicate (n / bs.length + 1) bs).flatten).take n
      modify fun s => { s with files := (name, reps) :: s.files }
    | _, _ => out "bad-case"
  | ["fileref", name, path] =>
    let ba ← IO.FS.readBinFile path
    modify fun s => { s with files := (name, ba.toList) :: s.files }
  | "fill" :: _ => pure ()
  | "fault" :: _ => pure ()
  | "trace" :: _ => pure ()
  | "edges" :: _ => pure ()
  | "new" :: fmt :: rest =>
    let st ← get
    let i := st.insts.size
    if rest ≠ [] ∧ rest ≠ ["default"] then out "bad-case" else
    let inst := if fmt = "cab" then Inst.cab {} else Inst.other fmt
    set { st with insts := st.insts.push inst }
    out s!"new {fmt} i{i}"
  | ["param", i, name, v] =>
    match parseInst i, (← get).insts[(parseInst i).getD 0]?, v.toInt? with
    | some i, some (.cab ci), some v =>
      let small := v < 4
      let (ci', st) : CabInst × Nat := match name with
        | "SEARCHBUF" => if small then (ci, 1) else ({ ci with searchbuf := v.toNat }, 0)
        | "DECOMPBUF" => if small then (ci, 1) else ({ ci with decompbuf := v.toNat }, 0)
        | "FIXMSZIP" => ({ ci with fixMszip := if v = 0 then 0 else 1 }, 0)
        | "SALVAGE" => ({ ci with salvage := if v = 0 then 0 else 1 }, 0)
        | _ => (ci, 1)
      modify fun s => { s with insts := s.insts.set! i (.cab ci') }
      out s!"param st={st}"
    | _, _, _ => out "param unsupported"
  | ["open", i, name] =>
    match parseInst i, (← get).insts[(parseInst i).getD 0]? with
    | some i, some (.cab ci) =>
      match ← lookupFile name with
      | none => setCabErr i ci 2; out "open NULL st=2 err=2"
      | some bytes =>
        match readHeaders bytes 0 (ci.salvage ≠ 0) with
        | .ok c =>
          setCabErr i ci 0
          let k := (← get).handles.size
          modify fun s => { s with handles := s.handles.push (.cab i name c) }
          out s!"open h{k} st=0 err=0"
          dumpCab k c
        | .error e => setCabErr i ci e.code; out s!"open NULL st={e.code} err={e.code}"
    | _, _ => out "open unsupported"
  | ["search", i, name] =>
    match parseInst i, (← get).insts[(parseInst i).getD 0]? with
    | some i, some (.cab ci) =>
      match ← lookupFile name with
      | none => setCabErr i ci 2; out "search NULL st=2 err=2"
      | some bytes =>
        let (cabs, fin) := find ci.searchbuf (ci.salvage ≠ 0) bytes
        if fin = .hang then out "search HANG" else
        setCabErr i ci 0
        if cabs.isEmpty then out "search NULL st=0 err=0" else
        let k := (← get).handles.size
        for c in cabs do
          modify fun s => { s with handles := s.handles.push (.cab i name c) }
        out s!"search h{k}..h{k + cabs.length - 1} st=0 err=0"
        let mut j := k
        for c in cabs do
          dumpCab j c
          j := j + 1
    | _, _ => out "search unsupported"
  | ["prim", "cksum", hex, seed] =>
    match parseHex hex, parseNat seed with
    | some bs, some s => out s!"prim cksum {cksum bs s}"
    | _, _ => out "bad-case"
  | "end" :: _ => pure ()
  | op :: _ => out s!"{op} unsupported"
  | [] => pure ()

def runCase (path : String) : IO Unit := do
  IO.println s!"== CASE {path}"
  let text ← IO.FS.readFile path
  let lines := text.splitOn "\n"
  let act : M Unit := do
    for l in lines do
      let l := l.trimAscii.toString
      if l.isEmpty || l.startsWith "#" then continue
      doOp (l.splitOn " ")
    out "end"
  let _ ← act.run {}
  (← IO.getStdout).flush

def main (args : List String) : IO UInt32 := do
  for a in args do
    try runCase a catch e => IO.println s!"DRIVER-ERROR {e}"
  return 0
