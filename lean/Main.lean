import MsPack
import MsPack.Driver.Core
import MsPack.Driver.Prim
import MsPack.Driver.Cab
import MsPack.Driver.Chm
import MsPack.Driver.Szdd
import MsPack.Driver.Kwaj
import MsPack.Driver.Oab
import MsPack.Driver.SzddSys
import MsPack.Driver.KwajSys
import MsPack.Driver.OabSys
/-
mspack-driver: replays case files (PROTOCOL.md) on the Lean model and prints the result lines
the C harness prints for the real library.  Ops no format module answers print `<op> unsupported`.
-/
open MsPack MsPack.Driver

structure St where
  shared : Shared := {}
  prim   : Prim.State := {}
  cab    : Cab.State := {}
  chm    : Chm.State := {}
  szdd   : Szdd.State := {}
  kwaj   : Kwaj.State := {}
  oab    : Oab.State := {}
  sys    : OabSys.State := {}      -- the effect-model world with the szdd (`sys.base.base`), kwaj (`sys.base`) and oab instances
  sysMode : Bool := false          -- `--sys`: szdd, kwaj and oab ops run on the effect models, nothing else is answered

/-- run one format's handler on the op; returns whether it answered -/
def tryFmt {σ : Type} (h : List String → HM σ Bool) (get : St → σ) (set : St → σ → St)
    (toks : List String) (st : St) : Bool × St × Array String :=
  let (ok, hs) := (h toks).run { shared := st.shared, st := get st }
  (ok, { set st hs.st with shared := hs.shared }, hs.lines)

def dispatch (toks : List String) (st : St) : St × Array String :=
  if st.sysMode then
    let o := tryFmt OabSys.handle (·.sys) (fun s x => { s with sys := x }) toks st
    if o.1 then (o.2.1, o.2.2) else
    let k := tryFmt KwajSys.handle (·.sys.base) (fun s x => { s with sys := { s.sys with base := x } }) toks st
    if k.1 then (k.2.1, k.2.2) else
    let t := tryFmt SzddSys.handle (·.sys.base.base)
      (fun s x => { s with sys := { s.sys with base := { s.sys.base with base := x } } }) toks st
    if t.1 then (t.2.1, t.2.2) else (st, #[s!"{toks.headD "?"} unsupported"])
  else
  let try1 := tryFmt Prim.handle (·.prim) (fun s x => { s with prim := x }) toks st
  if try1.1 then (try1.2.1, try1.2.2) else
  let try2 := tryFmt Cab.handle (·.cab) (fun s x => { s with cab := x }) toks st
  if try2.1 then (try2.2.1, try2.2.2) else
  let try3 := tryFmt Chm.handle (·.chm) (fun s x => { s with chm := x }) toks st
  if try3.1 then (try3.2.1, try3.2.2) else
  let try4 := tryFmt Szdd.handle (·.szdd) (fun s x => { s with szdd := x }) toks st
  if try4.1 then (try4.2.1, try4.2.2) else
  let try5 := tryFmt Kwaj.handle (·.kwaj) (fun s x => { s with kwaj := x }) toks st
  if try5.1 then (try5.2.1, try5.2.2) else
  let try6 := tryFmt Oab.handle (·.oab) (fun s x => { s with oab := x }) toks st
  if try6.1 then (try6.2.1, try6.2.2) else
  (st, #[s!"{toks.headD "?"} unsupported"])

def addFile (st : St) (name : String) (b : Bytes) : St :=
  { st with sys := OabSys.addFile st.sys name b, shared := { st.shared with files := (name, b) :: st.shared.files.filter (·.1 ≠ name) } }

def doLine (st : St) (toks : List String) : IO St := do
  match toks with
  | ["file", name, hex] =>
    match parseHex hex with
    | some bs => return addFile st name bs
    | none => IO.println "error bad-directive"; return st
  | ["filerep", name, n, hex] =>
    match parseHex hex, n.toNat? with
    | some bs, some n =>
      let reps := if bs.isEmpty then [] else ((List.replicate (n / bs.length + 1) bs).flatten).take n
      return addFile st name reps
    | _, _ => IO.println "error bad-directive"; return st
  | ["fileref", name, path] =>
    let ba ← IO.FS.readBinFile path
    return addFile st name ba.toList
  | ["fill", hh] =>
    match parseHex hh with
    | some [b] => return { st with shared := { st.shared with fill := b } }
    | _ => IO.println "error bad-directive"; return st
  | ["fault", kind, k] | ["fault", kind, k, _] => return { st with sys := OabSys.addFault st.sys kind k }
  | "fault" :: _ => return st
  | "trace" :: _ => return st
  | "edges" :: _ => return st
  | "end" :: _ => return st
  | [] => return st
  | _ =>
    let (st, lines) := dispatch toks st
    for l in lines do IO.println l
    return st

def runCase (sysMode : Bool) (path : String) : IO Unit := do
  IO.println s!"== CASE {path}"
  let text ← IO.FS.readFile path
  let mut st : St := { sysMode := sysMode }
  for l in text.splitOn "\n" do
    let l := l.trimAscii.toString
    if l.isEmpty || l.startsWith "#" then continue
    st ← doLine st (l.splitOn " ")
  IO.println (if sysMode then OabSys.endLine st.sys else "end")
  (← IO.getStdout).flush

def main (args : List String) : IO UInt32 := do
  let sysMode := args.head? = some "--sys"
  for a in (if sysMode then args.drop 1 else args) do
    try runCase sysMode a catch e => IO.println s!"DRIVER-ERROR {e}"
  return 0
