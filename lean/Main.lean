import MsPack
import MsPack.Driver.Util
/-
mspack-driver: replays case files (PROTOCOL.md) on the Lean model and prints the result lines
the C harness prints for the real library.  Ops the model does not cover print `<op> unsupported`.
-/
open MsPack MsPack.Driver MsPack.Cab

structure CabInst where
  searchbuf : Nat := 32768
  fixMszip  : Nat := 0
  decompbuf : Nat := 4096
  salvage   : Nat := 0
  error     : Nat := 0
  d         : Option DState := none

inductive Inst
  | cab (c : CabInst)
  | other (fmt : String)
  | dead

inductive Handle
  | cab (inst : Nat) (cid : CabId) (searchNext : Option Nat)
  | dead

structure St where
  files   : List (String × Bytes) := []
  insts   : Array Inst := #[]
  handles : Array Handle := #[]
  heap    : Heap := {}
  fill    : UInt8 := 0xa5

abbrev M := StateT St IO

def out (s : String) : M Unit := IO.println s

def lookupFile (name : String) : M (Option Bytes) := do
  return (← get).files.lookup name

def dumpOne (k : Nat) (cid : CabId) : M Unit := do
  let h := (← get).heap
  match h.cab? cid with
  | none => out s!"cab h{k} dead"
  | some n =>
    let c := n.hdr
    out s!"cab h{k} off={c.baseOffset} len={c.length} set={c.setId} idx={c.setIndex} hres={c.headerResv} flags=0x{natHex c.flags} prevname={optHex c.prevname} nextname={optHex c.nextname} previnfo={optHex c.previnfo} nextinfo={optHex c.nextinfo} nfolders={n.folders.length} nfiles={n.files.length}"
    let mut j := 0
    for fid in n.folders do
      match h.folder? fid with
      | some f => out s!"folder {j} comp=0x{natHex f.compType} nblocks={f.numBlocks}"
      | none => out s!"folder {j} dangling"
      j := j + 1
    j := 0
    for fid in n.files do
      match h.file? fid with
      | some fn =>
        let f := fn.data
        let fj : String := match fn.folder with
          | some fo => match n.folders.idxOf? fo with
            | some i => toString i
            | none => "-1"
          | none => "-1"
        out s!"file {j} name={optHex (some f.name)} len={f.length} attr=0x{natHex f.attribs} date={f.date_y}/{f.date_m}/{f.date_d} time={f.time_h}:{f.time_m}:{f.time_s} folder={fj} off={f.offset}"
      | none => out s!"file {j} dangling"
      j := j + 1

/-- dump every cabinet reachable through the `search()` result chain from handle `k` -/
def dumpChain (k : Nat) : M Unit := do
  let mut cur := some k
  let mut fuel := (← get).handles.size + 1
  while fuel > 0 do
    fuel := fuel - 1
    match cur with
    | none => break
    | some hk =>
      match (← get).handles[hk]? with
      | some (.cab _ cid nxt) => dumpOne hk cid; cur := nxt
      | _ => break

def parseInst (s : String) : Option Nat := if s.startsWith "i" then (s.drop 1).toString.toNat? else none
def parseHandle (s : String) : Option Nat := if s.startsWith "h" then (s.drop 1).toString.toNat? else none

def setCab (i : Nat) (ci : CabInst) : M Unit :=
  modify fun s => { s with insts := s.insts.set! i (.cab ci) }

def getCabInst (tok : String) : M (Option (Nat × CabInst)) := do
  match parseInst tok with
  | some i => match (← get).insts[i]? with
    | some (.cab ci) => return some (i, ci)
    | _ => return none
  | none => return none

def getCabHandle (tok : String) : M (Option (Nat × CabId × Option Nat)) := do
  match parseHandle tok with
  | some k => match (← get).handles[k]? with
    | some (.cab _ cid nxt) => return some (k, cid, nxt)
    | _ => return none
  | none => return none

def errOf (e : Err) : Nat := e.code

def doMerge (op i ha hb : String) : M Unit := do
  match ← getCabInst i, ← getCabHandle ha, ← getCabHandle hb with
  | some (i, ci), some (_, ca, _), some (_, cb, _) =>
    let (l, r) := if op = "append" then (ca, cb) else (cb, ca)
    let (e, heap) := (← get).heap.merge (some l) (some r)
    modify fun s => { s with heap := heap }
    setCab i { ci with error := e.code }
    out s!"{op} st={e.code} err={e.code}"
  | _, _, _ => out s!"{op} unsupported"

def doOp (toks : List String) : M Unit := do
  match toks with
  | ["file", name, hex] =>
    match parseHex hex with
    | some bs => modify fun s => { s with files := (name, bs) :: s.files }
    | none => out "bad-case"
  | ["filerep", name, n, hex] =>
    match parseHex hex, n.toNat? with
    | some bs, some n =>
      let reps := if bs.isEmpty then [] else ((List.replicate (n / bs.length + 1) bs).flatten).take n
      modify fun s => { s with files := (name, reps) :: s.files }
    | _, _ => out "bad-case"
  | ["fileref", name, path] =>
    let ba ← IO.FS.readBinFile path
    modify fun s => { s with files := (name, ba.toList) :: s.files }
  | ["fill", hh] =>
    match parseHex hh with
    | some [b] => modify fun s => { s with fill := b }
    | _ => out "bad-case"
  | "fault" :: _ => pure ()
  | "trace" :: _ => pure ()
  | "edges" :: _ => pure ()
  | "new" :: fmt :: rest =>
    let st ← get
    let i := st.insts.size
    if rest ≠ [] ∧ rest ≠ ["default"] then out "bad-case" else
    let inst := if fmt = "cab" then Inst.cab {} else Inst.other fmt
    set { st with insts := st.insts.push inst }
    out s!"new {fmt} i{i}"
  | ["param", i, name, v] =>
    match ← getCabInst i, v.toInt? with
    | some (i, ci), some v =>
      let small := v < 4
      let (ci', st) : CabInst × Nat := match name with
        | "SEARCHBUF" => if small then (ci, 1) else ({ ci with searchbuf := v.toNat }, 0)
        | "DECOMPBUF" => if small then (ci, 1) else ({ ci with decompbuf := v.toNat }, 0)
        | "FIXMSZIP" => ({ ci with fixMszip := if v = 0 then 0 else 1 }, 0)
        | "SALVAGE" => ({ ci with salvage := if v = 0 then 0 else 1 }, 0)
        | _ => (ci, 1)
      setCab i ci'
      out s!"param st={st}"
    | _, _ => out "param unsupported"
  | ["open", i, name] =>
    match ← getCabInst i with
    | some (i, ci) =>
      match ← lookupFile name with
      | none => setCab i { ci with error := 2 }; out "open NULL st=2 err=2"
      | some bytes =>
        match readHeaders bytes 0 (ci.salvage ≠ 0) with
        | .ok c =>
          setCab i { ci with error := 0 }
          let k := (← get).handles.size
          let (heap, cid) := (← get).heap.addCabinet name c
          modify fun s => { s with heap := heap, handles := s.handles.push (.cab i cid none) }
          out s!"open h{k} st=0 err=0"
          dumpOne k cid
        | .error e => setCab i { ci with error := e.code }; out s!"open NULL st={e.code} err={e.code}"
    | none => out "open unsupported"
  | ["search", i, name] =>
    match ← getCabInst i with
    | some (i, ci) =>
      match ← lookupFile name with
      | none => setCab i { ci with error := 2 }; out "search NULL st=2 err=2"
      | some bytes =>
        let (cabs, fin) := find ci.searchbuf (ci.salvage ≠ 0) bytes
        if fin = .hang then out "search HANG" else
        setCab i { ci with error := 0 }
        if cabs.isEmpty then out "search NULL st=0 err=0" else
        let k := (← get).handles.size
        let mut j := k
        for c in cabs do
          let (heap, cid) := (← get).heap.addCabinet name c
          let nxt := if j + 1 < k + cabs.length then some (j + 1) else none
          modify fun s => { s with heap := heap, handles := s.handles.push (.cab i cid nxt) }
          j := j + 1
        out s!"search h{k}..h{k + cabs.length - 1} st=0 err=0"
        dumpChain k
    | none => out "search unsupported"
  | ["dump", _, hk] =>
    match ← getCabHandle hk with
    | some (k, _, _) => out "dump"; dumpChain k
    | none => out "dump unsupported"
  | ["append", i, ha, hb] => doMerge "append" i ha hb
  | ["prepend", i, ha, hb] => doMerge "prepend" i ha hb
  | ["close", i, hk] =>
    match ← getCabInst i, ← getCabHandle hk with
    | some (i, ci), some (k, _, _) =>
      -- close the handle's cabinet and every cabinet after it in its search() result chain
      let mut cur := some k
      let mut ci := { ci with error := 0 }
      let mut fuel := (← get).handles.size + 1
      while fuel > 0 do
        fuel := fuel - 1
        match cur with
        | none => break
        | some hk =>
          match (← get).handles[hk]? with
          | some (.cab _ cid nxt) =>
            let heap := (← get).heap
            match heap.cab? cid with
            | some n =>
              -- a cached decoder on one of the freed folders is dropped
              match ci.d with
              | some ds => if n.folders.contains ds.folder then ci := { ci with d := none }
              | none => pure ()
              let gone := cid :: (heap.prevChain cid ++ heap.nextChain cid)
              let heap' := heap.close cid
              let kill (h : Handle) : Handle := match h with
                | .cab _ c _ => if gone.contains c then .dead else h
                | .dead => .dead
              modify fun s => { s with heap := heap', handles := s.handles.map kill }
            | none => pure ()
            cur := nxt
          | _ => break
      setCab i ci
      out "close ok"
    | _, _ => out "close unsupported"
  | ["extract", i, hk, idx, outName] =>
    match ← getCabInst i, ← getCabHandle hk, idx.toNat? with
    | some (i, ci), some (_, cid, _), some idx =>
      let st ← get
      match (st.heap.cab? cid).bind (fun n => n.files[idx]?) with
      | none => out "extract bad-index"
      | some fid =>
        match st.heap.member fid with
        | none => out "extract bad-handle"
        | some m =>
          let p : Params := { bufSize := ci.decompbuf, fixMszip := ci.fixMszip ≠ 0, salvage := ci.salvage ≠ 0, fill := st.fill }
          match extract st.files p ci.d m with
          | .unsupported => out "extract unsupported"
          | .fault f => out s!"extract FAULT {reprStr f}"
          | .done e written d =>
            setCab i { ci with error := e.code, d := d }
            match written with
            | some w => modify fun s => { s with files := (outName, w) :: s.files.filter (·.1 ≠ outName) }
            | none => pure ()
            let digest := match (← get).files.lookup outName with
              | some b => outDigest b
              | none => "-"
            out s!"extract st={e.code} err={e.code} written={(written.getD []).length} declared={m.length} out={digest}"
    | _, _, _ => out "extract unsupported"
  | ["destroy", i] =>
    match ← getCabInst i with
    | some (i, _) => modify fun s => { s with insts := s.insts.set! i .dead }; out "destroy ok"
    | none => out "destroy unsupported"
  | ["prim", "cksum", hex, seed] =>
    match parseHex hex, parseNat seed with
    | some bs, some s => out s!"prim cksum {cksum bs s}"
    | _, _ => out "bad-case"
  | "end" :: _ => pure ()
  | op :: _ => out s!"{op} unsupported"
  | [] => pure ()

def runCase (path : String) : IO Unit := do
  IO.println s!"== CASE {path}"
  let text ← IO.FS.readFile path
  let lines := text.splitOn "\n"
  let act : M Unit := do
    for l in lines do
      let l := l.trimAscii.toString
      if l.isEmpty || l.startsWith "#" then continue
      doOp (l.splitOn " ")
    out "end"
  let _ ← act.run {}
  (← IO.getStdout).flush

def main (args : List String) : IO UInt32 := do
  for a in args do
    try runCase a catch e => IO.println s!"DRIVER-ERROR {e}"
  return 0
