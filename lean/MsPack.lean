import MsPack.Basic
import MsPack.Cab.Checksum
