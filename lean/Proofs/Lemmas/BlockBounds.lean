import MsPack.Cab.Extract
namespace MsPack.Cab
open MsPack MsPack.Generated

theorem readBlock_no_oob (files : Files) (ic ib : Bool) : ∀ (fuel : Nat) (rd : Option Rd) (parts : List Part)
    (acc : Bytes) (s : String), readBlock files ic ib fuel rd parts acc ≠ .fault (.oob s) := by
  intro fuel
  induction fuel with
  | zero => intro rd parts acc s; simp [readBlock]
  | succ fuel ih =>
    intro rd parts acc s
    unfold readBlock
    split
    · simp
    · simp
    · split
      · simp
      · simp only
        split
        · simp
        · split
          · simp
          · split
            · rename_i h1 h2 h3
              exfalso
              simp only [cabINPUTMAX, cabINPUTMAX_SALVAGE, cabInputDim] at *
              cases ib <;> simp at h1 <;> omega
            · split
              · simp
              · split
                · simp
                · split
                  · simp
                  · split
                    · simp
                    · split
                      · simp
                      · exact ih _ _ _ _

theorem readExact_length {r : Rd} {n : Nat} {c : Bytes} {r' : Rd} (h : r.readExact n = some (c, r')) :
    c.length = n := by
  unfold Rd.readExact at h
  simp only at h
  split at h
  · rename_i hl
    simp only [Option.some.injEq, Prod.mk.injEq] at h
    rw [← h.1]; exact hl
  · contradiction

theorem readBlock_fits (files : Files) (ic ib : Bool) : ∀ (fuel : Nat) (rd : Option Rd) (parts : List Part)
    (acc p : Bytes) (out : Nat) (rd' : Option Rd) (parts' : List Part),
    readBlock files ic ib fuel rd parts acc = .ok p out rd' parts' → p.length + 1 ≤ cabInputDim := by
  intro fuel
  induction fuel with
  | zero => intro rd parts acc p out rd' parts' h; simp [readBlock] at h
  | succ fuel ih =>
    intro rd parts acc p out rd' parts' h
    unfold readBlock at h
    split at h
    · contradiction
    · contradiction
    · split at h
      · contradiction
      · simp only at h
        split at h
        · contradiction
        · split at h
          · contradiction
          · split at h
            · contradiction
            · split at h
              · contradiction
              · split at h
                · contradiction
                · rename_i h1 h2 h3 _ payload r hre _
                  have hl := readExact_length hre
                  split at h
                  · simp only [BlockResult.ok.injEq] at h
                    rw [← h.1]
                    simp only [List.length_append, hl]
                    simp only [cabINPUTMAX, cabINPUTMAX_SALVAGE, cabInputDim] at *
                    cases ib <;> simp at h1 <;> omega
                  · split at h
                    · contradiction
                    · split at h
                      · contradiction
                      · exact ih _ _ _ _ _ _ _ h

theorem feederRead_no_oob (files : Files) : ∀ (fuel : Nat) (fd : Feeder) (todo : Nat) (got : Bytes) (s : String),
    feederRead files fuel fd todo got ≠ .error (.oob s) := by
  intro fuel
  induction fuel with
  | zero => intro fd todo got s; simp [feederRead]
  | succ fuel ih =>
    intro fd todo got s
    unfold feederRead
    split
    · simp
    · split
      · exact ih _ _ _ _
      · simp only
        split
        · simp
        · split
          · rename_i f hrb
            intro hc
            simp only [Except.error.injEq] at hc
            subst hc
            exact readBlock_no_oob _ _ _ _ _ _ _ _ hrb
          · simp
          · exact ih _ _ _ _

end MsPack.Cab
