import Lean
import Proofs.Lemmas.Salvage
import Proofs.Lemmas.CountLawsRead
/-!
# C18: the relaxed modes simulate the strict run (lemmas for C18Decoders)

`Rel2 R m₁ m₂`: from `R`-related states, whenever `m₁` returns normally, `m₂` returns the same value in an
`R`-related state.  `R` relates a strict-mode state to one that differs only in the relaxation flags
(feeder: `salvage`, `fixMszip`, and the `readError` bookkeeping; MSZIP: `repair`).  The flags are consulted
only on paths the strict run answers with an error, so nothing has to be shown there.
-/
set_option linter.unusedSimpArgs false
namespace MsPack.CountLaws.Relax
open MsPack MsPack.Cab
open MsPack.CountLaws.ReadErr (run_set_bind run_set run_throw)
open MsPack.CountLaws.Qtm (run_get_bind run_throw_bind run_modify run_modify_bind run_pure run_ite)

/-! ## the feeder -/

/-- the second feeder is the first (a strict one) up to the relaxation flags and the recorded read error -/
structure FR (a b : Feeder) : Prop where
  rd : b.rd = a.rd
  parts : b.parts = a.parts
  block : b.block = a.block
  numBlocks : b.numBlocks = a.numBlocks
  outlen : b.outlen = a.outlen
  buf : b.buf = a.buf
  compType : b.compType = a.compType
  lzxLen : b.lzxLen = a.lzxLen
  strictS : a.salvage = false
  strictF : a.fixMszip = false

/-- `FR a' b'` for updates of `FR`-related feeders -/
macro "fr_close " hr:term : tactic => `(tactic| (constructor <;> first
  | (have h := FR.strictS $hr; exact h)
  | (have h := FR.strictF $hr; exact h)
  | rfl
  | (simp only [FR.rd $hr, FR.parts $hr, FR.block $hr, FR.numBlocks $hr, FR.outlen $hr, FR.buf $hr, FR.compType $hr,
      FR.lzxLen $hr]; done)))

theorem feederRead_rel (files : Files) : ∀ (fuel : Nat) (fd1 fd2 : Feeder) (todo : Nat) (got g : Bytes)
    (fd1' : Feeder), FR fd1 fd2 → feederRead files fuel fd1 todo got = .ok (some g, fd1') →
    ∃ fd2', feederRead files fuel fd2 todo got = .ok (some g, fd2') ∧ FR fd1' fd2' := by
  intro fuel
  induction fuel with
  | zero => intro fd1 fd2 todo got g fd1' _ h; simp [feederRead] at h
  | succ fuel ih =>
    intro fd1 fd2 todo got g fd1' hr h
    unfold feederRead at h ⊢
    split at h
    · rename_i h0
      cases h
      rw [if_pos h0]
      exact ⟨fd2, rfl, hr⟩
    · rename_i h0
      rw [if_neg h0]
      split at h
      · rename_i hb
        rw [hr.buf, if_pos hb]
        refine ih _ _ _ _ _ _ ?_ h
        fr_close hr
      · rename_i hb
        rw [hr.buf, if_neg hb]
        simp only at h ⊢
        rw [hr.block, hr.numBlocks]
        split at h
        · rename_i hge
          rw [if_pos hge]
          cases h
          refine ⟨_, rfl, ?_⟩
          rw [hr.strictS]
          simp only [Bool.false_eq_true, ↓reduceIte]
          split <;> fr_close hr
        · rename_i hge
          rw [if_neg hge]
          rw [hr.strictS, hr.strictF] at h
          simp only [Bool.false_and, Bool.or_self] at h
          split at h
          · cases h
          · cases h
          · rename_i payload out rd parts hrb
            rw [hr.rd, hr.parts, hr.compType]
            rw [readBlock_relax_mono files _ _ _ _ _ _ _ _ _ _ hrb]
            simp only
            refine ih _ _ _ _ _ _ ?_ h
            rw [hr.outlen, hr.lzxLen]
            split <;> fr_close hr

theorem feederSrc_rel (files : Files) (fd1 fd2 : Feeder) (n : Nat) (g : Bytes) (fd1' : Feeder) (hr : FR fd1 fd2)
    (h : (feederSrc files).read fd1 n = .ok (some g, fd1')) :
    ∃ fd2', (feederSrc files).read fd2 n = .ok (some g, fd2') ∧ FR fd1' fd2' := by
  have hf : feederFuel fd2 = feederFuel fd1 := by unfold feederFuel; rw [hr.numBlocks, hr.block]
  show ∃ fd2', feederRead files (feederFuel fd2) fd2 n [] = _ ∧ _
  rw [hf]
  exact feederRead_rel files _ _ _ _ _ _ _ hr h


/-! ## two runs from related states -/
section kit
variable {ε s α β : Type}

structure Rel2 (R : s → s → Prop) (m1 m2 : ExceptT ε (StateM s) α) : Prop where
  out : ∀ s1 s2, R s1 s2 → ∀ a s1', m1.run.run s1 = (.ok a, s1') →
    ∃ s2', m2.run.run s2 = (.ok a, s2') ∧ R s1' s2'

theorem Rel2.pure (R : s → s → Prop) (a : α) : Rel2 R (pure a : ExceptT ε (StateM s) α) (pure a) :=
  ⟨fun _ s2 hr _ _ h => by cases h; exact ⟨s2, rfl, hr⟩⟩

/-- the strict side does not return: nothing to show -/
theorem Rel2.throw (R : s → s → Prop) (e : ε) (m2 : ExceptT ε (StateM s) α) : Rel2 R (throw e) m2 :=
  ⟨fun _ _ _ _ _ h => by cases h⟩

theorem Rel2.set {R : s → s → Prop} {x1 x2 : s} (h : R x1 x2) :
    Rel2 R (set x1 : ExceptT ε (StateM s) PUnit) (set x2) :=
  ⟨fun _ _ _ _ _ h' => by cases h'; exact ⟨x2, rfl, h⟩⟩

theorem Rel2.modify {R : s → s → Prop} {g1 g2 : s → s} (h : ∀ a b, R a b → R (g1 a) (g2 b)) :
    Rel2 R (modify g1 : ExceptT ε (StateM s) PUnit) (modify g2) :=
  ⟨fun s1 s2 hr _ _ h' => by cases h'; exact ⟨g2 s2, rfl, h _ _ hr⟩⟩

theorem Rel2.bind {R : s → s → Prop} {x1 x2 : ExceptT ε (StateM s) α} {f1 f2 : α → ExceptT ε (StateM s) β}
    (hx : Rel2 R x1 x2) (hf : ∀ a, Rel2 R (f1 a) (f2 a)) : Rel2 R (x1 >>= f1) (x2 >>= f2) := by
  constructor
  intro s1 s2 hr b s1' h
  rw [run_bind] at h
  cases hx1 : x1.run.run s1 with
  | mk r t1 =>
    rw [hx1] at h
    cases r with
    | error e => cases h
    | ok a =>
      obtain ⟨t2, h2, hr2⟩ := hx.out s1 s2 hr a t1 hx1
      obtain ⟨s2', h3, hr3⟩ := (hf a).out t1 t2 hr2 b s1' h
      refine ⟨s2', ?_, hr3⟩
      rw [run_bind, h2]
      exact h3

theorem Rel2.get_bind {R : s → s → Prop} {f1 f2 : s → ExceptT ε (StateM s) β}
    (hf : ∀ r1 r2, R r1 r2 → Rel2 R (f1 r1) (f2 r2)) :
    Rel2 R (MonadState.get >>= f1) (MonadState.get >>= f2) := by
  constructor
  intro s1 s2 hr b s1' h
  rw [run_bind] at h
  obtain ⟨s2', h2, hr2⟩ := (hf s1 s2 hr).out s1 s2 hr b s1' h
  refine ⟨s2', ?_, hr2⟩
  rw [run_bind]
  exact h2

end kit

section tactics
open Lean Elab Tactic Meta

/-- join points / `have`s at the head of both sides of a `Rel2` goal (after `cg_jp` of `FeederThreadLzx.lean`) -/
elab "rel_jp" : tactic => withMainContext do
  let g ← getMainGoal
  let t ← instantiateMVars (← g.getType)
  unless t.isAppOf ``Rel2 do throwError "not a Rel2 goal"
  let m2 := t.appArg!
  let m1 := t.appFn!.appArg!
  let pre := t.appFn!.appFn!
  let .letE n ty v1 b1 _ := m1 | throwError "no join point"
  let .letE _ ty2 v2 b2 _ := m2 | throwError "no join point"
  let .forallE rn rty _ _ ← whnfR ty
    | do let g' ← g.replaceTargetDefEq (mkApp2 pre (b1.instantiate1 v1) (b2.instantiate1 v2))
         replaceMainGoal [g']
         return
  let t2 ← withLocalDeclD rn rty fun r => do
    mkForallFVars #[r] (mkApp2 pre (mkApp v1 r).headBeta (mkApp v2 r).headBeta)
  let t1 ← withLocalDeclD n ty fun jp1 => withLocalDeclD (n.appendAfter "'") ty2 fun jp2 => do
    let hty ← withLocalDeclD rn rty fun r => do
      mkForallFVars #[r] (mkApp2 pre (mkApp jp1 r) (mkApp jp2 r))
    withLocalDeclD `hjp hty fun hjp => do
      mkForallFVars #[jp1, jp2, hjp] (mkApp2 pre (b1.instantiate1 jp1) (b2.instantiate1 jp2))
  let g1 ← mkFreshExprSyntheticOpaqueMVar t1
  let g2 ← mkFreshExprSyntheticOpaqueMVar t2
  g.assign (mkApp3 g1 v1 v2 g2)
  replaceMainGoal [g2.mvarId!, g1.mvarId!]

elab "rel_hyp" : tactic => withMainContext do
  let g ← getMainGoal
  for d in (← getLCtx) do
    if d.isImplementationDetail then continue
    let ty ← instantiateMVars d.type
    if ty.getForallBody.isAppOf ``Rel2 then
      let s ← saveState
      try
        let gs ← withReducible (g.apply d.toExpr)
        replaceMainGoal gs
        return
      catch _ => s.restore
  throwError "no hypothesis applies"

end tactics

/-- decoder-specific: `R x1 x2` for updated states, and the normalisation of the second state's fields after `get` -/
syntax "rel_close" : tactic
macro_rules | `(tactic| rel_close) => `(tactic| assumption)
syntax "rel_norm" : tactic
macro_rules | `(tactic| rel_norm) => `(tactic| skip)

syntax "rel_auto" (" [" term,* "]")? : tactic
macro_rules
  | `(tactic| rel_auto [$ts,*]) => do
    let alts ← ts.getElems.mapM fun t => `(tacticSeq| with_reducible apply $t)
    `(tactic| repeat' first
      | with_reducible exact Rel2.pure _ _
      | with_reducible exact Rel2.throw _ _ _
      | ((with_reducible refine Rel2.set ?_); rel_close)
      | ((with_reducible refine Rel2.modify ?_); intro _ _ _; rel_close)
      | ((with_reducible refine Rel2.get_bind ?_); intro _ _ _; rel_norm)
      | with_reducible refine Rel2.bind ?_ ?_
      | rel_hyp
      $[| $alts]*
      | rel_jp
      | intro _
      | split)
  | `(tactic| rel_auto) => `(tactic| rel_auto [Rel2.pure _ _])

/-! ## MSZIP -/
section zip
open MsPack.Zip
variable (files : Files)

/-- the second state is the first (a strict one) up to the feeder's flags and the repair flag -/
structure ZR (a b : Zip.St Feeder) : Prop where
  src : FR a.src b.src
  inbufSize : b.inbufSize = a.inbufSize
  inbuf : b.inbuf = a.inbuf
  inputEnd : b.inputEnd = a.inputEnd
  bits : b.bits = a.bits
  window : b.window = a.window
  windowPosn : b.windowPosn = a.windowPosn
  bytesOutput : b.bytesOutput = a.bytesOutput
  litLens : b.litLens = a.litLens
  distLens : b.distLens = a.distLens
  error : b.error = a.error
  pending : b.pending = a.pending
  repair : a.repair = false

open Lean Elab Tactic Meta in
/-- rewrite the second state's fields to the first's, using every `ZR` hypothesis in sight -/
elab "zr_norm" : tactic => withMainContext do
  for d in (← getLCtx) do
    if d.isImplementationDetail then continue
    if (← instantiateMVars d.type).isAppOf ``ZR then
      let h ← Term.exprToSyntax d.toExpr
      evalTactic (← `(tactic| try simp only [ZR.inbufSize $h, ZR.inbuf $h, ZR.inputEnd $h, ZR.bits $h, ZR.window $h,
        ZR.windowPosn $h, ZR.bytesOutput $h, ZR.litLens $h, ZR.distLens $h, ZR.error $h, ZR.pending $h]))

open Lean Elab Tactic Meta in
/-- `ZR x1 x2` for updates of `ZR`-related states -/
elab "zr_close" : tactic => withMainContext do
  for d in (← getLCtx) do
    if d.isImplementationDetail then continue
    if (← instantiateMVars d.type).isAppOf ``ZR then
      let s ← saveState
      try
        let h ← Term.exprToSyntax d.toExpr
        evalTactic (← `(tactic| (constructor <;> first
          | (have h' := ZR.src $h; exact h')
          | (have h' := ZR.repair $h; exact h')
          | rfl
          | (simp only [ZR.inbufSize $h, ZR.inbuf $h, ZR.inputEnd $h, ZR.bits $h, ZR.window $h,
              ZR.windowPosn $h, ZR.bytesOutput $h, ZR.litLens $h, ZR.distLens $h, ZR.error $h, ZR.pending $h]; done))))
        return
      catch _ => s.restore
  throwError "zr_close: nothing applies"

macro_rules | `(tactic| rel_close) => `(tactic| zr_close)
macro_rules | `(tactic| rel_norm) => `(tactic| zr_norm)

local notation "ZS" => feederSrc files
local notation "ZZ" => Rel2 ZR

theorem removeBits_rel (n : Nat) : ZZ (Zip.removeBits (σ := Feeder) n) (Zip.removeBits n) := by
  unfold Zip.removeBits; rel_auto

theorem readInput_rel : ZZ (Zip.readInput ZS) (Zip.readInput ZS) := by
  constructor
  intro s1 s2 hr a s1' h
  unfold Zip.readInput at h ⊢
  rw [run_get_bind] at h ⊢
  rw [hr.inbufSize]
  split at h
  · rw [run_throw] at h; cases h
  · rw [run_set_bind, run_throw] at h; cases h
  · rename_i src hrd
    obtain ⟨fd2', h2, hf⟩ := feederSrc_rel files _ _ _ _ _ hr.src hrd
    rw [h2]
    dsimp only
    rw [hr.inputEnd]
    split at h
    · rw [run_set_bind, run_throw] at h; cases h
    · rename_i hie
      rw [run_set] at h; cases h
      rw [if_neg hie, run_set]
      refine ⟨_, rfl, ?_⟩
      constructor <;> first | exact hf | rfl | exact hr.repair | (simp only [hr.inbufSize, hr.bits, hr.window, hr.windowPosn, hr.bytesOutput, hr.litLens, hr.distLens, hr.error, hr.pending]; done)
  · rename_i got src hne hrd
    obtain ⟨fd2', h2, hf⟩ := feederSrc_rel files _ _ _ _ _ hr.src hrd
    rw [h2]
    rw [run_set] at h; cases h
    cases got with
    | nil => exact absurd rfl hne
    | cons b rest =>
      dsimp only
      rw [run_set]
      refine ⟨_, rfl, ?_⟩
      constructor <;> first | exact hf | rfl | exact hr.repair | (simp only [hr.inbufSize, hr.inputEnd, hr.bits, hr.window, hr.windowPosn, hr.bytesOutput, hr.litLens, hr.distLens, hr.error, hr.pending]; done)

theorem nextByte_rel : ZZ (Zip.nextByte ZS) (Zip.nextByte ZS) := by
  unfold Zip.nextByte; rel_auto [readInput_rel files]

theorem ensureBits_rel (n : Nat) : ∀ fuel, ZZ (Zip.ensureBits ZS n fuel) (Zip.ensureBits ZS n fuel) := by
  intro fuel
  induction fuel with
  | zero => rw [Zip.ensureBits.eq_1]; rel_auto
  | succ fuel ih => rw [Zip.ensureBits.eq_2]; rel_auto [nextByte_rel files]

theorem readBits_rel (n : Nat) : ZZ (Zip.readBits ZS n) (Zip.readBits ZS n) := by
  unfold Zip.readBits; rel_auto [ensureBits_rel files, removeBits_rel]

theorem readHuffSym_rel (c : Huff.Canon) : ZZ (Zip.readHuffSym ZS c) (Zip.readHuffSym ZS c) := by
  unfold Zip.readHuffSym; rel_auto [ensureBits_rel files, removeBits_rel]

theorem readLensLoop_rel (c : Huff.Canon) (total : Nat) : ∀ fuel lens last,
    ZZ (Zip.readLensLoop ZS c total fuel lens last) (Zip.readLensLoop ZS c total fuel lens last) := by
  intro fuel
  induction fuel with
  | zero => intro lens last; rw [Zip.readLensLoop.eq_1]; rel_auto
  | succ fuel ih =>
    intro lens last; rw [Zip.readLensLoop.eq_2]
    rel_auto [ensureBits_rel files, removeBits_rel, readBits_rel files]

theorem zipReadLens_rd_rel (blc : Nat) : ∀ k acc, ZZ (zipReadLens.rd ZS blc k acc) (zipReadLens.rd ZS blc k acc) := by
  intro k
  induction k with
  | zero => intro acc; rw [zipReadLens.rd.eq_1]; rel_auto
  | succ k ih => intro acc; rw [zipReadLens.rd.eq_2]; rel_auto [readBits_rel files]

theorem zipReadLens_rel : ZZ (zipReadLens ZS) (zipReadLens ZS) := by
  unfold zipReadLens
  rel_auto [readBits_rel files, zipReadLens_rd_rel files, readLensLoop_rel files]

theorem flushWindow_rel (n : Nat) : ZZ (flushWindow (σ := Feeder) n) (flushWindow n) := by
  unfold flushWindow; rel_auto

theorem flushIfNeeded_rel : ZZ (flushIfNeeded (σ := Feeder)) flushIfNeeded := by
  unfold flushIfNeeded; rel_auto [flushWindow_rel]

theorem putByte_rel (b : UInt8) : ZZ (putByte (σ := Feeder) b) (putByte b) := by
  unfold putByte; rel_auto [flushIfNeeded_rel]

theorem copyStored_rel : ∀ fuel length, ZZ (copyStored ZS fuel length) (copyStored ZS fuel length) := by
  intro fuel
  induction fuel with
  | zero => intro length; rw [copyStored.eq_1]; rel_auto
  | succ fuel ih =>
    intro length; rw [copyStored.eq_2]
    rel_auto [readInput_rel files, flushIfNeeded_rel]

theorem copyMatch_rel : ∀ length posn, ZZ (Zip.copyMatch (σ := Feeder) length posn) (Zip.copyMatch length posn) := by
  intro length
  induction length with
  | zero => intro posn; rw [Zip.copyMatch.eq_1]; rel_auto
  | succ length ih => intro posn; rw [Zip.copyMatch.eq_2]; rel_auto [putByte_rel]

theorem huffBlock_rel (lit dist : Huff.Canon) : ∀ fuel, ZZ (huffBlock ZS lit dist fuel) (huffBlock ZS lit dist fuel) := by
  intro fuel
  induction fuel with
  | zero => rw [huffBlock.eq_1]; rel_auto
  | succ fuel ih =>
    rw [huffBlock.eq_2]
    rel_auto [readHuffSym_rel files, readBits_rel files, putByte_rel, copyMatch_rel]

theorem inflate_more_rel : ∀ k acc, ZZ (inflate.more ZS k acc) (inflate.more ZS k acc) := by
  intro k
  induction k with
  | zero => intro acc; rw [inflate.more.eq_1]; rel_auto
  | succ k ih => intro acc; rw [inflate.more.eq_2]; rel_auto [nextByte_rel files]

theorem inflate_rel : ∀ fuel, ZZ (inflate ZS fuel) (inflate ZS fuel) := by
  intro fuel
  induction fuel with
  | zero => rw [inflate.eq_1]; rel_auto
  | succ fuel ih =>
    rw [inflate.eq_2]
    rel_auto [readBits_rel files, inflate_more_rel files, copyStored_rel files, zipReadLens_rel files,
      huffBlock_rel files, flushWindow_rel]

theorem scanCK_rel : ∀ fuel state, ZZ (scanCK ZS fuel state) (scanCK ZS fuel state) := by
  intro fuel
  induction fuel with
  | zero => intro state; rw [scanCK.eq_1]; rel_auto
  | succ fuel ih => intro state; rw [scanCK.eq_2]; rel_auto [readBits_rel files]

section norep
variable {σ : Type} (S : Src σ)
/-- the repair flag is off (and no helper of `inflate` touches it) -/
def NoRep (st : Zip.St σ) : Prop := st.repair = false
theorem readInput_norep : Keeps NoRep (readInput S) := by
  unfold readInput; keeps_auto

theorem nextByte_norep : Keeps NoRep (nextByte S) := by
  unfold nextByte; keeps_auto [readInput_norep S]

theorem ensureBits_norep (n : Nat) : ∀ fuel, Keeps NoRep (ensureBits S n fuel) := by
  intro fuel
  induction fuel with
  | zero => rw [ensureBits.eq_1]; keeps_auto
  | succ fuel ih => rw [ensureBits.eq_2]; keeps_auto [ih, nextByte_norep S]

theorem removeBits_norep (n : Nat) : Keeps NoRep (removeBits (σ := σ) n) := by
  unfold removeBits; keeps_auto

theorem readBits_norep (n : Nat) : Keeps NoRep (readBits S n) := by
  unfold readBits; keeps_auto [ensureBits_norep S, removeBits_norep]

theorem readHuffSym_norep (c : Huff.Canon) : Keeps NoRep (readHuffSym S c) := by
  unfold readHuffSym; keeps_auto [ensureBits_norep S, removeBits_norep]

theorem readLensLoop_norep (c : Huff.Canon) (total : Nat) : ∀ fuel lens last,
    Keeps NoRep (readLensLoop S c total fuel lens last) := by
  intro fuel
  induction fuel with
  | zero => intro lens last; rw [readLensLoop.eq_1]; keeps_auto
  | succ fuel ih =>
    intro lens last; rw [readLensLoop.eq_2]
    keeps_auto [ih, ensureBits_norep S, removeBits_norep, readBits_norep S]

theorem zipReadLens_rd_norep (blc : Nat) : ∀ k acc, Keeps NoRep (zipReadLens.rd S blc k acc) := by
  intro k
  induction k with
  | zero => intro acc; rw [zipReadLens.rd.eq_1]; keeps_auto
  | succ k ih => intro acc; rw [zipReadLens.rd.eq_2]; keeps_auto [ih, readBits_norep S]

theorem zipReadLens_norep : Keeps NoRep (zipReadLens S) := by
  unfold zipReadLens
  keeps_auto [readBits_norep S, zipReadLens_rd_norep S, readLensLoop_norep S]

theorem flushWindow_norep (n : Nat) : Keeps NoRep (flushWindow (σ := σ) n) := by
  unfold flushWindow; keeps_auto

theorem flushIfNeeded_norep : Keeps NoRep (flushIfNeeded (σ := σ)) := by
  unfold flushIfNeeded; keeps_auto [flushWindow_norep]

theorem putByte_norep (b : UInt8) : Keeps NoRep (putByte (σ := σ) b) := by
  unfold putByte; keeps_auto [flushIfNeeded_norep]

theorem copyStored_norep : ∀ fuel length, Keeps NoRep (copyStored S fuel length) := by
  intro fuel
  induction fuel with
  | zero => intro length; rw [copyStored.eq_1]; keeps_auto
  | succ fuel ih =>
    intro length; rw [copyStored.eq_2]
    keeps_auto [ih, readInput_norep S, flushIfNeeded_norep]

theorem copyMatch_norep : ∀ length posn, Keeps NoRep (copyMatch (σ := σ) length posn) := by
  intro length
  induction length with
  | zero => intro posn; rw [copyMatch.eq_1]; keeps_auto
  | succ length ih => intro posn; rw [copyMatch.eq_2]; keeps_auto [ih, putByte_norep]

theorem huffBlock_norep (lit dist : Huff.Canon) : ∀ fuel, Keeps NoRep (huffBlock S lit dist fuel) := by
  intro fuel
  induction fuel with
  | zero => rw [huffBlock.eq_1]; keeps_auto
  | succ fuel ih =>
    rw [huffBlock.eq_2]
    keeps_auto [ih, readHuffSym_norep S, readBits_norep S, putByte_norep, copyMatch_norep]

theorem inflate_more_norep : ∀ k acc, Keeps NoRep (inflate.more S k acc) := by
  intro k
  induction k with
  | zero => intro acc; rw [inflate.more.eq_1]; keeps_auto
  | succ k ih => intro acc; rw [inflate.more.eq_2]; keeps_auto [ih, nextByte_norep S]

theorem inflate_norep : ∀ fuel, Keeps NoRep (inflate S fuel) := by
  intro fuel
  induction fuel with
  | zero => rw [inflate.eq_1]; keeps_auto
  | succ fuel ih =>
    rw [inflate.eq_2]
    keeps_auto [ih, readBits_norep S, inflate_more_norep S, copyStored_norep S, zipReadLens_norep S,
      huffBlock_norep S, flushWindow_norep]

end norep

/-- what the relaxed call must deliver for an OK strict call -/
def ZSame (o1 : Zip.Out Feeder) (r : Except Fault (Zip.Out Feeder)) : Prop :=
  ∃ o2, r = .ok o2 ∧ o2.err = .ok ∧ o2.written = o1.written ∧ ZR o1.st o2.st

theorem runInflate_rel (fuel : Nat) (s1 s2 : Zip.St Feeder) (hr : ZR s1 s2) (res : InfRes) (s1' : Zip.St Feeder)
    (h : runInflate ZS fuel s1 = .ok (res, s1')) :
    (res = .ok → ∃ s2', runInflate ZS fuel s2 = .ok (.ok, s2') ∧ ZR s1' s2') ∧
    (res ≠ .ok → s1'.repair = false → ∀ e, res = .sys e → e ≠ .ok) := by
  refine ⟨fun hres => ?_, fun _ _ e he => CountLaws.Zip.runInflate_sys ZS fuel s1 e s1' (he ▸ h)⟩
  subst hres
  unfold runInflate at h ⊢
  split at h
  · rename_i s heq
    cases h
    obtain ⟨s2', h2, hr2⟩ := (inflate_rel files fuel).out s1 s2 hr _ _ heq
    rw [h2]
    exact ⟨s2', rfl, hr2⟩
  · cases h
  · cases h
  · cases h

theorem runInflate_norep (fuel : Nat) (s1 s1' : Zip.St Feeder) (res : InfRes) (hn : s1.repair = false)
    (h : runInflate ZS fuel s1 = .ok (res, s1')) : s1'.repair = false := by
  unfold runInflate at h
  split at h
  · rename_i heq; cases h; exact (inflate_norep ZS fuel).out s1 hn _ _ heq
  · cases h
  · rename_i heq; cases h; exact (inflate_norep ZS fuel).out s1 hn _ _ heq
  · rename_i heq; cases h; exact (inflate_norep ZS fuel).out s1 hn _ _ heq

theorem ZSame_ok {s1 s2 : Zip.St Feeder} (hr : ZR s1 s2) (w : Bytes) : ZSame ⟨.ok, w, s1⟩ (.ok ⟨.ok, w, s2⟩) :=
  ⟨_, rfl, rfl, rfl, hr⟩

theorem decompressLoop_relax (fuel : Nat) : ∀ (n : Nat) (s1 s2 : Zip.St Feeder) (outBytes : Nat) (w : Bytes)
    (o1 : Zip.Out Feeder), ZR s1 s2 → decompressLoop ZS fuel n s1 outBytes w = .ok o1 → o1.err = .ok →
    ZSame o1 (decompressLoop ZS fuel n s2 outBytes w) := by
  intro n
  induction n with
  | zero => intro s1 s2 outBytes w o1 _ h; rw [decompressLoop.eq_1] at h; cases h
  | succ n ih =>
    intro s1 s2 outBytes w o1 hr h he
    rw [decompressLoop.eq_2] at h ⊢
    split at h
    · rename_i h0
      cases h
      rw [if_pos h0]
      exact ZSame_ok hr w
    · rename_i h0
      rw [if_neg h0]
      dsimp only at h ⊢
      have hr1 : ZR { s1 with bits := s1.bits.drop (s1.bits.length % 8) } { s2 with bits := s2.bits.drop (s2.bits.length % 8) } := by
        constructor <;> first | exact hr.src | exact hr.repair | rfl | (simp only [hr.inbufSize, hr.inbuf, hr.inputEnd, hr.bits, hr.window, hr.windowPosn, hr.bytesOutput, hr.litLens, hr.distLens, hr.error, hr.pending]; done)
      split at h
      · cases h
      · cases h; cases he
      · rename_i e s heq
        cases h
        exact absurd he ((CountLaws.Zip.scanCK_throws ZS fuel 0).out _ _ _ heq)
      · rename_i t1 heq
        obtain ⟨t2, h2, hrt⟩ := (scanCK_rel files fuel 0).out _ _ hr1 _ _ heq
        rw [h2]
        dsimp only
        have hr2 : ZR { t1 with windowPosn := 0, bytesOutput := 0 } { t2 with windowPosn := 0, bytesOutput := 0 } := by
          constructor <;> first | exact hrt.src | exact hrt.repair | rfl | (simp only [hrt.inbufSize, hrt.inbuf, hrt.inputEnd, hrt.bits, hrt.window, hrt.windowPosn, hrt.bytesOutput, hrt.litLens, hrt.distLens, hrt.error, hrt.pending]; done)
        split at h
        · cases h
        · rename_i res u1 hri
          have hnr := runInflate_norep files fuel _ u1 res hr2.repair hri
          have hri2 := runInflate_rel files fuel _ _ hr2 res u1 hri
          cases res with
          | inf =>
            simp only [ne_eq, reduceCtorEq, not_false_eq_true, hnr, Bool.not_false, and_self, ↓reduceIte] at h
            cases h; cases he
          | sys e =>
            simp only [ne_eq, reduceCtorEq, not_false_eq_true, hnr, Bool.not_false, and_self, ↓reduceIte] at h
            cases h
            exact absurd he (hri2.2 (by simp) hnr e rfl)
          | ok =>
            obtain ⟨u2, hu2, hru⟩ := hri2.1 rfl
            rw [hu2]
            simp only [ne_eq, not_true_eq_false, false_and, ↓reduceIte] at h ⊢
            rw [hru.window, hru.bytesOutput]
            refine ih _ _ _ _ _ ?_ h he
            constructor <;> first | exact hru.src | exact hru.repair | rfl | (simp only [hru.inbufSize, hru.inbuf, hru.inputEnd, hru.bits, hru.window, hru.windowPosn, hru.bytesOutput, hru.litLens, hru.distLens, hru.error, hru.pending]; done)

/-- **MSZIP under relaxed flags**: an OK call of the strict decoder is repeated verbatim by one that differs
    in the feeder's flags and the repair flag -/
theorem zip_relax (fuel : Nat) (s1 s2 : Zip.St Feeder) (n : Nat) (o1 : Zip.Out Feeder) (hr : ZR s1 s2)
    (h : Zip.decompress ZS fuel s1 n = .ok o1) (he : o1.err = .ok) : ZSame o1 (Zip.decompress ZS fuel s2 n) := by
  unfold Zip.decompress at h ⊢
  rw [hr.error, hr.pending]
  split at h
  · rename_i hne; cases h; exact absurd he hne
  · rename_i hne
    rw [if_neg hne]
    dsimp only at h ⊢
    split at h
    · rename_i h0
      cases h
      rw [if_pos h0]
      refine ZSame_ok ?_ _
      constructor <;> first | exact hr.src | exact hr.repair | rfl | (simp only [hr.inbufSize, hr.inbuf, hr.inputEnd, hr.bits, hr.window, hr.windowPosn, hr.bytesOutput, hr.litLens, hr.distLens, hr.error, hr.pending]; done)
    · rename_i h0
      rw [if_neg h0]
      refine decompressLoop_relax files fuel fuel _ _ _ _ _ ?_ h he
      constructor <;> first | exact hr.src | exact hr.repair | rfl | (simp only [hr.inbufSize, hr.inbuf, hr.inputEnd, hr.bits, hr.window, hr.windowPosn, hr.bytesOutput, hr.litLens, hr.distLens, hr.error, hr.pending]; done)


end zip

end MsPack.CountLaws.Relax
