import MsPack.Qtm.Decoder
import MsPack.Lzss.Decoder
/-!
# Quantum: request chunking (lemmas for C08Qtm)

`qtmd_decompress(qtm, n)` first hands out stored-up bytes (`o_ptr .. o_end` of the window), then decodes up to a
`frame_end` that depends on `n`.  Here: the part of the chunking law that concerns the stored-up bytes
(`pend_exact`, `pend_join`), and the witness stream for the failure of the converse law (`witness`, `view`).
-/
namespace MsPack.Qtm.QtmChunk
open MsPack MsPack.Qtm

variable {σ : Type} (S : Src σ)

/-- a request inside the stored-up bytes: they are handed out, nothing is decoded -/
theorem pend_exact (fuel : Nat) (st : St σ) (he : st.error = .ok) (a : Nat) (ha : a ≤ st.oEnd - st.oPtr)
    (hb : st.oEnd ≤ st.window.size) :
    decompress S fuel st a =
      .ok ⟨.ok, (st.window.extract st.oPtr (st.oPtr + a)).toList, { st with oPtr := st.oPtr + a }⟩ := by
  have hi : (if st.oEnd - st.oPtr > a then a else st.oEnd - st.oPtr) = a := by split <;> omega
  unfold decompress
  rw [if_neg (fun h => h he)]
  dsimp only
  rw [hi, if_neg (by omega), Nat.sub_self, if_pos rfl]

/-- two requests inside the stored-up bytes are one request -/
theorem pend_join (fuel : Nat) (st : St σ) (he : st.error = .ok) (a b : Nat) (hab : a + b ≤ st.oEnd - st.oPtr)
    (hb : st.oEnd ≤ st.window.size) :
    ∃ w1 st1 w2 st2, decompress S fuel st a = .ok ⟨.ok, w1, st1⟩ ∧ decompress S fuel st1 b = .ok ⟨.ok, w2, st2⟩ ∧
      decompress S fuel st (a + b) = .ok ⟨.ok, w1 ++ w2, st2⟩ := by
  refine ⟨_, _, _, _, pend_exact S fuel st he a (by omega) hb,
    pend_exact S fuel { st with oPtr := st.oPtr + a } he b (by dsimp only; omega) hb, ?_⟩
  rw [pend_exact S fuel st he (a + b) hab hb]
  dsimp only
  rw [← Array.toList_append, Array.extract_append_extract, Nat.add_assoc]
  have h1 : min st.oPtr (st.oPtr + a) = st.oPtr := by omega
  have h2 : max (st.oPtr + a) (st.oPtr + (a + b)) = st.oPtr + (a + b) := by omega
  rw [h1, h2]

/-! ## the witness for the converse -/

/-- a pseudo-random byte stream (any byte stream is a Quantum stream: the arithmetic decoder turns it into symbols) -/
def lcg (seed : Nat) : Nat → List UInt8
  | 0 => []
  | n + 1 =>
    let s := (seed * 1103515245 + 12345) % 2147483648
    UInt8.ofNat (s / 65536 % 256) :: lcg s n

/-- 3000 bytes from seed 1 -/
def witness : Bytes := lcg 1 3000

/-- status and number of bytes written -/
def view {τ : Type} : Except Fault (DecodeOut τ) → Option (Err × Nat)
  | .ok o => some (o.err, o.written.length)
  | .error _ => none

end MsPack.Qtm.QtmChunk
