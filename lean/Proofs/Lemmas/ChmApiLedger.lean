import Proofs.Lemmas.OabApiLedger
import MsPack.Chm.Api
/-
Ledger effect of the CHM API functions (model `MsPack/Chm/Api.lean`): every path of `create`,
`destroy`, `open` / `fast_open` (`chmd_real_open`, `chmd_read_headers`), `close`, `fast_find`
(`read_chunk`, the two search loops), `extract` (`chmd_init_decomp`, `find_sys_file`,
`read_sys_file`, `read_reset_table`, `read_spaninfo`, `lzxd_init`, the section-0 copy loop), under
any fault plan, for any file contents, for every value of the parsing parameter `Parse`, and for any
LZX decoder that satisfies the frame law.

chmd.c does *not* release in stack order (headers are closed in any order, the decoder cache
`self->d` lives across calls and is dropped by whichever `close` owns it), so the ledger during a
session is described by `Own v ex hs`: the live blocks are, up to order, the client's own (`v`)
plus the blocks `ex`; the client's own are still there in their order; the handles opened on top of
the client's are `hs` (these do follow a stack, except that `close` may drop the decoder's input
handle from under the one `open` holds).
-/
namespace MsPack.Chm.Api
open MsPack MsPack.Sys MsPack.Chm
open MsPack.Szdd.Api (Frame ok_add_alloc ok_add_handle)
open MsPack.Oab.Api (Lzx lzxdFree lzxdFreeIf closeIf lzxBlocks)

/-! ## the three extra primitives -/

theorem tell_live_view (w : World) (hok : w.view.ok) (id : Nat) (m : Mode) (h : (id, m) ∈ w.view.handles) :
    (tell id w).2.view = w.view := by
  obtain ⟨hd, hf, _, _, _⟩ := findHandle_of_view w hok id m h
  unfold tell
  rw [hf]

theorem seekAbs_live_view (w : World) (hok : w.view.ok) (id : Nat) (off : Int) (m : Mode)
    (h : (id, m) ∈ w.view.handles) : (seekAbs id off w).2.view = w.view := by
  unfold seekAbs
  split
  · exact seek_live_view w hok id _ m h
  · obtain ⟨hd, hf, _, _, _⟩ := findHandle_of_view w hok id m h
    simp only [tick]
    have hf' : findHandle { w with counts := w.counts.bump Kind.seek } id = some hd := hf
    rw [hf']
    rfl

theorem seekEnd_live_view (w : World) (hok : w.view.ok) (id : Nat) (m : Mode) (h : (id, m) ∈ w.view.handles) :
    (seekEnd id w).2.view = w.view := by
  obtain ⟨hd, hf, hmem, hid, hmode⟩ := findHandle_of_view w hok id m h
  unfold seekEnd
  simp only [tick]
  have hf' : findHandle { w with counts := w.counts.bump Kind.seek } id = some hd := hf
  rw [hf']
  simp only
  split
  · rfl
  · exact setHandle_view _ hok hd _ hmem rfl rfl

/-! ## `Own` -/

/-- decide a permutation goal between lists built from `++`, `::` and atoms -/
macro "perm_tac" : tactic =>
  `(tactic| (rw [List.perm_iff_count]; intro c;
             (try simp only [List.count_append, List.count_cons, List.count_nil, List.append_assoc, List.nil_append,
               List.append_nil]) <;>
             omega))

theorem filter_erase_of_not (p : Nat → Bool) (a : Nat) (hp : p a = false) :
    ∀ l : List Nat, (l.erase a).filter p = l.filter p := by
  intro l
  induction l with
  | nil => rfl
  | cons x xs ih =>
    by_cases hx : x = a
    · subst hx; simp [hp]
    · have : (x == a) = false := by simpa using hx
      rw [List.erase_cons_tail (by simpa using hx)]
      simp only [List.filter_cons, ih]

/-- the live blocks are the client's (`v.allocs`, still in their order) plus `ex` (in any order);
    the handles are `hs` on top of the client's; no misuse was added; ids only grow -/
structure Own (v : View) (ex : List Nat) (hs : List (Nat × Mode)) (w : World) : Prop where
  perm    : w.view.allocs.Perm (ex ++ v.allocs)
  old     : w.view.allocs.filter (fun a => decide (a < v.nextId)) = v.allocs
  fresh   : ∀ a ∈ ex, v.nextId ≤ a
  handles : w.view.handles = hs ++ v.handles
  misuse  : w.view.misuse = v.misuse
  nextId  : v.nextId ≤ w.view.nextId
  ok      : w.view.ok

section kit
variable {v : View} {ex ex' : List Nat} {hs : List (Nat × Mode)} {w : World}

theorem Own.of_view_eq (hv : v.ok) (h : w.view = v) : Own v [] [] w := by
  subst h
  refine ⟨List.Perm.refl _, ?_, (fun _ h => nomatch h), rfl, rfl, Nat.le_refl _, hv⟩
  apply List.filter_eq_self.mpr
  intro a ha
  simpa using hv.allocs_lt a ha

theorem Own.frame (hv : v.ok) (p : Own v [] [] w) : Frame v w := by
  refine ⟨?_, p.handles, p.misuse, p.nextId⟩
  have hp : w.view.allocs.Perm v.allocs := p.perm
  rw [← p.old]
  symm
  apply List.filter_eq_self.mpr
  intro a ha
  simpa using hv.allocs_lt a (hp.mem_iff.mp ha)

theorem Own.keep (p : Own v ex hs w) {w' : World} (h : w'.view = w.view) : Own v ex hs w' :=
  ⟨by rw [h]; exact p.perm, by rw [h]; exact p.old, p.fresh, by rw [h]; exact p.handles,
   by rw [h]; exact p.misuse, by rw [h]; exact p.nextId, by rw [h]; exact p.ok⟩

theorem Own.step (p : Own v ex hs w) {w' : World} (f : Frame w.view w') : Own v ex hs w' :=
  ⟨by rw [f.allocs]; exact p.perm, by rw [f.allocs]; exact p.old, p.fresh, f.handles.trans p.handles,
   f.misuse.trans p.misuse, Nat.le_trans p.nextId f.nextId, f.ok p.ok⟩

theorem Own.reorder (p : Own v ex hs w) (h : ex.Perm ex') : Own v ex' hs w :=
  ⟨p.perm.trans (h.append_right _), p.old, fun a ha => p.fresh a (h.mem_iff.mpr ha), p.handles, p.misuse,
   p.nextId, p.ok⟩

theorem Own.alloc_none (p : Own v ex hs w) (h : (alloc w).1 = none) : Own v ex hs (alloc w).2 := by
  rcases alloc_spec w with ⟨_, a2⟩ | ⟨a1, _⟩
  · exact p.keep a2
  · rw [a1] at h; cases h

theorem Own.alloc_some (p : Own v ex hs w) {a : Nat} (h : (alloc w).1 = some a) :
    Own v (a :: ex) hs (alloc w).2 := by
  rcases alloc_spec w with ⟨a1, _⟩ | ⟨a1, a2⟩
  · rw [a1] at h; cases h
  · rw [a1] at h; cases h
    have h0 : w.view.nextId = w.nextId := rfl
    have hn := p.nextId
    refine ⟨?_, ?_, ?_, ?_, ?_, ?_, ?_⟩
    · rw [a2]; exact List.Perm.cons _ p.perm
    · rw [a2]; dsimp only
      rw [List.filter_cons]
      have : decide (w.nextId < v.nextId) = false := by simp; omega
      rw [this]; exact p.old
    · intro x hx
      rcases List.mem_cons.mp hx with rfl | hx
      · omega
      · exact p.fresh x hx
    · rw [a2]; exact p.handles
    · rw [a2]; exact p.misuse
    · rw [a2]; dsimp only; omega
    · rw [a2]; exact ok_add_alloc p.ok

theorem Own.free_none (p : Own v ex hs w) : Own v ex hs (free none w).2 := p.keep (free_none_view w)

/-- `sys->free` of a block we own -/
theorem Own.free_top {a : Nat} (p : Own v (a :: ex) hs w) : Own v ex hs (free (some a) w).2 := by
  have hmem : a ∈ w.view.allocs := p.perm.mem_iff.mpr (by simp)
  have hf := free_live_view w a hmem
  have hfr : v.nextId ≤ a := p.fresh a (by simp)
  refine ⟨?_, ?_, fun x hx => p.fresh x (List.mem_cons_of_mem _ hx), ?_, ?_, ?_, ?_⟩
  · rw [hf]; dsimp only
    have := p.perm.erase a
    simpa using this
  · rw [hf]; dsimp only
    rw [filter_erase_of_not _ a (by simp; omega)]
    exact p.old
  · rw [hf]; exact p.handles
  · rw [hf]; exact p.misuse
  · rw [hf]; exact p.nextId
  · rw [hf]
    exact ⟨fun x hx => p.ok.allocs_lt x (List.mem_of_mem_erase hx), p.ok.handles_lt, p.ok.handles_nd⟩

theorem Own.free_opt {o : Option Nat} (p : Own v (o.toList ++ ex) hs w) : Own v ex hs (free o w).2 := by
  cases o with
  | none => exact p.free_none
  | some a => exact p.free_top

theorem Own.open_none {name : String} {m : Mode} (p : Own v ex hs w) (h : (open_ name m w).1 = none) :
    Own v ex hs (open_ name m w).2 := by
  rcases open_spec name m w with ⟨_, o2⟩ | ⟨o1, _⟩
  · exact p.keep o2
  · rw [o1] at h; cases h

theorem Own.open_some {name : String} {m : Mode} (p : Own v ex hs w) {id : Nat}
    (h : (open_ name m w).1 = some id) : Own v ex ((id, m) :: hs) (open_ name m w).2 := by
  rcases open_spec name m w with ⟨o1, _⟩ | ⟨o1, o2⟩
  · rw [o1] at h; cases h
  · rw [o1] at h; cases h
    have h0 : w.view.nextId = w.nextId := rfl
    refine ⟨?_, ?_, p.fresh, ?_, ?_, ?_, ?_⟩
    · rw [o2]; exact p.perm
    · rw [o2]; exact p.old
    · rw [o2]; dsimp only; rw [p.handles]; rfl
    · rw [o2]; exact p.misuse
    · rw [o2]; have := p.nextId; dsimp only; omega
    · rw [o2]; exact ok_add_handle p.ok m

/-- `sys->close` of one of our handles, wherever it sits among them -/
theorem Own.close_at {id : Nat} {m : Mode} (pre : List (Nat × Mode)) (p : Own v ex (pre ++ (id, m) :: hs) w) :
    Own v ex (pre ++ hs) (Sys.close id w).2 := by
  have hmem : (id, m) ∈ w.view.handles := by rw [p.handles]; simp
  have hc := close_live_view w p.ok id m hmem
  have hnd := p.ok.handles_nd
  rw [p.handles] at hnd
  simp only [List.append_assoc, List.cons_append, List.map_append, List.map_cons] at hnd
  have hnd' := (List.nodup_append.mp hnd)
  have hnd2 := List.nodup_cons.mp hnd'.2.1
  have hfil : w.view.handles.filter (·.1 ≠ id) = (pre ++ hs) ++ v.handles := by
    rw [p.handles]
    simp only [List.append_assoc, List.cons_append, List.filter_append, List.filter_cons, ne_eq, not_true_eq_false,
      decide_false, Bool.false_eq_true, ↓reduceIte]
    congr 1
    · apply List.filter_eq_self.mpr
      intro h hh
      have : h.1 ≠ id := fun e =>
        hnd'.2.2 h.1 (List.mem_map.mpr ⟨h, hh, rfl⟩) id (by simp) e
      simpa using this
    · rw [← List.filter_append]
      apply List.filter_eq_self.mpr
      intro h hh
      have : h.1 ≠ id := fun e => hnd2.1 (by
        rw [← List.map_append]; exact List.mem_map.mpr ⟨h, hh, e⟩)
      simpa using this
  refine ⟨?_, ?_, p.fresh, ?_, ?_, ?_, ?_⟩
  · rw [hc]; exact p.perm
  · rw [hc]; exact p.old
  · rw [hc]; exact hfil
  · rw [hc]; exact p.misuse
  · rw [hc]; exact p.nextId
  · rw [hc]
    refine ⟨p.ok.allocs_lt, fun h hh => p.ok.handles_lt h ((List.mem_filter.mp hh).1), ?_⟩
    dsimp only
    rw [hfil]
    simp only [List.append_assoc, List.map_append]
    have h3 := hnd'
    refine List.nodup_append.mpr ⟨h3.1, hnd2.2, ?_⟩
    intro a ha b hb
    exact h3.2.2 a ha b (List.mem_cons_of_mem _ hb)

theorem Own.close_top {id : Nat} {m : Mode} (p : Own v ex ((id, m) :: hs) w) : Own v ex hs (Sys.close id w).2 :=
  Own.close_at [] p

theorem Own.mem_handles (p : Own v ex hs w) {x : Nat × Mode} (h : x ∈ hs ++ v.handles) : x ∈ w.view.handles := by
  rw [p.handles]; exact h

end kit

/-! ## Hoare triples over `Sys.M` -/

/-- from a world that satisfies `P`, `x` yields a result and a world that satisfy `Q` -/
def Spec {α} (P : World → Prop) (x : M α) (Q : α → World → Prop) : Prop := ∀ w, P w → Q (x w).1 (x w).2

theorem Spec.pure {α} {P : World → Prop} {Q : α → World → Prop} {a : α} (h : ∀ w, P w → Q a w) :
    Spec P (Pure.pure a : M α) Q := fun w hw => h w hw

theorem Spec.bind {α β} {P : World → Prop} {R : α → World → Prop} {Q : β → World → Prop} {x : M α} {f : α → M β}
    (hx : Spec P x R) (hf : ∀ a, Spec (R a) (f a) Q) : Spec P (x >>= f) Q := fun w hw => by
  rw [bind_apply]; exact hf _ _ (hx w hw)

theorem Spec.conseq {α} {P P' : World → Prop} {Q Q' : α → World → Prop} {x : M α}
    (hP : ∀ w, P' w → P w) (hx : Spec P x Q) (hQ : ∀ a w, Q a w → Q' a w) : Spec P' x Q' :=
  fun w hw => hQ _ _ (hx w (hP w hw))

theorem Spec.pre {α} {P P' : World → Prop} {Q : α → World → Prop} {x : M α}
    (hP : ∀ w, P' w → P w) (hx : Spec P x Q) : Spec P' x Q := fun w hw => hx w (hP w hw)

theorem Spec.post {α} {P : World → Prop} {Q Q' : α → World → Prop} {x : M α}
    (hx : Spec P x Q) (hQ : ∀ a w, Q a w → Q' a w) : Spec P x Q' := fun w hw => hQ _ _ (hx w hw)

section prims
variable {v : View} {ex : List Nat} {hs : List (Nat × Mode)}

/-- reorder the owned blocks before a step -/
theorem Spec.reorder {α} {ex' : List Nat} {Q : α → World → Prop} {x : M α}
    (h : ex.Perm ex') (hx : Spec (Own v ex' hs) x Q) : Spec (Own v ex hs) x Q :=
  Spec.pre (fun _ p => p.reorder h) hx

theorem spec_alloc : Spec (Own v ex hs) alloc (fun r => Own v (r.toList ++ ex) hs) := fun w p => by
  cases h : (alloc w).1 with
  | none => exact p.alloc_none h
  | some a => exact p.alloc_some h

theorem spec_free_top {a : Nat} : Spec (Own v (a :: ex) hs) (free (some a)) (fun _ => Own v ex hs) :=
  fun _ p => p.free_top

theorem spec_free_opt {o : Option Nat} : Spec (Own v (o.toList ++ ex) hs) (free o) (fun _ => Own v ex hs) :=
  fun _ p => p.free_opt

theorem spec_open {name : String} {m : Mode} :
    Spec (Own v ex hs) (open_ name m) (fun r => Own v ex (r.toList.map (·, m) ++ hs)) := fun w p => by
  cases h : (open_ name m w).1 with
  | none => exact p.open_none h
  | some a => exact p.open_some h

theorem spec_close_top {id : Nat} {m : Mode} : Spec (Own v ex ((id, m) :: hs)) (Sys.close id) (fun _ => Own v ex hs) :=
  fun _ p => p.close_top

theorem spec_read {fh n : Nat} (h : (fh, Mode.read) ∈ hs ++ v.handles) :
    Spec (Own v ex hs) (read fh n) (fun _ => Own v ex hs) :=
  fun w p => p.keep (read_live_view w p.ok fh n (p.mem_handles h))

theorem spec_write {fh : Nat} {bs : Bytes} (h : (fh, Mode.write) ∈ hs ++ v.handles) :
    Spec (Own v ex hs) (write fh bs) (fun _ => Own v ex hs) :=
  fun w p => p.keep (write_live_view w p.ok fh bs (p.mem_handles h))

theorem spec_seekAbs {fh : Nat} {off : Int} {m : Mode} (h : (fh, m) ∈ hs ++ v.handles) :
    Spec (Own v ex hs) (seekAbs fh off) (fun _ => Own v ex hs) :=
  fun w p => p.keep (seekAbs_live_view w p.ok fh off m (p.mem_handles h))

theorem spec_seekStart {fh off : Nat} {m : Mode} (h : (fh, m) ∈ hs ++ v.handles) :
    Spec (Own v ex hs) (seekStart fh off) (fun _ => Own v ex hs) :=
  fun w p => p.keep (seek_live_view w p.ok fh off m (p.mem_handles h))

theorem spec_seekCur {fh : Nat} {off : Int} {m : Mode} (h : (fh, m) ∈ hs ++ v.handles) :
    Spec (Own v ex hs) (seekCur fh off) (fun _ => Own v ex hs) :=
  fun w p => p.keep (seekCur_live_view w p.ok fh off m (p.mem_handles h))

theorem spec_seekEnd {fh : Nat} {m : Mode} (h : (fh, m) ∈ hs ++ v.handles) :
    Spec (Own v ex hs) (seekEnd fh) (fun _ => Own v ex hs) :=
  fun w p => p.keep (seekEnd_live_view w p.ok fh m (p.mem_handles h))

theorem spec_tell {fh : Nat} {m : Mode} (h : (fh, m) ∈ hs ++ v.handles) :
    Spec (Own v ex hs) (tell fh) (fun _ => Own v ex hs) :=
  fun w p => p.keep (tell_live_view w p.ok fh m (p.mem_handles h))

/-- nothing happens -/
theorem spec_ret {α} {a : α} {Q : α → World → Prop} {P : World → Prop} (h : ∀ w, P w → Q a w) :
    Spec P (Pure.pure a : M α) Q := Spec.pure h

end prims

/-! ## what a session owns -/

variable {σ : Type}

/-- the non-NULL slots of the chunk cache -/
def slotBlocks (s : List (Option (Nat × Bytes))) : List Nat := s.flatMap fun o => (o.map (·.1)).toList

def cacheBlocks : Option Cache → List Nat
  | none => []
  | some c => slotBlocks c.slots ++ [c.mem]

/-- the blocks of a header, in the order `chmd_close` gives them back -/
def Hdr.blocks (h : Hdr) : List Nat := h.files ++ (h.sysfiles ++ (cacheBlocks h.cache ++ [h.mem]))

def stBlocks (st : Option (Lzx × σ)) : List Nat := lzxBlocks (st.map (·.1))

def decBlocks : Option (Dec σ) → List Nat
  | none => []
  | some d => stBlocks d.state ++ [d.mem]

def decHandles : Option (Dec σ) → List (Nat × Mode)
  | none => []
  | some d => d.infh.toList.map (·, Mode.read)

section specs
variable {v : View} {ex : List Nat} {hs : List (Nat × Mode)}

/-! ## `lzxd_free`, dropping the decoder cache, `chmd_close` -/

theorem lzxdFree_spec (l : Lzx) : Spec (Own v (lzxBlocks (some l) ++ ex) hs) (lzxdFree l) (fun _ => Own v ex hs) := by
  intro w p
  unfold lzxdFree
  simp only [bind_apply]
  exact (Own.free_top (Own.free_top (Own.free_top p)))

theorem lzxdFreeIf_spec (l : Option Lzx) : Spec (Own v (lzxBlocks l ++ ex) hs) (lzxdFreeIf l) (fun _ => Own v ex hs) := by
  cases l with
  | none => exact fun w p => p
  | some l => exact lzxdFree_spec l

theorem lzxFreeSt_spec (st : Option (Lzx × σ)) :
    Spec (Own v (stBlocks st ++ ex) hs) (lzxFreeSt st) (fun _ => Own v ex hs) := lzxdFreeIf_spec _

theorem closeIf_spec (pre : List (Nat × Mode)) (o : Option Nat) (m : Mode) :
    Spec (Own v ex (pre ++ (o.toList.map (·, m) ++ hs))) (closeIf o) (fun _ => Own v ex (pre ++ hs)) := by
  cases o with
  | none => exact fun w p => p
  | some fh => exact fun w p => Own.close_at pre p

theorem dropDec_spec (pre : List (Nat × Mode)) (d : Dec σ) :
    Spec (Own v (decBlocks (some d) ++ ex) (pre ++ (decHandles (some d) ++ hs))) (dropDec d)
      (fun _ => Own v ex (pre ++ hs)) := by
  unfold dropDec
  refine Spec.bind (closeIf_spec pre d.infh .read) fun _ => ?_
  refine Spec.bind (R := fun _ => Own v (d.mem :: ex) (pre ++ hs)) ?_ fun _ => spec_free_top
  refine Spec.pre (fun w p => ?_) (lzxdFreeIf_spec (ex := d.mem :: ex) (d.state.map (·.1)))
  refine p.reorder ?_
  simp only [decBlocks, stBlocks, List.append_assoc, List.singleton_append]
  exact List.Perm.refl _

theorem dropDecIf_spec (pre : List (Nat × Mode)) (d : Option (Dec σ)) :
    Spec (Own v (decBlocks d ++ ex) (pre ++ (decHandles d ++ hs))) (dropDecIf d) (fun _ => Own v ex (pre ++ hs)) := by
  cases d with
  | none => exact fun w p => p
  | some d => exact dropDec_spec pre d

theorem dropDecOf_spec (pre : List (Nat × Mode)) (d : Option (Dec σ)) (chm : Nat) :
    Spec (Own v (decBlocks d ++ ex) (pre ++ (decHandles d ++ hs))) (dropDecOf d chm)
      (fun d' => Own v (decBlocks d' ++ ex) (pre ++ (decHandles d' ++ hs))) := by
  cases d with
  | none => exact fun w p => p
  | some d =>
    unfold dropDecOf
    dsimp only
    split
    · exact Spec.bind (dropDec_spec pre d) fun _ => Spec.pure fun w p => p
    · exact Spec.pure fun w p => p

theorem freeList_spec (l : List Nat) : Spec (Own v (l ++ ex) hs) (freeList l) (fun _ => Own v ex hs) := by
  induction l with
  | nil => exact fun w p => p
  | cons a as ih =>
    rw [freeList.eq_2]
    exact Spec.bind spec_free_top fun _ => ih

theorem freeSlots_spec (s : List (Option (Nat × Bytes))) :
    Spec (Own v (slotBlocks s ++ ex) hs) (freeSlots s) (fun _ => Own v ex hs) := by
  induction s with
  | nil => exact fun w p => p
  | cons o os ih =>
    rw [freeSlots.eq_2]
    refine Spec.bind (R := fun _ => Own v (slotBlocks os ++ ex) hs) ?_ fun _ => ih
    refine Spec.pre (fun w p => ?_) (spec_free_opt (o := o.map (·.1)) (ex := slotBlocks os ++ ex))
    refine p.reorder ?_
    simp only [slotBlocks, List.flatMap_cons, List.append_assoc]
    exact List.Perm.refl _

theorem freeCache_spec (c : Option Cache) : Spec (Own v (cacheBlocks c ++ ex) hs) (freeCache c) (fun _ => Own v ex hs) := by
  cases c with
  | none => exact fun w p => p
  | some c =>
    unfold freeCache
    refine Spec.bind (R := fun _ => Own v (c.mem :: ex) hs) ?_ fun _ => spec_free_top
    refine Spec.pre (fun w p => ?_) (freeSlots_spec (ex := c.mem :: ex) c.slots)
    refine p.reorder ?_
    simp only [cacheBlocks, List.append_assoc, List.singleton_append]
    exact List.Perm.refl _

/-- `chmd_close`: the header's blocks are given back, and the decoder cache with its handle if it
    belongs to this header -/
theorem close_spec (pre : List (Nat × Mode)) (i : Inst σ) (h : Hdr) :
    Spec (Own v (h.blocks ++ (decBlocks i.d ++ ex)) (pre ++ (decHandles i.d ++ hs))) (close_ i h)
      (fun i' => Own v (decBlocks i'.d ++ ex) (pre ++ (decHandles i'.d ++ hs))) := by
  unfold close_
  refine Spec.reorder (ex' := h.files ++ (h.sysfiles ++ (decBlocks i.d ++ (cacheBlocks h.cache ++ (h.mem :: ex))))) ?_ ?_
  · unfold Hdr.blocks; perm_tac
  refine Spec.bind (freeList_spec h.files) fun _ => ?_
  refine Spec.bind (freeList_spec h.sysfiles) fun _ => ?_
  refine Spec.bind (dropDecOf_spec pre i.d h.mem) fun d' => ?_
  refine Spec.reorder (ex' := cacheBlocks h.cache ++ (h.mem :: (decBlocks d' ++ ex))) (by perm_tac) ?_
  refine Spec.bind (freeCache_spec h.cache) fun _ => ?_
  refine Spec.bind spec_free_top fun _ => ?_
  exact Spec.pure fun w p => p

/-! ## `lzxd_init`, `read_sys_file`, `read_chunk` -/

theorem lzxBail_spec (win inb : Option Nat) (s : Nat) :
    Spec (Own v (inb.toList ++ (win.toList ++ ((some s).toList ++ ex))) hs)
      (do free win; free inb; free (some s); return none : M (Option Lzx))
      (fun r => Own v (lzxBlocks r ++ ex) hs) := by
  refine Spec.reorder (ex' := win.toList ++ (inb.toList ++ (s :: ex))) ?_ ?_
  · simp only [Option.toList_some]; perm_tac
  refine Spec.bind spec_free_opt fun _ => ?_
  refine Spec.bind spec_free_opt fun _ => ?_
  refine Spec.bind spec_free_top fun _ => ?_
  exact Spec.pure fun w p => p

theorem lzxdInit_spec (a : LzxArgs) : Spec (Own v ex hs) (lzxdInit a) (fun r => Own v (lzxBlocks r ++ ex) hs) := by
  unfold lzxdInit
  split
  · exact Spec.pure fun w p => p
  · refine Spec.bind spec_alloc fun s => ?_
    cases s with
    | none => exact Spec.pure fun w p => p
    | some s =>
      dsimp only
      refine Spec.bind spec_alloc fun win => ?_
      refine Spec.bind spec_alloc fun inb => ?_
      cases win with
      | none =>
        cases inb with
        | none => exact lzxBail_spec none none s
        | some b => exact lzxBail_spec none (some b) s
      | some wn =>
        cases inb with
        | none => exact lzxBail_spec (some wn) none s
        | some b =>
          dsimp only
          exact Spec.pure fun w p => p

/-- the block `read_sys_file` hands to its caller -/
def dataBlock : Except Err (Nat × Bytes) → List Nat
  | .ok (d, _) => [d]
  | .error _ => []

theorem readSysFile_spec (infh : Nat) (o : Int) (f : FileInfo) (hin : (infh, Mode.read) ∈ hs ++ v.handles) :
    Spec (Own v ex hs) (readSysFile infh o f) (fun r => Own v (dataBlock r ++ ex) hs) := by
  unfold readSysFile
  split
  · exact Spec.pure fun w p => p
  · refine Spec.bind spec_alloc fun r => ?_
    cases r with
    | none => exact Spec.pure fun w p => p
    | some data =>
      dsimp only
      refine Spec.bind (spec_seekAbs hin) fun b => ?_
      split
      · exact Spec.bind (fun w p => Own.free_top p) fun _ => Spec.pure fun w p => p
      · refine Spec.bind (spec_read hin) fun r => ?_
        cases r with
        | none => exact Spec.bind (fun w p => Own.free_top p) fun _ => Spec.pure fun w p => p
        | some bs =>
          dsimp only
          split
          · exact Spec.bind (fun w p => Own.free_top p) fun _ => Spec.pure fun w p => p
          · exact Spec.pure fun w p => p

theorem slotBlocks_set (buf : Nat) (bs : Bytes) :
    ∀ (s : List (Option (Nat × Bytes))) (n : Nat), s[n]? = some none →
      (slotBlocks (s.set n (some (buf, bs)))).Perm (buf :: slotBlocks s) := by
  intro s
  induction s with
  | nil => intro n h; simp at h
  | cons o os ih =>
    intro n h
    cases n with
    | zero =>
      simp only [List.getElem?_cons_zero, Option.some.injEq] at h
      subst h
      simp only [List.set_cons_zero, slotBlocks, List.flatMap_cons, Option.map_some, Option.toList_some,
        Option.map_none, Option.toList_none, List.nil_append, List.singleton_append]
      exact List.Perm.refl _
    | succ n =>
      simp only [List.getElem?_cons_succ] at h
      have := ih n h
      simp only [List.set_cons_succ, slotBlocks, List.flatMap_cons] at this ⊢
      refine (List.Perm.append_left _ this).trans ?_
      perm_tac

theorem readChunkIn_spec (e0 : Err) (h : Hdr) (slots : List (Option (Nat × Bytes))) (fh n : Nat)
    (hfh : (fh, Mode.read) ∈ hs ++ v.handles) :
    Spec (Own v (slotBlocks slots ++ ex) hs) (readChunkIn e0 h slots fh n)
      (fun r => Own v (slotBlocks r.2.2 ++ ex) hs) := by
  unfold readChunkIn
  split
  · exact Spec.pure fun w p => p
  · exact Spec.pure fun w p => p
  · rename_i hslot
    refine Spec.bind spec_alloc fun r => ?_
    cases r with
    | none => exact Spec.pure fun w p => p
    | some buf =>
      dsimp only
      refine Spec.bind (spec_seekAbs hfh) fun b => ?_
      split
      · exact Spec.bind spec_free_top fun _ => Spec.pure fun w p => p
      · refine Spec.bind (spec_read hfh) fun r => ?_
        cases r with
        | none => exact Spec.bind spec_free_top fun _ => Spec.pure fun w p => p
        | some bs =>
          dsimp only
          split
          · exact Spec.bind spec_free_top fun _ => Spec.pure fun w p => p
          · split
            · exact Spec.bind spec_free_top fun _ => Spec.pure fun w p => p
            · refine Spec.pure fun w p => ?_
              refine p.reorder ?_
              have := slotBlocks_set buf bs slots n hslot
              exact (List.Perm.append_right ex this.symm)

theorem Hdr.blocks_cache (h : Hdr) (c : Option Cache) :
    ({ h with cache := c } : Hdr).blocks = h.files ++ (h.sysfiles ++ (cacheBlocks c ++ [h.mem])) := rfl

theorem readChunk_spec (e0 : Err) (h : Hdr) (fh n : Nat) (hfh : (fh, Mode.read) ∈ hs ++ v.handles) :
    Spec (Own v (h.blocks ++ ex) hs) (readChunk e0 h fh n) (fun r => Own v (r.2.2.blocks ++ ex) hs) := by
  unfold readChunk
  split
  · exact Spec.pure fun w p => p
  · split
    · rename_i c hc
      refine Spec.reorder (ex' := slotBlocks c.slots ++ (h.files ++ (h.sysfiles ++ (c.mem :: h.mem :: ex)))) ?_ ?_
      · unfold Hdr.blocks; rw [hc]; unfold cacheBlocks; perm_tac
      refine Spec.bind (readChunkIn_spec e0 h c.slots fh n hfh) fun r => ?_
      refine Spec.pure fun w p => ?_
      refine p.reorder ?_
      dsimp only
      rw [Hdr.blocks_cache]; unfold cacheBlocks; perm_tac
    · rename_i hc
      refine Spec.bind spec_alloc fun r => ?_
      cases r with
      | none => exact Spec.pure fun w p => p
      | some m =>
        dsimp only
        refine Spec.reorder (ex' := slotBlocks (List.replicate h.numChunks none) ++ (h.files ++ (h.sysfiles ++ (m :: h.mem :: ex)))) ?_ ?_
        · have : slotBlocks (List.replicate h.numChunks none) = [] := by
            unfold slotBlocks
            generalize h.numChunks = k
            induction k with
            | zero => rfl
            | succ k ih => rw [List.replicate_succ, List.flatMap_cons, ih]; rfl
          rw [this]
          unfold Hdr.blocks; rw [hc]; unfold cacheBlocks
          simp only [Option.toList_some]
          perm_tac
        refine Spec.bind (readChunkIn_spec e0 h _ fh n hfh) fun r => ?_
        refine Spec.pure fun w p => ?_
        refine p.reorder ?_
        dsimp only
        rw [Hdr.blocks_cache]; unfold cacheBlocks; perm_tac

/-! ## `chmd_fast_find` -/

/-- after a search loop: the loop returned (the handle is closed) or broke (it is still open) -/
def FoundPost (v : View) (ex : List Nat) (fh : Nat) (hs : List (Nat × Mode)) (r : Found × Err × Hdr) (w : World) : Prop :=
  match r.1 with
  | .returned _ => Own v (r.2.2.blocks ++ ex) hs w
  | .broke _ _ => Own v (r.2.2.blocks ++ ex) ((fh, Mode.read) :: hs) w

theorem indexLoop_spec (P : Parse) (fh : Nat) (name : String) :
    ∀ (left n : Nat) (e0 : Err) (h : Hdr),
      Spec (Own v (h.blocks ++ ex) ((fh, Mode.read) :: hs)) (indexLoop P fh name left n e0 h) (FoundPost v ex fh hs) := by
  intro left
  induction left with
  | zero =>
    intro n e0 h
    rw [indexLoop.eq_1]
    exact Spec.bind spec_close_top fun _ => Spec.pure fun w p => p
  | succ left ih =>
    intro n e0 h
    rw [indexLoop.eq_2]
    refine Spec.bind (readChunk_spec e0 h fh n (by simp)) fun r => ?_
    obtain ⟨c, e1, h1⟩ := r
    cases c with
    | none => exact Spec.bind spec_close_top fun _ => Spec.pure fun w p => p
    | some chunk =>
      dsimp only
      split
      · exact ih _ _ _
      · exact Spec.bind spec_close_top fun _ => Spec.pure fun w p => p
      · exact Spec.pure fun w p => p

theorem listLoop_spec (P : Parse) (fh : Nat) (name : String) (last : Nat) :
    ∀ (left n : Nat) (res : Search) (e0 : Err) (h : Hdr),
      Spec (Own v (h.blocks ++ ex) ((fh, Mode.read) :: hs)) (listLoop P fh name last left n res e0 h)
        (FoundPost v ex fh hs) := by
  intro left
  induction left with
  | zero =>
    intro n res e0 h
    rw [listLoop.eq_1]
    exact Spec.pure fun w p => p
  | succ left ih =>
    intro n res e0 h
    rw [listLoop.eq_2]
    split
    · exact Spec.pure fun w p => p
    · refine Spec.bind (readChunk_spec e0 h fh n (by simp)) fun r => ?_
      obtain ⟨c, e1, h1⟩ := r
      cases c with
      | none => exact Spec.pure fun w p => p
      | some chunk =>
        dsimp only
        split
        · exact Spec.pure fun w p => p
        · split
          · exact Spec.pure fun w p => p
          · exact ih _ _ _ _

theorem fastFind_spec (P : Parse) (e0 : Err) (h : Hdr) (name : String) :
    Spec (Own v (h.blocks ++ ex) hs) (fastFind P e0 h name) (fun r => Own v (r.2.2.2.blocks ++ ex) hs) := by
  unfold fastFind
  refine Spec.bind spec_open fun r => ?_
  cases r with
  | none => exact Spec.pure fun w p => p
  | some fh =>
    dsimp only
    refine Spec.bind (R := FoundPost v ex fh hs) ?_ fun r => ?_
    · split
      · exact indexLoop_spec P fh name _ _ _ _
      · exact listLoop_spec P fh name _ _ _ _ _ _
    · obtain ⟨fd, e1, h1⟩ := r
      cases fd with
      | returned e => exact Spec.pure fun w p => p
      | broke err res => exact Spec.bind spec_close_top fun _ => Spec.pure fun w p => p

theorem Hdr.link_blocks (h : Hdr) (s : Special) (blk : Nat) (f : FileInfo) :
    (h.link s blk f).blocks = h.files ++ ((blk :: h.sysfiles) ++ (cacheBlocks h.cache ++ [h.mem])) := by
  cases s <;> rfl

theorem findSysFile_spec (P : Parse) (e0 : Err) (h : Hdr) (s : Special) :
    Spec (Own v (h.blocks ++ ex) hs) (findSysFile P e0 h s) (fun r => Own v (r.2.2.blocks ++ ex) hs) := by
  unfold findSysFile
  split
  · exact Spec.pure fun w p => p
  · refine Spec.bind (fastFind_spec P e0 h s.name) fun r => ?_
    obtain ⟨e, fo, e1, h1⟩ := r
    cases fo with
    | none => exact Spec.pure fun w p => p
    | some f =>
      dsimp only
      split
      · exact Spec.pure fun w p => p
      · refine Spec.bind spec_alloc fun r => ?_
        cases r with
        | none => exact Spec.pure fun w p => p
        | some blk =>
          refine Spec.pure fun w p => ?_
          refine p.reorder ?_
          dsimp only
          rw [Hdr.link_blocks]; unfold Hdr.blocks
          simp only [Option.toList_some]
          perm_tac

/-! ## `chmd_init_decomp` -/

theorem readResetTable_spec (P : Parse) (e0 : Err) (infh : Nat) (h : Hdr) (entry : Nat)
    (hin : (infh, Mode.read) ∈ hs ++ v.handles) :
    Spec (Own v (h.blocks ++ ex) hs) (readResetTable P e0 infh h entry) (fun r => Own v (r.2.2.blocks ++ ex) hs) := by
  unfold readResetTable
  refine Spec.bind (findSysFile_spec P e0 h .rtable) fun r => ?_
  split
  · exact Spec.pure fun w p => p
  · split
    · exact Spec.pure fun w p => p
    · split
      · exact Spec.pure fun w p => p
      · refine Spec.bind (readSysFile_spec infh _ _ hin) fun r2 => ?_
        split
        · exact Spec.pure fun w p => p
        · exact Spec.bind spec_free_top fun _ => Spec.pure fun w p => p

theorem readSpaninfo_spec (P : Parse) (e0 : Err) (infh : Nat) (h : Hdr)
    (hin : (infh, Mode.read) ∈ hs ++ v.handles) :
    Spec (Own v (h.blocks ++ ex) hs) (readSpaninfo P e0 infh h) (fun r => Own v (r.2.2.2.blocks ++ ex) hs) := by
  unfold readSpaninfo
  refine Spec.bind (findSysFile_spec P e0 h .spaninfo) fun r => ?_
  split
  · exact Spec.pure fun w p => p
  · split
    · exact Spec.pure fun w p => p
    · split
      · exact Spec.pure fun w p => p
      · refine Spec.bind (readSysFile_spec infh _ _ hin) fun r2 => ?_
        split
        · exact Spec.pure fun w p => p
        · refine Spec.bind spec_free_top fun _ => ?_
          split <;> exact Spec.pure fun w p => p

/-- what `chmd_init_decomp` leaves: the stream it reports in `d->state` (if any) on top of the header -/
def InitPost (v : View) (ex : List Nat) (hs : List (Nat × Mode)) (r : Err × Option (Lzx × σ) × Pos × Hdr) (w : World) : Prop :=
  Own v (stBlocks r.2.1 ++ (r.2.2.2.blocks ++ ex)) hs w

theorem initDecomp3_spec (D : Decoder σ) (c : Ctl) (e0 : Err) (h : Hdr) (pl : Except Err (Pos × Int)) :
    Spec (Own v (h.blocks ++ ex) hs) (initDecomp3 D c e0 h pl) (InitPost v ex hs) := by
  unfold initDecomp3
  split
  · exact Spec.pure fun w p => p
  · refine Spec.bind (lzxdInit_spec _) fun r => ?_
    cases r with
    | none => exact Spec.pure fun w p => p
    | some l => exact Spec.pure fun w p => p

theorem initDecomp2_spec (D : Decoder σ) (P : Parse) (e0 : Err) (infh : Nat) (h : Hdr) (c : Ctl) (co : Int)
    (hin : (infh, Mode.read) ∈ hs ++ v.handles) :
    Spec (Own v (h.blocks ++ ex) hs) (initDecomp2 D P e0 infh h c co) (InitPost v ex hs) := by
  unfold initDecomp2
  refine Spec.bind (readResetTable_spec P e0 infh h c.entry hin) fun rt => ?_
  split
  · exact initDecomp3_spec D c _ _ _
  · refine Spec.bind (readSpaninfo_spec P _ infh _ hin) fun sp => ?_
    split
    · exact Spec.pure fun w p => p
    · exact initDecomp3_spec D c _ _ _

theorem initDecomp_spec (D : Decoder σ) (P : Parse) (e0 : Err) (infh : Nat) (h : Hdr) (fo : Int)
    (hin : (infh, Mode.read) ∈ hs ++ v.handles) :
    Spec (Own v (h.blocks ++ ex) hs) (initDecomp D P e0 infh h fo) (InitPost v ex hs) := by
  unfold initDecomp
  refine Spec.bind (findSysFile_spec P e0 h .content) fun r1 => ?_
  split
  · exact Spec.pure fun w p => p
  · refine Spec.bind (findSysFile_spec P _ _ .control) fun r2 => ?_
    split
    · exact Spec.pure fun w p => p
    · split
      · split
        · exact Spec.pure fun w p => p
        · refine Spec.bind (readSysFile_spec infh _ _ hin) fun r3 => ?_
          split
          · exact Spec.pure fun w p => p
          · refine Spec.bind spec_free_top fun _ => ?_
            split
            · exact Spec.pure fun w p => p
            · exact initDecomp2_spec D P _ infh _ _ _ hin
      · exact Spec.pure fun w p => p

/-! ## `chmd_extract` -/

/-- the frame law for `lzxd_decompress` over `self->d->sys`: whatever its state and the byte count,
    run with a live input handle and (if `d->outfh` is set) a live output handle it leaves live
    blocks, live handles and the misuse record as they were (it calls `sys->read` on the first and,
    through `chmd_sys_write`, `sys->write` on the second) -/
def Lawful (D : Decoder σ) : Prop :=
  ∀ (s : σ) (bytes : Int) (inFh : Nat) (outFh : Option Nat) (w : World), w.view.ok →
    (inFh, Mode.read) ∈ w.view.handles → (∀ o, outFh = some o → (o, Mode.write) ∈ w.view.handles) →
    Frame w.view (D.run s bytes inFh outFh w).2

theorem run_spec (D : Decoder σ) (hD : Lawful D) (s : σ) (bytes : Int) (inFh : Nat) (outFh : Option Nat)
    (hin : (inFh, Mode.read) ∈ hs ++ v.handles) (hout : ∀ o, outFh = some o → (o, Mode.write) ∈ hs ++ v.handles) :
    Spec (Own v ex hs) (D.run s bytes inFh outFh) (fun _ => Own v ex hs) := fun w p =>
  p.step (hD s bytes inFh outFh w p.ok (p.mem_handles hin) (fun o ho => p.mem_handles (hout o ho)))

theorem copy0_spec (infh fh : Nat) (hin : (infh, Mode.read) ∈ hs ++ v.handles)
    (hout : (fh, Mode.write) ∈ hs ++ v.handles) :
    ∀ k length, Spec (Own v ex hs) (copy0 infh fh k length) (fun _ => Own v ex hs) := by
  intro k
  induction k with
  | zero => intro length; rw [copy0.eq_1]; exact Spec.pure fun w p => p
  | succ k ih =>
    intro length
    rw [copy0.eq_2]
    split
    · exact Spec.pure fun w p => p
    · dsimp only
      generalize (if 512 > length then length else 512) = run
      refine Spec.bind (spec_read hin) fun r => ?_
      cases r with
      | none => exact Spec.pure fun w p => p
      | some bs =>
        dsimp only
        split
        · exact Spec.pure fun w p => p
        · refine Spec.bind (spec_write hout) fun r2 => ?_
          cases r2 with
          | none => exact Spec.pure fun w p => p
          | some n =>
            dsimp only
            split
            · exact Spec.pure fun w p => p
            · exact ih _

theorem extractSec0_spec (infh fh : Nat) (h : Hdr) (f : FileInfo) (hin : (infh, Mode.read) ∈ hs ++ v.handles)
    (hout : (fh, Mode.write) ∈ hs ++ v.handles) :
    Spec (Own v ex hs) (extractSec0 infh fh h f) (fun _ => Own v ex hs) := by
  unfold extractSec0
  refine Spec.bind (spec_seekAbs hin) fun b => ?_
  split
  · exact Spec.pure fun w p => p
  · refine Spec.bind (spec_tell hin) fun _ => ?_
    exact copy0_spec infh fh hin hout _ _

theorem extractRun_spec (D : Decoder σ) (hD : Lawful D) (infh fh : Nat) (l : Lzx) (s : σ) (pos : Pos) (f : FileInfo)
    (hin : (infh, Mode.read) ∈ hs ++ v.handles) (hout : (fh, Mode.write) ∈ hs ++ v.handles) :
    Spec (Own v (lzxBlocks (some l) ++ ex) hs) (extractRun D infh fh l s pos f)
      (fun r => Own v (stBlocks r.2.1 ++ ex) hs) := by
  unfold extractRun
  split
  · exact Spec.pure fun w p => p
  · refine Spec.bind (spec_seekAbs hin) fun b => ?_
    split
    · exact Spec.pure fun w p => p
    · refine Spec.bind (R := fun _ => Own v (lzxBlocks (some l) ++ ex) hs) ?_ fun r1 => ?_
      · split
        · exact run_spec D hD _ _ _ _ hin (fun _ h => nomatch h)
        · exact Spec.pure fun w p => p
      · refine Spec.bind (R := fun _ => Own v (lzxBlocks (some l) ++ ex) hs) ?_ fun r2 => ?_
        · split
          · exact run_spec D hD _ _ _ _ hin (fun o h => by cases h; exact hout)
          · exact Spec.pure fun w p => p
        · refine Spec.bind (spec_tell hin) fun t => ?_
          split
          · exact Spec.bind (lzxdFree_spec l) fun _ => Spec.pure fun w p => p
          · exact Spec.pure fun w p => p

theorem extractSec1_spec (D : Decoder σ) (hD : Lawful D) (P : Parse) (infh fh : Nat) (st : Option (Lzx × σ)) (pos : Pos)
    (h : Hdr) (f : FileInfo)
    (hin : (infh, Mode.read) ∈ hs ++ v.handles) (hout : (fh, Mode.write) ∈ hs ++ v.handles) :
    Spec (Own v (stBlocks st ++ (h.blocks ++ ex)) hs) (extractSec1 D P infh fh st pos h f) (InitPost v ex hs) := by
  unfold extractSec1
  split
  · rename_i l s hst
    have hst' : st = some (l, s) := by
      split at hst
      · cases hst
      · exact hst
    subst hst'
    refine Spec.bind (extractRun_spec D hD infh fh l s pos f hin hout) fun r => ?_
    exact Spec.pure fun w p => p
  · refine Spec.bind (lzxFreeSt_spec st) fun _ => ?_
    refine Spec.bind (initDecomp_spec D P .ok infh h f.offset hin) fun r => ?_
    obtain ⟨e, st1, pos1, h1⟩ := r
    cases st1 with
    | none => exact Spec.pure fun w p => p
    | some ls =>
      obtain ⟨l, s⟩ := ls
      dsimp only
      split
      · exact Spec.pure fun w p => p
      · refine Spec.bind (extractRun_spec D hD infh fh l s pos1 f hin hout) fun r2 => ?_
        exact Spec.pure fun w p => p

/-- what `chmd_extract` / `chmd_fast_find` leave: the decoder cache, the header, the cache's handle -/
def SessPost (v : View) (ex : List Nat) (hs : List (Nat × Mode)) (i : Inst σ) (h : Hdr) (w : World) : Prop :=
  Own v (decBlocks i.d ++ (h.blocks ++ ex)) (decHandles i.d ++ hs) w

theorem extractOut_spec (D : Decoder σ) (hD : Lawful D) (P : Parse) (i : Inst σ) (d : Dec σ) (infh : Nat) (h : Hdr)
    (f : FileInfo) (out : String) (hd : d.infh = some infh) :
    Spec (Own v (decBlocks (some d) ++ (h.blocks ++ ex)) ((infh, Mode.read) :: hs)) (extractOut D P i d infh h f out)
      (fun r => SessPost v ex hs r.2.1 r.2.2) := by
  have hh : decHandles (some d) = [(infh, Mode.read)] := by simp [decHandles, hd]
  unfold extractOut
  refine Spec.bind spec_open fun r => ?_
  cases r with
  | none =>
    refine Spec.pure fun w p => ?_
    unfold SessPost; dsimp only; rw [hh]; exact p
  | some fh =>
    dsimp only
    have hin : (infh, Mode.read) ∈ ((fh, Mode.write) :: (infh, Mode.read) :: hs) ++ v.handles := by simp
    have hout : (fh, Mode.write) ∈ ((fh, Mode.write) :: (infh, Mode.read) :: hs) ++ v.handles := by simp
    split
    · refine Spec.bind spec_close_top fun _ => Spec.pure fun w p => ?_
      unfold SessPost; dsimp only; rw [hh]; exact p
    · split
      · refine Spec.bind (extractSec0_spec infh fh h f hin hout) fun e => ?_
        refine Spec.bind spec_close_top fun _ => Spec.pure fun w p => ?_
        unfold SessPost; dsimp only; rw [hh]; exact p
      · split
        · refine Spec.reorder (ex' := stBlocks d.state ++ (h.blocks ++ (d.mem :: ex))) ?_ ?_
          · unfold decBlocks; perm_tac
          refine Spec.bind (extractSec1_spec D hD P infh fh d.state d.pos h f hin hout) fun r => ?_
          refine Spec.bind spec_close_top fun _ => Spec.pure fun w p => ?_
          unfold SessPost decHandles; dsimp only; rw [hd]
          refine Own.reorder p ?_
          unfold decBlocks; dsimp only; perm_tac
        · refine Spec.bind spec_close_top fun _ => Spec.pure fun w p => ?_
          unfold SessPost; dsimp only; rw [hh]; exact p

theorem extractIn_spec (D : Decoder σ) (hD : Lawful D) (P : Parse) (i : Inst σ) (d : Dec σ) (h : Hdr)
    (f : FileInfo) (out : String) :
    Spec (Own v (decBlocks (some d) ++ (h.blocks ++ ex)) (decHandles (some d) ++ hs)) (extractIn D P i d h f out)
      (fun r => SessPost v ex hs r.2.1 r.2.2) := by
  unfold extractIn
  split
  · rename_i infh hinf
    have hd : d.infh = some infh := by
      split at hinf
      · cases hinf
      · exact hinf
    refine Spec.pre (fun w p => ?_) (extractOut_spec D hD P i d infh h f out hd)
    have : decHandles (some d) = [(infh, Mode.read)] := by simp [decHandles, hd]
    rw [this] at p; exact p
  · refine Spec.bind (closeIf_spec [] d.infh .read) fun _ => ?_
    refine Spec.reorder (ex' := stBlocks d.state ++ (d.mem :: (h.blocks ++ ex))) ?_ ?_
    · unfold decBlocks; perm_tac
    refine Spec.bind (lzxFreeSt_spec d.state) fun _ => ?_
    refine Spec.bind spec_open fun r => ?_
    cases r with
    | none =>
      refine Spec.pure fun w p => ?_
      unfold SessPost decBlocks decHandles stBlocks; exact p
    | some infh =>
      dsimp only
      refine Spec.pre (fun w p => ?_) (extractOut_spec D hD P i _ infh h f out rfl)
      unfold decBlocks stBlocks; exact p

theorem extract_spec (D : Decoder σ) (hD : Lawful D) (P : Parse) (i : Inst σ) (h : Hdr) (f : FileInfo) (out : String) :
    Spec (SessPost v ex hs i h) (extract D P i h f out) (fun r => SessPost v ex hs r.2.1 r.2.2) := by
  unfold extract
  split
  · rename_i d hd
    refine Spec.pre (fun w p => ?_) (extractIn_spec D hD P i d h f out)
    unfold SessPost at p; rw [hd] at p; exact p
  · rename_i hd
    refine Spec.pre (P := Own v (h.blocks ++ ex) hs) (fun w p => ?_) ?_
    · unfold SessPost at p; rw [hd] at p; exact p
    refine Spec.bind spec_alloc fun r => ?_
    cases r with
    | none =>
      refine Spec.pure fun w p => ?_
      unfold SessPost; dsimp only; rw [hd]; exact p
    | some m =>
      dsimp only
      refine Spec.pre (fun w p => ?_) (extractIn_spec D hD P i _ h f out)
      unfold decBlocks decHandles stBlocks; exact p

theorem fastFindOp_spec (P : Parse) (i : Inst σ) (h : Hdr) (name : String) :
    Spec (SessPost v ex hs i h) (fastFindOp P i h name) (fun r => SessPost v ex hs r.2.2.1 r.2.2.2) := by
  unfold fastFindOp
  refine Spec.reorder (ex' := h.blocks ++ (decBlocks i.d ++ ex)) (by perm_tac) ?_
  refine Spec.bind (fastFind_spec P i.error h name) fun r => ?_
  refine Spec.pure fun w p => ?_
  unfold SessPost; dsimp only
  exact p.reorder (by perm_tac)

/-! ## `chmd_read_headers`, `chmd_real_open` -/

def walkBlocks (k : Walk) : List Nat := k.files ++ k.sysfiles

theorem Walk.add_blocks (k : Walk) (blk : Nat) (e : Ent) : (walkBlocks (k.add blk e)).Perm (blk :: walkBlocks k) := by
  cases e with
  | file => unfold Walk.add walkBlocks; dsimp only; perm_tac
  | sys which f =>
    cases which with
    | none => unfold Walk.add walkBlocks; dsimp only; perm_tac
    | some sp => cases sp <;> (unfold Walk.add walkBlocks; dsimp only; perm_tac)

/-- after the allocations for one chunk: one failed and `chunk` is gone, or all are linked in -/
def AddPost (v : View) (ex : List Nat) (hs : List (Nat × Mode)) (chunk : Nat) (r : Bool × Walk) (w : World) : Prop :=
  match r.1 with
  | true => Own v (walkBlocks r.2 ++ ex) hs w
  | false => Own v (walkBlocks r.2 ++ (chunk :: ex)) hs w

theorem addEntries_spec (chunk : Nat) :
    ∀ (es : List Ent) (k : Walk),
      Spec (Own v (walkBlocks k ++ (chunk :: ex)) hs) (addEntries chunk es k) (AddPost v ex hs chunk) := by
  intro es
  induction es with
  | nil => intro k; rw [addEntries.eq_1]; exact Spec.pure fun w p => p
  | cons e es ih =>
    intro k
    rw [addEntries.eq_2]
    refine Spec.bind spec_alloc fun r => ?_
    cases r with
    | none =>
      dsimp only
      refine Spec.reorder (ex' := chunk :: (walkBlocks k ++ ex)) (by simp only [Option.toList_none]; perm_tac) ?_
      exact Spec.bind spec_free_top fun _ => Spec.pure fun w p => p
    | some fi =>
      dsimp only
      refine Spec.reorder (ex' := walkBlocks (k.add fi e) ++ (chunk :: ex)) ?_ (ih _)
      simp only [Option.toList_some]
      have := (Walk.add_blocks k fi e).symm
      refine List.Perm.trans ?_ (List.Perm.append_right _ this)
      perm_tac

theorem readChunks_spec (P : Parse) (fh chunk chunkSize : Nat) (hfh : (fh, Mode.read) ∈ hs ++ v.handles) :
    ∀ (n : Nat) (err : Bool) (errors : Nat) (k : Walk),
      Spec (Own v (walkBlocks k ++ (chunk :: ex)) hs) (readChunks P fh chunk chunkSize n err errors k)
        (fun r => Own v (walkBlocks r.2 ++ ex) hs) := by
  have hfree : ∀ k : Walk, ∀ e : Err,
      Spec (Own v (walkBlocks k ++ (chunk :: ex)) hs) (do free (some chunk); return (e, k) : M (Err × Walk))
        (fun r => Own v (walkBlocks r.2 ++ ex) hs) := by
    intro k e
    refine Spec.reorder (ex' := chunk :: (walkBlocks k ++ ex)) (by perm_tac) ?_
    exact Spec.bind spec_free_top fun _ => Spec.pure fun w p => p
  intro n
  induction n with
  | zero =>
    intro err errors k
    rw [readChunks.eq_1]
    exact hfree k _
  | succ n ih =>
    intro err errors k
    rw [readChunks.eq_2]
    refine Spec.bind (spec_read hfh) fun r => ?_
    cases r with
    | none => exact hfree k _
    | some bs =>
      dsimp only
      split
      · exact hfree k _
      · split
        · exact ih _ _ _
        · refine Spec.bind (addEntries_spec chunk _ k) fun a => ?_
          obtain ⟨b, k1⟩ := a
          cases b with
          | true => exact Spec.pure fun w p => p
          | false => exact ih _ _ _

theorem sysFilelen_spec (fh : Nat) (hfh : (fh, Mode.read) ∈ hs ++ v.handles) :
    Spec (Own v ex hs) (sysFilelen fh) (fun _ => Own v ex hs) := by
  unfold sysFilelen
  refine Spec.bind (spec_tell hfh) fun cur => ?_
  refine Spec.bind (spec_seekEnd hfh) fun b => ?_
  split
  · exact Spec.pure fun w p => p
  · refine Spec.bind (spec_tell hfh) fun _ => ?_
    refine Spec.bind (spec_seekStart hfh) fun _ => ?_
    exact Spec.pure fun w p => p

theorem Hdr.withWalk_blocks (h : Hdr) (k : Walk) :
    (h.withWalk k).blocks = k.files ++ (k.sysfiles ++ (cacheBlocks h.cache ++ [h.mem])) := rfl

theorem readHeaders3_spec (P : Parse) (fh : Nat) (h : Hdr) (entire : Bool) (hfh : (fh, Mode.read) ∈ hs ++ v.handles)
    (hf : h.files = []) (hsf : h.sysfiles = []) :
    Spec (Own v (h.blocks ++ ex) hs) (readHeaders3 P fh h entire) (fun r => Own v (r.2.blocks ++ ex) hs) := by
  unfold readHeaders3
  split
  · exact Spec.pure fun w p => p
  · split
    · exact Spec.pure fun w p => p
    · refine Spec.bind (R := fun _ => Own v (h.blocks ++ ex) hs) ?_ fun b => ?_
      · split
        · exact spec_seekCur hfh
        · exact Spec.pure fun w p => p
      · split
        · exact Spec.pure fun w p => p
        · refine Spec.bind spec_alloc fun r => ?_
          cases r with
          | none => exact Spec.pure fun w p => p
          | some chunk =>
            dsimp only
            refine Spec.reorder (ex' := walkBlocks {} ++ (chunk :: (cacheBlocks h.cache ++ (h.mem :: ex)))) ?_ ?_
            · unfold Hdr.blocks walkBlocks; rw [hf, hsf]
              simp only [Option.toList_some]
              perm_tac
            refine Spec.bind (readChunks_spec P fh chunk _ hfh _ _ _ _) fun r => ?_
            refine Spec.pure fun w p => ?_
            refine p.reorder ?_
            dsimp only
            rw [Hdr.withWalk_blocks]; unfold walkBlocks; perm_tac

theorem readHeaders2_spec (P : Parse) (fh : Nat) (h : Hdr) (entire : Bool) (version : Nat) (o0 o1 o2 : Int)
    (hfh : (fh, Mode.read) ∈ hs ++ v.handles) (hf : h.files = []) (hsf : h.sysfiles = []) :
    Spec (Own v (h.blocks ++ ex) hs) (readHeaders2 P fh h entire version o0 o1 o2)
      (fun r => Own v (r.2.blocks ++ ex) hs) := by
  unfold readHeaders2
  refine Spec.bind (spec_seekAbs hfh) fun b => ?_
  split
  · exact Spec.pure fun w p => p
  · refine Spec.bind (spec_read hfh) fun r => ?_
    cases r with
    | none => exact Spec.pure fun w p => p
    | some b3 =>
      dsimp only
      split
      · exact Spec.pure fun w p => p
      · refine Spec.bind (sysFilelen_spec fh hfh) fun _ => ?_
        refine Spec.bind (spec_seekAbs hfh) fun b => ?_
        split
        · exact Spec.pure fun w p => p
        · refine Spec.bind (spec_read hfh) fun r => ?_
          cases r with
          | none => exact Spec.pure fun w p => p
          | some b4 =>
            dsimp only
            split
            · exact Spec.pure fun w p => p
            · refine Spec.bind (spec_tell hfh) fun t => ?_
              exact readHeaders3_spec P fh (withHs1 h version o2 _ t b4) entire hfh hf hsf

theorem readHeaders_spec (P : Parse) (fh : Nat) (h : Hdr) (entire : Bool)
    (hfh : (fh, Mode.read) ∈ hs ++ v.handles) (hf : h.files = []) (hsf : h.sysfiles = []) :
    Spec (Own v (h.blocks ++ ex) hs) (readHeaders P fh h entire) (fun r => Own v (r.2.blocks ++ ex) hs) := by
  unfold readHeaders
  refine Spec.bind (spec_read hfh) fun r => ?_
  cases r with
  | none => exact Spec.pure fun w p => p
  | some b1 =>
    dsimp only
    split
    · exact Spec.pure fun w p => p
    · split
      · exact Spec.pure fun w p => p
      · refine Spec.bind (spec_read hfh) fun r => ?_
        cases r with
        | none => exact Spec.pure fun w p => p
        | some b2 =>
          dsimp only
          split
          · exact Spec.pure fun w p => p
          · exact readHeaders2_spec P fh h entire _ _ _ _ hfh hf hsf

def optBlocks : Option Hdr → List Nat
  | none => []
  | some h => h.blocks

/-- `chmd_real_open`: NULL and nothing is held (whatever had been allocated was freed again, the
    file is closed), or a header whose blocks are owned -/
theorem realOpen_spec (P : Parse) (i : Inst σ) (name : String) (entire : Bool) :
    Spec (Own v (decBlocks i.d ++ ex) (decHandles i.d ++ hs)) (realOpen P i name entire)
      (fun r => Own v (optBlocks r.2 ++ (decBlocks r.1.d ++ ex)) (decHandles r.1.d ++ hs)) := by
  unfold realOpen
  refine Spec.bind spec_open fun r => ?_
  cases r with
  | none => exact Spec.pure fun w p => p
  | some fh =>
    dsimp only
    refine Spec.bind spec_alloc fun r => ?_
    cases r with
    | none => exact Spec.bind spec_close_top fun _ => Spec.pure fun w p => p
    | some m =>
      dsimp only
      refine Spec.bind (R := fun r => Own v (r.2.blocks ++ (decBlocks i.d ++ ex)) ((fh, Mode.read) :: (decHandles i.d ++ hs)))
        ?_ fun r => ?_
      · exact readHeaders_spec P fh { mem := m, filename := name } entire (by simp) rfl rfl
      · split
        · exact Spec.bind spec_close_top fun _ => Spec.pure fun w p => p
        · split
          · exact Spec.bind spec_close_top fun _ => Spec.pure fun w p => p
          · refine Spec.bind (close_spec [(fh, Mode.read)] i r.2) fun i' => ?_
            exact Spec.bind spec_close_top fun _ => Spec.pure fun w p => p

/-! ## whole sessions -/

def hdrsBlocks (l : List Hdr) : List Nat := l.flatMap Hdr.blocks

theorem hdrsBlocks_pick : ∀ (l : List Hdr) (k : Nat) (h : Hdr), l[k]? = some h →
    (hdrsBlocks l).Perm (h.blocks ++ hdrsBlocks (l.eraseIdx k)) := by
  intro l
  induction l with
  | nil => intro k h hk; simp at hk
  | cons x xs ih =>
    intro k h hk
    cases k with
    | zero =>
      simp only [List.getElem?_cons_zero, Option.some.injEq] at hk
      subst hk
      simp only [List.eraseIdx_cons_zero, hdrsBlocks, List.flatMap_cons]
      exact List.Perm.refl _
    | succ k =>
      simp only [List.getElem?_cons_succ] at hk
      have := ih k h hk
      simp only [List.eraseIdx_cons_succ, hdrsBlocks, List.flatMap_cons] at this ⊢
      refine (List.Perm.append_left _ this).trans ?_
      perm_tac

/-- the ledger of a session: the decoder cache, the headers the client holds, the decompressor -/
def SessOwn (v : View) (s : Sess σ) (w : World) : Prop :=
  Own v (decBlocks s.inst.d ++ (hdrsBlocks s.hdrs ++ [s.self])) (decHandles s.inst.d ++ []) w

theorem runOp_spec (D : Decoder σ) (hD : Lawful D) (P : Parse) (s : Sess σ) (op : Op) :
    Spec (SessOwn v s) (runOp D P s op) (fun s' w => SessOwn v s' w ∧ s'.self = s.self) := by
  cases op with
  | open_ name =>
    rw [runOp.eq_1]
    refine Spec.bind (realOpen_spec P s.inst name true) fun r => Spec.pure fun w p => ⟨?_, rfl⟩
    unfold SessOwn; dsimp only
    refine p.reorder ?_
    cases r.2 <;> (simp only [optBlocks, hdrsBlocks, Option.toList_none, Option.toList_some, List.nil_append, List.cons_append, List.flatMap_cons]; all_goals perm_tac)
  | fastOpen name =>
    rw [runOp.eq_2]
    refine Spec.bind (realOpen_spec P s.inst name false) fun r => Spec.pure fun w p => ⟨?_, rfl⟩
    unfold SessOwn; dsimp only
    refine p.reorder ?_
    cases r.2 <;> (simp only [optBlocks, hdrsBlocks, Option.toList_none, Option.toList_some, List.nil_append, List.cons_append, List.flatMap_cons]; all_goals perm_tac)
  | close k =>
    rw [runOp.eq_3]
    split
    · exact Spec.pure fun w p => ⟨p, rfl⟩
    · rename_i h hk
      have hp := hdrsBlocks_pick s.hdrs k h hk
      refine Spec.pre (P := Own v (h.blocks ++ (decBlocks s.inst.d ++ (hdrsBlocks (s.hdrs.eraseIdx k) ++ [s.self])))
        ([] ++ (decHandles s.inst.d ++ []))) (fun w p => ?_) ?_
      · refine Own.reorder p ?_
        refine (List.Perm.append_left _ (List.Perm.append_right _ hp)).trans ?_
        perm_tac
      refine Spec.bind (close_spec [] s.inst h) fun i' => Spec.pure fun w p => ⟨p, rfl⟩
  | extract k f out =>
    rw [runOp.eq_4]
    split
    · exact Spec.pure fun w p => ⟨p, rfl⟩
    · rename_i h hk
      have hp := hdrsBlocks_pick s.hdrs k h hk
      refine Spec.pre (P := SessPost v (hdrsBlocks (s.hdrs.eraseIdx k) ++ [s.self]) [] s.inst h) (fun w p => ?_) ?_
      · refine Own.reorder p ?_
        refine (List.Perm.append_left _ (List.Perm.append_right _ hp)).trans ?_
        all_goals perm_tac
      refine Spec.bind (extract_spec D hD P s.inst h f out) fun r => Spec.pure fun w p => ⟨?_, rfl⟩
      unfold SessOwn; dsimp only
      refine Own.reorder p ?_
      simp only [hdrsBlocks, List.flatMap_cons]; all_goals perm_tac
  | fastFind k name =>
    rw [runOp.eq_5]
    split
    · exact Spec.pure fun w p => ⟨p, rfl⟩
    · rename_i h hk
      have hp := hdrsBlocks_pick s.hdrs k h hk
      refine Spec.pre (P := SessPost v (hdrsBlocks (s.hdrs.eraseIdx k) ++ [s.self]) [] s.inst h) (fun w p => ?_) ?_
      · refine Own.reorder p ?_
        refine (List.Perm.append_left _ (List.Perm.append_right _ hp)).trans ?_
        all_goals perm_tac
      refine Spec.bind (fastFindOp_spec P s.inst h name) fun r => Spec.pure fun w p => ⟨?_, rfl⟩
      unfold SessOwn; dsimp only
      refine Own.reorder p ?_
      simp only [hdrsBlocks, List.flatMap_cons]; all_goals perm_tac

theorem runOps_spec (D : Decoder σ) (hD : Lawful D) (P : Parse) (ops : List Op) :
    ∀ s : Sess σ, Spec (SessOwn v s) (runOps D P ops s) (fun s' w => SessOwn v s' w ∧ s'.self = s.self) := by
  induction ops with
  | nil => intro s; rw [runOps.eq_1]; exact Spec.pure fun w p => ⟨p, rfl⟩
  | cons op ops ih =>
    intro s
    rw [runOps.eq_2]
    refine Spec.bind (runOp_spec D hD P s op) fun s1 => ?_
    intro w p
    have := ih s1 w p.1
    exact ⟨this.1, this.2.trans p.2⟩

theorem closeAll_spec :
    ∀ (l : List Hdr) (i : Inst σ),
      Spec (Own v (decBlocks i.d ++ (hdrsBlocks l ++ ex)) (decHandles i.d ++ [])) (closeAll l i)
        (fun i' => Own v (decBlocks i'.d ++ ex) (decHandles i'.d ++ [])) := by
  intro l
  induction l with
  | nil =>
    intro i
    rw [closeAll.eq_1]
    exact Spec.pure fun w p => p
  | cons h hs' ih =>
    intro i
    rw [closeAll.eq_2]
    refine Spec.pre (P := Own v (h.blocks ++ (decBlocks i.d ++ (hdrsBlocks hs' ++ ex))) ([] ++ (decHandles i.d ++ [])))
      (fun w p => ?_) ?_
    · refine Own.reorder p ?_
      unfold hdrsBlocks; rw [List.flatMap_cons]; perm_tac
    exact Spec.bind (close_spec [] i h) fun i' => ih i'

theorem destroy_spec (self : Nat) (i : Inst σ) :
    Spec (Own v (decBlocks i.d ++ [self]) (decHandles i.d ++ [])) (destroy self i) (fun _ => Own v [] []) := by
  unfold destroy
  exact Spec.bind (dropDecIf_spec [] i.d) fun _ => spec_free_top

/-- create; any client program; close what is still open; destroy: everything is given back -/
theorem program_spec (D : Decoder σ) (hD : Lawful D) (P : Parse) (ops : List Op) :
    Spec (Own v [] []) (program D P ops) (fun _ => Own v [] []) := by
  unfold program create
  refine Spec.bind (R := fun (c : Option (Nat × Inst σ)) w =>
    match c with
    | none => Own v [] [] w
    | some x => Own v [x.1] [] w ∧ x.2.d = none) ?_ fun c => ?_
  · refine Spec.bind spec_alloc fun r => ?_
    cases r with
    | none => exact Spec.pure fun w p => p
    | some a => exact Spec.pure fun w p => ⟨p, rfl⟩
  · cases c with
    | none => exact Spec.pure fun w p => p
    | some c =>
      dsimp only
      refine Spec.bind (R := fun s w => SessOwn v s w ∧ s.self = c.1) ?_ fun s => ?_
      · refine Spec.pre (fun w p => ?_) (runOps_spec D hD P ops ⟨c.1, c.2, []⟩)
        unfold SessOwn; dsimp only; rw [p.2]; exact p.1
      · intro w p
        obtain ⟨p, hself⟩ := p
        unfold SessOwn at p
        rw [hself] at p
        exact (Spec.bind (closeAll_spec (ex := [c.1]) s.hdrs s.inst) fun i => destroy_spec c.1 i) w p

end specs

end MsPack.Chm.Api
