import MsPack.Zip.Kwaj
import Proofs.Lemmas.ZipHuffComplete
/-!
# Bounds for the MSZIP inflate model (lemmas for C02Zip)

A small Hoare logic for `ZM σ = ExceptT Halt (StateM (St σ))`, the state invariants of the
decoder, and one lemma per helper of `MsPack/Zip/Inflate.lean` / `MsPack/Zip/Kwaj.lean`.
-/
namespace MsPack.Zip
open MsPack MsPack.Generated

variable {σ : Type} (S : Src σ)

/-! ## faults that are not the decoder's own memory accesses -/

/-- the only `Fault`s the MSZIP model can end with: the fuel bound, or a fault the *source*
    returned from `read` (passed through unchanged) -/
inductive FaultOK : Fault → Prop
  | hang : FaultOK .hang
  | src (s : σ) (n : Nat) (f : Fault) (h : S.read s n = .error f) : FaultOK f

/-! ## running a `ZM` action -/

def exec {α : Type} (m : ZM σ α) (st : St σ) : Except Halt α × St σ := m.run.run st

section exec
variable {α β : Type}

theorem exec_bind (x : ZM σ α) (f : α → ZM σ β) (st : St σ) :
    exec (x >>= f) st = match exec x st with
      | (.ok a, s) => exec (f a) s
      | (.error e, s) => (.error e, s) := by
  show (ExceptT.bind x f).run.run st = _
  unfold exec
  simp only [ExceptT.bind, ExceptT.run, ExceptT.mk, StateT.run, bind, StateT.bind, ExceptT.bindCont]
  cases h : x st with
  | mk r s => cases r <;> rfl

@[simp] theorem exec_pure (a : α) (st : St σ) : exec (pure a : ZM σ α) st = (.ok a, st) := rfl
@[simp] theorem exec_throw (e : Halt) (st : St σ) : exec (throw e : ZM σ α) st = (.error e, st) := rfl
@[simp] theorem exec_get (st : St σ) : exec (get : ZM σ (St σ)) st = (.ok st, st) := rfl
@[simp] theorem exec_set (s st : St σ) : exec (set s : ZM σ PUnit) st = (.ok ⟨⟩, s) := rfl
@[simp] theorem exec_modify (g : St σ → St σ) (st : St σ) :
    exec (modify g : ZM σ PUnit) st = (.ok ⟨⟩, g st) := rfl
end exec

/-! ## triples -/

/-- running `m` from `st`: a normal return satisfies `Q`, an exceptional one leaves a state
    satisfying `E`, and a fault is one of `FaultOK` -/
def Ok {α : Type} (m : ZM σ α) (st : St σ) (Q : α → St σ → Prop) (E : St σ → Prop) : Prop :=
  match exec m st with
  | (.ok a, s) => Q a s
  | (.error e, s) => E s ∧ ∀ f, e = .fault f → FaultOK S f

section rules
variable {α β : Type} {S}

theorem Ok.bind {x : ZM σ α} {f : α → ZM σ β} {st : St σ} {R : α → St σ → Prop}
    {Q : β → St σ → Prop} {E : St σ → Prop}
    (hx : Ok S x st R E) (hf : ∀ a s, R a s → Ok S (f a) s Q E) : Ok S (x >>= f) st Q E := by
  unfold Ok at hx ⊢
  rw [exec_bind]
  cases h : exec x st with
  | mk r s =>
    rw [h] at hx
    cases r with
    | ok a => exact hf a s hx
    | error e => exact hx

theorem Ok.mono {m : ZM σ α} {st : St σ} {Q Q' : α → St σ → Prop} {E E' : St σ → Prop}
    (h : Ok S m st Q E) (hq : ∀ a s, Q a s → Q' a s) (he : ∀ s, E s → E' s) : Ok S m st Q' E' := by
  unfold Ok at h ⊢
  cases hr : exec m st with
  | mk r s =>
    rw [hr] at h
    cases r with
    | ok a => exact hq a s h
    | error e => exact ⟨he s h.1, h.2⟩

theorem Ok.exec_ok {m : ZM σ α} {st s : St σ} {Q : α → St σ → Prop} {E : St σ → Prop} {a : α}
    (h : Ok S m st Q E) (he : exec m st = (.ok a, s)) : Q a s := by
  unfold Ok at h; rw [he] at h; exact h

theorem Ok.exec_error {m : ZM σ α} {st s : St σ} {Q : α → St σ → Prop} {E : St σ → Prop} {e : Halt}
    (h : Ok S m st Q E) (he : exec m st = (.error e, s)) : E s ∧ ∀ f, e = .fault f → FaultOK S f := by
  unfold Ok at h; rw [he] at h; exact h

theorem Ok_get_bind (f : St σ → ZM σ β) (st : St σ) (Q : β → St σ → Prop) (E : St σ → Prop) :
    Ok S (get >>= f) st Q E = Ok S (f st) st Q E := by
  unfold Ok; rw [exec_bind, exec_get]
theorem Ok_set_bind (s : St σ) (f : PUnit → ZM σ β) (st : St σ) (Q : β → St σ → Prop) (E : St σ → Prop) :
    Ok S (set s >>= f) st Q E = Ok S (f ⟨⟩) s Q E := by
  unfold Ok; rw [exec_bind, exec_set]
theorem Ok_modify_bind (g : St σ → St σ) (f : PUnit → ZM σ β) (st : St σ) (Q : β → St σ → Prop)
    (E : St σ → Prop) : Ok S (modify g >>= f) st Q E = Ok S (f ⟨⟩) (g st) Q E := by
  unfold Ok; rw [exec_bind, exec_modify]
theorem Ok_pure_bind (a : α) (f : α → ZM σ β) (st : St σ) (Q : β → St σ → Prop) (E : St σ → Prop) :
    Ok S (pure a >>= f) st Q E = Ok S (f a) st Q E := by
  unfold Ok; rw [exec_bind, exec_pure]
theorem Ok_throw_bind (e : Halt) (f : α → ZM σ β) (st : St σ) (Q : β → St σ → Prop) (E : St σ → Prop) :
    Ok S (throw e >>= f) st Q E = (E st ∧ ∀ g, e = .fault g → FaultOK S g) := by
  unfold Ok; rw [exec_bind, exec_throw]
theorem Ok_pure (a : α) (st : St σ) (Q : α → St σ → Prop) (E : St σ → Prop) :
    Ok S (pure a) st Q E = Q a st := by
  unfold Ok; rw [exec_pure]
theorem Ok_throw (e : Halt) (st : St σ) (Q : α → St σ → Prop) (E : St σ → Prop) :
    Ok S (throw e : ZM σ α) st Q E = (E st ∧ ∀ g, e = .fault g → FaultOK S g) := by
  unfold Ok; rw [exec_throw]
theorem Ok_get (st : St σ) (Q : St σ → St σ → Prop) (E : St σ → Prop) :
    Ok S get st Q E = Q st st := by
  unfold Ok; rw [exec_get]
theorem Ok_set (s st : St σ) (Q : PUnit → St σ → Prop) (E : St σ → Prop) :
    Ok S (set s) st Q E = Q ⟨⟩ s := by
  unfold Ok; rw [exec_set]
theorem Ok_modify (g : St σ → St σ) (st : St σ) (Q : PUnit → St σ → Prop) (E : St σ → Prop) :
    Ok S (modify g) st Q E = Q ⟨⟩ (g st) := by
  unfold Ok; rw [exec_modify]

theorem notFault_inf (f : Fault) : Halt.inf = .fault f → FaultOK S f := by intro h; cases h
theorem notFault_sys (e : Err) (f : Fault) : Halt.sys e = .fault f → FaultOK S f := by intro h; cases h
theorem fault_hang (f : Fault) : Halt.fault .hang = .fault f → FaultOK S f := by
  intro h; cases h; exact .hang
end rules

/- `Ok` is a computable `match` on a run of the model; elaboration must not evaluate it (with
   32768 in the arguments `whnf` would count in unary) -/
attribute [irreducible] Ok

/-- the rewriting set that executes `get`/`set`/`modify`/`pure`/`throw` heads -/
macro "zsimp" : tactic =>
  `(tactic| try simp only [Ok_get_bind, Ok_set_bind, Ok_modify_bind, Ok_pure_bind, Ok_throw_bind, Ok_pure,
      Ok_throw, Ok_get, Ok_set, Ok_modify, bind_assoc, pure_bind])

/-! ## invariants -/

/-- holds between calls: the window is the 32 KiB frame -/
def WinOk (st : St σ) : Prop := st.window.size = zipFRAME_SIZE

/-- holds inside `inflate` (and at its normal return): the write position is inside the window
    and no more than a frame has been flushed -/
def Inv (st : St σ) : Prop :=
  st.window.size = zipFRAME_SIZE ∧ st.windowPosn < zipFRAME_SIZE ∧ st.bytesOutput ≤ zipFRAME_SIZE

/-- the three fields the invariants talk about are unchanged -/
def Same (a b : St σ) : Prop :=
  b.window = a.window ∧ b.windowPosn = a.windowPosn ∧ b.bytesOutput = a.bytesOutput

theorem Same.refl (a : St σ) : Same a a := ⟨rfl, rfl, rfl⟩
theorem Same.trans {a b c : St σ} (h1 : Same a b) (h2 : Same b c) : Same a c :=
  ⟨h2.1.trans h1.1, h2.2.1.trans h1.2.1, h2.2.2.trans h1.2.2⟩
theorem Same.inv {a b : St σ} (h : Same a b) (hi : Inv a) : Inv b := by
  unfold Inv at *; rw [h.1, h.2.1, h.2.2]; exact hi
theorem Same.winOk {a b : St σ} (h : Same a b) (hi : WinOk a) : WinOk b := by
  unfold WinOk at *; rw [h.1]; exact hi
theorem Inv.winOk {a : St σ} (h : Inv a) : WinOk a := h.1

/-- `m` does not touch window, write position or output count, whatever happens -/
def Quiet {α : Type} (m : ZM σ α) : Prop := ∀ st0 st, Same st0 st → Ok S m st (fun _ s => Same st0 s) (Same st0)

theorem readInput_ok (st0 st : St σ) (h : Same st0 st) :
    Ok S (readInput S) st (fun _ s => Same st0 s ∧ s.inbuf ≠ [] ∧ s.bits = st.bits) (Same st0) := by
  unfold readInput
  zsimp
  split
  · rename_i f hf
    zsimp
    refine ⟨h, fun g hg => ?_⟩
    cases hg
    exact .src _ _ _ hf
  · zsimp; exact ⟨h, notFault_sys _⟩
  · split
    · zsimp; exact ⟨h, notFault_sys _⟩
    · zsimp; exact ⟨h, by simp, trivial⟩
  · rename_i got src hne _
    zsimp
    exact ⟨h, fun hg => hne hg, trivial⟩

/-- `READ_IF_NEEDED; *i_ptr++`: the `inbuf` access is inside the buffer because `read_input`
    returned normally only with a non-empty one -/
theorem nextByte_ok (st0 st : St σ) (h : Same st0 st) :
    Ok S (nextByte S) st (fun _ s => Same st0 s ∧ s.bits = st.bits) (Same st0) := by
  unfold nextByte
  zsimp
  split
  · refine Ok.bind (readInput_ok S st0 st h) ?_
    intro _ s ⟨hs, hne, hb⟩
    zsimp
    split
    · zsimp; exact ⟨hs, hb⟩
    · rename_i he; exact absurd he hne
  · rename_i hne
    zsimp
    split
    · zsimp; exact ⟨h, trivial⟩
    · rename_i he; rw [he] at hne; exact absurd rfl hne

theorem nextByte_quiet : Quiet S (nextByte S) :=
  fun st0 st h => (nextByte_ok S st0 st h).mono (fun _ _ h => h.1) (fun _ h => h)

theorem byteBits_length (b : UInt8) : (byteBits b).length = 8 := by
  simp [byteBits]

/-- `ENSURE_BITS(n)`: afterwards `n` bits are there, or every round added eight -/
theorem ensureBits_ok (n : Nat) : ∀ (fuel : Nat) (st0 st : St σ), Same st0 st →
    Ok S (ensureBits S n fuel) st
      (fun _ s => Same st0 s ∧ (n ≤ s.bits.length ∨ st.bits.length + 8 * fuel ≤ s.bits.length)) (Same st0) := by
  intro fuel
  induction fuel with
  | zero => intro st0 st h; rw [ensureBits.eq_1]; zsimp; exact ⟨h, .inr (Nat.le_refl _)⟩
  | succ fuel ih =>
    intro st0 st h
    rw [ensureBits.eq_2]
    zsimp
    split
    · refine Ok.bind (nextByte_ok S st0 st h) ?_
      intro b s ⟨hs, hb⟩
      zsimp
      refine (ih st0 { s with bits := s.bits ++ byteBits b } hs).mono ?_ (fun _ h => h)
      intro _ s' ⟨hs', hl⟩
      refine ⟨hs', ?_⟩
      simp only [List.length_append, byteBits_length, hb] at hl
      omega
    · rename_i hge
      zsimp; exact ⟨h, .inl (Nat.le_of_not_gt hge)⟩

theorem ensureBits_quiet (n fuel : Nat) : Quiet S (ensureBits S n fuel) :=
  fun st0 st h => (ensureBits_ok S n fuel st0 st h).mono (fun _ _ h => h.1) (fun _ h => h)

theorem removeBits_quiet (n : Nat) : Quiet S (removeBits (σ := σ) n) := by
  intro st0 st h
  unfold removeBits
  zsimp; exact h

theorem bitsVal_lt (bs : List Bool) : bitsVal bs < 2 ^ bs.length := by
  unfold bitsVal
  induction bs with
  | nil => simp
  | cons b rest ih =>
    simp only [List.foldr_cons, List.length_cons, Nat.pow_succ]
    split <;> omega

/-- `READ_BITS(val, n)`: the value has `n` bits -/
theorem readBits_ok (n : Nat) (st0 st : St σ) (h : Same st0 st) :
    Ok S (readBits S n) st (fun v s => Same st0 s ∧ v < 2 ^ n) (Same st0) := by
  unfold readBits
  refine Ok.bind (ensureBits_quiet S n 3 st0 st h) ?_
  intro _ s hs
  zsimp
  refine Ok.bind (removeBits_quiet S n st0 s hs) ?_
  intro _ s' hs'
  zsimp
  refine ⟨hs', Nat.lt_of_lt_of_le (bitsVal_lt _) (Nat.pow_le_pow_right (by decide) ?_)⟩
  rw [List.length_take]; exact Nat.min_le_left ..

theorem readBits_quiet (n : Nat) : Quiet S (readBits S n) :=
  fun st0 st h => (readBits_ok S n st0 st h).mono (fun _ _ h => h.1) (fun _ h => h)

theorem readHuffSym_quiet (c : Huff.Canon) : Quiet S (readHuffSym S c) := by
  intro st0 st h
  unfold readHuffSym
  refine Ok.bind (ensureBits_quiet S 16 3 st0 st h) ?_
  intro _ s hs
  zsimp
  split
  · refine Ok.bind (removeBits_quiet S _ st0 s hs) ?_
    intro _ s hs
    zsimp; exact hs
  · zsimp; exact ⟨hs, notFault_inf⟩

/-- the run-length loop of `zip_read_lens`; `hc`: the 7-bit table decodes every 7-bit word, so the
    `bl_table` lookup never meets an unset entry -/
theorem readLensLoop_quiet (c : Huff.Canon) (total : Nat)
    (hc : ∀ bits : List Bool, 7 ≤ bits.length → Huff.decode c (bits.take 7) ≠ none) :
    ∀ fuel lens last, Quiet S (readLensLoop S c total fuel lens last) := by
  intro fuel
  induction fuel with
  | zero => intro lens last st0 st h; rw [readLensLoop.eq_1]; zsimp; exact ⟨h, fault_hang⟩
  | succ fuel ih =>
    intro lens last st0 st h
    rw [readLensLoop.eq_2]
    split
    · zsimp; exact h
    · refine Ok.bind (ensureBits_ok S 7 2 st0 st h) ?_
      intro _ s ⟨hs, hlen⟩
      zsimp
      split
      · rename_i hnone
        exact absurd hnone (hc s.bits (by omega))
      · refine Ok.bind (removeBits_quiet S _ st0 s hs) ?_
        intro _ s hs
        split
        · exact ih _ _ st0 s hs
        · split
          · zsimp; exact ⟨hs, notFault_inf⟩
          · try zsimp
            refine Ok.bind (readBits_quiet S _ st0 s hs) ?_
            intro v s hs
            have key : ∀ run val, Ok S (if lens.length + run > total then throw Halt.inf
                else readLensLoop S c total fuel (lens ++ List.replicate run val) last) s
                (fun _ s => Same st0 s) (Same st0) := by
              intro run val
              split
              · zsimp; exact ⟨hs, notFault_inf⟩
              · exact ih _ _ st0 s hs
            exact key _ _

/-- the 3-bit fields of the code-length code -/
theorem zipReadLens_rd_ok (blc : Nat) : ∀ (k : Nat) (acc : List (Nat × Nat)) (st0 st : St σ),
    (∀ p ∈ acc, p.2 < 8) → Same st0 st →
    Ok S (zipReadLens.rd S blc k acc) st (fun r s => Same st0 s ∧ ∀ p ∈ r, p.2 < 8) (Same st0) := by
  intro k
  induction k with
  | zero => intro acc st0 st ha h; rw [zipReadLens.rd.eq_1]; zsimp; exact ⟨h, ha⟩
  | succ k ih =>
    intro acc st0 st ha h
    rw [zipReadLens.rd.eq_2]
    refine Ok.bind (readBits_ok S 3 st0 st h) ?_
    intro v s ⟨hs, hv⟩
    refine ih _ st0 s ?_ hs
    intro p hp
    rcases List.mem_cons.mp hp with rfl | hp
    · exact hv
    · exact ha p hp

theorem lookup_getD_lt (pairs : List (Nat × Nat)) (hp : ∀ p ∈ pairs, p.2 < 8) (s : Nat) :
    (pairs.lookup s).getD 0 ≤ 7 := by
  induction pairs with
  | nil => simp
  | cons p rest ih =>
    obtain ⟨a, b⟩ := p
    rw [List.lookup_cons]
    split
    · have := hp (a, b) (List.mem_cons_self ..)
      simp only [Option.getD_some]
      exact Nat.le_of_lt_succ this
    · exact ih (fun p h => hp p (List.mem_cons_of_mem _ h))

theorem zipReadLens_quiet : Quiet S (zipReadLens S) := by
  intro st0 st h
  unfold zipReadLens
  refine Ok.bind (readBits_quiet S _ st0 st h) ?_
  intro v1 s hs
  refine Ok.bind (readBits_quiet S _ st0 s hs) ?_
  intro v2 s hs
  refine Ok.bind (readBits_quiet S _ st0 s hs) ?_
  intro v3 s hs
  zsimp
  split
  · zsimp; exact ⟨hs, notFault_inf⟩
  · split
    · zsimp; exact ⟨hs, notFault_inf⟩
    · refine Ok.bind (zipReadLens_rd_ok S _ _ [] st0 s (fun _ h => by cases h) hs) ?_
      intro pairs s ⟨hs, hp⟩
      split
      · zsimp; exact ⟨hs, notFault_inf⟩
      · rename_i c hbuild
        have hc := Huff.build7_complete _ (by
          intro l hl
          rcases List.mem_map.mp hl with ⟨x, _, rfl⟩
          exact lookup_getD_lt pairs hp x) c hbuild
        refine Ok.bind (readLensLoop_quiet S _ _ hc _ _ _ st0 s hs) ?_
        intro lens s hs
        zsimp; exact hs

theorem scanCK_quiet : ∀ fuel state, Quiet S (scanCK S fuel state) := by
  intro fuel
  induction fuel with
  | zero => intro state st0 st h; rw [scanCK.eq_1]; zsimp; exact ⟨h, fault_hang⟩
  | succ fuel ih =>
    intro state st0 st h
    rw [scanCK.eq_2]
    refine Ok.bind (readBits_quiet S _ st0 st h) ?_
    intro v s hs
    have key : ∀ x, Ok S (if x = 2 then pure () else scanCK S fuel x) s (fun _ s => Same st0 s) (Same st0) := by
      intro x
      split
      · zsimp; exact hs
      · exact ih _ st0 s hs
    exact key _

/-- a quiet action keeps the inner invariant -/
theorem Quiet.safe {α : Type} {m : ZM σ α} (hq : Quiet S m) {st : St σ} (hi : Inv st) :
    Ok S m st (fun _ s => Inv s) WinOk :=
  (hq st st (Same.refl st)).mono (fun _ _ h => h.inv hi) (fun _ h => h.winOk hi.winOk)

/-- a quiet action keeps the outer invariant -/
theorem Quiet.safeW {α : Type} {m : ZM σ α} (hq : Quiet S m) {st : St σ} (hi : WinOk st) :
    Ok S m st (fun _ s => WinOk s) WinOk :=
  (hq st st (Same.refl st)).mono (fun _ _ h => h.winOk hi) (fun _ h => h.winOk hi)

theorem flushWindow_ok (n : Nat) (st : St σ) (hw : WinOk st) :
    Ok S (flushWindow n) st
      (fun _ s => WinOk s ∧ s.windowPosn = st.windowPosn ∧ s.bytesOutput ≤ zipFRAME_SIZE) WinOk := by
  unfold flushWindow
  zsimp
  split
  · zsimp; exact ⟨hw, notFault_inf⟩
  · rename_i hle
    zsimp; exact ⟨hw, trivial, Nat.le_of_not_gt hle⟩

/-- `FLUSH_IF_NEEDED` restores `windowPosn < frame` from `≤` -/
theorem flushIfNeeded_ok (st : St σ) (hw : WinOk st) (hp : st.windowPosn ≤ zipFRAME_SIZE)
    (hb : st.bytesOutput ≤ zipFRAME_SIZE) :
    Ok S flushIfNeeded st (fun _ s => Inv s) WinOk := by
  unfold flushIfNeeded
  zsimp
  split
  · have h1 := flushWindow_ok S zipFRAME_SIZE st hw
    refine Ok.bind h1 ?_
    intro _ s ⟨hs, _, hle⟩
    zsimp
    refine ⟨hs, ?_, hle⟩
    show 0 < zipFRAME_SIZE
    decide
  · zsimp
    exact ⟨hw, by omega, hb⟩

theorem putByte_ok (b : UInt8) (st : St σ) (hi : Inv st) :
    Ok S (putByte b) st (fun _ s => Inv s) WinOk := by
  unfold putByte
  zsimp
  split
  · zsimp
    refine flushIfNeeded_ok S _ ?_ ?_ ?_
    · unfold WinOk
      simp only [Array.size_set]; exact hi.1
    · show st.windowPosn + 1 ≤ _
      have := hi.2.1; omega
    · exact hi.2.2
  · rename_i hn
    exact absurd (hi.1 ▸ hi.2.1) hn

theorem foldl_set_size (chunk : List UInt8) : ∀ (w : Array UInt8) (p : Nat),
    (chunk.foldl (fun (acc : Array UInt8 × Nat) b => (acc.1.setIfInBounds acc.2 b, acc.2 + 1)) (w, p)).1.size
      = w.size := by
  induction chunk with
  | nil => intro w p; rfl
  | cons b rest ih =>
    intro w p
    rw [List.foldl_cons, ih]
    exact Array.size_setIfInBounds ..

theorem copyMatch_ok : ∀ (length posn : Nat) (st : St σ), Inv st →
    Ok S (copyMatch length posn) st (fun _ s => Inv s) WinOk := by
  intro length
  induction length with
  | zero => intro posn st hi; rw [copyMatch.eq_1]; zsimp; exact hi
  | succ length ih =>
    intro posn st hi
    rw [copyMatch.eq_2]
    zsimp
    refine Ok.bind (putByte_ok S _ st hi) ?_
    intro _ s hs
    exact ih _ s hs

theorem copyStored_ok : ∀ (fuel length : Nat) (st : St σ), Inv st →
    Ok S (copyStored S fuel length) st (fun _ s => Inv s) WinOk := by
  intro fuel
  induction fuel with
  | zero => intro length st hi; rw [copyStored.eq_1]; zsimp; exact ⟨hi.winOk, fault_hang⟩
  | succ fuel ih =>
    intro length st hi
    rw [copyStored.eq_2]
    split
    · zsimp; exact hi
    · zsimp
      have key : ∀ st : St σ, Inv st → Ok S (do
          let st ← get
          let run := min (min length st.inbuf.length) (zipFRAME_SIZE - st.windowPosn)
          let chunk := st.inbuf.take run
          let w := chunk.foldl (fun (acc : Array UInt8 × Nat) b => (acc.1.setIfInBounds acc.2 b, acc.2 + 1)) (st.window, st.windowPosn)
          set { st with inbuf := st.inbuf.drop run, window := w.1, windowPosn := st.windowPosn + run }
          flushIfNeeded
          copyStored S fuel (length - run)) st (fun _ s => Inv s) WinOk := by
        intro st hi
        zsimp
        refine Ok.bind (flushIfNeeded_ok S _ ?_ ?_ ?_) ?_
        · unfold WinOk; dsimp only; rw [foldl_set_size]; exact hi.1
        · dsimp only; have := hi.2.1; omega
        · exact hi.2.2
        · intro _ s hs
          exact ih _ s hs
      split
      · refine Ok.bind ((readInput_ok S st st (Same.refl _)).mono (fun _ s h => h.1.inv hi) (fun s h => h.winOk hi.winOk)) ?_
        intro _ s hs
        exact key s hs
      · exact key st hi

theorem huffBlock_ok (lit dist : Huff.Canon) : ∀ (fuel : Nat) (st : St σ), Inv st →
    Ok S (huffBlock S lit dist fuel) st (fun _ s => Inv s) WinOk := by
  intro fuel
  induction fuel with
  | zero => intro st hi; rw [huffBlock.eq_1]; zsimp; exact ⟨hi.winOk, fault_hang⟩
  | succ fuel ih =>
    intro st hi
    rw [huffBlock.eq_2]
    refine Ok.bind ((readHuffSym_quiet S lit).safe S hi) ?_
    intro code s hs
    split
    · refine Ok.bind (putByte_ok S _ s hs) ?_
      intro _ s hs
      exact ih s hs
    · split
      · zsimp; exact hs
      · zsimp
        split
        · zsimp; exact ⟨hs.winOk, notFault_inf⟩
        · zsimp
          refine Ok.bind ((readBits_quiet S _).safe S hs) ?_
          intro v s hs
          zsimp
          refine Ok.bind ((readHuffSym_quiet S dist).safe S hs) ?_
          intro dc s hs
          split
          · zsimp; exact ⟨hs.winOk, notFault_inf⟩
          · zsimp
            refine Ok.bind ((readBits_quiet S _).safe S hs) ?_
            intro v2 s hs
            zsimp
            refine Ok.bind (copyMatch_ok S _ _ s hs) ?_
            intro _ s hs
            exact ih s hs

theorem inflate_more_ok : ∀ (k : Nat) (acc : List UInt8), Quiet S (inflate.more S k acc) := by
  intro k
  induction k with
  | zero => intro acc st0 st h; rw [inflate.more.eq_1]; zsimp; exact h
  | succ k ih =>
    intro acc st0 st h
    rw [inflate.more.eq_2]
    refine Ok.bind (nextByte_quiet S st0 st h) ?_
    intro b s hs
    exact ih _ st0 s hs

theorem inflate_ok : ∀ (fuel : Nat) (st : St σ), Inv st →
    Ok S (inflate S fuel) st (fun _ s => Inv s) WinOk := by
  intro fuel
  induction fuel with
  | zero => intro st hi; rw [inflate.eq_1]; zsimp; exact ⟨hi.winOk, fault_hang⟩
  | succ fuel ih =>
    intro st hi
    rw [inflate.eq_2]
    refine Ok.bind ((readBits_quiet S 1).safe S hi) ?_
    intro lastBlock s hs
    refine Ok.bind ((readBits_quiet S 2).safe S hs) ?_
    intro blockType s hs
    have tail : ∀ s : St σ, Inv s → Ok S (if lastBlock = 0 then inflate S fuel
        else do
          let st ← get
          if st.windowPosn ≠ 0 then flushWindow st.windowPosn else pure ()) s (fun _ s => Inv s) WinOk := by
      intro s hs
      split
      · exact ih s hs
      · zsimp
        split
        · refine (flushWindow_ok S _ s hs.winOk).mono ?_ (fun _ h => h)
          intro _ s' ⟨h1, h2, h3⟩
          exact ⟨h1, h2 ▸ hs.2.1, h3⟩
        · zsimp; exact hs
    zsimp
    split
    · zsimp
      split
      · zsimp; exact ⟨hs.winOk, notFault_inf⟩
      · zsimp
        refine Ok.bind ((inflate_more_ok S _ _).safe S (st := { s with bits := [] }) hs) ?_
        intro lb s hs
        zsimp
        split
        · zsimp; exact ⟨hs.winOk, notFault_inf⟩
        · zsimp
          refine Ok.bind (copyStored_ok S _ _ s hs) ?_
          intro _ s hs
          exact tail s hs
    · split
      · have rest : ∀ s : St σ, Inv s → Ok S (do
            let st ← get
            match Huff.build zipLITERAL_TABLEBITS st.litLens with
              | none => do
                let __r ← throw Halt.inf
                (fun (_ : Unit) => if lastBlock = 0 then inflate S fuel
                  else do
                    let st ← get
                    if st.windowPosn ≠ 0 then flushWindow st.windowPosn else pure ()) __r
              | some lit =>
                match Huff.build zipDISTANCE_TABLEBITS st.distLens with
                | none => do
                  let __r ← throw Halt.inf
                  (fun (_ : Unit) => if lastBlock = 0 then inflate S fuel
                    else do
                      let st ← get
                      if st.windowPosn ≠ 0 then flushWindow st.windowPosn else pure ()) __r
                | some dist => do
                  let __r ← huffBlock S lit dist fuel
                  (fun (_ : Unit) => if lastBlock = 0 then inflate S fuel
                    else do
                      let st ← get
                      if st.windowPosn ≠ 0 then flushWindow st.windowPosn else pure ()) __r) s (fun _ s => Inv s) WinOk := by
          intro s hs
          zsimp
          split
          · zsimp; exact ⟨hs.winOk, notFault_inf⟩
          · split
            · zsimp; exact ⟨hs.winOk, notFault_inf⟩
            · refine Ok.bind (huffBlock_ok S _ _ _ s hs) ?_
              intro _ s hs
              exact tail s hs
        split
        · rw [Ok_modify_bind]
          exact rest _ hs
        · refine Ok.bind ((zipReadLens_quiet S).safe S hs) ?_
          intro _ s hs
          exact rest s hs
      · zsimp; exact ⟨hs.winOk, notFault_inf⟩

theorem runInflate_error (fuel : Nat) (st : St σ) (hi : Inv st) (f : Fault)
    (h : runInflate S fuel st = .error f) : FaultOK S f := by
  have hk := inflate_ok S fuel st hi
  unfold runInflate at h
  change (match exec (inflate S fuel) st with
    | (.ok (), st') => Except.ok (InfRes.ok, st')
    | (.error (.fault f), _) => .error f
    | (.error .inf, st') => .ok (.inf, st')
    | (.error (.sys e), st') => .ok (.sys e, st')) = _ at h
  cases hr : exec (inflate S fuel) st with
  | mk r s =>
    rw [hr] at h
    cases r with
    | ok a => cases h
    | error e =>
      cases e with
      | inf => cases h
      | sys e => cases h
      | fault g =>
        simp only [Except.error.injEq] at h
        subst h
        exact (hk.exec_error hr).2 g rfl

theorem runInflate_ok (fuel : Nat) (st : St σ) (hi : Inv st) (r : InfRes) (s : St σ)
    (h : runInflate S fuel st = .ok (r, s)) : WinOk s ∧ (r = .ok → Inv s) := by
  have hk := inflate_ok S fuel st hi
  unfold runInflate at h
  change (match exec (inflate S fuel) st with
    | (.ok (), st') => Except.ok (InfRes.ok, st')
    | (.error (.fault f), _) => .error f
    | (.error .inf, st') => .ok (.inf, st')
    | (.error (.sys e), st') => .ok (.sys e, st')) = _ at h
  cases hr : exec (inflate S fuel) st with
  | mk r' s' =>
    rw [hr] at h
    cases r' with
    | ok a =>
      simp only [Except.ok.injEq, Prod.mk.injEq] at h
      obtain ⟨h1, h2⟩ := h
      subst h2
      have := hk.exec_ok hr
      exact ⟨this.winOk, fun _ => this⟩
    | error e =>
      have hw := (hk.exec_error hr).1
      cases e with
      | inf =>
        simp only [Except.ok.injEq, Prod.mk.injEq] at h
        obtain ⟨h1, h2⟩ := h
        subst h1 h2
        exact ⟨hw, fun hc => by cases hc⟩
      | sys e =>
        simp only [Except.ok.injEq, Prod.mk.injEq] at h
        obtain ⟨h1, h2⟩ := h
        subst h1 h2
        exact ⟨hw, fun hc => by cases hc⟩
      | fault g => cases h

/-- outcome of a `decompress` call: a fault is one of `FaultOK`, a returned state keeps the window -/
def ResOk (r : Except Fault (Out σ)) : Prop :=
  match r with
  | .error f => FaultOK S f
  | .ok o => WinOk o.st

theorem foldl_setIfInBounds_size (g : Nat → Nat) (v : UInt8) (l : List Nat) : ∀ (w : Array UInt8),
    (l.foldl (fun (a : Array UInt8) i => a.setIfInBounds (g i) v) w).size = w.size := by
  induction l with
  | nil => intro w; rfl
  | cons b rest ih =>
    intro w
    rw [List.foldl_cons, ih]
    exact Array.size_setIfInBounds ..

theorem loopTail_ok (fuel n : Nat)
    (ih : ∀ (st : St σ) (outBytes : Nat) (w : Bytes), WinOk st → ResOk S (decompressLoop S fuel n st outBytes w))
    (res : InfRes) (st' : St σ) (hst' : WinOk st') (w' p : Bytes) (ob : Nat) :
    ResOk S (match res with
      | .sys e => if st'.repair then .ok ⟨e, w', { st' with pending := p }⟩ else .ok ⟨e, w', st'⟩
      | _ => decompressLoop S fuel n { st' with pending := p } ob w') := by
  split
  · split
    · exact hst'
    · exact hst'
  · exact ih _ _ _ hst'

theorem decompressLoop_ok (fuel : Nat) : ∀ (n : Nat) (st : St σ) (outBytes : Nat) (w : Bytes), WinOk st →
    ResOk S (decompressLoop S fuel n st outBytes w) := by
  intro n
  induction n with
  | zero => intro st outBytes w hw; rw [decompressLoop.eq_1]; exact .hang
  | succ n ih =>
    intro st outBytes w hw
    rw [decompressLoop.eq_2]
    split
    · exact hw
    · dsimp only
      have hs := (scanCK_quiet S fuel 0).safeW S (st := { st with bits := st.bits.drop (st.bits.length % 8) }) hw
      change ResOk S (match exec (scanCK S fuel 0) { st with bits := st.bits.drop (st.bits.length % 8) } with
        | (.error (.fault f), _) => _
        | (.error .inf, st) => _
        | (.error (.sys e), st) => _
        | (.ok (), st) => _)
      cases hr : exec (scanCK S fuel 0) { st with bits := st.bits.drop (st.bits.length % 8) } with
      | mk r s =>
        cases r with
        | error e =>
          have he := hs.exec_error hr
          cases e with
          | fault g => exact he.2 g rfl
          | inf => exact he.1
          | sys e => exact he.1
        | ok a =>
          have hw1 : WinOk s := hs.exec_ok hr
          dsimp only
          have hi : Inv { s with windowPosn := 0, bytesOutput := 0 } :=
            ⟨hw1, by show 0 < zipFRAME_SIZE; decide, Nat.zero_le _⟩
          cases hri : runInflate S fuel { s with windowPosn := 0, bytesOutput := 0 } with
          | error f => exact runInflate_error S fuel _ hi f hri
          | ok p =>
            obtain ⟨res, s2⟩ := p
            have hw2 := (runInflate_ok S fuel _ hi res s2 hri).1
            dsimp only
            split
            · exact hw2
            · apply loopTail_ok S fuel n ih
              split
              · unfold WinOk
                dsimp only
                rw [foldl_setIfInBounds_size]
                exact hw2
              · exact hw2

theorem decompress_ok (fuel : Nat) (st : St σ) (outBytes : Nat) (hw : WinOk st) :
    ResOk S (decompress S fuel st outBytes) := by
  unfold decompress
  split
  · exact hw
  · dsimp only
    split
    · exact hw
    · exact decompressLoop_ok S fuel fuel _ _ _ hw

theorem init_winOk (src : σ) (n : Nat) (repair : Bool) (fill : UInt8) (st : St σ)
    (h : init src n repair fill = some st) : WinOk st := by
  unfold init at h
  dsimp only at h
  split at h
  · cases h
  · simp only [Option.some.injEq] at h
    subst h
    exact Array.size_replicate ..

theorem kwajBlockHead_ok (st : St σ) (hw : WinOk st) :
    Ok S (kwajBlockHead S) st (fun b s => WinOk s ∧ (b = true → Inv s)) WinOk := by
  unfold kwajBlockHead
  zsimp
  refine Ok.bind ((readBits_quiet S 8).safeW S (st := { st with bits := st.bits.drop (st.bits.length % 8) }) hw) ?_
  intro lo s hs
  refine Ok.bind ((readBits_quiet S 8).safeW S hs) ?_
  intro hi s hs
  zsimp
  split
  · zsimp; exact ⟨hs, fun h => by cases h⟩
  · refine Ok.bind ((readBits_quiet S 8).safeW S hs) ?_
    intro c s hs
    split
    · zsimp; exact ⟨hs, notFault_sys _⟩
    · zsimp
      refine Ok.bind ((readBits_quiet S 8).safeW S hs) ?_
      intro k s hs
      split
      · zsimp; exact ⟨hs, notFault_sys _⟩
      · zsimp
        exact ⟨hs, fun _ => ⟨hs, by show 0 < zipFRAME_SIZE; decide, Nat.zero_le _⟩⟩

theorem kwajLoop_ok (fuel : Nat) : ∀ (n : Nat) (st : St σ) (w : Array UInt8), WinOk st →
    ResOk S (kwajLoop S fuel n st w) := by
  intro n
  induction n with
  | zero => intro st w hw; rw [kwajLoop.eq_1]; exact .hang
  | succ n ih =>
    intro st w hw
    rw [kwajLoop.eq_2]
    have hs := kwajBlockHead_ok S st hw
    change ResOk S (match exec (kwajBlockHead S) st with
        | (.error (.fault f), _) => _
        | (.error .inf, st) => _
        | (.error (.sys e), st) => _
        | (.ok false, st) => _
        | (.ok true, st) => _)
    cases hr : exec (kwajBlockHead S) st with
    | mk r s =>
      cases r with
      | error e =>
        have he := hs.exec_error hr
        cases e with
        | fault g => exact he.2 g rfl
        | inf => exact he.1
        | sys e => exact he.1
      | ok b =>
        have hb := hs.exec_ok hr
        cases b with
        | false => exact hb.1
        | true =>
          have hi : Inv s := hb.2 rfl
          dsimp only
          cases hri : runInflate S fuel s with
          | error f => exact runInflate_error S fuel _ hi f hri
          | ok p =>
            obtain ⟨res, s2⟩ := p
            have h2 := runInflate_ok S fuel _ hi res s2 hri
            cases res with
            | sys e => exact h2.1
            | inf => exact h2.1
            | ok =>
              have hi2 : Inv s2 := h2.2 rfl
              dsimp only
              split
              · rename_i hgt
                exfalso
                rw [hi2.1] at hgt
                exact absurd hi2.2.2 (Nat.not_le_of_gt hgt)
              · exact ih _ _ h2.1

theorem decompressKwaj_ok (fuel : Nat) (st : St σ) (hw : WinOk st) :
    ResOk S (decompressKwaj S fuel st) := kwajLoop_ok S fuel fuel st _ hw

end MsPack.Zip
