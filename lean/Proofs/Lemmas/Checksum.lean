import MsPack.Cab.Checksum
namespace MsPack.Cab
open MsPack

theorem xor_left_cancel {a x y : Nat} (h : a ^^^ x = a ^^^ y) : x = y := by
  have := congrArg (a ^^^ ·) h
  simpa [← Nat.xor_assoc] using this

theorem xor_right_cancel {a x y : Nat} (h : x ^^^ a = y ^^^ a) : x = y := by
  rw [Nat.xor_comm x, Nat.xor_comm y] at h; exact xor_left_cancel h

/-- the running value only enters by XOR -/
theorem cksum_seed (d : Bytes) : ∀ s, cksum d s = s ^^^ cksum d 0 := by
  refine cksum.induct (motive := fun d _ => ∀ s, cksum d s = s ^^^ cksum d 0) ?_ ?_ d 0
  · intro a b c d rest _ ih s
    rw [cksum, ih, cksum, ih (0 ^^^ _)]
    simp [Nat.xor_assoc]
  · intro tail _ h s
    rw [cksum, cksum]
    · simp
    · intro a b c d rest; exact h a b c d rest
    · intro a b c d rest; exact h a b c d rest

theorem le32_inj {a b c d a' b' c' d' : UInt8} (h : le32 a b c d = le32 a' b' c' d') :
    a = a' ∧ b = b' ∧ c = c' ∧ d = d' := by
  have := a.toNat_lt; have := b.toNat_lt; have := c.toNat_lt; have := d.toNat_lt
  have := a'.toNat_lt; have := b'.toNat_lt; have := c'.toNat_lt; have := d'.toNat_lt
  unfold le32 at h
  refine ⟨?_, ?_, ?_, ?_⟩ <;> apply UInt8.toNat_inj.mp <;> omega

end MsPack.Cab

namespace MsPack.Cab
open MsPack

theorem cksumTail_set_ne (t : Bytes) (ht : t.length < 4) (i : Nat) (v : UInt8) (h : i < t.length)
    (hv : v ≠ t[i]) : cksumTail (t.set i v) ≠ cksumTail t := by
  have hvn : ∀ x : UInt8, v ≠ x → v.toNat ≠ x.toNat := fun x hx hc => hx (UInt8.toNat_inj.mp hc)
  match t, ht, i, h, hv with
  | [a], _, 0, _, hv => simpa [cksumTail] using hvn _ hv
  | [a, b], _, 0, _, hv => have := hvn _ hv; simp [cksumTail] at *; omega
  | [a, b], _, 1, _, hv => have := hvn _ hv; simp [cksumTail] at *; omega
  | [a, b, c], _, 0, _, hv => have := hvn _ hv; simp [cksumTail] at *; omega
  | [a, b, c], _, 1, _, hv => have := hvn _ hv; simp [cksumTail] at *; omega
  | [a, b, c], _, 2, _, hv => have := hvn _ hv; simp [cksumTail] at *; omega

/-- **Any single-byte alteration of the data changes `cabd_checksum`** (every length, every
    position, every replacement value, every seed). -/
theorem cksum_set_ne (d : Bytes) : ∀ (i : Nat) (v : UInt8) (s : Nat) (h : i < d.length),
    v ≠ d[i] → cksum (d.set i v) s ≠ cksum d s := by
  refine cksum.induct (motive := fun d _ => ∀ (i : Nat) (v : UInt8) (s : Nat) (h : i < d.length),
    v ≠ d[i] → cksum (d.set i v) s ≠ cksum d s) ?_ ?_ d 0
  · intro a b c d rest _ ih i v s h hv
    have key : ∀ a' b' c' d', (a', b', c', d') ≠ (a, b, c, d) →
        cksum (a' :: b' :: c' :: d' :: rest) s ≠ cksum (a :: b :: c :: d :: rest) s := by
      intro a' b' c' d' hne heq
      rw [cksum, cksum, cksum_seed rest (s ^^^ _), cksum_seed rest (s ^^^ le32 a b c d)] at heq
      have := le32_inj (xor_left_cancel (xor_right_cancel heq))
      apply hne; simp [this]
    match i, h, hv with
    | 0, _, hv => exact key v b c d (by simpa using hv)
    | 1, _, hv => exact key a v c d (by simpa using hv)
    | 2, _, hv => exact key a b v d (by simpa using hv)
    | 3, _, hv => exact key a b c v (by simpa using hv)
    | i + 4, h, hv =>
      simp only [List.set_cons_succ]
      rw [cksum, cksum]
      exact ih i v _ (by simpa using h) (by simpa using hv)
  · intro tail _ hnot i v s h hv
    have hlen : tail.length < 4 := by
      match tail, hnot with
      | [], _ => simp
      | [_], _ => simp
      | [_, _], _ => simp
      | [_, _, _], _ => simp
      | a :: b :: c :: d :: rest, hnot => exact absurd rfl (hnot a b c d rest)
    have hnot' : ∀ a b c d rest, tail.set i v = a :: b :: c :: d :: rest → False := by
      intro a b c d rest he
      have := congrArg List.length he; simp at this; omega
    rw [cksum, cksum]
    · intro heq; exact cksumTail_set_ne tail hlen i v h hv (xor_left_cancel heq)
    · exact hnot
    · exact hnot'

end MsPack.Cab
