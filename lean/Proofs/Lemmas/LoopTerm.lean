import MsPack.Lzss.Decoder
import MsPack.Szdd.Decompress
import MsPack.Kwaj.Extract
/-!
# Termination of the fuel loops: the fuel the callers pass always suffices

Pattern (as in `Proofs/Lemmas/FeederTerm.lean`): a measure that every loop iteration decreases, and
an induction on the fuel.  The sources a decoder reads from are abstract (`Src σ`); what the proofs
need of one is that it is *finite*: there is a number of bytes left (`rem`) which every successful
`read` decreases by at least the number of bytes it delivers, and the source itself never reports
"out of fuel".
-/
namespace MsPack

/-- a source that eventually returns 0 bytes: `rem s` bounds the bytes it can still deliver -/
structure Src.Finite {σ : Type} (S : Src σ) (rem : σ → Nat) : Prop where
  read_le : ∀ s n c s', S.read s n = .ok (some c, s') → c.length + rem s' ≤ rem s
  no_hang : ∀ s n, S.read s n ≠ .error .hang

/-- bytes between the position of a file-backed handle and the end of its file -/
def Rd.left (r : Rd) : Nat := r.file.length - r.pos

theorem Rd.read_left (r : Rd) (n : Nat) : (r.read n).1.length + (r.read n).2.left = r.left := by
  simp only [Rd.read, Rd.left, List.length_take, List.length_drop]
  omega

theorem Rd.read_file (r : Rd) (n : Nat) : (r.read n).2.file = r.file := rfl

theorem Rd.read_pos (r : Rd) (n : Nat) : (r.read n).2.pos = r.pos + (r.read n).1.length := rfl

theorem Rd.read_length_le (r : Rd) (n : Nat) : (r.read n).1.length ≤ n := by
  simp only [Rd.read, List.length_take]; omega

/-- the file-backed source is finite -/
theorem Rd.src_finite : Src.Finite Rd.src Rd.left where
  read_le := by
    intro s n c s' h
    simp only [Rd.src, Except.ok.injEq, Prod.mk.injEq, Option.some.injEq] at h
    have := Rd.read_left s n
    rw [← h.1, ← h.2]; omega
  no_hang := by intro s n h; simp [Rd.src] at h

end MsPack

namespace MsPack.Lzss
open MsPack MsPack.Generated

variable {σ : Type} (S : Src σ) (rem : σ → Nat)

/-- input bytes the decoder can still consume: buffered + left in the source -/
def St.left (st : St σ) : Nat := st.inbuf.length + rem st.src

/-- what a piece of the decoder may do: never `hang`; if it falls through, at most `m` bytes
    (`m - 1` if `strict`) are left -/
def Res.Good {α : Type} (m : Nat) (strict : Bool) : Res σ α → Prop
  | .ok _ st' => St.left rem st' + (if strict then 1 else 0) ≤ m
  | .fault f => f ≠ .hang
  | .ret _ _ => True

theorem nextByte_good_T (hS : S.Finite rem) (st : St σ) :
    Res.Good rem (St.left rem st) true (nextByte S st) := by
  unfold nextByte
  split
  · rename_i b rest hb
    simp only [Res.Good, St.left, hb, List.length_cons, ↓reduceIte]; omega
  · rename_i hb
    split
    · rename_i f hr
      simp only [Res.Good]
      intro hf; subst hf; exact hS.no_hang _ _ hr
    · simp [Res.Good]
    · simp [Res.Good]
    · rename_i b rest src hr
      have := hS.read_le _ _ _ _ hr
      simp only [Res.Good, St.left, hb, List.length_cons, List.length_nil, ↓reduceIte] at this ⊢
      omega

theorem emitByte_good_T (st : St σ) (b : UInt8) :
    Res.Good rem (St.left rem st) false (emitByte st b) := by
  unfold emitByte
  split
  · simp [Res.Good, St.left]
  · simp [Res.Good]

theorem copyMatch_good_T : ∀ (len mpos : Nat) (st : St σ),
    Res.Good rem (St.left rem st) false (copyMatch len mpos st) := by
  intro len
  induction len with
  | zero => intro mpos st; simp [copyMatch, Res.Good]
  | succ len ih =>
    intro mpos st
    rw [copyMatch]
    split
    · have he := emitByte_good_T rem st st.window[mpos]
      split
      · rename_i st' heq
        rw [heq] at he
        have := ih ((mpos + 1) % lzssWINDOW_SIZE) st'
        simp only [Res.Good, Bool.false_eq_true, ↓reduceIte, Nat.add_zero] at he
        revert this
        cases copyMatch len ((mpos + 1) % lzssWINDOW_SIZE) st' <;> simp only [Res.Good] <;> intro h
        · trivial
        · exact h
        · simp only [Bool.false_eq_true, ↓reduceIte, Nat.add_zero] at h ⊢; omega
      · simp [Res.Good]
      · rename_i f heq
        rw [heq] at he; exact he
    · simp [Res.Good]

theorem Res.Good.mono {α : Type} {m m' : Nat} {r : Res σ α} (h : Res.Good rem m false r) (hm : m ≤ m') :
    Res.Good rem m' false r := by
  cases r <;> simp only [Res.Good] at h ⊢
  · exact h
  · simp only [Bool.false_eq_true, ↓reduceIte, Nat.add_zero] at h ⊢; omega

theorem tokenLoop_good_T (hS : S.Finite rem) (c : Nat) : ∀ (k i : Nat) (st : St σ),
    Res.Good rem (St.left rem st) false (tokenLoop S c k i st) := by
  intro k
  induction k with
  | zero => intro i st; simp [tokenLoop, Res.Good]
  | succ k ih =>
    intro i st
    rw [tokenLoop]
    split
    · -- literal
      have h1 := nextByte_good_T S rem hS st
      split
      · trivial
      · rename_i f heq; rw [heq] at h1; exact h1
      · rename_i b st1 heq
        rw [heq] at h1
        simp only [Res.Good, ↓reduceIte] at h1
        have h2 := emitByte_good_T rem st1 b
        split
        · trivial
        · rename_i f heq2; rw [heq2] at h2; exact h2
        · rename_i st2 heq2
          rw [heq2] at h2
          simp only [Res.Good, Bool.false_eq_true, ↓reduceIte, Nat.add_zero] at h2
          exact (ih (i <<< 1) st2).mono rem (by omega)
    · -- match
      have h1 := nextByte_good_T S rem hS st
      split
      · trivial
      · rename_i f heq; rw [heq] at h1; exact h1
      · rename_i b0 st1 heq
        rw [heq] at h1
        simp only [Res.Good, ↓reduceIte] at h1
        have h2 := nextByte_good_T S rem hS st1
        split
        · trivial
        · rename_i f heq2; rw [heq2] at h2; exact h2
        · rename_i b1 st2 heq2
          rw [heq2] at h2
          simp only [Res.Good, ↓reduceIte] at h2
          simp only
          have h3 := copyMatch_good_T rem ((b1.toNat &&& 0x0F) + 3) (b0.toNat ||| ((b1.toNat &&& 0xF0) <<< 4)) st2
          split
          · trivial
          · rename_i f heq3; rw [heq3] at h3; exact h3
          · rename_i st3 heq3
            rw [heq3] at h3
            simp only [Res.Good, Bool.false_eq_true, ↓reduceIte, Nat.add_zero] at h3
            exact (ih (i <<< 1) st3).mono rem (by omega)

/-- every round of the main loop consumes at least the control byte: with more fuel than bytes
    left, `hang` is unreachable -/
theorem mainLoop_no_hang (hS : S.Finite rem) (invert : Nat) : ∀ (fuel : Nat) (st : St σ),
    St.left rem st + 1 ≤ fuel → mainLoop S invert fuel st ≠ .fault .hang := by
  intro fuel
  induction fuel with
  | zero => intro st h; omega
  | succ fuel ih =>
    intro st h
    rw [mainLoop]
    have h1 := nextByte_good_T S rem hS st
    split
    · simp
    · rename_i f heq
      rw [heq] at h1
      simp only [Res.Good] at h1
      simpa using h1
    · rename_i cb st1 heq
      rw [heq] at h1
      simp only [Res.Good, ↓reduceIte] at h1
      have h2 := tokenLoop_good_T S rem hS (cb.toNat ^^^ invert) 8 1 st1
      split
      · simp
      · rename_i f heq2
        rw [heq2] at h2
        simp only [Res.Good] at h2
        simpa using h2
      · rename_i st2 heq2
        rw [heq2] at h2
        simp only [Res.Good, Bool.false_eq_true, ↓reduceIte, Nat.add_zero] at h2
        exact ih st2 (by omega)

/-- `lzss_decompress`: more fuel than input bytes left suffices -/
theorem decompress_no_hang (hS : S.Finite rem) (fuel : Nat) (src : σ) (bufSize mode : Nat)
    (h : rem src + 1 ≤ fuel) : decompress S fuel src bufSize mode ≠ .error .hang := by
  unfold decompress
  split
  · simp
  · simp only
    have := mainLoop_no_hang S rem hS (if mode = lzssMODE_MSHELP then 0xFFFFFFFF else 0) fuel
      (initSt src bufSize mode) (by simp [St.left, initSt]; omega)
    split
    · rename_i f heq
      rw [heq] at this
      simpa using this
    · simp
    · simp

end MsPack.Lzss

/-! ## SZDD: `szddd_extract`, `szddd_decompress` (pure model) -/
namespace MsPack

theorem Rd.readExact_file {r r' : Rd} {n : Nat} {c : Bytes} (h : r.readExact n = some (c, r')) :
    r'.file = r.file := by
  simp only [Rd.readExact] at h
  split at h
  · simp only [Option.some.injEq, Prod.mk.injEq] at h; rw [← h.2]; rfl
  · contradiction

theorem Rd.readExact_pos {r r' : Rd} {n : Nat} {c : Bytes} (h : r.readExact n = some (c, r')) :
    r'.pos = r.pos + n ∧ c.length = n := by
  simp only [Rd.readExact] at h
  split at h
  · rename_i hl
    simp only [Option.some.injEq, Prod.mk.injEq] at h
    rw [← h.2, ← h.1]
    exact ⟨by rw [Rd.read_pos, hl], hl⟩
  · contradiction

end MsPack

namespace MsPack.Szdd
open MsPack MsPack.Generated

theorem readHeaders_file (r : Rd) : (readHeaders r).2.file = r.file := by
  unfold readHeaders
  split
  · rfl
  · rename_i buf r1 h1
    have f1 := Rd.readExact_file h1
    split
    · split
      · exact f1
      · rename_i buf2 r2 h2
        have f2 := Rd.readExact_file h2
        split <;> simp only [f2, f1]
    · split
      · split
        · exact f1
        · rename_i buf2 r2 h2
          simp only [Rd.readExact_file h2, f1]
      · exact f1

/-- `szddd_extract`: more fuel than the file has bytes suffices -/
theorem extract_no_hang (fuel : Nat) (h : Handle) (hf : h.rd.file.length + 1 ≤ fuel) :
    extract fuel h ≠ .error .hang := by
  unfold extract
  simp only
  have := Lzss.decompress_no_hang Rd.src Rd.left Rd.src_finite fuel
    (h.rd.seekStart (if h.hdr.format = fmtNORMAL then 14 else 12)) szddINPUT_SIZE
    (if h.hdr.format = fmtNORMAL then lzssMODE_EXPAND else lzssMODE_QBASIC)
    (by simp only [Rd.left, Rd.seekStart]; omega)
  split
  · rename_i f heq
    rw [heq] at this
    simpa using this
  · simp

/-- `szddd_decompress`: more fuel than the file has bytes suffices -/
theorem decompress_no_hang (fuel : Nat) (file : Option Bytes) (hf : (file.getD []).length + 1 ≤ fuel) :
    decompress fuel file ≠ .error .hang := by
  unfold decompress
  split
  · simp
  · rename_i h e hopen
    have hfile : h.rd.file = file.getD [] := by
      unfold open_ at hopen
      split at hopen
      · simp at hopen
      · rename_i bytes
        have := readHeaders_file ⟨bytes, 0⟩
        split at hopen
        · rename_i hdr r heq
          simp only [Prod.mk.injEq, Option.some.injEq] at hopen
          rw [← hopen.1]
          rw [heq] at this
          simpa using this
        · simp at hopen
    have := extract_no_hang fuel h (by rw [hfile]; exact hf)
    split
    · rename_i f heq
      rw [heq] at this
      simpa using this
    · simp

end MsPack.Szdd

/-! ## KWAJ: the stored / XOR copy loop and the SZDD method (pure model) -/
namespace MsPack.Kwaj
open MsPack MsPack.Generated

/-- every round of the copy loop moves at least one byte -/
theorem copyLoop_no_hang (xor : Bool) : ∀ (fuel : Nat) (r : Rd) (w : Array UInt8),
    r.left + 1 ≤ fuel → copyLoop xor fuel r w ≠ .error .hang := by
  intro fuel
  induction fuel with
  | zero => intro r w h; omega
  | succ fuel ih =>
    intro r w h
    rw [copyLoop]
    simp only
    split
    · simp
    · rename_i hne
      apply ih
      have := Rd.read_left r kwajINPUT_SIZE
      have hl : 1 ≤ (r.read kwajINPUT_SIZE).1.length := by
        cases hc : (r.read kwajINPUT_SIZE).1 with
        | nil => rw [hc] at hne; simp at hne
        | cons a t => simp
      omega

end MsPack.Kwaj

/-! ## KWAJ header parsing: no fuel, no `hang`; the handle stays on its file -/
namespace MsPack.Kwaj
open MsPack MsPack.Generated

/-- a header-parsing step never reports `hang` and hands back a handle on the same file -/
def HdrGood {α : Type} (r : Rd) : Except Fault (α × Rd) → Prop
  | .error f => f ≠ .hang
  | .ok (_, r') => r'.file = r.file

theorem copyName_no_hang (buf : Bytes) (len : Nat) : ∀ (k i : Nat) (fnbuf : Array UInt8) (fn : Nat),
    copyName buf len k i fnbuf fn ≠ .error .hang := by
  intro k
  induction k with
  | zero => intro i fnbuf fn; simp [copyName]
  | succ k ih =>
    intro i fnbuf fn
    rw [copyName]
    split
    · simp only
      split
      · split
        · simp
        · exact ih _ _ _
      · simp
    · simp

theorem readNamePart_good (r : Rd) (maxLen : Nat) (fnbuf : Array UInt8) (fn : Nat) :
    HdrGood r (readNamePart r maxLen fnbuf fn) := by
  unfold readNamePart
  simp only
  split
  · exact Rd.read_file r maxLen
  · have hc := copyName_no_hang (r.read maxLen).1 (r.read maxLen).1.length ((r.read maxLen).1.length + 1) 0 fnbuf fn
    split
    · rename_i f heq
      simp only [HdrGood]
      intro hf; subst hf; exact hc heq
    · split
      · exact Rd.read_file r maxLen
      · split
        · simp [HdrGood]
        · simp only [HdrGood]; exact Rd.read_file r maxLen

theorem readOptLength_file (hdr : Header) (r : Rd) : (readOptLength hdr r).2.file = r.file := by
  unfold readOptLength
  split
  · split
    · rfl
    · rename_i h; exact Rd.readExact_file h
  · rfl

theorem skipUnknown1_file (headers : Nat) (r : Rd) : (skipUnknown1 headers r).2.file = r.file := by
  unfold skipUnknown1
  split
  · split
    · rfl
    · rename_i h; exact Rd.readExact_file h
  · rfl

theorem skipUnknown2_file (headers : Nat) (r : Rd) : (skipUnknown2 headers r).2.file = r.file := by
  unfold skipUnknown2
  split
  · split
    · rfl
    · rename_i b r1 h
      have := Rd.readExact_file h
      simpa [Rd.seekCur] using this
  · rfl

theorem readExtra_file (hdr : Header) (r : Rd) : (readExtra hdr r).2.file = r.file := by
  unfold readExtra
  split
  · split
    · rfl
    · rename_i b r1 h1
      have f1 := Rd.readExact_file h1
      simp only
      split
      · exact f1
      · rename_i h2; exact (Rd.readExact_file h2).trans f1
  · rfl

theorem readNames_good (fill : UInt8) (hdr : Header) (r : Rd) : HdrGood r (readNames fill hdr r) := by
  unfold readNames
  split
  · simp only
    -- the name part
    have ha : HdrGood r (if hasFlag hdr.headers hdrHASFILENAME = true then readNamePart r 9 (Array.replicate 13 fill) 0
        else (.ok (.ok (Array.replicate 13 fill, 0), r) : Except Fault (Except Err (Array UInt8 × Nat) × Rd))) := by
      split
      · exact readNamePart_good _ _ _ _
      · simp [HdrGood]
    generalize (if hasFlag hdr.headers hdrHASFILENAME = true then readNamePart r 9 (Array.replicate 13 fill) 0
        else (.ok (.ok (Array.replicate 13 fill, 0), r) : Except Fault (Except Err (Array UInt8 × Nat) × Rd))) = a at ha
    match a with
    | .error f => exact ha
    | .ok (.error e, r1) => exact ha
    | .ok (.ok (fnbuf, fn), r1) =>
      simp only [HdrGood] at ha ⊢
      -- the extension part
      have hb : HdrGood r1 (if hasFlag hdr.headers hdrHASFILEEXT = true then
            if h : fn < fnbuf.size then readNamePart r1 4 (fnbuf.set fn 0x2E) (fn + 1)
            else .error (.oob "kwajd_read_headers: *fn++ = '.'")
          else (.ok (.ok (fnbuf, fn), r1) : Except Fault (Except Err (Array UInt8 × Nat) × Rd))) := by
        split
        · split
          · exact readNamePart_good _ _ _ _
          · simp [HdrGood]
        · simp [HdrGood]
      generalize (if hasFlag hdr.headers hdrHASFILEEXT = true then
            if h : fn < fnbuf.size then readNamePart r1 4 (fnbuf.set fn 0x2E) (fn + 1)
            else .error (.oob "kwajd_read_headers: *fn++ = '.'")
          else (.ok (.ok (fnbuf, fn), r1) : Except Fault (Except Err (Array UInt8 × Nat) × Rd))) = b at hb
      match b with
      | .error f => exact hb
      | .ok (.error e, r2) => simp only [HdrGood] at hb ⊢; exact hb.trans ha
      | .ok (.ok (fnbuf2, fn2), r2) =>
        simp only [HdrGood] at hb
        simp only
        by_cases hfn : fn2 < fnbuf2.size
        · rw [dif_pos hfn]
          have hcs : cstr (fnbuf2.set fn2 0 hfn) ≠ .error .hang := by
            unfold cstr
            simp only
            split <;> simp
          generalize cstr (fnbuf2.set fn2 0 hfn) = cv at hcs
          match cv with
          | .error f => simp only [HdrGood]; simpa using hcs
          | .ok s => simp only [HdrGood]; exact hb.trans ha
        · rw [dif_neg hfn]
          simp [HdrGood]
  · simp [HdrGood]

theorem readHeaders_good (fill : UInt8) (r : Rd) : HdrGood r (readHeaders fill r) := by
  unfold readHeaders
  split
  · exact Rd.read_file r kwajhSIZEOF
  · rename_i buf r0 h0
    have f0 := Rd.readExact_file h0
    split
    · exact f0
    · simp only
      generalize (Header.mk (u16At buf 8) (u16At buf 10) (u16At buf 12) 0 none none 0) = hdr0
      have f1 := readOptLength_file hdr0 r0
      generalize readOptLength hdr0 r0 = p1 at f1
      obtain ⟨e1, r1⟩ := p1
      match e1 with
      | .error e => exact f1.trans f0
      | .ok hdr1 =>
        simp only at f1 ⊢
        have f2 := skipUnknown1_file hdr1.headers r1
        generalize skipUnknown1 hdr1.headers r1 = p2 at f2
        obtain ⟨e2, r2⟩ := p2
        match e2 with
        | .error e => exact f2.trans (f1.trans f0)
        | .ok () =>
          simp only at f2 ⊢
          have f3 := skipUnknown2_file hdr1.headers r2
          generalize skipUnknown2 hdr1.headers r2 = p3 at f3
          obtain ⟨e3, r3⟩ := p3
          match e3 with
          | .error e => exact f3.trans (f2.trans (f1.trans f0))
          | .ok () =>
            simp only at f3 ⊢
            have f4 := readNames_good fill hdr1 r3
            generalize readNames fill hdr1 r3 = p4 at f4
            match p4 with
            | .error f => exact f4
            | .ok (.error e, r4) =>
              simp only [HdrGood] at f4 ⊢
              exact f4.trans (f3.trans (f2.trans (f1.trans f0)))
            | .ok (.ok hdr4, r4) =>
              simp only [HdrGood] at f4 ⊢
              exact (readExtra_file hdr4 r4).trans (f4.trans (f3.trans (f2.trans (f1.trans f0))))

/-- `kwajd_open` never reports `hang`, and the handle it returns reads the file it was given -/
theorem open_good (fill : UInt8) (err : Err) (file : Option Bytes) :
    match open_ fill err file with
    | .error f => f ≠ .hang
    | .ok (some h, _) => h.rd.file = file.getD []
    | .ok (none, _) => True := by
  unfold open_
  match file with
  | none => trivial
  | some bytes =>
    simp only
    have := readHeaders_good fill ⟨bytes, 0⟩
    generalize readHeaders fill ⟨bytes, 0⟩ = p at this
    match p with
    | .error f => exact this
    | .ok (.ok hdr, r) => simp only [HdrGood] at this; simpa using this
    | .ok (.error e, r) => trivial

end MsPack.Kwaj
