import Lean
import Proofs.Lemmas.CountLawsRead
import Proofs.Lemmas.ZipChunkCab
/-!
# MSZIP in strict mode: a failed call is sticky and does not depend on the request (lemmas for C08MszipFull)

* a `Tri` walk (kit of `CountLaws.lean`) over `scanCK`/`inflate` on the CAB feeder with the invariant `repair = false`:
  the flag is never written, and a status exception `sys e` is raised with `error = e` already recorded;
* `frameStep_strict`: what one block-loop iteration can end with when `repair = false`;
* `fail_shape`: a `decompress` call that returns `e ≠ ok` after writing `w` has `error = e` recorded, wrote fewer bytes
  than asked, returns the very same thing for every request larger than `|w|`, and the request for exactly `|w|`
  bytes succeeds and leaves a state from which every non-empty request returns `(e, [], same state)`.
-/
namespace MsPack.ZipStickyStrict
open MsPack MsPack.Cab MsPack.CountLaws

section walk
open MsPack.Zip MsPack.CountLaws.ReadErr
open MsPack.CountLaws.Qtm (run_get_bind run_throw_bind run_modify run_modify_bind run_pure run_ite)
variable (files : Files)

def ZI (st : Zip.St Feeder) : Prop := st.repair = false

def ZE : Zip.Halt → Zip.St Feeder → Prop
  | .sys e, st => st.error = e ∧ st.repair = false
  | .inf, st => ZI st
  | .fault _, _ => True

theorem ZI_of {a b : Zip.St Feeder} (h : ZI a) (h2 : b.repair = a.repair) : ZI b := by
  unfold ZI at *; rw [h2]; exact h

open Lean Elab Tactic Meta in
elab "stk_close" : tactic => withMainContext do
  let s0 ← saveState
  try
    evalTactic (← `(tactic| (show True; exact True.intro)))
    return
  catch _ => s0.restore
  for d in (← getLCtx) do
    if d.isImplementationDetail then continue
    if (← instantiateMVars d.type).isAppOf ``ZI then
      let s ← saveState
      try
        let stx ← Term.exprToSyntax d.toExpr
        evalTactic (← `(tactic| first | exact ZI_of $stx rfl | (show ZI _; exact ZI_of $stx rfl)))
        return
      catch _ => s.restore
  throwError "stk_close: nothing applies"

macro_rules | `(tactic| tri_close) => `(tactic| stk_close)

theorem readInput_tri : Tri ZI ZE (Zip.readInput (feederSrc files)) := by
  constructor
  intro st hi r s' h
  unfold Zip.readInput at h
  rw [run_get_bind] at h
  split at h
  · rw [run_throw] at h; cases h; trivial
  · rw [run_set_bind, run_throw] at h; cases h
    exact ⟨rfl, hi⟩
  · split at h
    · rw [run_set_bind, run_throw] at h; cases h
      exact ⟨rfl, hi⟩
    · rw [run_set] at h; cases h
      exact hi
  · rw [run_set] at h; cases h
    exact hi

local notation "ZS" => feederSrc files
local notation "ZT" => Tri ZI ZE

theorem nextByte_tri : ZT (Zip.nextByte ZS) := by
  unfold Zip.nextByte; tri_auto [readInput_tri files]

theorem ensureBits_tri (n : Nat) : ∀ fuel, ZT (Zip.ensureBits ZS n fuel) := by
  intro fuel
  induction fuel with
  | zero => rw [Zip.ensureBits.eq_1]; tri_auto
  | succ fuel ih => rw [Zip.ensureBits.eq_2]; tri_auto [nextByte_tri files]

theorem removeBits_tri (n : Nat) : ZT (Zip.removeBits (σ := Feeder) n) := by
  unfold Zip.removeBits; tri_auto

theorem readBits_tri (n : Nat) : ZT (Zip.readBits ZS n) := by
  unfold Zip.readBits; tri_auto [ensureBits_tri files, removeBits_tri]

theorem readHuffSym_tri (c : Huff.Canon) : ZT (Zip.readHuffSym ZS c) := by
  unfold Zip.readHuffSym; tri_auto [ensureBits_tri files, removeBits_tri]

theorem readLensLoop_tri (c : Huff.Canon) (total : Nat) : ∀ fuel lens last,
    ZT (Zip.readLensLoop ZS c total fuel lens last) := by
  intro fuel
  induction fuel with
  | zero => intro lens last; rw [Zip.readLensLoop.eq_1]; tri_auto
  | succ fuel ih =>
    intro lens last; rw [Zip.readLensLoop.eq_2]
    tri_auto [ensureBits_tri files, removeBits_tri, readBits_tri files]

theorem zipReadLens_rd_tri (blc : Nat) : ∀ k acc, ZT (zipReadLens.rd ZS blc k acc) := by
  intro k
  induction k with
  | zero => intro acc; rw [zipReadLens.rd.eq_1]; tri_auto
  | succ k ih => intro acc; rw [zipReadLens.rd.eq_2]; tri_auto [readBits_tri files]

theorem zipReadLens_tri : ZT (zipReadLens ZS) := by
  unfold zipReadLens
  tri_auto [readBits_tri files, zipReadLens_rd_tri files, readLensLoop_tri files]

theorem flushWindow_tri (n : Nat) : ZT (flushWindow (σ := Feeder) n) := by
  unfold flushWindow; tri_auto

theorem flushIfNeeded_tri : ZT (flushIfNeeded (σ := Feeder)) := by
  unfold flushIfNeeded; tri_auto [flushWindow_tri]

theorem putByte_tri (b : UInt8) : ZT (putByte (σ := Feeder) b) := by
  unfold putByte; tri_auto [flushIfNeeded_tri]

theorem copyStored_tri : ∀ fuel length, ZT (copyStored ZS fuel length) := by
  intro fuel
  induction fuel with
  | zero => intro length; rw [copyStored.eq_1]; tri_auto
  | succ fuel ih =>
    intro length; rw [copyStored.eq_2]
    tri_auto [readInput_tri files, flushIfNeeded_tri]

theorem copyMatch_tri : ∀ length posn, ZT (Zip.copyMatch (σ := Feeder) length posn) := by
  intro length
  induction length with
  | zero => intro posn; rw [Zip.copyMatch.eq_1]; tri_auto
  | succ length ih => intro posn; rw [Zip.copyMatch.eq_2]; tri_auto [putByte_tri]

theorem huffBlock_tri (lit dist : Huff.Canon) : ∀ fuel, ZT (huffBlock ZS lit dist fuel) := by
  intro fuel
  induction fuel with
  | zero => rw [huffBlock.eq_1]; tri_auto
  | succ fuel ih =>
    rw [huffBlock.eq_2]
    tri_auto [readHuffSym_tri files, readBits_tri files, putByte_tri, copyMatch_tri]

theorem inflate_more_tri : ∀ k acc, ZT (inflate.more ZS k acc) := by
  intro k
  induction k with
  | zero => intro acc; rw [inflate.more.eq_1]; tri_auto
  | succ k ih => intro acc; rw [inflate.more.eq_2]; tri_auto [nextByte_tri files]

theorem inflate_tri : ∀ fuel, ZT (inflate ZS fuel) := by
  intro fuel
  induction fuel with
  | zero => rw [inflate.eq_1]; tri_auto
  | succ fuel ih =>
    rw [inflate.eq_2]
    tri_auto [readBits_tri files, inflate_more_tri files, copyStored_tri files, zipReadLens_tri files,
      huffBlock_tri files, flushWindow_tri]

theorem scanCK_tri : ∀ fuel state, ZT (scanCK ZS fuel state) := by
  intro fuel
  induction fuel with
  | zero => intro state; rw [scanCK.eq_1]; tri_auto
  | succ fuel ih => intro state; rw [scanCK.eq_2]; tri_auto [readBits_tri files]


open MsPack.Zip.ZipChunk in
/-- one block-loop iteration in strict mode: an early stop has its status recorded; a frame is never delivered
    together with a status; the flag stays off -/
theorem frameStep_strict (fuel : Nat) (st : Zip.St Feeder) (hr : st.repair = false) (r : FrameRes Feeder)
    (h : frameStep ZS fuel st = .ok r) :
    match r with
    | .stop e st' => st'.error = e ∧ st'.repair = false
    | .frame se st' => se = none ∧ st'.repair = false := by
  unfold frameStep at h
  dsimp only at h
  have hi1 : ZI { st with bits := st.bits.drop (st.bits.length % 8) } := hr
  have hk := (scanCK_tri files fuel 0).out _ hi1
  cases hrs : (scanCK ZS fuel 0).run.run { st with bits := st.bits.drop (st.bits.length % 8) } with
  | mk r0 s =>
    rw [hrs] at h
    have hk' := hk _ _ hrs
    cases r0 with
    | error e =>
      cases e with
      | fault g => cases h
      | inf => simp only [Except.ok.injEq] at h; subst h; exact ⟨rfl, hk'⟩
      | sys e => simp only [Except.ok.injEq] at h; subst h; exact hk'
    | ok a =>
      cases a
      dsimp only at h
      have hs0 : ZI { s with windowPosn := 0, bytesOutput := 0 } := hk'
      have hin := (inflate_tri files fuel).out _ hs0
      cases hri : runInflate ZS fuel { s with windowPosn := 0, bytesOutput := 0 } with
      | error f => rw [hri] at h; cases h
      | ok pr =>
        obtain ⟨res, s2⟩ := pr
        rw [hri] at h
        have hs2 : s2.repair = false ∧ (∀ e, res = .sys e → s2.error = e) := by
          unfold runInflate at hri
          split at hri
          · rename_i heq; cases hri; exact ⟨hin _ _ heq, fun e hc => nomatch hc⟩
          · cases hri
          · rename_i heq; cases hri; exact ⟨hin _ _ heq, fun e hc => nomatch hc⟩
          · rename_i e' s' heq; cases hri
            have := hin _ _ heq
            exact ⟨this.2, fun e hc => by cases hc; exact this.1⟩
        dsimp only at h
        split at h
        · simp only [Except.ok.injEq] at h; subst h
          exact ⟨rfl, hs2.1⟩
        · rename_i hcond
          cases res with
          | ok =>
            simp only [ne_eq, not_true_eq_false, ↓reduceIte, Except.ok.injEq] at h
            subst h
            exact ⟨rfl, hs2.1⟩
          | inf => exact absurd ⟨nofun, (by rw [hs2.1]; rfl)⟩ hcond
          | sys e => exact absurd ⟨nofun, (by rw [hs2.1]; rfl)⟩ hcond

end walk

section shape
open MsPack.Zip MsPack.Zip.ZipChunk
variable (files : Files)
local notation "ZS" => feederSrc files

/-- the frame just inflated put into `pending` -/
abbrev withFrame (st' : Zip.St Feeder) : Zip.St Feeder :=
  { st' with pending := st'.window.toList.take st'.bytesOutput }

/-- a failed call, one step: it went past the pending bytes, and either the next iteration stopped it, or a frame
    was inflated and the call is the pending bytes followed by the (failed) call from that frame -/
theorem err_step (fuel n : Nat) (Z : Zip.St Feeder) (hw : WinOk Z) (hr : Z.repair = false) (he0 : Z.error = .ok)
    (b : Nat) (e : Err) (w : Bytes) (Z' : Zip.St Feeder)
    (h : decompressN ZS fuel n Z b = .ok ⟨e, w, Z'⟩) (hne : e ≠ .ok) :
    Z.pending.length < b ∧
    ((frameStep ZS fuel { Z with pending := [] } = .ok (.stop e Z') ∧ w = Z.pending ∧ ∃ n0, n = n0 + 1) ∨
     ∃ st' n' w', n = n' + 2 ∧ frameStep ZS fuel { Z with pending := [] } = .ok (.frame none st') ∧ WinOk st' ∧
       st'.bytesOutput ≤ Generated.zipFRAME_SIZE ∧ st'.error = .ok ∧ st'.repair = false ∧ w = Z.pending ++ w' ∧
       decompressN ZS fuel (n' + 1) (withFrame st') (b - Z.pending.length) = .ok ⟨e, w', Z'⟩) := by
  by_cases ha : b ≤ Z.pending.length
  · rw [pend_exact ZS fuel n Z he0 b ha] at h
    simp only [Except.ok.injEq, Out.mk.injEq] at h
    exact absurd h.1.symm hne
  · have ho : Z.pending.length < b := by omega
    refine ⟨ho, ?_⟩
    rw [pend_past ZS fuel n Z he0 b ho] at h
    have hout : b - Z.pending.length ≠ 0 := by omega
    cases n with
    | zero => rw [decompressLoop.eq_1] at h; cases h
    | succ n =>
      cases hfs : frameStep ZS fuel { Z with pending := [] } with
      | error f => rw [loop_succ, if_neg hout, hfs] at h; cases h
      | ok r =>
        have hspec := frameStep_spec ZS fuel { Z with pending := [] } hw he0 r hfs
        have hstr := frameStep_strict files fuel { Z with pending := [] } hr r hfs
        cases r with
        | stop e' st' =>
          rw [loop_succ, if_neg hout, hfs] at h
          simp only [Except.ok.injEq, Out.mk.injEq] at h
          obtain ⟨rfl, rfl, rfl⟩ := h
          exact Or.inl ⟨rfl, rfl, n, rfl⟩
        | frame se st' =>
          obtain ⟨h1, h2, h3, _⟩ := hspec
          obtain ⟨rfl, h5⟩ := hstr
          cases n with
          | zero =>
            rw [loop_succ, if_neg hout, hfs] at h
            dsimp only at h
            rw [decompressLoop.eq_1] at h; cases h
          | succ n' =>
            rw [loop_iter ZS fuel n' _ st' _ _ hout hfs h1 h2 (h3 rfl)] at h
            obtain ⟨w', k1, k2⟩ := pre_ok_inv h
            exact Or.inr ⟨st', n', w', rfl, rfl, h1, h2, h3 rfl, h5, k2, k1⟩

/-- **a failed call in strict mode**: its status is recorded; it wrote fewer bytes than asked; every request for more
    than it wrote returns the very same (status, bytes, state); the request for exactly what it wrote succeeds, and
    from the state that leaves every non-empty request returns the status with nothing written and the same state -/
theorem fail_shape (fuel : Nat) : ∀ (n : Nat) (Z : Zip.St Feeder), WinOk Z → Z.repair = false → Z.error = .ok →
    ∀ (b : Nat) (e : Err) (w : Bytes) (Z' : Zip.St Feeder), decompressN ZS fuel n Z b = .ok ⟨e, w, Z'⟩ → e ≠ .ok →
    Z'.error = e ∧ w.length < b ∧
    (∀ b', w.length < b' → decompressN ZS fuel n Z b' = .ok ⟨e, w, Z'⟩) ∧
    ∃ Zm, decompressN ZS fuel n Z w.length = .ok ⟨.ok, w, Zm⟩ ∧
      ∀ k, 0 < k → decompressN ZS fuel n Zm k = .ok ⟨e, [], Z'⟩ := by
  intro n
  induction n using Nat.strongRecOn with
  | _ n ih =>
    intro Z hw hr he0 b e w Z' h hne
    obtain ⟨ho, hcase⟩ := err_step files fuel n Z hw hr he0 b e w Z' h hne
    rcases hcase with ⟨hfs, rfl, n0, rfl⟩ | ⟨st', n', w', rfl, hfs, h1, h2, h3, h5, rfl, hin⟩
    · have hstr : Z'.error = e ∧ Z'.repair = false := frameStep_strict files fuel { Z with pending := [] } hr _ hfs
      refine ⟨hstr.1, ho, ?_, ?_⟩
      · intro b' hb'
        rw [pend_past ZS fuel _ Z he0 b' hb', loop_succ, if_neg (by omega), hfs]
      · refine ⟨{ Z with pending := Z.pending.drop Z.pending.length }, ?_, ?_⟩
        · rw [pend_exact ZS fuel _ Z he0 Z.pending.length (Nat.le_refl _), List.take_length]
        · intro k hk
          rw [pend_past ZS fuel _ { Z with pending := Z.pending.drop Z.pending.length } he0 k
            (by simp only [List.drop_length, List.length_nil]; exact hk)]
          simp only [List.drop_length, List.length_nil, Nat.sub_zero]
          rw [loop_succ, if_neg (by omega), hfs]
    · obtain ⟨i1, i2, i3, Zm', i4, i5⟩ := ih (n' + 1) (by omega) (withFrame st') h1 h5 h3 _ e w' Z' hin hne
      refine ⟨i1, by rw [List.length_append]; omega, ?_, ?_⟩
      · intro b' hb'
        rw [List.length_append] at hb'
        rw [pend_past ZS fuel _ Z he0 b' (by omega),
          loop_iter ZS fuel n' _ st' _ _ (by omega) hfs h1 h2 h3, i3 (b' - Z.pending.length) (by omega), pre_ok]
      · by_cases hz : w'.length = 0
        · have hw' : w' = [] := List.eq_nil_of_length_eq_zero hz
          subst hw'
          refine ⟨{ Z with pending := Z.pending.drop Z.pending.length }, ?_, ?_⟩
          · rw [List.append_nil, pend_exact ZS fuel _ Z he0 Z.pending.length (Nat.le_refl _), List.take_length]
          · intro k hk
            rw [pend_past ZS fuel _ { Z with pending := Z.pending.drop Z.pending.length } he0 k
            (by simp only [List.drop_length, List.length_nil]; exact hk)]
            simp only [List.drop_length, List.length_nil, Nat.sub_zero]
            rw [loop_iter ZS fuel n' _ st' _ _ (by omega) hfs h1 h2 h3, i3 k (by rw [List.length_nil]; exact hk), pre_ok]
            rfl
        · refine ⟨Zm', ?_, ?_⟩
          · rw [List.length_append, pend_past ZS fuel _ Z he0 _ (by omega),
              loop_iter ZS fuel n' _ st' _ _ (by omega) hfs h1 h2 h3]
            have : Z.pending.length + w'.length - Z.pending.length = w'.length := by omega
            rw [this, i4, pre_ok]
          · intro k hk
            exact decompressN_mono_ok ZS fuel (n' + 1) 1 _ _ _ (i5 k hk)

end shape

end MsPack.ZipStickyStrict
