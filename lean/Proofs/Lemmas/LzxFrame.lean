import Proofs.Lemmas.LzxBounds
/-!
# LZX decoder: the frame level (C02)

`Good`: the invariant of `lzxd_decompress` between calls; one frame (`frameBody`) and the frame loop
preserve it and take no out-of-bounds outcome.
-/
set_option linter.unusedSimpArgs false
set_option linter.unusedVariables false
set_option linter.unusedSectionVars false
namespace MsPack.Lzx
open MsPack MsPack.Generated
variable {σ : Type}

/-! ## one frame, cut into pieces (`frameBody_eq` is `rfl`) -/
section
variable (S : Src σ)

def fbWrite (frameSize outBytes : Nat) : LM σ (Array UInt8) := do
  let i := if outBytes < frameSize then outBytes else frameSize
  let st ← get
  match outSlice st i with
  | .error f => throw (.fault f)
  | .ok chunk =>
    let framePosn := (st.framePosn + frameSize) % 4294967296
    set { st with oPtr := st.oPtr + i, offset := st.offset + i,
                  framePosn := if framePosn = st.windowSize then 0 else framePosn,
                  frame := (st.frame + 1) % 4294967296,
                  windowPosn := if st.windowPosn = st.windowSize then 0 else st.windowPosn }
    pure chunk

def fbE8 (frameSize outBytes : Nat) : LM σ (Array UInt8) := do
  let st ← get
  if st.oPtr ≠ st.oEnd then fail .decrunch
  if st.intelStarted ∧ st.intelFilesize ≠ 0 ∧ st.frame < 32768 ∧ frameSize > 10 then
    match copyAcross st.window st.framePosn frameSize 0 st.e8Buf with
    | .error f => throw (.fault f)
    | .ok buf =>
      match e8Loop (frameSize - 10) st.intelFilesize frameSize 0 (toS32 st.offset) buf with
      | .error f => throw (.fault f)
      | .ok buf => set { st with e8Buf := buf, oInE8 := true, oPtr := 0, oEnd := frameSize }
  else
    set { st with oInE8 := false, oPtr := st.framePosn, oEnd := st.framePosn + frameSize }
  fbWrite frameSize outBytes

def fbAlign (frameSize outBytes : Nat) : LM σ (Array UInt8) := do
  if (← get).bits.length > 0 then ensureBits S 16 3
  let bl := (← get).bits.length
  if bl % 16 ≠ 0 then removeBits (bl % 16)
  fbE8 frameSize outBytes

def fbDecode (fuel outBytes : Nat) : LM σ (Array UInt8) := do
  let st ← get
  let frameSize : Nat :=
    if st.length ≠ 0 ∧ (st.length : Int) - st.offset < (lzxFRAME_SIZE : Int)
    then toU32 ((st.length : Int) - st.offset) else lzxFRAME_SIZE
  let bytesTodo := toS32 ((st.framePosn : Int) + frameSize - st.windowPosn)
  blockLoop S fuel bytesTodo
  let st ← get
  if toU32 ((st.windowPosn : Int) - st.framePosn) ≠ frameSize then fail .decrunch
  fbAlign S frameSize outBytes

def fbLen (fuel outBytes : Nat) : LM σ (Array UInt8) := do
  let st ← get
  if st.length = 0 ∧ st.bits.isEmpty then
    if st.inbuf.isEmpty then readInput S
  fbDecode S fuel outBytes

def fbHeader (fuel outBytes : Nat) : LM σ (Array UInt8) := do
  if !(← get).headerRead then
    let i ← readBits S 1
    let (i, j) ← if i ≠ 0 then do
        let i ← readBits S 16
        let j ← readBits S 16
        pure (i, j)
      else pure (i, 0)
    modify fun st => { st with intelFilesize := toS32 ((i * 65536 ||| j : Nat) : Int), headerRead := true }
  fbLen S fuel outBytes

def fbDelta (fuel outBytes : Nat) : LM σ (Array UInt8) := do
  if (← get).isDelta then
    ensureBits S 16 3
    removeBits 16
  fbHeader S fuel outBytes

theorem frameBody_eq (fuel outBytes : Nat) : frameBody S fuel outBytes = (do
    let st ← get
    if st.resetInterval ≠ 0 ∧ st.frame % st.resetInterval = 0 then
      modify resetState
    fbDelta S fuel outBytes) := rfl
end

/-! ## arithmetic of the 32-bit conversions -/

theorem toU32_nonneg (x : Int) (h0 : 0 ≤ x) (h1 : x < 4294967296) : toU32 x = x.toNat := by
  unfold toU32; rw [Int.emod_eq_of_lt h0 h1]

theorem toU32_neg (x : Int) (h0 : x < 0) (h1 : -4294967296 ≤ x) : toU32 x = (x + 4294967296).toNat := by
  unfold toU32
  have : x % 4294967296 = x + 4294967296 := by omega
  rw [this]

theorem toS32_big (x : Int) (h0 : 2147483648 ≤ x) (h1 : x < 4294967296) : toS32 x = x - 4294967296 := by
  unfold toS32
  have : x % 4294967296 = x := Int.emod_eq_of_lt (by omega) h1
  have h2 : ¬x < 2147483648 := by omega
  simp only [this, if_neg h2]

theorem zero_size : ∀ (l : List Nat) (a : Array UInt8),
    (l.foldl (fun a i => a.setIfInBounds i 0) a).size = a.size
  | [], a => rfl
  | i :: l, a => by rw [List.foldl_cons, zero_size l, Array.size_setIfInBounds]

theorem resetState_main_size (st : St σ) : (resetState st).maintreeLen.size = st.maintreeLen.size := by
  unfold resetState
  dsimp only
  generalize List.range lzxMAINTREE_MAXSYMBOLS = l
  exact zero_size l _

theorem resetState_length_size (st : St σ) : (resetState st).lengthLen.size = st.lengthLen.size := by
  unfold resetState
  dsimp only
  generalize List.range lzxLENGTH_MAXSYMBOLS = l
  exact zero_size l _

theorem resetState_fix (L₀ : Nat) (st : St σ) : Fix L₀ st (resetState st) :=
  { length := Or.inl rfl, offset := rfl, windowSize := rfl, refDataSize := rfl, numOffsets := rfl,
    framePosn := rfl, frame := rfl, resetInterval := rfl, isDelta := rfl, inbufSize := rfl, oInE8 := rfl,
    oPtr := rfl, oEnd := rfl, e8Buf := rfl, windowSz := rfl, pretreeLenSz := rfl, alignedLenSz := rfl,
    maintreeLenSz := resetState_main_size st, lengthLenSz := resetState_length_size st }

/-! ## the invariant between calls -/

structure Good (L₀ : Nat) (st : St σ) : Prop where
  inv : Inv0 st
  wpfp : st.windowPosn = st.framePosn
  fpLt : st.framePosn < st.windowSize
  outLe : st.oPtr ≤ st.oEnd
  outSz : st.oEnd ≤ (if st.oInE8 then 32768 else st.windowSize)
  len : st.length = 0 ∨ st.length = L₀
  /-- frames start on 32 KiB boundaries of the window until the declared output length is reached -/
  align : st.framePosn % 32768 = 0 ∨ (st.length ≠ 0 ∧ st.length ≤ st.offset + (st.oEnd - st.oPtr))
  /-- decoded bytes (written + pending) never exceed 32 KiB per frame decoded -/
  cnt : st.offset + (st.oEnd - st.oPtr) ≤ 32768 * st.frame

theorem Good.step {L₀ : Nat} {a b : St σ} (h : Good L₀ a) (f : Fix L₀ a b) (hw : b.windowPosn = a.windowPosn)
    (ht : ∀ c, b.maintreeTbl = some c → CanonBd c 2576) : Good L₀ b := by
  have e1 := f.offset; have e2 := f.windowSize; have e3 := f.framePosn; have e4 := f.frame
  have e5 := f.oPtr; have e6 := f.oEnd; have e7 := f.oInE8; have e8 := f.length
  have g1 := h.wpfp; have g2 := h.fpLt; have g3 := h.outLe; have g4 := h.len; have g5 := h.align; have g6 := h.cnt
  exact
    { inv := h.inv.of_fix f ht
      wpfp := by omega
      fpLt := by omega
      outLe := by omega
      outSz := by rw [e6, e7, e2]; exact h.outSz
      len := by omega
      align := by omega
      cnt := by rw [e1, e6, e5, e4]; exact g6 }

/-- entry condition of one frame: nothing pending, less than 2 GiB of output in total -/
structure Entry (L₀ outBytes : Nat) (st : St σ) : Prop where
  good : Good L₀ st
  pend : st.oPtr = st.oEnd
  off : st.offset + outBytes < 2147483648
  frm : st.frame < 65536

theorem Entry.step {L₀ outBytes : Nat} {a b : St σ} (h : Entry L₀ outBytes a) (f : Fix L₀ a b)
    (hw : b.windowPosn = a.windowPosn) (ht : ∀ c, b.maintreeTbl = some c → CanonBd c 2576) : Entry L₀ outBytes b :=
  { good := h.good.step f hw ht
    pend := by rw [f.oPtr, f.oEnd]; exact h.pend
    off := by rw [f.offset]; exact h.off
    frm := by rw [f.frame]; exact h.frm }

theorem Entry.sameB {L₀ outBytes : Nat} {a b : St σ} (h : Entry L₀ outBytes a) (f : SameB L₀ a b) :
    Entry L₀ outBytes b :=
  h.step f.toFix f.windowPosn (by rw [f.maintreeTbl]; exact h.good.inv.tbl)

/-- after the block loop of a frame of `F` bytes and the `window_posn - frame_posn == frame_size` check -/
structure Mid (L₀ F : Nat) (st : St σ) : Prop where
  inv : Inv0 st
  fit : st.framePosn + F ≤ st.windowSize
  Fle : F ≤ 32768
  wp : st.windowPosn = st.framePosn + F
  pend : st.oPtr = st.oEnd
  len : st.length = 0 ∨ st.length = L₀
  al : (st.framePosn % 32768 = 0 ∧ F = 32768) ∨ (st.length ≠ 0 ∧ st.length ≤ st.offset + F)
  cnt : st.offset ≤ 32768 * st.frame
  frm : st.frame < 65536

theorem Mid.step {L₀ F : Nat} {a b : St σ} (h : Mid L₀ F a) (f : Fix L₀ a b) (hw : b.windowPosn = a.windowPosn)
    (ht : ∀ c, b.maintreeTbl = some c → CanonBd c 2576) : Mid L₀ F b := by
  have e1 := f.offset; have e2 := f.windowSize; have e3 := f.framePosn; have e4 := f.frame
  have e5 := f.oPtr; have e6 := f.oEnd; have e8 := f.length
  have g1 := h.fit; have g2 := h.Fle; have g3 := h.wp; have g4 := h.len; have g5 := h.al; have g6 := h.cnt
  have g7 := h.frm; have g8 := h.pend
  exact
    { inv := h.inv.of_fix f ht
      fit := by omega
      Fle := g2
      wp := by omega
      pend := by omega
      len := by omega
      al := by omega
      cnt := by omega
      frm := by omega }

theorem Mid.sameB {L₀ F : Nat} {a b : St σ} (h : Mid L₀ F a) (f : SameB L₀ a b) : Mid L₀ F b :=
  h.step f.toFix f.windowPosn (by rw [f.maintreeTbl]; exact h.inv.tbl)

/-- what one frame hands back -/
def FrameOut (L₀ outBytes : Nat) (st : St σ) (chunk : Array UInt8) (st' : St σ) : Prop :=
  Good L₀ st' ∧ st'.offset = st.offset + chunk.size ∧ chunk.size ≤ outBytes ∧ st'.frame = st.frame + 1 ∧
    (st'.oPtr = st'.oEnd ∨ chunk.size = outBytes)

section
variable (S : Src σ) (L₀ : Nat)

theorem fbWrite_spec (F outBytes : Nat) (st0 st : St σ) (hi : Inv0 st) (hF : F ≤ 32768)
    (hfit : st.framePosn + F ≤ st.windowSize) (hwp : st.windowPosn = st.framePosn + F)
    (hlen : st.length = 0 ∨ st.length = L₀)
    (hal : (st.framePosn % 32768 = 0 ∧ F = 32768) ∨ (st.length ≠ 0 ∧ st.length ≤ st.offset + F))
    (hcnt : st.offset ≤ 32768 * st.frame) (hfrm : st.frame < 65536)
    (ho : (st.oInE8 = true ∧ st.oPtr = 0 ∧ st.oEnd = F) ∨
      (st.oInE8 = false ∧ st.oPtr = st.framePosn ∧ st.oEnd = st.framePosn + F))
    (hoff : st.offset = st0.offset) (hfr : st.frame = st0.frame) :
    wp S (fbWrite F outBytes) (fun chunk st' => FrameOut L₀ outBytes st0 chunk st') Er st := by
  unfold fbWrite
  simp only [wp_bind, wp_get]
  have hI : (if outBytes < F then outBytes else F) ≤ F ∧ (if outBytes < F then outBytes else F) ≤ outBytes ∧
      ((if outBytes < F then outBytes else F) = F ∨ (if outBytes < F then outBytes else F) = outBytes) := by
    split <;> omega
  generalize (if outBytes < F then outBytes else F) = i at hI ⊢
  obtain ⟨hiF, hiO, hiE⟩ := hI
  have hws := hi.wsLe; have hwp0 := hi.wsPos; have hwin := hi.win; have he8 := hi.e8
  have hsl : outSlice st i = .ok ((if st.oInE8 then st.e8Buf else st.window).extract st.oPtr (st.oPtr + i)) := by
    unfold outSlice
    simp only
    rw [if_pos]
    rcases ho with ⟨h1, h2, h3⟩ | ⟨h1, h2, h3⟩
    · simp only [h1, if_true]; omega
    · simp only [h1]; simp only [Bool.false_eq_true, if_false]; omega
  have hsz : ((if st.oInE8 then st.e8Buf else st.window).extract st.oPtr (st.oPtr + i)).size = i := by
    rw [Array.size_extract]
    rcases ho with ⟨h1, h2, h3⟩ | ⟨h1, h2, h3⟩
    · simp only [h1, if_true]; omega
    · simp only [h1]; simp only [Bool.false_eq_true, if_false]; omega
  simp only [hsl, wp_bind, wp_set, wp_pure]
  generalize (if st.oInE8 then st.e8Buf else st.window).extract st.oPtr (st.oPtr + i) = chunk at hsz ⊢
  refine ⟨?_, ?_, ?_, ?_, ?_⟩
  · constructor
    · exact Inv0.mk hi.win hi.wsLe hi.wsDvd hi.wsPos hi.pre hi.main hi.len hi.ali hi.e8 hi.nOff hi.ref hi.tbl
    all_goals dsimp only
    · split <;> split <;> omega
    · split <;> omega
    · rcases ho with ⟨h1, h2, h3⟩ | ⟨h1, h2, h3⟩ <;> omega
    · rcases ho with ⟨h1, h2, h3⟩ | ⟨h1, h2, h3⟩
      · simp only [h1, if_true]; omega
      · simp only [h1]; simp only [Bool.false_eq_true, if_false]; omega
    · exact hlen
    · have hp : st.oEnd - st.oPtr = F := by rcases ho with ⟨h1, h2, h3⟩ | ⟨h1, h2, h3⟩ <;> omega
      split <;> omega
    · have hp : st.oEnd - st.oPtr = F := by rcases ho with ⟨h1, h2, h3⟩ | ⟨h1, h2, h3⟩ <;> omega
      omega
  · dsimp only; omega
  · omega
  · dsimp only; omega
  · dsimp only
    have hp : st.oEnd - st.oPtr = F := by rcases ho with ⟨h1, h2, h3⟩ | ⟨h1, h2, h3⟩ <;> omega
    rcases ho with ⟨h1, h2, h3⟩ | ⟨h1, h2, h3⟩ <;> omega

theorem fbE8_spec (F outBytes : Nat) (st0 st : St σ) (hm : Mid L₀ F st)
    (hoff : st.offset = st0.offset) (hfr : st.frame = st0.frame) :
    wp S (fbE8 F outBytes) (fun chunk st' => FrameOut L₀ outBytes st0 chunk st') Er st := by
  have hi := hm.inv
  unfold fbE8
  simp only [wp_bind, wp_get, wp_ite, wp_pure, wp_fail_decrunch, implies_true, true_and]
  intro _
  refine ⟨fun hc => ?_, fun _ => ?_⟩
  · obtain ⟨b1, hb1, hs1⟩ := copyAcross_ok st.window st.framePosn F 0 st.e8Buf
      (by rw [hi.win]; have := hm.fit; omega) (by rw [hi.e8]; have := hm.Fle; omega)
    simp only [hb1]
    rcases e8Loop_ok (F - 10) st.intelFilesize F 0 (toS32 st.offset) b1
      (by rw [hs1, hi.e8]; have := hm.Fle; omega) with ⟨b2, hb2, hs2⟩ | hh
    · simp only [hb2, wp_bind, wp_set]
      refine fbWrite_spec S L₀ F outBytes st0 _
        (Inv0.mk hi.win hi.wsLe hi.wsDvd hi.wsPos hi.pre hi.main hi.len hi.ali (by rw [hs2, hs1]; exact hi.e8)
          hi.nOff hi.ref hi.tbl)
        hm.Fle hm.fit hm.wp hm.len hm.al hm.cnt hm.frm (Or.inl ⟨rfl, rfl, rfl⟩) hoff hfr
    · simp only [hh, wp_throw_fault]
      exact benign_hang S
  · simp only [wp_bind, wp_set]
    exact fbWrite_spec S L₀ F outBytes st0 _
      (Inv0.mk hi.win hi.wsLe hi.wsDvd hi.wsPos hi.pre hi.main hi.len hi.ali hi.e8 hi.nOff hi.ref hi.tbl)
      hm.Fle hm.fit hm.wp hm.len hm.al hm.cnt hm.frm (Or.inr ⟨rfl, rfl, rfl⟩) hoff hfr

variable (hL : ∀ x n got x' m, S.read x n = .ok (got, x') → S.lzxLength x' = some m → m = 0 ∨ m = L₀)
include hL

theorem fbAlign_spec (F outBytes : Nat) (st0 st : St σ) (hm : Mid L₀ F st)
    (hoff : st.offset = st0.offset) (hfr : st.frame = st0.frame) :
    wp S (fbAlign S F outBytes) (fun chunk st' => FrameOut L₀ outBytes st0 chunk st') Er st := by
  have tail : ∀ st1 : St σ, SameB L₀ st st1 →
      wp S (fbE8 F outBytes) (fun chunk st' => FrameOut L₀ outBytes st0 chunk st') Er st1 := by
    intro st1 h1
    exact fbE8_spec S L₀ F outBytes st0 st1 (hm.sameB h1) (by rw [h1.offset]; exact hoff) (by rw [h1.frame]; exact hfr)
  have tail2 : ∀ st1 : St σ, SameB L₀ st st1 →
      wp S (do
        let bl := (← get).bits.length
        if bl % 16 ≠ 0 then removeBits (bl % 16)
        fbE8 F outBytes) (fun chunk st' => FrameOut L₀ outBytes st0 chunk st') Er st1 := by
    intro st1 h1
    unfold removeBits
    simp only [wp_bind, wp_get, wp_ite, wp_pure, wp_modify]
    exact ⟨fun _ => tail _ (h1.trans (by same_tac)), fun _ => tail _ h1⟩
  unfold fbAlign
  simp only [wp_bind, wp_get, wp_ite, wp_pure]
  refine ⟨fun _ => ?_, fun _ => ?_⟩
  · apply wp_cons S (ensureBits_spec S L₀ hL 16 3 st)
    rintro _ st1 ⟨h1, _⟩
    have := tail2 st1 h1
    simp only [wp_bind, wp_get, wp_ite, wp_pure] at this
    exact this
  · have := tail2 st (SameB.rfl' _ _)
    simp only [wp_bind, wp_get, wp_ite, wp_pure] at this
    exact this
end

section
variable (S : Src σ) (L₀ : Nat)
variable (hL : ∀ x n got x' m, S.read x n = .ok (got, x') → S.lzxLength x' = some m → m = 0 ∨ m = L₀)
include hL

theorem fbDecode_spec (fuel outBytes : Nat) (st0 st : St σ) (he : Entry L₀ outBytes st)
    (hoff : st.offset = st0.offset) (hfr : st.frame = st0.frame) :
    wp S (fbDecode S fuel outBytes) (fun chunk st' => FrameOut L₀ outBytes st0 chunk st') Er st := by
  have hg := he.good
  have hi := hg.inv
  have e32 : lzxFRAME_SIZE = 32768 := rfl
  have g1 := hg.wpfp; have g2 := hg.fpLt; have g4 := hg.len; have g5 := hg.align; have g6 := hg.cnt
  have g7 := he.pend; have g8 := he.off; have g9 := he.frm
  have i1 := hi.wsLe; have i2 := hi.wsDvd; have i3 := hi.wsPos
  unfold fbDecode
  simp only [wp_bind, wp_get, wp_ite, wp_pure, wp_fail_decrunch, implies_true, true_and, e32]
  have hFc : ((if st.length ≠ 0 ∧ (st.length : Int) - st.offset < ((32768 : Nat) : Int)
        then toU32 ((st.length : Int) - st.offset) else 32768) = 32768 ∧
        (st.length = 0 ∨ st.offset + 32768 ≤ st.length)) ∨
      (st.length ≠ 0 ∧ st.offset ≤ st.length ∧
        (if st.length ≠ 0 ∧ (st.length : Int) - st.offset < ((32768 : Nat) : Int)
          then toU32 ((st.length : Int) - st.offset) else 32768) + st.offset = st.length ∧
        (if st.length ≠ 0 ∧ (st.length : Int) - st.offset < ((32768 : Nat) : Int)
          then toU32 ((st.length : Int) - st.offset) else 32768) < 32768) ∨
      (st.length ≠ 0 ∧ st.length < st.offset ∧
        (if st.length ≠ 0 ∧ (st.length : Int) - st.offset < ((32768 : Nat) : Int)
          then toU32 ((st.length : Int) - st.offset) else 32768) + (st.offset - st.length) = 4294967296) := by
    split
    · rename_i hc
      by_cases hlo : st.offset ≤ st.length
      · rw [toU32_nonneg _ (by omega) (by omega)]; omega
      · rw [toU32_neg _ (by omega) (by omega)]; omega
    · rename_i hc
      omega
  generalize (if st.length ≠ 0 ∧ (st.length : Int) - st.offset < ((32768 : Nat) : Int)
        then toU32 ((st.length : Int) - st.offset) else 32768) = F at hFc ⊢
  have hb : ((st.framePosn : Int) + (F : Int) - (st.windowPosn : Int)) = (F : Int) := by omega
  rw [hb]
  by_cases hF : F ≤ 32768
  · rw [toS32_eq _ (by omega) (by omega)]
    have hfit : st.framePosn + F ≤ st.windowSize := by omega
    apply wp_cons S (blockLoop_spec S L₀ hL fuel F st ⟨hi, by omega, by omega, fun _ => by omega⟩)
    rintro _ st1 ⟨i1', f1, w1, m1⟩
    intro hchk
    have e1 := f1.offset; have e2 := f1.windowSize; have e3 := f1.framePosn; have e4 := f1.frame
    have e5 := f1.oPtr; have e6 := f1.oEnd; have e8 := f1.length
    rw [toU32_nonneg _ (by omega) (by omega)] at hchk
    have hwp1 : st1.windowPosn = st1.framePosn + F := by omega
    exact fbAlign_spec S L₀ hL F outBytes st0 st1
      { inv := i1', fit := by omega, Fle := hF, wp := hwp1, pend := by omega, len := by omega, al := by omega,
        cnt := by omega, frm := by omega } (by omega) (by omega)
  · rw [toS32_big _ (by omega) (by omega)]
    apply wp_cons S (blockLoop_spec S L₀ hL fuel _ st ⟨hi, by omega, by omega, fun h => absurd h (by omega)⟩)
    rintro _ st1 ⟨i1', f1, w1, m1⟩
    intro hchk
    have e2 := f1.windowSize; have e3 := f1.framePosn
    rw [toU32_nonneg _ (by omega) (by omega)] at hchk
    omega
end

section
variable (S : Src σ) (L₀ : Nat)
variable (hL : ∀ x n got x' m, S.read x n = .ok (got, x') → S.lzxLength x' = some m → m = 0 ∨ m = L₀)
include hL

theorem fbLen_spec (fuel outBytes : Nat) (st0 st : St σ) (he : Entry L₀ outBytes st)
    (hoff : st.offset = st0.offset) (hfr : st.frame = st0.frame) :
    wp S (fbLen S fuel outBytes) (fun chunk st' => FrameOut L₀ outBytes st0 chunk st') Er st := by
  unfold fbLen
  simp only [wp_bind, wp_get, wp_ite, wp_pure, wp_modify]
  refine ⟨fun _ => ⟨fun _ => ?_, fun _ => fbDecode_spec S L₀ hL fuel outBytes st0 st he hoff hfr⟩,
    fun _ => fbDecode_spec S L₀ hL fuel outBytes st0 st he hoff hfr⟩
  apply wp_cons S (readInput_spec S L₀ hL st)
  rintro _ st1 ⟨h1, _⟩
  exact fbDecode_spec S L₀ hL fuel outBytes st0 st1 (he.sameB h1) (by rw [h1.offset]; exact hoff)
    (by rw [h1.frame]; exact hfr)

theorem fbHeader_spec (fuel outBytes : Nat) (st0 st : St σ) (he : Entry L₀ outBytes st)
    (hoff : st.offset = st0.offset) (hfr : st.frame = st0.frame) :
    wp S (fbHeader S fuel outBytes) (fun chunk st' => FrameOut L₀ outBytes st0 chunk st') Er st := by
  have tail : ∀ (v : Int) (st1 : St σ), SameB L₀ st st1 →
      wp S (fbLen S fuel outBytes) (fun chunk st' => FrameOut L₀ outBytes st0 chunk st') Er
        { st1 with intelFilesize := v, headerRead := true } := by
    intro v st1 h1
    have h2 : Fix L₀ st { st1 with intelFilesize := v, headerRead := true } := h1.toFix.trans (by same_tac)
    exact fbLen_spec S L₀ hL fuel outBytes st0 _ (he.step h2 h1.windowPosn (by
        show ∀ c, st1.maintreeTbl = some c → CanonBd c 2576
        rw [h1.maintreeTbl]; exact he.good.inv.tbl))
      (by show st1.offset = st0.offset; rw [h1.offset]; exact hoff)
      (by show st1.frame = st0.frame; rw [h1.frame]; exact hfr)
  unfold fbHeader
  simp only [wp_bind, wp_get, wp_ite, wp_pure, wp_modify]
  refine ⟨fun _ => ?_, fun _ => fbLen_spec S L₀ hL fuel outBytes st0 st he hoff hfr⟩
  apply wp_cons S (readBits_spec S L₀ hL 1 st)
  rintro i st1 ⟨h1, _⟩
  refine ⟨fun _ => ?_, fun _ => tail _ st1 h1⟩
  apply wp_cons S (readBits_spec S L₀ hL 16 st1)
  rintro i' st2 ⟨h2, _⟩
  apply wp_cons S (readBits_spec S L₀ hL 16 st2)
  rintro j st3 ⟨h3, _⟩
  exact tail _ st3 ((h1.trans h2).trans h3)

theorem fbDelta_spec (fuel outBytes : Nat) (st0 st : St σ) (he : Entry L₀ outBytes st)
    (hoff : st.offset = st0.offset) (hfr : st.frame = st0.frame) :
    wp S (fbDelta S fuel outBytes) (fun chunk st' => FrameOut L₀ outBytes st0 chunk st') Er st := by
  unfold fbDelta removeBits
  simp only [wp_bind, wp_get, wp_ite, wp_pure, wp_modify]
  refine ⟨fun _ => ?_, fun _ => fbHeader_spec S L₀ hL fuel outBytes st0 st he hoff hfr⟩
  apply wp_cons S (ensureBits_spec S L₀ hL 16 3 st)
  rintro _ st1 ⟨h1, _⟩
  have h2 : SameB L₀ st { st1 with bits := st1.bits.drop 16 } := h1.trans (by same_tac)
  exact fbHeader_spec S L₀ hL fuel outBytes st0 _ (he.sameB h2) (by rw [h2.offset]; exact hoff)
    (by rw [h2.frame]; exact hfr)

/-- one frame: no out-of-bounds outcome, and the invariant is back afterwards -/
theorem frameBody_spec (fuel outBytes : Nat) (st : St σ) (he : Entry L₀ outBytes st) :
    wp S (frameBody S fuel outBytes) (fun chunk st' => FrameOut L₀ outBytes st chunk st') Er st := by
  rw [frameBody_eq]
  simp only [wp_bind, wp_get, wp_ite, wp_pure, wp_modify]
  refine ⟨fun _ => ?_, fun _ => fbDelta_spec S L₀ hL fuel outBytes st st he rfl rfl⟩
  exact fbDelta_spec S L₀ hL fuel outBytes st _
    (he.step (resetState_fix L₀ st) rfl he.good.inv.tbl) rfl rfl
end

/-! ## the frame loop and `decompress` -/

/-- the invariant of a decoder state between API calls: dead (sticky error) or `Good` -/
def LzxInv (L₀ : Nat) (st : St σ) : Prop := st.error ≠ .ok ∨ Good L₀ st

/-- outcome of an API call: a benign fault, or a state satisfying the invariant again -/
def Res (S : Src σ) (L₀ C : Nat) : Except Fault (DecodeOut (St σ)) → Prop
  | .error f => Benign S f
  | .ok o => o.st.error ≠ .ok ∨ (Good L₀ o.st ∧ o.st.offset ≤ C)

section
variable (S : Src σ) (L₀ : Nat)
variable (hL : ∀ x n got x' m, S.read x n = .ok (got, x') → S.lzxLength x' = some m → m = 0 ∨ m = L₀)
include hL

theorem frameLoop_spec (fuel endFrame C : Nat) : ∀ (n : Nat) (st : St σ) (outBytes : Nat) (acc : Array UInt8),
    Good L₀ st → (st.oPtr = st.oEnd ∨ outBytes = 0) → st.offset + outBytes < 2147483648 →
    endFrame = (st.offset + outBytes) / 32768 + 1 → st.offset + outBytes ≤ C →
    Res S L₀ C (frameLoop S fuel endFrame n st outBytes acc)
  | 0, st, outBytes, acc, hg, _, _, _, hC => by
    rw [frameLoop]
    split
    · exact benign_hang S
    · split
      · exact Or.inl (by simp)
      · exact Or.inr ⟨hg, by dsimp only; omega⟩
  | n + 1, st, outBytes, acc, hg, hp, ho, he, hC => by
    rw [frameLoop]
    split
    · rename_i hlt
      have g3 := hg.outLe; have g6 := hg.cnt
      have hentry : Entry L₀ outBytes st :=
        { good := hg, pend := by omega, off := ho, frm := by omega }
      have hfb := frameBody_spec S L₀ hL fuel outBytes st hentry
      unfold wp at hfb
      generalize (frameBody S fuel outBytes).run.run st = res at hfb
      obtain ⟨r, st'⟩ := res
      cases r with
      | error e =>
        cases e with
        | sys e => exact Or.inl hfb
        | fault f => exact hfb
      | ok chunk =>
        obtain ⟨hg', ho', hc', hf', hp'⟩ := hfb
        exact frameLoop_spec fuel endFrame C n st' (outBytes - chunk.size) (acc ++ chunk) hg'
          (by omega) (by omega) (by rw [he, ho']; congr 2; omega) (by omega)
    · split
      · exact Or.inl (by simp)
      · exact Or.inr ⟨hg, by dsimp only; omega⟩

/-- `lzxd_decompress`: from a state satisfying the invariant, asked for fewer than 2 GiB in total, the
    only faults are benign ones, and the state afterwards satisfies the invariant again -/
theorem decompress_spec (fuel : Nat) (st : St σ) (outBytes : Nat) (hinv : LzxInv L₀ st)
    (ho : st.offset + outBytes < 2147483648) :
    Res S L₀ (st.offset + outBytes) (decompress S fuel st outBytes) := by
  unfold decompress
  split
  · rename_i he; exact Or.inl he
  · rename_i he
    have hg : Good L₀ st := by
      rcases hinv with h | h
      · exact absurd h he
      · exact h
    have hi := hg.inv
    have g1 := hg.wpfp; have g2 := hg.fpLt; have g3 := hg.outLe; have g4 := hg.len; have g5 := hg.align
    have g6 := hg.cnt; have g7 := hg.outSz
    have hI : min (st.oEnd - st.oPtr) outBytes ≤ st.oEnd - st.oPtr ∧ min (st.oEnd - st.oPtr) outBytes ≤ outBytes ∧
        (min (st.oEnd - st.oPtr) outBytes = st.oEnd - st.oPtr ∨ min (st.oEnd - st.oPtr) outBytes = outBytes) := by
      omega
    generalize min (st.oEnd - st.oPtr) outBytes = i at hI ⊢
    obtain ⟨hi1, hi2, hi3⟩ := hI
    have hsl : outSlice st i = .ok ((if st.oInE8 then st.e8Buf else st.window).extract st.oPtr (st.oPtr + i)) := by
      unfold outSlice
      simp only
      rw [if_pos]
      cases hb : st.oInE8
      · rw [hb] at g7; simp only [Bool.false_eq_true, if_false] at g7 ⊢; rw [hi.win]; omega
      · rw [hb] at g7; simp only [if_true] at g7 ⊢; rw [hi.e8]; omega
    simp only [hsl]
    have hg1 : Good L₀ { st with oPtr := st.oPtr + i, offset := st.offset + i } :=
      { inv := Inv0.mk hi.win hi.wsLe hi.wsDvd hi.wsPos hi.pre hi.main hi.len hi.ali hi.e8 hi.nOff hi.ref hi.tbl
        wpfp := g1
        fpLt := g2
        outLe := by dsimp only; omega
        outSz := g7
        len := g4
        align := by dsimp only; omega
        cnt := by dsimp only; omega }
    split
    · exact Or.inr ⟨hg1, by dsimp only; omega⟩
    · rename_i hne
      have e32 : lzxFRAME_SIZE = 32768 := rfl
      have e1 : ((st.offset + i + (outBytes - i)) / 32768 % 4294967296 + 1) % 4294967296 =
          (st.offset + i + (outBytes - i)) / 32768 + 1 := by omega
      rw [e32, e1]
      exact frameLoop_spec S L₀ hL fuel _ _ _ _ _ _ hg1 (by dsimp only; omega) (by dsimp only; omega) rfl
        (by dsimp only; omega)
end

/-! ## `init`, `setReferenceData` -/

theorem lens_size (cleared dim : Nat) (fill : UInt8) (h : cleared ≤ dim) :
    (Array.replicate cleared (0 : UInt8) ++ Array.replicate (dim - cleared) fill).size = dim := by
  rw [Array.size_append, Array.size_replicate, Array.size_replicate]; omega

theorem pow_facts (wb : Nat) (h1 : 15 ≤ wb) (h2 : wb ≤ 25) :
    2 ^ wb ≤ 33554432 ∧ 2 ^ wb % 32768 = 0 ∧ 0 < 2 ^ wb := by
  have : wb = 15 ∨ wb = 16 ∨ wb = 17 ∨ wb = 18 ∨ wb = 19 ∨ wb = 20 ∨ wb = 21 ∨ wb = 22 ∨ wb = 23 ∨ wb = 24 ∨
      wb = 25 := by omega
  rcases this with h | h | h | h | h | h | h | h | h | h | h <;> subst h <;> decide

theorem slots_le (k slots : Nat) (h : lzxPositionSlots[k]? = some slots) : slots * 8 ≤ 2320 := by
  have hk : k < 11 ∨ 11 ≤ k := by omega
  rcases hk with hk | hk
  · have : k = 0 ∨ k = 1 ∨ k = 2 ∨ k = 3 ∨ k = 4 ∨ k = 5 ∨ k = 6 ∨ k = 7 ∨ k = 8 ∨ k = 9 ∨ k = 10 := by omega
    rcases this with e | e | e | e | e | e | e | e | e | e | e <;> subst e <;>
      simp only [lzxPositionSlots, List.getElem?_cons_zero, List.getElem?_cons_succ, Option.some.injEq] at h <;>
      omega
  · have : lzxPositionSlots[k]? = none := by
      rw [List.getElem?_eq_none]; simp only [lzxPositionSlots, List.length_cons, List.length_nil]; omega
    rw [this] at h; contradiction

/-- `lzxd_init` establishes the invariant (for any `L₀` the declared output length is compatible with) -/
theorem init_good (src : σ) (windowBits resetInterval inputBufferSize outputLength : Nat) (isDelta : Bool)
    (fill : UInt8) (st : St σ) (L₀ : Nat) (hl : outputLength = 0 ∨ outputLength = L₀)
    (h : init src windowBits resetInterval inputBufferSize outputLength isDelta fill = some st) : Good L₀ st := by
  unfold init at h
  cases isDelta
  all_goals
    simp only [Bool.false_eq_true, if_false, if_true] at h
    split at h
    · contradiction
    · rename_i hbits
      split at h
      · contradiction
      · split at h
        · contradiction
        · rename_i slots hslots
          simp only [Option.some.injEq] at h
          have hwb : 15 ≤ windowBits ∧ windowBits ≤ 25 := by
            simp only [Bool.not_eq_true', decide_eq_false_iff_not, Classical.not_not] at hbits
            omega
          obtain ⟨p1, p2, p3⟩ := pow_facts windowBits hwb.1 hwb.2
          subst h
          exact
            { inv :=
                { win := by simp only [Array.size_replicate]
                  wsLe := p1, wsDvd := p2, wsPos := p3
                  pre := lens_size _ _ _ (by decide)
                  main := lens_size _ _ _ (by decide)
                  len := lens_size _ _ _ (by decide)
                  ali := lens_size _ _ _ (by decide)
                  e8 := by simp only [Array.size_replicate]; rfl
                  nOff := slots_le _ _ hslots
                  ref := Nat.zero_le _
                  tbl := by intro c hc; simp only at hc; contradiction }
              wpfp := rfl
              fpLt := p3
              outLe := Nat.le_refl _
              outSz := Nat.zero_le _
              len := hl
              align := Or.inl rfl
              cnt := by simp }

theorem init_offset (src : σ) (windowBits resetInterval inputBufferSize outputLength : Nat) (isDelta : Bool)
    (fill : UInt8) (st : St σ)
    (h : init src windowBits resetInterval inputBufferSize outputLength isDelta fill = some st) : st.offset = 0 := by
  unfold init at h
  cases isDelta
  all_goals
    simp only [Bool.false_eq_true, if_false, if_true] at h
    split at h
    · contradiction
    · split at h
      · contradiction
      · split at h
        · contradiction
        · simp only [Option.some.injEq] at h; rw [← h]

theorem init_inv (src : σ) (windowBits resetInterval inputBufferSize outputLength : Nat) (isDelta : Bool)
    (fill : UInt8) (st : St σ) (L₀ : Nat) (hl : outputLength = 0 ∨ outputLength = L₀)
    (h : init src windowBits resetInterval inputBufferSize outputLength isDelta fill = some st) : LzxInv L₀ st :=
  Or.inr (init_good src windowBits resetInterval inputBufferSize outputLength isDelta fill st L₀ hl h)

theorem setReferenceData_error (st : St σ) (length : Nat) (ref : Option Bytes) :
    (setReferenceData st length ref).2.error = st.error := by
  unfold setReferenceData
  dsimp only
  repeat' split
  all_goals rfl

/-- `lzxd_set_reference_data` keeps the invariant -/
theorem setReferenceData_inv (L₀ : Nat) (st : St σ) (length : Nat) (ref : Option Bytes) (h : LzxInv L₀ st) :
    LzxInv L₀ (setReferenceData st length ref).2 := by
  rcases h with h | hg
  · left
    rw [setReferenceData_error]; exact h
  · have hi := hg.inv
    have key : ∀ (n : Nat) (w : Array UInt8), n ≤ st.windowSize → w.size = st.windowSize →
        LzxInv L₀ { ({ st with refDataSize := n } : St σ) with window := w } := by
      intro n w hn hw
      exact Or.inr
        { inv := Inv0.mk hw hi.wsLe hi.wsDvd hi.wsPos hi.pre hi.main hi.len hi.ali hi.e8 hi.nOff hn hi.tbl
          wpfp := hg.wpfp, fpLt := hg.fpLt, outLe := hg.outLe, outSz := hg.outSz, len := hg.len,
          align := hg.align, cnt := hg.cnt }
    unfold setReferenceData
    split
    · exact Or.inr hg
    · split
      · exact Or.inr hg
      · split
        · exact Or.inr hg
        · rename_i hle
          have hle' : length ≤ st.windowSize := by omega
          simp only
          split
          · exact key length st.window hle' hi.win
          · split
            · exact key length st.window hle' hi.win
            · rename_i bytes
              obtain ⟨w', hw, hsz⟩ := writeBytes_ok (List.take length bytes) (st.windowSize - length) st.window
                (by rw [hi.win]; simp only [List.length_take]; omega)
              simp only [hw]
              split
              · exact key length w' hle' (by rw [hsz]; exact hi.win)
              · exact key length w' hle' (by rw [hsz]; exact hi.win)

end MsPack.Lzx
