import MsPack.Zip.Kwaj
import MsPack.Lzss.Decoder
import MsPack.Kwaj.Extract
import MsPack.Driver.Kwaj
import Proofs.Lemmas.HuffLen
import MsPack.Cab.Extract
import Proofs.Lemmas.FeederTerm
/-!
MSZIP (`MsPack/Zip/Inflate.lean`, `MsPack/Zip/Kwaj.lean`): the out-of-fuel outcome `Fault.hang`
is unreachable with the fuel the callers pass.

Measure: the number of bits the decoder can still obtain,
`bitsLeft rem st = |bits| + 8·|inbuf| + 8·rem(src) + (16 if the two fake EOF bytes are still to come)`,
for a source with a "bytes remaining" function `rem` (`SrcOK S rem`: a read delivering `c` leaves
`|c| + rem s' ≤ rem s`, and no read returns `hang`; `rdSrc_ok`: the file-backed source `Rd.src` with
`rem r = |file| − pos`).  `read_input` never increases it; every `inflate` round takes 3 bits off it,
every `huffBlock` round at least one (`Huff.decode_len`), every `scanCK` round 8, every KWAJ block
head 16; `readLensLoop` and `copyStored` have their own fuel (`total + 1`, `length + 2`) and
lengthen `lens` / shorten `length` each round (`copyStored` needs the window position inside the
frame, which `putByte`/`flushIfNeeded`/`copyStored` maintain and the callers establish with
`windowPosn := 0`).

The statements are Hoare triples `Tri x st Q E` over `ZM` (normal result in `Q`, state after an
`inf` throw in `E`, a fault is never `hang`), one per model function, composed with `tri_bind`.

Final theorems: `C04_zip_inflate_no_hang` (`_rd` for `Rd.src`), `C04_zip_scanCK_no_hang`,
`C04_zip_decompressLoop_no_hang`, `C04_zip_decompress_no_hang`, `C04_zip_kwajLoop_no_hang`,
`C04_zip_decompressKwaj_no_hang`, `C04_zip_decompressKwaj_driver_no_hang`.
CAB caller (`MsPack.Cab` section at the end): `feederSrc_ok` - the cabinet-set feeder is such a
source with `rem = feederLeft files` (buffered block bytes + rest of the current cabinet file + the
later cabinets from their data offsets; `nohang` from `feederRead_terminates`) - and
`C04_zip_cab_decompress_no_hang` / `C04_zip_cab_no_hang` under the explicit hypothesis that
`decFuel files` exceeds `bitsLeft`.  Not here: that hypothesis from an invariant of the API layer
(`feederLeft` counts a file once per part naming it, `decFuel` once).
-/
namespace MsPack.Zip
open MsPack MsPack.Generated

variable {σ : Type}

/-! ### a Hoare triple over `ZM` -/

/-- from a fixed start state: normal results satisfy `Q`, an `inf` throw leaves a state in `E`, a
    fault is never `hang`; nothing is claimed after a `sys` throw. -/
def Tri {α : Type} (x : ZM σ α) (st : St σ) (Q : α → St σ → Prop) (E : St σ → Prop) : Prop :=
  match x.run.run st with
  | (.ok a, st') => Q a st'
  | (.error (.fault f), _) => f ≠ .hang
  | (.error .inf, st') => E st'
  | (.error (.sys _), _) => True

theorem run_bind {α β : Type} (x : ZM σ α) (f : α → ZM σ β) (st : St σ) :
    (x >>= f).run.run st =
      match x.run.run st with
      | (.ok a, st') => (f a).run.run st'
      | (.error e, st') => (.error e, st') := by
  simp only [ExceptT.run_bind, StateT.run_bind]
  rcases x.run.run st with ⟨r, st'⟩
  cases r <;> rfl

theorem tri_bind {α β : Type} {x : ZM σ α} {f : α → ZM σ β} {st : St σ}
    {Q : α → St σ → Prop} {R : β → St σ → Prop} {E : St σ → Prop}
    (hx : Tri x st Q E) (hf : ∀ a st', Q a st' → Tri (f a) st' R E) : Tri (x >>= f) st R E := by
  unfold Tri at hx ⊢
  rw [run_bind]
  rcases h : x.run.run st with ⟨r, st'⟩
  rw [h] at hx
  cases r with
  | ok a => exact hf a st' hx
  | error e => cases e <;> exact hx

theorem tri_weaken {α : Type} {x : ZM σ α} {st : St σ}
    {Q Q' : α → St σ → Prop} {E E' : St σ → Prop}
    (hx : Tri x st Q E) (hq : ∀ a st', Q a st' → Q' a st') (he : ∀ st', E st' → E' st') :
    Tri x st Q' E' := by
  unfold Tri at hx ⊢
  rcases h : x.run.run st with ⟨r, st'⟩
  rw [h] at hx
  cases r with
  | ok a => exact hq a st' hx
  | error e =>
    cases e with
    | inf => exact he st' hx
    | sys e => trivial
    | fault f => exact hx

theorem tri_pure {α : Type} {a : α} {st : St σ} {Q : α → St σ → Prop} {E : St σ → Prop}
    (h : Q a st) : Tri (pure a : ZM σ α) st Q E := h
theorem tri_get {st : St σ} {Q : St σ → St σ → Prop} {E : St σ → Prop}
    (h : Q st st) : Tri (get : ZM σ (St σ)) st Q E := h
theorem tri_set {st s : St σ} {Q : PUnit → St σ → Prop} {E : St σ → Prop}
    (h : Q ⟨⟩ s) : Tri (set s : ZM σ PUnit) st Q E := h
theorem tri_modify {st : St σ} {f : St σ → St σ} {Q : PUnit → St σ → Prop} {E : St σ → Prop}
    (h : Q ⟨⟩ (f st)) : Tri (modify f : ZM σ PUnit) st Q E := h
theorem tri_throw_inf {α : Type} {st : St σ} {Q : α → St σ → Prop} {E : St σ → Prop}
    (h : E st) : Tri (throw .inf : ZM σ α) st Q E := h
theorem tri_throw_sys {α : Type} {e : Err} {st : St σ} {Q : α → St σ → Prop} {E : St σ → Prop} :
    Tri (throw (.sys e) : ZM σ α) st Q E := trivial
theorem tri_throw_fault {α : Type} {f : Fault} {st : St σ} {Q : α → St σ → Prop} {E : St σ → Prop}
    (h : f ≠ .hang) : Tri (throw (.fault f) : ZM σ α) st Q E := h

/-! ### the measure and the assumption on the source -/

/-- bits still obtainable: buffered bits, buffered bytes, bytes the source can still deliver, and
    the two zero bytes `read_input` fakes at the first end of input -/
def bitsLeft (rem : σ → Nat) (st : St σ) : Nat :=
  st.bits.length + 8 * st.inbuf.length + 8 * rem st.src + (if st.inputEnd then 0 else 16)

/-- a source with a "bytes remaining" function: a read that delivers `c` uses up `|c|` of them,
    and no read hangs -/
structure SrcOK (S : Src σ) (rem : σ → Nat) : Prop where
  shrink : ∀ s n c s', S.read s n = .ok (some c, s') → c.length + rem s' ≤ rem s
  nohang : ∀ s n, S.read s n ≠ .error .hang

variable {S : Src σ} {rem : σ → Nat}

/-- postcondition shared by the bit-level readers: `k` bits fewer obtainable, window position
    untouched -/
def Used (rem : σ → Nat) (st : St σ) (k : Nat) (st' : St σ) : Prop :=
  bitsLeft rem st' + k ≤ bitsLeft rem st ∧ st'.windowPosn = st.windowPosn

theorem readInput_tri (hS : SrcOK S rem) (st : St σ) :
    Tri (readInput S) st (fun _ st' => Used rem st 0 st' ∧ st'.inbuf ≠ [] ∧ st'.bits = st.bits) (fun _ => False) := by
  unfold readInput
  refine tri_bind (tri_get (Q := fun a s => a = st ∧ s = st) ⟨rfl, rfl⟩) ?_
  rintro _ _ ⟨rfl, rfl⟩
  split
  · next f h => exact tri_throw_fault (fun hf => hS.nohang _ _ (hf ▸ h))
  · exact tri_bind (tri_set (Q := fun _ _ => True) trivial) (fun _ _ _ => tri_throw_sys)
  · next src h =>
    have := hS.shrink _ _ _ _ h
    split
    · exact tri_bind (tri_set (Q := fun _ _ => True) trivial) (fun _ _ _ => tri_throw_sys)
    · next hie =>
      refine tri_set ⟨⟨?_, rfl⟩, by simp, rfl⟩
      simp only [bitsLeft, hie, List.length_cons, List.length_nil] at this ⊢
      simp; omega
  · next got src hne h =>
    have := hS.shrink _ _ _ _ h
    refine tri_set ⟨⟨?_, rfl⟩, ?_, rfl⟩
    · simp only [bitsLeft] at this ⊢; omega
    · intro h0; exact hne h0


theorem tri_get_bind {β : Type} {f : St σ → ZM σ β} {st : St σ} {R : β → St σ → Prop}
    {E : St σ → Prop} (h : Tri (f st) st R E) : Tri (get >>= f) st R E := by
  unfold Tri at h ⊢; rw [run_bind]; exact h
theorem tri_set_bind {β : Type} {f : PUnit → ZM σ β} {st s : St σ} {R : β → St σ → Prop}
    {E : St σ → Prop} (h : Tri (f ⟨⟩) s R E) : Tri (set s >>= f) st R E := by
  unfold Tri at h ⊢; rw [run_bind]; exact h
theorem tri_modify_bind {β : Type} {k : PUnit → ZM σ β} {g : St σ → St σ} {st : St σ}
    {R : β → St σ → Prop} {E : St σ → Prop} (h : Tri (k ⟨⟩) (g st) R E) :
    Tri (modify g >>= k) st R E := by
  unfold Tri at h ⊢; rw [run_bind]; exact h
theorem tri_noinf {α : Type} {x : ZM σ α} {st : St σ} {Q : α → St σ → Prop} {E : St σ → Prop}
    (h : Tri x st Q (fun _ => False)) : Tri x st Q E :=
  tri_weaken h (fun _ _ h => h) (fun _ h => h.elim)

theorem Used.refl (st : St σ) : Used rem st 0 st := ⟨Nat.le_refl _, rfl⟩
theorem Used.trans {st st1 st2 : St σ} {a b : Nat} (h1 : Used rem st a st1) (h2 : Used rem st1 b st2) :
    Used rem st (a + b) st2 := by
  unfold Used at *; omega
theorem Used.mono {st st1 : St σ} {a b : Nat} (h1 : Used rem st a st1) (h : b ≤ a) :
    Used rem st b st1 := by
  unfold Used at *; omega

/-- the shape `if c then x; rest else rest` the `do` notation produces for a one-armed `if` -/
theorem tri_opt {β : Type} {c : Prop} {_ : Decidable c} {x : ZM σ PUnit} {body : ZM σ β} {st : St σ}
    {R : β → St σ → Prop} {E : St σ → Prop} (P : St σ → Prop)
    (hx : c → Tri x st (fun _ st1 => P st1) E) (hnc : ¬c → P st)
    (hbody : ∀ st1, P st1 → Tri body st1 R E) :
    Tri (if c then x >>= fun _ => body else body) st R E := by
  split
  · next h => exact tri_bind (hx h) (fun _ st1 h1 => hbody st1 h1)
  · next h => exact hbody st (hnc h)

theorem tri_throw_sys_bind {β : Type} {e : Err} {f : PUnit → ZM σ β} {st : St σ}
    {R : β → St σ → Prop} {E : St σ → Prop} :
    Tri ((throw (.sys e) : ZM σ PUnit) >>= f) st R E :=
  tri_bind (tri_throw_sys (Q := fun _ _ => False)) (fun _ _ h => h.elim)

theorem tri_throw_inf_bind {β : Type} {f : PUnit → ZM σ β} {st : St σ}
    {R : β → St σ → Prop} {E : St σ → Prop} (hE : E st) :
    Tri ((throw .inf : ZM σ PUnit) >>= f) st R E :=
  tri_bind (tri_throw_inf (Q := fun _ _ => False) hE) (fun _ _ h => h.elim)

/-- the shape of `if c then throw .inf` followed by more -/
theorem tri_guard {β : Type} {c : Prop} {_ : Decidable c} {body : ZM σ β} {st : St σ}
    {R : β → St σ → Prop} {E : St σ → Prop} (hE : E st) (hbody : Tri body st R E) :
    Tri (if c then (throw .inf : ZM σ PUnit) >>= fun _ => body else body) st R E := by
  split
  · exact tri_bind (tri_throw_inf (Q := fun _ _ => False) hE) (fun _ _ h => h.elim)
  · exact hbody

theorem nextByte_tri (hS : SrcOK S rem) (st : St σ) :
    Tri (nextByte S) st (fun _ st' => Used rem st 8 st' ∧ st'.bits = st.bits) (fun _ => False) := by
  unfold nextByte
  refine tri_get_bind ?_
  have core : ∀ st1 : St σ, st1.inbuf ≠ [] →
      Tri (do
        let st ← get
        match st.inbuf with
        | b :: rest => set { st with inbuf := rest }; pure b
        | [] => throw (.fault (.oob "inbuf")) : ZM σ UInt8) st1
        (fun _ st' => Used rem st1 8 st' ∧ st'.bits = st1.bits) (fun _ => False) := by
    intro st1 hne
    refine tri_get_bind ?_
    split
    · next b rest hb =>
      refine tri_set_bind (tri_pure ⟨?_, rfl⟩)
      unfold Used bitsLeft; simp [hb]; omega
    · next hb => exact (hne hb).elim
  dsimp only []
  split
  · exact tri_bind (readInput_tri hS st) (fun _ st1 h =>
      tri_weaken (core st1 h.2.1) (fun _ _ h' => ⟨(h.1.trans h'.1).mono (by omega), h'.2.trans h.2.2⟩)
        (fun _ h => h))
  · next h => exact core st (by simpa using h)


theorem byteBits_length_T (b : UInt8) : (byteBits b).length = 8 := by simp [byteBits]

theorem ensureBits_tri (hS : SrcOK S rem) (n : Nat) : ∀ (fuel : Nat) (st : St σ),
    Tri (ensureBits S n fuel) st
      (fun _ st' => Used rem st 0 st' ∧ (n ≤ st.bits.length + 8 * fuel → n ≤ st'.bits.length))
      (fun _ => False) := by
  intro fuel
  induction fuel with
  | zero => intro st; rw [ensureBits]; exact tri_pure ⟨Used.refl st, fun h => by omega⟩
  | succ fuel ih =>
    intro st
    rw [ensureBits]
    refine tri_get_bind ?_
    split
    · refine tri_bind (nextByte_tri hS st) (fun b st1 h1 => tri_modify_bind ?_)
      refine tri_weaken (ih _) (fun _ st2 h2 => ?_) (fun _ h => h)
      have hb := byteBits_length_T b
      constructor
      · have := h2.1
        have := h1.1
        unfold Used bitsLeft at *
        simp only [List.length_append] at *
        omega
      · intro hn
        apply h2.2
        have := congrArg List.length h1.2
        dsimp only
        simp only [List.length_append]
        omega
    · next h => exact tri_pure ⟨Used.refl st, fun _ => by omega⟩

theorem readBits_tri (hS : SrcOK S rem) (n : Nat) (hn : n ≤ 24) (st : St σ) :
    Tri (readBits S n) st (fun _ st' => Used rem st n st') (fun _ => False) := by
  unfold readBits removeBits
  refine tri_bind (ensureBits_tri hS n 3 st) (fun _ st1 h1 => tri_get_bind (tri_modify_bind (tri_pure ?_)))
  have := h1.2 (by omega)
  have := h1.1
  unfold Used bitsLeft at *
  simp only [List.length_drop]
  omega

/-- `inf` throws leave at most `B` bits obtainable -/
def AtMost (rem : σ → Nat) (B : Nat) (st : St σ) : Prop := bitsLeft rem st ≤ B

theorem readHuffSym_tri (hS : SrcOK S rem) (c : Huff.Canon) (st : St σ) (B : Nat)
    (hB : bitsLeft rem st ≤ B) :
    Tri (readHuffSym S c) st (fun _ st' => Used rem st 1 st') (AtMost rem B) := by
  unfold readHuffSym removeBits
  refine tri_bind (tri_noinf (ensureBits_tri hS 16 3 st)) (fun _ st1 h1 => tri_get_bind ?_)
  split
  · next sym len hd =>
    have := Huff.decode_len _ _ _ _ hd
    refine tri_modify_bind (tri_pure ?_)
    have := h1.1
    unfold Used bitsLeft at *
    simp only [List.length_drop]
    omega
  · refine tri_throw_inf ?_
    have := h1.1
    unfold Used AtMost at *
    omega


/-! ### the window side -/

theorem zipFRAME_SIZE_eq : zipFRAME_SIZE = 32768 := rfl
theorem zipFRAME_SIZE_pos : 0 < zipFRAME_SIZE := by rw [zipFRAME_SIZE_eq]; omega

/-- postcondition of the window writers: `k` bits fewer obtainable, window position inside the
    frame -/
def Kept (rem : σ → Nat) (st : St σ) (k : Nat) (st' : St σ) : Prop :=
  bitsLeft rem st' + k ≤ bitsLeft rem st ∧ st'.windowPosn < zipFRAME_SIZE

theorem flushWindow_tri (n : Nat) (st : St σ) (B : Nat) (hB : bitsLeft rem st ≤ B) :
    Tri (flushWindow n : ZM σ Unit) st (fun _ st' => Used rem st 0 st') (AtMost rem B) := by
  unfold flushWindow
  refine tri_get_bind (tri_set_bind ?_)
  split
  · exact tri_throw_inf hB
  · exact tri_pure ⟨Nat.le_refl _, rfl⟩

theorem flushIfNeeded_tri (st : St σ) (B : Nat) (hB : bitsLeft rem st ≤ B)
    (hw : st.windowPosn ≤ zipFRAME_SIZE) :
    Tri (flushIfNeeded : ZM σ Unit) st (fun _ st' => Kept rem st 0 st') (AtMost rem B) := by
  unfold flushIfNeeded
  refine tri_get_bind ?_
  split
  · have hp := zipFRAME_SIZE_pos
    unfold Kept
    generalize zipFRAME_SIZE = F at hp ⊢
    refine tri_bind (flushWindow_tri F st B hB) (fun _ st1 h1 => tri_modify ?_)
    exact ⟨h1.1, hp⟩
  · next h => exact tri_pure ⟨Nat.le_refl _, by omega⟩

theorem putByte_tri (b : UInt8) (st : St σ) (B : Nat) (hB : bitsLeft rem st ≤ B)
    (hw : st.windowPosn < zipFRAME_SIZE) :
    Tri (putByte b : ZM σ Unit) st (fun _ st' => Kept rem st 0 st') (AtMost rem B) := by
  unfold putByte
  refine tri_get_bind ?_
  dsimp only []
  split
  · refine tri_set_bind ?_
    exact tri_weaken (flushIfNeeded_tri _ B hB (by dsimp only; omega)) (fun _ _ h => h) (fun _ h => h)
  · exact tri_bind (tri_throw_fault (Q := fun _ _ => False) (by simp)) (fun _ _ h => h.elim)

theorem copyMatch_tri : ∀ (length matchPosn : Nat) (st : St σ) (B : Nat), bitsLeft rem st ≤ B →
    st.windowPosn < zipFRAME_SIZE →
    Tri (copyMatch length matchPosn : ZM σ Unit) st (fun _ st' => Kept rem st 0 st') (AtMost rem B) := by
  intro length
  induction length with
  | zero => intro mp st B hB hw; rw [copyMatch]; exact tri_pure ⟨Nat.le_refl _, hw⟩
  | succ length ih =>
    intro mp st B hB hw
    rw [copyMatch]
    refine tri_get_bind (tri_bind (putByte_tri _ st B hB hw) (fun _ st1 h1 => ?_))
    refine tri_weaken (ih _ st1 B (Nat.le_trans h1.1 hB) h1.2) (fun _ st2 h2 => ?_) (fun _ h => h)
    unfold Kept at *; omega


theorem copyStored_tri (hS : SrcOK S rem) : ∀ (fuel length : Nat) (st : St σ) (B : Nat),
    bitsLeft rem st ≤ B → st.windowPosn < zipFRAME_SIZE → length + 1 ≤ fuel →
    Tri (copyStored S fuel length) st (fun _ st' => Kept rem st 0 st') (AtMost rem B) := by
  intro fuel
  induction fuel with
  | zero => intro length st B hB hw hf; omega
  | succ fuel ih =>
    intro length st B hB hw hf
    rw [copyStored]
    split
    · exact tri_pure ⟨Nat.le_refl _, hw⟩
    · next hl =>
      refine tri_get_bind ?_
      dsimp only []
      refine tri_opt (fun st1 => Used rem st 0 st1 ∧ st1.inbuf ≠ [])
        (fun _ => tri_weaken (tri_noinf (readInput_tri hS st)) (fun _ _ h => ⟨h.1, h.2.1⟩) (fun _ h => h))
        (fun h => ⟨Used.refl st, by simpa using h⟩) ?_
      intro st1 ⟨hu, hne⟩
      refine tri_get_bind ?_
      generalize hrun : min (min length st1.inbuf.length) (zipFRAME_SIZE - st1.windowPosn) = run
      have hlen : 1 ≤ st1.inbuf.length := by
        cases h : st1.inbuf with
        | nil => exact (hne h).elim
        | cons a l => simp
      have hw1 : st1.windowPosn < zipFRAME_SIZE := hu.2 ▸ hw
      have hr : 1 ≤ run ∧ run ≤ length ∧ run ≤ st1.inbuf.length ∧ st1.windowPosn + run ≤ zipFRAME_SIZE := by
        omega
      refine tri_set_bind ?_
      have hu1 := hu.1
      have hb2 : ∀ st2 : St σ, st2.bits = st1.bits → st2.inbuf = st1.inbuf.drop run → st2.src = st1.src →
          st2.inputEnd = st1.inputEnd → bitsLeft rem st2 ≤ bitsLeft rem st := by
        intro st2 e1 e2 e3 e4
        unfold bitsLeft at *
        rw [e1, e2, e3, e4]
        simp only [List.length_drop]; omega
      have hb3 : ∀ st2 : St σ, st2.bits = st1.bits → st2.inbuf = st1.inbuf.drop run → st2.src = st1.src →
          st2.inputEnd = st1.inputEnd → bitsLeft rem st2 ≤ B := fun st2 e1 e2 e3 e4 =>
        Nat.le_trans (hb2 st2 e1 e2 e3 e4) hB
      refine tri_bind (flushIfNeeded_tri _ B ?_ hr.2.2.2) (fun _ st3 h3 => ?_)
      · exact hb3 _ rfl rfl rfl rfl
      have h31 := h3.1
      refine tri_weaken (ih _ st3 B (Nat.le_trans (Nat.le_trans (Nat.le_add_right _ _) h31) ?_) h3.2 (by omega))
        (fun _ st4 h4 => ?_) (fun _ h => h)
      · exact hb3 _ rfl rfl rfl rfl
      have := Nat.le_trans h31 (hb2 _ rfl rfl rfl rfl)
      unfold Kept at *; omega


/-! ### Huffman blocks -/

theorem Used.drop {st st1 : St σ} {k : Nat} (len : Nat) (h : Used rem st k st1) :
    Used rem st k { st1 with bits := st1.bits.drop len } := by
  unfold Used bitsLeft at *
  simp only [List.length_drop]
  omega

theorem readLensLoop_tri (hS : SrcOK S rem) (c : Huff.Canon) (total : Nat) :
    ∀ (fuel : Nat) (lens : List Nat) (last : Nat) (st : St σ) (B : Nat),
    bitsLeft rem st ≤ B → (total - lens.length) + 1 ≤ fuel →
    Tri (readLensLoop S c total fuel lens last) st (fun _ st' => Used rem st 0 st') (AtMost rem B) := by
  intro fuel
  induction fuel with
  | zero => intro lens last st B hB hf; omega
  | succ fuel ih =>
    intro lens last st B hB hf
    rw [readLensLoop]
    split
    · exact tri_pure (Used.refl st)
    · next hl =>
      refine tri_bind (tri_noinf (ensureBits_tri hS 7 2 st)) (fun _ st1 h1 => tri_get_bind ?_)
      split
      · exact tri_throw_fault (by simp)
      · next code len hd =>
        unfold removeBits
        refine tri_modify_bind ?_
        have h2 := Used.drop len h1.1
        generalize ({ st1 with bits := List.drop len st1.bits } : St σ) = st2 at h2 ⊢
        have hB2 : bitsLeft rem st2 ≤ B := by unfold Used at h2; omega
        split
        · refine tri_weaken (ih _ _ st2 B hB2 (by simp only [List.length_append, List.length_cons, List.length_nil]; omega))
            (fun _ _ h => (h2.trans h)) (fun _ h => h)
        · have htup : (if code = 16 then (2, 3, last) else if code = 17 then (3, 3, 0) else (7, 11, 0) :
              Nat × Nat × Nat).1 ≤ 7 ∧ 3 ≤ (if code = 16 then (2, 3, last) else if code = 17 then (3, 3, 0)
              else (7, 11, 0) : Nat × Nat × Nat).2.1 := by
            split
            · simp
            · split <;> simp
          generalize (if code = 16 then (2, 3, last) else if code = 17 then (3, 3, 0) else (7, 11, 0)) = tup
            at htup ⊢
          obtain ⟨nb, base, val⟩ := tup
          dsimp only [] at htup ⊢
          split
          · exact tri_throw_inf hB2
          · refine tri_bind (tri_noinf (readBits_tri hS nb (by omega) st2)) (fun v st3 h3 => ?_)
            have h23 := h2.trans h3
            have hB3 : bitsLeft rem st3 ≤ B := by unfold Used at h23; omega
            split
            · exact tri_throw_inf hB3
            · refine tri_weaken (ih _ _ st3 B hB3 (by simp only [List.length_append, List.length_replicate]; omega))
                (fun _ _ h => (h23.trans h).mono (by omega)) (fun _ h => h)


theorem zipReadLens_rd_tri (hS : SrcOK S rem) (blc : Nat) : ∀ (k : Nat) (acc : List (Nat × Nat)) (st : St σ),
    Tri (zipReadLens.rd S blc k acc) st (fun _ st' => Used rem st 0 st') (fun _ => False) := by
  intro k
  induction k with
  | zero => intro acc st; rw [zipReadLens.rd]; exact tri_pure (Used.refl st)
  | succ k ih =>
    intro acc st
    rw [zipReadLens.rd]
    refine tri_bind (readBits_tri hS 3 (by omega) st) (fun v st1 h1 => ?_)
    exact tri_weaken (ih _ st1) (fun _ _ h => (h1.trans h).mono (by omega)) (fun _ h => h)

theorem zipReadLens_tri (hS : SrcOK S rem) (st : St σ) (B : Nat) (hB : bitsLeft rem st ≤ B) :
    Tri (zipReadLens S) st (fun _ st' => Used rem st 0 st') (AtMost rem B) := by
  unfold zipReadLens
  refine tri_bind (tri_noinf (readBits_tri hS 5 (by omega) st)) (fun v1 st1 h1 => ?_)
  refine tri_bind (tri_noinf (readBits_tri hS 5 (by omega) st1)) (fun v2 st2 h2 => ?_)
  refine tri_bind (tri_noinf (readBits_tri hS 4 (by omega) st2)) (fun v3 st3 h3 => ?_)
  have h03 : Used rem st 0 st3 := ((h1.trans h2).trans h3).mono (by omega)
  have hB3 : bitsLeft rem st3 ≤ B := by unfold Used at h03; omega
  dsimp only []
  refine tri_guard hB3 (tri_guard hB3 ?_)
  refine tri_bind (tri_noinf (zipReadLens_rd_tri hS _ _ _ st3)) (fun pairs st4 h4 => ?_)
  have h04 := h03.trans h4
  have hB4 : bitsLeft rem st4 ≤ B := by unfold Used at h04; omega
  split
  · exact tri_throw_inf hB4
  · next c hc =>
    refine tri_bind (readLensLoop_tri hS c _ _ [] 0 st4 B hB4 (by simp)) (fun lens st5 h5 => tri_modify ?_)
    exact (h04.trans h5)


theorem readBits_tri0 (hS : SrcOK S rem) (n : Nat) (st : St σ) :
    Tri (readBits S n) st (fun _ st' => Used rem st 0 st') (fun _ => False) := by
  unfold readBits removeBits
  refine tri_bind (ensureBits_tri hS n 3 st) (fun _ st1 h1 => tri_get_bind (tri_modify_bind (tri_pure ?_)))
  exact Used.drop n h1.1

theorem Used.kept {st st1 st2 : St σ} {a b : Nat} (h1 : Used rem st a st1) (h2 : Kept rem st1 b st2) :
    Kept rem st (a + b) st2 := by
  unfold Used Kept at *; omega
theorem Kept.trans {st st1 st2 : St σ} {a b : Nat} (h1 : Kept rem st a st1) (h2 : Kept rem st1 b st2) :
    Kept rem st (a + b) st2 := by
  unfold Kept at *; omega
theorem Kept.mono {st st1 : St σ} {a b : Nat} (h1 : Kept rem st a st1) (h : b ≤ a) :
    Kept rem st b st1 := by
  unfold Kept at *; omega
theorem Used.le {st st1 : St σ} {a B : Nat} (h1 : Used rem st a st1) (hB : bitsLeft rem st ≤ B) :
    bitsLeft rem st1 ≤ B := by
  unfold Used at *; omega
theorem Kept.le {st st1 : St σ} {a B : Nat} (h1 : Kept rem st a st1) (hB : bitsLeft rem st ≤ B) :
    bitsLeft rem st1 ≤ B := by
  unfold Kept at *; omega

theorem huffBlock_tri (hS : SrcOK S rem) (lit dist : Huff.Canon) : ∀ (fuel : Nat) (st : St σ) (B : Nat),
    bitsLeft rem st ≤ B → st.windowPosn < zipFRAME_SIZE → bitsLeft rem st + 1 ≤ fuel →
    Tri (huffBlock S lit dist fuel) st (fun _ st' => Kept rem st 0 st') (AtMost rem B) := by
  intro fuel
  induction fuel with
  | zero => intro st B hB hw hf; omega
  | succ fuel ih =>
    intro st B hB hw hf
    rw [huffBlock]
    refine tri_bind (readHuffSym_tri hS lit st B hB) (fun code st1 h1 => ?_)
    have hB1 := h1.le hB
    have hw1 : st1.windowPosn < zipFRAME_SIZE := h1.2 ▸ hw
    have hf1 : bitsLeft rem st1 + 1 ≤ fuel := by unfold Used at h1; omega
    split
    · refine tri_bind (putByte_tri _ st1 B hB1 hw1) (fun _ st2 h2 => ?_)
      refine tri_weaken (ih st2 B (h2.le hB1) h2.2 (by unfold Kept at h2; omega))
        (fun _ _ h => ((h1.kept h2).trans h).mono (by omega)) (fun _ h => h)
    · split
      · exact tri_pure ⟨by unfold Used at h1; omega, hw1⟩
      · dsimp only []
        generalize code - 257 = c
        split
        · exact tri_throw_inf_bind hB1
        refine tri_bind (tri_noinf (readBits_tri0 hS _ st1)) (fun v st2 h2 => ?_)
        have hB2 := h2.le hB1
        refine tri_bind (readHuffSym_tri hS dist st2 B hB2) (fun dc st3 h3 => ?_)
        have hB3 := h3.le hB2
        split
        · exact tri_throw_inf_bind hB3
        refine tri_bind (tri_noinf (readBits_tri0 hS _ st3)) (fun v' st4 h4 => ?_)
        have hB4 := h4.le hB3
        have h14 := (h2.trans h3).trans h4
        have hw4 : st4.windowPosn < zipFRAME_SIZE := h14.2 ▸ hw1
        refine tri_get_bind ?_
        refine tri_bind (copyMatch_tri _ _ st4 B hB4 hw4) (fun _ st5 h5 => ?_)
        have h15 := h14.kept h5
        refine tri_weaken (ih st5 B (h5.le hB4) h5.2 (by unfold Kept at h15; omega))
          (fun _ _ h => ((h1.kept h15).trans h).mono (by omega)) (fun _ h => h)


/-! ### `inflate` -/

theorem inflate_more_tri (hS : SrcOK S rem) : ∀ (k : Nat) (acc : List UInt8) (st : St σ),
    Tri (inflate.more S k acc) st (fun _ st' => Used rem st 0 st') (fun _ => False) := by
  intro k
  induction k with
  | zero => intro acc st; rw [inflate.more]; exact tri_pure (Used.refl st)
  | succ k ih =>
    intro acc st
    rw [inflate.more]
    refine tri_bind (nextByte_tri hS st) (fun b st1 h1 => ?_)
    exact tri_weaken (ih _ st1) (fun _ _ h => (h1.1.trans h).mono (by omega)) (fun _ h => h)

theorem inflate_tri (hS : SrcOK S rem) : ∀ (fuel : Nat) (st : St σ) (B : Nat),
    bitsLeft rem st ≤ B → st.windowPosn < zipFRAME_SIZE → bitsLeft rem st + 1 ≤ fuel →
    Tri (inflate S fuel) st (fun _ st' => bitsLeft rem st' ≤ bitsLeft rem st) (AtMost rem B) := by
  intro fuel
  induction fuel with
  | zero => intro st B hB hw hf; omega
  | succ fuel ih =>
    intro st B hB hw hf
    rw [inflate]
    refine tri_bind (tri_noinf (readBits_tri hS 1 (by omega) st)) (fun lastBlock st1 h1 => ?_)
    refine tri_bind (tri_noinf (readBits_tri hS 2 (by omega) st1)) (fun blockType st2 h2 => ?_)
    have h02 := h1.trans h2
    have hB2 := h02.le hB
    have hw2 : st2.windowPosn < zipFRAME_SIZE := h02.2 ▸ hw
    have hf2 : bitsLeft rem st2 + 1 ≤ fuel := by unfold Used at h02; omega
    extract_lets +onlyGivenNames k
    have hk : ∀ r (st3 : St σ), bitsLeft rem st3 ≤ bitsLeft rem st2 →
        st3.windowPosn < zipFRAME_SIZE →
        Tri (k r) st3 (fun _ st' => bitsLeft rem st' ≤ bitsLeft rem st) (AtMost rem B) := by
      intro r st3 h3 hw3
      dsimp only [k]
      have hle : bitsLeft rem st3 ≤ bitsLeft rem st := by unfold Used at h02; omega
      split
      · exact tri_weaken (ih st3 B (Nat.le_trans hle hB) hw3 (by omega))
          (fun _ _ h => Nat.le_trans h hle) (fun _ h => h)
      · refine tri_get_bind ?_
        split
        · exact tri_weaken (flushWindow_tri _ st3 B (Nat.le_trans hle hB))
            (fun _ _ h => by unfold Used at h; omega) (fun _ h => h)
        · exact tri_pure hle
    clear_value k
    split
    · -- stored block
      refine tri_modify_bind ?_
      have h2a := Used.drop (st2.bits.length % 8) (Used.refl (rem := rem) st2)
      generalize ({ st2 with bits := List.drop (st2.bits.length % 8) st2.bits } : St σ) = st2a at h2a ⊢
      refine tri_get_bind ?_
      dsimp only []
      split
      · exact tri_throw_inf_bind (h2a.le hB2)
      refine tri_set_bind ?_
      have h2b : Used rem st2a 0 { st2a with bits := [] } := by
        unfold Used bitsLeft; simp
      generalize ({ st2a with bits := [] } : St σ) = st2b at h2b ⊢
      refine tri_bind (tri_noinf (inflate_more_tri hS _ _ st2b)) (fun lb st3 h3 => ?_)
      have h23 := (h2a.trans h2b).trans h3
      generalize (lb.getD 0 0).toNat + (lb.getD 1 0).toNat * 256 = length
      generalize 65535 - ((lb.getD 2 0).toNat + (lb.getD 3 0).toNat * 256) = cc
      split
      · exact tri_throw_inf_bind (h23.le hB2)
      refine tri_bind (copyStored_tri hS _ _ st3 B (h23.le hB2) (h23.2 ▸ hw2) (by omega)) (fun r st4 h4 => ?_)
      have h24 := h23.kept h4
      exact hk r st4 (by unfold Kept at h24; omega) h24.2
    · split
      · -- Huffman block
        extract_lets +onlyGivenNames k3
        have hk3 : ∀ r (st3 : St σ), Used rem st2 0 st3 →
            Tri (k3 r) st3 (fun _ st' => bitsLeft rem st' ≤ bitsLeft rem st) (AtMost rem B) := by
          intro r st3 h3
          dsimp only [k3]
          have hB3 := h3.le hB2
          refine tri_get_bind ?_
          split
          · exact tri_throw_inf_bind hB3
          · split
            · exact tri_throw_inf_bind hB3
            · refine tri_bind (huffBlock_tri hS _ _ fuel st3 B hB3 (h3.2 ▸ hw2)
                (by unfold Used at h3; omega)) (fun r st4 h4 => ?_)
              have h24 := h3.kept h4
              exact hk r st4 (by unfold Kept at h24; omega) h24.2
        clear_value k3
        split
        · exact tri_modify_bind (hk3 _ _ (Used.refl st2))
        · exact tri_bind (zipReadLens_tri hS st2 B hB2) (fun r st3 h3 => hk3 r st3 h3)
      · exact tri_throw_inf_bind hB2


/-- what `runInflate` returns: never `hang`; unless `read_input` failed (`sys`), no more bits are
    obtainable afterwards than before -/
theorem runInflate_spec (hS : SrcOK S rem) (fuel : Nat) (st : St σ)
    (hw : st.windowPosn < zipFRAME_SIZE) (hf : bitsLeft rem st + 1 ≤ fuel) :
    match runInflate S fuel st with
    | .error f => f ≠ .hang
    | .ok (.sys _, _) => True
    | .ok (_, st') => bitsLeft rem st' ≤ bitsLeft rem st := by
  have h := inflate_tri hS fuel st (bitsLeft rem st) (Nat.le_refl _) hw hf
  unfold Tri at h
  unfold runInflate
  generalize (inflate S fuel).run.run st = p at h ⊢
  obtain ⟨r, st'⟩ := p
  cases r with
  | ok a => exact h
  | error e => cases e <;> exact h

/-- (a) `inflate` never runs out of fuel: source with a "bytes remaining" function, window position
    inside the frame, fuel above the number of bits still obtainable -/
theorem C04_zip_inflate_no_hang (hS : SrcOK S rem) (fuel : Nat) (st : St σ)
    (hw : st.windowPosn < zipFRAME_SIZE) (hf : bitsLeft rem st + 1 ≤ fuel) :
    runInflate S fuel st ≠ .error .hang := by
  have h := runInflate_spec hS fuel st hw hf
  intro he
  rw [he] at h
  exact h rfl

/-- the file-backed source: bytes remaining = file length − position -/
def rdRem (r : Rd) : Nat := r.file.length - r.pos

theorem rdSrc_ok : SrcOK Rd.src rdRem := by
  constructor
  · intro s n c s' h
    simp only [Rd.src, Rd.read, Except.ok.injEq, Prod.mk.injEq, Option.some.injEq] at h
    obtain ⟨rfl, rfl⟩ := h
    simp only [rdRem, List.length_take, List.length_drop]
    omega
  · intro s n h
    simp [Rd.src] at h

/-- (a) for the file-backed source -/
theorem C04_zip_inflate_no_hang_rd (fuel : Nat) (st : St Rd)
    (hw : st.windowPosn < zipFRAME_SIZE)
    (hf : st.bits.length + 8 * st.inbuf.length + 8 * (st.src.file.length - st.src.pos)
            + (if st.inputEnd then 0 else 16) + 1 ≤ fuel) :
    runInflate Rd.src fuel st ≠ .error .hang :=
  C04_zip_inflate_no_hang rdSrc_ok fuel st hw hf


/-! ### the block loops: `mszipd_decompress` (CAB) and `mszipd_decompress_kwaj` -/

theorem scanCK_tri (hS : SrcOK S rem) : ∀ (fuel state : Nat) (st : St σ),
    bitsLeft rem st + 1 ≤ fuel →
    Tri (scanCK S fuel state) st (fun _ st' => Used rem st 8 st') (fun _ => False) := by
  intro fuel
  induction fuel with
  | zero => intro state st hf; omega
  | succ fuel ih =>
    intro state st hf
    rw [scanCK]
    refine tri_bind (readBits_tri hS 8 (by omega) st) (fun i st1 h1 => ?_)
    extract_lets +onlyGivenNames state'
    clear_value state'
    split
    · exact tri_pure h1
    · exact tri_weaken (ih _ st1 (by unfold Used at h1; omega)) (fun _ _ h => (h1.trans h).mono (by omega))
        (fun _ h => h)

theorem Tri.no_hang {α : Type} {x : ZM σ α} {st : St σ} {Q : α → St σ → Prop} {E : St σ → Prop}
    (h : Tri x st Q E) (st' : St σ) : x.run.run st ≠ (.error (.fault .hang), st') := by
  intro he
  unfold Tri at h
  rw [he] at h
  exact h rfl

/-- (b) the `CK` scan never runs out of fuel -/
theorem C04_zip_scanCK_no_hang (hS : SrcOK S rem) (fuel state : Nat) (st : St σ)
    (hf : bitsLeft rem st + 1 ≤ fuel) (st' : St σ) :
    (scanCK S fuel state).run.run st ≠ (.error (.fault .hang), st') :=
  (scanCK_tri hS fuel state st hf).no_hang st'

theorem decompressLoop_no_hang (hS : SrcOK S rem) (fuel : Nat) : ∀ (n : Nat) (st : St σ) (outBytes : Nat)
    (w : Bytes), bitsLeft rem st + 1 ≤ fuel → bitsLeft rem st + 1 ≤ n →
    decompressLoop S fuel n st outBytes w ≠ .error .hang := by
  intro n
  induction n with
  | zero => intro st outBytes w hf hn; omega
  | succ n ih =>
    intro st outBytes w hf hn
    rw [decompressLoop]
    split
    · simp
    · extract_lets +onlyGivenNames st0
      have h0 : Used rem st 0 st0 := Used.drop (st.bits.length % 8) (Used.refl (rem := rem) st)
      clear_value st0
      have hs := scanCK_tri hS fuel 0 st0 (by unfold Used at h0; omega)
      unfold Tri at hs
      split
      · next f _ heq => rw [heq] at hs; intro h; cases h; exact hs rfl
      · simp
      · simp
      · next st1 heq =>
        rw [heq] at hs
        have h01 := h0.trans hs
        extract_lets +onlyGivenNames st1'
        have h1' : bitsLeft rem st1' = bitsLeft rem st1 := rfl
        have hw1 : st1'.windowPosn < zipFRAME_SIZE := zipFRAME_SIZE_pos
        clear_value st1'
        have hr := runInflate_spec hS fuel st1' hw1 (by unfold Used at h01; omega)
        split
        · next f heq => rw [heq] at hr; intro h; cases h; exact hr rfl
        · next res st2 heq =>
          rw [heq] at hr
          extract_lets +onlyGivenNames failed
          split
          · simp
          · extract_lets +onlyGivenNames bo win stF
            have hF : bitsLeft rem stF = bitsLeft rem st2 := by
              dsimp only [stF]; split <;> rfl
            clear_value stF
            dsimp only []
            cases res with
            | sys e => dsimp only []; split <;> simp
            | ok =>
              dsimp only [] at hr ⊢
              have hle : bitsLeft rem stF + 8 ≤ bitsLeft rem st := by unfold Used at h01; omega
              exact ih _ _ _ (Nat.le_trans (Nat.add_le_add_right (Nat.le_of_add_right_le hle) 1) hf)
                (by show bitsLeft rem stF + 1 ≤ n; omega)
            | inf =>
              dsimp only [] at hr ⊢
              have hle : bitsLeft rem stF + 8 ≤ bitsLeft rem st := by unfold Used at h01; omega
              exact ih _ _ _ (Nat.le_trans (Nat.add_le_add_right (Nat.le_of_add_right_le hle) 1) hf)
                (by show bitsLeft rem stF + 1 ≤ n; omega)

/-- (b) the block loop of `mszipd_decompress`: `fuel` for the inner loops and `n` block rounds, both
    above the number of bits still obtainable -/
theorem C04_zip_decompressLoop_no_hang (hS : SrcOK S rem) (fuel n : Nat) (st : St σ) (outBytes : Nat)
    (w : Bytes) (hf : bitsLeft rem st + 1 ≤ fuel) (hn : bitsLeft rem st + 1 ≤ n) :
    decompressLoop S fuel n st outBytes w ≠ .error .hang :=
  decompressLoop_no_hang hS fuel n st outBytes w hf hn

/-- (b) `mszipd_decompress`: `decompressLoop fuel fuel` never runs out of fuel (each block consumes
    at least the 8 bits of one `CK` scan step, whatever `out_bytes` and the repair mode are) -/
theorem C04_zip_decompress_no_hang (hS : SrcOK S rem) (fuel : Nat) (st : St σ) (outBytes : Nat)
    (hf : bitsLeft rem st + 1 ≤ fuel) : decompress S fuel st outBytes ≠ .error .hang := by
  unfold decompress
  split
  · simp
  · dsimp only []
    split
    · simp
    · exact decompressLoop_no_hang hS fuel fuel _ _ _ hf hf


theorem kwajBlockHead_tri (hS : SrcOK S rem) (st : St σ) :
    Tri (kwajBlockHead S) st
      (fun b st' => bitsLeft rem st' + 16 ≤ bitsLeft rem st ∧ (b = true → st'.windowPosn = 0))
      (fun _ => False) := by
  unfold kwajBlockHead
  refine tri_modify_bind ?_
  have h0 := Used.drop (st.bits.length % 8) (Used.refl (rem := rem) st)
  generalize ({ st with bits := List.drop (st.bits.length % 8) st.bits } : St σ) = st0 at h0 ⊢
  refine tri_bind (readBits_tri hS 8 (by omega) st0) (fun lo st1 h1 => ?_)
  refine tri_bind (readBits_tri hS 8 (by omega) st1) (fun hi st2 h2 => ?_)
  have h02 := (h0.trans h1).trans h2
  dsimp only []
  split
  · exact tri_pure ⟨by unfold Used at h02; omega, fun h => by cases h⟩
  · refine tri_bind (readBits_tri0 hS 8 st2) (fun c st3 h3 => ?_)
    split
    · exact tri_throw_sys_bind
    refine tri_bind (readBits_tri0 hS 8 st3) (fun k st4 h4 => ?_)
    split
    · exact tri_throw_sys_bind
    refine tri_modify_bind (tri_pure ⟨?_, fun _ => rfl⟩)
    have h04 := (h02.trans h3).trans h4
    have : bitsLeft rem st4 + 16 ≤ bitsLeft rem st := by unfold Used at h04; omega
    exact this

theorem kwajLoop_no_hang (hS : SrcOK S rem) (fuel : Nat) : ∀ (n : Nat) (st : St σ) (w : Array UInt8),
    bitsLeft rem st + 1 ≤ fuel → bitsLeft rem st + 1 ≤ n →
    kwajLoop S fuel n st w ≠ .error .hang := by
  intro n
  induction n with
  | zero => intro st w hf hn; omega
  | succ n ih =>
    intro st w hf hn
    rw [kwajLoop]
    have hh := kwajBlockHead_tri hS st
    unfold Tri at hh
    split
    · next f _ heq => rw [heq] at hh; intro h; cases h; exact hh rfl
    · simp
    · simp
    · simp
    · next st1 heq =>
      rw [heq] at hh
      dsimp only [] at hh
      have hw1 : st1.windowPosn < zipFRAME_SIZE := by rw [hh.2 rfl]; exact zipFRAME_SIZE_pos
      have hr := runInflate_spec hS fuel st1 hw1 (by omega)
      split
      · next f heq => rw [heq] at hr; intro h; cases h; exact hr rfl
      · simp
      · simp
      · next st2 heq =>
        rw [heq] at hr
        dsimp only [] at hr
        split
        · simp
        · exact ih _ _ (by omega) (by omega)

/-- (b) the block loop of `mszipd_decompress_kwaj` -/
theorem C04_zip_kwajLoop_no_hang (hS : SrcOK S rem) (fuel n : Nat) (st : St σ) (w : Array UInt8)
    (hf : bitsLeft rem st + 1 ≤ fuel) (hn : bitsLeft rem st + 1 ≤ n) :
    kwajLoop S fuel n st w ≠ .error .hang :=
  kwajLoop_no_hang hS fuel n st w hf hn

/-- (b) `mszipd_decompress_kwaj`: `kwajLoop fuel fuel` never runs out of fuel (each block consumes
    at least the 16 bits of its length field) -/
theorem C04_zip_decompressKwaj_no_hang (hS : SrcOK S rem) (fuel : Nat) (st : St σ)
    (hf : bitsLeft rem st + 1 ≤ fuel) : decompressKwaj S fuel st ≠ .error .hang :=
  kwajLoop_no_hang hS fuel fuel st #[] hf hf


/-! ### the states the callers start from, and the driver's fuel -/

/-- `mszipd_init` leaves nothing buffered, the window position at 0, and the source untouched -/
theorem init_fields {src : σ} {sz : Nat} {repair : Bool} {fill : UInt8} {z : St σ}
    (h : init src sz repair fill = some z) :
    z.bits = [] ∧ z.inbuf = [] ∧ z.src = src ∧ z.inputEnd = false ∧ z.windowPosn = 0 := by
  unfold init at h
  dsimp only [] at h
  split at h
  · cases h
  · cases h; exact ⟨rfl, rfl, rfl, rfl, rfl⟩

theorem init_bitsLeft {src : σ} {sz : Nat} {repair : Bool} {fill : UInt8} {z : St σ}
    (h : init src sz repair fill = some z) : bitsLeft rem z = 8 * rem src + 16 := by
  obtain ⟨h1, h2, h3, h4, _⟩ := init_fields h
  unfold bitsLeft
  rw [h1, h2, h3, h4]
  simp

/-- (b) KWAJ method 4 as the extractor runs it (`Kwaj.extract`: `Zip.init r kwajINPUT_SIZE false
    fill`, then `Zip.decompressKwaj Rd.src fuel z`), with the fuel the driver passes
    (`Driver.Kwaj.fuelFor r.file.length = 16 * r.file.length + 100000`): never `hang` -/
theorem C04_zip_decompressKwaj_driver_no_hang (r : Rd) (fill : UInt8) (z : St Rd)
    (h : init r kwajINPUT_SIZE false fill = some z) :
    decompressKwaj Rd.src (MsPack.Driver.Kwaj.fuelFor r.file.length) z ≠ .error .hang := by
  apply C04_zip_decompressKwaj_no_hang rdSrc_ok
  rw [init_bitsLeft (rem := rdRem) h]
  unfold MsPack.Driver.Kwaj.fuelFor rdRem
  omega

/-- the same with the fuel written out -/
theorem C04_zip_decompressKwaj_driver_no_hang' (r : Rd) (fill : UInt8) (z : St Rd)
    (h : init r kwajINPUT_SIZE false fill = some z) :
    decompressKwaj Rd.src (16 * r.file.length + 100000) z ≠ .error .hang :=
  C04_zip_decompressKwaj_driver_no_hang r fill z h

/-! ### non-vacuity -/

/-- the source assumption is satisfiable: the file-backed source has it -/
example : ∃ rem : Rd → Nat, SrcOK Rd.src rem := ⟨rdRem, rdSrc_ok⟩

/-- the state `mszipd_init` produces satisfies the hypotheses of (a) for a concrete fuel -/
example (r : Rd) (fill : UInt8) (z : St Rd) (h : init r kwajINPUT_SIZE false fill = some z) :
    z.windowPosn < zipFRAME_SIZE ∧ bitsLeft rdRem z + 1 ≤ 16 * r.file.length + 100000 := by
  refine ⟨by rw [(init_fields h).2.2.2.2]; exact zipFRAME_SIZE_pos, ?_⟩
  rw [init_bitsLeft (rem := rdRem) h]; unfold rdRem; omega

/-- (b) CAB MSZIP on the file-backed source from the initial state, any `out_bytes`, either
    repair mode: the hypotheses of `C04_zip_decompress_no_hang` are met with the drivers' style of fuel -/
example (r : Rd) (sz : Nat) (repair : Bool) (fill : UInt8) (z : St Rd) (outBytes : Nat)
    (h : init r sz repair fill = some z) :
    decompress Rd.src (16 * r.file.length + 100000) z outBytes ≠ .error .hang := by
  apply C04_zip_decompress_no_hang rdSrc_ok
  rw [init_bitsLeft (rem := rdRem) h]; unfold rdRem; omega

/-- `mszipd_init` does produce a state for the KWAJ buffer size -/
example (r : Rd) (fill : UInt8) : ∃ z, init r kwajINPUT_SIZE false fill = some z := by
  unfold init
  exact ⟨_, if_neg (by decide)⟩

end MsPack.Zip

/-! ### the CAB caller: the cabinet-set feeder as a source -/

namespace MsPack.Cab
open MsPack MsPack.Generated

/-- bytes left in an open cabinet file -/
def rdLeft : Option Rd → Nat
  | some r => r.file.length - r.pos
  | none => 0

/-- bytes of the later cabinets of the set, from their data offsets -/
def restLeft (files : Files) : List Part → Nat
  | [] => 0
  | p :: ps => (((files.lookup p.fname).getD []).length - p.offset) + restLeft files ps

def chainLeft (files : Files) (rd : Option Rd) (parts : List Part) : Nat :=
  rdLeft rd + restLeft files parts.tail

theorem readExact_left {r r' : Rd} {n : Nat} {c : Bytes} (h : r.readExact n = some (c, r')) :
    c.length = n ∧ (r'.file.length - r'.pos) + n ≤ r.file.length - r.pos := by
  unfold Rd.readExact Rd.read at h
  dsimp only [] at h
  split at h
  · next hl =>
    simp only [Option.some.injEq, Prod.mk.injEq] at h
    obtain ⟨rfl, rfl⟩ := h
    refine ⟨hl, ?_⟩
    simp only [List.length_take, List.length_drop] at hl ⊢
    omega
  · cases h

def BlockPost (files : Files) (rd : Option Rd) (parts : List Part) (acc : Bytes) : BlockResult → Prop
  | .ok payload _ rd' parts' => payload.length + 8 + chainLeft files rd' parts' ≤ acc.length + chainLeft files rd parts
  | .err _ rd' parts' => chainLeft files rd' parts' ≤ chainLeft files rd parts
  | .fault _ => True

theorem readBlock_left (files : Files) (ic ib : Bool) : ∀ (fuel : Nat) (rd : Option Rd) (parts : List Part)
    (acc : Bytes), BlockPost files rd parts acc (readBlock files ic ib fuel rd parts acc) := by
  intro fuel
  induction fuel with
  | zero => intro rd parts acc; unfold readBlock; exact Nat.le_refl _
  | succ fuel ih =>
    intro rd parts acc
    unfold readBlock
    split
    · trivial
    · trivial
    · next r part more =>
      split
      · exact Nat.le_refl _
      · next hdr r1 h8 =>
        have ⟨_, h1⟩ := readExact_left h8
        extract_lets +onlyGivenNames r2 len fullLen
        have h2 : r2.file.length - r2.pos ≤ r1.file.length - r1.pos := by
          dsimp only [r2]; split
          · simp only [Rd.seekCur]; omega
          · exact Nat.le_refl _
        clear_value r2 len fullLen
        have hr2 : chainLeft files (some r2) (part :: more) ≤ chainLeft files (some r) (part :: more) := by
          simp only [chainLeft, rdLeft, List.tail_cons]; omega
        split
        · exact hr2
        split
        · exact hr2
        split
        · trivial
        split
        · show chainLeft files (some (r2.read len).2) (part :: more) ≤ _
          refine Nat.le_trans ?_ hr2
          simp only [chainLeft, rdLeft, List.tail_cons, Rd.read, List.length_take, List.length_drop]
          omega
        · next payload r3 hp =>
          have ⟨hpl, h3⟩ := readExact_left hp
          have hr3 : chainLeft files (some r3) (part :: more) + 8 + payload.length
              ≤ chainLeft files (some r) (part :: more) := by
            simp only [chainLeft, rdLeft, List.tail_cons]; omega
          extract_lets +onlyGivenNames ck
          clear_value ck
          split
          · exact Nat.le_trans (by omega) hr3
          · extract_lets +onlyGivenNames acc' out
            have hacc : acc'.length = acc.length + payload.length := by simp [acc']
            clear_value acc' out
            split
            · show acc'.length + 8 + chainLeft files (some r3) (part :: more) ≤ acc.length + _
              omega
            · split
              · show chainLeft files none [] ≤ _
                simp [chainLeft, rdLeft, restLeft]
              · next nxt tl =>
                split
                · show chainLeft files none (nxt :: tl) ≤ _
                  simp only [chainLeft, rdLeft, List.tail_cons, restLeft]; omega
                · next bytes hb =>
                  have := ih (some ⟨bytes, nxt.offset⟩) (nxt :: tl) acc'
                  have hnew : chainLeft files (some ⟨bytes, nxt.offset⟩) (nxt :: tl) + 8 + payload.length
                      ≤ chainLeft files (some r) (part :: nxt :: tl) := by
                    simp only [chainLeft, rdLeft, List.tail_cons, restLeft, hb, Option.getD_some] at hr3 ⊢
                    omega
                  revert this
                  generalize readBlock files ic ib fuel (some ⟨bytes, nxt.offset⟩) (nxt :: tl) acc' = res
                  intro this
                  cases res with
                  | fault f => trivial
                  | err e rd' parts' => exact Nat.le_trans this (by omega)
                  | ok p o rd' parts' =>
                    show p.length + 8 + chainLeft files rd' parts' ≤ acc.length + _
                    have : p.length + 8 + chainLeft files rd' parts' ≤ acc'.length + _ := this
                    omega

def feederLeft (files : Files) (fd : Feeder) : Nat := fd.buf.length + chainLeft files fd.rd fd.parts


theorem feederRead_left (files : Files) : ∀ (fuel : Nat) (fd : Feeder) (todo : Nat) (got c : Bytes)
    (fd' : Feeder), feederRead files fuel fd todo got = .ok (some c, fd') →
    c.length + feederLeft files fd' ≤ got.length + feederLeft files fd := by
  intro fuel
  induction fuel with
  | zero => intro fd todo got c fd' h; unfold feederRead at h; cases h
  | succ fuel ih =>
    intro fd todo got c fd' h
    unfold feederRead at h
    split at h
    · simp only [Except.ok.injEq, Prod.mk.injEq, Option.some.injEq] at h
      obtain ⟨rfl, rfl⟩ := h
      exact Nat.le_refl _
    · split at h
      · have := ih _ _ _ _ _ h
        simp only [feederLeft, List.length_append, List.length_take, List.length_drop] at this ⊢
        omega
      · next hb =>
        simp only [ne_eq, Decidable.not_not] at hb
        dsimp only [] at h
        split at h
        · simp only [Except.ok.injEq, Prod.mk.injEq, Option.some.injEq] at h
          obtain ⟨rfl, rfl⟩ := h
          split <;> exact Nat.le_refl _
        · have hrb := readBlock_left files (fd.salvage || fd.fixMszip && compMask fd.compType == 1) fd.salvage
            (fd.parts.length + 1) fd.rd fd.parts []
          split at h
          · cases h
          · simp at h
          · next payload out rd' parts' heq =>
            rw [heq] at hrb
            have hrb' : payload.length + 8 + chainLeft files rd' parts' ≤ chainLeft files fd.rd fd.parts := by
              have : payload.length + 8 + chainLeft files rd' parts' ≤ ([] : Bytes).length + _ := hrb
              simpa using this
            have := ih _ _ _ _ _ h
            refine Nat.le_trans this ?_
            have hpl : (if compMask fd.compType = 2 then payload ++ [255] else payload).length
                ≤ payload.length + 1 := by split <;> simp
            generalize (if compMask fd.compType = 2 then payload ++ [255] else payload) = buf' at hpl ⊢
            simp only [feederLeft, hb, List.length_nil]
            split <;> (dsimp only []; omega)

/-- the cabinet-set feeder as a source for the bit-level decoders: every byte it delivers comes
    out of `feederLeft` (buffered block bytes + what is left of the current cabinet file + the later
    cabinets of the set from their data offsets), and no read hangs (`feederRead_terminates`) -/
theorem feederSrc_ok (files : Files) : Zip.SrcOK (feederSrc files) (feederLeft files) where
  shrink := by
    intro s n c s' h
    have := feederRead_left files _ _ _ _ _ _ h
    simpa using this
  nohang := by
    intro s n
    apply feederRead_terminates
    left
    unfold feederMeasure feederFuel
    split <;> omega


/-- (b) CAB MSZIP as `Cab.decompress` runs it (`Zip.decompress (feederSrc files) (decFuel files)
    { st with src := fd } bytes`): never `hang`, provided `decFuel files` is above the bits still
    obtainable from the decoder's buffers and the feeder (`feederLeft`) -/
theorem C04_zip_cab_decompress_no_hang (files : Files) (st : Zip.St Feeder) (fd : Feeder) (bytes : Nat)
    (hf : st.bits.length + 8 * st.inbuf.length + 8 * feederLeft files fd
            + (if st.inputEnd then 0 else 16) + 1 ≤ chainFuel files fd) :
    Zip.decompress (feederSrc files) (chainFuel files fd) { st with src := fd } bytes ≠ .error .hang :=
  Zip.C04_zip_decompress_no_hang (feederSrc_ok files) _ _ _ hf

theorem C04_zip_cab_no_hang (files : Files) (st : Zip.St Feeder) (fd : Feeder) (bytes : Nat)
    (hf : st.bits.length + 8 * st.inbuf.length + 8 * feederLeft files fd
            + (if st.inputEnd then 0 else 16) + 1 ≤ chainFuel files fd) :
    decompress files (.mszip st) fd bytes ≠ .error .hang := by
  have h := C04_zip_cab_decompress_no_hang files st fd bytes hf
  unfold decompress
  dsimp only []
  split
  · next f heq => intro he; cases he; exact h heq
  · simp

/-- non-vacuity: a fresh decoder state on a feeder with nothing left meets the fuel hypothesis -/
example (files : Files) (sz : Nat) (repair : Bool) (fill : UInt8) (st : Zip.St Feeder)
    (h : Zip.init nullFeeder sz repair fill = some st) :
    st.bits.length + 8 * st.inbuf.length + 8 * feederLeft files nullFeeder
      + (if st.inputEnd then 0 else 16) + 1 ≤ chainFuel files nullFeeder := by
  obtain ⟨h1, h2, _, h4, _⟩ := Zip.init_fields h
  rw [h1, h2, h4]
  simp [feederLeft, chainLeft, rdLeft, restLeft, nullFeeder, decFuel, chainFuel]

end MsPack.Cab
