import MsPack.Cab.Set
/-!
# Lemmas about the cabinet heap (`MsPack/Cab/Set.lean`) used by C13 (order independence of joins)
-/
set_option linter.unusedSimpArgs false
set_option linter.unusedVariables false
namespace MsPack.Cab
open MsPack

/-! ## association lists -/

theorem lookup_filter_key {β} (r : Nat) (l : List (Nat × β)) (k : Nat) :
    (l.filter (·.1 ≠ r)).lookup k = if k = r then none else l.lookup k := by
  induction l with
  | nil => simp
  | cons x l ih =>
    obtain ⟨a, b⟩ := x
    simp only [List.filter_cons, List.lookup_cons]
    grind

theorem lookup_cons_filter_ne {β} (c : Nat) (n : β) (l : List (Nat × β)) (k : Nat) :
    ((c, n) :: l.filter (·.1 ≠ c)).lookup k = if k = c then some n else l.lookup k := by
  rw [List.lookup_cons, lookup_filter_key]
  grind

theorem lookup_none_of_not_mem {β} (l : List (Nat × β)) (k : Nat) (h : k ∉ l.map (·.1)) :
    l.lookup k = none := by
  induction l with
  | nil => rfl
  | cons x l ih =>
    obtain ⟨a, b⟩ := x
    simp only [List.map_cons, List.mem_cons, not_or] at h
    have hka' : (k == a) = false := by simpa using h.1
    simp [List.lookup_cons, hka', ih h.2]

theorem mem_keys_of_lookup {β} (l : List (Nat × β)) (k : Nat) (v : β) (h : l.lookup k = some v) :
    k ∈ l.map (·.1) := by
  apply Classical.byContradiction
  intro hn
  rw [lookup_none_of_not_mem l k hn] at h
  cases h

/-- with one entry per key, filtering on values commutes with lookup -/
theorem lookup_filter_val {β} (p : Nat × β → Bool) (l : List (Nat × β)) (hn : (l.map (·.1)).Nodup)
    (k : Nat) :
    (l.filter p).lookup k = (l.lookup k).bind fun v => if p (k, v) then some v else none := by
  induction l with
  | nil => simp
  | cons x l ih =>
    obtain ⟨a, b⟩ := x
    simp only [List.map_cons, List.nodup_cons] at hn
    by_cases hka : k = a
    · subst hka
      by_cases hp : p (k, b)
      · simp [List.filter_cons, hp, List.lookup_cons]
      · have : (l.filter p).lookup k = none := by
          apply lookup_none_of_not_mem
          intro hm
          apply hn.1
          simp only [List.mem_map] at hm ⊢
          obtain ⟨y, hy, rfl⟩ := hm
          exact ⟨y, (List.mem_filter.mp hy).1, rfl⟩
        simp [List.filter_cons, hp, List.lookup_cons, this]
    · have hka' : (k == a) = false := by simpa using hka
      by_cases hp : p (a, b)
      · simp [List.filter_cons, hp, List.lookup_cons, hka', ih hn.2]
      · simp [List.filter_cons, hp, List.lookup_cons, hka', ih hn.2]


/-! ## heap updates -/
namespace Heap

/-- `file->folder` of a file id -/
def folderOf (h : Heap) (fid : FileId) : Option FolderId := (h.file? fid).bind (·.folder)

/-- unsigned `lfol->num_blocks += rfol->num_blocks - 1` -/
def fuseBlocks (a b : Nat) : Nat := (a + b + 2^32 - 1) % 2^32

/-- the folder `cabd_merge` leaves in place of the two halves (`lfol` after the fold) -/
def fuseNode (fo : FileId → Option FolderId) (lf : FolderNode) (rfid : FolderId) (rf : FolderNode) :
    FolderNode :=
  let keepNext : Bool := match rf.mergeNext with
    | none => true
    | some mf => fo mf ≠ some rfid
  { lf with parts := lf.parts ++ rf.parts,
            numBlocks := fuseBlocks lf.numBlocks rf.numBlocks,
            mergeNext := if keepNext then rf.mergeNext else lf.mergeNext }

theorem fuseBlocks_assoc (a b c : Nat) : fuseBlocks (fuseBlocks a b) c = fuseBlocks a (fuseBlocks b c) := by
  unfold fuseBlocks
  omega

/-- the heap after the two halves have been fused and the files of the right half unlinked,
    before the cabinets are rewired -/
def foldTables (h : Heap) (lfid rfid : FolderId) (lf rf : FolderNode) : Heap :=
  let h1 := h.setFolder lfid (fuseNode h.folderOf lf rfid rf)
  { h1 with folders := h1.folders.filter (·.1 ≠ rfid),
            files := h1.files.filter fun (_, fn) => fn.folder ≠ some rfid }

/-- `mergeApply` (fold case) re-cut into named pieces; same result by unfolding -/
theorem mergeApply_fold (h : Heap) (lc rc : CabId) (ln rn : CabNode) (lfid rfid : FolderId)
    (lf rf : FolderNode) :
    h.mergeApply (.fold lc rc ln rn lfid rfid lf rf) =
      let files := (ln.files ++ rn.files).filter fun fid => h.folderOf fid ≠ some rfid
      let folders := ln.folders ++ rn.folders.drop 1
      let h2 := h.foldTables lfid rfid lf rf
      let h3 := h2.setCab lc { ln with next := some rc, files, folders }
      let h4 := h3.setCab rc { rn with prev := some lc, files, folders }
      shareLists h4 lc files folders := rfl

theorem mergeApply_attach (h : Heap) (lc rc : CabId) (ln rn : CabNode) :
    h.mergeApply (.attach lc rc ln rn) =
      let files := ln.files ++ rn.files
      let folders := ln.folders ++ rn.folders
      let h3 := h.setCab lc { ln with next := some rc, files, folders }
      let h4 := h3.setCab rc { rn with prev := some lc, files, folders }
      shareLists h4 lc files folders := rfl

theorem cab?_setCab (h : Heap) (c : CabId) (n : CabNode) (k : CabId) :
    (h.setCab c n).cab? k = if k = c then some n else h.cab? k :=
  lookup_cons_filter_ne c n h.cabs k

theorem folder?_setFolder (h : Heap) (f : FolderId) (n : FolderNode) (k : FolderId) :
    (h.setFolder f n).folder? k = if k = f then some n else h.folder? k :=
  lookup_cons_filter_ne f n h.folders k

@[simp] theorem folders_setCab (h : Heap) (c : CabId) (n : CabNode) : (h.setCab c n).folders = h.folders := rfl
@[simp] theorem files_setCab (h : Heap) (c : CabId) (n : CabNode) : (h.setCab c n).files = h.files := rfl

theorem folder?_foldTables (h : Heap) (lfid rfid : FolderId) (lf rf : FolderNode) (k : FolderId) :
    (h.foldTables lfid rfid lf rf).folder? k =
      if k = rfid then none else if k = lfid then some (fuseNode h.folderOf lf rfid rf)
      else h.folder? k := by
  show List.lookup k (List.filter (·.1 ≠ rfid) (h.setFolder lfid _).folders) = _
  rw [lookup_filter_key]
  split
  · rfl
  · exact folder?_setFolder h lfid _ k

theorem cabs_foldTables (h : Heap) (lfid rfid : FolderId) (lf rf : FolderNode) :
    (h.foldTables lfid rfid lf rf).cabs = h.cabs := rfl

theorem files_foldTables (h : Heap) (lfid rfid : FolderId) (lf rf : FolderNode) :
    (h.foldTables lfid rfid lf rf).files = h.files.filter fun x => x.2.folder ≠ some rfid := rfl

/-- one round of the final loop of `cabd_merge` -/
def shareStep (files : List FileId) (folders : List FolderId) (h : Heap) (c : CabId) : Heap :=
  match h.cab? c with
  | some n => h.setCab c { n with files, folders }
  | none => h

theorem shareLists_eq (h : Heap) (lc : CabId) (files : List FileId) (folders : List FolderId) :
    h.shareLists lc files folders =
      (h.prevChain lc ++ h.nextChain lc).foldl (shareStep files folders) h := rfl

theorem cab?_shareStep (files : List FileId) (folders : List FolderId) (h : Heap) (c k : CabId) :
    (shareStep files folders h c).cab? k =
      if k = c then (h.cab? k).map (fun n => { n with files, folders }) else h.cab? k := by
  unfold shareStep
  split
  · next n hn =>
    rw [cab?_setCab]
    split
    · next hk => subst hk; rw [hn]; rfl
    · rfl
  · next hn =>
    split
    · next hk => subst hk; rw [hn]; rfl
    · rfl

theorem tables_shareStep (files : List FileId) (folders : List FolderId) (h : Heap) (c : CabId) :
    (shareStep files folders h c).folders = h.folders ∧ (shareStep files folders h c).files = h.files := by
  unfold shareStep
  split <;> exact ⟨rfl, rfl⟩

theorem cab?_shareFold (files : List FileId) (folders : List FolderId) (cs : List CabId) (h : Heap)
    (k : CabId) :
    (cs.foldl (shareStep files folders) h).cab? k =
      if k ∈ cs then (h.cab? k).map (fun n => { n with files, folders }) else h.cab? k := by
  induction cs generalizing h with
  | nil => simp
  | cons c cs ih =>
    rw [List.foldl_cons, ih, cab?_shareStep]
    by_cases hk : k = c
    · subst hk
      cases hc : h.cab? k <;> simp
    · simp [hk]

theorem tables_shareFold (files : List FileId) (folders : List FolderId) (cs : List CabId) (h : Heap) :
    (cs.foldl (shareStep files folders) h).folders = h.folders ∧
    (cs.foldl (shareStep files folders) h).files = h.files := by
  induction cs generalizing h with
  | nil => exact ⟨rfl, rfl⟩
  | cons c cs ih =>
    rw [List.foldl_cons]
    have := tables_shareStep files folders h c
    exact ⟨(ih _).1.trans this.1, (ih _).2.trans this.2⟩

/-! ## chains -/

/-- `cs` is the list of cabinets met when following `dir` from `o` until NULL -/
def IsChain (h : Heap) (dir : CabNode → Option CabId) : Option CabId → List CabId → Prop
  | o, [] => o = none
  | o, c :: cs => o = some c ∧ IsChain h dir ((h.cab? c).bind dir) cs

theorem walk_of_chain (h : Heap) (dir : CabNode → Option CabId) (cs : List CabId) :
    ∀ (o : Option CabId) (fuel : Nat), IsChain h dir o cs → cs.length ≤ fuel → walk h dir fuel o = cs := by
  induction cs with
  | nil =>
    intro o fuel hc _
    cases hc
    cases fuel <;> rfl
  | cons c cs ih =>
    intro o fuel hc hf
    obtain ⟨rfl, hc⟩ := hc
    cases fuel with
    | zero => simp at hf
    | succ n =>
      show c :: walk h dir n ((h.cab? c).bind dir) = c :: cs
      rw [ih _ n hc (by simpa using hf)]

theorem IsChain.congr {h h' : Heap} {dir : CabNode → Option CabId} {cs : List CabId} :
    ∀ {o : Option CabId}, (∀ c ∈ cs, h'.cab? c = h.cab? c) → IsChain h dir o cs → IsChain h' dir o cs := by
  induction cs with
  | nil => intro o _ hc; exact hc
  | cons c cs ih =>
    intro o hag hc
    refine ⟨hc.1, ?_⟩
    rw [hag c (by simp)]
    exact ih (fun c' hc' => hag c' (by simp [hc'])) hc.2

end Heap

/-! ## the specification side: parts of a set, groups, expected lists -/

abbrev FNodes := List (FolderId × FolderNode)

/-- one part of a cabinet set as opened: its cabinet id, its cabinet node and its folders (ids and
    contents); its files are `node.files` -/
structure SetPart where
  cab     : CabId
  node    : CabNode
  folders : FNodes

/-- the lists shared by a group of joined parts: folders (with their contents) and file ids -/
structure Grp where
  nodes : FNodes
  files : List FileId

/-- no folder is split at the boundary between a group ending in `lf` and one starting with `rf` -/
def Plain (lf rf : FolderNode) : Prop := lf.mergeNext = none ∧ rf.mergePrev = none

instance (lf rf : FolderNode) : Decidable (Plain lf rf) := by unfold Plain; exact inferInstance

/-- expected lists of two adjacent groups once joined: plain concatenation, or - when a folder is
    split at the boundary - concatenation with the two halves fused (`Heap.fuseNode`: data parts
    appended, block counts added minus one) and the files of the right half dropped -/
def joinGrp (fo : FileId → Option FolderId) (L R : Grp) : Grp :=
  match L.nodes.getLast?, R.nodes.head? with
  | some (lfid, lf), some (rfid, rf) =>
    if Plain lf rf then ⟨L.nodes ++ R.nodes, L.files ++ R.files⟩
    else ⟨L.nodes.dropLast ++ (lfid, Heap.fuseNode fo lf rfid rf) :: R.nodes.tail,
          (L.files ++ R.files).filter fun fid => fo fid ≠ some rfid⟩
  | _, _ => ⟨L.nodes ++ R.nodes, L.files ++ R.files⟩

def SetPart.grp (p : SetPart) : Grp := ⟨p.folders, p.node.files⟩

/-- expected lists of a run of consecutive parts -/
def expected (fo : FileId → Option FolderId) : List SetPart → Grp
  | [] => ⟨[], []⟩
  | p :: ps => joinGrp fo p.grp (expected fo ps)

theorem joinGrp_nil_right (fo : FileId → Option FolderId) (L : Grp) : joinGrp fo L ⟨[], []⟩ = L := by
  unfold joinGrp
  cases L with
  | mk n f =>
    cases h : n.getLast? <;> simp

theorem expected_single (fo : FileId → Option FolderId) (p : SetPart) : expected fo [p] = p.grp :=
  joinGrp_nil_right fo p.grp

theorem joinGrp_snoc_cons (fo : FileId → Option FolderId) (Li : FNodes) (lfid : FolderId) (lf : FolderNode)
    (Lf : List FileId) (rfid : FolderId) (rf : FolderNode) (Rt : FNodes) (Rf : List FileId) :
    joinGrp fo ⟨Li ++ [(lfid, lf)], Lf⟩ ⟨(rfid, rf) :: Rt, Rf⟩ =
      if Plain lf rf then ⟨Li ++ [(lfid, lf)] ++ (rfid, rf) :: Rt, Lf ++ Rf⟩
      else ⟨Li ++ (lfid, Heap.fuseNode fo lf rfid rf) :: Rt, (Lf ++ Rf).filter fun fid => fo fid ≠ some rfid⟩ := by
  simp [joinGrp]

/-- when a folder is split at a boundary both halves say so (what `canMergeFolders` demands first) -/
def SplitOK (L R : Grp) : Prop :=
  ∀ lfid lf rfid rf, L.nodes.getLast? = some (lfid, lf) → R.nodes.head? = some (rfid, rf) →
    ¬ Plain lf rf → lf.mergeNext ≠ none ∧ rf.mergePrev ≠ none

theorem fuseNode_mergePrev (fo : FileId → Option FolderId) (lf : FolderNode) (rfid : FolderId) (rf : FolderNode) :
    (Heap.fuseNode fo lf rfid rf).mergePrev = lf.mergePrev := by
  unfold Heap.fuseNode
  rfl

theorem fuseNode_mergeNext (fo : FileId → Option FolderId) (lf : FolderNode) (rfid : FolderId) (rf : FolderNode) :
    (Heap.fuseNode fo lf rfid rf).mergeNext = rf.mergeNext ∨
    (Heap.fuseNode fo lf rfid rf).mergeNext = lf.mergeNext := by
  unfold Heap.fuseNode
  dsimp only
  repeat' split
  all_goals simp

/-- with the right half's `mergeNext` empty the fused folder's is empty too -/
theorem fuseNode_mergeNext_none (fo : FileId → Option FolderId) (lf : FolderNode) (rfid : FolderId) (rf : FolderNode)
    (h : rf.mergeNext = none) : (Heap.fuseNode fo lf rfid rf).mergeNext = none := by
  unfold Heap.fuseNode
  simp [h]

theorem fuseNode_assoc (fo : FileId → Option FolderId) (a b c : FolderNode) (bid cid : FolderId)
    (hc : ∀ mf, c.mergeNext = some mf → fo mf ≠ some bid) :
    Heap.fuseNode fo (Heap.fuseNode fo a bid b) cid c = Heap.fuseNode fo a bid (Heap.fuseNode fo b cid c) := by
  unfold Heap.fuseNode
  simp only [List.append_assoc, Heap.fuseBlocks_assoc, FolderNode.mk.injEq, true_and]
  cases hcm : c.mergeNext with
    | none => simp
    | some mf =>
      have := hc mf hcm
      by_cases hk : fo mf = some cid
      · simp [hk]
      · simp [hk, this]

theorem filter_self_of {α} (p : α → Bool) (l : List α) (h : ∀ x ∈ l, p x = true) : l.filter p = l :=
  List.filter_eq_self.mpr h

/-- associativity of the expected lists, middle group with one folder -/
theorem joinGrp_assoc_one (fo : FileId → Option FolderId) (Ai : FNodes) (aid : FolderId) (a : FolderNode)
    (Af : List FileId) (bid : FolderId) (b : FolderNode) (Bf : List FileId) (cid : FolderId) (c : FolderNode)
    (Ct : FNodes) (Cf : List FileId)
    (hab : ¬ Plain a b → a.mergeNext ≠ none ∧ b.mergePrev ≠ none)
    (hbc : ¬ Plain b c → b.mergeNext ≠ none ∧ c.mergePrev ≠ none)
    (hc : ∀ mf, c.mergeNext = some mf → fo mf ≠ some bid)
    (hAf : ∀ x ∈ Af, fo x ≠ some cid) (hCf : ∀ x ∈ Cf, fo x ≠ some bid) :
    joinGrp fo (joinGrp fo ⟨Ai ++ [(aid, a)], Af⟩ ⟨[(bid, b)], Bf⟩) ⟨(cid, c) :: Ct, Cf⟩ =
    joinGrp fo ⟨Ai ++ [(aid, a)], Af⟩ (joinGrp fo ⟨[(bid, b)], Bf⟩ ⟨(cid, c) :: Ct, Cf⟩) := by
  have hAf' : Af.filter (fun fid => fo fid ≠ some cid) = Af :=
    filter_self_of _ _ (by simpa using hAf)
  have hCf' : Cf.filter (fun fid => fo fid ≠ some bid) = Cf :=
    filter_self_of _ _ (by simpa using hCf)
  have e1 := joinGrp_snoc_cons fo Ai aid a Af bid b [] Bf
  have e2 := joinGrp_snoc_cons fo [] bid b Bf cid c Ct Cf
  simp only [List.nil_append] at e2
  rw [e1, e2]
  by_cases pab : Plain a b <;> by_cases pbc : Plain b c
  · -- no split at either boundary
    simp only [pab, pbc, if_true]
    have e3 := joinGrp_snoc_cons fo (Ai ++ [(aid, a)]) bid b (Af ++ Bf) cid c Ct Cf
    have e4 := joinGrp_snoc_cons fo Ai aid a Af bid b ((cid, c) :: Ct) (Bf ++ Cf)
    simp only [List.append_assoc, List.cons_append, List.nil_append] at e3 e4 ⊢
    rw [e3, e4]
    simp [pab, pbc]
  · simp only [pab, pbc, if_true, if_false]
    have e3 := joinGrp_snoc_cons fo (Ai ++ [(aid, a)]) bid b (Af ++ Bf) cid c Ct Cf
    have e4 := joinGrp_snoc_cons fo Ai aid a Af bid (Heap.fuseNode fo b cid c) Ct
      ((Bf ++ Cf).filter fun fid => fo fid ≠ some cid)
    have pab' : Plain a (Heap.fuseNode fo b cid c) := ⟨pab.1, by rw [fuseNode_mergePrev]; exact pab.2⟩
    simp only [List.append_assoc, List.cons_append, List.nil_append] at e3 e4 ⊢
    rw [e3, e4]
    simp only [pab', pbc, if_true, if_false, List.filter_append, hAf', List.append_assoc]
  · simp only [pab, pbc, if_true, if_false]
    have e3 := joinGrp_snoc_cons fo Ai aid (Heap.fuseNode fo a bid b)
      ((Af ++ Bf).filter fun fid => fo fid ≠ some bid) cid c Ct Cf
    have e4 := joinGrp_snoc_cons fo Ai aid a Af bid b ((cid, c) :: Ct) (Bf ++ Cf)
    have pl : Plain (Heap.fuseNode fo a bid b) c := ⟨fuseNode_mergeNext_none fo a bid b pbc.1, pbc.2⟩
    simp only [List.append_assoc, List.cons_append, List.nil_append] at e3 e4 ⊢
    rw [e3, e4]
    simp only [pab, pl, if_true, if_false, List.filter_append, hCf', List.append_assoc]
  · simp only [pab, pbc, if_true, if_false]
    have e3 := joinGrp_snoc_cons fo Ai aid (Heap.fuseNode fo a bid b)
      ((Af ++ Bf).filter fun fid => fo fid ≠ some bid) cid c Ct Cf
    have e4 := joinGrp_snoc_cons fo Ai aid a Af bid (Heap.fuseNode fo b cid c) Ct
      ((Bf ++ Cf).filter fun fid => fo fid ≠ some cid)
    have pl : ¬ Plain (Heap.fuseNode fo a bid b) c := fun hp => (hbc pbc).2 hp.2
    have pr : ¬ Plain a (Heap.fuseNode fo b cid c) := fun hp => (hab pab).1 hp.1
    rw [e3, e4]
    simp only [pl, pr, if_false, fuseNode_assoc fo a b c bid cid hc, List.filter_append, List.filter_filter,
      List.append_assoc]
    congr 2
    · apply List.filter_congr; intro x hx; have := hAf x hx; simp [this]
    · congr 1
      · apply List.filter_congr; intro x _; exact Bool.and_comm _ _
      · apply List.filter_congr; intro x hx; have := hCf x hx; simp [this]


/-- associativity of the expected lists, middle group with two or more folders -/
theorem joinGrp_assoc_many (fo : FileId → Option FolderId) (Ai : FNodes) (aid : FolderId) (a : FolderNode)
    (Af : List FileId) (b1id : FolderId) (b1 : FolderNode) (Bi : FNodes) (b2id : FolderId) (b2 : FolderNode)
    (Bf : List FileId) (cid : FolderId) (c : FolderNode) (Ct : FNodes) (Cf : List FileId)
    (hAf : ∀ x ∈ Af, fo x ≠ some cid) (hCf : ∀ x ∈ Cf, fo x ≠ some b1id) :
    joinGrp fo (joinGrp fo ⟨Ai ++ [(aid, a)], Af⟩ ⟨(b1id, b1) :: (Bi ++ [(b2id, b2)]), Bf⟩) ⟨(cid, c) :: Ct, Cf⟩ =
    joinGrp fo ⟨Ai ++ [(aid, a)], Af⟩ (joinGrp fo ⟨(b1id, b1) :: (Bi ++ [(b2id, b2)]), Bf⟩ ⟨(cid, c) :: Ct, Cf⟩) := by
  have hAf' : Af.filter (fun fid => fo fid ≠ some cid) = Af :=
    filter_self_of _ _ (by simpa using hAf)
  have hCf' : Cf.filter (fun fid => fo fid ≠ some b1id) = Cf :=
    filter_self_of _ _ (by simpa using hCf)
  have e1 := joinGrp_snoc_cons fo Ai aid a Af b1id b1 (Bi ++ [(b2id, b2)]) Bf
  have e2 := joinGrp_snoc_cons fo ((b1id, b1) :: Bi) b2id b2 Bf cid c Ct Cf
  simp only [List.cons_append] at e2
  rw [e1, e2]
  by_cases pab : Plain a b1 <;> by_cases pbc : Plain b2 c
  · simp only [pab, pbc, if_true]
    have e3 := joinGrp_snoc_cons fo (Ai ++ [(aid, a)] ++ (b1id, b1) :: Bi) b2id b2 (Af ++ Bf) cid c Ct Cf
    have e4 := joinGrp_snoc_cons fo Ai aid a Af b1id b1 (Bi ++ [(b2id, b2)] ++ (cid, c) :: Ct) (Bf ++ Cf)
    simp only [List.append_assoc, List.cons_append, List.nil_append] at e3 e4 ⊢
    rw [e3, e4]
    simp [pab, pbc]
  · simp only [pab, pbc, if_true, if_false]
    have e3 := joinGrp_snoc_cons fo (Ai ++ [(aid, a)] ++ (b1id, b1) :: Bi) b2id b2 (Af ++ Bf) cid c Ct Cf
    have e4 := joinGrp_snoc_cons fo Ai aid a Af b1id b1 (Bi ++ (b2id, Heap.fuseNode fo b2 cid c) :: Ct)
      ((Bf ++ Cf).filter fun fid => fo fid ≠ some cid)
    simp only [List.append_assoc, List.cons_append, List.nil_append] at e3 e4 ⊢
    rw [e3, e4]
    simp only [pab, pbc, if_true, if_false, List.filter_append, List.append_assoc, hAf']
  · simp only [pab, pbc, if_true, if_false]
    have e3 := joinGrp_snoc_cons fo (Ai ++ (aid, Heap.fuseNode fo a b1id b1) :: Bi) b2id b2
      ((Af ++ Bf).filter fun fid => fo fid ≠ some b1id) cid c Ct Cf
    have e4 := joinGrp_snoc_cons fo Ai aid a Af b1id b1 (Bi ++ [(b2id, b2)] ++ (cid, c) :: Ct) (Bf ++ Cf)
    simp only [List.append_assoc, List.cons_append, List.nil_append] at e3 e4 ⊢
    rw [e3, e4]
    simp only [pab, pbc, if_true, if_false, List.filter_append, List.append_assoc, hCf']
  · simp only [pab, pbc, if_true, if_false]
    have e3 := joinGrp_snoc_cons fo (Ai ++ (aid, Heap.fuseNode fo a b1id b1) :: Bi) b2id b2
      ((Af ++ Bf).filter fun fid => fo fid ≠ some b1id) cid c Ct Cf
    have e4 := joinGrp_snoc_cons fo Ai aid a Af b1id b1 (Bi ++ (b2id, Heap.fuseNode fo b2 cid c) :: Ct)
      ((Bf ++ Cf).filter fun fid => fo fid ≠ some cid)
    simp only [List.append_assoc, List.cons_append, List.nil_append] at e3 e4 ⊢
    rw [e3, e4]
    simp only [pab, pbc, if_false, List.filter_append, List.filter_filter, List.append_assoc]
    congr 2
    · apply List.filter_congr; intro x hx; have := hAf x hx; simp [this]
    · congr 1
      · apply List.filter_congr; intro x _; exact Bool.and_comm _ _
      · apply List.filter_congr; intro x hx; have := hCf x hx; simp [this]

theorem nodes_snoc {l : FNodes} (h : l ≠ []) : ∃ li x, l = li ++ [x] :=
  ⟨l.dropLast, l.getLast h, (List.dropLast_concat_getLast h).symm⟩

/-- `merge_assoc` on the specification side: joining groups (A·B)·C and A·(B·C) gives the same lists -/
theorem joinGrp_assoc (fo : FileId → Option FolderId) (A B C : Grp)
    (hA : A.nodes ≠ []) (hB : B.nodes ≠ []) (hC : C.nodes ≠ [])
    (hab : SplitOK A B) (hbc : SplitOK B C)
    (hc : ∀ cid c bid b, C.nodes.head? = some (cid, c) → B.nodes.head? = some (bid, b) →
            ∀ mf, c.mergeNext = some mf → fo mf ≠ some bid)
    (hAf : ∀ cid c, C.nodes.head? = some (cid, c) → ∀ x ∈ A.files, fo x ≠ some cid)
    (hCf : ∀ bid b, B.nodes.head? = some (bid, b) → ∀ x ∈ C.files, fo x ≠ some bid) :
    joinGrp fo (joinGrp fo A B) C = joinGrp fo A (joinGrp fo B C) := by
  obtain ⟨An, Af⟩ := A
  obtain ⟨Bn, Bf⟩ := B
  obtain ⟨Cn, Cf⟩ := C
  dsimp only at hA hB hC hc hAf hCf
  obtain ⟨Ai, ⟨aid, a⟩, rfl⟩ := nodes_snoc hA
  cases Cn with
  | nil => exact absurd rfl hC
  | cons c0 Ct =>
    obtain ⟨cid, c⟩ := c0
    cases Bn with
    | nil => exact absurd rfl hB
    | cons b0 Bt =>
      obtain ⟨b1id, b1⟩ := b0
      cases Bt with
      | nil =>
        apply joinGrp_assoc_one
        · intro hp
          exact hab aid a b1id b1 (by simp) (by simp) hp
        · intro hp
          exact hbc b1id b1 cid c (by simp) (by simp) hp
        · exact hc cid c b1id b1 (by simp) (by simp)
        · exact hAf cid c (by simp)
        · exact hCf b1id b1 (by simp)
      | cons b' Bt' =>
        obtain ⟨Bi, ⟨b2id, b2⟩, hBt⟩ := nodes_snoc (l := b' :: Bt') (by simp)
        rw [hBt]
        apply joinGrp_assoc_many
        · exact hAf cid c (by simp)
        · exact hCf b1id b1 (by simp)


/-! ## closure properties of groups -/

/-- what the lists of a group owe to the folder ids `ids` of its parts -/
structure GrpOK (fo : FileId → Option FolderId) (ids : List FolderId) (G : Grp) : Prop where
  ne : G.nodes ≠ []
  nodeIds : ∀ x ∈ G.nodes, x.1 ∈ ids
  nodup : (G.nodes.map (·.1)).Nodup
  fileFolder : ∀ fid ∈ G.files, ∀ f, fo fid = some f → f ∈ G.nodes.map (·.1)
  nextOwn : ∀ x ∈ G.nodes, ∀ mf, x.2.mergeNext = some mf → ∀ f, fo mf = some f → f ∈ ids

theorem joinGrp_ok (fo : FileId → Option FolderId) (ids1 ids2 : List FolderId) (L R : Grp)
    (hL : GrpOK fo ids1 L) (hR : GrpOK fo ids2 R) (hd : ∀ a ∈ ids1, ∀ b ∈ ids2, a ≠ b) :
    GrpOK fo (ids1 ++ ids2) (joinGrp fo L R) := by
  obtain ⟨Ln, Lf⟩ := L
  obtain ⟨Rn, Rf⟩ := R
  obtain ⟨Li, ⟨lid, lf⟩, rfl⟩ := nodes_snoc hL.ne
  cases Rn with
  | nil => exact absurd rfl hR.ne
  | cons r0 Rt =>
    obtain ⟨rid, rf⟩ := r0
    rw [joinGrp_snoc_cons]
    have hLi1 : ∀ x ∈ Li, x.1 ∈ ids1 := fun x hx => hL.nodeIds x (by simp [hx])
    have hRt2 : ∀ x ∈ Rt, x.1 ∈ ids2 := fun x hx => hR.nodeIds x (by simp [hx])
    have hlid1 : lid ∈ ids1 := hL.nodeIds (lid, lf) (by simp)
    have hrid2 : rid ∈ ids2 := hR.nodeIds (rid, rf) (by simp)
    have hpl : ((Li ++ [(lid, lf)] ++ (rid, rf) :: Rt).map (·.1)).Nodup := by
      rw [List.map_append, List.nodup_append]
      refine ⟨hL.nodup, hR.nodup, ?_⟩
      intro a ha b hb
      obtain ⟨x, hx, rfl⟩ := List.mem_map.mp ha
      obtain ⟨y, hy, rfl⟩ := List.mem_map.mp hb
      exact hd _ (hL.nodeIds x hx) _ (hR.nodeIds y hy)
    by_cases pl : Plain lf rf
    · simp only [pl, if_true]
      constructor
      · simp
      · intro x hx
        simp only [List.mem_append, List.mem_cons, List.mem_singleton, List.not_mem_nil, or_false] at hx ⊢
        rcases hx with (hx | hx) | hx | hx
        · exact .inl (hLi1 x hx)
        · subst hx; exact .inl hlid1
        · subst hx; exact .inr hrid2
        · exact .inr (hRt2 x hx)
      · exact hpl
      · intro fid hfid f hf
        dsimp only at hfid ⊢
        rw [List.map_append, List.mem_append]
        rcases List.mem_append.mp hfid with h | h
        · exact .inl (hL.fileFolder fid h f hf)
        · exact .inr (hR.fileFolder fid h f hf)
      · intro x hx mf hmf f hf
        dsimp only at hx
        rw [List.mem_append]
        rcases List.mem_append.mp hx with h | h
        · exact .inl (hL.nextOwn x h mf hmf f hf)
        · exact .inr (hR.nextOwn x h mf hmf f hf)
    · simp only [pl, if_false]
      constructor
      · simp
      · intro x hx
        simp only [List.mem_append, List.mem_cons] at hx ⊢
        rcases hx with hx | hx | hx
        · exact .inl (hLi1 x hx)
        · subst hx; exact .inl hlid1
        · exact .inr (hRt2 x hx)
      · refine hpl.sublist ?_
        simp only [List.map_append, List.map_cons, List.map_nil, List.append_assoc, List.cons_append,
          List.nil_append]
        exact (List.Sublist.refl _).append ((List.sublist_cons_self _ _).cons_cons _)
      · intro fid hfid f hf
        dsimp only at hfid ⊢
        obtain ⟨hmem, hne⟩ := List.mem_filter.mp hfid
        have hne' : f ≠ rid := by
          intro e; subst e; simp [hf] at hne
        simp only [List.map_append, List.map_cons, List.mem_append, List.mem_cons]
        rcases List.mem_append.mp hmem with h | h
        · have := hL.fileFolder fid h f hf
          simp only [List.map_append, List.map_cons, List.map_nil, List.mem_append, List.mem_singleton] at this
          rcases this with h | h
          · exact .inl h
          · exact .inr (.inl h)
        · have := hR.fileFolder fid h f hf
          simp only [List.map_cons, List.mem_cons] at this
          rcases this with h | h
          · exact absurd h hne'
          · exact .inr (.inr h)
      · intro x hx mf hmf f hf
        dsimp only at hx
        rw [List.mem_append]
        simp only [List.mem_append, List.mem_cons] at hx
        rcases hx with h | h | h
        · exact .inl (hL.nextOwn x (by simp [h]) mf hmf f hf)
        · subst h
          dsimp only at hmf
          rcases fuseNode_mergeNext fo lf rid rf with e | e
          · exact .inr (hR.nextOwn (rid, rf) (by simp) mf (e ▸ hmf) f hf)
          · exact .inl (hL.nextOwn (lid, lf) (by simp) mf (e ▸ hmf) f hf)
        · exact .inr (hR.nextOwn x (by simp [h]) mf hmf f hf)


/-- folder ids of a run of parts -/
def fids (g : List SetPart) : List FolderId := g.flatMap fun p => p.folders.map (·.1)

theorem fids_append (a b : List SetPart) : fids (a ++ b) = fids a ++ fids b := List.flatMap_append

theorem fids_cons (p : SetPart) (g : List SetPart) : fids (p :: g) = p.folders.map (·.1) ++ fids g :=
  List.flatMap_cons

/-- a part on its own: it has a folder, its files and the `mergeNext` entries of its folders point
    into its own folders -/
structure PartOK (fo : FileId → Option FolderId) (p : SetPart) : Prop where
  ne : p.folders ≠ []
  fileFolder : ∀ fid ∈ p.node.files, ∀ f, fo fid = some f → f ∈ p.folders.map (·.1)
  nextOwn : ∀ x ∈ p.folders, ∀ mf, x.2.mergeNext = some mf → ∀ f, fo mf = some f → f ∈ p.folders.map (·.1)

theorem part_grp_ok (fo : FileId → Option FolderId) (p : SetPart) (hp : PartOK fo p)
    (hn : (p.folders.map (·.1)).Nodup) : GrpOK fo (p.folders.map (·.1)) p.grp :=
  ⟨hp.ne, fun x hx => List.mem_map.mpr ⟨x, hx, rfl⟩, hn, hp.fileFolder, hp.nextOwn⟩

theorem expected_ok (fo : FileId → Option FolderId) (g : List SetPart) (hne : g ≠ [])
    (hp : ∀ p ∈ g, PartOK fo p) (hn : (fids g).Nodup) : GrpOK fo (fids g) (expected fo g) := by
  induction g with
  | nil => exact absurd rfl hne
  | cons p ps ih =>
    rw [fids_cons] at hn ⊢
    obtain ⟨hn1, hn2, hd⟩ := List.nodup_append.mp hn
    have hpo := part_grp_ok fo p (hp p (by simp)) hn1
    cases ps with
    | nil =>
      rw [expected_single]
      simpa [fids] using hpo
    | cons q qs =>
      exact joinGrp_ok fo _ _ _ _ hpo (ih (by simp) (fun x hx => hp x (by simp [hx])) hn2) hd

/-- `expected` of a concatenation is the join of the two `expected`s -/
theorem expected_append (fo : FileId → Option FolderId) (g1 g2 : List SetPart) (h1 : g1 ≠ []) (h2 : g2 ≠ [])
    (hp : ∀ p ∈ g1 ++ g2, PartOK fo p) (hn : (fids (g1 ++ g2)).Nodup)
    (hj : ∀ pre x y post, g1 ++ g2 = pre ++ x ++ y ++ post → x ≠ [] → y ≠ [] →
            SplitOK (expected fo x) (expected fo y)) :
    expected fo (g1 ++ g2) = joinGrp fo (expected fo g1) (expected fo g2) := by
  induction g1 with
  | nil => exact absurd rfl h1
  | cons p g1' ih =>
    cases g1' with
    | nil => rw [expected_single]; rfl
    | cons q qs =>
      have hn' := hn
      rw [List.cons_append, fids_cons, fids_append] at hn'
      obtain ⟨hn1, hn2, hd⟩ := List.nodup_append.mp hn'
      obtain ⟨hn3, hn4, hd2⟩ := List.nodup_append.mp hn2
      have ih' := ih (by simp) (fun x hx => hp x (by simp at hx ⊢; exact .inr hx))
        (by rw [fids_append]; exact hn2)
        (fun pre x y post e hx hy => hj (p :: pre) x y post (by simp [e]) hx hy)
      have hpB : ∀ x ∈ q :: qs, PartOK fo x := fun x hx => hp x (by simp at hx ⊢; rcases hx with h | h <;> simp [h])
      have hpC : ∀ x ∈ g2, PartOK fo x := fun x hx => hp x (by simp [hx])
      have okA := part_grp_ok fo p (hp p (by simp)) hn1
      have okB := expected_ok fo (q :: qs) (by simp) hpB hn3
      have okC := expected_ok fo g2 h2 hpC hn4
      show joinGrp fo p.grp (expected fo ((q :: qs) ++ g2)) = joinGrp fo (joinGrp fo p.grp (expected fo (q :: qs))) (expected fo g2)
      rw [ih']
      symm
      apply joinGrp_assoc fo p.grp _ _ okA.ne okB.ne okC.ne
      · have := hj [] [p] (q :: qs) g2 (by simp) (by simp) (by simp)
        rwa [expected_single] at this
      · exact hj [p] (q :: qs) g2 [] (by simp) (by simp) h2
      · intro cid c bid b hch hbh mf hmf e
        have hb : bid ∈ fids (q :: qs) := okB.nodeIds (bid, b) (List.mem_of_mem_head? hbh)
        have hc : bid ∈ fids g2 := okC.nextOwn (cid, c) (List.mem_of_mem_head? hch) mf hmf bid e
        exact hd2 bid hb bid hc rfl
      · intro cid c hch x hx e
        have ha : cid ∈ p.folders.map (·.1) := okA.fileFolder x hx cid e
        have hc : cid ∈ fids g2 := okC.nodeIds (cid, c) (List.mem_of_mem_head? hch)
        exact hd cid ha cid (List.mem_append.mpr (.inr hc)) rfl
      · intro bid b hbh x hx e
        have hb : bid ∈ fids (q :: qs) := okB.nodeIds (bid, b) (List.mem_of_mem_head? hbh)
        obtain ⟨y, hy, hy'⟩ := List.mem_map.mp (okC.fileFolder x hx bid e)
        have hc : bid ∈ fids g2 := hy' ▸ okC.nodeIds y hy
        exact hd2 bid hb bid hc rfl

/-! ## acceptance -/

/-- the join of two adjacent groups is acceptable to `cabd_merge`: no folder is split at the boundary,
    or `cabd_can_merge_folders` accepts the two halves -/
def JoinOK (h0 : Heap) (L R : Grp) : Prop :=
  ∀ lfid lf rfid rf, L.nodes.getLast? = some (lfid, lf) → R.nodes.head? = some (rfid, rf) →
    Plain lf rf ∨ Heap.canMergeFolders h0 L.files R.files lf rf = true

theorem canMerge_some (h : Heap) (lfs rfs : List FileId) (lf rf : FolderNode)
    (hc : Heap.canMergeFolders h lfs rfs lf rf = true) : lf.mergeNext ≠ none ∧ rf.mergePrev ≠ none := by
  unfold Heap.canMergeFolders at hc
  cases h1 : lf.mergeNext <;> cases h2 : rf.mergePrev <;> simp [h1, h2] at hc ⊢

theorem JoinOK.splitOK {h0 : Heap} {L R : Grp} (h : JoinOK h0 L R) : SplitOK L R := by
  intro lfid lf rfid rf hl hr hp
  rcases h lfid lf rfid rf hl hr with h | h
  · exact absurd h hp
  · exact canMerge_some _ _ _ _ _ h


/-! ## groups in the heap -/

/-- the cabinet node of part `q` at position `i` of group `g` -/
def linkNode (g : List SetPart) (i : Nat) (q : SetPart) (fi : List FileId) (fo : List FolderId) : CabNode :=
  { q.node with prev := if i = 0 then none else (g[i-1]?).map (·.cab),
                next := (g[i+1]?).map (·.cab), files := fi, folders := fo }

/-- the parts of `g` are chained in this order (whatever lists they carry) -/
def Links (h : Heap) (g : List SetPart) : Prop :=
  ∀ i q, g[i]? = some q → ∃ fi fo, h.cab? q.cab = some (linkNode g i q fi fo)

/-- ... and all carry the lists of `G` -/
def GroupCabs (h : Heap) (g : List SetPart) (G : Grp) : Prop :=
  ∀ i q, g[i]? = some q → h.cab? q.cab = some (linkNode g i q G.files (G.nodes.map (·.1)))

def GroupFolders (h : Heap) (G : Grp) : Prop := ∀ x ∈ G.nodes, h.folder? x.1 = some x.2

theorem GroupCabs.links {h : Heap} {g : List SetPart} {G : Grp} (hc : GroupCabs h g G) : Links h g :=
  fun i q hq => ⟨_, _, hc i q hq⟩

theorem Links.len_le {h : Heap} {g : List SetPart} (hl : Links h g) (hn : (g.map (·.cab)).Nodup) :
    g.length ≤ h.cabs.length := by
  have := List.Nodup.length_le_of_subset hn (l₂ := h.cabs.map (·.1)) (by
    intro c hc
    obtain ⟨q, hq, rfl⟩ := List.mem_map.mp hc
    obtain ⟨i, hi, rfl⟩ := List.mem_iff_getElem.mp hq
    obtain ⟨fi, fo, e⟩ := hl i g[i] (by simp [hi])
    exact mem_keys_of_lookup _ _ _ e)
  simpa using this

theorem Links.prev_chain {h : Heap} {g : List SetPart} (hl : Links h g) :
    ∀ i, i ≤ g.length →
      Heap.IsChain h (·.prev) (if i = 0 then none else (g[i-1]?).map (·.cab)) (((g.take i).map (·.cab)).reverse) := by
  intro i
  induction i with
  | zero => intro _; simp [Heap.IsChain]
  | succ i ih =>
    intro hi
    have hi' : i < g.length := hi
    have e : g.take (i+1) = g.take i ++ [g[i]] := List.take_succ_eq_append_getElem hi'
    rw [e]
    simp only [List.map_append, List.map_cons, List.map_nil, List.reverse_append, List.reverse_cons,
      List.reverse_nil, List.nil_append, List.cons_append]
    refine ⟨by simp [hi'], ?_⟩
    obtain ⟨fi, fo, e⟩ := hl i g[i] (by simp [hi'])
    rw [e]
    exact ih (Nat.le_of_lt hi')

theorem Links.next_chain {h : Heap} {g : List SetPart} (hl : Links h g) :
    ∀ k i, i + k = g.length → Heap.IsChain h (·.next) ((g[i]?).map (·.cab)) ((g.drop i).map (·.cab)) := by
  intro k
  induction k with
  | zero =>
    intro i hi
    have : g.length ≤ i := by omega
    simp [Heap.IsChain, List.drop_eq_nil_of_le this, List.getElem?_eq_none this]
  | succ k ih =>
    intro i hi
    have hi' : i < g.length := by omega
    have e : g.drop i = g[i] :: g.drop (i+1) := List.drop_eq_getElem_cons hi'
    rw [e]
    refine ⟨by simp [hi'], ?_⟩
    obtain ⟨fi, fo, e⟩ := hl i g[i] (by simp [hi'])
    rw [e]
    exact ih (i+1) (by omega)


/-! ## the checking half with every check passed -/

theorem mergeCheck_pass (h : Heap) (lc rc : CabId) (ln rn : CabNode) (lfid rfid : FolderId) (lf rf : FolderNode)
    (hne : lc ≠ rc) (hl : h.cab? lc = some ln) (hr : h.cab? rc = some rn)
    (hln : ln.next = none) (hrp : rn.prev = none)
    (hc1 : rc ∉ h.prevChain lc) (hc2 : lc ∉ h.nextChain rc)
    (hlf : ln.folders.getLast? = some lfid) (hrf : rn.folders.head? = some rfid)
    (hlf' : h.folder? lfid = some lf) (hrf' : h.folder? rfid = some rf) :
    h.mergeCheck (some lc) (some rc) =
      if lf.mergeNext.isNone ∧ rf.mergePrev.isNone then .ok (.attach lc rc ln rn)
      else if !Heap.canMergeFolders h ln.files rn.files lf rf then .error .dataformat
      else .ok (.fold lc rc ln rn lfid rfid lf rf) := by
  simp [Heap.mergeCheck, hne, hl, hr, hln, hrp, hc1, hc2, hlf, hrf, hlf', hrf']

theorem filterMap_congr' {α β} (f g : α → Option β) (l : List α) (h : ∀ x ∈ l, f x = g x) :
    l.filterMap f = l.filterMap g := by
  induction l with
  | nil => rfl
  | cons a l ih =>
    rw [List.filterMap_cons, List.filterMap_cons, h a (by simp), ih (fun x hx => h x (by simp [hx]))]

theorem canMerge_congr (h h0 : Heap) (lfs rfs : List FileId) (lf rf : FolderNode)
    (hl : ∀ fid ∈ lfs, h.file? fid = h0.file? fid) (hr : ∀ fid ∈ rfs, h.file? fid = h0.file? fid) :
    Heap.canMergeFolders h lfs rfs lf rf = Heap.canMergeFolders h0 lfs rfs lf rf := by
  have e1 : ∀ p : FileId → Bool, (lfs.dropWhile p).filterMap h.file? = (lfs.dropWhile p).filterMap h0.file? := by
    intro p
    apply filterMap_congr'
    intro x hx
    exact hl x ((List.dropWhile_sublist p).subset hx)
  have e2 : ∀ p : FileId → Bool, (rfs.dropWhile p).filterMap h.file? = (rfs.dropWhile p).filterMap h0.file? := by
    intro p
    apply filterMap_congr'
    intro x hx
    exact hr x ((List.dropWhile_sublist p).subset hx)
  unfold Heap.canMergeFolders
  simp only [e1, e2]

/-! ## the file table -/

/-- the file table is the original one minus the files of the folders `D` merged away so far; those
    folders are gone from the folder table -/
structure FilesInv (h0 h : Heap) (D : List FolderId) : Prop where
  nodup : (h.files.map (·.1)).Nodup
  file : ∀ fid, h.file? fid = (h0.file? fid).bind fun fn => if fn.folder ∈ D.map some then none else some fn
  dead : ∀ d ∈ D, h.folder? d = none

theorem FilesInv.folderOf_ne_iff {h0 h : Heap} {D : List FolderId} (hi : FilesInv h0 h D) (r : FolderId)
    (rn : FolderNode) (hr : h.folder? r = some rn) (mf : FileId) :
    h.folderOf mf ≠ some r ↔ h0.folderOf mf ≠ some r := by
  unfold Heap.folderOf
  rw [hi.file mf]
  cases h0.file? mf with
  | none => simp
  | some fn =>
    by_cases hd : fn.folder ∈ D.map some
    · obtain ⟨d, hdD, hdf⟩ := List.mem_map.mp hd
      have : d ≠ r := by
        intro e; subst e
        rw [hi.dead d hdD] at hr; cases hr
      rw [Option.bind_some, if_pos hd, Option.bind_some, ← hdf]
      simp [this]
    · rw [Option.bind_some, if_neg hd]

theorem FilesInv.file_alive {h0 h : Heap} {D : List FolderId} (hi : FilesInv h0 h D) {ids : List FolderId} {G : Grp}
    (ok : GrpOK h0.folderOf ids G) (hf : GroupFolders h G) (fid : FileId) (hfid : fid ∈ G.files) :
    h.file? fid = h0.file? fid := by
  rw [hi.file fid]
  cases e : h0.file? fid with
  | none => rfl
  | some fn =>
    by_cases hd : fn.folder ∈ D.map some
    · obtain ⟨d, hdD, hdf⟩ := List.mem_map.mp hd
      have : d ∈ G.nodes.map (·.1) := ok.fileFolder fid hfid d (by simp [Heap.folderOf, e, hdf])
      obtain ⟨x, hx, rfl⟩ := List.mem_map.mp this
      have := hf x hx
      rw [hi.dead _ hdD] at this
      cases this
    · rw [Option.bind_some, if_neg hd]


/-! ## rewiring the cabinets of two groups -/

theorem linkNode_left (g1 g2 : List SetPart) (i : Nat) (q : SetPart) (fi : List FileId) (fo : List FolderId)
    (hi : i + 1 < g1.length) : linkNode (g1 ++ g2) i q fi fo = linkNode g1 i q fi fo := by
  unfold linkNode
  rw [List.getElem?_append_left (by omega), List.getElem?_append_left hi]

theorem linkNode_left_last (g1 g2 : List SetPart) (i : Nat) (q : SetPart) (fi : List FileId) (fo : List FolderId)
    (hi : i + 1 = g1.length) :
    linkNode (g1 ++ g2) i q fi fo = { linkNode g1 i q fi fo with next := (g2[0]?).map (·.cab) } := by
  unfold linkNode
  rw [List.getElem?_append_left (by omega), List.getElem?_append_right (by omega)]
  simp [hi]

theorem linkNode_right (g1 g2 : List SetPart) (j : Nat) (q : SetPart) (fi : List FileId) (fo : List FolderId)
    (hj : 0 < j) : linkNode (g1 ++ g2) (g1.length + j) q fi fo = linkNode g2 j q fi fo := by
  unfold linkNode
  rw [List.getElem?_append_right (by omega), List.getElem?_append_right (by omega)]
  have e1 : g1.length + j - 1 - g1.length = j - 1 := by omega
  have e2 : g1.length + j + 1 - g1.length = j + 1 := by omega
  have e3 : (g1.length + j = 0) = False := by simp; omega
  have e4 : (j = 0) = False := by simp; omega
  simp only [e1, e2, e3, e4]

theorem linkNode_right_first (g1 g2 : List SetPart) (q : SetPart) (fi : List FileId) (fo : List FolderId)
    (h1 : 0 < g1.length) :
    linkNode (g1 ++ g2) g1.length q fi fo =
      { linkNode g2 0 q fi fo with prev := (g1[g1.length - 1]?).map (·.cab) } := by
  unfold linkNode
  rw [List.getElem?_append_left (i := g1.length - 1) (by omega),
    List.getElem?_append_right (i := g1.length + 1) (by omega)]
  have e2 : g1.length + 1 - g1.length = 1 := by omega
  have e3 : (g1.length = 0) = False := eq_false (by omega)
  simp only [e2, e3, if_false]

theorem cab_inj {g : List SetPart} (hn : (g.map (·.cab)).Nodup) {i j : Nat} {q q' : SetPart}
    (hi : g[i]? = some q) (hj : g[j]? = some q') (e : q.cab = q'.cab) : i = j := by
  have hi' : (g.map (·.cab))[i]? = some q.cab := by simp [hi]
  have hj' : (g.map (·.cab))[j]? = some q.cab := by simp [hj, e]
  obtain ⟨hil, hie⟩ := List.getElem?_eq_some_iff.mp hi'
  exact (List.getElem?_inj hil hn).mp (hi'.trans hj'.symm)


/-- `lcab->nextcab = rcab; rcab->prevcab = lcab` with the new list heads stored in both -/
def rewired (hX : Heap) (lc rc : CabId) (ln rn : CabNode) (F : List FileId) (Fo : List FolderId) : Heap :=
  (hX.setCab lc { ln with next := some rc, files := F, folders := Fo }).setCab rc
    { rn with prev := some lc, files := F, folders := Fo }

theorem cab?_rewired (hX : Heap) (lc rc : CabId) (ln rn : CabNode) (F : List FileId) (Fo : List FolderId) (k : CabId) :
    (rewired hX lc rc ln rn F Fo).cab? k =
      if k = rc then some { rn with prev := some lc, files := F, folders := Fo }
      else if k = lc then some { ln with next := some rc, files := F, folders := Fo } else hX.cab? k := by
  unfold rewired
  rw [Heap.cab?_setCab, Heap.cab?_setCab]

theorem rewired_links (h hX : Heap) (g1 g2 : List SetPart) (n : Nat) (a b : SetPart) (G1 G2 : Grp)
    (F : List FileId) (Fo : List FolderId)
    (hlen : g1.length = n + 1) (ha : g1[n]? = some a) (hb : g2[0]? = some b)
    (hcabs : ∀ k, hX.cab? k = h.cab? k)
    (hc1 : GroupCabs h g1 G1) (hc2 : GroupCabs h g2 G2)
    (hn : ((g1 ++ g2).map (·.cab)).Nodup) :
    ∀ i q, (g1 ++ g2)[i]? = some q → ∃ fi fo,
      (rewired hX a.cab b.cab (linkNode g1 n a G1.files (G1.nodes.map (·.1)))
        (linkNode g2 0 b G2.files (G2.nodes.map (·.1))) F Fo).cab? q.cab = some (linkNode (g1 ++ g2) i q fi fo) ∧
      ((i = n ∨ i = n + 1) → fi = F ∧ fo = Fo) := by
  intro i q hq
  have hga : (g1 ++ g2)[n]? = some a := by rw [List.getElem?_append_left (by omega)]; exact ha
  have hgb : (g1 ++ g2)[n + 1]? = some b := by
    rw [List.getElem?_append_right (by omega)]
    have : n + 1 - g1.length = 0 := by omega
    rw [this]; exact hb
  rw [cab?_rewired]
  by_cases h1 : i < n
  · have hq1 : g1[i]? = some q := by rw [List.getElem?_append_left (by omega)] at hq; exact hq
    have na : q.cab ≠ a.cab := fun e => by have := cab_inj hn hq hga e; omega
    have nb : q.cab ≠ b.cab := fun e => by have := cab_inj hn hq hgb e; omega
    refine ⟨G1.files, G1.nodes.map (·.1), ?_, fun h => by omega⟩
    rw [if_neg nb, if_neg na, hcabs, hc1 i q hq1, linkNode_left g1 g2 i q _ _ (by omega)]
  · by_cases h2 : i = n
    · subst h2
      have : q = a := by rw [hga] at hq; exact (Option.some.inj hq).symm
      subst this
      have nb : q.cab ≠ b.cab := fun e => by have := cab_inj hn hq hgb e; omega
      refine ⟨F, Fo, ?_, fun _ => ⟨rfl, rfl⟩⟩
      rw [if_neg nb, if_pos rfl, linkNode_left_last g1 g2 i q _ _ (by omega), hb]
      rfl
    · by_cases h3 : i = n + 1
      · subst h3
        have : q = b := by rw [hgb] at hq; exact (Option.some.inj hq).symm
        subst this
        refine ⟨F, Fo, ?_, fun _ => ⟨rfl, rfl⟩⟩
        have e := linkNode_right_first g1 g2 q F Fo (by omega)
        rw [hlen] at e
        rw [if_pos rfl, e]
        have : n + 1 - 1 = n := by omega
        rw [this, ha]
        rfl
      · have hi : i = g1.length + (i - (n + 1)) := by omega
        have hq2 : g2[i - (n + 1)]? = some q := by
          rw [List.getElem?_append_right (by omega)] at hq
          have : i - g1.length = i - (n + 1) := by omega
          rw [this] at hq; exact hq
        have na : q.cab ≠ a.cab := fun e => by have := cab_inj hn hq hga e; omega
        have nb : q.cab ≠ b.cab := fun e => by have := cab_inj hn hq hgb e; omega
        refine ⟨G2.files, G2.nodes.map (·.1), ?_, fun h => by omega⟩
        rw [if_neg nb, if_neg na, hcabs, hc2 _ q hq2]
        conv => rhs; rw [hi]
        rw [linkNode_right g1 g2 _ q _ _ (by omega)]


theorem tables_rewired (hX : Heap) (lc rc : CabId) (ln rn : CabNode) (F : List FileId) (Fo : List FolderId) :
    (rewired hX lc rc ln rn F Fo).folders = hX.folders ∧ (rewired hX lc rc ln rn F Fo).files = hX.files :=
  ⟨rfl, rfl⟩

/-- after the final loop of `cabd_merge` every cabinet of the two groups carries the new lists and
    the two groups are chained; nothing else changes -/
theorem shared_cabs (h hX : Heap) (g1 g2 : List SetPart) (n : Nat) (a b : SetPart) (G1 G2 : Grp)
    (F : List FileId) (Fo : List FolderId)
    (hlen : g1.length = n + 1) (ha : g1[n]? = some a) (hb : g2[0]? = some b)
    (hcabs : ∀ k, hX.cab? k = h.cab? k)
    (hc1 : GroupCabs h g1 G1) (hc2 : GroupCabs h g2 G2)
    (hn : ((g1 ++ g2).map (·.cab)).Nodup) (h' : Heap)
    (hh' : h' = Heap.shareLists (rewired hX a.cab b.cab (linkNode g1 n a G1.files (G1.nodes.map (·.1)))
        (linkNode g2 0 b G2.files (G2.nodes.map (·.1))) F Fo) a.cab F Fo) :
    (∀ i q, (g1 ++ g2)[i]? = some q → h'.cab? q.cab = some (linkNode (g1 ++ g2) i q F Fo)) ∧
    (∀ c, c ∉ (g1 ++ g2).map (·.cab) → h'.cab? c = h.cab? c) ∧
    h'.folders = hX.folders ∧ h'.files = hX.files := by
  have L4 := rewired_links h hX g1 g2 n a b G1 G2 F Fo hlen ha hb hcabs hc1 hc2 hn
  have hcab4 := cab?_rewired hX a.cab b.cab (linkNode g1 n a G1.files (G1.nodes.map (·.1)))
        (linkNode g2 0 b G2.files (G2.nodes.map (·.1))) F Fo
  have htab4 := tables_rewired hX a.cab b.cab (linkNode g1 n a G1.files (G1.nodes.map (·.1)))
        (linkNode g2 0 b G2.files (G2.nodes.map (·.1))) F Fo
  generalize rewired hX a.cab b.cab (linkNode g1 n a G1.files (G1.nodes.map (·.1)))
        (linkNode g2 0 b G2.files (G2.nodes.map (·.1))) F Fo = h4 at L4 hh' hcab4 htab4
  have hga : (g1 ++ g2)[n]? = some a := by rw [List.getElem?_append_left (by omega)]; exact ha
  have hgb : (g1 ++ g2)[n + 1]? = some b := by
    rw [List.getElem?_append_right (by omega)]
    have : n + 1 - g1.length = 0 := by omega
    rw [this]; exact hb
  have hlinks : Links h4 (g1 ++ g2) := fun i q hq => by
    obtain ⟨fi, fo, e, _⟩ := L4 i q hq
    exact ⟨fi, fo, e⟩
  have hfuel := hlinks.len_le hn
  have hgl : (g1 ++ g2).length = g1.length + g2.length := List.length_append
  have hla : h4.cab? a.cab = some (linkNode (g1 ++ g2) n a F Fo) := by
    obtain ⟨fi, fo, e, hf⟩ := L4 n a hga
    obtain ⟨rfl, rfl⟩ := hf (.inl rfl)
    exact e
  have hprev : h4.prevChain a.cab = (((g1 ++ g2).take n).map (·.cab)).reverse := by
    unfold Heap.prevChain
    rw [hla]
    apply Heap.walk_of_chain
    · exact hlinks.prev_chain n (by omega)
    · simp only [List.length_reverse, List.length_map, List.length_take]; omega
  have hnext : h4.nextChain a.cab = ((g1 ++ g2).drop (n + 1)).map (·.cab) := by
    unfold Heap.nextChain
    rw [hla]
    apply Heap.walk_of_chain
    · exact hlinks.next_chain ((g1 ++ g2).length - (n + 1)) (n + 1) (by omega)
    · simp only [List.length_map, List.length_drop]; omega
  rw [Heap.shareLists_eq, hprev, hnext] at hh'
  subst hh'
  refine ⟨?_, ?_, ?_, ?_⟩
  · intro i q hq
    obtain ⟨fi, fo, e, hf⟩ := L4 i q hq
    rw [Heap.cab?_shareFold, e]
    split
    · rfl
    · next hmem =>
      by_cases hi : i = n ∨ i = n + 1
      · obtain ⟨rfl, rfl⟩ := hf hi; rfl
      · exfalso
        apply hmem
        rw [List.mem_append]
        by_cases hlt : i < n
        · left
          rw [List.mem_reverse]
          apply List.mem_map.mpr
          refine ⟨q, ?_, rfl⟩
          apply List.mem_of_getElem? (i := i)
          rw [List.getElem?_take, if_pos hlt]; exact hq
        · right
          apply List.mem_map.mpr
          refine ⟨q, ?_, rfl⟩
          apply List.mem_of_getElem? (i := i - (n + 1))
          rw [List.getElem?_drop]
          have : n + 1 + (i - (n + 1)) = i := by omega
          rw [this]; exact hq
  · intro c hc
    rw [Heap.cab?_shareFold]
    have hsub : c ∉ (List.map (·.cab) (List.take n (g1 ++ g2))).reverse ++
        List.map (·.cab) (List.drop (n + 1) (g1 ++ g2)) := by
      intro hm
      apply hc
      rcases List.mem_append.mp hm with hm | hm
      · rw [List.mem_reverse] at hm
        obtain ⟨q, hq, rfl⟩ := List.mem_map.mp hm
        exact List.mem_map.mpr ⟨q, List.mem_of_mem_take hq, rfl⟩
      · obtain ⟨q, hq, rfl⟩ := List.mem_map.mp hm
        exact List.mem_map.mpr ⟨q, List.mem_of_mem_drop hq, rfl⟩
    rw [if_neg hsub, hcab4]
    have nb : c ≠ b.cab := fun e => hc (List.mem_map.mpr ⟨b, List.mem_of_getElem? hgb, e.symm⟩)
    have na : c ≠ a.cab := fun e => hc (List.mem_map.mpr ⟨a, List.mem_of_getElem? hga, e.symm⟩)
    rw [if_neg nb, if_neg na, hcabs]
  · rw [(Heap.tables_shareFold _ _ _ _).1, htab4.1]
  · rw [(Heap.tables_shareFold _ _ _ _).2, htab4.2]


/-! ## one successful join -/

theorem mergeApply_attach' (h : Heap) (lc rc : CabId) (ln rn : CabNode) :
    h.mergeApply (.attach lc rc ln rn) =
      Heap.shareLists (rewired h lc rc ln rn (ln.files ++ rn.files) (ln.folders ++ rn.folders)) lc
        (ln.files ++ rn.files) (ln.folders ++ rn.folders) := rfl

theorem mergeApply_fold' (h : Heap) (lc rc : CabId) (ln rn : CabNode) (lfid rfid : FolderId) (lf rf : FolderNode) :
    h.mergeApply (.fold lc rc ln rn lfid rfid lf rf) =
      Heap.shareLists (rewired (h.foldTables lfid rfid lf rf) lc rc ln rn
          ((ln.files ++ rn.files).filter fun fid => h.folderOf fid ≠ some rfid) (ln.folders ++ rn.folders.drop 1)) lc
        ((ln.files ++ rn.files).filter fun fid => h.folderOf fid ≠ some rfid) (ln.folders ++ rn.folders.drop 1) := rfl

theorem fuseNode_congr (fo fo' : FileId → Option FolderId) (lf : FolderNode) (rfid : FolderId) (rf : FolderNode)
    (h : ∀ mf, fo mf ≠ some rfid ↔ fo' mf ≠ some rfid) :
    Heap.fuseNode fo lf rfid rf = Heap.fuseNode fo' lf rfid rf := by
  unfold Heap.fuseNode
  cases rf.mergeNext with
  | none => rfl
  | some mf =>
    have : decide (fo mf ≠ some rfid) = decide (fo' mf ≠ some rfid) := by
      rw [decide_eq_decide]; exact h mf
    simp only [this]

theorem file?_of_files_eq {h h' : Heap} (e : h'.files = h.files) (fid : FileId) : h'.file? fid = h.file? fid := by
  unfold Heap.file?; rw [e]

theorem folder?_of_folders_eq {h h' : Heap} (e : h'.folders = h.folders) (f : FolderId) : h'.folder? f = h.folder? f := by
  unfold Heap.folder?; rw [e]


theorem nodup_left {g1 g2 : List SetPart} (hn : ((g1 ++ g2).map (·.cab)).Nodup) : (g1.map (·.cab)).Nodup := by
  rw [List.map_append] at hn; exact (List.nodup_append.mp hn).1

theorem nodup_right {g1 g2 : List SetPart} (hn : ((g1 ++ g2).map (·.cab)).Nodup) : (g2.map (·.cab)).Nodup := by
  rw [List.map_append] at hn; exact (List.nodup_append.mp hn).2.1

theorem cab_disjoint {g1 g2 : List SetPart} (hn : ((g1 ++ g2).map (·.cab)).Nodup) {p q : SetPart}
    (hp : p ∈ g1) (hq : q ∈ g2) : p.cab ≠ q.cab := by
  rw [List.map_append] at hn
  exact (List.nodup_append.mp hn).2.2 _ (List.mem_map.mpr ⟨p, hp, rfl⟩) _ (List.mem_map.mpr ⟨q, hq, rfl⟩)

/-- the checks of `cabd_merge` that do not look at folders pass for the last part of one group and the
    first part of another -/
theorem chain_checks (h : Heap) (g1 g2 : List SetPart) (n : Nat) (a b : SetPart) (G1 G2 : Grp)
    (hlen : g1.length = n + 1) (ha : g1[n]? = some a) (hb : g2[0]? = some b)
    (hc1 : GroupCabs h g1 G1) (hc2 : GroupCabs h g2 G2)
    (hn : ((g1 ++ g2).map (·.cab)).Nodup) :
    a.cab ≠ b.cab ∧ (linkNode g1 n a G1.files (G1.nodes.map (·.1))).next = none ∧
    b.cab ∉ h.prevChain a.cab ∧ a.cab ∉ h.nextChain b.cab := by
  have ham : a ∈ g1 := List.mem_of_getElem? ha
  have hbm : b ∈ g2 := List.mem_of_getElem? hb
  refine ⟨cab_disjoint hn ham hbm, ?_, ?_, ?_⟩
  · unfold linkNode
    show Option.map _ g1[n + 1]? = none
    rw [List.getElem?_eq_none (by omega)]; rfl
  · have hl := hc1.links
    have hfuel := hl.len_le (nodup_left hn)
    unfold Heap.prevChain
    rw [hc1 n a ha]
    have e : h.walk (·.prev) h.cabs.length
        ((some (linkNode g1 n a G1.files (G1.nodes.map (·.1)))).bind (·.prev)) =
        ((g1.take n).map (·.cab)).reverse := by
      apply Heap.walk_of_chain
      · exact hl.prev_chain n (by omega)
      · simp only [List.length_reverse, List.length_map, List.length_take]; omega
    rw [e]
    intro hm
    rw [List.mem_reverse] at hm
    obtain ⟨q, hq, e⟩ := List.mem_map.mp hm
    exact cab_disjoint hn (List.mem_of_mem_take hq) hbm e
  · have hl := hc2.links
    have hfuel := hl.len_le (nodup_right hn)
    unfold Heap.nextChain
    rw [hc2 0 b hb]
    have hpos : 0 < g2.length := by
      cases g2 with
      | nil => simp at hb
      | cons _ _ => simp
    have e : h.walk (·.next) h.cabs.length
        ((some (linkNode g2 0 b G2.files (G2.nodes.map (·.1)))).bind (·.next)) =
        (g2.drop 1).map (·.cab) := by
      apply Heap.walk_of_chain
      · exact hl.next_chain (g2.length - 1) 1 (by omega)
      · simp only [List.length_map, List.length_drop]; omega
    rw [e]
    intro hm
    obtain ⟨q, hq, e⟩ := List.mem_map.mp hm
    exact cab_disjoint hn ham (List.mem_of_mem_drop hq) e.symm


/-- one join of two adjacent groups whose heap state is the expected one: `cabd_merge` returns OK and
    the heap state of the combined group is the expected one; nothing else changes -/
theorem merge_step (h0 h : Heap) (D : List FolderId) (g1 g2 : List SetPart) (n : Nat) (a b : SetPart)
    (G1 G2 : Grp) (ids1 ids2 : List FolderId)
    (hlen : g1.length = n + 1) (ha : g1[n]? = some a) (hb : g2[0]? = some b)
    (hc1 : GroupCabs h g1 G1) (hc2 : GroupCabs h g2 G2) (hf1 : GroupFolders h G1) (hf2 : GroupFolders h G2)
    (hn : ((g1 ++ g2).map (·.cab)).Nodup)
    (ok1 : GrpOK h0.folderOf ids1 G1) (ok2 : GrpOK h0.folderOf ids2 G2) (hd : ∀ x ∈ ids1, ∀ y ∈ ids2, x ≠ y)
    (hfi : FilesInv h0 h D) (hj : JoinOK h0 G1 G2) :
    ∃ h' D', h.merge (some a.cab) (some b.cab) = (.ok, h') ∧
      GroupCabs h' (g1 ++ g2) (joinGrp h0.folderOf G1 G2) ∧ GroupFolders h' (joinGrp h0.folderOf G1 G2) ∧
      FilesInv h0 h' D' ∧
      (∀ c, c ∉ (g1 ++ g2).map (·.cab) → h'.cab? c = h.cab? c) ∧
      (∀ f, f ∉ ids1 → f ∉ ids2 → h'.folder? f = h.folder? f) := by
  obtain ⟨hne, hln, hch1, hch2⟩ := chain_checks h g1 g2 n a b G1 G2 hlen ha hb hc1 hc2 hn
  have hl := hc1 n a ha
  have hr := hc2 0 b hb
  obtain ⟨Ln, Lf⟩ := G1
  obtain ⟨Rn, Rf⟩ := G2
  obtain ⟨Li, ⟨lfid, lf⟩, rfl⟩ := nodes_snoc ok1.ne
  cases Rn with
  | nil => exact absurd rfl ok2.ne
  | cons r0 Rt =>
  obtain ⟨rfid, rf⟩ := r0
  have hlf' : h.folder? lfid = some lf := hf1 (lfid, lf) (by simp)
  have hrf' : h.folder? rfid = some rf := hf2 (rfid, rf) (by simp)
  have hlid1 : lfid ∈ ids1 := ok1.nodeIds (lfid, lf) (by simp)
  have hrid2 : rfid ∈ ids2 := ok2.nodeIds (rfid, rf) (by simp)
  have hchk := mergeCheck_pass h a.cab b.cab _ _ lfid rfid lf rf hne hl hr hln rfl hch1 hch2
    (by simp [linkNode]) (by simp [linkNode]) hlf' hrf'
  rw [joinGrp_snoc_cons]
  by_cases pl : Plain lf rf
  · -- no folder is split here
    have hcond : lf.mergeNext.isNone ∧ rf.mergePrev.isNone := by
      simpa [Plain, Option.isNone_iff_eq_none] using pl
    rw [if_pos hcond] at hchk
    obtain ⟨H1, H2, H3, H4⟩ := shared_cabs h h g1 g2 n a b _ _
      (Lf ++ Rf) ((Li ++ [(lfid, lf)]).map (·.1) ++ ((rfid, rf) :: Rt).map (·.1)) hlen ha hb (fun _ => rfl) hc1 hc2 hn _ rfl
    refine ⟨_, D, ?_, ?_, ?_, ?_, H2, ?_⟩
    · unfold Heap.merge
      rw [hchk]
      dsimp only
      rw [mergeApply_attach']
      rfl
    · rw [if_pos pl]
      intro i q hq
      rw [H1 i q hq]
      simp
    · rw [if_pos pl]
      intro x hx
      rw [folder?_of_folders_eq H3]
      rcases List.mem_append.mp hx with hx | hx
      · exact hf1 x hx
      · exact hf2 x hx
    · refine ⟨by rw [H4]; exact hfi.nodup, fun fid => by rw [file?_of_files_eq H4]; exact hfi.file fid,
        fun d hd => by rw [folder?_of_folders_eq H3]; exact hfi.dead d hd⟩
    · intro f _ _
      exact folder?_of_folders_eq H3 f
  · -- the two halves of a split folder are fused
    have hcond : ¬ (lf.mergeNext.isNone ∧ rf.mergePrev.isNone) := by
      simpa [Plain, Option.isNone_iff_eq_none] using pl
    have hcan : Heap.canMergeFolders h Lf Rf lf rf = true := by
      rw [canMerge_congr h h0 Lf Rf lf rf (fun fid hfid => hfi.file_alive ok1 hf1 fid hfid)
        (fun fid hfid => hfi.file_alive ok2 hf2 fid hfid)]
      rcases hj lfid lf rfid rf (by simp) (by simp) with h | h
      · exact absurd h pl
      · exact h
    have hcan' : (!Heap.canMergeFolders h (linkNode g1 n a Lf ((Li ++ [(lfid, lf)]).map (·.1))).files
        (linkNode g2 0 b Rf (((rfid, rf) :: Rt).map (·.1))).files lf rf) = false := by
      show (!Heap.canMergeFolders h Lf Rf lf rf) = false
      rw [hcan]; rfl
    rw [if_neg hcond, hcan'] at hchk
    simp only [Bool.false_eq_true, if_false] at hchk
    have hfo := hfi.folderOf_ne_iff rfid rf hrf'
    have hfuse : Heap.fuseNode h.folderOf lf rfid rf = Heap.fuseNode h0.folderOf lf rfid rf :=
      fuseNode_congr _ _ _ _ _ hfo
    have hfilt : (Lf ++ Rf).filter (fun fid => h.folderOf fid ≠ some rfid) =
        (Lf ++ Rf).filter (fun fid => h0.folderOf fid ≠ some rfid) := by
      apply List.filter_congr
      intro x _
      rw [decide_eq_decide]; exact hfo x
    obtain ⟨H1, H2, H3, H4⟩ := shared_cabs h (h.foldTables lfid rfid lf rf) g1 g2 n a b _ _
      ((Lf ++ Rf).filter fun fid => h.folderOf fid ≠ some rfid)
      ((Li ++ [(lfid, lf)]).map (·.1) ++ (((rfid, rf) :: Rt).map (·.1)).drop 1) hlen ha hb (fun _ => rfl) hc1 hc2 hn _ rfl
    have hne' : lfid ≠ rfid := hd _ hlid1 _ hrid2
    have hfold : ∀ k, (Heap.shareLists
        (rewired (h.foldTables lfid rfid lf rf) a.cab b.cab (linkNode g1 n a Lf ((Li ++ [(lfid, lf)]).map (·.1)))
          (linkNode g2 0 b Rf (((rfid, rf) :: Rt).map (·.1)))
          ((Lf ++ Rf).filter fun fid => h.folderOf fid ≠ some rfid)
          ((Li ++ [(lfid, lf)]).map (·.1) ++ (((rfid, rf) :: Rt).map (·.1)).drop 1)) a.cab
        ((Lf ++ Rf).filter fun fid => h.folderOf fid ≠ some rfid)
        ((Li ++ [(lfid, lf)]).map (·.1) ++ (((rfid, rf) :: Rt).map (·.1)).drop 1)).folder? k =
          if k = rfid then none else if k = lfid then some (Heap.fuseNode h0.folderOf lf rfid rf) else h.folder? k := by
      intro k
      rw [folder?_of_folders_eq H3, Heap.folder?_foldTables, hfuse]
    refine ⟨_, rfid :: D, ?_, ?_, ?_, ?_, H2, ?_⟩
    · unfold Heap.merge
      rw [hchk]
      dsimp only
      rw [mergeApply_fold']
      rfl
    · rw [if_neg pl]
      intro i q hq
      rw [H1 i q hq, hfilt]
      simp
    · rw [if_neg pl]
      intro x hx
      rw [hfold]
      have okn := ok1.nodup
      have okn2 := ok2.nodup
      simp only [List.map_append, List.map_cons, List.map_nil, List.nodup_append, List.nodup_cons,
        List.mem_map, List.mem_singleton] at okn okn2
      rcases List.mem_append.mp hx with hx | hx
      · have h1 : x.1 ≠ rfid := hd _ (ok1.nodeIds x (by simp [hx])) _ hrid2
        have h2 : x.1 ≠ lfid := fun e => okn.2.2 x.1 ⟨x, hx, rfl⟩ lfid rfl e
        rw [if_neg h1, if_neg h2]
        exact hf1 x (by simp [hx])
      · rcases List.mem_cons.mp hx with hx | hx
        · subst hx
          rw [if_neg hne', if_pos rfl]
        · have h1 : x.1 ≠ rfid := fun e => okn2.1 ⟨x, hx, e⟩
          have h2 : x.1 ≠ lfid := fun e => hd _ hlid1 _ (ok2.nodeIds x (by simp [hx])) e.symm
          rw [if_neg h1, if_neg h2]
          exact hf2 x (by simp [hx])
    · refine ⟨?_, ?_, ?_⟩
      · rw [H4, Heap.files_foldTables]
        exact hfi.nodup.sublist ((List.filter_sublist (l := h.files)).map _)
      · intro fid
        rw [file?_of_files_eq H4]
        unfold Heap.file?
        rw [Heap.files_foldTables, lookup_filter_val _ _ hfi.nodup]
        have := hfi.file fid
        unfold Heap.file? at this
        rw [this]
        cases h0.files.lookup fid with
        | none => rfl
        | some fn =>
          rw [Option.bind_some, Option.bind_some]
          by_cases hD : fn.folder ∈ D.map some
          · have : fn.folder ∈ (rfid :: D).map some := by simp at hD ⊢; exact .inr hD
            rw [if_pos hD, if_pos this]; rfl
          · rw [if_neg hD, Option.bind_some]
            by_cases hr : fn.folder = some rfid
            · have : fn.folder ∈ (rfid :: D).map some := by simp [hr]
              rw [if_pos this]; simp [hr]
            · have : fn.folder ∉ (rfid :: D).map some := by
                simp only [List.map_cons, List.mem_cons, not_or]; exact ⟨hr, hD⟩
              rw [if_neg this]; simp [hr]
      · intro d hdm
        rw [hfold]
        rcases List.mem_cons.mp hdm with e | hdm
        · rw [if_pos e]
        · have hdd := hfi.dead d hdm
          have h2 : d ≠ lfid := fun e => by rw [e, hlf'] at hdd; cases hdd
          by_cases e1 : d = rfid
          · rw [if_pos e1]
          · rw [if_neg e1, if_neg h2]; exact hdd
    · intro f h1 h2
      rw [hfold]
      have e1 : f ≠ rfid := fun e => h2 (e ▸ hrid2)
      have e2 : f ≠ lfid := fun e => h1 (e ▸ hlid1)
      rw [if_neg e1, if_neg e2]


/-! ## a set of parts, and the state after some joins -/

/-- a well-formed set: `parts` (in set order) are distinct opened, not yet joined cabinets of the heap
    `h0`, each with at least one folder, with folder ids not shared between parts; the files and the
    `mergeNext` entries of a part point into the part's own folders; and any two adjacent runs of parts
    are joinable: at their boundary either no folder is split or `cabd_can_merge_folders` accepts the two
    halves (for a folder split once this is a condition on the two parts at the boundary) -/
structure WellFormedSet (h0 : Heap) (parts : List SetPart) : Prop where
  cabNodup : (parts.map (·.cab)).Nodup
  cabNode : ∀ p ∈ parts, h0.cab? p.cab = some p.node
  unjoined : ∀ p ∈ parts, p.node.prev = none ∧ p.node.next = none
  ownFolders : ∀ p ∈ parts, p.node.folders = p.folders.map (·.1)
  folderNode : ∀ p ∈ parts, ∀ x ∈ p.folders, h0.folder? x.1 = some x.2
  folderNodup : (fids parts).Nodup
  fileKeys : (h0.files.map (·.1)).Nodup
  partOK : ∀ p ∈ parts, PartOK h0.folderOf p
  joinable : ∀ pre x y post, parts = pre ++ x ++ y ++ post → x ≠ [] → y ≠ [] →
    JoinOK h0 (expected h0.folderOf x) (expected h0.folderOf y)

/-- the heap after some joins: the parts are grouped as `gs`, and every group carries its expected lists -/
structure SetInv (h0 h : Heap) (gs : List (List SetPart)) : Prop where
  groups : ∀ g ∈ gs, g ≠ [] ∧ GroupCabs h g (expected h0.folderOf g) ∧ GroupFolders h (expected h0.folderOf g)
  files : ∃ D, FilesInv h0 h D

theorem nodup_mid {α} {A M B : List α} (hn : (A ++ M ++ B).Nodup) (x : α) (hx : x ∈ A ∨ x ∈ B) : x ∉ M := by
  obtain ⟨h1, h2, h3⟩ := List.nodup_append.mp hn
  obtain ⟨h4, h5, h6⟩ := List.nodup_append.mp h1
  intro hm
  rcases hx with hx | hx
  · exact h6 x hx x hm rfl
  · exact h3 x (List.mem_append.mpr (.inr hm)) x hx rfl

theorem nodup_mid' {α} {A M B : List α} (hn : (A ++ M ++ B).Nodup) : M.Nodup := by
  obtain ⟨h1, h2, h3⟩ := List.nodup_append.mp hn
  exact (List.nodup_append.mp h1).2.1

theorem setInv_init (h0 : Heap) (parts : List SetPart) (wf : WellFormedSet h0 parts) :
    SetInv h0 h0 (parts.map ([·])) := by
  constructor
  · intro g hg
    obtain ⟨p, hp, rfl⟩ := List.mem_map.mp hg
    refine ⟨by simp, ?_, ?_⟩
    · intro i q hq
      cases i with
      | succ i => simp at hq
      | zero =>
        simp at hq; subst hq
        rw [wf.cabNode p hp, expected_single]
        have h1 := wf.unjoined p hp
        have h2 := wf.ownFolders p hp
        congr 1
        unfold linkNode SetPart.grp
        cases hnode : p.node with
        | mk hdr fname prev next files folders =>
          rw [hnode] at h1 h2
          simp only at h1 h2
          simp [h1.1, h1.2, h2]
    · rw [expected_single]
      exact wf.folderNode p hp
  · refine ⟨[], wf.fileKeys, ?_, fun d hd => by simp at hd⟩
    intro fid
    cases h0.file? fid <;> simp

theorem frame_group {h h' : Heap} {g : List SetPart} {G : Grp}
    (hcab : ∀ q ∈ g, h'.cab? q.cab = h.cab? q.cab) (hfol : ∀ x ∈ G.nodes, h'.folder? x.1 = h.folder? x.1)
    (hc : GroupCabs h g G) (hf : GroupFolders h G) : GroupCabs h' g G ∧ GroupFolders h' G :=
  ⟨fun i q hq => by rw [hcab q (List.mem_of_getElem? hq)]; exact hc i q hq,
   fun x hx => by rw [hfol x hx]; exact hf x hx⟩


theorem list_snoc {α} {l : List α} (h : l ≠ []) : ∃ li x, l = li ++ [x] :=
  ⟨l.dropLast, l.getLast h, (List.dropLast_concat_getLast h).symm⟩

theorem fids_nodup_of_mem {gs : List (List SetPart)} {g : List SetPart} (hg : g ∈ gs)
    (hn : (fids gs.flatten).Nodup) : (fids g).Nodup := by
  obtain ⟨l1, l2, rfl⟩ := List.append_of_mem hg
  have e : (l1 ++ g :: l2).flatten = l1.flatten ++ g ++ l2.flatten := by simp
  rw [e, fids_append, fids_append] at hn
  exact nodup_mid' hn

/-- joining two adjacent groups of a well-formed set: `cabd_merge` on the last part of the left group and
    the first part of the right group returns OK, and the state is again the expected one -/
theorem setInv_join (h0 h : Heap) (parts : List SetPart) (pre : List (List SetPart)) (g1 g2 : List SetPart)
    (post : List (List SetPart)) (wf : WellFormedSet h0 parts)
    (hflat : (pre ++ g1 :: g2 :: post).flatten = parts) (inv : SetInv h0 h (pre ++ g1 :: g2 :: post)) :
    ∃ h', h.merge (g1.getLast?.map (·.cab)) (g2.head?.map (·.cab)) = (.ok, h') ∧
      SetInv h0 h' (pre ++ (g1 ++ g2) :: post) := by
  have e : parts = pre.flatten ++ (g1 ++ g2) ++ post.flatten := by rw [← hflat]; simp
  obtain ⟨ne1, hc1, hf1⟩ := inv.groups g1 (by simp)
  obtain ⟨ne2, hc2, hf2⟩ := inv.groups g2 (by simp)
  obtain ⟨D, hfi⟩ := inv.files
  have hmem1 : ∀ p ∈ g1, p ∈ parts := fun p hp => by rw [e]; simp [hp]
  have hmem2 : ∀ p ∈ g2, p ∈ parts := fun p hp => by rw [e]; simp [hp]
  have hcn : ((g1 ++ g2).map (·.cab)).Nodup := by
    have := wf.cabNodup
    rw [e, List.map_append, List.map_append] at this
    exact nodup_mid' this
  have hfn : (fids parts).Nodup := wf.folderNodup
  rw [e, fids_append, fids_append] at hfn
  have hfn12 : (fids (g1 ++ g2)).Nodup := nodup_mid' hfn
  have hfn12' := hfn12
  rw [fids_append] at hfn12'
  obtain ⟨hfn1, hfn2, hdis⟩ := List.nodup_append.mp hfn12'
  have ok1 := expected_ok h0.folderOf g1 ne1 (fun p hp => wf.partOK p (hmem1 p hp)) hfn1
  have ok2 := expected_ok h0.folderOf g2 ne2 (fun p hp => wf.partOK p (hmem2 p hp)) hfn2
  have hj := wf.joinable pre.flatten g1 g2 post.flatten (by rw [e]; simp) ne1 ne2
  obtain ⟨g1i, a, rfl⟩ := list_snoc ne1
  cases g2 with
  | nil => exact absurd rfl ne2
  | cons b g2t =>
  obtain ⟨h', D', hm, hC, hF, hFi, hframeC, hframeF⟩ :=
    merge_step h0 h D (g1i ++ [a]) (b :: g2t) g1i.length a b _ _ _ _ (by simp) (by simp) (by simp)
      hc1 hc2 hf1 hf2 hcn ok1 ok2 hdis hfi hj
  refine ⟨h', by simpa using hm, ?_, ⟨D', hFi⟩⟩
  have hexp : expected h0.folderOf ((g1i ++ [a]) ++ b :: g2t) =
      joinGrp h0.folderOf (expected h0.folderOf (g1i ++ [a])) (expected h0.folderOf (b :: g2t)) := by
    apply expected_append _ _ _ ne1 ne2
    · intro p hp
      rcases List.mem_append.mp hp with hp | hp
      · exact wf.partOK p (hmem1 p hp)
      · exact wf.partOK p (hmem2 p hp)
    · exact hfn12
    · intro pre' x y post' e' hx hy
      exact (wf.joinable (pre.flatten ++ pre') x y (post' ++ post.flatten) (by rw [e, e']; simp) hx hy).splitOK
  intro g hg
  have hother : ∀ g, (g ∈ pre ∨ g ∈ post) → g ≠ [] ∧ GroupCabs h' g (expected h0.folderOf g) ∧
      GroupFolders h' (expected h0.folderOf g) := by
    intro g hg
    obtain ⟨ne, hc, hf⟩ := inv.groups g (by
      rcases hg with hg | hg
      · simp [hg]
      · simp [hg])
    have hsub : ∀ q ∈ g, q ∈ pre.flatten ∨ q ∈ post.flatten := by
      intro q hq
      rcases hg with hg | hg
      · exact .inl (List.mem_flatten.mpr ⟨g, hg, hq⟩)
      · exact .inr (List.mem_flatten.mpr ⟨g, hg, hq⟩)
    have hmem : ∀ p ∈ g, p ∈ parts := fun p hp => by
      rw [e]
      rcases hsub p hp with h | h <;> simp [h]
    have hfng : (fids g).Nodup := by
      apply fids_nodup_of_mem (gs := pre ++ (g1i ++ [a]) :: (b :: g2t) :: post) (g := g)
      · rcases hg with hg | hg
        · simp [hg]
        · simp [hg]
      · rw [hflat]; exact wf.folderNodup
    have okg := expected_ok h0.folderOf g ne (fun p hp => wf.partOK p (hmem p hp)) hfng
    refine ⟨ne, frame_group ?_ ?_ hc hf⟩
    · intro q hq
      apply hframeC
      have := wf.cabNodup
      rw [e, List.map_append, List.map_append] at this
      apply nodup_mid this
      rcases hsub q hq with h | h
      · exact .inl (List.mem_map.mpr ⟨q, h, rfl⟩)
      · exact .inr (List.mem_map.mpr ⟨q, h, rfl⟩)
    · intro x hx
      have hxid : x.1 ∈ fids g := okg.nodeIds x hx
      have hxo : x.1 ∈ fids pre.flatten ∨ x.1 ∈ fids post.flatten := by
        unfold fids at hxid ⊢
        obtain ⟨q, hq, hxq⟩ := List.mem_flatMap.mp hxid
        rcases hsub q hq with h | h
        · exact .inl (List.mem_flatMap.mpr ⟨q, h, hxq⟩)
        · exact .inr (List.mem_flatMap.mpr ⟨q, h, hxq⟩)
      have hnot := nodup_mid hfn x.1 hxo
      rw [fids_append] at hnot
      apply hframeF
      · exact fun h => hnot (List.mem_append.mpr (.inl h))
      · exact fun h => hnot (List.mem_append.mpr (.inr h))
  rcases List.mem_append.mp hg with hg | hg
  · exact hother g (.inl hg)
  · rcases List.mem_cons.mp hg with hg | hg
    · subst hg
      refine ⟨by simp, ?_, ?_⟩
      · rw [hexp]; exact hC
      · rw [hexp]; exact hF
    · exact hother g (.inr hg)


/-! ## a checker for `WellFormedSet` (sufficient, executable) -/

def joinOKb (h0 : Heap) (L R : Grp) : Bool :=
  match L.nodes.getLast?, R.nodes.head? with
  | some (_, lf), some (_, rf) => decide (Plain lf rf) || Heap.canMergeFolders h0 L.files R.files lf rf
  | _, _ => true

theorem joinOKb_sound {h0 : Heap} {L R : Grp} (h : joinOKb h0 L R = true) : JoinOK h0 L R := by
  intro lfid lf rfid rf hl hr
  unfold joinOKb at h
  rw [hl, hr] at h
  simpa using h

def partOKb (fo : FileId → Option FolderId) (p : SetPart) : Bool :=
  !p.folders.isEmpty &&
  p.node.files.all (fun fid => match fo fid with
    | none => true
    | some f => (p.folders.map (·.1)).contains f) &&
  p.folders.all (fun x => match x.2.mergeNext with
    | none => true
    | some mf => match fo mf with
      | none => true
      | some f => (p.folders.map (·.1)).contains f)

theorem partOKb_sound {fo : FileId → Option FolderId} {p : SetPart} (h : partOKb fo p = true) : PartOK fo p := by
  unfold partOKb at h
  simp only [Bool.and_eq_true, List.all_eq_true] at h
  obtain ⟨⟨h1, h2⟩, h3⟩ := h
  refine ⟨?_, ?_, ?_⟩
  · intro e; rw [e] at h1; simp at h1
  · intro fid hfid f hf
    have := h2 fid hfid
    rw [hf] at this
    simpa using this
  · intro x hx mf hmf f hf
    have := h3 x hx
    rw [hmf] at this
    dsimp only at this
    rw [hf] at this
    simpa using this

/-- all pairs of adjacent runs `parts[i..j)`, `parts[j..k)` -/
def joinableb (h0 : Heap) (parts : List SetPart) : Bool :=
  (List.range (parts.length + 1)).all fun i => (List.range (parts.length + 1)).all fun j =>
    (List.range (parts.length + 1)).all fun k =>
      !(decide (i < j) && decide (j < k)) ||
        joinOKb h0 (expected h0.folderOf ((parts.drop i).take (j - i)))
          (expected h0.folderOf ((parts.drop j).take (k - j)))

theorem joinableb_sound {h0 : Heap} {parts : List SetPart} (h : joinableb h0 parts = true) :
    ∀ pre x y post, parts = pre ++ x ++ y ++ post → x ≠ [] → y ≠ [] →
      JoinOK h0 (expected h0.folderOf x) (expected h0.folderOf y) := by
  intro pre x y post e hx hy
  unfold joinableb at h
  simp only [List.all_eq_true, List.mem_range] at h
  have hxl : 0 < x.length := List.length_pos_iff.mpr hx
  have hyl : 0 < y.length := List.length_pos_iff.mpr hy
  have hlen : parts.length = pre.length + x.length + y.length + post.length := by
    rw [e]; simp only [List.length_append]
  have := h pre.length (by omega) (pre.length + x.length) (by omega) (pre.length + x.length + y.length) (by omega)
  have c : (decide (pre.length < pre.length + x.length) && decide (pre.length + x.length < pre.length + x.length + y.length)) = true := by
    simp; omega
  rw [c] at this
  simp only [Bool.not_true, Bool.false_or] at this
  have e1 : (parts.drop pre.length).take (pre.length + x.length - pre.length) = x := by
    rw [e]; simp [List.append_assoc]
  have e2 : (parts.drop (pre.length + x.length)).take (pre.length + x.length + y.length - (pre.length + x.length)) = y := by
    rw [e]
    have : pre.length + x.length = (pre ++ x).length := by simp
    rw [this, List.append_assoc (pre ++ x), List.drop_left]
    simp
  rw [e1, e2] at this
  exact joinOKb_sound this

def wellFormedb (h0 : Heap) (parts : List SetPart) : Bool :=
  decide ((parts.map (·.cab)).Nodup) &&
  parts.all (fun p =>
    decide (h0.cab? p.cab = some p.node) && decide (p.node.prev = none ∧ p.node.next = none) &&
    decide (p.node.folders = p.folders.map (·.1)) &&
    p.folders.all (fun x => decide (h0.folder? x.1 = some x.2)) && partOKb h0.folderOf p) &&
  decide ((fids parts).Nodup) && decide ((h0.files.map (·.1)).Nodup) && joinableb h0 parts

theorem wellFormedb_sound {h0 : Heap} {parts : List SetPart} (h : wellFormedb h0 parts = true) :
    WellFormedSet h0 parts := by
  unfold wellFormedb at h
  simp only [Bool.and_eq_true, List.all_eq_true, decide_eq_true_eq] at h
  obtain ⟨⟨⟨⟨h1, h2⟩, h3⟩, h4⟩, h5⟩ := h
  exact {
    cabNodup := h1
    cabNode := fun p hp => (h2 p hp).1.1.1.1
    unjoined := fun p hp => (h2 p hp).1.1.1.2
    ownFolders := fun p hp => (h2 p hp).1.1.2
    folderNode := fun p hp => (h2 p hp).1.2
    folderNodup := h3
    fileKeys := h4
    partOK := fun p hp => partOKb_sound (h2 p hp).2
    joinable := joinableb_sound h5 }

/-- the part of cabinet `c` as it stands in heap `h` -/
def SetPart.ofHeap (h : Heap) (c : CabId) : Option SetPart :=
  (h.cab? c).map fun n => ⟨c, n, n.folders.filterMap fun f => (h.folder? f).map (f, ·)⟩

end MsPack.Cab
