import Proofs.Lemmas.LzhRound
/-!
# KWAJ LZH round trip, table encoding 3 (one 4-bit length per symbol)

`lzh_read_lens` case 3 and `BUILD_TREE` around it (with the `STORE_BITS` / `RESTORE_BITS` hand-over
between caller and callee while bits are really being read), for any vector of lengths below 16 the
table builder accepts.  Used by `C05_lzh_type3_flatlens_roundtrip_partial`: the flat lengths sent
explicitly.
-/
namespace MsPack.Kwaj.Lzh
open MsPack MsPack.Generated MsPack.LzhEnc
open MsPack.Lzss (Ring)

/-- type nibbles of any values -/
theorem readTypes_gen (rest : List Bool) : ∀ (vals : List Nat) (acc : List Nat) (st : St Rd), (∀ v ∈ vals, v < 16) →
    View st (vals.flatMap (msbBits 4) ++ rest) →
    Runs (readTypes Rd.src vals.length acc) st (fun ts s => ts = acc.reverse ++ vals ∧ View s rest ∧ Keep st s)
      (fun _ _ => False)
  | [], acc, st, _, hv => by
    rw [List.length_nil, readTypes]
    exact Runs.pure ⟨by simp, by simpa using hv, Keep.refl _⟩
  | v :: vals, acc, st, h16, hv => by
    rw [List.length_cons, readTypes]
    rw [List.flatMap_cons, List.append_assoc] at hv
    refine Runs.bind (readBits_real 4 (by decide) st _ _ hv (msbBits_length 4 v)) ?_ (fun _ _ h => h)
    intro x s1 ⟨hx, hv1, hk1⟩
    rw [bitsValMSB_msbBits, Nat.mod_eq_of_lt (h16 v (List.mem_cons_self ..))] at hx
    subst hx
    refine (readTypes_gen rest vals (x :: acc) s1 (fun v' h => h16 v' (List.mem_cons_of_mem _ h)) hv1).mono ?_ (fun _ _ h => h)
    intro ts s2 ⟨a, b, c⟩
    refine ⟨?_, b, Keep.trans hk1 c⟩
    rw [a, List.reverse_cons, List.append_assoc]
    rfl

/-- ring and output untouched, the other four length arrays untouched -/
def KeepT (t : Tbl) (st s : St Rd) : Prop :=
  s.window = st.window ∧ s.pos = st.pos ∧ s.out = st.out ∧ ∀ t', t' ≠ t → s.lens t' = st.lens t'

theorem setLens_other (st : St Rd) (t t' : Tbl) (a : Array UInt8) (h : t' ≠ t) : (st.setLens t a).lens t' = st.lens t' := by
  cases t <;> cases t' <;> first | rfl | exact absurd rfl h

/-- `for (i = 0; i < numsyms; i++) { READ_BITS_SAFE(c, 4); lens[i] = c; }` on the part `i .. i + k` -/
theorem lensType3_spec (t : Tbl) (rest : List Bool) : ∀ (vals : List Nat) (i : Nat) (st : St Rd), (∀ v ∈ vals, v < 16) →
    i + vals.length ≤ (st.lens t).size → View st (vals.flatMap (msbBits 4) ++ rest) →
    Runs (lensType3 Rd.src t vals.length i) st
      (fun _ s => View s rest ∧ KeepT t st s ∧
        (s.lens t).toList = (st.lens t).toList.take i ++ vals.map (fun v => UInt8.ofNat (v % 256)) ++
          (st.lens t).toList.drop (i + vals.length))
      (fun _ _ => False)
  | [], i, st, _, _, hv => by
    rw [List.length_nil, lensType3]
    exact Runs.pure ⟨by simpa using hv, ⟨rfl, rfl, rfl, fun _ _ => rfl⟩, by simp⟩
  | v :: vals, i, st, h16, hsz, hv => by
    rw [List.length_cons] at hsz
    rw [List.length_cons, lensType3]
    rw [List.flatMap_cons, List.append_assoc] at hv
    refine Runs.bind (readBits_real 4 (by decide) st _ _ hv (msbBits_length 4 v)) ?_ (fun _ _ h => h)
    intro x s1 ⟨hx, hv1, hk1⟩
    rw [bitsValMSB_msbBits, Nat.mod_eq_of_lt (h16 v (List.mem_cons_self ..))] at hx
    subst hx
    have hl1 : s1.lens t = st.lens t := hk1.2.2.2 t
    have hi : i < (s1.lens t).size := by rw [hl1]; omega
    unfold setLen
    refine Runs.bind (Q := fun _ s => s = s1.setLens t ((s1.lens t).set i (UInt8.ofNat (x % 256)) hi)) ?_ ?_ (fun _ _ h => h)
    · apply Runs.get_bind
      simp only
      rw [dif_pos hi]
      exact Runs.set rfl
    · intro _ s2 hs2
      have hf := setLens_fields s1 t ((s1.lens t).set i (UInt8.ofNat (x % 256)) hi)
      have hv2 : View s2 (vals.flatMap (msbBits 4) ++ rest) := by
        rw [hs2]; exact hv1.inKeep ⟨hf.1, hf.2.2.1, hf.2.2.2.1, hf.2.2.2.2.1⟩
      have hl2 : s2.lens t = (s1.lens t).set i (UInt8.ofNat (x % 256)) hi := by rw [hs2, setLens_lens]
      refine (lensType3_spec t rest vals (i + 1) s2 (fun v' h => h16 v' (List.mem_cons_of_mem _ h))
        (by rw [hl2, Array.size_set, hl1]; omega) hv2).mono ?_ (fun _ _ h => h)
      intro _ s3 ⟨hv3, hk3, hl3⟩
      refine ⟨hv3, ⟨?_, ?_, ?_, ?_⟩, ?_⟩
      · rw [hk3.1, hs2, hf.2.2.2.2.2.1, hk1.1]
      · rw [hk3.2.1, hs2, hf.2.2.2.2.2.2.1, hk1.2.1]
      · rw [hk3.2.2.1, hs2, hf.2.2.2.2.2.2.2, hk1.2.2.1]
      · intro t' ht'
        rw [hk3.2.2.2 t' ht', hs2, setLens_other _ _ _ _ ht', hk1.2.2.2 t']
      · rw [hl3, hl2, Array.toList_set, take_set_succ _ _ _ (by rw [Array.length_toList]; exact hi), List.drop_set,
          if_pos (by omega), hl1, show i + 1 + vals.length = i + (vals.length + 1) by omega]
        simp

/-- `lzh_read_lens(lzh, 3, numsyms, lens)` from a state whose saved bit position is the current one -/
theorem readLensBody_type3 (t : Tbl) (vals : List Nat) (hlen : vals.length = t.syms) (h16 : ∀ v ∈ vals, v < 16)
    (st : St Rd) (rest : List Bool) (hsc : st.saved = st.cur)
    (hv : View st (vals.flatMap (msbBits 4) ++ rest)) (hsz : Sizes st) :
    Runs (readLensBody Rd.src t 3) st
      (fun _ s => View s rest ∧ KeepT t st s ∧ s.saved = s.cur ∧
        (s.lens t).toList.map (·.toNat) = vals ∧ (s.lens t).size = t.syms) (fun _ _ => False) := by
  have hv1 : View ({ st with cur := st.saved } : St Rd) (vals.flatMap (msbBits 4) ++ rest) :=
    hv.inKeep ⟨hsc, rfl, rfl, rfl⟩
  have hl1 : ∀ t', (({ st with cur := st.saved } : St Rd).lens t') = st.lens t' := by
    intro t'; rw [lens_with_cur]
  have hbody := lensType3_spec t rest vals 0 _ h16 (by rw [hl1, hsz t, hlen]; omega) hv1
  unfold readLensBody restoreBits storeBits
  apply Runs.modify_bind
  simp only [Nat.reduceEqDiff, ↓reduceIte]
  rw [← hlen]
  refine Runs.bind hbody ?_ (fun _ _ h => h)
  intro _ s ⟨hvs, hks, hls⟩
  rw [hl1, List.take_zero, List.nil_append, Nat.zero_add, List.drop_of_length_le (by rw [Array.length_toList, hsz t, hlen]; omega),
    List.append_nil] at hls
  refine Runs.modify ⟨hvs.inKeep ⟨rfl, rfl, rfl, rfl⟩, ?_, rfl, ?_, ?_⟩
  · obtain ⟨a, b, c', d⟩ := hks
    exact ⟨a, b, c', fun t' ht' => by rw [lens_with_saved, d t' ht', hl1]⟩
  · rw [lens_with_saved, hls, List.map_map]
    have : ∀ v ∈ vals, ((fun x : UInt8 => x.toNat) ∘ fun v => UInt8.ofNat (v % 256)) v = v := by
      intro v hvm
      have := h16 v hvm
      simp only [Function.comp, UInt8.toNat_ofNat']
      omega
    rw [List.map_congr_left this, List.map_id']
  · rw [lens_with_saved, ← Array.length_toList, hls, List.length_map, hlen]

/-- `BUILD_TREE(tbl, 3)`: the lengths are read from the stream, the tree is the one built from them -/
theorem buildTree_type3 (t : Tbl) (vals : List Nat) (hlen : vals.length = t.syms) (h16 : ∀ v ∈ vals, v < 16)
    (c : Huff.Canon) (hc : Huff.build kwajTABLEBITS vals = some c) (st : St Rd) (rest : List Bool)
    (hv : View st (vals.flatMap (msbBits 4) ++ rest)) (hsz : Sizes st) :
    Runs (buildTree Rd.src t 3) st (fun c' s => c' = c ∧ View s rest ∧ ring s = ring st ∧ Sizes s) (fun _ _ => False) := by
  have hsz1 : Sizes ({ st with saved := st.cur } : St Rd) := by intro t'; rw [lens_with_saved]; exact hsz t'
  have hbody := readLensBody_type3 t vals hlen h16 ({ st with saved := st.cur } : St Rd) rest rfl
    (hv.inKeep ⟨rfl, rfl, rfl, rfl⟩) hsz1
  unfold buildTree storeBits
  apply Runs.modify_bind
  unfold readLens
  refine Runs.bind (Q := fun e s => e = Err.ok ∧ View s rest ∧ KeepT t st s ∧ s.saved = s.cur ∧
      (s.lens t).toList.map (·.toNat) = vals ∧ (s.lens t).size = t.syms)
    (Runs.tryCatch (Runs.bind hbody (fun _ s hs => Runs.pure ⟨rfl, hs.1, ?_, hs.2.2⟩) (fun _ _ h => h))) ?_ (fun _ _ h => h)
  · obtain ⟨a, b, c', d⟩ := hs.2.1
    exact ⟨a, b, c', fun t' ht' => by rw [d t' ht', lens_with_saved]⟩
  · intro e s ⟨he, hvs, hks, hsc, hls, hss⟩
    subst he
    simp only [ne_eq, not_true_eq_false, ↓reduceIte]
    unfold restoreBits
    apply Runs.modify_bind
    apply Runs.get_bind
    rw [lens_with_cur, hls, hc]
    refine Runs.pure ⟨rfl, hvs.inKeep ⟨hsc, rfl, rfl, rfl⟩, ?_, ?_⟩
    · show (⟨s.window, s.pos, s.out⟩ : Ring) = ⟨st.window, st.pos, st.out⟩
      rw [hks.1, hks.2.1, hks.2.2.1]
    · intro t'
      rw [lens_with_cur]
      by_cases ht : t' = t
      · rw [ht]; exact hss
      · rw [hks.2.2.2 t' ht]; exact hsz t'

/-! ## the flat lengths sent as a type 3 table -/

theorem canon_flat16 : ∀ sym < 16, canonCode (List.replicate 16 4) sym = flatCode 4 sym := by decide +kernel
theorem canon_flat32 : ∀ sym < 32, canonCode (List.replicate 32 5) sym = flatCode 5 sym := by decide +kernel
theorem canon_flat64 : ∀ sym < 64, canonCode (List.replicate 64 6) sym = flatCode 6 sym := by decide +kernel
theorem canon_flat256 : ∀ sym < 256, canonCode (List.replicate 256 8) sym = flatCode 8 sym := by decide +kernel

theorem lits_flat : ∀ bs : Bytes, (bs.flatMap fun b => canonCode flatLens.literal b.toNat) = bs.flatMap fun b => flatCode 8 b.toNat
  | [] => rfl
  | b :: bs => by
    rw [List.flatMap_cons, List.flatMap_cons, lits_flat bs]
    congr 1
    exact canon_flat256 _ b.toNat_lt

theorem tokBits_flat (short : Bool) (t : Tok) (h : t.wf) : tokBitsWith flatLens short t = t.bits := by
  have hm : (if short = true then flatLens.matchlen2 else flatLens.matchlen1) = List.replicate 16 4 := by
    cases short <;> rfl
  cases t with
  | lits bs =>
    obtain ⟨w1, w2⟩ := h
    simp only [tokBitsWith, Tok.bits, hm, lits_flat]
    rw [canon_flat16 0 (by decide), show flatLens.litlen = List.replicate 32 5 from rfl, canon_flat32 _ (by omega)]
  | mat len offset =>
    obtain ⟨w1, w2, w3⟩ := h
    simp only [tokBitsWith, Tok.bits, hm]
    rw [canon_flat16 _ (by omega), show flatLens.offset = List.replicate 64 6 from rfl, canon_flat64 _ (by omega)]

theorem toksBits_flat : ∀ (toks : List Tok) (short : Bool), (∀ t ∈ toks, t.wf) →
    toksBitsWith flatLens short toks = toks.flatMap Tok.bits
  | [], _, _ => rfl
  | t :: ts, short, h => by
    rw [toksBitsWith, List.flatMap_cons, tokBits_flat short t (h t (List.mem_cons_self ..)),
      toksBits_flat ts _ (fun t' h' => h t' (List.mem_cons_of_mem _ h'))]

/-- `lzh_decompress` on the stream that sends the flat lengths explicitly (type 3 for all five tables) -/
theorem decompressBody_type3_flat (toks : List Tok) (hwf : ∀ t ∈ toks, t.wf) (fuel : Nat) (hfuel : toks.length + 1 ≤ fuel)
    (st : St Rd) (hin : st.inbuf.size = 2048) (hsz : Sizes st)
    (hsrc : st.src.file.drop st.src.pos = encodeLzhWith flatLens toks) :
    Runs (decompressBody Rd.src fuel) st
      (fun _ s => ring s = expand toks ⟨Array.replicate 4096 0x20, 0, st.out⟩)
      (fun e s => e = .ok ∧ ring s = expand toks ⟨Array.replicate 4096 0x20, 0, st.out⟩) := by
  unfold decompressBody restoreBits
  apply Runs.modify_bind
  apply Runs.modify_bind
  apply Runs.modify_bind
  generalize hs3 : ({ ({ ({ st with saved := {}, inputEnd := 0 } : St Rd) with cur := ({} : BitPos) } : St Rd) with
    window := Array.replicate lzssWINDOW_SIZE (UInt8.ofNat lzssWINDOW_FILL), pos := 0 } : St Rd) = s3
  have hring3 : ring s3 = ⟨Array.replicate 4096 0x20, 0, st.out⟩ := by rw [← hs3]; rfl
  have hok3 : (ring s3).ok := by rw [hring3]; exact ⟨by simp, by show 0 < 4096; decide⟩
  have hsz3 : Sizes s3 := by
    rw [← hs3]
    intro t
    cases t
    · exact hsz .MATCHLEN1
    · exact hsz .MATCHLEN2
    · exact hsz .LITLEN
    · exact hsz .OFFSET
    · exact hsz .LITERAL
  generalize hE : ([3, 3, 3, 3, 3, 0].flatMap (msbBits 4)) ++
    (flatLens.matchlen1 ++ flatLens.matchlen2 ++ flatLens.litlen ++ flatLens.offset ++ flatLens.literal).flatMap (msbBits 4) ++
    toksBitsWith flatLens false toks ++ [] = E
  generalize hpad : (8 - E.length % 8) % 8 = pad
  have hpadlt : pad < 8 := by omega
  have hv3 : View s3 (([3, 3, 3, 3, 3, 0] : List Nat).flatMap (msbBits 4) ++ (flatLens.matchlen1.flatMap (msbBits 4) ++
      (flatLens.matchlen2.flatMap (msbBits 4) ++ (flatLens.litlen.flatMap (msbBits 4) ++ (flatLens.offset.flatMap (msbBits 4) ++
      (flatLens.literal.flatMap (msbBits 4) ++ (toks.flatMap Tok.bits ++ List.replicate pad false))))))) := by
    rw [← hs3]
    refine ⟨hin, Nat.le_refl _, Nat.zero_le _, ⟨[], rfl, ?_⟩, fun h => absurd rfl h⟩
    have hp : pending ({ ({ ({ st with saved := {}, inputEnd := 0 } : St Rd) with cur := ({} : BitPos) } : St Rd) with
        window := Array.replicate lzssWINDOW_SIZE (UInt8.ofNat lzssWINDOW_FILL), pos := 0 } : St Rd) =
          encodeLzhWith flatLens toks := by
      simp only [pending, buffered, ↓reduceIte, List.take_zero, List.drop_zero, List.nil_append]
      exact hsrc
    rw [hp, List.nil_append, encodeLzhWith, hE, packBits_bits, hpad, ← hE, toksBits_flat toks false hwf]
    simp only [List.flatMap_append, List.append_assoc, List.append_nil]
  clear hs3 hE
  have h16 : ∀ n w, w < 16 → ∀ v ∈ List.replicate n w, v < 16 := by
    intro n w hw v hv
    rw [(List.mem_replicate.mp hv).2]; exact hw
  refine Runs.bind (readTypes_gen _ [3, 3, 3, 3, 3, 0] [] s3 (by decide) hv3) ?_ (fun _ _ h => h.elim)
  intro types s4 ⟨hty, hv4, hk4⟩
  subst hty
  have hsz4 := sizes_of_keep hk4 hsz3
  obtain ⟨m1, hm1⟩ := Option.isSome_iff_exists.mp (flat_build_some .MATCHLEN1)
  obtain ⟨m2, hm2⟩ := Option.isSome_iff_exists.mp (flat_build_some .MATCHLEN2)
  obtain ⟨ll, hll⟩ := Option.isSome_iff_exists.mp (flat_build_some .LITLEN)
  obtain ⟨off, hoff⟩ := Option.isSome_iff_exists.mp (flat_build_some .OFFSET)
  obtain ⟨li, hli⟩ := Option.isSome_iff_exists.mp (flat_build_some .LITERAL)
  refine Runs.bind (buildTree_type3 .MATCHLEN1 flatLens.matchlen1 rfl (h16 _ _ (by decide)) m1 hm1 s4 _ hv4 hsz4) ?_ (fun _ _ h => h.elim)
  intro c1 s5 ⟨he5, hv5, hr5, hsz5⟩
  subst he5
  refine Runs.bind (buildTree_type3 .MATCHLEN2 flatLens.matchlen2 rfl (h16 _ _ (by decide)) m2 hm2 s5 _ hv5 hsz5) ?_ (fun _ _ h => h.elim)
  intro c2 s6 ⟨he6, hv6, hr6, hsz6⟩
  subst he6
  refine Runs.bind (buildTree_type3 .LITLEN flatLens.litlen rfl (h16 _ _ (by decide)) ll hll s6 _ hv6 hsz6) ?_ (fun _ _ h => h.elim)
  intro c3 s7 ⟨he7, hv7, hr7, hsz7⟩
  subst he7
  refine Runs.bind (buildTree_type3 .OFFSET flatLens.offset rfl (h16 _ _ (by decide)) off hoff s7 _ hv7 hsz7) ?_ (fun _ _ h => h.elim)
  intro c4 s8 ⟨he8, hv8, hr8, hsz8⟩
  subst he8
  refine Runs.bind (buildTree_type3 .LITERAL flatLens.literal (by show (List.replicate 256 8).length = 256; rw [List.length_replicate]) (h16 _ _ (by decide)) li hli s8 _ hv8 hsz8) ?_ (fun _ _ h => h.elim)
  intro c5 s9 ⟨he9, hv9, hr9, hsz9⟩
  subst he9
  have hr : ring s9 = ⟨Array.replicate 4096 0x20, 0, st.out⟩ := by
    rw [hr9, hr8, hr7, hr6, hr5, ring_of_keep hk4, hring3]
  have hc : Codes ⟨c1, c2, c3, c4, c5⟩ := codes_flat _ hm1 hm2 hll hoff hli
  have := mainLoop_spec _ hc toks fuel s9 false pad hfuel hwf hpadlt hv9 (by rw [hr9, hr8, hr7, hr6, hr5, ring_of_keep hk4]; exact hok3)
  rw [hr] at this
  exact this

end MsPack.Kwaj.Lzh
