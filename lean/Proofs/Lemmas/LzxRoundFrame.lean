import Proofs.Lemmas.LzxRound
/-!
# LZX round trip (streams of uncompressed blocks): one frame, the frame loop, `decompress`
-/
set_option linter.unusedSimpArgs false
set_option linter.unusedVariables false
set_option linter.unusedSectionVars false
namespace MsPack.Lzx
open MsPack MsPack.Generated
variable {σ : Type} {S : Src σ} {content : σ → Bytes}

theorem nextFrame_congr {mark extra : Bytes} {s s' : St σ} {D' : Bytes} {k : Nat}
    (h : NextFrame content mark extra s' D' k) (h1 : s.bits = s'.bits)
    (h2 : remBytes content s = remBytes content s') (h3 : s.blockRemaining = s'.blockRemaining)
    (h4 : s.blockType = s'.blockType) (h5 : s.blockLength = s'.blockLength) :
    NextFrame content mark extra s D' k := by
  unfold NextFrame at h ⊢
  rw [h1, h2, h3, h4, h5]
  exact h

/-- what one frame of `F` bytes, `i` of them written, leaves (relative to the state `s2` at the
    start of its block loop) -/
structure FrOut (content : σ → Bytes) (mark extra D : Bytes) (s2 s : St σ) (F i k : Nat) : Prop where
  offset : s.offset = s2.offset + i
  frame : s.frame = s2.frame + 1
  oInE8 : s.oInE8 = false
  oPtr : s.oPtr = s2.framePosn + i
  oEnd : s.oEnd = s2.framePosn + F
  framePosn : s.framePosn = if s2.framePosn + F = s2.windowSize then 0 else s2.framePosn + F
  windowPosn : s.windowPosn = if s2.framePosn + F = s2.windowSize then 0 else s2.framePosn + F
  length : s.length = s2.length
  windowSize : s.windowSize = s2.windowSize
  isDelta : s.isDelta = s2.isDelta
  resetInterval : s.resetInterval = s2.resetInterval
  inbufSize : s.inbufSize = s2.inbufSize
  error : s.error = s2.error
  headerRead : s.headerRead = s2.headerRead
  intelFilesize : s.intelFilesize = s2.intelFilesize
  winSz : s.window.size = s2.window.size
  data : (s.window.toList.take (s2.framePosn + F)).drop s2.framePosn = (D.drop s2.offset).take F
  bits : s.bits = []
  next : F = 32768 → s2.offset + F < D.length → NextFrame content mark extra s (D.drop (s2.offset + F)) k

theorem take_drop_splice {α : Type} (L : List α) (p F : Nat) (d : List α) (tail : List α) (hd : d.length = F)
    (hp : p ≤ L.length) : ((L.take p ++ d ++ tail).take (p + F)).drop p = d := by
  have hl : (L.take p).length = p := by rw [List.length_take]; omega
  rw [List.append_assoc, List.take_append, hl, List.take_of_length_le (by omega), List.drop_append, hl,
    List.drop_eq_nil_of_le (by omega), Nat.sub_self, List.drop_zero, List.nil_append,
    show p + F - p = F by omega, List.take_append, List.take_of_length_le (by omega), hd, Nat.sub_self,
    List.take_zero, List.append_nil]

/-- from the end of the block loop to the end of the frame -/
theorem fbAlign_tot (mark extra D : Bytes) (F outBytes k : Nat) (s2 s3 : St σ)
    (hfc : fc (core s3) = fc (core s2)) (hbits : s3.bits = []) (hwp : s3.windowPosn = s2.framePosn + F)
    (hsz : s3.window.size = s2.window.size) (hwin : s2.window.size = s2.windowSize)
    (hfit : s2.framePosn + F ≤ s2.windowSize) (hws : s2.windowSize ≤ 33554432) (hF : F ≤ 32768)
    (hpend : s2.oPtr = s2.oEnd) (hif : s2.intelFilesize = 0) (hfr : s2.frame < 2147483648)
    (hdata : (s3.window.toList.take (s2.framePosn + F)).drop s2.framePosn = (D.drop s2.offset).take F)
    (hnext : F = 32768 → s2.offset + F < D.length → NextFrame content mark extra s3 (D.drop (s2.offset + F)) k) :
    tot (fbAlign S F outBytes) (fun chunk s => chunk.toList = ((D.drop s2.offset).take F).take (min outBytes F) ∧
      FrOut content mark extra D s2 s F (min outBytes F) k) s3 := by
  have f1 : s3.oPtr = s2.oPtr := congrArg FCore.oPtr hfc
  have f2 : s3.oEnd = s2.oEnd := congrArg FCore.oEnd hfc
  have f3 : s3.intelFilesize = s2.intelFilesize := congrArg FCore.intelFilesize hfc
  have f4 : s3.framePosn = s2.framePosn := congrArg FCore.framePosn hfc
  have f5 : s3.windowSize = s2.windowSize := congrArg FCore.windowSize hfc
  have f6 : s3.frame = s2.frame := congrArg FCore.frame hfc
  have f7 : s3.offset = s2.offset := congrArg FCore.offset hfc
  unfold fbAlign removeBits
  simp only [tot_bind, tot_get, tot_ite, tot_pure, tot_modify, hbits, List.length_nil]
  refine ⟨fun h => absurd h (by omega), fun _ => ⟨fun h => absurd rfl h, fun _ => ?_⟩⟩
  unfold fbE8
  simp only [tot_bind, tot_get, tot_ite, tot_pure]
  refine ⟨fun h => absurd (by rw [f1, f2]; exact hpend) h, fun _ => ⟨fun h => absurd (by rw [f3]; exact hif) h.2.1, fun _ => ?_⟩⟩
  simp only [tot_set]
  unfold fbWrite
  simp only [tot_bind, tot_get]
  have hi : (if outBytes < F then outBytes else F) = min outBytes F := by split <;> omega
  rw [hi]
  generalize hI : min outBytes F = i
  have hiF : i ≤ F := by omega
  have hsl : outSlice ({ s3 with oInE8 := false, oPtr := s3.framePosn, oEnd := s3.framePosn + F } : St σ) i =
      .ok (s3.window.extract s3.framePosn (s3.framePosn + i)) := by
    unfold outSlice
    simp only [Bool.false_eq_true, if_false]
    rw [if_pos (by rw [hsz, hwin, f4]; omega)]
  rw [hsl]
  simp only [tot_bind, tot_set, tot_pure]
  have e1 : (s3.framePosn + F) % 4294967296 = s2.framePosn + F := by rw [f4]; omega
  have e2 : (s3.frame + 1) % 4294967296 = s2.frame + 1 := by rw [f6]; omega
  rw [e1, e2]
  refine ⟨?_, ?_⟩
  · rw [Array.toList_extract, List.extract_eq_drop_take, f4, ← hdata]
    rw [show s2.framePosn + i - s2.framePosn = i by omega, List.drop_take,
      show s2.framePosn + F - s2.framePosn = F by omega, List.take_take, Nat.min_eq_left hiF]
  · exact
      { offset := by show s3.offset + i = _; rw [f7]
        frame := rfl
        oInE8 := rfl
        oPtr := by show s3.framePosn + i = _; rw [f4]
        oEnd := by show s3.framePosn + F = _; rw [f4]
        framePosn := by show (if s2.framePosn + F = s3.windowSize then 0 else s2.framePosn + F) = _; rw [f5]
        windowPosn := by
          show (if s3.windowPosn = s3.windowSize then 0 else s3.windowPosn) = _
          rw [hwp, f5]
        length := congrArg FCore.length hfc
        windowSize := f5
        isDelta := congrArg FCore.isDelta hfc
        resetInterval := congrArg FCore.resetInterval hfc
        inbufSize := congrArg FCore.inbufSize hfc
        error := congrArg FCore.error hfc
        headerRead := congrArg FCore.headerRead hfc
        intelFilesize := f3
        winSz := hsz
        data := hdata
        bits := hbits
        next := fun a b => nextFrame_congr (hnext a b) rfl (remBytes_congr _ _ rfl rfl rfl) rfl rfl rfl }

/-- one frame from the start of its block loop -/
theorem fbDecode_tot (hF : Zip.Feeds S content) (hN : ∀ s, S.lzxLength s = none) (delta : Bool) (extra D : Bytes)
    (fuel outBytes : Nat) (s2 : St σ) (cur : Bytes) (bs : List Bytes)
    (hlen : s2.length = D.length) (hlt : s2.offset < D.length) (hn : D.length < 2147483648)
    (hwin : s2.window.size = s2.windowSize) (hdvd : s2.windowSize % 32768 = 0) (hws : s2.windowSize ≤ 33554432)
    (hwpfp : s2.windowPosn = s2.framePosn) (hal : s2.framePosn % 32768 = 0) (hfplt : s2.framePosn < s2.windowSize)
    (hpend : s2.oPtr = s2.oEnd) (hif : s2.intelFilesize = 0) (hb : 1 ≤ s2.inbufSize) (hfr : s2.frame < 2147483648)
    (hT : TopX (LzxEnc.chunkMark delta) extra s2.blockRemaining s2.blockType s2.blockLength s2.bits
      (remBytes content s2) 32768 cur bs)
    (hD : cur ++ bs.flatten = D.drop s2.offset) (hB : BOk bs) (hcl : cur.length < 16777216)
    (hfuel : cnt cur bs + 65538 ≤ fuel) :
    tot (fbDecode S fuel outBytes) (fun chunk s =>
      chunk.toList = ((D.drop s2.offset).take (min 32768 (D.length - s2.offset))).take
        (min outBytes (min 32768 (D.length - s2.offset))) ∧
      FrOut content (LzxEnc.chunkMark delta) extra D s2 s (min 32768 (D.length - s2.offset))
        (min outBytes (min 32768 (D.length - s2.offset))) (cnt cur bs)) s2 := by
  have e32 : lzxFRAME_SIZE = 32768 := rfl
  generalize hFd : min 32768 (D.length - s2.offset) = F
  have hF1 : F ≤ 32768 := by omega
  have hF0 : 1 ≤ F := by omega
  unfold fbDecode
  simp only [tot_bind, tot_get, e32]
  have hFe : (if s2.length ≠ 0 ∧ (s2.length : Int) - s2.offset < ((32768 : Nat) : Int)
      then toU32 ((s2.length : Int) - s2.offset) else 32768) = F := by
    split
    · rw [toU32_nonneg _ (by omega) (by omega)]; omega
    · omega
  rw [hFe]
  have hbt : ((s2.framePosn : Int) + (F : Int) - (s2.windowPosn : Int)) = (F : Int) := by omega
  rw [hbt, toS32_eq _ (by omega) (by omega)]
  have hlenD : cur.length + bs.flatten.length = D.length - s2.offset := by
    have := congrArg List.length hD
    rwa [List.length_append, List.length_drop] at this
  refine tot_mono (blockLoop_tot hF hN delta extra fuel F s2 32768 cur bs hT hB hcl (by omega) (by omega)
    (by omega) hb (by rw [hwin, hwpfp]; omega) hfuel) ?_
  intro _ s3 ⟨⟨g1, g2, g3, g4⟩, hnext, hbits⟩
  have f4 : s3.framePosn = s2.framePosn := congrArg FCore.framePosn g1
  have hwp3 : s3.windowPosn = s2.framePosn + F := by rw [g2, hwpfp]
  have hchk : toU32 ((s3.windowPosn : Int) - s3.framePosn) = F := by
    rw [toU32_nonneg _ (by omega) (by omega)]; omega
  simp only [tot_ite, tot_pure, tot_bind]
  refine ⟨fun h => absurd hchk h, fun _ => ?_⟩
  refine fbAlign_tot (LzxEnc.chunkMark delta) extra D F outBytes (cnt cur bs) s2 s3 g1 (hbits (Or.inr (by omega))) hwp3 g3 hwin
    (by omega) hws hF1 hpend hif hfr ?_ ?_
  · rw [g4, hwpfp, ← hD]
    exact take_drop_splice _ _ _ _ _ (by rw [List.length_take, List.length_append]; omega)
      (by rw [Array.length_toList, hwin]; omega)
  · intro a b
    have := hnext (by omega) (by omega)
    rwa [hD, List.drop_drop] at this

/-! ## the start of a frame -/

theorem blockHeader_first (len r0 r1 r2 : Nat) : ∃ W, W.length % 2 = 0 ∧
    LzxEnc.blockHeader [false] len r0 r1 r2 = W ++ regs r0 r1 r2 ∧
    wordsBits W = [false] ++ (hdrBits len ++ [false, false, false, false]) := by
  have hl : ([false] ++ [false, true, true] ++ LzxEnc.msbBits 24 len).length = 28 := by
    simp only [List.length_append, msbBits_length, List.length_cons, List.length_nil]
  have hl2 : ([false] ++ (hdrBits len ++ LzxEnc.padBits 28)).length = 32 := by
    simp only [List.length_append, hdrBits_length, List.length_cons, List.length_nil, padBits_28]
  refine ⟨LzxEnc.packWords 3 ([false] ++ (hdrBits len ++ LzxEnc.padBits 28)), ?_, ?_, ?_⟩
  · exact (wordsBits_packWords 3 _ (by rw [hl2]) (by rw [hl2]; decide)).2
  · unfold LzxEnc.blockHeader
    have hl' : ([false] ++ ([false, true, true] ++ LzxEnc.msbBits 24 len)).length = 28 := by
      rw [← List.append_assoc]; exact hl
    simp only [regs, hdrBits, List.append_assoc, hl']
  · rw [(wordsBits_packWords 3 _ (by rw [hl2]) (by rw [hl2]; decide)).1, padBits_28]

/-- the input side at the start of a frame: the chunk-size word (LZX DELTA), then either the top of a
    block-loop iteration, or - first frame - the header bit and the first block's header -/
def StartX (content : σ → Bytes) (delta : Bool) (extra : Bytes) (st : St σ) (cur : Bytes) (bs : List Bytes) : Prop :=
  st.bits = [] ∧
  ((st.headerRead = true ∧ st.intelFilesize = 0 ∧ ∃ X, remBytes content st = LzxEnc.chunkMark delta ++ X ∧
      TopX (LzxEnc.chunkMark delta) extra st.blockRemaining st.blockType st.blockLength [] X 32768 cur bs) ∨
   (st.headerRead = false ∧ cur = [] ∧ st.blockRemaining = 0 ∧ st.blockType ≠ 3 ∧ ∃ b bs', bs = b :: bs' ∧
      remBytes content st = LzxEnc.chunkMark delta ++ (LzxEnc.blockHeader [false] b.length 1 1 1 ++
        (tl (LzxEnc.chunkMark delta) b.length 32768 b b.length bs' ++ extra))))

theorem fbDelta_tot (hF : Zip.Feeds S content) (hN : ∀ s, S.lzxLength s = none) (delta : Bool) (fuel outBytes : Nat)
    (Q : Array UInt8 → St σ → Prop) (st : St σ) (X : Bytes) (hbits : st.bits = [])
    (hrem : remBytes content st = LzxEnc.chunkMark delta ++ X) (hd : st.isDelta = delta) (hb : 1 ≤ st.inbufSize)
    (hk : ∀ s1, core s1 = core st → s1.window = st.window → s1.bits = [] → remBytes content s1 = X →
      tot (fbHeader S fuel outBytes) Q s1) : tot (fbDelta S fuel outBytes) Q st := by
  unfold fbDelta removeBits
  simp only [tot_bind, tot_get, tot_ite, tot_pure, tot_modify]
  refine ⟨fun hdl => ?_, fun hdl => ?_⟩
  · have hdt : delta = true := by rw [← hd]; exact hdl
    subst hdt
    have hHl : (wordsBits [0, 0]).length = 16 := by rw [wordsBits_length _ rfl]; rfl
    refine tot_mono (ensureBits_tot hF hN 16 (wordsBits [0, 0]) X 3 st hb ⟨[0, 0], rfl, hrem, by rw [hbits]; rfl⟩
      (by rw [hHl]; decide) (by omega)) ?_
    intro _ s1 ⟨hk1, ⟨W, hW, hr1, hb1⟩, h16, _⟩
    have hWnil : W = [] := by
      have h := congrArg List.length hb1
      rw [List.length_append, wordsBits_length W hW, hHl] at h
      match W, hW, h with
      | [], _, _ => rfl
      | [_], hW, _ => simp at hW
      | _ :: _ :: _, _, h => simp only [List.length_cons] at h; omega
    subst hWnil
    have hb1' : s1.bits = wordsBits [0, 0] := by simpa [wordsBits] using hb1
    refine hk _ hk1.1 hk1.2 ?_ ((remBytes_congr _ s1 rfl rfl rfl).trans (by simpa using hr1))
    show s1.bits.drop 16 = []
    rw [hb1']
    exact List.drop_eq_nil_of_le (by rw [hHl]; decide)
  · have hdf : delta = false := by rw [← hd]; simpa using hdl
    subst hdf
    exact hk st rfl rfl hbits (by simpa [LzxEnc.chunkMark] using hrem)

/-- the states a frame goes through before its block loop agree on everything the frame level
    looks at, except that the stream header has been read -/
structure Pre2 (st s2 : St σ) : Prop where
  offset : s2.offset = st.offset
  framePosn : s2.framePosn = st.framePosn
  windowPosn : s2.windowPosn = st.windowPosn
  windowSize : s2.windowSize = st.windowSize
  frame : s2.frame = st.frame
  length : s2.length = st.length
  isDelta : s2.isDelta = st.isDelta
  resetInterval : s2.resetInterval = st.resetInterval
  inbufSize : s2.inbufSize = st.inbufSize
  error : s2.error = st.error
  oPtr : s2.oPtr = st.oPtr
  oEnd : s2.oEnd = st.oEnd
  window : s2.window = st.window
  headerRead : s2.headerRead = true
  intelFilesize : s2.intelFilesize = 0

theorem pre2_of_core {st s2 : St σ} (h : core s2 = core st) (hw : s2.window = st.window)
    (h1 : st.headerRead = true) (h2 : st.intelFilesize = 0) : Pre2 st s2 :=
  { offset := congrArg Core.offset h, framePosn := congrArg Core.framePosn h,
    windowPosn := congrArg Core.windowPosn h, windowSize := congrArg Core.windowSize h,
    frame := congrArg Core.frame h, length := congrArg Core.length h, isDelta := congrArg Core.isDelta h,
    resetInterval := congrArg Core.resetInterval h, inbufSize := congrArg Core.inbufSize h,
    error := congrArg Core.error h, oPtr := congrArg Core.oPtr h, oEnd := congrArg Core.oEnd h, window := hw,
    headerRead := (congrArg Core.headerRead h).trans h1,
    intelFilesize := (congrArg Core.intelFilesize h).trans h2 }

/-- **one frame** -/
theorem frameBody_tot (hF : Zip.Feeds S content) (hN : ∀ s, S.lzxLength s = none) (delta : Bool) (extra D : Bytes)
    (fuel outBytes : Nat) (st : St σ) (cur : Bytes) (bs : List Bytes)
    (hlen : st.length = D.length) (hlt : st.offset < D.length) (hn : D.length < 2147483648)
    (hwin : st.window.size = st.windowSize) (hdvd : st.windowSize % 32768 = 0) (hws : st.windowSize ≤ 33554432)
    (hwpfp : st.windowPosn = st.framePosn) (hal : st.framePosn % 32768 = 0) (hfplt : st.framePosn < st.windowSize)
    (hpend : st.oPtr = st.oEnd) (hb : 1 ≤ st.inbufSize) (hfr : st.frame < 2147483648)
    (hd : st.isDelta = delta) (hri : st.resetInterval = 0)
    (hS : StartX content delta extra st cur bs)
    (hD : cur ++ bs.flatten = D.drop st.offset) (hB : BOk bs) (hcl : cur.length < 16777216)
    (hfuel : cnt cur bs + 65538 ≤ fuel) :
    tot (frameBody S fuel outBytes) (fun chunk s => ∃ s2, Pre2 st s2 ∧
      chunk.toList = ((D.drop st.offset).take (min 32768 (D.length - st.offset))).take
        (min outBytes (min 32768 (D.length - st.offset))) ∧
      FrOut content (LzxEnc.chunkMark delta) extra D s2 s (min 32768 (D.length - st.offset))
        (min outBytes (min 32768 (D.length - st.offset))) (cnt cur bs)) st := by
  have common : ∀ s2 : St σ, Pre2 st s2 →
      TopX (LzxEnc.chunkMark delta) extra s2.blockRemaining s2.blockType s2.blockLength s2.bits
        (remBytes content s2) 32768 cur bs →
      tot (fbLen S fuel outBytes) (fun chunk s => ∃ s2, Pre2 st s2 ∧
        chunk.toList = ((D.drop st.offset).take (min 32768 (D.length - st.offset))).take
          (min outBytes (min 32768 (D.length - st.offset))) ∧
        FrOut content (LzxEnc.chunkMark delta) extra D s2 s (min 32768 (D.length - st.offset))
          (min outBytes (min 32768 (D.length - st.offset))) (cnt cur bs)) s2 := by
    intro s2 p hT
    unfold fbLen
    simp only [tot_bind, tot_get, tot_ite, tot_pure]
    have hl2 : s2.length ≠ 0 := by rw [p.length, hlen]; omega
    refine ⟨fun h => absurd h.1 hl2, fun _ => ?_⟩
    refine tot_mono (fbDecode_tot hF hN delta extra D fuel outBytes s2 cur bs (by rw [p.length]; exact hlen)
      (by rw [p.offset]; exact hlt) hn (by rw [p.window, p.windowSize]; exact hwin) (by rw [p.windowSize]; exact hdvd)
      (by rw [p.windowSize]; exact hws) (by rw [p.windowPosn, p.framePosn]; exact hwpfp)
      (by rw [p.framePosn]; exact hal) (by rw [p.framePosn, p.windowSize]; exact hfplt)
      (by rw [p.oPtr, p.oEnd]; exact hpend) p.intelFilesize (by rw [p.inbufSize]; exact hb)
      (by rw [p.frame]; exact hfr) hT (by rw [p.offset]; exact hD) hB hcl hfuel) ?_
    intro chunk s ⟨h1, h2⟩
    rw [p.offset] at h1 h2
    exact ⟨s2, p, h1, h2⟩
  obtain ⟨hbits, hcase⟩ := hS
  rw [frameBody_eq]
  simp only [tot_bind, tot_get, tot_ite, tot_pure, tot_modify]
  refine ⟨fun h => absurd hri h.1, fun _ => ?_⟩
  rcases hcase with ⟨hh, hi0, X, hrem, hT⟩ | ⟨hh, hc0, hbr, hbt, b, bs', hbs, hrem⟩
  · refine fbDelta_tot hF hN delta fuel outBytes _ st X hbits hrem hd hb ?_
    intro s1 hc hw hb1 hr1
    have hh1 : s1.headerRead = true := (congrArg Core.headerRead hc).trans hh
    unfold fbHeader
    simp only [tot_bind, tot_get, tot_ite, tot_pure, hh1, Bool.not_true, Bool.false_eq_true, false_implies,
      true_and, not_false_eq_true, true_implies]
    refine common s1 (pre2_of_core hc hw hh hi0) ?_
    have q1 : s1.blockRemaining = st.blockRemaining := congrArg Core.blockRemaining hc
    have q2 : s1.blockType = st.blockType := congrArg Core.blockType hc
    have q3 : s1.blockLength = st.blockLength := congrArg Core.blockLength hc
    rw [q1, q2, q3, hb1, hr1]
    exact hT
  · subst hc0 hbs
    refine fbDelta_tot hF hN delta fuel outBytes _ st _ hbits hrem hd hb ?_
    intro s1 hc hw hb1 hr1
    have hh1 : s1.headerRead = false := (congrArg Core.headerRead hc).trans hh
    have hib1 : 1 ≤ s1.inbufSize := by
      have : s1.inbufSize = st.inbufSize := congrArg Core.inbufSize hc
      rw [this]; exact hb
    obtain ⟨W, hW, hhdr, hwb⟩ := blockHeader_first b.length 1 1 1
    unfold fbHeader
    simp only [tot_bind, tot_get, tot_ite, tot_pure, hh1, Bool.not_false, true_implies, not_true_eq_false,
      false_implies, and_true]
    refine tot_mono (readBits_tot hF hN 1 (by omega) s1 hib1 [false] (hdrBits b.length ++ [false, false, false, false])
      (regs 1 1 1 ++ (tl (LzxEnc.chunkMark delta) b.length 32768 b b.length bs' ++ extra))
      ⟨W, hW, by rw [hr1, hhdr, List.append_assoc], by rw [hb1]; exact hwb⟩ rfl) ?_
    intro i s1' ⟨hi, hk1, hH1, _⟩
    have hi0 : i = 0 := hi
    subst hi0
    refine ⟨fun h => absurd rfl h, fun _ => ?_⟩
    have hv : toS32 ((0 * 65536 ||| 0 : Nat) : Int) = 0 := by decide
    rw [hv]
    simp only [tot_modify]
    have c1 : core s1' = core st := hk1.1.trans hc
    have q1 : s1'.blockRemaining = st.blockRemaining := congrArg Core.blockRemaining c1
    have q2 : s1'.blockType = st.blockType := congrArg Core.blockType c1
    have hrb := remBytes_congr (content := content) ({ s1' with intelFilesize := 0, headerRead := true }) s1' rfl rfl rfl
    refine common _
      { offset := congrArg Core.offset c1, framePosn := congrArg Core.framePosn c1,
        windowPosn := congrArg Core.windowPosn c1, windowSize := congrArg Core.windowSize c1,
        frame := congrArg Core.frame c1, length := congrArg Core.length c1, isDelta := congrArg Core.isDelta c1,
        resetInterval := congrArg Core.resetInterval c1, inbufSize := congrArg Core.inbufSize c1,
        error := congrArg Core.error c1, oPtr := congrArg Core.oPtr c1, oEnd := congrArg Core.oEnd c1,
        window := hk1.2.trans hw, headerRead := rfl, intelFilesize := rfl } ?_
    rw [hrb]
    show TopX (LzxEnc.chunkMark delta) extra s1'.blockRemaining s1'.blockType s1'.blockLength s1'.bits
      (remBytes content s1') 32768 [] (b :: bs')
    refine ⟨q1.trans hbr, fun h => absurd rfl h, ?_⟩
    intro _ b2 bs2 hb2
    cases hb2
    obtain ⟨W', hW', hr', hb'⟩ := hH1
    exact ⟨b.length, Nat.le_refl _, [false, false, false, false], 1, 1, 1, by decide, by decide,
      Or.inl ⟨fun h => hbt (q2.symm.trans h.1), W', hW', hr', hb'⟩⟩

/-! ## between frames -/

/-- the invariant of a decoder state between frames and between calls: `D` is the whole output,
    `offset` bytes of it have been written, `oEnd - oPtr` more are decoded and pending in the window -/
structure G (content : σ → Bytes) (delta : Bool) (extra D : Bytes) (k : Nat) (st : St σ) : Prop where
  err : st.error = .ok
  len : st.length = D.length
  win : st.window.size = st.windowSize
  dvd : st.windowSize % 32768 = 0
  wsLe : st.windowSize ≤ 33554432
  dl : st.isDelta = delta
  ri : st.resetInterval = 0
  ibs : 1 ≤ st.inbufSize
  ple : st.oPtr ≤ st.oEnd
  tle : st.offset + (st.oEnd - st.oPtr) ≤ D.length
  e8 : st.oInE8 = true → st.oPtr = 0 ∧ st.oEnd = 0
  pend : st.oInE8 = false → st.oEnd ≤ st.window.size ∧
    (st.window.toList.take st.oEnd).drop st.oPtr = (D.drop st.offset).take (st.oEnd - st.oPtr)
  more : st.offset + (st.oEnd - st.oPtr) < D.length →
    st.frame * 32768 = st.offset + (st.oEnd - st.oPtr) ∧ st.windowPosn = st.framePosn ∧
    st.framePosn % 32768 = 0 ∧ st.framePosn < st.windowSize ∧
    ∃ cur bs, cur ++ bs.flatten = D.drop (st.offset + (st.oEnd - st.oPtr)) ∧ BOk bs ∧ cur.length < 16777216 ∧
      cnt cur bs ≤ k ∧ StartX content delta extra st cur bs
  fin : st.offset + (st.oEnd - st.oPtr) = D.length → D.length ≤ st.frame * 32768

theorem G_after_frame {delta : Bool} {extra D : Bytes} {k : Nat} {st s2 s : St σ} {F i kc : Nat}
    (g : G content delta extra D k st) (hp : st.oPtr = st.oEnd) (hlt : st.offset < D.length)
    (p : Pre2 st s2) (hFd : F = min 32768 (D.length - st.offset)) (hi : i ≤ F) (hkc : kc ≤ k)
    (o : FrOut content (LzxEnc.chunkMark delta) extra D s2 s F i kc) : G content delta extra D k s := by
  obtain ⟨m1, m2, m3, m4, _⟩ := g.more (by omega)
  have hwin := g.win; have hdvd := g.dvd
  have hfit : st.framePosn + 32768 ≤ st.windowSize := by omega
  have q1 := o.offset; have q2 := o.frame; have q4 := o.oPtr; have q5 := o.oEnd
  rw [p.offset] at q1; rw [p.frame] at q2; rw [p.framePosn] at q4 q5
  have q6 := o.framePosn; have q7 := o.windowPosn
  rw [p.framePosn, p.windowSize] at q6 q7
  have q8 : s.windowSize = st.windowSize := o.windowSize.trans p.windowSize
  have q9 : s.window.size = st.window.size := o.winSz.trans (by rw [p.window])
  exact
    { err := o.error.trans (p.error.trans g.err)
      len := o.length.trans (p.length.trans g.len)
      win := by rw [q9, q8]; exact hwin
      dvd := by rw [q8]; exact hdvd
      wsLe := by rw [q8]; exact g.wsLe
      dl := o.isDelta.trans (p.isDelta.trans g.dl)
      ri := o.resetInterval.trans (p.resetInterval.trans g.ri)
      ibs := by rw [o.inbufSize, p.inbufSize]; exact g.ibs
      ple := by omega
      tle := by omega
      e8 := fun h => by rw [o.oInE8] at h; cases h
      pend := fun _ => by
        refine ⟨by omega, ?_⟩
        have hd := o.data
        rw [p.framePosn, p.offset] at hd
        rw [q5, q4, ← List.drop_drop, hd, List.drop_take, List.drop_drop, q1]
        congr 1
        omega
      more := fun h => by
        have hF : F = 32768 := by omega
        obtain ⟨cur', bs', n1, n2, n3, n4, n5, X, n6, n7⟩ := o.next hF (by rw [p.offset]; omega)
        have a1 : s.frame * 32768 = s.offset + (s.oEnd - s.oPtr) := by
          have h2 : s.frame * 32768 = st.frame * 32768 + 32768 := by rw [q2, Nat.add_mul, Nat.one_mul]
          rw [h2, m1]
          clear q6 q7 n7 n6 n5 n1 h2 m1 q2
          omega
        refine ⟨a1, by rw [q6, q7], by rw [q6]; split <;> omega, by rw [q6, q8]; split <;> omega,
          cur', bs', ?_, n2, n3, by omega, n5, Or.inl ⟨o.headerRead.trans p.headerRead,
            o.intelFilesize.trans p.intelFilesize, X, n6, n7⟩⟩
        rw [n1, p.offset]
        congr 1
        omega
      fin := fun h => by omega }

theorem Nat.le_add_sub_of_le' (a b : Nat) : a ≤ b + (a - b) := by omega

theorem take_take_drop {α : Type} (X : List α) (i o : Nat) (h : i ≤ o) :
    X.take i ++ (X.drop i).take (o - i) = X.take o := by
  have := List.take_add (l := X) (i := i) (j := o - i)
  rw [show i + (o - i) = o by omega] at this
  exact this.symm

theorem div_lt_frame (a fr : Nat) (h : a / 32768 + 1 ≤ fr) : a < fr * 32768 := by
  have : a / 32768 < fr := by omega
  exact (Nat.div_lt_iff_lt_mul (by decide)).mp this

theorem frame_le_div (a fr : Nat) (h : fr < a / 32768 + 1) : fr * 32768 ≤ a := by
  have : fr ≤ a / 32768 := by omega
  exact (Nat.le_div_iff_mul_le (by decide)).mp this

/-- **the frame loop** -/
theorem frameLoop_tot (hF : Zip.Feeds S content) (hN : ∀ s, S.lzxLength s = none) (delta : Bool) (extra D : Bytes)
    (hn : D.length < 2147483648) (hn1 : 1 ≤ D.length) (k fuel endFrame : Nat) (hfuel : k + 65538 ≤ fuel) :
    ∀ (m : Nat) (st : St σ) (outBytes : Nat) (acc : Array UInt8), G content delta extra D k st →
    (st.oPtr = st.oEnd ∨ outBytes = 0) → st.offset + outBytes ≤ D.length →
    endFrame = (st.offset + outBytes) / 32768 + 1 → endFrame ≤ st.frame + m →
    ∃ st', frameLoop S fuel endFrame m st outBytes acc =
        .ok ⟨.ok, acc.toList ++ (D.drop st.offset).take outBytes, st'⟩ ∧
      G content delta extra D k st' ∧ st'.offset = st.offset + outBytes := by
  -- when the loop stops nothing more is asked for
  have stop : ∀ (st : St σ) (outBytes : Nat), G content delta extra D k st →
      (st.oPtr = st.oEnd ∨ outBytes = 0) → st.offset + outBytes ≤ D.length →
      endFrame = (st.offset + outBytes) / 32768 + 1 →
      ¬ (st.frame < endFrame ∧ ¬ (st.length ≠ 0 ∧ st.offset ≥ st.length)) → outBytes = 0 := by
    intro st outBytes g hp ho he hc
    rcases hp with hp | hp
    · have hlen := g.len
      by_cases hlt : st.offset < D.length
      · obtain ⟨m1, _⟩ := g.more (by omega)
        have hfr : ¬ st.frame < endFrame := fun h => hc ⟨h, by omega⟩
        rw [hp, Nat.sub_self, Nat.add_zero] at m1
        have h3 := div_lt_frame (st.offset + outBytes) st.frame (by omega)
        rw [m1] at h3
        omega
      · omega
    · exact hp
  intro m
  induction m with
  | zero =>
    intro st outBytes acc g hp ho he hm
    have h0 := stop st outBytes g hp ho he (fun h => by omega)
    subst h0
    refine ⟨st, ?_, g, rfl⟩
    rw [frameLoop, if_neg (by omega), if_neg (by simp)]
    simp
  | succ m ih =>
    intro st outBytes acc g hp ho he hm
    rw [frameLoop]
    split
    · rename_i hc
      have hlen := g.len
      have hlt : st.offset < D.length := by
        have := hc.2
        rw [hlen] at this
        omega
      have hpe : st.oPtr = st.oEnd := by
        rcases hp with hp | hp
        · exact hp
        · subst hp
          have hfr := hc.1
          rw [he, Nat.add_zero] at hfr
          have hple := g.ple
          have h4 := frame_le_div st.offset st.frame hfr
          by_cases hne : st.oPtr = st.oEnd
          · exact hne
          · exfalso
            by_cases hT : st.offset + (st.oEnd - st.oPtr) < D.length
            · obtain ⟨m1, _⟩ := g.more hT
              rw [m1] at h4
              omega
            · have := g.fin (by have := g.tle; omega)
              omega
      obtain ⟨m1, m2, m3, m4, cur, bs, c1, c2, c3, c4, c5⟩ := g.more (by omega)
      rw [hpe, Nat.sub_self, Nat.add_zero] at m1 c1
      have hfr : st.frame < 2147483648 := by
        have : st.frame ≤ st.frame * 32768 := Nat.le_mul_of_pos_right _ (by decide)
        rw [m1] at this
        omega
      have hfb := frameBody_tot hF hN delta extra D fuel outBytes st cur bs g.len hlt hn g.win g.dvd g.wsLe m2 m3 m4
        hpe g.ibs hfr g.dl g.ri c5 c1 c2 c3 (by omega)
      obtain ⟨chunk, s, hrun, s2, p, hchunk, o⟩ := tot_run hfb
      rw [hrun]
      dsimp only
      generalize hFd : min 32768 (D.length - st.offset) = F at hchunk o
      generalize hid : min outBytes F = i at hchunk o
      have hiF : i ≤ F := by omega
      have gs := G_after_frame g hpe hlt p hFd.symm hiF c4 o
      have hcs : chunk.size = i := by
        have := congrArg List.length hchunk
        rw [Array.length_toList, List.length_take, List.length_take, List.length_drop] at this
        omega
      have q1 := o.offset; have q2 := o.frame; have q4 := o.oPtr; have q5 := o.oEnd
      rw [p.offset] at q1; rw [p.frame] at q2
      obtain ⟨st', hr, gs', ho'⟩ := ih s (outBytes - chunk.size) (acc ++ chunk) gs
        (by rw [q4, q5, hcs]; omega) (by rw [q1, hcs]; omega)
        (by rw [he, q1, hcs]; congr 2; omega) (by rw [q2]; omega)
      refine ⟨st', ?_, gs', by rw [ho', q1, hcs]; omega⟩
      rw [hr]
      congr 2
      rw [Array.toList_append, hchunk, List.take_take, Nat.min_eq_left hiF, q1, ← List.drop_drop, hcs,
        List.append_assoc, take_take_drop _ _ _ (by omega)]
    · rename_i hc
      have h0 := stop st outBytes g hp ho he hc
      subst h0
      refine ⟨st, ?_, g, rfl⟩
      rw [if_neg (by simp)]
      simp

theorem startX_congr {delta : Bool} {extra : Bytes} {st s : St σ} {cur : Bytes} {bs : List Bytes}
    (h : StartX content delta extra st cur bs) (h1 : s.bits = st.bits) (h2 : remBytes content s = remBytes content st)
    (h3 : s.blockRemaining = st.blockRemaining) (h4 : s.blockType = st.blockType)
    (h5 : s.blockLength = st.blockLength) (h6 : s.headerRead = st.headerRead)
    (h7 : s.intelFilesize = st.intelFilesize) : StartX content delta extra s cur bs := by
  unfold StartX at h ⊢
  rw [h1, h2, h3, h4, h5, h6, h7]
  exact h

/-- **one `decompress` call** from a state satisfying the invariant, asking for no more than what is
    left of `D`: OK, exactly the next bytes of `D`, and the invariant again -/
theorem decompress_tot (hF : Zip.Feeds S content) (hN : ∀ s, S.lzxLength s = none) (delta : Bool) (extra D : Bytes)
    (hn : D.length < 2147483648) (hn1 : 1 ≤ D.length) (k fuel : Nat) (hfuel : k + 65538 ≤ fuel)
    (st : St σ) (outBytes : Nat) (g : G content delta extra D k st) (ho : st.offset + outBytes ≤ D.length) :
    ∃ st', decompress S fuel st outBytes = .ok ⟨.ok, (D.drop st.offset).take outBytes, st'⟩ ∧
      G content delta extra D k st' ∧ st'.offset = st.offset + outBytes := by
  have hple := g.ple; have htle := g.tle
  unfold decompress
  rw [if_neg (by rw [g.err]; simp)]
  generalize hi : min (st.oEnd - st.oPtr) outBytes = i
  have hip : i ≤ st.oEnd - st.oPtr := by omega
  have hio : i ≤ outBytes := by omega
  -- the pending bytes
  have hsl : ∃ chunk, outSlice st i = .ok chunk ∧ chunk.toList = (D.drop st.offset).take i := by
    unfold outSlice
    cases hE : st.oInE8
    · obtain ⟨p1, p2⟩ := g.pend hE
      simp only [Bool.false_eq_true, if_false]
      rw [if_pos (by omega)]
      refine ⟨_, rfl, ?_⟩
      rw [List.drop_take] at p2
      rw [Array.toList_extract, List.extract_eq_drop_take, show st.oPtr + i - st.oPtr = i by omega]
      have : List.take i (List.drop st.oPtr st.window.toList) =
          List.take i (List.take (st.oEnd - st.oPtr) (List.drop st.oPtr st.window.toList)) := by
        rw [List.take_take, Nat.min_eq_left hip]
      rw [this, p2, List.take_take, Nat.min_eq_left hip]
    · obtain ⟨p1, p2⟩ := g.e8 hE
      have hi0 : i = 0 := by omega
      subst hi0
      simp only [if_true]
      rw [if_pos (by omega)]
      refine ⟨_, rfl, ?_⟩
      rw [Array.toList_extract, List.extract_eq_drop_take]
      simp
  obtain ⟨chunk, hsl1, hch⟩ := hsl
  dsimp +zeta only
  rw [hsl1]
  dsimp +zeta only
  -- the state after the flush
  have g1 : G content delta extra D k { st with oPtr := st.oPtr + i, offset := st.offset + i } :=
    { err := g.err, len := g.len, win := g.win, dvd := g.dvd, wsLe := g.wsLe, dl := g.dl, ri := g.ri, ibs := g.ibs
      ple := by show st.oPtr + i ≤ st.oEnd; omega
      tle := by show st.offset + i + (st.oEnd - (st.oPtr + i)) ≤ D.length; omega
      e8 := fun h => by
        obtain ⟨p1, p2⟩ := g.e8 h
        show st.oPtr + i = 0 ∧ st.oEnd = 0
        omega
      pend := fun h => by
        obtain ⟨p1, p2⟩ := g.pend h
        refine ⟨p1, ?_⟩
        show (st.window.toList.take st.oEnd).drop (st.oPtr + i) = (D.drop (st.offset + i)).take (st.oEnd - (st.oPtr + i))
        rw [← List.drop_drop, p2, List.drop_take, List.drop_drop]
        congr 1
        omega
      more := fun h => by
        have h' : st.offset + (st.oEnd - st.oPtr) < D.length := by
          have : st.offset + i + (st.oEnd - (st.oPtr + i)) < D.length := h
          omega
        obtain ⟨m1, m2, m3, m4, cur, bs, c1, c2, c3, c4, c5⟩ := g.more h'
        have e : st.offset + i + (st.oEnd - (st.oPtr + i)) = st.offset + (st.oEnd - st.oPtr) := by omega
        refine ⟨?_, m2, m3, m4, cur, bs, ?_, c2, c3, c4, startX_congr c5 rfl (remBytes_congr _ _ rfl rfl rfl) rfl rfl rfl rfl rfl⟩
        · show st.frame * 32768 = st.offset + i + (st.oEnd - (st.oPtr + i))
          rw [e]; exact m1
        · show cur ++ bs.flatten = D.drop (st.offset + i + (st.oEnd - (st.oPtr + i)))
          rw [e]; exact c1
      fin := fun h => by
        have h' : st.offset + i + (st.oEnd - (st.oPtr + i)) = D.length := h
        exact g.fin (by omega) }
  split
  · rename_i h0
    have : i = outBytes := by omega
    subst this
    exact ⟨_, by rw [hch], g1, rfl⟩
  · rename_i hne
    have e32 : lzxFRAME_SIZE = 32768 := rfl
    have hee : ((st.offset + i + (outBytes - i)) / lzxFRAME_SIZE % 4294967296 + 1) % 4294967296 =
        (st.offset + i + (outBytes - i)) / 32768 + 1 := by
      show ((st.offset + i + (outBytes - i)) / 32768 % 4294967296 + 1) % 4294967296 = _
      have : (st.offset + i + (outBytes - i)) / 32768 ≤ st.offset + i + (outBytes - i) := Nat.div_le_self _ _
      generalize (st.offset + i + (outBytes - i)) / 32768 = q at this ⊢
      omega
    show ∃ st', frameLoop S fuel (((st.offset + i + (outBytes - i)) / lzxFRAME_SIZE % 4294967296 + 1) % 4294967296)
      _ _ (outBytes - i) chunk = _ ∧ _
    rw [hee]
    obtain ⟨st', hr, gs', ho'⟩ := frameLoop_tot hF hN delta extra D hn hn1 k fuel _ hfuel
      ((st.offset + i + (outBytes - i)) / 32768 + 1 - st.frame) _ (outBytes - i) chunk g1
      (Or.inl (by show st.oPtr + i = st.oEnd; omega)) (by show st.offset + i + (outBytes - i) ≤ D.length; omega) rfl
      (Nat.le_add_sub_of_le' _ _)
    refine ⟨st', ?_, gs', by rw [ho']; show st.offset + i + (outBytes - i) = _; omega⟩
    rw [hr]
    congr 2
    show chunk.toList ++ (D.drop (st.offset + i)).take (outBytes - i) = _
    rw [hch, ← List.drop_drop, take_take_drop _ _ _ hio]

end MsPack.Lzx
