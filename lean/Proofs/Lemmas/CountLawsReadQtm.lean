import Lean
import Proofs.Lemmas.CountLawsRead
/-!
# `ReadErrLaw` for Quantum folders (lemmas for C07Decoders)

The `Tri` walk of `CountLawsRead.lean` over the Quantum decoder on the CAB feeder.
-/
namespace MsPack.CountLaws.ReadErrQtm
open MsPack MsPack.Cab MsPack.Qtm MsPack.Generated MsPack.CountLaws.ReadErr
open MsPack.CountLaws.Qtm (run_get_bind run_throw_bind run_modify run_modify_bind run_pure run_ite)
variable (files : Files)

def QI (r : Run Feeder) : Prop := r.st.error = .ok ∧ r.st.src.salvage = false ∧ r.st.inbufSize ≠ 0

def QE : Qtm.Halt → Run Feeder → Prop
  | .sys e, r => r.st.error = e ∧ e ≠ .ok ∧ (e = .read → r.st.src.readError ≠ .ok) ∧ r.st.src.salvage = false ∧
      r.st.inbufSize ≠ 0
  | .fault _, _ => True

theorem QI_of {a b : Run Feeder} (h : QI a) (h1 : b.st.error = a.st.error) (h2 : b.st.src = a.st.src)
    (h3 : b.st.inbufSize = a.st.inbufSize) : QI b := by
  unfold QI at *; rw [h1, h2, h3]; exact h

theorem setModel_error (st : Qtm.St Feeder) (id : MId) (m : Model) : (st.setModel id m).error = st.error := by
  cases id <;> rfl
theorem setModel_src (st : Qtm.St Feeder) (id : MId) (m : Model) : (st.setModel id m).src = st.src := by
  cases id <;> rfl
theorem setModel_inbufSize (st : Qtm.St Feeder) (id : MId) (m : Model) :
    (st.setModel id m).inbufSize = st.inbufSize := by
  cases id <;> rfl

open Lean Elab Tactic Meta in
elab "qi_close" : tactic => withMainContext do
  let s0 ← saveState
  try
    evalTactic (← `(tactic| (show True; exact True.intro)))
    return
  catch _ => s0.restore
  for d in (← getLCtx) do
    if d.isImplementationDetail then continue
    if (← instantiateMVars d.type).isAppOf ``QI then
      let s ← saveState
      try
        let stx ← Term.exprToSyntax d.toExpr
        evalTactic (← `(tactic| first
          | exact QI_of $stx rfl rfl rfl
          | exact QI_of $stx (setModel_error _ _ _) (setModel_src _ _ _) (setModel_inbufSize _ _ _)))
        return
      catch _ => s.restore
  throwError "qi_close: nothing applies"

macro_rules | `(tactic| tri_close) => `(tactic| qi_close)

local notation "QS" => feederSrc files
local notation "QT" => Tri QI QE

theorem fail_tri {α : Type} : QT (Qtm.fail (σ := Feeder) (α := α) .decrunch) := by
  constructor
  intro st hi r s' h
  unfold Qtm.fail modSt at h
  rw [run_modify_bind] at h
  cases h
  refine ⟨rfl, ?_, ?_, hi.2.1, hi.2.2⟩ <;> (intro hc; cases hc)

theorem liftF_tri {α : Type} (x : Except Fault α) : QT (liftF (σ := Feeder) x) := by
  unfold liftF; tri_auto

theorem readInput_tri : QT (Qtm.readInput QS) := by
  constructor
  intro st hi r s' h
  unfold Qtm.readInput at h
  rw [run_get_bind] at h
  obtain ⟨he, hs, hb⟩ := hi
  split at h
  · rw [run_throw] at h; cases h; trivial
  · rename_i src hrd
    have hsv := (feederSrc_salvage files _ _ _ _ hrd).trans hs
    rw [run_set_bind, run_throw] at h; cases h
    refine ⟨rfl, ?_, fun _ => MsPack.CabLift.feederSrc_read_none files _ _ _ hrd, hsv, hb⟩
    intro hc; cases hc
  · rename_i src hrd
    have hsv := (feederSrc_salvage files _ _ _ _ hrd).trans hs
    split at h
    · rw [run_set_bind, run_throw] at h; cases h
      refine ⟨rfl, ?_,
        fun _ => feederSrc_short files _ _ _ _ hrd hs (by simp only [List.length_nil]; omega), hsv, hb⟩
      intro hc; cases hc
    · rw [run_set] at h; cases h
      exact ⟨he, hsv, hb⟩
  · rename_i got src _ hrd
    have hsv := (feederSrc_salvage files _ _ _ _ hrd).trans hs
    rw [run_set] at h; cases h
    exact ⟨he, hsv, hb⟩

theorem nextByte_tri : QT (Qtm.nextByte QS) := by
  unfold Qtm.nextByte; tri_auto [readInput_tri files]

theorem readBytes_tri : QT (readBytes QS) := by
  unfold readBytes; tri_auto [nextByte_tri files]

theorem ensureBits_tri (n : Nat) : ∀ k, QT (Qtm.ensureBits QS n k) := by
  intro k
  induction k with
  | zero => rw [Qtm.ensureBits.eq_1]; tri_auto
  | succ k ih => rw [Qtm.ensureBits.eq_2]; tri_auto [readBytes_tri files]

theorem peekBits_tri (n : Nat) : QT (Qtm.peekBits (σ := Feeder) n) := by
  unfold Qtm.peekBits; tri_auto

theorem removeBits_tri (n : Nat) : QT (Qtm.removeBits (σ := Feeder) n) := by
  unfold Qtm.removeBits; tri_auto

theorem readBits_tri (n : Nat) : QT (Qtm.readBits QS n) := by
  unfold Qtm.readBits; tri_auto [ensureBits_tri files, peekBits_tri, removeBits_tri]

theorem readManyLoop_tri : ∀ k needed val, QT (readManyLoop QS k needed val) := by
  intro k
  induction k with
  | zero => intro needed val; rw [readManyLoop.eq_1]; tri_auto
  | succ k ih =>
    intro needed val; rw [readManyLoop.eq_2]
    tri_auto [readBytes_tri files, peekBits_tri, removeBits_tri]

theorem readManyBits_tri (bits : Nat) : QT (readManyBits QS bits) := by
  unfold readManyBits; exact readManyLoop_tri files _ _ _

theorem renorm_tri : ∀ fuel, QT (renorm QS fuel) := by
  intro fuel
  induction fuel with
  | zero => rw [renorm.eq_1]; tri_auto
  | succ fuel ih =>
    rw [renorm.eq_2]; tri_auto [ensureBits_tri files, peekBits_tri, removeBits_tri]

theorem getSymbol_tri (fuel : Nat) (id : MId) : QT (getSymbol QS fuel id) := by
  unfold getSymbol; tri_auto [liftF_tri, renorm_tri files]

theorem tableAt_tri (what : String) (t : List Nat) (i : Nat) : QT (tableAt (σ := Feeder) what t i) := by
  unfold tableAt; tri_auto

theorem copyFwd_tri (n a d : Nat) : QT (Qtm.copyFwd (σ := Feeder) n a d) := by
  unfold Qtm.copyFwd; tri_auto

theorem copyMasked_tri (n j d : Nat) : QT (copyMasked (σ := Feeder) n j d) := by
  unfold copyMasked; tri_auto

theorem writeOut_tri (p n : Nat) : QT (writeOut (σ := Feeder) p n) := by
  unfold writeOut; tri_auto

theorem readOffset_tri (sym : Nat) : QT (Qtm.readOffset QS sym) := by
  unfold Qtm.readOffset; tri_auto [tableAt_tri, readManyBits_tri files]

theorem trailerScan_tri : ∀ fuel, QT (trailerScan QS fuel) := by
  intro fuel
  induction fuel with
  | zero => rw [trailerScan.eq_1]; tri_auto
  | succ fuel ih => rw [trailerScan.eq_2]; tri_auto [readBits_tri files]

theorem symbolLoop_tri (fuel frameEnd : Nat) : ∀ n, QT (symbolLoop QS fuel frameEnd n) := by
  intro n
  induction n with
  | zero => rw [symbolLoop.eq_1]; tri_auto
  | succ n ih =>
    rw [symbolLoop.eq_2]
    tri_auto [getSymbol_tri files, readOffset_tri files, tableAt_tri, readManyBits_tri files, fail_tri,
      copyMasked_tri, copyFwd_tri, writeOut_tri]

theorem blockLoop_tri (fuel : Nat) : ∀ n, QT (Qtm.blockLoop QS fuel n) := by
  intro n
  induction n with
  | zero => rw [Qtm.blockLoop.eq_1]; tri_auto
  | succ n ih =>
    rw [Qtm.blockLoop.eq_2]
    tri_auto [readBits_tri files, symbolLoop_tri files, fail_tri, removeBits_tri, trailerScan_tri files,
      writeOut_tri]

theorem body_tri (fuel : Nat) : QT (body QS fuel) := by
  unfold body
  tri_auto [blockLoop_tri files, writeOut_tri]

/-- between calls: strict mode, a real input buffer, and a sticky READ goes with a failed feeder -/
def QJ (st : Qtm.St Feeder) : Prop :=
  st.src.salvage = false ∧ st.inbufSize ≠ 0 ∧ (st.error = .read → st.src.readError ≠ .ok)

def QOut (o : DecodeOut (Qtm.St Feeder)) : Prop := QJ o.st ∧ (o.err = .read → o.st.src.readError ≠ .ok)

/-- `qtmd_decompress` on the CAB feeder keeps `QJ`, and a READ it reports goes with a failed feeder -/
theorem qtm_readErr (fuel : Nat) (st : Qtm.St Feeder) (n : Nat) (o : DecodeOut (Qtm.St Feeder)) (hj : QJ st)
    (h : Qtm.decompress QS fuel st n = .ok o) : QOut o := by
  unfold Qtm.decompress at h
  split at h
  · cases h; exact ⟨hj, hj.2.2⟩
  · rename_i he
    have he' : st.error = .ok := Decidable.not_not.mp he
    dsimp only at h
    generalize (if st.oEnd - st.oPtr > n then n else st.oEnd - st.oPtr) = i at h
    split at h
    · cases h
    · split at h
      · cases h
        exact ⟨⟨hj.1, hj.2.1, fun hc => by rw [he'] at hc; cases hc⟩, fun hc => by cases hc⟩
      · split at h
        · cases h
        · rename_i e r heq
          cases h
          obtain ⟨h1, h2, h3, h4, h5⟩ : QE (.sys e) r :=
            (body_tri files fuel).out _ (by exact ⟨he', hj.1, hj.2.1⟩) _ _ heq
          exact ⟨⟨h4, h5, fun hc => h3 (h1.symm.trans hc)⟩, h3⟩
        · rename_i r heq
          cases h
          have hr : QI r := (body_tri files fuel).out _ (by exact ⟨he', hj.1, hj.2.1⟩) _ _ heq
          exact ⟨⟨hr.2.1, hr.2.2, fun hc => by rw [show _ = Err.ok from hr.1] at hc; cases hc⟩,
            fun hc => by cases hc⟩

theorem qtmInit_ok (src : Feeder) (wb ibs : Nat) (fill : UInt8) (st : Qtm.St Feeder)
    (h : Qtm.init src wb ibs fill = some st) : st.inbufSize ≠ 0 ∧ st.error = .ok := by
  unfold Qtm.init at h
  split at h
  · cases h
  · dsimp only at h
    split at h
    · cases h
    · simp only [Option.some.injEq] at h
      subst h
      exact ⟨by dsimp only; omega, rfl⟩

end MsPack.CountLaws.ReadErrQtm
