import Proofs.Lemmas.RelaxSim
import Proofs.Props.C07Decoders
/-!
# C18: the lift through `cabd_extract` for stored and MSZIP folders (lemmas for C18Extract)
-/
set_option linter.unusedSimpArgs false
namespace MsPack.CountLaws.Relax
open MsPack MsPack.Cab

variable (files : Files)

/-- the stored-data decoder under relaxed feeder flags -/
theorem noned_rel (bs : Nat) : ∀ (fuel : Nat) (fd1 fd2 : Feeder) (bytes : Nat) (w : Bytes) (o1 : DecOut),
    FR fd1 fd2 → nonedDecompress files bs fuel fd1 bytes w = .ok o1 → o1.err = .ok →
    ∃ o2, nonedDecompress files bs fuel fd2 bytes w = .ok o2 ∧ o2.err = .ok ∧ o2.written = o1.written ∧
      o2.dec = o1.dec ∧ FR o1.feeder o2.feeder ∧ ∃ e, o1.dec = .none bs e := by
  intro fuel
  induction fuel with
  | zero => intro fd1 fd2 bytes w o1 _ h; simp [nonedDecompress] at h
  | succ fuel ih =>
    intro fd1 fd2 bytes w o1 hr h he
    unfold nonedDecompress at h ⊢
    by_cases hb : bytes = 0
    · simp only [hb, ↓reduceIte, Except.ok.injEq] at h ⊢
      subst h
      exact ⟨_, rfl, rfl, rfl, rfl, hr, _, rfl⟩
    · simp only [hb, ↓reduceIte] at h ⊢
      generalize (if bytes > bs then bs else bytes) = run at h ⊢
      split at h
      · contradiction
      · simp only [Except.ok.injEq] at h; subst h; cases he
      · rename_i got fd1' hrd
        obtain ⟨fd2', h2, hf⟩ := feederSrc_rel files fd1 fd2 run got fd1' hr hrd
        have h2' : feederRead files (feederFuel fd2) fd2 run [] = .ok (some got, fd2') := h2
        rw [h2']
        dsimp only
        by_cases hlen : got.length ≠ run
        · rw [if_pos hlen] at h; simp only [Except.ok.injEq] at h; subst h; cases he
        · rw [if_neg hlen] at h ⊢
          exact ih _ _ _ _ _ hf h he

/-- decoder states of the two runs: equal up to the MSZIP repair flag (and the feeder, which `decompress` installs) -/
def DecR : Dec → Dec → Prop
  | .none bs e, .none bs' e' => bs' = bs ∧ e' = e
  | .mszip s1, .mszip s2 => ∀ fd1 fd2, FR fd1 fd2 →
      ZR ({ s1 with src := fd1 } : Zip.St Feeder) ({ s2 with src := fd2 } : Zip.St Feeder)
  | _, _ => False

theorem chainFuel_rel (fd1 fd2 : Feeder) (hf : FR fd1 fd2) : chainFuel files fd2 = chainFuel files fd1 := by
  unfold chainFuel; rw [hf.parts]

/-- one `decompress` call (stored or MSZIP) that is OK in the strict run is repeated verbatim by the relaxed one -/
theorem decompress_rel (dec1 dec2 : Dec) (fd1 fd2 : Feeder) (n : Nat) (o1 : DecOut) (hd : DecR dec1 dec2)
    (hf : FR fd1 fd2) (h : decompress files dec1 fd1 n = .ok (some o1)) (he : o1.err = .ok) :
    ∃ o2, decompress files dec2 fd2 n = .ok (some o2) ∧ o2.err = .ok ∧ o2.written = o1.written ∧
      DecR o1.dec o2.dec ∧ FR o1.feeder o2.feeder := by
  cases dec1 with
  | none bs e =>
    cases dec2 with
    | none bs' e' =>
      obtain ⟨rfl, rfl⟩ := hd
      unfold decompress at h ⊢
      simp only at h ⊢
      split at h
      · rename_i hne
        simp only [Except.ok.injEq, Option.some.injEq] at h; subst h
        exact absurd he hne
      · rename_i hne
        rw [if_neg hne]
        cases hn : nonedDecompress files bs' (n / max bs' 1 + 2) fd1 n [] with
        | error f => simp [hn, Except.map] at h
        | ok o' =>
          simp only [hn, Except.map, Except.ok.injEq, Option.some.injEq] at h; subst h
          obtain ⟨o2, h2, e2, w2, d2, f2, e3, hd3⟩ := noned_rel files bs' _ _ _ _ _ _ hf hn he
          refine ⟨o2, by simp only [h2, Except.map], e2, w2, ?_, f2⟩
          rw [d2, hd3]
          exact ⟨rfl, rfl⟩
    | _ => exact absurd hd id
  | mszip s1 =>
    cases dec2 with
    | mszip s2 =>
      unfold decompress at h ⊢
      simp only at h ⊢
      split at h
      · cases h
      · rename_i zo hz
        simp only [Except.ok.injEq, Option.some.injEq] at h
        subst h
        obtain ⟨o2, h2, e2, w2, hr2⟩ := zip_relax files _ _ _ n zo (hd fd1 fd2 hf) hz he
        rw [chainFuel_rel files fd1 fd2 hf, h2]
        refine ⟨_, rfl, e2, w2, ?_, hr2.src⟩
        intro g1 g2 hg
        constructor <;> first
          | exact hg
          | exact hr2.repair
          | rfl
          | (simp only [hr2.inbufSize, hr2.inbuf, hr2.inputEnd, hr2.bits, hr2.window, hr2.windowPosn, hr2.bytesOutput,
              hr2.litLens, hr2.distLens, hr2.error, hr2.pending]; done)
    | _ => exact absurd hd id
  | qtm _ => exact absurd hd id
  | lzx _ => exact absurd hd id
  | unsupported _ => exact absurd hd id

/-- the parameter checks of `cabd_extract`: what strict mode lets through, every mode lets through identically -/
theorem memberCheck_rel (p p' : Params) (hs : p.salvage = false) (m : Member) (r : Nat × Nat)
    (h : memberCheck p m = .ok r) : memberCheck p' m = .ok r := by
  cases hs' : p'.salvage with
  | false =>
    unfold memberCheck at h ⊢
    rw [hs] at h; rw [hs']; exact h
  | true =>
    unfold memberCheck at h ⊢
    rw [hs] at h; rw [hs']
    simp only [Bool.not_false, and_true, Bool.not_true, Bool.false_eq_true, and_false, false_and, ↓reduceIte, true_and] at h ⊢
    split at h
    · cases h
    · rename_i h1
      rw [if_neg h1]
      split at h
      · cases h
      · rename_i h2
        simp only [h2, ↓reduceIte] at ⊢
        split at h
        · cases h
        · rename_i key hk
          split at h
          · cases h
          · rename_i h3
            rw [if_neg h3]
            split at h
            · cases h
            · exact h

end MsPack.CountLaws.Relax
