import MsPack.Basic
/-!
# Two-run (relational) reasoning for the decoder monads — kit for C11 on the decoder models

All decoder monads are `ExceptT ε (StateM s)`.  `wp2 m₁ m₂ Q E s₁ s₂` runs `m₁` from `s₁` and `m₂`
from `s₂` and says: both end normally with results/states related by `Q`, or both throw, with the
exceptions/states related by `E`.  (Mixed outcomes are excluded.)  The rules are implications
(`wp2_bind`) or, for primitives in head position, equivalences usable with `simp only`.

`Agree n a b`: two arrays of the same size with the same contents below `n` — the cells above `n`
are the ones holding the allocator's fill byte that the decoder must never read.
-/
set_option linter.unusedSimpArgs false
set_option linter.unusedVariables false
namespace MsPack.FillSim

section wp2
variable {ε s α β γ δ : Type}

def Post2 (Q : α → β → s → s → Prop) (E : ε → ε → s → s → Prop) :
    Except ε α × s → Except ε β × s → Prop
  | (.ok a, t1), (.ok b, t2) => Q a b t1 t2
  | (.error e1, t1), (.error e2, t2) => E e1 e2 t1 t2
  | _, _ => False

def wp2 (m1 : ExceptT ε (StateM s) α) (m2 : ExceptT ε (StateM s) β)
    (Q : α → β → s → s → Prop) (E : ε → ε → s → s → Prop) (s1 s2 : s) : Prop :=
  Post2 Q E (m1.run.run s1) (m2.run.run s2)

theorem wp2_bind {m1 : ExceptT ε (StateM s) α} {m2 : ExceptT ε (StateM s) β}
    {f1 : α → ExceptT ε (StateM s) γ} {f2 : β → ExceptT ε (StateM s) δ}
    {Q' : α → β → s → s → Prop} {Q : γ → δ → s → s → Prop} {E : ε → ε → s → s → Prop} {s1 s2 : s}
    (hm : wp2 m1 m2 Q' E s1 s2)
    (hf : ∀ a b t1 t2, Q' a b t1 t2 → wp2 (f1 a) (f2 b) Q E t1 t2) :
    wp2 (m1 >>= f1) (m2 >>= f2) Q E s1 s2 := by
  unfold wp2 at *
  show Post2 Q E (match (m1.run.run s1 : Except ε α × s) with
      | (a, t) => (ExceptT.bindCont f1 a t : Except ε γ × s))
    (match (m2.run.run s2 : Except ε β × s) with
      | (a, t) => (ExceptT.bindCont f2 a t : Except ε δ × s))
  cases h1 : (m1.run.run s1 : Except ε α × s) with
  | mk r1 t1 =>
    cases h2 : (m2.run.run s2 : Except ε β × s) with
    | mk r2 t2 =>
      rw [h1, h2] at hm
      cases r1 with
      | ok a =>
        cases r2 with
        | ok b => exact hf a b t1 t2 hm
        | error e => exact hm.elim
      | error e1 =>
        cases r2 with
        | ok b => exact hm.elim
        | error e2 => exact hm

theorem wp2_mono {m1 : ExceptT ε (StateM s) α} {m2 : ExceptT ε (StateM s) β}
    {Q Q' : α → β → s → s → Prop} {E E' : ε → ε → s → s → Prop} {s1 s2 : s}
    (h : wp2 m1 m2 Q E s1 s2) (hq : ∀ a b t1 t2, Q a b t1 t2 → Q' a b t1 t2)
    (he : ∀ a b t1 t2, E a b t1 t2 → E' a b t1 t2) : wp2 m1 m2 Q' E' s1 s2 := by
  unfold wp2 at *
  cases h1 : (m1.run.run s1 : Except ε α × s) with
  | mk r1 t1 =>
    cases h2 : (m2.run.run s2 : Except ε β × s) with
    | mk r2 t2 =>
      rw [h1, h2] at h
      cases r1 <;> cases r2 <;> first | exact h.elim | exact hq _ _ _ _ h | exact he _ _ _ _ h

theorem wp2_cons {m1 : ExceptT ε (StateM s) α} {m2 : ExceptT ε (StateM s) β}
    {Q Q' : α → β → s → s → Prop} {E : ε → ε → s → s → Prop} {s1 s2 : s}
    (h : wp2 m1 m2 Q E s1 s2) (hq : ∀ a b t1 t2, Q a b t1 t2 → Q' a b t1 t2) : wp2 m1 m2 Q' E s1 s2 :=
  wp2_mono h hq (fun _ _ _ _ h => h)

variable (Q : α → β → s → s → Prop) (E : ε → ε → s → s → Prop) (s1 s2 : s)

theorem wp2_pure (a : α) (b : β) :
    wp2 (pure a : ExceptT ε (StateM s) α) (pure b : ExceptT ε (StateM s) β) Q E s1 s2 ↔ Q a b s1 s2 := Iff.rfl

theorem wp2_throw (e1 e2 : ε) :
    wp2 (throw e1 : ExceptT ε (StateM s) α) (throw e2 : ExceptT ε (StateM s) β) Q E s1 s2 ↔ E e1 e2 s1 s2 := Iff.rfl

theorem wp2_get (Q : s → s → s → s → Prop) :
    wp2 (get : ExceptT ε (StateM s) s) (get : ExceptT ε (StateM s) s) Q E s1 s2 ↔ Q s1 s2 s1 s2 := Iff.rfl

theorem wp2_set (x y : s) (Q : PUnit → PUnit → s → s → Prop) :
    wp2 (set x : ExceptT ε (StateM s) PUnit) (set y : ExceptT ε (StateM s) PUnit) Q E s1 s2 ↔ Q ⟨⟩ ⟨⟩ x y := Iff.rfl

theorem wp2_modify (f g : s → s) (Q : PUnit → PUnit → s → s → Prop) :
    wp2 (modify f : ExceptT ε (StateM s) PUnit) (modify g : ExceptT ε (StateM s) PUnit) Q E s1 s2 ↔
      Q ⟨⟩ ⟨⟩ (f s1) (g s2) := Iff.rfl

theorem wp2_modifyGet (f : s → α × s) (g : s → β × s) :
    wp2 (modifyGet f : ExceptT ε (StateM s) α) (modifyGet g : ExceptT ε (StateM s) β) Q E s1 s2 ↔
      Q (f s1).1 (g s2).1 (f s1).2 (g s2).2 := Iff.rfl

variable (Q : γ → δ → s → s → Prop)

theorem wp2_get_bind (f1 : s → ExceptT ε (StateM s) γ) (f2 : s → ExceptT ε (StateM s) δ) :
    wp2 (get >>= f1) (get >>= f2) Q E s1 s2 ↔ wp2 (f1 s1) (f2 s2) Q E s1 s2 := Iff.rfl

theorem wp2_set_bind (x y : s) (f1 : PUnit → ExceptT ε (StateM s) γ) (f2 : PUnit → ExceptT ε (StateM s) δ) :
    wp2 (set x >>= f1) (set y >>= f2) Q E s1 s2 ↔ wp2 (f1 ⟨⟩) (f2 ⟨⟩) Q E x y := Iff.rfl

theorem wp2_modify_bind (f g : s → s) (f1 : PUnit → ExceptT ε (StateM s) γ) (f2 : PUnit → ExceptT ε (StateM s) δ) :
    wp2 (modify f >>= f1) (modify g >>= f2) Q E s1 s2 ↔ wp2 (f1 ⟨⟩) (f2 ⟨⟩) Q E (f s1) (g s2) := Iff.rfl

theorem wp2_modifyGet_bind (f : s → α × s) (g : s → β × s)
    (f1 : α → ExceptT ε (StateM s) γ) (f2 : β → ExceptT ε (StateM s) δ) :
    wp2 (modifyGet f >>= f1) (modifyGet g >>= f2) Q E s1 s2 ↔
      wp2 (f1 (f s1).1) (f2 (g s2).1) Q E (f s1).2 (g s2).2 := Iff.rfl

theorem wp2_pure_bind (a : α) (b : β) (f1 : α → ExceptT ε (StateM s) γ) (f2 : β → ExceptT ε (StateM s) δ) :
    wp2 (pure a >>= f1) (pure b >>= f2) Q E s1 s2 ↔ wp2 (f1 a) (f2 b) Q E s1 s2 := Iff.rfl

theorem wp2_throw_bind (e1 e2 : ε) (f1 : α → ExceptT ε (StateM s) γ) (f2 : β → ExceptT ε (StateM s) δ) :
    wp2 (throw e1 >>= f1) (throw e2 >>= f2) Q E s1 s2 ↔ E e1 e2 s1 s2 := Iff.rfl

end wp2

/-! ## equal results, related states -/
section eqr
variable {ε s α β γ δ : Type}

def EqR (R : s → s → Prop) : α → α → s → s → Prop := fun a b t1 t2 => a = b ∧ R t1 t2

theorem wp2_bind_eq {R : s → s → Prop} {m1 m2 : ExceptT ε (StateM s) α}
    {f1 : α → ExceptT ε (StateM s) γ} {f2 : α → ExceptT ε (StateM s) δ}
    {Q : γ → δ → s → s → Prop} {E : ε → ε → s → s → Prop} {s1 s2 : s}
    (hm : wp2 m1 m2 (EqR R) E s1 s2)
    (hf : ∀ a t1 t2, R t1 t2 → wp2 (f1 a) (f2 a) Q E t1 t2) :
    wp2 (m1 >>= f1) (m2 >>= f2) Q E s1 s2 :=
  wp2_bind hm (fun a b t1 t2 h => by obtain ⟨rfl, hr⟩ := h; exact hf a t1 t2 hr)

theorem wp2_dite {c : Prop} [Decidable c] {a1 : c → ExceptT ε (StateM s) α} {b1 : ¬c → ExceptT ε (StateM s) α}
    {a2 : c → ExceptT ε (StateM s) β} {b2 : ¬c → ExceptT ε (StateM s) β}
    {Q : α → β → s → s → Prop} {E : ε → ε → s → s → Prop} {s1 s2 : s}
    (ht : ∀ h : c, wp2 (a1 h) (a2 h) Q E s1 s2) (hf : ∀ h : ¬c, wp2 (b1 h) (b2 h) Q E s1 s2) :
    wp2 (dite c a1 b1) (dite c a2 b2) Q E s1 s2 := by
  by_cases h : c
  · simp only [dif_pos h]; exact ht h
  · simp only [dif_neg h]; exact hf h

theorem wp2_ite {c : Prop} [Decidable c] {a1 b1 : ExceptT ε (StateM s) α}
    {a2 b2 : ExceptT ε (StateM s) β}
    {Q : α → β → s → s → Prop} {E : ε → ε → s → s → Prop} {s1 s2 : s}
    (ht : c → wp2 a1 a2 Q E s1 s2) (hf : ¬c → wp2 b1 b2 Q E s1 s2) :
    wp2 (ite c a1 b1) (ite c a2 b2) Q E s1 s2 := by
  by_cases h : c
  · simp only [if_pos h]; exact ht h
  · simp only [if_neg h]; exact hf h

theorem run_tryCatch (x : ExceptT ε (StateM s) α) (h : ε → ExceptT ε (StateM s) α) (st : s) :
    (tryCatch x h).run.run st =
      match x.run.run st with
      | (.ok a, st') => (.ok a, st')
      | (.error e, st') => (h e).run.run st' := by
  show (ExceptT.tryCatch x h).run.run st = _
  unfold ExceptT.tryCatch
  simp only [ExceptT.run, ExceptT.mk, StateT.run, bind, StateT.bind]
  rcases h : x st with ⟨r, st'⟩
  cases r <;> simp [pure, StateT.pure]

/-- `tryCatch`: the handlers run from the states the bodies threw in -/
theorem wp2_tryCatch {m1 : ExceptT ε (StateM s) α} {m2 : ExceptT ε (StateM s) β}
    {h1 : ε → ExceptT ε (StateM s) α} {h2 : ε → ExceptT ε (StateM s) β}
    {Q : α → β → s → s → Prop} {E : ε → ε → s → s → Prop} {s1 s2 : s}
    (hm : wp2 m1 m2 Q (fun e1 e2 t1 t2 => wp2 (h1 e1) (h2 e2) Q E t1 t2) s1 s2) :
    wp2 (tryCatch m1 h1) (tryCatch m2 h2) Q E s1 s2 := by
  unfold wp2 at *
  rw [run_tryCatch, run_tryCatch]
  cases e1 : (m1.run.run s1 : Except ε α × s) with
  | mk r1 t1 =>
    cases e2 : (m2.run.run s2 : Except ε β × s) with
    | mk r2 t2 =>
      rw [e1, e2] at hm
      cases r1 <;> cases r2 <;> first | exact hm.elim | exact hm
end eqr

/-! ## arrays that agree below a bound -/

def Agree {α : Type} (n : Nat) (a b : Array α) : Prop :=
  a.size = b.size ∧ ∀ i, i < n → a[i]? = b[i]?

namespace Agree
variable {α : Type} {n : Nat} {a b : Array α}

theorem refl (n : Nat) (a : Array α) : Agree n a a := ⟨rfl, fun _ _ => rfl⟩

theorem size (h : Agree n a b) : a.size = b.size := h.1

theorem mono {m : Nat} (h : Agree n a b) (hm : m ≤ n) : Agree m a b :=
  ⟨h.1, fun i hi => h.2 i (Nat.lt_of_lt_of_le hi hm)⟩

theorem get? (h : Agree n a b) {i : Nat} (hi : i < n) : a[i]? = b[i]? := h.2 i hi

theorem get (h : Agree n a b) {i : Nat} (hi : i < n) (ha : i < a.size) (hb : i < b.size) : a[i] = b[i] := by
  have := h.2 i hi
  rw [Array.getElem?_eq_getElem ha, Array.getElem?_eq_getElem hb] at this
  exact Option.some.inj this

theorem set (h : Agree n a b) (i : Nat) (v : α) (ha : i < a.size) (hb : i < b.size) :
    Agree n (a.set i v ha) (b.set i v hb) := by
  refine ⟨by simp [h.1], fun j hj => ?_⟩
  rw [Array.getElem?_set, Array.getElem?_set]
  split
  · rfl
  · exact h.2 j hj

theorem setIfInBounds (h : Agree n a b) (i : Nat) (v : α) :
    Agree n (a.setIfInBounds i v) (b.setIfInBounds i v) := by
  refine ⟨by simp [h.1], fun j hj => ?_⟩
  rw [Array.getElem?_setIfInBounds, Array.getElem?_setIfInBounds, h.1]
  split
  · rfl
  · exact h.2 j hj

/-- the same value written at `n` extends the agreement -/
theorem set_extend (h : Agree n a b) (v : α) (ha : n < a.size) (hb : n < b.size) :
    Agree (n + 1) (a.set n v ha) (b.set n v hb) := by
  refine ⟨by simp [h.1], fun j hj => ?_⟩
  rw [Array.getElem?_set, Array.getElem?_set]
  split
  · rfl
  · rename_i hne
    exact h.2 j (by omega)

theorem extract_eq (h : Agree n a b) {i j : Nat} (hj : j ≤ n) : a.extract i j = b.extract i j := by
  apply Array.ext
  · simp only [Array.size_extract, h.1]
  · intro k h1 h2
    simp only [Array.size_extract] at h1 h2
    simp only [Array.getElem_extract]
    exact h.get (by omega) _ _

theorem of_eq (n : Nat) (h : a = b) : Agree n a b := h ▸ refl n a

end Agree

/-! ## two results of a pure `Except` computation: same error, or related values -/

def RelX {φ α β : Type} (R : α → β → Prop) : Except φ α → Except φ β → Prop
  | .ok a, .ok b => R a b
  | .error f1, .error f2 => f1 = f2
  | _, _ => False

@[simp] theorem relX_ok {φ α β : Type} (R : α → β → Prop) (a : α) (b : β) :
    RelX (φ := φ) R (.ok a) (.ok b) ↔ R a b := Iff.rfl
@[simp] theorem relX_error {φ α β : Type} (R : α → β → Prop) (f g : φ) :
    RelX (α := α) (β := β) R (.error f) (.error g) ↔ f = g := Iff.rfl
@[simp] theorem relX_ok_error {φ α β : Type} (R : α → β → Prop) (a : α) (g : φ) :
    RelX (β := β) R (.ok a) (.error g) ↔ False := Iff.rfl
@[simp] theorem relX_error_ok {φ α β : Type} (R : α → β → Prop) (f : φ) (b : β) :
    RelX (α := α) R (.error f) (.ok b) ↔ False := Iff.rfl

theorem RelX.cases {φ α β : Type} {R : α → β → Prop} {x : Except φ α} {y : Except φ β} (h : RelX R x y) :
    (∃ f, x = .error f ∧ y = .error f) ∨ (∃ a b, x = .ok a ∧ y = .ok b ∧ R a b) := by
  cases x <;> cases y <;> simp only [relX_ok, relX_error, relX_ok_error, relX_error_ok] at h
  · subst h; exact Or.inl ⟨_, rfl, rfl⟩
  · exact Or.inr ⟨_, _, rfl, rfl, h⟩

end MsPack.FillSim
