import Lean
import MsPack.Chm.Extract
/-!
# CHM: every checked access of the model succeeds (lemmas for C02)

The CHM models index a directory chunk (`read_encint`, the `*p++` skipping loop, the quick-reference
slots of `search_chunk`) and the reset table read by `read_reset_table`; each such access is rendered as
a checked one with an explicit `Fault.oob` outcome, each pointer the C dereferences without a test as a
`Fault.nullDeref` outcome.  The lemmas below show none of them is taken:

* `e ≤ chunk.length` is what `read_encint` / the skipping loop need (`end` lies inside the chunk);
* `HdrInv` (chunk size ≥ 22, every cached chunk is `chunk_size` bytes long) is the invariant on the
  header that `readHeaders` establishes and `fastFind` / `extract` preserve;
* the loops' fuel is shown sufficient too, so the functions up to `fastFind` return no `Fault` at all
  (not even `hang`).
-/
namespace MsPack.Chm
open MsPack MsPack.Generated

/-! ## tactics that walk through a big model function by `rw` only

`readHeaders`, `readChunk`, `extract` … test 32/64-bit fields (`… * 16777216`, `… + 2^63`) inside `if`s and
`match`es; `split`/`simp` produce proof terms on which the kernel unfolds the matcher, evaluates the
discriminant and peels those literals (minutes, then "deep recursion").  Rewriting with one generic lemma per
matcher and `if_pos`/`if_neg` keeps every step syntactic. -/

open Lean Elab Tactic Meta in
/-- zeta-reduce the `have`/`let` bindings at the head of the left-hand side of an equation hypothesis -/
elab "zeta_head_at " h:ident : tactic => do
  let g ← getMainGoal
  g.withContext do
    let fv ← getFVarId h
    let t := (← instantiateMVars (← fv.getType)).consumeMData
    let some (_, lhs, rhs) := t.eq? | throwError "zeta_head_at: not an equation {t}"
    let rec go (fuel : Nat) (e : Expr) : Expr :=
      match fuel with
      | 0 => e
      | fuel + 1 =>
        match e with
        | .letE _ _ v b _ => go fuel (b.instantiate1 v)
        | .mdata _ e' => go fuel e'
        | _ => e
    let lhs' := go 64 lhs
    if lhs' == lhs then throwError "zeta_head_at: no head binding"
    let g' ← g.replaceLocalDeclDefEq fv (← mkEq lhs' rhs)
    replaceMainGoal [g']

open Lean Elab Tactic Meta in
/-- case split on the condition of the `if` at the head of the left-hand side of an equation hypothesis -/
elab "ite_head_at " h:ident " as " c:ident : tactic => do
  let g ← getMainGoal
  g.withContext do
    let fv ← getFVarId h
    let t := (← instantiateMVars (← fv.getType)).consumeMData
    let some (_, lhs, _) := t.eq? | throwError "ite_head_at: not an equation {t}"
    let lhs := lhs.consumeMData
    unless lhs.isAppOfArity ``ite 5 do throwError "ite_head_at: no if at the head"
    let cond ← Term.exprToSyntax (lhs.getArg! 1)
    evalTactic (← `(tactic| by_cases $c:ident : $cond <;> first | rw [if_pos $c] at $h:ident | rw [if_neg $c] at $h:ident))

open Lean Elab Tactic Meta in
/-- case split on the (single) discriminant of the `match` at the head of the left-hand side of an equation
    hypothesis; the equation `discr = constructor …` is named, the hypothesis itself is left alone -/
elab "match_head_at " h:ident " as " c:ident : tactic => do
  let g ← getMainGoal
  g.withContext do
    let fv ← getFVarId h
    let t := (← instantiateMVars (← fv.getType)).consumeMData
    let some (_, lhs, _) := t.eq? | throwError "match_head_at: not an equation {t}"
    let some app ← matchMatcherApp? lhs.consumeMData | throwError "match_head_at: no match at the head"
    unless app.discrs.size = 1 do throwError "match_head_at: more than one discriminant"
    let d ← Term.exprToSyntax app.discrs[0]!
    evalTactic (← `(tactic| cases $c:ident : $d:term))

/-! ## `read_encint` -/

theorem encLoop_ne_error (bs : Bytes) (e : Nat) (he : e ≤ bs.length) :
    ∀ (fuel i p result : Nat) (c : UInt8) (f : Fault), i ≤ 9 → 10 ≤ fuel + i →
      encLoop bs e fuel i p result c ≠ .error f := by
  intro fuel
  induction fuel with
  | zero => intro i p result c f h1 h2; omega
  | succ fuel ih =>
    intro i p result c f h1 h2
    rw [encLoop]
    have hmb : encintMaxBytes = 9 := rfl
    split
    · simp
    · by_cases hi : i < encintMaxBytes
      · rw [if_neg (by omega)]
        by_cases hp : p ≥ e
        · rw [if_pos hp]; simp
        · rw [if_neg hp]
          have hp : p < bs.length := by omega
          rw [List.getElem?_eq_getElem hp]
          exact ih _ _ _ _ _ (by omega) (by omega)
      · rw [if_pos hi]; simp

/-- `read_encint` with `end` inside the chunk returns a result (no out-of-bounds read, and the fuel of
    its loop suffices) -/
theorem readEncint_ne_error (bs : Bytes) (p e : Nat) (he : e ≤ bs.length) (f : Fault) :
    readEncint bs p e ≠ .error f := by
  unfold readEncint
  split
  · rename_i f' h
    exact absurd h (encLoop_ne_error bs e he _ _ _ _ _ _ (by omega) (by simp [encintMaxBytes]))
  · split
    · simp
    · split <;> simp

/-! ## `chmd_read_headers` -/

theorem readEntries_ne_error (chunk : Bytes) (e : Nat) (he : e ≤ chunk.length) :
    ∀ (n p : Nat) (w : Walk) (f : Fault), readEntries chunk e n p w ≠ .error f := by
  intro n
  induction n with
  | zero => intro p w f; simp [readEntries]
  | succ n ih =>
    intro p w f
    rw [readEntries]
    split
    · rename_i h; exact absurd h (readEncint_ne_error _ _ _ he _)
    · simp only
      split
      · simp
      · split
        · rename_i h; exact absurd h (readEncint_ne_error _ _ _ he _)
        · split
          · rename_i h; exact absurd h (readEncint_ne_error _ _ _ he _)
          · split
            · rename_i h; exact absurd h (readEncint_ne_error _ _ _ he _)
            · split
              · simp
              · exact ih _ _ _

theorem readExact_length {r : Rd} {n : Nat} {c : Bytes} {r' : Rd} (h : r.readExact n = some (c, r')) :
    c.length = n := by
  unfold Rd.readExact at h
  simp only at h
  split at h
  · rename_i hl
    simp only [Option.some.injEq, Prod.mk.injEq] at h
    rw [← h.1]; exact hl
  · contradiction

theorem readChunks_ne_error (cs : Nat) :
    ∀ (n : Nat) (r : Rd) (w : Walk) (f : Fault), readChunks cs n r w ≠ .error f := by
  intro n
  induction n with
  | zero => intro r w f; simp [readChunks]
  | succ n ih =>
    intro r w f
    rw [readChunks]
    split
    · simp
    · rename_i chunk r' hre
      have hl := readExact_length hre
      split
      · exact ih _ _ _
      · simp only
        split
        · rename_i h
          exact absurd h (readEntries_ne_error chunk (cs - 2) (by omega) _ _ _ _)
        · exact ih _ _ _

/-! ### `readHeaders`: no fault, and the header it returns satisfies the invariant -/

theorem mRead_none {α : Type} (x : Option (Bytes × Rd)) (h : x = none) (n : Unit → α) (k : Bytes → Rd → α) :
    readChunks.match_3 (fun _ => α) x n k = n () := by subst h; rfl
theorem mRead_some {α : Type} (x : Option (Bytes × Rd)) (p : Bytes × Rd) (h : x = some p) (n : Unit → α)
    (k : Bytes → Rd → α) : readChunks.match_3 (fun _ => α) x n k = k p.1 p.2 := by subst h; rfl
theorem mSeek_none {α : Type} (x : Option Rd) (h : x = none) (n : Unit → α) (k : Rd → α) :
    readHeaders.match_3 (fun _ => α) x n k = n () := by subst h; rfl
theorem mSeek_some {α : Type} (x : Option Rd) (r : Rd) (h : x = some r) (n : Unit → α) (k : Rd → α) :
    readHeaders.match_3 (fun _ => α) x n k = k r := by subst h; rfl
theorem mChunks_fault {α : Type} (x : Except Fault (Except Err Walk)) (f : Fault) (h : x = .error f)
    (h1 : Fault → α) (h2 : Err → α) (h3 : Walk → α) : readHeaders.match_1 (fun _ => α) x h1 h2 h3 = h1 f := by
  subst h; rfl
theorem mChunks_err {α : Type} (x : Except Fault (Except Err Walk)) (e : Err) (h : x = .ok (.error e))
    (h1 : Fault → α) (h2 : Err → α) (h3 : Walk → α) : readHeaders.match_1 (fun _ => α) x h1 h2 h3 = h2 e := by
  subst h; rfl
theorem mChunks_ok {α : Type} (x : Except Fault (Except Err Walk)) (w : Walk) (h : x = .ok (.ok w))
    (h1 : Fault → α) (h2 : Err → α) (h3 : Walk → α) : readHeaders.match_1 (fun _ => α) x h1 h2 h3 = h3 w := by
  subst h; rfl

def HdrInv (h : Header) : Prop :=
  22 ≤ h.chunkSize ∧ ∀ cc, h.chunkCache = some cc → ∀ p ∈ cc, p.2.length = h.chunkSize

macro "rh_leaf " h:ident : tactic =>
  `(tactic| (subst $h; exact ⟨fun _ hf => (by cases hf), fun _ hp => (by cases hp)⟩))

theorem readHeaders_postB (fn : String) (file : Bytes) (entire : Bool) (res : Except Fault (Except Err Parsed))
    (h : readHeaders fn file entire = res) :
    (∀ f, res ≠ .error f) ∧ (∀ p, res = .ok (.ok p) → HdrInv p.hdr) := by
  unfold readHeaders at h
  match_head_at h as x1
  · rw [mRead_none _ x1] at h; rh_leaf h
  rename_i p1
  rw [mRead_some _ _ x1] at h
  ite_head_at h as c1
  · rh_leaf h
  ite_head_at h as c2
  · rh_leaf h
  zeta_head_at h
  match_head_at h as x2
  · rw [mRead_none _ x2] at h; rh_leaf h
  rename_i p2
  rw [mRead_some _ _ x2] at h
  zeta_head_at h
  match_head_at h as x3
  · rw [mSeek_none _ x3] at h; rh_leaf h
  rename_i r3
  rw [mSeek_some _ _ x3] at h
  match_head_at h as x4
  · rw [mRead_none _ x4] at h; rh_leaf h
  rename_i p4
  rw [mRead_some _ _ x4] at h
  zeta_head_at h
  match_head_at h as x5
  · rw [mSeek_none _ x5] at h; rh_leaf h
  rename_i r5
  rw [mSeek_some _ _ x5] at h
  match_head_at h as x6
  · rw [mRead_none _ x6] at h; rh_leaf h
  rename_i p6
  rw [mRead_some _ _ x6] at h
  zeta_head_at h
  ite_head_at h as c3
  · rh_leaf h
  ite_head_at h as c4
  · rh_leaf h
  ite_head_at h as c5
  · rh_leaf h
  ite_head_at h as c6
  · rh_leaf h
  ite_head_at h as c7
  · rh_leaf h
  ite_head_at h as c8
  · rh_leaf h
  ite_head_at h as c9
  · rh_leaf h
  ite_head_at h as c10
  · rh_leaf h
  zeta_head_at h
  have hcs : 22 ≤ u32At p6.1 chmhs1_ChunkSize := Nat.le_of_not_lt c4
  ite_head_at h as c11
  · subst h
    refine ⟨fun _ hf => (by cases hf), fun p hp => ?_⟩
    cases hp
    exact ⟨hcs, fun cc hcc => (by cases hcc)⟩
  zeta_head_at h
  match_head_at h as x7
  · rename_i f'
    exact absurd x7 (readChunks_ne_error _ _ _ _ _)
  rename_i ew
  cases ew with
  | error e => rw [mChunks_err _ _ x7] at h; rh_leaf h
  | ok w =>
    rw [mChunks_ok _ _ x7] at h
    zeta_head_at h
    subst h
    refine ⟨fun _ hf => (by cases hf), fun p hp => ?_⟩
    cases hp
    exact ⟨hcs, fun cc hcc => (by cases hcc)⟩
/-! ## `search_chunk` -/

theorem skipEncint_ne_error (chunk : Bytes) (e : Nat) (he : e ≤ chunk.length) :
    ∀ (fuel p : Nat) (f : Fault), e - p + 1 ≤ fuel → skipEncint chunk e fuel p ≠ .error f := by
  intro fuel
  induction fuel with
  | zero => intro p f h; omega
  | succ fuel ih =>
    intro p f h
    rw [skipEncint]
    split
    · rename_i hp
      rw [List.getElem?_eq_getElem (by omega)]
      simp only
      split
      · exact ih _ _ (by omega)
      · simp
    · simp

theorem qrTarget_ne_error (chunk : Bytes) (cs entriesOff m : Nat) (hm : 2 * m + 2 ≤ cs) (f : Fault) :
    qrTarget chunk cs entriesOff m ≠ .error f := by
  unfold qrTarget
  split
  · simp
  · rw [if_neg (by omega)]; simp

theorem bsearch_post (chunk : Bytes) (cs entriesOff e : Nat) (fname : Bytes) (he : e ≤ chunk.length)
    (R : Nat) (hR : 2 * R + 2 ≤ cs) :
    ∀ (fuel l r : Nat) (res : Except Fault BSearch), l ≤ r → r ≤ R → r - l + 1 ≤ fuel →
      bsearch chunk cs entriesOff e fname fuel l r = res →
      (∀ f, res ≠ .error f) ∧
      (∀ cmp p nl l' r', res = .ok (.done cmp p nl l' r') → (l' + r') / 2 ≤ R) := by
  intro fuel
  induction fuel with
  | zero => intro l r res h1 h2 h3; omega
  | succ fuel ih =>
    intro l r res h1 h2 h3 h
    rw [bsearch] at h
    simp only at h
    split at h
    · rename_i hq; exact absurd hq (qrTarget_ne_error _ _ _ _ (by omega) _)
    · split at h
      · rename_i hq; exact absurd hq (readEncint_ne_error _ _ _ he _)
      · split at h
        · subst h; exact ⟨fun _ hf => (by cases hf), fun _ _ _ _ _ hp => (by cases hp)⟩
        · split at h
          · subst h
            refine ⟨fun _ hf => (by cases hf), fun _ _ _ _ _ hp => ?_⟩
            cases hp; omega
          · split at h
            · split at h
              · split at h
                · exact ih _ _ _ (by assumption) (by omega) (by omega) h
                · subst h
                  refine ⟨fun _ hf => (by cases hf), fun _ _ _ _ _ hp => ?_⟩
                  cases hp; omega
              · subst h; exact ⟨fun _ hf => (by cases hf), fun _ _ _ _ _ hp => (by cases hp)⟩
            · split at h
              · exact ih _ _ _ (by assumption) h2 (by omega) h
              · subst h
                refine ⟨fun _ hf => (by cases hf), fun _ _ _ _ _ hp => ?_⟩
                cases hp; omega


theorem linear_post (chunk : Bytes) (e : Nat) (fname : Bytes) (isPmgl : Bool) (he : e ≤ chunk.length) :
    ∀ (n p : Nat) (r0 : Option Nat) (res : Except Fault Search), linear chunk e fname isPmgl n p r0 = res →
      (∀ f, res ≠ .error f) ∧ (∀ p' e', res = .ok (.found p' e') → e' = e) := by
  intro n
  induction n with
  | zero =>
    intro p r0 res h
    unfold linear at h
    subst h
    refine ⟨fun _ hf => (by cases hf), fun _ _ hp => ?_⟩
    split at hp
    · cases hp
    · split at hp
      · cases hp; rfl
      · cases hp
  | succ n ih =>
    intro p r0 res h
    unfold linear at h
    split at h
    · rename_i hq; exact absurd hq (readEncint_ne_error _ _ _ he _)
    · simp only at h
      split at h
      · subst h; exact ⟨fun _ hf => (by cases hf), fun _ _ hp => (by cases hp)⟩
      · split at h
        · subst h
          refine ⟨fun _ hf => (by cases hf), fun _ _ hp => ?_⟩
          cases hp; rfl
        · split at h
          · subst h
            refine ⟨fun _ hf => (by cases hf), fun _ _ hp => ?_⟩
            split at hp
            · cases hp
            · split at hp
              · cases hp; rfl
              · cases hp
          · split at h
            · split at h
              · rename_i hq; exact absurd hq (skipEncint_ne_error _ _ he _ _ _ (Nat.le_refl _))
              · split at h
                · rename_i hq; exact absurd hq (skipEncint_ne_error _ _ he _ _ _ (Nat.le_refl _))
                · split at h
                  · rename_i hq; exact absurd hq (skipEncint_ne_error _ _ he _ _ _ (Nat.le_refl _))
                  · exact ih _ _ _ h
            · split at h
              · rename_i hq; exact absurd hq (skipEncint_ne_error _ _ he _ _ _ (Nat.le_refl _))
              · exact ih _ _ _ h

theorem qr_bound (x qs cs : Nat) (hqs : qs ≤ cs)
    (h0 : (if Int.ofNat (x * 2) > Int.ofNat qs - 2 then 0 else x) > 0) :
    2 * ((if Int.ofNat (x * 2) > Int.ofNat qs - 2 then 0 else x) - 1) + 2 ≤ cs := by
  split at h0
  · omega
  · rename_i hc; rw [if_neg hc]; simp only [Int.ofNat_eq_natCast] at hc; omega

/-- `search_chunk` on a chunk of `chunk_size` bytes: no fault; a result's `end` lies inside the chunk -/
theorem searchChunk_post (h : Header) (chunk fname : Bytes) (hl : chunk.length = h.chunkSize)
    (res : Except Fault Search) (hr : searchChunk h chunk fname = res) :
    (∀ f, res ≠ .error f) ∧ (∀ p e, res = .ok (.found p e) → e ≤ chunk.length) := by
  unfold searchChunk at hr
  simp only at hr
  split at hr
  · subst hr; exact ⟨fun _ hf => (by cases hf), fun _ _ hp => (by cases hp)⟩
  split at hr
  · subst hr; exact ⟨fun _ hf => (by cases hf), fun _ _ hp => (by cases hp)⟩
  rename_i hne hqs
  have he : h.chunkSize - u32At chunk pmgl_QuickRefSize ≤ chunk.length := by omega
  ite_head_at hr as hq0
  · have hR := qr_bound _ _ _ (Nat.le_of_not_gt hqs) hq0
    split at hr
    · rename_i hb
      exact absurd hb ((bsearch_post _ _ _ _ _ he _ hR _ _ _ _ (Nat.zero_le _) (Nat.le_refl _) (by omega) rfl).1 _)
    · subst hr; exact ⟨fun _ hf => (by cases hf), fun _ _ hp => (by cases hp)⟩
    · subst hr; exact ⟨fun _ hf => (by cases hf), fun _ _ hp => (by cases hp)⟩
    · rename_i cmp p nl l r hb
      have hm := (bsearch_post _ _ _ _ _ he _ hR _ _ _ _ (Nat.zero_le _) (Nat.le_refl _) (by omega) rfl).2 _ _ _ _ _ hb
      split at hr
      · subst hr
        refine ⟨fun _ hf => (by cases hf), fun _ _ hp => ?_⟩
        cases hp; exact he
      · split at hr
        · rename_i hqt; exact absurd hqt (qrTarget_ne_error _ _ _ _ (by omega) _)
        · have := linear_post _ _ _ _ he _ _ _ _ hr
          exact ⟨this.1, fun p e hp => (this.2 p e hp) ▸ he⟩
  · have := linear_post _ _ _ _ he _ _ _ _ hr
    exact ⟨this.1, fun p e hp => (this.2 p e hp) ▸ he⟩


/-! ## `read_chunk` and the invariant on the header -/

def dropCache (h : Header) : Header := { h with chunkCache := none }

/-- the two headers differ in the chunk cache at most -/
def SameDir (h h' : Header) : Prop := dropCache h' = dropCache h

theorem SameDir.refl (h : Header) : SameDir h h := rfl
theorem SameDir.trans {a b c : Header} (h1 : SameDir a b) (h2 : SameDir b c) : SameDir a c :=
  Eq.trans h2 h1
theorem SameDir.setCache (h : Header) (x : Option (List (Nat × Bytes))) :
    SameDir h { h with chunkCache := x } := rfl
theorem SameDir.chunkSize {a b : Header} (h : SameDir a b) : b.chunkSize = a.chunkSize := by
  have h' : dropCache b = dropCache a := h
  have := congrArg Header.chunkSize h'
  exact this

theorem HdrInv.setCache {h : Header} (hi : HdrInv h) (cc : List (Nat × Bytes))
    (hc : ∀ p ∈ cc, p.2.length = h.chunkSize) : HdrInv { h with chunkCache := some cc } :=
  ⟨hi.1, fun cc' hcc p hp => by cases hcc; exact hc p hp⟩

theorem HdrInv.cache {h : Header} (hi : HdrInv h) : ∀ p ∈ h.chunkCache.getD [], p.2.length = h.chunkSize := by
  intro p hp
  cases hcc : h.chunkCache with
  | none => rw [hcc] at hp; cases hp
  | some cc => rw [hcc] at hp; exact hi.2 cc hcc p hp

theorem lookup_mem : ∀ (l : List (Nat × Bytes)) (n : Nat) (c : Bytes), l.lookup n = some c → (n, c) ∈ l := by
  intro l
  induction l with
  | nil => intro n c h; cases h
  | cons a l ih =>
    intro n c h
    obtain ⟨k, v⟩ := a
    rw [List.lookup_cons] at h
    split at h
    · rename_i hk
      cases h
      have : n = k := by simpa using hk
      subst this
      exact List.mem_cons_self
    · exact List.mem_cons_of_mem _ (ih _ _ h)

theorem readChunk_post (st : FF) (file : Bytes) (n : Nat) (hi : HdrInv st.hdr) (res : Option Bytes × FF)
    (hr : readChunk st file n = res) :
    HdrInv res.2.hdr ∧ SameDir st.hdr res.2.hdr ∧ ∀ c, res.1 = some c → c.length = st.hdr.chunkSize := by
  have hcache := hi.cache
  unfold readChunk at hr
  simp only at hr
  split at hr
  · subst hr; exact ⟨hi, SameDir.refl _, fun _ hc => (by cases hc)⟩
  split at hr
  · rename_i c hlk
    subst hr
    refine ⟨hi.setCache _ hcache, SameDir.setCache _ _, fun c' hc => ?_⟩
    cases hc
    exact hcache _ (lookup_mem _ _ _ hlk)
  split at hr
  · subst hr; exact ⟨hi.setCache _ hcache, SameDir.setCache _ _, fun _ hc => (by cases hc)⟩
  split at hr
  · subst hr; exact ⟨hi.setCache _ hcache, SameDir.setCache _ _, fun _ hc => (by cases hc)⟩
  rename_i buf r' hre
  have hbl := readExact_length hre
  split at hr
  · subst hr; exact ⟨hi.setCache _ hcache, SameDir.setCache _ _, fun _ hc => (by cases hc)⟩
  · subst hr
    refine ⟨hi.setCache _ ?_, SameDir.setCache _ _, fun c' hc => ?_⟩
    · intro p hp
      rcases List.mem_cons.mp hp with rfl | hp
      · exact hbl
      · exact hcache p hp
    · cases hc; exact hbl


/-! ## `chmd_fast_find` -/

theorem readFound_post (chunk : Bytes) (p e : Nat) (st : FF) (he : e ≤ chunk.length)
    (res : Except Fault FindOut) (hr : readFound chunk p e st = res) :
    (∀ f, res ≠ .error f) ∧ ∀ o, res = .ok o → o.st.hdr = st.hdr := by
  unfold readFound at hr
  split at hr
  · rename_i hq; exact absurd hq (readEncint_ne_error _ _ _ he _)
  split at hr
  · rename_i hq; exact absurd hq (readEncint_ne_error _ _ _ he _)
  split at hr
  · rename_i hq; exact absurd hq (readEncint_ne_error _ _ _ he _)
  simp only at hr
  split at hr
  · subst hr; exact ⟨fun _ hf => (by cases hf), fun _ ho => (by cases ho; rfl)⟩
  · subst hr; exact ⟨fun _ hf => (by cases hf), fun _ ho => (by cases ho; rfl)⟩

/-- what a `chmd_fast_find` loop guarantees: no fault; the header afterwards satisfies the invariant and
    differs from the one before in the chunk cache only -/
def FindPost (h : Header) (res : Except Fault FindOut) : Prop :=
  (∀ f, res ≠ .error f) ∧ ∀ o, res = .ok o → HdrInv o.st.hdr ∧ SameDir h o.st.hdr

theorem FindPost.ok {h : Header} (o : FindOut) (hi : HdrInv o.st.hdr) (hs : SameDir h o.st.hdr) :
    FindPost h (.ok o) :=
  ⟨fun _ hf => (by cases hf), fun _ ho => (by cases ho; exact ⟨hi, hs⟩)⟩

theorem FindPost.found {h : Header} {chunk : Bytes} {p e : Nat} {st : FF} (he : e ≤ chunk.length)
    (hi : HdrInv st.hdr) (hs : SameDir h st.hdr) : FindPost h (readFound chunk p e st) := by
  have := readFound_post chunk p e st he _ rfl
  exact ⟨this.1, fun o ho => by rw [this.2 o ho]; exact ⟨hi, hs⟩⟩

theorem descend_post (file fname : Bytes) :
    ∀ (fuel n : Nat) (st : FF), HdrInv st.hdr → FindPost st.hdr (descend file fname fuel n st) := by
  intro fuel
  induction fuel with
  | zero => intro n st hi; rw [descend]; exact FindPost.ok _ hi (SameDir.refl _)
  | succ fuel ih =>
    intro n st hi
    rw [descend]
    split
    · rename_i st' hrc
      have := readChunk_post st file n hi _ hrc
      exact FindPost.ok _ this.1 this.2.1
    · rename_i chunk st' hrc
      have hc := readChunk_post st file n hi _ hrc
      have hl : chunk.length = st'.hdr.chunkSize := by
        rw [hc.2.1.chunkSize]; exact hc.2.2 _ rfl
      have hs := searchChunk_post st'.hdr chunk fname hl _ rfl
      split
      · rename_i hq; exact absurd hq (hs.1 _)
      · exact FindPost.ok _ hc.1 hc.2.1
      · exact FindPost.ok _ hc.1 hc.2.1
      · rename_i p e hq
        have he := hs.2 p e hq
        split
        · exact FindPost.found he hc.1 hc.2.1
        · split
          · rename_i hq; exact absurd hq (readEncint_ne_error _ _ _ he _)
          · split
            · exact FindPost.ok _ hc.1 hc.2.1
            · have := ih (‹EncRes›.value % 4294967296) st' hc.1
              exact ⟨this.1, fun o ho => ⟨(this.2 o ho).1, hc.2.1.trans (this.2 o ho).2⟩⟩


theorem walk_post (file fname : Bytes) :
    ∀ (fuel n : Nat) (last : Search) (st : FF), HdrInv st.hdr →
      FindPost st.hdr (walk file fname fuel n last st) := by
  intro fuel
  induction fuel with
  | zero => intro n last st hi; rw [walk]; exact FindPost.ok _ hi (SameDir.refl _)
  | succ fuel ih =>
    intro n last st hi
    rw [walk]
    simp only
    split
    · exact FindPost.ok _ hi (SameDir.refl _)
    split
    · rename_i st' hrc
      have := readChunk_post st file n hi _ hrc
      exact FindPost.ok _ this.1 this.2.1
    · rename_i chunk st' hrc
      have hc := readChunk_post st file n hi _ hrc
      have hl : chunk.length = st'.hdr.chunkSize := by
        rw [hc.2.1.chunkSize]; exact hc.2.2 _ rfl
      have hs := searchChunk_post st'.hdr chunk fname hl _ rfl
      split
      · rename_i hq; exact absurd hq (hs.1 _)
      · rename_i p e hq
        exact FindPost.found (hs.2 p e hq) hc.1 hc.2.1
      · split
        · exact FindPost.ok _ hc.1 hc.2.1
        · have := ih (u32At chunk pmgl_NextChunk) ‹Search› st' hc.1
          exact ⟨this.1, fun o ho => ⟨(this.2 o ho).1, hc.2.1.trans (this.2 o ho).2⟩⟩

/-- `chmd_fast_find` on a header satisfying the invariant: no fault, invariant kept, only the cache changes -/
theorem fastFind_post (file : Option Bytes) (st : FF) (filename : Bytes) (hi : HdrInv st.hdr) :
    FindPost st.hdr (fastFind file st filename) := by
  unfold fastFind
  split
  · exact FindPost.ok _ hi (SameDir.refl _)
  · simp only
    split
    · exact descend_post _ _ _ _ _ hi
    · exact walk_post _ _ _ _ _ _ hi

/-! ## `chmd_extract`: system files, reset table, SpanInfo -/

theorem HdrInv.of_eq {h h' : Header} (hi : HdrInv h) (h1 : h'.chunkSize = h.chunkSize)
    (h2 : h'.chunkCache = h.chunkCache) : HdrInv h' := by
  unfold HdrInv; rw [h1, h2]; exact hi

theorem Slot.get_set_self (h : Header) (f : CFile) (s : Slot) : s.get (s.set h f) = some f := by
  cases s <;> rfl

theorem Slot.get_set_mono (h : Header) (f : CFile) (s t : Slot) (ht : (t.get h).isSome) :
    (t.get (s.set h f)).isSome := by
  cases s <;> cases t <;> first | exact ht | rfl

theorem SameDir.slot {a b : Header} (h : SameDir a b) (t : Slot) : t.get b = t.get a := by
  have h' : dropCache b = dropCache a := h
  cases t
  · have := congrArg Header.content h'; exact this
  · have := congrArg Header.control h'; exact this
  · have := congrArg Header.spaninfo h'; exact this
  · have := congrArg Header.rtable h'; exact this

/-- what `find_sys_file` guarantees -/
def SysPost (x : X) (slot : Slot) (res : Except Fault (Err × X)) : Prop :=
  (∀ f, res ≠ .error f) ∧ ∀ err x', res = .ok (err, x') →
    HdrInv x'.hdr ∧ x'.d = x.d ∧ (err = .ok → (slot.get x'.hdr).isSome) ∧
    ∀ t : Slot, (t.get x.hdr).isSome → (t.get x'.hdr).isSome

theorem findSysFile_post (files : Files) (x : X) (slot : Slot) (hi : HdrInv x.hdr) :
    SysPost x slot (findSysFile files x slot) := by
  unfold findSysFile
  split
  · rename_i f hg
    refine ⟨fun _ hf => (by cases hf), fun err x' hr => ?_⟩
    cases hr
    exact ⟨hi, rfl, fun _ => by rw [hg]; rfl, fun _ ht => ht⟩
  · have hff := fastFind_post (files.lookup x.hdr.filename) x.ff slot.name hi
    split
    · rename_i hq; exact absurd hq (hff.1 _)
    · rename_i o hq
      have ho := hff.2 o hq
      have hmono : ∀ t : Slot, (t.get x.hdr).isSome → (t.get o.st.hdr).isSome := by
        intro t ht; rw [ho.2.slot t]; exact ht
      simp only
      split
      · refine ⟨fun _ hf => (by cases hf), fun err x' hr => ?_⟩
        cases hr
        exact ⟨ho.1, rfl, fun he => (by cases he), hmono⟩
      · split
        · refine ⟨fun _ hf => (by cases hf), fun err x' hr => ?_⟩
          cases hr
          exact ⟨ho.1, rfl, fun he => (by cases he), hmono⟩
        · refine ⟨fun _ hf => (by cases hf), fun err x' hr => ?_⟩
          cases hr
          refine ⟨ho.1.of_eq (by cases slot <;> rfl) (by cases slot <;> rfl), rfl,
            fun _ => by rw [Slot.get_set_self]; rfl, fun t ht => Slot.get_set_mono _ _ _ _ ?_⟩
          have := hmono t ht
          cases t <;> exact this


/-- the decoder state is kept and an open input handle stays open -/
def DKeep (d d' : DState) : Prop := d'.state = d.state ∧ (d.infh.isSome → d'.infh.isSome)

theorem DKeep.refl (d : DState) : DKeep d d := ⟨rfl, fun h => h⟩
theorem DKeep.trans {a b c : DState} (h1 : DKeep a b) (h2 : DKeep b c) : DKeep a c :=
  ⟨h2.1.trans h1.1, fun h => h2.2 (h1.2 h)⟩
theorem DKeep.of_eq {a b : DState} (h : b = a) : DKeep a b := h ▸ DKeep.refl _

theorem readSysFile_post (files : Files) (x : X) (f : CFile) (res : Option Bytes × X)
    (hr : readSysFile files x f = res) :
    res.2.hdr = x.hdr ∧ DKeep x.d res.2.d ∧
    ∀ data, res.1 = some data → 0 ≤ wrapI32 f.length ∧ data.length = (wrapI32 f.length).toNat := by
  unfold readSysFile at hr
  split at hr
  · subst hr; exact ⟨rfl, DKeep.refl _, fun _ hd => (by cases hd)⟩
  simp only at hr
  split at hr
  · subst hr; exact ⟨rfl, DKeep.refl _, fun _ hd => (by cases hd)⟩
  rename_i hlen
  split at hr
  · subst hr; exact ⟨rfl, DKeep.refl _, fun _ hd => (by cases hd)⟩
  split at hr
  · subst hr; exact ⟨rfl, DKeep.refl _, fun _ hd => (by cases hd)⟩
  split at hr
  · subst hr; exact ⟨rfl, ⟨rfl, fun _ => rfl⟩, fun _ hd => (by cases hd)⟩
  · rename_i hdl
    subst hr
    refine ⟨rfl, ⟨rfl, fun _ => rfl⟩, fun data hd => ?_⟩
    cases hd
    exact ⟨Int.not_lt.mp hlen, Decidable.not_not.mp hdl⟩

/-- what `read_reset_table` / `read_spaninfo` / `chmd_init_decomp` keep -/
def KeepPost {α : Type} (x : X) (res : Except Fault (α × X)) : Prop :=
  (∀ f, res ≠ .error f) ∧ ∀ a x', res = .ok (a, x') → HdrInv x'.hdr ∧ DKeep x.d x'.d

theorem readResetTable_post (files : Files) (x : X) (entry : Nat) (hi : HdrInv x.hdr) :
    KeepPost x (readResetTable files x entry) := by
  unfold readResetTable
  have hs := findSysFile_post files x .rtable hi
  split
  · rename_i hq; exact absurd hq (hs.1 _)
  rename_i err x1 hq
  have h1 := hs.2 _ _ hq
  have k1 : DKeep x.d x1.d := DKeep.of_eq h1.2.1
  split
  · exact ⟨fun _ hf => (by cases hf), fun _ _ hr => (by cases hr; exact ⟨h1.1, k1⟩)⟩
  rename_i herr
  split
  · rename_i hn
    have := h1.2.2.1 (Decidable.not_not.mp herr)
    rw [show Slot.get x1.hdr .rtable = x1.hdr.rtable from rfl, hn] at this
    cases this
  rename_i rt hrt
  split
  · exact ⟨fun _ hf => (by cases hf), fun _ _ hr => (by cases hr; exact ⟨h1.1, k1⟩)⟩
  rename_i hlo
  split
  · exact ⟨fun _ hf => (by cases hf), fun _ _ hr => (by cases hr; exact ⟨h1.1, k1⟩)⟩
  rename_i hhi
  split
  · rename_i x2 hrs
    have h2 := readSysFile_post files x1 rt _ hrs
    exact ⟨fun _ hf => (by cases hf), fun _ _ hr => (by cases hr; exact ⟨h1.1.of_eq (by rw [h2.1]) (by rw [h2.1]), k1.trans h2.2.1⟩)⟩
  rename_i data x2 hrs
  have h2 := readSysFile_post files x1 rt _ hrs
  have hinv2 : HdrInv x2.hdr := h1.1.of_eq (by rw [h2.1]) (by rw [h2.1])
  have k2 : DKeep x.d x2.d := k1.trans h2.2.1
  have hdl := (h2.2.2 data rfl).2
  have hw : wrapI32 rt.length = rt.length := by
    unfold wrapI32
    simp only [lzxrtHeaderSIZEOF, Int.ofNat_eq_natCast] at hlo
    omega
  rw [hw] at hdl
  split
  · exact ⟨fun _ hf => (by cases hf), fun _ _ hr => (by cases hr; exact ⟨hinv2, k2⟩)⟩
  simp only
  split
  · rename_i hc
    split
    · rw [if_neg (by simp only [Int.ofNat_eq_natCast] at hc; omega)]
      exact ⟨fun _ hf => (by cases hf), fun _ _ hr => (by cases hr; exact ⟨hinv2, k2⟩)⟩
    · split
      · rw [if_neg (by simp only [Int.ofNat_eq_natCast] at hc; omega)]
        exact ⟨fun _ hf => (by cases hf), fun _ _ hr => (by cases hr; exact ⟨hinv2, k2⟩)⟩
      · exact ⟨fun _ hf => (by cases hf), fun _ _ hr => (by cases hr; exact ⟨hinv2, k2⟩)⟩
  · exact ⟨fun _ hf => (by cases hf), fun _ _ hr => (by cases hr; exact ⟨hinv2, k2⟩)⟩


theorem readSpaninfo_post (files : Files) (x : X) (hi : HdrInv x.hdr) :
    (∀ f, readSpaninfo files x ≠ .error f) ∧
    ∀ e l x', readSpaninfo files x = .ok (e, l, x') → HdrInv x'.hdr ∧ DKeep x.d x'.d := by
  unfold readSpaninfo
  have hs := findSysFile_post files x .spaninfo hi
  split
  · rename_i hq; exact absurd hq (hs.1 _)
  rename_i err x1 hq
  have h1 := hs.2 _ _ hq
  have k1 : DKeep x.d x1.d := DKeep.of_eq h1.2.1
  split
  · exact ⟨fun _ hf => (by cases hf), fun _ _ _ hr => (by cases hr; exact ⟨h1.1, k1⟩)⟩
  rename_i herr
  split
  · rename_i hn
    have := h1.2.2.1 (Decidable.not_not.mp herr)
    rw [show Slot.get x1.hdr .spaninfo = x1.hdr.spaninfo from rfl, hn] at this
    cases this
  rename_i si hsi
  split
  · exact ⟨fun _ hf => (by cases hf), fun _ _ _ hr => (by cases hr; exact ⟨h1.1, k1⟩)⟩
  split
  · rename_i x2 hrs
    have h2 := readSysFile_post files x1 si _ hrs
    exact ⟨fun _ hf => (by cases hf), fun _ _ _ hr => (by cases hr; exact ⟨h1.1.of_eq (by rw [h2.1]) (by rw [h2.1]), k1.trans h2.2.1⟩)⟩
  rename_i data x2 hrs
  have h2 := readSysFile_post files x1 si _ hrs
  have hinv2 : HdrInv x2.hdr := h1.1.of_eq (by rw [h2.1]) (by rw [h2.1])
  have k2 : DKeep x.d x2.d := k1.trans h2.2.1
  simp only
  generalize i64At data 0 = len
  split
  · exact ⟨fun _ hf => (by cases hf), fun _ _ _ hr => (by cases hr; exact ⟨hinv2, k2⟩)⟩
  · exact ⟨fun _ hf => (by cases hf), fun _ _ _ hr => (by cases hr; exact ⟨hinv2, k2⟩)⟩

/-! ## `chmd_init_decomp` -/

def DInv (P : Lzx.St Rd → Prop) (d : DState) : Prop := ∀ st, d.state = some st → P st

theorem DInv.keep {P : Lzx.St Rd → Prop} {d d' : DState} (h : DInv P d) (k : DKeep d d') : DInv P d' :=
  fun st hst => h st (k.1 ▸ hst)

def InitPost (P : Lzx.St Rd → Prop) (x : X) (res : Except Fault (Err × X)) : Prop :=
  (∀ f, res ≠ .error f) ∧ ∀ ret x', res = .ok (ret, x') →
    HdrInv x'.hdr ∧ DInv P x'.d ∧ (x.d.infh.isSome → x'.d.infh.isSome)

theorem InitPost.mk' {P : Lzx.St Rd → Prop} {x : X} (e : Err) (x' : X) (hi : HdrInv x'.hdr) (hd : DInv P x'.d)
    (hf : x.d.infh.isSome → x'.d.infh.isSome) : InitPost P x (.ok (e, x')) :=
  ⟨fun _ hf => (by cases hf), fun _ _ hr => (by cases hr; exact ⟨hi, hd, hf⟩)⟩

theorem InitPost.mkD {P : Lzx.St Rd → Prop} {x : X} (e e' : Err) (h : Header) (chm : Nat) (len off inoff : Int)
    (state : Option (Lzx.St Rd)) (infh : Option InFh) (hi : HdrInv h) (hst : ∀ st, state = some st → P st)
    (hf : x.d.infh.isSome → infh.isSome) :
    InitPost P x (.ok (e, X.mk e' h (DState.mk chm len off inoff state infh))) :=
  ⟨fun _ hf => (by cases hf), fun _ _ hr => (by cases hr; exact ⟨hi, hst, hf⟩)⟩

theorem InitPost.ok {P : Lzx.St Rd → Prop} {x x' : X} (e : Err) (hi : HdrInv x'.hdr) (hd : DInv P x.d)
    (k : DKeep x.d x'.d) : InitPost P x (.ok (e, { x' with error := e })) :=
  ⟨fun _ hf => (by cases hf), fun _ _ hr => (by cases hr; exact ⟨hi, hd.keep k, k.2⟩)⟩

theorem initDecomp_post (P : Lzx.St Rd → Prop)
    (hinit : ∀ r wb ri ibs ol dl fill st, Lzx.init (σ := Rd) r wb ri ibs ol dl fill = some st → P st)
    (files : Files) (fill : UInt8) (x : X) (off : Int) (hi : HdrInv x.hdr) (hd : DInv P x.d) :
    InitPost P x (initDecomp files fill x off) := by
  unfold initDecomp
  simp only
  have hs := findSysFile_post files x .content hi
  split
  · rename_i hq; exact absurd hq (hs.1 _)
  rename_i err x1 hq
  have h1 := hs.2 _ _ hq
  have k1 : DKeep x.d x1.d := DKeep.of_eq h1.2.1
  split
  · exact InitPost.ok _ h1.1 hd k1
  rename_i herr1
  have hs2 := findSysFile_post files x1 .control h1.1
  split
  · rename_i hq; exact absurd hq (hs2.1 _)
  rename_i err2 x2 hq2
  have h2 := hs2.2 _ _ hq2
  have k2 : DKeep x.d x2.d := k1.trans (DKeep.of_eq h2.2.1)
  split
  · exact InitPost.ok _ h2.1 hd k2
  rename_i herr2
  have hc1 : (x2.hdr.content).isSome := h2.2.2.2 .content (h1.2.2.1 (Decidable.not_not.mp herr1))
  have hc2 : (x2.hdr.control).isSome := h2.2.2.1 (Decidable.not_not.mp herr2)
  split
  · rename_i hn; rw [hn] at hc1; cases hc1
  · rename_i hn _; rw [hn] at hc2; cases hc2
  rename_i content control hcontent hcontrol
  split
  · exact InitPost.ok _ h2.1 hd k2
  split
  · rename_i x3 hrs
    have h3 := readSysFile_post files x2 control _ hrs
    exact ⟨fun _ hf => (by cases hf), fun _ _ hr => (by
      cases hr; exact ⟨h2.1.of_eq (by rw [h3.1]) (by rw [h3.1]), hd.keep (k2.trans h3.2.1), (k2.trans h3.2.1).2⟩)⟩
  rename_i data x3 hrs
  have h3 := readSysFile_post files x2 control _ hrs
  have hi3 : HdrInv x3.hdr := h2.1.of_eq (by rw [h3.1]) (by rw [h3.1])
  have k3 : DKeep x.d x3.d := k2.trans h3.2.1
  split
  · exact InitPost.ok _ hi3 hd k3
  split
  · exact InitPost.ok _ hi3 hd k3
  rename_i resetInterval windowSize hparams
  split
  · exact InitPost.ok _ hi3 hd k3
  rename_i wbits hwb
  split
  · exact InitPost.ok _ hi3 hd k3
  generalize toU32 (wrapI32 (wrapI32 (off.tdiv resetInterval) * resetInterval.tdiv (Int.ofNat lzxFRAME_SIZE))) = entryU
  generalize wrapI32 (wrapI32 (off.tdiv resetInterval) * resetInterval.tdiv (Int.ofNat lzxFRAME_SIZE)) = entryI
  have hrt := readResetTable_post files x3 entryU hi3
  split
  · rename_i hq; exact absurd hq (hrt.1 _)
  rename_i rt x4 hq4
  have h4 := hrt.2 _ _ hq4
  have k4 : DKeep x.d x4.d := k3.trans h4.2
  cases rt with
  | some p =>
    obtain ⟨length, offset⟩ := p
    simp only
    generalize wrapI64 (andI64 (wrapI64 (length + wrapI32 (resetInterval - 1))) (wrapI32 (-resetInterval)) - wrapI32 (entryI * Int.ofNat lzxFRAME_SIZE)) = rem
    generalize hst : (if resetInterval.tdiv (Int.ofNat lzxFRAME_SIZE) < 0 ∨ rem < 0 then none
      else Lzx.init (⟨[], 0⟩ : Rd) wbits (resetInterval.tdiv (Int.ofNat lzxFRAME_SIZE)).toNat 4096
        rem.toNat false fill) = ost
    have host : ∀ st, ost = some st → P st := by
      intro st hs
      rw [← hst] at hs
      split at hs
      · cases hs
      · exact hinit _ _ _ _ _ _ _ _ hs
    by_cases hrem : rem ≤ 0
    · rw [if_pos hrem]
      exact InitPost.mkD _ _ _ _ _ _ _ _ _ h4.1 (hd.keep k4) k4.2
    · rw [if_neg hrem]
      by_cases hn : ost.isNone = true
      · rw [if_pos hn]
        exact InitPost.mkD _ _ _ _ _ _ _ _ _ h4.1 host k4.2
      · rw [if_neg hn]
        exact InitPost.mkD _ _ _ _ _ _ _ _ _ h4.1 host k4.2
  | none =>
    simp only
    have hsp := readSpaninfo_post files x4 h4.1
    split
    · rename_i hq
      split at hq
      · rename_i hq5; exact absurd hq5 (hsp.1 _)
      · split at hq <;> cases hq
    · rename_i err5 x5 hq
      split at hq
      · cases hq
      · rename_i e5 l5 x5' hq5
        have h5 := hsp.2 _ _ _ hq5
        split at hq
        · cases hq
          exact InitPost.ok _ h5.1 hd (k4.trans h5.2)
        · cases hq
    · rename_i length offset entry x5 hq
      split at hq
      · cases hq
      rename_i e5 l5 x5' hq5
      have h5 := hsp.2 _ _ _ hq5
      have k5 : DKeep x.d x5'.d := k4.trans h5.2
      split at hq
      · cases hq
      cases hq
      generalize wrapI64 (length - wrapI32 (0 * Int.ofNat lzxFRAME_SIZE)) = rem
      generalize hst : (if resetInterval.tdiv (Int.ofNat lzxFRAME_SIZE) < 0 ∨ rem < 0 then none
        else Lzx.init (⟨[], 0⟩ : Rd) wbits (resetInterval.tdiv (Int.ofNat lzxFRAME_SIZE)).toNat 4096
          rem.toNat false fill) = ost
      have host : ∀ st, ost = some st → P st := by
        intro st hs
        rw [← hst] at hs
        split at hs
        · cases hs
        · exact hinit _ _ _ _ _ _ _ _ hs
      by_cases hrem : rem ≤ 0
      · rw [if_pos hrem]
        exact InitPost.mkD _ _ _ _ _ _ _ _ _ h5.1 (hd.keep k5) k5.2
      · rw [if_neg hrem]
        by_cases hn : ost.isNone = true
        · rw [if_pos hn]
          exact InitPost.mkD _ _ _ _ _ _ _ _ _ h5.1 host k5.2
        · rw [if_neg hn]
          exact InitPost.mkD _ _ _ _ _ _ _ _ _ h5.1 host k5.2

/-! ## `chmd_extract` -/

/-- what the CHM layer needs from a safety invariant `P` of the LZX decoder state -/
structure LzxInv (P : Lzx.St Rd → Prop) : Prop where
  init : ∀ r wb ri ibs ol dl fill st, Lzx.init (σ := Rd) r wb ri ibs ol dl fill = some st → P st
  src  : ∀ (st : Lzx.St Rd) (r : Rd), P st → P { st with src := r }
  step : ∀ fuel st n o, P st → Lzx.decompress rdSrc fuel st n = .ok o → P o.st

/-- `f` is a fault that `lzxd_decompress` itself reported, on a decoder state satisfying `P` -/
def LzxFault (P : Lzx.St Rd → Prop) (f : Fault) : Prop :=
  ∃ fuel st n, P st ∧ Lzx.decompress rdSrc fuel st n = .error f

def InstInv (P : Lzx.St Rd → Prop) (inst : Inst) : Prop := ∀ d, inst.d = some d → DInv P d

/-- `C` = what is known whenever a fault is passed on (it is: the member is not in section 0) -/
def ExtractPost (C : Prop) (P : Lzx.St Rd → Prop) (res : ExtractResult) : Prop :=
  (∀ f, res = .fault f → C ∧ LzxFault P f) ∧
  (∀ ret i h out, res = .done ret i h out → HdrInv h ∧ InstInv P i) ∧
  (∀ i h, res = .unsupported i h → HdrInv h ∧ InstInv P i)

theorem InstInv.some {P : Lzx.St Rd → Prop} (e : Err) {d : DState} (hd : DInv P d) : InstInv P ⟨e, some d⟩ :=
  fun d' h => by cases h; exact hd

theorem ExtractPost.done {C : Prop} {P : Lzx.St Rd → Prop} (ret : Err) (i : Inst) (h : Header) (out : Option Bytes)
    (hi : HdrInv h) (hd : InstInv P i) : ExtractPost C P (.done ret i h out) :=
  ⟨fun _ hf => (by cases hf), fun _ _ _ _ hr => (by cases hr; exact ⟨hi, hd⟩), fun _ _ hr => (by cases hr)⟩

theorem ExtractPost.unsupported {C : Prop} {P : Lzx.St Rd → Prop} (i : Inst) (h : Header)
    (hi : HdrInv h) (hd : InstInv P i) : ExtractPost C P (.unsupported i h) :=
  ⟨fun _ hf => (by cases hf), fun _ _ _ _ hr => (by cases hr), fun _ _ hr => (by cases hr; exact ⟨hi, hd⟩)⟩

theorem ExtractPost.fault {C : Prop} {P : Lzx.St Rd → Prop} (f : Fault) (hc : C) (h : LzxFault P f) :
    ExtractPost C P (.fault f) :=
  ⟨fun _ hf => (by cases hf; exact ⟨hc, h⟩), fun _ _ _ _ hr => (by cases hr), fun _ _ hr => (by cases hr)⟩

/-- one `lzxd_decompress` call from `chmd_extract` -/
theorem lzxCall_post {P : Lzx.St Rd → Prop} (L : LzxInv P) (files : Files) (x : X) (b : Int)
    (hd : DInv P x.d) (hf : x.d.infh.isSome) :
    (∀ f, lzxCall files x b = .error f → LzxFault P f) ∧
    (∀ e w x', lzxCall files x b = .ok (some (e, w, x')) → x'.hdr = x.hdr ∧ DInv P x'.d ∧ x'.d.infh.isSome) := by
  unfold lzxCall
  split
  · exact ⟨fun _ h => (by cases h), fun _ _ _ h => (by cases h; exact ⟨rfl, hd, hf⟩)⟩
  · rename_i hn _; rw [hn] at hf; cases hf
  · rename_i st h hst hh
    split
    · exact ⟨fun _ h => (by cases h), fun _ _ _ h => (by cases h; exact ⟨rfl, hd, hf⟩)⟩
    split
    · exact ⟨fun _ h => (by cases h), fun _ _ _ h => (by cases h)⟩
    simp only
    have hP : P { st with src := ⟨infhBytes files x, h.pos⟩ } := L.src st _ (hd st hst)
    split
    · rename_i f hq
      exact ⟨fun _ h => (by cases h; exact ⟨_, _, _, hP, hq⟩), fun _ _ _ h => (by cases h)⟩
    · rename_i o hq
      refine ⟨fun _ h => (by cases h), fun _ _ _ h => ?_⟩
      cases h
      exact ⟨rfl, fun st' hs => (by cases hs; exact L.step _ _ _ _ hP hq), rfl⟩


theorem ExtractPost.finish {C : Prop} {P : Lzx.St Rd → Prop} (x : X) (out : Bytes) (hi : HdrInv x.hdr) (hd : DInv P x.d) :
    ExtractPost C P (.done x.error { error := x.error, d := some x.d } x.hdr (some out)) :=
  ExtractPost.done _ _ _ _ hi (InstInv.some _ hd)

theorem extract_post {P : Lzx.St Rd → Prop} (L : LzxInv P) (files : Files) (fill : UInt8) (inst : Inst)
    (key : Nat) (hdr : Header) (sec : Nat) (offset length : Int) (hi : HdrInv hdr) (hinst : InstInv P inst) :
    ExtractPost (sec ≠ 0) P (extract files fill inst key hdr sec offset length) := by
  unfold extract
  extract_lets fillWord d0 reopen d1 opened finish
  clear_value fillWord
  have hd0 : DInv P d0 := by
    intro st hst
    unfold d0 at hst
    split at hst
    · rename_i d hid; exact hinst d hid st hst
    · cases hst
  have hd1 : DInv P d1 := by
    intro st hst
    unfold d1 at hst
    split at hst
    · cases hst
    · exact hd0 st hst
  have hop : ∀ d, opened = some d → DInv P d ∧ d.infh.isSome := by
    intro d hd
    unfold opened at hd
    split at hd
    · split at hd
      · cases hd; exact ⟨fun st hst => hd1 st hst, rfl⟩
      · cases hd
    · rename_i hre
      cases hd
      refine ⟨hd1, ?_⟩
      unfold d1
      rw [if_neg hre]
      unfold reopen at hre
      cases hinf : d0.infh with
      | none => exact absurd (Or.inl (by rw [hinf]; rfl)) hre
      | some _ => rfl
  clear_value opened d1 reopen d0
  split
  · exact ExtractPost.done _ _ _ _ hi (InstInv.some _ hd1)
  rename_i _ d
  obtain ⟨hdd, hdf⟩ := hop d rfl
  split
  · exact ExtractPost.done _ _ _ _ hi (InstInv.some _ hdd)
  simp only
  split
  · -- section 0
    split
    · rename_i hn; rw [hn] at hdf; cases hdf
    rename_i h hh
    generalize seekAbs _ _ = sk
    cases sk with
    | none => exact ExtractPost.finish _ _ hi hdd
    | some r =>
      simp only
      generalize copyLoop _ _ _ _ = cl
      obtain ⟨err, out, r'⟩ := cl
      cases err <;> exact ExtractPost.finish _ _ hi (fun st hs => hdd st hs)
  · -- MSCompressed section
    rename_i hsec
    generalize hin : (if d.state.isNone = true ∨ offset < d.offset then _ else _ : Except Fault (Bool × X)) = inited
    have hinited : (∀ f, inited ≠ .error f) ∧
        ∀ b x', inited = .ok (b, x') → HdrInv x'.hdr ∧ DInv P x'.d ∧ x'.d.infh.isSome := by
      rw [← hin]
      split
      · have hp := initDecomp_post P L.init files fill
          { error := .ok, hdr := hdr, d := { d with state := none } } offset hi (fun st hs => (by cases hs))
        split
        · rename_i hq; exact absurd hq (hp.1 _)
        · rename_i ret x' hq
          have := hp.2 _ _ hq
          exact ⟨fun _ hf => (by cases hf), fun _ _ hr => (by cases hr; exact ⟨this.1, this.2.1, this.2.2 hdf⟩)⟩
      · exact ⟨fun _ hf => (by cases hf), fun _ _ hr => (by cases hr; exact ⟨hi, hdd, hdf⟩)⟩
    clear hin
    split
    · rename_i _ f; exact absurd rfl (hinited.1 f)
    · rename_i _ x1
      have h1 := hinited.2 _ _ rfl
      exact ExtractPost.finish _ _ h1.1 h1.2.1
    rename_i _ x1
    obtain ⟨hi1, hd1', hf1⟩ := hinited.2 _ _ rfl
    split
    · exact ExtractPost.finish _ _ hi1 (fun st hs => hd1' st hs)
    split
    · rename_i hn; rw [hn] at hf1; cases hf1
    rename_i h hh
    split
    · exact ExtractPost.finish _ _ hi1 (fun st hs => hd1' st hs)
    -- get to the correct offset
    generalize hp1 : (if wrapI64 (offset - x1.d.offset) = 0 then _ else _ : Except Fault (Option X)) = ph1
    have hph1 : (∀ f, ph1 = .error f → LzxFault P f) ∧
        ∀ x', ph1 = .ok (some x') → HdrInv x'.hdr ∧ DInv P x'.d ∧ x'.d.infh.isSome := by
      rw [← hp1]
      split
      · exact ⟨fun _ hf => (by cases hf), fun _ hr => (by cases hr; exact ⟨hi1, fun st hs => hd1' st hs, rfl⟩)⟩
      · have hc := lzxCall_post L files (X.mk x1.error x1.hdr (DState.mk x1.d.chm x1.d.length x1.d.offset
          x1.d.inoffset x1.d.state (some ⟨h.name, x1.d.inoffset.toNat⟩))) (wrapI64 (offset - x1.d.offset))
          (fun st hs => hd1' st hs) rfl
        split
        · rename_i f hq
          exact ⟨fun _ hf => (by cases hf; exact hc.1 _ hq), fun _ hr => (by cases hr)⟩
        · exact ⟨fun _ hf => (by cases hf), fun _ hr => (by cases hr)⟩
        · rename_i e w x' hq
          have := hc.2 _ _ _ hq
          exact ⟨fun _ hf => (by cases hf), fun _ hr => (by cases hr; exact ⟨by rw [this.1]; exact hi1, this.2.1, this.2.2⟩)⟩
    clear hp1
    split
    · rename_i _ f; exact ExtractPost.fault _ hsec (hph1.1 _ rfl)
    · exact ExtractPost.unsupported _ _ hi1 (InstInv.some _ (fun st hs => hd1' st hs))
    rename_i _ x2
    obtain ⟨hi2, hd2, hf2⟩ := hph1.2 _ rfl
    -- unpack the file
    generalize hp2 : (if x2.error ≠ Err.ok then _ else _ : Except Fault (Option (X × Bytes))) = ph2
    have hph2 : (∀ f, ph2 = .error f → LzxFault P f) ∧
        ∀ x' out, ph2 = .ok (some (x', out)) → HdrInv x'.hdr ∧ DInv P x'.d ∧ x'.d.infh.isSome := by
      rw [← hp2]
      split
      · exact ⟨fun _ hf => (by cases hf), fun _ _ hr => (by cases hr; exact ⟨hi2, hd2, hf2⟩)⟩
      · split
        · rename_i f hq
          exact ⟨fun _ hf => (by cases hf; exact (lzxCall_post L files _ _ hd2 hf2).1 _ hq),
            fun _ _ hr => (by cases hr)⟩
        · exact ⟨fun _ hf => (by cases hf), fun _ _ hr => (by cases hr)⟩
        · rename_i e w x' hq
          have := (lzxCall_post L files _ _ hd2 hf2).2 _ _ _ hq
          exact ⟨fun _ hf => (by cases hf), fun _ _ hr => (by cases hr; exact ⟨by rw [this.1]; exact hi2, this.2.1, this.2.2⟩)⟩
    clear hp2
    split
    · rename_i _ f; exact ExtractPost.fault _ hsec (hph2.1 _ rfl)
    · exact ExtractPost.unsupported _ _ hi2 (InstInv.some _ hd2)
    rename_i _ x3 out
    obtain ⟨hi3, hd3, hf3⟩ := hph2.2 _ _ rfl
    cases hinf : x3.d.infh with
    | none => rw [hinf] at hf3; cases hf3
    | some h3 =>
      simp only
      split
      · exact ExtractPost.finish _ _ hi3 (fun st hs => (by cases hs))
      · exact ExtractPost.finish _ _ hi3 (fun st hs => hd3 st hs)

end MsPack.Chm
