import MsPack.Lzx.Decoder
/-!
# LZX decoder: bounds lemmas for C02 (memory safety)

A weakest-precondition calculus for the decoder monad `LM σ` (`wp`), frame relations between
states (`SameB`/`SameL`/`SameR`/`Fix`, generated: which fields a helper may change), the size
invariant `Inv0`, the frame-level invariant `Good`, and one lemma per helper of `Lzx/Decoder.lean`:
"if the invariant holds before, no checked access fails and the invariant holds after".
-/
set_option linter.unusedSimpArgs false
set_option linter.unusedVariables false
namespace MsPack.Lzx
open MsPack MsPack.Generated
variable {σ : Type}

/-! ## pure helpers -/

theorem copyFwd_ok : ∀ (n src dst : Nat) (w : Array UInt8), src + n ≤ w.size → dst + n ≤ w.size →
    ∃ w', copyFwd n src dst w = .ok w' ∧ w'.size = w.size
  | 0, _, _, w, _, _ => ⟨w, rfl, rfl⟩
  | n + 1, src, dst, w, hs, hd => by
    have h1 : src < w.size := by omega
    have h2 : dst < w.size := by omega
    rw [copyFwd, dif_pos h1, dif_pos h2]
    obtain ⟨w', h, hsz⟩ := copyFwd_ok n (src + 1) (dst + 1) (w.set dst w[src])
      (by rw [Array.size_set]; omega) (by rw [Array.size_set]; omega)
    exact ⟨w', h, by rw [hsz, Array.size_set]⟩

theorem writeBytes_ok : ∀ (bs : Bytes) (dst : Nat) (w : Array UInt8), dst + bs.length ≤ w.size →
    ∃ w', writeBytes bs dst w = .ok w' ∧ w'.size = w.size
  | [], _, w, _ => ⟨w, rfl, rfl⟩
  | b :: rest, dst, w, hd => by
    have h2 : dst < w.size := by simp only [List.length_cons] at hd; omega
    rw [writeBytes, dif_pos h2]
    obtain ⟨w', h, hsz⟩ := writeBytes_ok rest (dst + 1) (w.set dst b)
      (by rw [Array.size_set]; simp only [List.length_cons] at hd; omega)
    exact ⟨w', h, by rw [hsz, Array.size_set]⟩

theorem copyAcross_ok (src : Array UInt8) (start : Nat) : ∀ (n k : Nat) (dst : Array UInt8),
    start + k + n ≤ src.size → k + n ≤ dst.size →
    ∃ d', copyAcross src start n k dst = .ok d' ∧ d'.size = dst.size
  | 0, _, dst, _, _ => ⟨dst, rfl, rfl⟩
  | n + 1, k, dst, hs, hd => by
    have h1 : start + k < src.size := by omega
    have h2 : k < dst.size := by omega
    rw [copyAcross, Array.getElem?_eq_getElem h1]
    simp only [dif_pos h2]
    obtain ⟨d', h, hsz⟩ := copyAcross_ok src start n (k + 1) (dst.set k src[start + k])
      (by omega) (by rw [Array.size_set]; omega)
    exact ⟨d', h, by rw [hsz, Array.size_set]⟩

theorem e8Loop_ok (dataend : Nat) (filesize : Int) : ∀ (fuel p : Nat) (curpos : Int) (buf : Array UInt8),
    dataend + 10 ≤ buf.size →
    (∃ b, e8Loop dataend filesize fuel p curpos buf = .ok b ∧ b.size = buf.size) ∨
      e8Loop dataend filesize fuel p curpos buf = .error .hang
  | 0, p, _, buf, _ => by
    rw [e8Loop]; split
    · exact Or.inr rfl
    · exact Or.inl ⟨buf, rfl, rfl⟩
  | fuel + 1, p, curpos, buf, hb => by
    rw [e8Loop]
    split
    · rename_i hp
      have h1 : p < buf.size := by omega
      rw [Array.getElem?_eq_getElem h1]
      simp only
      split
      · exact e8Loop_ok dataend filesize fuel _ _ buf hb
      · have h3 : p + 1 + 3 < buf.size := by omega
        rw [dif_pos h3]
        have key : ∀ b' : Array UInt8, b'.size = buf.size →
            ((∃ b, e8Loop dataend filesize fuel (p + 1 + 4) (toS32 (curpos + 5)) b' = .ok b ∧ b.size = buf.size) ∨
              e8Loop dataend filesize fuel (p + 1 + 4) (toS32 (curpos + 5)) b' = .error .hang) := by
          intro b' hs
          rcases e8Loop_ok dataend filesize fuel (p + 1 + 4) (toS32 (curpos + 5)) b' (by omega) with ⟨b, h, hs'⟩ | h
          · exact Or.inl ⟨b, h, by omega⟩
          · exact Or.inr h
        apply key
        rw [apply_ite Array.size]
        simp only [Array.size_set, ite_self]
    · exact Or.inl ⟨buf, rfl, rfl⟩

theorem bitsVal_lt (bs : List Bool) : bitsVal bs < 2 ^ bs.length := by
  have h : ∀ (bs : List Bool) (acc : Nat),
      bs.foldl (fun acc b => acc * 2 + (if b then 1 else 0)) acc + 1 ≤ (acc + 1) * 2 ^ bs.length := by
    intro bs
    induction bs with
    | nil => intro acc; simp
    | cons b rest ih =>
      intro acc
      simp only [List.foldl_cons, List.length_cons]
      have h1 := ih (acc * 2 + (if b then 1 else 0))
      have h2 : (acc * 2 + (if b then 1 else 0) + 1) * 2 ^ rest.length ≤ (acc * 2 + 2) * 2 ^ rest.length :=
        Nat.mul_le_mul_right _ (by split <;> omega)
      have h3 : (acc * 2 + 2) * 2 ^ rest.length = (acc + 1) * 2 ^ (rest.length + 1) := by
        rw [Nat.pow_succ, Nat.add_mul, Nat.add_mul, Nat.mul_assoc, Nat.mul_comm (2 ^ rest.length) 2, Nat.one_mul]
      omega
  have := h bs 0
  unfold bitsVal
  omega

theorem bitsVal_take_lt (bs : List Bool) (n : Nat) : bitsVal (bs.take n) < 2 ^ n := by
  have h1 := bitsVal_lt (bs.take n)
  have h2 : 2 ^ (bs.take n).length ≤ 2 ^ n := Nat.pow_le_pow_right (by omega) (by simp only [List.length_take]; omega)
  omega

/-! ## Huffman symbols stay below the number of lengths -/

def AllBd (syms : Array (Array Nat)) (n : Nat) : Prop := ∀ a ∈ syms, ∀ x ∈ a, x < n

def CanonBd (c : Huff.Canon) (n : Nat) : Prop := ∀ i j, (c.syms.getD i #[]).getD j 0 < n

theorem AllBd.getD {syms : Array (Array Nat)} {n : Nat} (h : AllBd syms n) (hn : 0 < n) (i j : Nat) :
    (syms.getD i #[]).getD j 0 < n := by
  unfold Array.getD
  split
  · rename_i hi
    split
    · rename_i hj
      exact h _ (Array.getElem_mem hi) _ (Array.getElem_mem hj)
    · exact hn
  · simp only [Array.size_empty, Nat.not_lt_zero, ↓reduceDIte]; exact hn

theorem symsOfLen_bd (lens : List Nat) (l : Nat) : ∀ x ∈ Huff.symsOfLen lens l, x < lens.length := by
  intro x hx
  unfold Huff.symsOfLen at hx
  simp only [List.mem_toArray, List.mem_filter, List.mem_range] at hx
  exact hx.1

theorem mkCanon_go_bd (lens : List Nat) : ∀ (fuel l code : Nat) (first : Array Nat) (syms : Array (Array Nat)),
    AllBd syms lens.length → AllBd (Huff.mkCanon.go lens l fuel code first syms).2 lens.length
  | 0, _, _, _, _, h => by rw [Huff.mkCanon.go]; exact h
  | fuel + 1, l, code, first, syms, h => by
    rw [Huff.mkCanon.go]
    apply mkCanon_go_bd lens fuel
    intro a ha
    rw [Array.mem_push] at ha
    rcases ha with ha | ha
    · exact h a ha
    · subst ha; exact symsOfLen_bd lens l

theorem mkCanon_bd (lens : List Nat) (m : Nat) (hn : 0 < lens.length) : CanonBd (Huff.mkCanon lens m) lens.length := by
  have h := mkCanon_go_bd lens m 1 0 #[] #[] (by intro a ha; simp at ha)
  have e : (Huff.mkCanon lens m).syms = (Huff.mkCanon.go lens 1 m 0 #[] #[]).2 := by
    unfold Huff.mkCanon; rfl
  intro i j
  rw [e]
  exact h.getD hn i j

theorem build_bd {nbits : Nat} {lens : List Nat} {c : Huff.Canon} (h : Huff.build nbits lens = some c)
    (hn : 0 < lens.length) : CanonBd c lens.length := by
  unfold Huff.build at h
  split at h
  · simp only [Option.some.injEq] at h; subst h; exact mkCanon_bd lens _ hn
  · simp only [Option.some.injEq] at h; subst h; exact mkCanon_bd lens _ hn
  · contradiction

theorem decode_go_bd (c : Huff.Canon) (n : Nat) (hc : CanonBd c n) : ∀ (fuel l code : Nat) (bits : List Bool)
    (sym len : Nat), Huff.decode.go c l fuel code bits = some (sym, len) → sym < n
  | 0, _, _, _, _, _, h => by rw [Huff.decode.go] at h; contradiction
  | fuel + 1, _, _, [], _, _, h => by rw [Huff.decode.go] at h; contradiction; omega
  | fuel + 1, l, code, b :: rest, sym, len, h => by
    rw [Huff.decode.go] at h
    by_cases hcnd : c.first.getD (l - 1) 0 ≤ code * 2 + (if b then 1 else 0) ∧
        code * 2 + (if b then 1 else 0) - c.first.getD (l - 1) 0 < (c.syms.getD (l - 1) #[]).size
    · rw [if_pos hcnd] at h
      simp only [Option.some.injEq, Prod.mk.injEq] at h
      rw [← h.1]; exact hc _ _
    · rw [if_neg hcnd] at h
      exact decode_go_bd c n hc fuel _ _ rest sym len h

theorem decode_bd {c : Huff.Canon} {n : Nat} (hc : CanonBd c n) {bits : List Bool} {sym len : Nat}
    (h : Huff.decode c bits = some (sym, len)) : sym < n := by
  unfold Huff.decode at h
  exact decode_go_bd c n hc _ _ _ _ _ _ h

theorem lensOf_length (a : Array UInt8) (n : Nat) (h : n ≤ a.size) : (lensOf a n).length = n := by
  unfold lensOf
  simp only [List.length_map, Array.length_toList, Array.size_extract]
  omega

/-! ## weakest preconditions for `LM σ` -/

/-- the fault outcomes that are not excluded: loop fuel exhausted, a decode table used before it
    was built, or a fault the *source* reported from its own `read` -/
def Benign (S : Src σ) (f : Fault) : Prop :=
  f = .hang ∨ (∃ s, f = .uninit s) ∨ (∃ x n, S.read x n = .error f)

def Post (S : Src σ) {α : Type} (Q : α → St σ → Prop) (E : St σ → Prop) : Except Halt α × St σ → Prop
  | (.ok a, st) => Q a st
  | (.error (.sys _), st) => E st
  | (.error (.fault f), _) => Benign S f

/-- running `m` from `st`: a normal result satisfies `Q`, a status return (`.sys`) leaves a state
    satisfying `E`, a fault is benign -/
def wp (S : Src σ) {α : Type} (m : LM σ α) (Q : α → St σ → Prop) (E : St σ → Prop) (st : St σ) : Prop :=
  Post S Q E (m.run.run st)

/-- after a status return the sticky error field is set -/
def Er (st : St σ) : Prop := st.error ≠ .ok

section
variable (S : Src σ) {α β : Type}

theorem wp_bind (m : LM σ α) (f : α → LM σ β) (Q : β → St σ → Prop) (E st) :
    wp S (m >>= f) Q E st ↔ wp S m (fun a st' => wp S (f a) Q E st') E st := by
  unfold wp
  show Post S Q E (match (m.run.run st : Except Halt α × St σ) with
      | (a, s) => (ExceptT.bindCont f a s : Except Halt β × St σ)) ↔ _
  cases (m.run.run st : Except Halt α × St σ) with
  | mk r st1 =>
    cases r with
    | ok a => exact Iff.rfl
    | error e => cases e <;> exact Iff.rfl

theorem wp_ite (c : Prop) [Decidable c] (a b : LM σ α) (Q : α → St σ → Prop) (E st) :
    wp S (if c then a else b) Q E st ↔ (c → wp S a Q E st) ∧ (¬c → wp S b Q E st) := by
  split <;> simp [*]

theorem wp_pure (a : α) (Q : α → St σ → Prop) (E st) : wp S (pure a : LM σ α) Q E st ↔ Q a st := Iff.rfl
theorem wp_get (Q : St σ → St σ → Prop) (E st) : wp S (get : LM σ (St σ)) Q E st ↔ Q st st := Iff.rfl
theorem wp_set (s : St σ) (Q : PUnit → St σ → Prop) (E st) : wp S (set s : LM σ PUnit) Q E st ↔ Q ⟨⟩ s := Iff.rfl
theorem wp_modify (f : St σ → St σ) (Q : PUnit → St σ → Prop) (E st) :
    wp S (modify f : LM σ PUnit) Q E st ↔ Q ⟨⟩ (f st) := Iff.rfl
theorem wp_modifyGet (f : St σ → α × St σ) (Q : α → St σ → Prop) (E st) :
    wp S (modifyGet f : LM σ α) Q E st ↔ Q (f st).1 (f st).2 := Iff.rfl
theorem wp_throw_sys (e : Err) (Q : α → St σ → Prop) (E st) :
    wp S (throw (.sys e) : LM σ α) Q E st ↔ E st := Iff.rfl
theorem wp_throw_fault (f : Fault) (Q : α → St σ → Prop) (E st) :
    wp S (throw (.fault f) : LM σ α) Q E st ↔ Benign S f := Iff.rfl

theorem wp_mono {m : LM σ α} {Q Q' : α → St σ → Prop} {E E' : St σ → Prop} {st}
    (h : wp S m Q E st) (hq : ∀ a st', Q a st' → Q' a st') (he : ∀ st', E st' → E' st') : wp S m Q' E' st := by
  unfold wp at *
  cases hm : (m.run.run st : Except Halt α × St σ) with
  | mk r st1 =>
    rw [hm] at h
    cases r with
    | ok a => exact hq _ _ h
    | error e => cases e with
      | sys e => exact he _ h
      | fault f => exact h

/-- same status-return postcondition -/
theorem wp_cons {m : LM σ α} {Q Q' : α → St σ → Prop} {E : St σ → Prop} {st}
    (h : wp S m Q E st) (hq : ∀ a st', Q a st' → Q' a st') : wp S m Q' E st :=
  wp_mono S h hq (fun _ h => h)

theorem wp_fail (e : Err) (he : e ≠ .ok) (Q : α → St σ → Prop) (st) : wp S (fail e : LM σ α) Q Er st := by
  unfold fail
  simp only [wp_bind, wp_modify, wp_throw_sys]
  exact he

theorem benign_hang : Benign S .hang := Or.inl rfl
theorem benign_uninit (s : String) : Benign S (.uninit s) := Or.inr (Or.inl ⟨s, rfl⟩)
end

/-! ## frame relations (generated): which fields a helper leaves alone -/

structure SameB (L₀ : Nat) (a b : St σ) : Prop where
  length : b.length = a.length ∨ b.length = L₀
  offset : b.offset = a.offset
  window : b.window = a.window
  windowSize : b.windowSize = a.windowSize
  refDataSize : b.refDataSize = a.refDataSize
  numOffsets : b.numOffsets = a.numOffsets
  windowPosn : b.windowPosn = a.windowPosn
  framePosn : b.framePosn = a.framePosn
  frame : b.frame = a.frame
  resetInterval : b.resetInterval = a.resetInterval
  r0 : b.r0 = a.r0
  r1 : b.r1 = a.r1
  r2 : b.r2 = a.r2
  blockLength : b.blockLength = a.blockLength
  blockRemaining : b.blockRemaining = a.blockRemaining
  intelFilesize : b.intelFilesize = a.intelFilesize
  intelStarted : b.intelStarted = a.intelStarted
  blockType : b.blockType = a.blockType
  headerRead : b.headerRead = a.headerRead
  isDelta : b.isDelta = a.isDelta
  inbufSize : b.inbufSize = a.inbufSize
  oInE8 : b.oInE8 = a.oInE8
  oPtr : b.oPtr = a.oPtr
  oEnd : b.oEnd = a.oEnd
  pretreeLen : b.pretreeLen = a.pretreeLen
  maintreeLen : b.maintreeLen = a.maintreeLen
  lengthLen : b.lengthLen = a.lengthLen
  alignedLen : b.alignedLen = a.alignedLen
  maintreeTbl : b.maintreeTbl = a.maintreeTbl
  lengthTbl : b.lengthTbl = a.lengthTbl
  alignedTbl : b.alignedTbl = a.alignedTbl
  lengthEmpty : b.lengthEmpty = a.lengthEmpty
  e8Buf : b.e8Buf = a.e8Buf

structure SameL (L₀ : Nat) (a b : St σ) : Prop where
  length : b.length = a.length ∨ b.length = L₀
  offset : b.offset = a.offset
  window : b.window = a.window
  windowSize : b.windowSize = a.windowSize
  refDataSize : b.refDataSize = a.refDataSize
  numOffsets : b.numOffsets = a.numOffsets
  windowPosn : b.windowPosn = a.windowPosn
  framePosn : b.framePosn = a.framePosn
  frame : b.frame = a.frame
  resetInterval : b.resetInterval = a.resetInterval
  r0 : b.r0 = a.r0
  r1 : b.r1 = a.r1
  r2 : b.r2 = a.r2
  blockLength : b.blockLength = a.blockLength
  blockRemaining : b.blockRemaining = a.blockRemaining
  intelFilesize : b.intelFilesize = a.intelFilesize
  intelStarted : b.intelStarted = a.intelStarted
  blockType : b.blockType = a.blockType
  headerRead : b.headerRead = a.headerRead
  isDelta : b.isDelta = a.isDelta
  inbufSize : b.inbufSize = a.inbufSize
  oInE8 : b.oInE8 = a.oInE8
  oPtr : b.oPtr = a.oPtr
  oEnd : b.oEnd = a.oEnd
  maintreeTbl : b.maintreeTbl = a.maintreeTbl
  lengthTbl : b.lengthTbl = a.lengthTbl
  alignedTbl : b.alignedTbl = a.alignedTbl
  lengthEmpty : b.lengthEmpty = a.lengthEmpty
  e8Buf : b.e8Buf = a.e8Buf
  pretreeLenSz : b.pretreeLen.size = a.pretreeLen.size
  maintreeLenSz : b.maintreeLen.size = a.maintreeLen.size
  lengthLenSz : b.lengthLen.size = a.lengthLen.size
  alignedLenSz : b.alignedLen.size = a.alignedLen.size

structure SameR (L₀ : Nat) (a b : St σ) : Prop where
  length : b.length = a.length ∨ b.length = L₀
  offset : b.offset = a.offset
  windowSize : b.windowSize = a.windowSize
  refDataSize : b.refDataSize = a.refDataSize
  numOffsets : b.numOffsets = a.numOffsets
  framePosn : b.framePosn = a.framePosn
  frame : b.frame = a.frame
  resetInterval : b.resetInterval = a.resetInterval
  blockLength : b.blockLength = a.blockLength
  blockRemaining : b.blockRemaining = a.blockRemaining
  intelFilesize : b.intelFilesize = a.intelFilesize
  intelStarted : b.intelStarted = a.intelStarted
  blockType : b.blockType = a.blockType
  headerRead : b.headerRead = a.headerRead
  isDelta : b.isDelta = a.isDelta
  inbufSize : b.inbufSize = a.inbufSize
  oInE8 : b.oInE8 = a.oInE8
  oPtr : b.oPtr = a.oPtr
  oEnd : b.oEnd = a.oEnd
  pretreeLen : b.pretreeLen = a.pretreeLen
  maintreeLen : b.maintreeLen = a.maintreeLen
  lengthLen : b.lengthLen = a.lengthLen
  alignedLen : b.alignedLen = a.alignedLen
  maintreeTbl : b.maintreeTbl = a.maintreeTbl
  lengthTbl : b.lengthTbl = a.lengthTbl
  alignedTbl : b.alignedTbl = a.alignedTbl
  lengthEmpty : b.lengthEmpty = a.lengthEmpty
  e8Buf : b.e8Buf = a.e8Buf
  windowSz : b.window.size = a.window.size

structure Fix (L₀ : Nat) (a b : St σ) : Prop where
  length : b.length = a.length ∨ b.length = L₀
  offset : b.offset = a.offset
  windowSize : b.windowSize = a.windowSize
  refDataSize : b.refDataSize = a.refDataSize
  numOffsets : b.numOffsets = a.numOffsets
  framePosn : b.framePosn = a.framePosn
  frame : b.frame = a.frame
  resetInterval : b.resetInterval = a.resetInterval
  isDelta : b.isDelta = a.isDelta
  inbufSize : b.inbufSize = a.inbufSize
  oInE8 : b.oInE8 = a.oInE8
  oPtr : b.oPtr = a.oPtr
  oEnd : b.oEnd = a.oEnd
  e8Buf : b.e8Buf = a.e8Buf
  windowSz : b.window.size = a.window.size
  pretreeLenSz : b.pretreeLen.size = a.pretreeLen.size
  maintreeLenSz : b.maintreeLen.size = a.maintreeLen.size
  lengthLenSz : b.lengthLen.size = a.lengthLen.size
  alignedLenSz : b.alignedLen.size = a.alignedLen.size

theorem SameB.rfl' (L₀ : Nat) (a : St σ) : SameB L₀ a a := by
  constructor <;> first | rfl | exact Or.inl rfl

theorem SameB.trans {L₀ : Nat} {a b c : St σ} (h : SameB L₀ a b) (h' : SameB L₀ b c) : SameB L₀ a c :=
  {
    length := by have h1 := h.length; have h2 := h'.length; omega
    offset := h'.offset.trans h.offset
    window := h'.window.trans h.window
    windowSize := h'.windowSize.trans h.windowSize
    refDataSize := h'.refDataSize.trans h.refDataSize
    numOffsets := h'.numOffsets.trans h.numOffsets
    windowPosn := h'.windowPosn.trans h.windowPosn
    framePosn := h'.framePosn.trans h.framePosn
    frame := h'.frame.trans h.frame
    resetInterval := h'.resetInterval.trans h.resetInterval
    r0 := h'.r0.trans h.r0
    r1 := h'.r1.trans h.r1
    r2 := h'.r2.trans h.r2
    blockLength := h'.blockLength.trans h.blockLength
    blockRemaining := h'.blockRemaining.trans h.blockRemaining
    intelFilesize := h'.intelFilesize.trans h.intelFilesize
    intelStarted := h'.intelStarted.trans h.intelStarted
    blockType := h'.blockType.trans h.blockType
    headerRead := h'.headerRead.trans h.headerRead
    isDelta := h'.isDelta.trans h.isDelta
    inbufSize := h'.inbufSize.trans h.inbufSize
    oInE8 := h'.oInE8.trans h.oInE8
    oPtr := h'.oPtr.trans h.oPtr
    oEnd := h'.oEnd.trans h.oEnd
    pretreeLen := h'.pretreeLen.trans h.pretreeLen
    maintreeLen := h'.maintreeLen.trans h.maintreeLen
    lengthLen := h'.lengthLen.trans h.lengthLen
    alignedLen := h'.alignedLen.trans h.alignedLen
    maintreeTbl := h'.maintreeTbl.trans h.maintreeTbl
    lengthTbl := h'.lengthTbl.trans h.lengthTbl
    alignedTbl := h'.alignedTbl.trans h.alignedTbl
    lengthEmpty := h'.lengthEmpty.trans h.lengthEmpty
    e8Buf := h'.e8Buf.trans h.e8Buf }

theorem SameL.rfl' (L₀ : Nat) (a : St σ) : SameL L₀ a a := by
  constructor <;> first | rfl | exact Or.inl rfl

theorem SameL.trans {L₀ : Nat} {a b c : St σ} (h : SameL L₀ a b) (h' : SameL L₀ b c) : SameL L₀ a c :=
  {
    length := by have h1 := h.length; have h2 := h'.length; omega
    offset := h'.offset.trans h.offset
    window := h'.window.trans h.window
    windowSize := h'.windowSize.trans h.windowSize
    refDataSize := h'.refDataSize.trans h.refDataSize
    numOffsets := h'.numOffsets.trans h.numOffsets
    windowPosn := h'.windowPosn.trans h.windowPosn
    framePosn := h'.framePosn.trans h.framePosn
    frame := h'.frame.trans h.frame
    resetInterval := h'.resetInterval.trans h.resetInterval
    r0 := h'.r0.trans h.r0
    r1 := h'.r1.trans h.r1
    r2 := h'.r2.trans h.r2
    blockLength := h'.blockLength.trans h.blockLength
    blockRemaining := h'.blockRemaining.trans h.blockRemaining
    intelFilesize := h'.intelFilesize.trans h.intelFilesize
    intelStarted := h'.intelStarted.trans h.intelStarted
    blockType := h'.blockType.trans h.blockType
    headerRead := h'.headerRead.trans h.headerRead
    isDelta := h'.isDelta.trans h.isDelta
    inbufSize := h'.inbufSize.trans h.inbufSize
    oInE8 := h'.oInE8.trans h.oInE8
    oPtr := h'.oPtr.trans h.oPtr
    oEnd := h'.oEnd.trans h.oEnd
    maintreeTbl := h'.maintreeTbl.trans h.maintreeTbl
    lengthTbl := h'.lengthTbl.trans h.lengthTbl
    alignedTbl := h'.alignedTbl.trans h.alignedTbl
    lengthEmpty := h'.lengthEmpty.trans h.lengthEmpty
    e8Buf := h'.e8Buf.trans h.e8Buf
    pretreeLenSz := h'.pretreeLenSz.trans h.pretreeLenSz
    maintreeLenSz := h'.maintreeLenSz.trans h.maintreeLenSz
    lengthLenSz := h'.lengthLenSz.trans h.lengthLenSz
    alignedLenSz := h'.alignedLenSz.trans h.alignedLenSz }

theorem SameR.rfl' (L₀ : Nat) (a : St σ) : SameR L₀ a a := by
  constructor <;> first | rfl | exact Or.inl rfl

theorem SameR.trans {L₀ : Nat} {a b c : St σ} (h : SameR L₀ a b) (h' : SameR L₀ b c) : SameR L₀ a c :=
  {
    length := by have h1 := h.length; have h2 := h'.length; omega
    offset := h'.offset.trans h.offset
    windowSize := h'.windowSize.trans h.windowSize
    refDataSize := h'.refDataSize.trans h.refDataSize
    numOffsets := h'.numOffsets.trans h.numOffsets
    framePosn := h'.framePosn.trans h.framePosn
    frame := h'.frame.trans h.frame
    resetInterval := h'.resetInterval.trans h.resetInterval
    blockLength := h'.blockLength.trans h.blockLength
    blockRemaining := h'.blockRemaining.trans h.blockRemaining
    intelFilesize := h'.intelFilesize.trans h.intelFilesize
    intelStarted := h'.intelStarted.trans h.intelStarted
    blockType := h'.blockType.trans h.blockType
    headerRead := h'.headerRead.trans h.headerRead
    isDelta := h'.isDelta.trans h.isDelta
    inbufSize := h'.inbufSize.trans h.inbufSize
    oInE8 := h'.oInE8.trans h.oInE8
    oPtr := h'.oPtr.trans h.oPtr
    oEnd := h'.oEnd.trans h.oEnd
    pretreeLen := h'.pretreeLen.trans h.pretreeLen
    maintreeLen := h'.maintreeLen.trans h.maintreeLen
    lengthLen := h'.lengthLen.trans h.lengthLen
    alignedLen := h'.alignedLen.trans h.alignedLen
    maintreeTbl := h'.maintreeTbl.trans h.maintreeTbl
    lengthTbl := h'.lengthTbl.trans h.lengthTbl
    alignedTbl := h'.alignedTbl.trans h.alignedTbl
    lengthEmpty := h'.lengthEmpty.trans h.lengthEmpty
    e8Buf := h'.e8Buf.trans h.e8Buf
    windowSz := h'.windowSz.trans h.windowSz }

theorem Fix.rfl' (L₀ : Nat) (a : St σ) : Fix L₀ a a := by
  constructor <;> first | rfl | exact Or.inl rfl

theorem Fix.trans {L₀ : Nat} {a b c : St σ} (h : Fix L₀ a b) (h' : Fix L₀ b c) : Fix L₀ a c :=
  {
    length := by have h1 := h.length; have h2 := h'.length; omega
    offset := h'.offset.trans h.offset
    windowSize := h'.windowSize.trans h.windowSize
    refDataSize := h'.refDataSize.trans h.refDataSize
    numOffsets := h'.numOffsets.trans h.numOffsets
    framePosn := h'.framePosn.trans h.framePosn
    frame := h'.frame.trans h.frame
    resetInterval := h'.resetInterval.trans h.resetInterval
    isDelta := h'.isDelta.trans h.isDelta
    inbufSize := h'.inbufSize.trans h.inbufSize
    oInE8 := h'.oInE8.trans h.oInE8
    oPtr := h'.oPtr.trans h.oPtr
    oEnd := h'.oEnd.trans h.oEnd
    e8Buf := h'.e8Buf.trans h.e8Buf
    windowSz := h'.windowSz.trans h.windowSz
    pretreeLenSz := h'.pretreeLenSz.trans h.pretreeLenSz
    maintreeLenSz := h'.maintreeLenSz.trans h.maintreeLenSz
    lengthLenSz := h'.lengthLenSz.trans h.lengthLenSz
    alignedLenSz := h'.alignedLenSz.trans h.alignedLenSz }

theorem SameB.toSameL {L₀ : Nat} {a b : St σ} (h : SameB L₀ a b) : SameL L₀ a b :=
  {
    length := h.length
    offset := h.offset
    window := h.window
    windowSize := h.windowSize
    refDataSize := h.refDataSize
    numOffsets := h.numOffsets
    windowPosn := h.windowPosn
    framePosn := h.framePosn
    frame := h.frame
    resetInterval := h.resetInterval
    r0 := h.r0
    r1 := h.r1
    r2 := h.r2
    blockLength := h.blockLength
    blockRemaining := h.blockRemaining
    intelFilesize := h.intelFilesize
    intelStarted := h.intelStarted
    blockType := h.blockType
    headerRead := h.headerRead
    isDelta := h.isDelta
    inbufSize := h.inbufSize
    oInE8 := h.oInE8
    oPtr := h.oPtr
    oEnd := h.oEnd
    maintreeTbl := h.maintreeTbl
    lengthTbl := h.lengthTbl
    alignedTbl := h.alignedTbl
    lengthEmpty := h.lengthEmpty
    e8Buf := h.e8Buf
    pretreeLenSz := by rw [h.pretreeLen]
    maintreeLenSz := by rw [h.maintreeLen]
    lengthLenSz := by rw [h.lengthLen]
    alignedLenSz := by rw [h.alignedLen] }

theorem SameB.toSameR {L₀ : Nat} {a b : St σ} (h : SameB L₀ a b) : SameR L₀ a b :=
  {
    length := h.length
    offset := h.offset
    windowSize := h.windowSize
    refDataSize := h.refDataSize
    numOffsets := h.numOffsets
    framePosn := h.framePosn
    frame := h.frame
    resetInterval := h.resetInterval
    blockLength := h.blockLength
    blockRemaining := h.blockRemaining
    intelFilesize := h.intelFilesize
    intelStarted := h.intelStarted
    blockType := h.blockType
    headerRead := h.headerRead
    isDelta := h.isDelta
    inbufSize := h.inbufSize
    oInE8 := h.oInE8
    oPtr := h.oPtr
    oEnd := h.oEnd
    pretreeLen := h.pretreeLen
    maintreeLen := h.maintreeLen
    lengthLen := h.lengthLen
    alignedLen := h.alignedLen
    maintreeTbl := h.maintreeTbl
    lengthTbl := h.lengthTbl
    alignedTbl := h.alignedTbl
    lengthEmpty := h.lengthEmpty
    e8Buf := h.e8Buf
    windowSz := by rw [h.window] }

theorem SameL.toFix {L₀ : Nat} {a b : St σ} (h : SameL L₀ a b) : Fix L₀ a b :=
  {
    length := h.length
    offset := h.offset
    windowSize := h.windowSize
    refDataSize := h.refDataSize
    numOffsets := h.numOffsets
    framePosn := h.framePosn
    frame := h.frame
    resetInterval := h.resetInterval
    isDelta := h.isDelta
    inbufSize := h.inbufSize
    oInE8 := h.oInE8
    oPtr := h.oPtr
    oEnd := h.oEnd
    e8Buf := h.e8Buf
    windowSz := by rw [h.window]
    pretreeLenSz := h.pretreeLenSz
    maintreeLenSz := h.maintreeLenSz
    lengthLenSz := h.lengthLenSz
    alignedLenSz := h.alignedLenSz }

theorem SameR.toFix {L₀ : Nat} {a b : St σ} (h : SameR L₀ a b) : Fix L₀ a b :=
  {
    length := h.length
    offset := h.offset
    windowSize := h.windowSize
    refDataSize := h.refDataSize
    numOffsets := h.numOffsets
    framePosn := h.framePosn
    frame := h.frame
    resetInterval := h.resetInterval
    isDelta := h.isDelta
    inbufSize := h.inbufSize
    oInE8 := h.oInE8
    oPtr := h.oPtr
    oEnd := h.oEnd
    e8Buf := h.e8Buf
    windowSz := h.windowSz
    pretreeLenSz := by rw [h.pretreeLen]
    maintreeLenSz := by rw [h.maintreeLen]
    lengthLenSz := by rw [h.lengthLen]
    alignedLenSz := by rw [h.alignedLen] }

theorem SameB.toFix {L₀ : Nat} {a b : St σ} (h : SameB L₀ a b) : Fix L₀ a b :=
  {
    length := h.length
    offset := h.offset
    windowSize := h.windowSize
    refDataSize := h.refDataSize
    numOffsets := h.numOffsets
    framePosn := h.framePosn
    frame := h.frame
    resetInterval := h.resetInterval
    isDelta := h.isDelta
    inbufSize := h.inbufSize
    oInE8 := h.oInE8
    oPtr := h.oPtr
    oEnd := h.oEnd
    e8Buf := h.e8Buf
    windowSz := by rw [h.window]
    pretreeLenSz := by rw [h.pretreeLen]
    maintreeLenSz := by rw [h.maintreeLen]
    lengthLenSz := by rw [h.lengthLen]
    alignedLenSz := by rw [h.alignedLen] }

/-! ## the size invariant -/

structure Inv0 (st : St σ) : Prop where
  win : st.window.size = st.windowSize
  wsLe : st.windowSize ≤ 33554432
  wsDvd : st.windowSize % 32768 = 0
  wsPos : 0 < st.windowSize
  pre : st.pretreeLen.size = 84
  main : st.maintreeLen.size = 2640
  len : st.lengthLen.size = 314
  ali : st.alignedLen.size = 72
  e8 : st.e8Buf.size = 32768
  nOff : st.numOffsets ≤ 2320
  ref : st.refDataSize ≤ st.windowSize
  tbl : ∀ c, st.maintreeTbl = some c → CanonBd c 2576

theorem Inv0.of_fix {L₀ : Nat} {a b : St σ} (h : Inv0 a) (f : Fix L₀ a b) (ht : ∀ c, b.maintreeTbl = some c → CanonBd c 2576) :
    Inv0 b :=
  { win := by rw [f.windowSz, f.windowSize]; exact h.win
    wsLe := by rw [f.windowSize]; exact h.wsLe
    wsDvd := by rw [f.windowSize]; exact h.wsDvd
    wsPos := by rw [f.windowSize]; exact h.wsPos
    pre := by rw [f.pretreeLenSz]; exact h.pre
    main := by rw [f.maintreeLenSz]; exact h.main
    len := by rw [f.lengthLenSz]; exact h.len
    ali := by rw [f.alignedLenSz]; exact h.ali
    e8 := by rw [f.e8Buf]; exact h.e8
    nOff := by rw [f.numOffsets]; exact h.nOff
    ref := by rw [f.refDataSize, f.windowSize]; exact h.ref
    tbl := ht }

theorem Inv0.of_sameB {L₀ : Nat} {a b : St σ} (h : Inv0 a) (f : SameB L₀ a b) : Inv0 b := h.of_fix f.toFix (by rw [f.maintreeTbl]; exact h.tbl)
theorem Inv0.of_sameL {L₀ : Nat} {a b : St σ} (h : Inv0 a) (f : SameL L₀ a b) : Inv0 b := h.of_fix f.toFix (by rw [f.maintreeTbl]; exact h.tbl)
theorem Inv0.of_sameR {L₀ : Nat} {a b : St σ} (h : Inv0 a) (f : SameR L₀ a b) : Inv0 b := h.of_fix f.toFix (by rw [f.maintreeTbl]; exact h.tbl)

/-- closes `SameX L₀ st { st with … }` goals -/
macro "same_tac" : tactic => `(tactic| (constructor <;> first | rfl | exact Or.inl rfl | (simp only [Array.size_set]; done)))

/-! ## the bit reader -/
section
variable (S : Src σ) (L₀ : Nat)
  (hL : ∀ x n got x' m, S.read x n = .ok (got, x') → S.lzxLength x' = some m → m = 0 ∨ m = L₀)
include hL

theorem readInput_spec (st : St σ) :
    wp S (readInput S) (fun _ st' => SameB L₀ st st' ∧ st'.inbuf ≠ []) Er st := by
  unfold readInput
  simp only [wp_bind, wp_get]
  split
  · rename_i f hf
    simp only [wp_throw_fault]
    exact Or.inr (Or.inr ⟨_, _, hf⟩)
  · rename_i got src hr
    have hlen : (match S.lzxLength src with
        | some n => if n > 0 then n else st.length
        | none => st.length) = st.length ∨ (match S.lzxLength src with
        | some n => if n > 0 then n else st.length
        | none => st.length) = L₀ := by
      split
      · rename_i n hn
        have := hL _ _ _ _ _ hr hn
        split
        · right; omega
        · left; rfl
      · left; rfl
    split
    · simp only [wp_bind, wp_set, wp_throw_sys]
      simp [Er]
    · split
      · simp only [wp_bind, wp_set, wp_throw_sys]
        simp [Er]
      · simp only [wp_set]
        refine ⟨?_, by simp⟩
        constructor <;> first | rfl | exact hlen
    · rename_i got' hne1 hne2
      simp only [wp_set]
      refine ⟨?_, ?_⟩
      · constructor <;> first | rfl | exact hlen
      · intro h
        exact hne2 h

theorem nextByte_spec (st : St σ) : wp S (nextByte S) (fun _ st' => SameB L₀ st st') Er st := by
  unfold nextByte
  simp only [wp_bind, wp_get, wp_ite, wp_pure]
  refine ⟨fun _ => ?_, fun hne => ?_⟩
  · apply wp_cons S (readInput_spec S L₀ hL st)
    intro _ st1 ⟨h1, h2⟩
    split
    · simp only [wp_bind, wp_set, wp_pure]
      exact h1.trans (by same_tac)
    · contradiction
  · split
    · simp only [wp_bind, wp_set, wp_pure]
      same_tac
    · rename_i h; rw [h] at hne; simp at hne

theorem ensureBits_spec (n : Nat) : ∀ (fuel : Nat) (st : St σ),
    wp S (ensureBits S n fuel) (fun _ st' => SameB L₀ st st' ∧ n ≤ st'.bits.length) Er st
  | 0, st => by
    rw [ensureBits]
    simp only [wp_bind, wp_get, wp_ite, wp_pure, wp_throw_fault]
    exact ⟨fun _ => benign_hang S, fun h => ⟨SameB.rfl' _ _, by omega⟩⟩
  | fuel + 1, st => by
    rw [ensureBits]
    simp only [wp_bind, wp_get, wp_ite, wp_pure]
    refine ⟨fun _ => ?_, fun h => ⟨SameB.rfl' _ _, by omega⟩⟩
    apply wp_cons S (nextByte_spec S L₀ hL st)
    intro b0 st1 h1
    apply wp_cons S (nextByte_spec S L₀ hL st1)
    intro b1 st2 h2
    simp only [wp_modify]
    apply wp_cons S (ensureBits_spec n fuel _)
    intro _ st3 ⟨h3, hn⟩
    exact ⟨(h1.trans h2).trans (SameB.trans (by same_tac) h3), hn⟩

theorem readBits_spec (n : Nat) (st : St σ) :
    wp S (readBits S n) (fun v st' => SameB L₀ st st' ∧ v < 2 ^ n) Er st := by
  unfold readBits peekBits removeBits
  simp only [wp_bind, wp_get, wp_pure, wp_modify]
  apply wp_cons S (ensureBits_spec S L₀ hL n 3 st)
  intro _ st1 ⟨h1, _⟩
  exact ⟨h1.trans (by same_tac), bitsVal_take_lt _ _⟩

theorem readHuffSym_spec (tbl : Option Huff.Canon) (name : String) (st : St σ) :
    wp S (readHuffSym S tbl name)
      (fun sym st' => SameB L₀ st st' ∧ ∃ c, tbl = some c ∧ ∀ n, CanonBd c n → sym < n) Er st := by
  unfold readHuffSym removeBits
  simp only [wp_bind]
  apply wp_cons S (ensureBits_spec S L₀ hL 16 3 st)
  intro _ st1 ⟨h1, _⟩
  split
  · simp only [wp_throw_fault]; exact benign_uninit S _
  · rename_i c
    simp only [wp_bind, wp_get]
    split
    · rename_i sym len hd
      simp only [wp_bind, wp_modify, wp_pure]
      exact ⟨h1.trans (by same_tac), c, rfl, fun n hb => decode_bd hb hd⟩
    · exact wp_fail S _ (by decide) _ _

theorem readRaw_spec : ∀ (k : Nat) (acc : Bytes) (st : St σ),
    wp S (readRaw S k acc) (fun r st' => SameB L₀ st st' ∧ r.length = acc.length + k) Er st
  | 0, acc, st => by
    rw [readRaw]; simp only [wp_pure]; exact ⟨SameB.rfl' _ _, rfl⟩
  | k + 1, acc, st => by
    rw [readRaw]
    simp only [wp_bind]
    apply wp_cons S (nextByte_spec S L₀ hL st)
    intro b st1 h1
    apply wp_cons S (readRaw_spec k _ st1)
    intro r st2 ⟨h2, hl⟩
    refine ⟨h1.trans h2, ?_⟩
    rw [hl]; simp only [List.length_append, List.length_cons, List.length_nil]; omega

theorem readExtraLen_spec (st : St σ) : wp S (readExtraLen S) (fun _ st' => SameB L₀ st st') Er st := by
  unfold readExtraLen peekBits removeBits
  simp only [wp_bind, wp_get, wp_pure, wp_modify, wp_ite]
  apply wp_cons S (ensureBits_spec S L₀ hL 3 3 st)
  intro _ st1 ⟨h1, _⟩
  refine ⟨fun _ => ?_, fun _ => ⟨fun _ => ?_, fun _ => ⟨fun _ => ?_, fun _ => ?_⟩⟩⟩
  all_goals
    apply wp_cons S (readBits_spec S L₀ hL _ _)
    intro v st2 ⟨h2, _⟩
    exact h1.trans (SameB.trans (by same_tac) h2)
end

/-! ## the length arrays -/

def lenSize (t : Tree) (st : St σ) : Nat :=
  match t with
  | .main => st.maintreeLen.size
  | .length => st.lengthLen.size

theorem SameL.lenSize {L₀ : Nat} {a b : St σ} (h : SameL L₀ a b) (t : Tree) : lenSize t b = lenSize t a := by
  cases t
  · exact h.maintreeLenSz
  · exact h.lengthLenSz

theorem SameB.lenSize {L₀ : Nat} {a b : St σ} (h : SameB L₀ a b) (t : Tree) : lenSize t b = lenSize t a :=
  h.toSameL.lenSize t

section
variable (S : Src σ) (L₀ : Nat)

theorem getLen_spec (t : Tree) (x : Nat) (st : St σ) (h : x < lenSize t st) :
    wp S (getLen t x) (fun _ st' => st' = st) Er st := by
  unfold getLen
  simp only [wp_bind, wp_get]
  cases t
  · simp only [lenSize] at h
    simp only [Array.getElem?_eq_getElem h, wp_pure]
  · simp only [lenSize] at h
    simp only [Array.getElem?_eq_getElem h, wp_pure]

theorem setLen_spec (t : Tree) (x : Nat) (v : UInt8) (st : St σ) (h : x < lenSize t st) :
    wp S (setLen t x v) (fun _ st' => SameL L₀ st st') Er st := by
  unfold setLen
  simp only [wp_bind, wp_get]
  cases t
  · simp only [lenSize] at h
    simp only [dif_pos h, wp_set]
    same_tac
  · simp only [lenSize] at h
    simp only [dif_pos h, wp_set]
    same_tac

theorem fillLens_spec (t : Tree) (v : UInt8) : ∀ (y x : Nat) (st : St σ), x + y ≤ lenSize t st →
    wp S (fillLens t v y x) (fun _ st' => SameL L₀ st st') Er st
  | 0, x, st, _ => by rw [fillLens]; simp only [wp_pure]; exact SameL.rfl' _ _
  | y + 1, x, st, h => by
    rw [fillLens]
    simp only [wp_bind]
    apply wp_cons S (setLen_spec S L₀ t x v st (by omega))
    intro _ st1 h1
    apply wp_cons S (fillLens_spec t v y (x + 1) st1 (by rw [h1.lenSize]; omega))
    intro _ st2 h2
    exact h1.trans h2

variable (hL : ∀ x n got x' m, S.read x n = .ok (got, x') → S.lzxLength x' = some m → m = 0 ∨ m = L₀)
include hL

theorem readLensLoop_spec (t : Tree) (pre : Huff.Canon) (last : Nat) : ∀ (fuel x : Nat) (st : St σ),
    last + 50 ≤ lenSize t st →
    wp S (readLensLoop S t pre last fuel x) (fun _ st' => SameL L₀ st st') Er st
  | 0, x, st, _ => by rw [readLensLoop]; simp only [wp_throw_fault]; exact benign_hang S
  | fuel + 1, x, st, hsz => by
    rw [readLensLoop]
    simp only [wp_bind, wp_ite, wp_pure]
    refine ⟨fun hx => ?_, fun _ => SameL.rfl' _ _⟩
    apply wp_cons S (readHuffSym_spec S L₀ hL _ _ st)
    intro z st1 ⟨h1, _⟩
    have hs1 : lenSize t st1 = lenSize t st := h1.lenSize t
    refine ⟨fun _ => ?_, fun _ => ⟨fun _ => ?_, fun _ => ⟨fun _ => ?_, fun _ => ?_⟩⟩⟩
    · apply wp_cons S (readBits_spec S L₀ hL 4 st1)
      intro v st2 ⟨h2, hv⟩
      have hs2 : lenSize t st2 = lenSize t st := by rw [h2.lenSize, hs1]
      apply wp_cons S (fillLens_spec S L₀ t 0 _ x st2 (by omega))
      intro _ st3 h3
      have hs3 : lenSize t st3 = lenSize t st := by rw [h3.lenSize, hs2]
      apply wp_cons S (readLensLoop_spec t pre last fuel _ st3 (by omega))
      intro _ st4 h4
      exact ((h1.trans h2).toSameL.trans h3).trans h4
    · apply wp_cons S (readBits_spec S L₀ hL 5 st1)
      intro v st2 ⟨h2, hv⟩
      have hs2 : lenSize t st2 = lenSize t st := by rw [h2.lenSize, hs1]
      apply wp_cons S (fillLens_spec S L₀ t 0 _ x st2 (by omega))
      intro _ st3 h3
      have hs3 : lenSize t st3 = lenSize t st := by rw [h3.lenSize, hs2]
      apply wp_cons S (readLensLoop_spec t pre last fuel _ st3 (by omega))
      intro _ st4 h4
      exact ((h1.trans h2).toSameL.trans h3).trans h4
    · apply wp_cons S (readBits_spec S L₀ hL 1 st1)
      intro v st2 ⟨h2, hv⟩
      have hs2 : lenSize t st2 = lenSize t st := by rw [h2.lenSize, hs1]
      apply wp_cons S (readHuffSym_spec S L₀ hL _ _ st2)
      intro z' st2' ⟨h2', _⟩
      have hs2' : lenSize t st2' = lenSize t st := by rw [h2'.lenSize, hs2]
      apply wp_cons S (getLen_spec S t x st2' (by omega))
      intro old st2'' he
      subst he
      apply wp_cons S (fillLens_spec S L₀ t _ _ x st2'' (by omega))
      intro _ st3 h3
      have hs3 : lenSize t st3 = lenSize t st := by rw [h3.lenSize, hs2']
      apply wp_cons S (readLensLoop_spec t pre last fuel _ st3 (by omega))
      intro _ st4 h4
      exact (((h1.trans h2).trans h2').toSameL.trans h3).trans h4
    · apply wp_cons S (getLen_spec S t x st1 (by omega))
      intro old st1' he
      subst he
      apply wp_cons S (setLen_spec S L₀ t x _ st1' (by omega))
      intro _ st3 h3
      have hs3 : lenSize t st3 = lenSize t st := by rw [h3.lenSize, hs1]
      apply wp_cons S (readLensLoop_spec t pre last fuel _ st3 (by omega))
      intro _ st4 h4
      exact (h1.toSameL.trans h3).trans h4

theorem readPretreeLens_spec : ∀ (k x : Nat) (st : St σ), x + k ≤ st.pretreeLen.size →
    wp S (readPretreeLens S k x) (fun _ st' => SameL L₀ st st') Er st
  | 0, x, st, _ => by rw [readPretreeLens]; simp only [wp_pure]; exact SameL.rfl' _ _
  | k + 1, x, st, h => by
    rw [readPretreeLens]
    simp only [wp_bind, wp_get]
    apply wp_cons S (readBits_spec S L₀ hL 4 st)
    intro y st1 ⟨h1, _⟩
    have hx : x < st1.pretreeLen.size := by rw [h1.pretreeLen]; omega
    simp only [dif_pos hx, wp_set]
    apply wp_cons S (readPretreeLens_spec k (x + 1) _ (by simp only [Array.size_set]; rw [h1.pretreeLen]; omega))
    intro _ st2 h2
    exact h1.toSameL.trans (SameL.trans (by same_tac) h2)

theorem readAlignedLens_spec : ∀ (k x : Nat) (st : St σ), x + k ≤ st.alignedLen.size →
    wp S (readAlignedLens S k x) (fun _ st' => SameL L₀ st st') Er st
  | 0, x, st, _ => by rw [readAlignedLens]; simp only [wp_pure]; exact SameL.rfl' _ _
  | k + 1, x, st, h => by
    rw [readAlignedLens]
    simp only [wp_bind, wp_get]
    apply wp_cons S (readBits_spec S L₀ hL 3 st)
    intro y st1 ⟨h1, _⟩
    have hx : x < st1.alignedLen.size := by rw [h1.alignedLen]; omega
    simp only [dif_pos hx, wp_set]
    apply wp_cons S (readAlignedLens_spec k (x + 1) _ (by simp only [Array.size_set]; rw [h1.alignedLen]; omega))
    intro _ st2 h2
    exact h1.toSameL.trans (SameL.trans (by same_tac) h2)

theorem readLengths_spec (fuel : Nat) (t : Tree) (first last : Nat) (st : St σ)
    (hp : 20 ≤ st.pretreeLen.size) (hsz : last + 50 ≤ lenSize t st) :
    wp S (readLengths S fuel t first last) (fun _ st' => SameL L₀ st st') Er st := by
  unfold readLengths
  simp only [wp_bind, wp_get]
  apply wp_cons S (readPretreeLens_spec S L₀ hL _ 0 st (by simp only [lzxPRETREE_MAXSYMBOLS]; omega))
  intro _ st1 h1
  split
  · exact wp_fail S _ (by decide) _ _
  · apply wp_cons S (readLensLoop_spec S L₀ hL t _ last fuel first st1 (by rw [h1.lenSize]; exact hsz))
    intro _ st2 h2
    exact h1.trans h2
end

/-! ## block header

`readBlockHeader` cut into named pieces (`readBlockHeader_eq` is `rfl`: the do-notation inlines a
continuation into every branch before it, the pieces give those copies one name). -/
section
variable (S : Src σ)

def hdrLength (fuel : Nat) : LM σ Unit := do
  readLengths S fuel .length 0 lzxNUM_SECONDARY_LENGTHS
  modify fun st => { st with lengthEmpty := false }
  let ll := lensOf (← get).lengthLen lzxLENGTH_MAXSYMBOLS
  match Huff.build lzxLENGTH_TABLEBITS ll with
  | some c => modify fun st => { st with lengthTbl := some c }
  | none =>
    modify fun st => { st with lengthTbl := none }
    if ll.any (· > 0) then fail .decrunch
    modify fun st => { st with lengthEmpty := true }

def hdrIntel (fuel : Nat) : LM σ Unit := do
  if (← getLen .main 0xE8) ≠ 0 then modify fun st => { st with intelStarted := true }
  hdrLength S fuel

def hdrMain (fuel : Nat) : LM σ Unit := do
  readLengths S fuel .main 0 256
  readLengths S fuel .main 256 (lzxNUM_CHARS + (← get).numOffsets)
  match Huff.build lzxMAINTREE_TABLEBITS (lensOf (← get).maintreeLen lzxMAINTREE_MAXSYMBOLS) with
  | none => modify (fun st => { st with maintreeTbl := none }); fail .decrunch
  | some c => modify fun st => { st with maintreeTbl := some c }
  hdrIntel S fuel

def hdrAligned (fuel : Nat) : LM σ Unit := do
  readAlignedLens S lzxALIGNED_MAXSYMBOLS 0
  match Huff.build lzxALIGNED_TABLEBITS (lensOf (← get).alignedLen lzxALIGNED_MAXSYMBOLS) with
  | none => modify (fun st => { st with alignedTbl := none }); fail .decrunch
  | some c => modify fun st => { st with alignedTbl := some c }
  hdrMain S fuel

def hdrRaw : LM σ Unit := do
  modify fun st => { st with bits := [] }
  let buf ← readRaw S 12 []
  match buf with
  | [a0, a1, a2, a3, b0, b1, b2, b3, c0, c1, c2, c3] =>
    modify fun st => { st with r0 := le32 a0 a1 a2 a3, r1 := le32 b0 b1 b2 b3, r2 := le32 c0 c1 c2 c3 }
  | _ => throw (.fault (.oob "buf"))

def hdrBody (fuel : Nat) : LM σ Unit := do
  let bt ← readBits S 3
  modify fun st => { st with blockType := bt }
  let i ← readBits S 16
  let j ← readBits S 8
  let len := i * 256 + j
  modify fun st => { st with blockRemaining := len, blockLength := len }
  if bt = 1 ∨ bt = 2 then
    if bt = 2 then hdrAligned S fuel else hdrMain S fuel
  else if bt = 3 then
    modify fun st => { st with intelStarted := true }
    if (← get).bits.isEmpty then ensureBits S 16 3
    hdrRaw S
  else fail .decrunch

theorem readBlockHeader_eq (fuel : Nat) : readBlockHeader S fuel = (do
    let st ← get
    if st.blockType = 3 ∧ st.blockLength % 2 = 1 then
      let _ ← nextByte S
    hdrBody S fuel) := rfl
end

/-- what the block header reader guarantees about the state it leaves -/
def Hdr (L₀ : Nat) (a b : St σ) : Prop := Inv0 b ∧ Fix L₀ a b ∧ b.windowPosn = a.windowPosn

theorem Hdr.step {L₀ : Nat} {a b c : St σ} (h : Hdr L₀ a b) (f : Fix L₀ b c) (hw : c.windowPosn = b.windowPosn)
    (ht : ∀ k, c.maintreeTbl = some k → CanonBd k 2576) : Hdr L₀ a c :=
  ⟨h.1.of_fix f ht, h.2.1.trans f, hw.trans h.2.2⟩

theorem Hdr.sameL {L₀ : Nat} {a b c : St σ} (h : Hdr L₀ a b) (f : SameL L₀ b c) : Hdr L₀ a c :=
  h.step f.toFix f.windowPosn (by rw [f.maintreeTbl]; exact h.1.tbl)

theorem Hdr.sameB {L₀ : Nat} {a b c : St σ} (h : Hdr L₀ a b) (f : SameB L₀ b c) : Hdr L₀ a c :=
  h.sameL f.toSameL

section
variable (S : Src σ) (L₀ : Nat)
variable (hL : ∀ x n got x' m, S.read x n = .ok (got, x') → S.lzxLength x' = some m → m = 0 ∨ m = L₀)
include hL

theorem hdrLength_spec (fuel : Nat) (st0 st : St σ) (h : Hdr L₀ st0 st) :
    wp S (hdrLength S fuel) (fun _ st' => Hdr L₀ st0 st') Er st := by
  unfold hdrLength
  simp only [wp_bind, wp_get, wp_modify]
  apply wp_cons S (readLengths_spec S L₀ hL fuel .length 0 _ st (by rw [h.1.pre]; omega)
    (by simp only [lenSize, lzxNUM_SECONDARY_LENGTHS]; rw [h.1.len]; omega))
  intro _ st1 h1
  have H1 := h.sameL h1
  split
  · simp only [wp_modify]
    exact (H1.step (by same_tac) rfl H1.1.tbl).step (by same_tac) rfl H1.1.tbl
  · simp only [wp_bind, wp_modify, wp_ite, wp_pure]
    exact ⟨fun _ => wp_fail S _ (by decide) _ _,
      fun _ => ((H1.step (by same_tac) rfl H1.1.tbl).step (by same_tac) rfl H1.1.tbl).step (by same_tac) rfl H1.1.tbl⟩

theorem hdrIntel_spec (fuel : Nat) (st0 st : St σ) (h : Hdr L₀ st0 st) :
    wp S (hdrIntel S fuel) (fun _ st' => Hdr L₀ st0 st') Er st := by
  unfold hdrIntel
  simp only [wp_bind, wp_ite, wp_modify, wp_pure]
  apply wp_cons S (getLen_spec S .main 232 st (by simp only [lenSize]; rw [h.1.main]; omega))
  intro v st1 he
  subst he
  exact ⟨fun _ => hdrLength_spec S L₀ hL fuel st0 _ (h.step (by same_tac) rfl h.1.tbl),
    fun _ => hdrLength_spec S L₀ hL fuel st0 _ h⟩

theorem hdrMain_spec (fuel : Nat) (st0 st : St σ) (h : Hdr L₀ st0 st) :
    wp S (hdrMain S fuel) (fun _ st' => Hdr L₀ st0 st') Er st := by
  unfold hdrMain
  simp only [wp_bind, wp_get]
  apply wp_cons S (readLengths_spec S L₀ hL fuel .main 0 256 st (by rw [h.1.pre]; omega)
    (by simp only [lenSize]; rw [h.1.main]; omega))
  intro _ st1 h1
  have H1 := h.sameL h1
  apply wp_cons S (readLengths_spec S L₀ hL fuel .main 256 _ st1 (by rw [H1.1.pre]; omega)
    (by have := H1.1.nOff; simp only [lenSize, lzxNUM_CHARS]; rw [H1.1.main]; omega))
  intro _ st2 h2
  have H2 := H1.sameL h2
  split
  · simp only [wp_bind, wp_modify]
    exact wp_fail S _ (by decide) _ _
  · rename_i c hc
    simp only [wp_bind, wp_modify]
    apply hdrIntel_spec S L₀ hL fuel st0
    refine H2.step (by same_tac) rfl ?_
    intro k hk
    simp only [Option.some.injEq] at hk
    subst hk
    have hl : (lensOf st2.maintreeLen lzxMAINTREE_MAXSYMBOLS).length = 2576 :=
      lensOf_length _ _ (by rw [H2.1.main]; simp only [lzxMAINTREE_MAXSYMBOLS]; omega)
    have := build_bd hc (by rw [hl]; omega)
    rw [hl] at this
    exact this

theorem hdrAligned_spec (fuel : Nat) (st0 st : St σ) (h : Hdr L₀ st0 st) :
    wp S (hdrAligned S fuel) (fun _ st' => Hdr L₀ st0 st') Er st := by
  unfold hdrAligned
  simp only [wp_bind, wp_get]
  apply wp_cons S (readAlignedLens_spec S L₀ hL _ 0 st (by rw [h.1.ali]; simp only [lzxALIGNED_MAXSYMBOLS]; omega))
  intro _ st1 h1
  have H1 := h.sameL h1
  split
  · simp only [wp_bind, wp_modify]
    exact wp_fail S _ (by decide) _ _
  · simp only [wp_bind, wp_modify]
    exact hdrMain_spec S L₀ hL fuel st0 _ (H1.step (by same_tac) rfl H1.1.tbl)

theorem hdrRaw_spec (st0 st : St σ) (h : Hdr L₀ st0 st) :
    wp S (hdrRaw S) (fun _ st' => Hdr L₀ st0 st') Er st := by
  unfold hdrRaw
  simp only [wp_bind, wp_modify]
  have H0 : Hdr L₀ st0 { st with bits := [] } := h.step (by same_tac) rfl h.1.tbl
  apply wp_cons S (readRaw_spec S L₀ hL 12 [] _)
  intro buf st1 ⟨h1, hl⟩
  have H1 := H0.sameB h1
  split
  · simp only [wp_modify]
    exact H1.step (by same_tac) rfl H1.1.tbl
  · rename_i hne
    exfalso
    simp only [List.length_nil, Nat.zero_add] at hl
    match buf, hl with
    | [a0, a1, a2, a3, b0, b1, b2, b3, c0, c1, c2, c3], _ => exact hne _ _ _ _ _ _ _ _ _ _ _ _ rfl

theorem hdrBody_spec (fuel : Nat) (st0 st : St σ) (h : Hdr L₀ st0 st) :
    wp S (hdrBody S fuel) (fun _ st' => Hdr L₀ st0 st') Er st := by
  unfold hdrBody
  simp only [wp_bind, wp_get, wp_modify, wp_ite, wp_pure]
  apply wp_cons S (readBits_spec S L₀ hL 3 st)
  intro bt st1 ⟨h1, _⟩
  have H1 := (h.sameB h1).step (c := { st1 with blockType := bt }) (by same_tac) rfl (h.sameB h1).1.tbl
  apply wp_cons S (readBits_spec S L₀ hL 16 _)
  intro i st2 ⟨h2, _⟩
  have H2 := H1.sameB h2
  apply wp_cons S (readBits_spec S L₀ hL 8 _)
  intro j st3 ⟨h3, _⟩
  have H3 := (H2.sameB h3).step (c := { st3 with blockRemaining := i * 256 + j, blockLength := i * 256 + j })
    (by same_tac) rfl (H2.sameB h3).1.tbl
  refine ⟨fun _ => ⟨fun _ => hdrAligned_spec S L₀ hL fuel st0 _ H3, fun _ => hdrMain_spec S L₀ hL fuel st0 _ H3⟩,
    fun _ => ⟨fun _ => ?_, fun _ => wp_fail S _ (by decide) _ _⟩⟩
  have H4 : Hdr L₀ st0 { ({ st3 with blockRemaining := i * 256 + j, blockLength := i * 256 + j } : St σ) with
      intelStarted := true } := H3.step (by same_tac) rfl H3.1.tbl
  refine ⟨fun _ => ?_, fun _ => hdrRaw_spec S L₀ hL st0 _ H4⟩
  apply wp_cons S (ensureBits_spec S L₀ hL 16 3 _)
  intro _ st5 ⟨h5, _⟩
  exact hdrRaw_spec S L₀ hL st0 _ (H4.sameB h5)

theorem readBlockHeader_spec (fuel : Nat) (st : St σ) (hi : Inv0 st) :
    wp S (readBlockHeader S fuel) (fun _ st' => Hdr L₀ st st') Er st := by
  rw [readBlockHeader_eq]
  simp only [wp_bind, wp_get, wp_ite, wp_pure]
  have H0 : Hdr L₀ st st := ⟨hi, Fix.rfl' _ _, rfl⟩
  refine ⟨fun _ => ?_, fun _ => hdrBody_spec S L₀ hL fuel st st H0⟩
  apply wp_cons S (nextByte_spec S L₀ hL st)
  intro _ st1 h1
  exact hdrBody_spec S L₀ hL fuel st st1 (H0.sameB h1)
end

/-! ## matches and literals -/

theorem extraBitsArr_size : extraBitsArr.size = 36 := by decide
set_option maxRecDepth 8000 in
theorem positionBaseArr_size : positionBaseArr.size = 290 := by
  unfold positionBaseArr; rw [List.size_toArray]; rfl

theorem toS32_eq (x : Int) (h0 : 0 ≤ x) (h1 : x < 2147483648) : toS32 x = x := by
  unfold toS32
  have : x % 4294967296 = x := Int.emod_eq_of_lt h0 (by omega)
  simp only [this, if_pos h1]

/-- window, `windowPosn` and `R0..R2` may change (plus the bit reader's fields); here `windowPosn` does not -/
def Run0 (L₀ : Nat) (a b : St σ) : Prop := SameR L₀ a b ∧ b.windowPosn = a.windowPosn

theorem Run0.trans {L₀ : Nat} {a b c : St σ} (h : Run0 L₀ a b) (h' : Run0 L₀ b c) : Run0 L₀ a c :=
  ⟨h.1.trans h'.1, h'.2.trans h.2⟩
theorem Run0.upd {L₀ : Nat} {a b c : St σ} (h : Run0 L₀ a b) (hs : SameR L₀ b c) (hw : c.windowPosn = b.windowPosn) :
    Run0 L₀ a c := h.trans ⟨hs, hw⟩
theorem Run0.rfl' (L₀ : Nat) (a : St σ) : Run0 L₀ a a := ⟨SameR.rfl' _ _, rfl⟩
theorem SameB.toRun0 {L₀ : Nat} {a b : St σ} (h : SameB L₀ a b) : Run0 L₀ a b := ⟨h.toSameR, h.windowPosn⟩

section
variable (S : Src σ) (L₀ : Nat)

theorem winCopy_spec (n src dst : Nat) (st : St σ) (hs : src + n ≤ st.window.size) (hd : dst + n ≤ st.window.size) :
    wp S (winCopy n src dst) (fun _ st' => Run0 L₀ st st') Er st := by
  obtain ⟨w', hw, hsz⟩ := copyFwd_ok n src dst st.window hs hd
  unfold winCopy
  simp only [wp_bind, wp_modifyGet, hw, wp_pure]
  exact ⟨by constructor <;> first | rfl | exact Or.inl rfl | exact hsz, rfl⟩

theorem putLiteral_spec (b : UInt8) (st : St σ) (h : st.windowPosn < st.window.size) :
    wp S (putLiteral b) (fun _ st' => SameR L₀ st st' ∧ st'.windowPosn = st.windowPosn + 1) Er st := by
  unfold putLiteral
  simp only [wp_bind, wp_modifyGet, dif_pos h, wp_ite, wp_pure]
  refine ⟨fun hc => by simp at hc, fun _ => ⟨?_, trivial⟩⟩
  same_tac

variable (hL : ∀ x n got x' m, S.read x n = .ok (got, x') → S.lzxLength x' = some m → m = 0 ∨ m = L₀)
include hL

/-! accumulating forms: a `Run0` chain from `st0` to the current state is extended by the call -/
theorem readBits_acc (n : Nat) (st0 st : St σ) (h : Run0 L₀ st0 st) :
    wp S (readBits S n) (fun v st' => Run0 L₀ st0 st' ∧ v < 2 ^ n) Er st :=
  wp_cons S (readBits_spec S L₀ hL n st) (fun _ _ ⟨h', hv⟩ => ⟨h.trans h'.toRun0, hv⟩)

theorem readHuffSym_acc (tbl : Option Huff.Canon) (name : String) (st0 st : St σ) (h : Run0 L₀ st0 st) :
    wp S (readHuffSym S tbl name)
      (fun sym st' => Run0 L₀ st0 st' ∧ ∃ c, tbl = some c ∧ ∀ n, CanonBd c n → sym < n) Er st :=
  wp_cons S (readHuffSym_spec S L₀ hL tbl name st) (fun _ _ ⟨h', hv⟩ => ⟨h.trans h'.toRun0, hv⟩)

theorem readExtraLen_acc (st0 st : St σ) (h : Run0 L₀ st0 st) :
    wp S (readExtraLen S) (fun _ st' => Run0 L₀ st0 st' ∧ True) Er st :=
  wp_cons S (readExtraLen_spec S L₀ hL st) (fun _ _ h' => ⟨h.trans h'.toRun0, trivial⟩)

set_option hygiene false in
/-- extend the chain to the current state -/
macro "chainR" : tactic =>
  `(tactic| first | assumption | (refine Run0.upd (by assumption) ?_ ?_ <;> first | rfl | same_tac))

set_option hygiene false in
/-- walk down one path of bit-reader calls -/
macro "wp_walk" : tactic => `(tactic| (
  repeat (first
    | (apply wp_cons S (readBits_acc S L₀ hL _ st0 _ ?_) <;> first | chainR | rintro _ _ ⟨_, _⟩)
    | (apply wp_cons S (readHuffSym_acc S L₀ hL _ _ st0 _ ?_) <;> first | chainR | rintro _ _ ⟨_, _⟩)
    | (apply wp_cons S (readExtraLen_acc S L₀ hL st0 _ ?_) <;> first | chainR | rintro _ _ ⟨_, _⟩))))

theorem readOffset_acc (c : RunCtx) (slot : Nat) (st0 st : St σ) (hslot : slot < 290) (h : Run0 L₀ st0 st) :
    wp S (readOffset S c slot) (fun _ st' => Run0 L₀ st0 st' ∧ True) Er st := by
  have h1 : slot < positionBaseArr.size := by rw [positionBaseArr_size]; omega
  unfold readOffset
  simp only [wp_bind, wp_ite, wp_pure, wp_modify, Array.getElem?_eq_getElem h1]
  refine ⟨fun _ => ?_, fun h36 => ?_⟩
  · refine ⟨fun _ => ⟨fun _ => ?_, fun _ => ?_⟩, fun _ => ⟨fun _ => ?_, fun _ => ?_⟩⟩
     <;> wp_walk <;> exact ⟨by chainR, trivial⟩
  · have h2 : slot < extraBitsArr.size := by rw [extraBitsArr_size]; omega
    simp only [wp_bind, wp_ite, wp_pure, wp_modify, Array.getElem?_eq_getElem h2]
    refine ⟨fun _ => ⟨fun _ => ?_, fun _ => ?_⟩, fun _ => ⟨fun _ => ?_, fun _ => ?_⟩⟩ <;> wp_walk <;> exact ⟨by chainR, trivial⟩
end

section
variable (S : Src σ) (L₀ : Nat)

theorem wp_fail_decrunch {α : Type} (Q : α → St σ → Prop) (st : St σ) :
    wp S (fail .decrunch : LM σ α) Q Er st ↔ True :=
  iff_true_intro (wp_fail S _ (by decide) _ _)

theorem copyMatch_spec (c : RunCtx) (mo ml : Nat) (st : St σ) (hwin : st.window.size = c.windowSize)
    (hws : c.windowSize ≤ 33554432) (href : c.refDataSize ≤ c.windowSize) (hoff : c.offset < 2147483648) :
    wp S (copyMatch c mo ml)
      (fun _ st' => SameR L₀ st st' ∧ st'.windowPosn = st.windowPosn + ml ∧ st'.windowPosn ≤ c.windowSize) Er st := by
  have fin : ∀ st1 : St σ, Run0 L₀ st st1 → st.windowPosn + ml ≤ c.windowSize →
      SameR L₀ st { st1 with windowPosn := st1.windowPosn + ml } ∧
        st1.windowPosn + ml = st.windowPosn + ml ∧ st1.windowPosn + ml ≤ c.windowSize := by
    intro st1 h hle
    exact ⟨h.1.trans (by same_tac), by rw [h.2], by rw [h.2]; exact hle⟩
  unfold copyMatch
  simp only [wp_bind, wp_get, wp_ite, wp_pure, wp_modify, wp_throw_fault, wp_fail_decrunch, implies_true,
    true_and, and_true]
  intro h1
  refine ⟨fun hmo hcond hj => ?_, fun hmo => ?_⟩
  · have hx : toS32 ((mo : Int) - (st.windowPosn : Int)) = ((mo - st.windowPosn : Nat) : Int) := by
      rw [toS32_eq _ (by omega) (by omega)]; omega
    have hw : toS32 (c.windowSize : Int) = c.windowSize := toS32_eq _ (by omega) (by omega)
    rw [hx, hw] at hj
    simp only [hx, Int.toNat_natCast]
    refine ⟨fun hneg => absurd hneg (by omega), fun _ => ⟨fun hlt => ?_, fun hge => ?_⟩⟩
    · apply wp_cons S (winCopy_spec S L₀ _ _ _ st (by omega) (by omega))
      intro _ st1 r1
      apply wp_cons S (winCopy_spec S L₀ _ _ _ st1 (by rw [r1.1.windowSz]; omega) (by rw [r1.1.windowSz]; omega))
      intro _ st2 r2
      exact fin st2 (r1.trans r2) (by omega)
    · apply wp_cons S (winCopy_spec S L₀ _ _ _ st (by omega) (by omega))
      intro _ st1 r1
      exact fin st1 r1 (by omega)
  · apply wp_cons S (winCopy_spec S L₀ _ _ _ st (by omega) (by omega))
    intro _ st1 r1
    exact fin st1 r1 (by omega)
end

section
variable (S : Src σ) (L₀ : Nat)
variable (hL : ∀ x n got x' m, S.read x n = .ok (got, x') → S.lzxLength x' = some m → m = 0 ∨ m = L₀)
include hL

set_option hygiene false in
/-- walk down one path of a match decode: length footer, position slot, extra length -/
macro "wp_walk2" : tactic => `(tactic| (
  repeat' (first
    | intro _
    | apply And.intro
    | (apply wp_cons S (readBits_acc S L₀ hL _ st0 _ ?_) <;> first | chainR | rintro _ _ ⟨_, _⟩)
    | (apply wp_cons S (readHuffSym_acc S L₀ hL _ _ st0 _ ?_) <;> first | chainR | rintro _ _ ⟨_, _⟩)
    | (apply wp_cons S (readExtraLen_acc S L₀ hL st0 _ ?_) <;> first | chainR | rintro _ _ ⟨_, _⟩)
    | (apply wp_cons S (readOffset_acc S L₀ hL _ _ st0 _ (by omega) ?_) <;> first | chainR | rintro _ _ ⟨_, _⟩))))

theorem decodeRun_spec (c : RunCtx) (hcm : ∀ k, c.main = some k → CanonBd k 2576)
    (hws : c.windowSize ≤ 33554432) (href : c.refDataSize ≤ c.windowSize) (hoff : c.offset < 2147483648) :
    ∀ (fuel : Nat) (thisRun : Int) (st0 : St σ), st0.window.size = c.windowSize →
      st0.windowPosn ≤ c.windowSize → (0 < thisRun → st0.windowPosn + thisRun ≤ c.windowSize) →
      wp S (decodeRun S c fuel thisRun)
        (fun left st' => SameR L₀ st0 st' ∧ st'.windowPosn ≤ c.windowSize ∧ left ≤ 0 ∧
          (st'.windowPosn : Int) + left = st0.windowPosn + thisRun) Er st0 := by
  intro fuel
  induction fuel with
  | zero => intro thisRun st0 _ _ _; rw [decodeRun]; simp only [wp_throw_fault]; exact benign_hang S
  | succ fuel ih =>
    intro thisRun st0 hwin hpos hrun
    rw [decodeRun]
    simp only [wp_bind, wp_get, wp_set, wp_ite, wp_pure, wp_modify, wp_throw_fault, wp_fail_decrunch, implies_true,
      true_and, and_true]
    have e256 : lzxNUM_CHARS = 256 := rfl
    refine ⟨fun hle => ⟨SameR.rfl' _ _, hpos, hle⟩, fun hgt => ?_⟩
    have h0 : Run0 L₀ st0 st0 := Run0.rfl' _ _
    apply wp_cons S (readHuffSym_acc S L₀ hL _ _ st0 st0 h0)
    rintro me st1 ⟨r1, k, hk, hb⟩
    have hme : me < 2576 := hb _ (hcm k hk)
    have tail : ∀ (mo ml : Nat) (st2 : St σ), Run0 L₀ st0 st2 →
        wp S (copyMatch c mo ml) (fun _ st' => wp S (decodeRun S c fuel (thisRun - ml))
          (fun left st' => SameR L₀ st0 st' ∧ st'.windowPosn ≤ c.windowSize ∧ left ≤ 0 ∧
            (st'.windowPosn : Int) + left = st0.windowPosn + thisRun) Er st') Er st2 := by
      intro mo ml st2 r2
      apply wp_cons S (copyMatch_spec S L₀ c mo ml st2 (by rw [r2.1.windowSz]; exact hwin) hws href hoff)
      rintro _ st3 ⟨s3, hp3, hle3⟩
      apply wp_cons S (ih (thisRun - ml) st3 (by rw [s3.windowSz, r2.1.windowSz]; exact hwin) hle3
        (by have := r2.2; intro _; omega))
      rintro left st4 ⟨s4, hle4, hl0, heq⟩
      have := r2.2
      exact ⟨(r2.1.trans s3).trans s4, hle4, hl0, by omega⟩
    refine ⟨fun hlit => ?_, fun hge => ?_⟩
    · have hp1 : st1.windowPosn < st1.window.size := by
        rw [r1.1.windowSz, r1.2, hwin]; have := hrun (by omega); omega
      apply wp_cons S (putLiteral_spec S L₀ _ st1 hp1)
      rintro _ st2 ⟨s2, hp2⟩
      have := r1.2
      apply wp_cons S (ih (thisRun - 1) st2 (by rw [s2.windowSz, r1.1.windowSz]; exact hwin)
        (by have := hrun (by omega); omega) (by have := hrun (by omega); intro _; omega))
      rintro left st4 ⟨s4, hle4, hl0, heq⟩
      exact ⟨(r1.1.trans s2).trans s4, hle4, hl0, by omega⟩
    · wp_walk2
      all_goals exact tail _ _ _ (by chainR)
end

section
variable (S : Src σ) (L₀ : Nat)
variable (hL : ∀ x n got x' m, S.read x n = .ok (got, x') → S.lzxLength x' = some m → m = 0 ∨ m = L₀)
include hL

theorem copyRaw_spec : ∀ (fuel dest n : Nat) (st : St σ), dest + n ≤ st.window.size →
    wp S (copyRaw S fuel dest n) (fun _ st' => Run0 L₀ st st') Er st
  | 0, _, _, _, _ => by rw [copyRaw]; simp only [wp_throw_fault]; exact benign_hang S
  | fuel + 1, dest, n, st, h => by
    rw [copyRaw]
    simp only [wp_bind, wp_get, wp_ite, wp_pure]
    refine ⟨fun _ => Run0.rfl' _ _, fun hn => ⟨fun _ => ?_, fun _ => ?_⟩⟩
    · apply wp_cons S (readInput_spec S L₀ hL st)
      rintro _ st1 ⟨h1, _⟩
      apply wp_cons S (copyRaw_spec fuel dest n st1 (by rw [h1.window]; exact h))
      intro _ st2 h2
      exact h1.toRun0.trans h2
    · obtain ⟨w', hw, hsz⟩ := writeBytes_ok (List.take (min st.inbuf.length n) st.inbuf) dest st.window
        (by simp only [List.length_take]; omega)
      simp only [wp_modifyGet, hw]
      apply wp_cons S (copyRaw_spec fuel _ _ _ (by simp only [hsz]; omega))
      intro _ st2 h2
      refine Run0.trans ?_ h2
      refine ⟨?_, rfl⟩
      constructor <;> first | rfl | exact Or.inl rfl | exact hsz
end

/-! ## the block loop, cut into pieces (`blockLoop_eq` is `rfl`) -/
section
variable (S : Src σ)

def blockAfter (fuel : Nat) (bytesTodo left : Int) : LM σ Unit := do
  if left < 0 then
    let over := (-left).toNat
    if over > (← get).blockRemaining then fail .decrunch
    modify fun st => { st with blockRemaining := st.blockRemaining - over }
  blockLoop S fuel bytesTodo

def blockRest (fuel : Nat) (bytesTodo : Int) : LM σ Unit := do
  let st ← get
  let thisRun : Int := if (st.blockRemaining : Int) > bytesTodo then bytesTodo else st.blockRemaining
  let bytesTodo := bytesTodo - thisRun
  let bt := st.blockType
  let c : RunCtx := { main := st.maintreeTbl, len := st.lengthTbl, aligned := st.alignedTbl,
                      isAligned := bt = 2, isDelta := st.isDelta, lengthEmpty := st.lengthEmpty,
                      windowSize := st.windowSize, refDataSize := st.refDataSize, offset := st.offset }
  let wp := st.windowPosn
  set { st with blockRemaining := st.blockRemaining - thisRun.toNat }
  let left : Int ←
    if bt = 1 ∨ bt = 2 then decodeRun S c fuel thisRun
    else if bt = 3 then do
      modify fun st => { st with windowPosn := st.windowPosn + thisRun.toNat }
      copyRaw S fuel wp thisRun.toNat
      pure 0
    else fail .decrunch
  blockAfter S fuel bytesTodo left

theorem blockLoop_eq (fuel : Nat) (bytesTodo : Int) : blockLoop S (fuel + 1) bytesTodo =
    (if bytesTodo ≤ 0 then pure () else do
      if (← get).blockRemaining = 0 then readBlockHeader S fuel
      blockRest S fuel bytesTodo) := by
  rw [blockLoop]; rfl
end

/-- what the block loop needs before it decodes `b` more bytes -/
def BPre (st : St σ) (b : Int) : Prop :=
  Inv0 st ∧ st.offset < 2147483648 ∧ st.windowPosn ≤ st.windowSize ∧ (0 < b → st.windowPosn + b ≤ st.windowSize)

/-- … and what it guarantees afterwards -/
def BL (L₀ : Nat) (st st' : St σ) : Prop :=
  Inv0 st' ∧ Fix L₀ st st' ∧ st'.windowPosn ≤ st'.windowSize ∧ st.windowPosn ≤ st'.windowPosn

section
variable (S : Src σ) (L₀ : Nat)
variable (hL : ∀ x n got x' m, S.read x n = .ok (got, x') → S.lzxLength x' = some m → m = 0 ∨ m = L₀)
include hL

omit hL in
theorem blockAfter_spec (fuel : Nat)
    (ih : ∀ (b : Int) (st : St σ), BPre st b → wp S (blockLoop S fuel b) (fun _ st' => BL L₀ st st') Er st)
    (b left : Int) (st : St σ) (hi : Inv0 st) (ho : st.offset < 2147483648) (hw : st.windowPosn ≤ st.windowSize)
    (h1 : left < 0 → (-left).toNat ≤ st.blockRemaining → b ≤ 0)
    (h2 : ¬left < 0 → 0 < b → st.windowPosn + b ≤ st.windowSize) :
    wp S (blockAfter S fuel b left) (fun _ st' => BL L₀ st st') Er st := by
  unfold blockAfter
  simp only [wp_bind, wp_get, wp_set, wp_ite, wp_pure, wp_modify, wp_throw_fault, wp_fail_decrunch, implies_true,
    true_and, and_true]
  refine ⟨fun hl hr => ?_, fun hl => ih b st ⟨hi, ho, hw, h2 hl⟩⟩
  have hb := h1 hl (by omega)
  have hf : Fix L₀ st { st with blockRemaining := st.blockRemaining - (-left).toNat } := by same_tac
  apply wp_cons S (ih b _ ⟨hi.of_fix hf hi.tbl, ho, hw, fun h => absurd h (by omega)⟩)
  rintro _ st' ⟨i', f', w', m'⟩
  exact ⟨i', hf.trans f', w', m'⟩

theorem blockRest_spec (fuel : Nat)
    (ih : ∀ (b : Int) (st : St σ), BPre st b → wp S (blockLoop S fuel b) (fun _ st' => BL L₀ st st') Er st)
    (b : Int) (st : St σ) (hp : BPre st b) (hb : 0 < b) :
    wp S (blockRest S fuel b) (fun _ st' => BL L₀ st st') Er st := by
  obtain ⟨hi, ho, hw, hrun⟩ := hp
  have hrun := hrun hb
  unfold blockRest
  simp only [wp_bind, wp_get, wp_set, wp_ite, wp_pure, wp_modify, wp_throw_fault, wp_fail_decrunch, implies_true,
    true_and, and_true]
  have hT : 0 ≤ (if (st.blockRemaining : Int) > b then b else st.blockRemaining) ∧
      (if (st.blockRemaining : Int) > b then b else st.blockRemaining) ≤ b ∧
      ((st.blockRemaining : Int) > b → (if (st.blockRemaining : Int) > b then b else st.blockRemaining) = b) ∧
      (¬(st.blockRemaining : Int) > b →
        (if (st.blockRemaining : Int) > b then b else st.blockRemaining) = st.blockRemaining) := by
    split <;> omega
  generalize (if (st.blockRemaining : Int) > b then b else (st.blockRemaining : Int)) = T at hT ⊢
  obtain ⟨hT0, hTb, hTgt, hTle⟩ := hT
  have hfa : Fix L₀ st { st with blockRemaining := st.blockRemaining - T.toNat } := by same_tac
  have hia : Inv0 ({ st with blockRemaining := st.blockRemaining - T.toNat } : St σ) := hi.of_fix hfa hi.tbl
  refine ⟨fun _ => ?_, fun _ _ => ?_⟩
  · apply wp_cons S (decodeRun_spec S L₀ hL _ hi.tbl hi.wsLe hi.ref ho fuel T _ hi.win hw
      (fun _ => by show (st.windowPosn : Int) + T ≤ st.windowSize; omega))
    rintro left st2 ⟨s2, hw2, hl0, heq⟩
    have hi2 : Inv0 st2 := hia.of_sameR s2
    have hw2' : st2.windowPosn ≤ st.windowSize := hw2
    have e1 : st2.windowSize = st.windowSize := s2.windowSize
    have e2 : st2.blockRemaining = st.blockRemaining - T.toNat := s2.blockRemaining
    have e3 : st2.offset = st.offset := s2.offset
    simp only at heq
    apply wp_cons S (blockAfter_spec S L₀ fuel ih (b - T) left st2 hi2 (by omega) (by omega) (by omega) (by omega))
    rintro _ st3 ⟨i3, f3, w3, m3⟩
    exact ⟨i3, (hfa.trans s2.toFix).trans f3, w3, by omega⟩
  · have hfb : Fix L₀ st { ({ st with blockRemaining := st.blockRemaining - T.toNat } : St σ) with
        windowPosn := st.windowPosn + T.toNat } := by same_tac
    apply wp_cons S (copyRaw_spec S L₀ hL fuel st.windowPosn T.toNat _ (by
      show st.windowPosn + T.toNat ≤ st.window.size
      rw [hi.win]; omega))
    rintro _ st2 ⟨s2, hp2⟩
    have hi2 : Inv0 st2 := (hi.of_fix hfb hi.tbl).of_sameR s2
    have e1 : st2.windowSize = st.windowSize := s2.windowSize
    have e3 : st2.offset = st.offset := s2.offset
    simp only at hp2
    apply wp_cons S (blockAfter_spec S L₀ fuel ih (b - T) 0 st2 hi2 (by omega) (by omega) (by omega) (by omega))
    rintro _ st3 ⟨i3, f3, w3, m3⟩
    exact ⟨i3, (hfb.trans s2.toFix).trans f3, w3, by omega⟩

theorem blockLoop_spec : ∀ (fuel : Nat) (b : Int) (st : St σ), BPre st b →
    wp S (blockLoop S fuel b) (fun _ st' => BL L₀ st st') Er st := by
  intro fuel
  induction fuel with
  | zero => intro b st _; rw [blockLoop]; simp only [wp_throw_fault]; exact benign_hang S
  | succ fuel ih =>
    intro b st hp
    rw [blockLoop_eq]
    simp only [wp_bind, wp_get, wp_ite, wp_pure]
    refine ⟨fun _ => ⟨hp.1, Fix.rfl' _ _, hp.2.2.1, Nat.le_refl _⟩, fun hb => ⟨fun _ => ?_, fun _ => ?_⟩⟩
    · obtain ⟨hi, ho, hw, hrun⟩ := hp
      apply wp_cons S (readBlockHeader_spec S L₀ hL fuel st hi)
      rintro _ st1 ⟨i1, f1, w1⟩
      apply wp_cons S (blockRest_spec S L₀ hL fuel ih b st1
        ⟨i1, by rw [f1.offset]; exact ho, by rw [w1, f1.windowSize]; exact hw,
          by rw [w1, f1.windowSize]; exact hrun⟩ (by omega))
      rintro _ st2 ⟨i2, f2, w2, m2⟩
      exact ⟨i2, f1.trans f2, w2, by omega⟩
    · exact blockRest_spec S L₀ hL fuel ih b st hp (by omega)
end

