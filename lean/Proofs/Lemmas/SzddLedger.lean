import Proofs.Lemmas.SysLedger
import MsPack.Szdd.Api
/-
Ledger effect of `lzss_decompress` and of the SZDD API functions (model `MsPack/Szdd/Api.lean`),
for every world: any files, any fault plan, any call counters.
-/
namespace MsPack.Szdd.Api
open MsPack MsPack.Sys

/-- what the loop functions of `lzss_decompress` need from the world -/
structure Ctx (v : View) (win inFh outFh : Nat) : Prop where
  ok  : v.ok
  win : win ∈ v.allocs
  inH : (inFh, Mode.read) ∈ v.handles
  outH : (outFh, Mode.write) ∈ v.handles

/-- a loop function either returned from `lzss_decompress` (window freed) or goes on (nothing changed) -/
def Step {β} (v : View) (win : Nat) (r : Err ⊕ β) (w' : World) : Prop :=
  match r with
  | .inl _ => w'.view = { v with allocs := v.allocs.erase win }
  | .inr _ => w'.view = v

theorem nextByte_step (v : View) (win inFh outFh bufsize : Nat) (c : Ctx v win inFh outFh) (s : LSt) (w : World)
    (hw : w.view = v) : Step v win (nextByte win inFh bufsize s w).1 (nextByte win inFh bufsize s w).2 := by
  unfold nextByte
  cases hs : s.inbuf with
  | cons b rest => simp only [pure_apply, Step]; exact hw
  | nil =>
    simp only [bind_apply]
    have hr : (read inFh bufsize w).2.view = v := by
      rw [read_live_view w (hw ▸ c.ok) inFh bufsize (hw ▸ c.inH)]; exact hw
    generalize read inFh bufsize w = p at hr
    obtain ⟨r, w1⟩ := p
    simp only at hr ⊢
    have hfree : (free (some win) w1).2.view = { v with allocs := v.allocs.erase win } := by
      rw [free_live_view w1 win (hr ▸ c.win), hr]
    match r with
    | none => simp only [bind_apply, pure_apply, Step]; exact hfree
    | some [] => simp only [bind_apply, pure_apply, Step]; exact hfree
    | some (b :: rest) => simp only [pure_apply, Step]; exact hr

theorem emit_step (v : View) (win inFh outFh : Nat) (c : Ctx v win inFh outFh) (s : LSt) (b : UInt8) (w : World)
    (hw : w.view = v) : Step v win (emit win outFh s b w).1 (emit win outFh s b w).2 := by
  unfold emit
  simp only [bind_apply]
  have hr : (write outFh [b] w).2.view = v := by
    rw [write_live_view w (hw ▸ c.ok) outFh [b] (hw ▸ c.outH)]; exact hw
  generalize write outFh [b] w = p at hr
  obtain ⟨r, w1⟩ := p
  simp only at hr ⊢
  have hfree : (free (some win) w1).2.view = { v with allocs := v.allocs.erase win } := by
    rw [free_live_view w1 win (hr ▸ c.win), hr]
  match r with
  | some 1 => simp only [pure_apply, Step]; exact hr
  | none => simp only [bind_apply, pure_apply, Step]; exact hfree
  | some 0 => simp only [bind_apply, pure_apply, Step]; exact hfree
  | some (n + 2) => simp only [bind_apply, pure_apply, Step]; exact hfree

theorem copyMatch_step (v : View) (win inFh outFh : Nat) (c : Ctx v win inFh outFh) :
    ∀ (len mpos : Nat) (s : LSt) (w : World), w.view = v →
      Step v win (copyMatch win outFh len mpos s w).1 (copyMatch win outFh len mpos s w).2 := by
  intro len
  induction len with
  | zero => intro mpos s w hw; simp only [copyMatch, pure_apply, Step]; exact hw
  | succ len ih =>
    intro mpos s w hw
    unfold copyMatch
    simp only [bind_apply]
    have he := emit_step v win inFh outFh c s (s.window.getD mpos 0x20) w hw
    generalize emit win outFh s (s.window.getD mpos 0x20) w = p at he
    obtain ⟨r, w1⟩ := p
    match r with
    | .inl e => simp only [pure_apply]; exact he
    | .inr s1 => exact ih _ s1 w1 he

theorem tokens_step (v : View) (win inFh outFh bufsize cb : Nat) (c : Ctx v win inFh outFh) :
    ∀ (k mask : Nat) (s : LSt) (w : World), w.view = v →
      Step v win (tokens win inFh outFh bufsize cb k mask s w).1 (tokens win inFh outFh bufsize cb k mask s w).2 := by
  intro k
  induction k with
  | zero => intro mask s w hw; simp only [tokens, pure_apply, Step]; exact hw
  | succ k ih =>
    intro mask s w hw
    unfold tokens
    by_cases hlit : cb &&& mask ≠ 0
    · rw [if_pos hlit]
      simp only [bind_apply]
      have h1 := nextByte_step v win inFh outFh bufsize c s w hw
      generalize nextByte win inFh bufsize s w = p1 at h1
      obtain ⟨r1, w1⟩ := p1
      match r1 with
      | .inl e => simp only [pure_apply]; exact h1
      | .inr (b, s1) =>
        simp only [bind_apply]
        have h2 := emit_step v win inFh outFh c s1 b w1 h1
        generalize emit win outFh s1 b w1 = p2 at h2
        obtain ⟨r2, w2⟩ := p2
        match r2 with
        | .inl e => simp only [pure_apply]; exact h2
        | .inr s2 => exact ih _ s2 w2 h2
    · rw [if_neg hlit]
      simp only [bind_apply]
      have h1 := nextByte_step v win inFh outFh bufsize c s w hw
      generalize nextByte win inFh bufsize s w = p1 at h1
      obtain ⟨r1, w1⟩ := p1
      match r1 with
      | .inl e => simp only [pure_apply]; exact h1
      | .inr (b0, s1) =>
        simp only [bind_apply]
        have h2 := nextByte_step v win inFh outFh bufsize c s1 w1 h1
        generalize nextByte win inFh bufsize s1 w1 = p2 at h2
        obtain ⟨r2, w2⟩ := p2
        match r2 with
        | .inl e => simp only [pure_apply]; exact h2
        | .inr (b1, s2) =>
          simp only [bind_apply]
          have h3 := copyMatch_step v win inFh outFh c ((b1.toNat &&& 0x0F) + 3)
            (b0.toNat ||| ((b1.toNat &&& 0xF0) <<< 4)) s2 w2 h2
          generalize copyMatch win outFh ((b1.toNat &&& 0x0F) + 3) (b0.toNat ||| ((b1.toNat &&& 0xF0) <<< 4)) s2 w2 = p3 at h3
          obtain ⟨r3, w3⟩ := p3
          match r3 with
          | .inl e => simp only [pure_apply]; exact h3
          | .inr s3 => exact ih _ s3 w3 h3

/-- the main loop: if it returned, the window has been freed and nothing else changed; if it ran
    out of fuel, nothing changed at all -/
theorem mainLoop_spec (v : View) (win inFh outFh bufsize invert : Nat) (c : Ctx v win inFh outFh) :
    ∀ (fuel : Nat) (s : LSt) (w : World), w.view = v →
      match (mainLoop win inFh outFh bufsize invert fuel s w).1 with
      | some _ => (mainLoop win inFh outFh bufsize invert fuel s w).2.view = { v with allocs := v.allocs.erase win }
      | none => (mainLoop win inFh outFh bufsize invert fuel s w).2.view = v := by
  intro fuel
  induction fuel with
  | zero => intro s w hw; simp only [mainLoop, pure_apply]; exact hw
  | succ fuel ih =>
    intro s w hw
    unfold mainLoop
    simp only [bind_apply]
    have h1 := nextByte_step v win inFh outFh bufsize c s w hw
    generalize nextByte win inFh bufsize s w = p1 at h1
    obtain ⟨r1, w1⟩ := p1
    match r1 with
    | .inl e => simp only [pure_apply]; exact h1
    | .inr (cb, s1) =>
      simp only [bind_apply]
      have h2 := tokens_step v win inFh outFh bufsize (cb.toNat ^^^ invert) c 8 1 s1 w1 h1
      generalize tokens win inFh outFh bufsize (cb.toNat ^^^ invert) 8 1 s1 w1 = p2 at h2
      obtain ⟨r2, w2⟩ := p2
      match r2 with
      | .inl e => simp only [pure_apply]; exact h2
      | .inr s2 => exact ih s2 w2 h2

/-- the ledger is as in `v`, except that fresh ids may have been consumed -/
structure Frame (v : View) (w' : World) : Prop where
  allocs  : w'.view.allocs = v.allocs
  handles : w'.view.handles = v.handles
  misuse  : w'.view.misuse = v.misuse
  nextId  : v.nextId ≤ w'.view.nextId

theorem Frame.refl (w : World) : Frame w.view w := ⟨rfl, rfl, rfl, Nat.le_refl _⟩

theorem Frame.of_view_eq {v : View} {w : World} (h : w.view = v) : Frame v w := by
  subst h; exact Frame.refl w

theorem Frame.ok {v : View} {w' : World} (f : Frame v w') (hv : v.ok) : w'.view.ok := by
  constructor
  · intro a ha; rw [f.allocs] at ha; exact Nat.lt_of_lt_of_le (hv.allocs_lt a ha) f.nextId
  · intro h hh; rw [f.handles] at hh; exact Nat.lt_of_lt_of_le (hv.handles_lt h hh) f.nextId
  · rw [f.handles]; exact hv.handles_nd

/-- `lzss_decompress`: whenever it returns, it has released its window and touched nothing else -/
theorem lzss_spec (v : View) (hv : v.ok) (inFh outFh bufsize : Nat) (qb : Bool) (fuel : Nat)
    (hin : (inFh, Mode.read) ∈ v.handles) (hout : (outFh, Mode.write) ∈ v.handles)
    (w : World) (hw : w.view = v) :
    ∀ e, (lzss inFh outFh bufsize qb fuel w).1 = some e → Frame v (lzss inFh outFh bufsize qb fuel w).2 := by
  intro e he
  unfold lzss at he ⊢
  simp only [bind_apply] at he ⊢
  rcases alloc_spec w with ⟨h1, h2⟩ | ⟨h1, h2⟩
  · rw [h1] at he ⊢
    simp only [pure_apply] at he ⊢
    exact Frame.of_view_eq (h2.trans hw)
  · rw [h1] at he ⊢
    simp only at he ⊢
    rw [hw] at h2
    have hwn : w.nextId = v.nextId := by rw [← hw]; rfl
    -- the world after the allocation
    have hv1 : View.ok { v with allocs := w.nextId :: v.allocs, nextId := w.nextId + 1 } := by
      constructor
      · intro a ha
        simp only [List.mem_cons] at ha
        rcases ha with rfl | ha
        · exact Nat.lt_succ_self _
        · have := hv.allocs_lt a ha; simp only; omega
      · intro h hh; have := hv.handles_lt h hh; simp only; omega
      · exact hv.handles_nd
    have c : Ctx { v with allocs := w.nextId :: v.allocs, nextId := w.nextId + 1 } w.nextId inFh outFh :=
      ⟨hv1, by simp, hin, hout⟩
    have hm := mainLoop_spec _ w.nextId inFh outFh bufsize 0 c fuel
      { inbuf := [], window := Array.replicate 4096 0x20, pos := 4096 - (if qb then 18 else 16) } (alloc w).2 h2
    rw [he] at hm
    simp only at hm
    refine ⟨?_, ?_, ?_, ?_⟩
    · rw [hm]; simp
    · rw [hm]
    · rw [hm]
    · rw [hm]; simp only; omega

end MsPack.Szdd.Api
