import MsPack.Spec.LzxEncode
import Proofs.Lemmas.LzxFrame
import Proofs.Lemmas.DeflateRound
/-!
# LZX round trip (streams of uncompressed blocks), lemmas

Total-correctness triples `tot` for the decoder monad `LM σ` (the `wp` of `LzxBounds.lean` with every
exceptional outcome excluded), the unread input of a state as one byte stream (`remBytes`, as in
`DeflateRound.lean`; the source contract is `Zip.Feeds`), and what each piece of the decoder model
does when that stream starts with what the specification writer (`MsPack/Spec/LzxEncode.lean`)
produces.
-/
set_option linter.unusedSimpArgs false
set_option linter.unusedVariables false
set_option linter.unusedSectionVars false
namespace MsPack.Lzx
open MsPack MsPack.Generated
variable {σ : Type}

/-! ## total correctness for `LM σ` -/

def PostT {α : Type} (Q : α → St σ → Prop) : Except Halt α × St σ → Prop
  | (.ok a, st) => Q a st
  | (.error _, _) => False

/-- running `m` from `st` returns normally, with `Q` -/
def tot {α : Type} (m : LM σ α) (Q : α → St σ → Prop) (st : St σ) : Prop := PostT Q (m.run.run st)

section
variable {α β : Type}

theorem tot_bind (m : LM σ α) (f : α → LM σ β) (Q : β → St σ → Prop) (st) :
    tot (m >>= f) Q st ↔ tot m (fun a st' => tot (f a) Q st') st := by
  unfold tot
  show PostT Q (match (m.run.run st : Except Halt α × St σ) with
      | (a, s) => (ExceptT.bindCont f a s : Except Halt β × St σ)) ↔ _
  cases (m.run.run st : Except Halt α × St σ) with
  | mk r st1 =>
    cases r with
    | ok a => exact Iff.rfl
    | error e => exact Iff.rfl

theorem tot_ite (c : Prop) [Decidable c] (a b : LM σ α) (Q : α → St σ → Prop) (st) :
    tot (if c then a else b) Q st ↔ (c → tot a Q st) ∧ (¬c → tot b Q st) := by
  split <;> simp [*]

theorem tot_pure (a : α) (Q : α → St σ → Prop) (st) : tot (pure a : LM σ α) Q st ↔ Q a st := Iff.rfl
theorem tot_get (Q : St σ → St σ → Prop) (st) : tot (get : LM σ (St σ)) Q st ↔ Q st st := Iff.rfl
theorem tot_set (s : St σ) (Q : PUnit → St σ → Prop) (st) : tot (set s : LM σ PUnit) Q st ↔ Q ⟨⟩ s := Iff.rfl
theorem tot_modify (f : St σ → St σ) (Q : PUnit → St σ → Prop) (st) :
    tot (modify f : LM σ PUnit) Q st ↔ Q ⟨⟩ (f st) := Iff.rfl
theorem tot_modifyGet (f : St σ → α × St σ) (Q : α → St σ → Prop) (st) :
    tot (modifyGet f : LM σ α) Q st ↔ Q (f st).1 (f st).2 := Iff.rfl
theorem tot_throw (e : Halt) (Q : α → St σ → Prop) (st) : tot (throw e : LM σ α) Q st ↔ False := Iff.rfl

theorem tot_mono {m : LM σ α} {Q Q' : α → St σ → Prop} {st}
    (h : tot m Q st) (hq : ∀ a st', Q a st' → Q' a st') : tot m Q' st := by
  unfold tot at *
  cases hm : (m.run.run st : Except Halt α × St σ) with
  | mk r st1 =>
    rw [hm] at h
    cases r with
    | ok a => exact hq _ _ h
    | error e => exact h

theorem tot_run {m : LM σ α} {Q : α → St σ → Prop} {st} (h : tot m Q st) :
    ∃ a s, m.run.run st = (.ok a, s) ∧ Q a s := by
  unfold tot at h
  cases hm : (m.run.run st : Except Halt α × St σ) with
  | mk r st1 =>
    rw [hm] at h
    cases r with
    | ok a => exact ⟨a, st1, rfl, h⟩
    | error e => exact h.elim
end

/-! ## the fields the input side leaves alone -/

/-- everything of a state but the input side (`src`, `inbuf`, `bits`, `inputEnd`), the window, the
    match registers and the Huffman side -/
structure Core where
  offset : Nat
  length : Nat
  windowSize : Nat
  refDataSize : Nat
  windowPosn : Nat
  framePosn : Nat
  frame : Nat
  resetInterval : Nat
  blockLength : Nat
  blockRemaining : Nat
  intelFilesize : Int
  intelStarted : Bool
  blockType : Nat
  headerRead : Bool
  isDelta : Bool
  error : Err
  inbufSize : Nat
  oInE8 : Bool
  oPtr : Nat
  oEnd : Nat

def core (st : St σ) : Core :=
  { offset := st.offset, length := st.length, windowSize := st.windowSize, refDataSize := st.refDataSize,
    windowPosn := st.windowPosn, framePosn := st.framePosn, frame := st.frame,
    resetInterval := st.resetInterval, blockLength := st.blockLength, blockRemaining := st.blockRemaining,
    intelFilesize := st.intelFilesize, intelStarted := st.intelStarted, blockType := st.blockType,
    headerRead := st.headerRead, isDelta := st.isDelta, error := st.error, inbufSize := st.inbufSize,
    oInE8 := st.oInE8, oPtr := st.oPtr, oEnd := st.oEnd }

/-- `s` differs from `st` on the input side only (and perhaps the match registers) -/
def Kp (st s : St σ) : Prop := core s = core st ∧ s.window = st.window

theorem Kp.refl (st : St σ) : Kp st st := ⟨rfl, rfl⟩
theorem Kp.trans {a b c : St σ} (h1 : Kp a b) (h2 : Kp b c) : Kp a c := ⟨h2.1.trans h1.1, h2.2.trans h1.2⟩

theorem Kp.offset {st s : St σ} (h : Kp st s) : s.offset = st.offset := congrArg Core.offset h.1
theorem Kp.length {st s : St σ} (h : Kp st s) : s.length = st.length := congrArg Core.length h.1
theorem Kp.windowSize {st s : St σ} (h : Kp st s) : s.windowSize = st.windowSize := congrArg Core.windowSize h.1
theorem Kp.refDataSize {st s : St σ} (h : Kp st s) : s.refDataSize = st.refDataSize := congrArg Core.refDataSize h.1
theorem Kp.windowPosn {st s : St σ} (h : Kp st s) : s.windowPosn = st.windowPosn := congrArg Core.windowPosn h.1
theorem Kp.framePosn {st s : St σ} (h : Kp st s) : s.framePosn = st.framePosn := congrArg Core.framePosn h.1
theorem Kp.frame {st s : St σ} (h : Kp st s) : s.frame = st.frame := congrArg Core.frame h.1
theorem Kp.resetInterval {st s : St σ} (h : Kp st s) : s.resetInterval = st.resetInterval := congrArg Core.resetInterval h.1
theorem Kp.blockLength {st s : St σ} (h : Kp st s) : s.blockLength = st.blockLength := congrArg Core.blockLength h.1
theorem Kp.blockRemaining {st s : St σ} (h : Kp st s) : s.blockRemaining = st.blockRemaining := congrArg Core.blockRemaining h.1
theorem Kp.intelFilesize {st s : St σ} (h : Kp st s) : s.intelFilesize = st.intelFilesize := congrArg Core.intelFilesize h.1
theorem Kp.intelStarted {st s : St σ} (h : Kp st s) : s.intelStarted = st.intelStarted := congrArg Core.intelStarted h.1
theorem Kp.blockType {st s : St σ} (h : Kp st s) : s.blockType = st.blockType := congrArg Core.blockType h.1
theorem Kp.headerRead {st s : St σ} (h : Kp st s) : s.headerRead = st.headerRead := congrArg Core.headerRead h.1
theorem Kp.isDelta {st s : St σ} (h : Kp st s) : s.isDelta = st.isDelta := congrArg Core.isDelta h.1
theorem Kp.error {st s : St σ} (h : Kp st s) : s.error = st.error := congrArg Core.error h.1
theorem Kp.inbufSize {st s : St σ} (h : Kp st s) : s.inbufSize = st.inbufSize := congrArg Core.inbufSize h.1
theorem Kp.oInE8 {st s : St σ} (h : Kp st s) : s.oInE8 = st.oInE8 := congrArg Core.oInE8 h.1
theorem Kp.oPtr {st s : St σ} (h : Kp st s) : s.oPtr = st.oPtr := congrArg Core.oPtr h.1
theorem Kp.oEnd {st s : St σ} (h : Kp st s) : s.oEnd = st.oEnd := congrArg Core.oEnd h.1

/-! ## the unread input as one byte stream -/
section
variable (S : Src σ) (content : σ → Bytes)

/-- the bytes the decoder will still see (two zero bytes are invented at the first end of input) -/
def remBytes (st : St σ) : Bytes := st.inbuf ++ content st.src ++ (if st.inputEnd then [] else [0, 0])

variable {S content}

theorem remBytes_congr (a b : St σ) (h1 : a.inbuf = b.inbuf) (h2 : a.src = b.src) (h3 : a.inputEnd = b.inputEnd) :
    remBytes content a = remBytes content b := by
  unfold remBytes; rw [h1, h2, h3]

theorem readInput_tot (hF : Zip.Feeds S content) (hN : ∀ s, S.lzxLength s = none) (st : St σ)
    (hb : 1 ≤ st.inbufSize) (he : st.inbuf = []) (hne : remBytes content st ≠ []) :
    tot (readInput S) (fun _ s => Kp st s ∧ s.bits = st.bits ∧ s.inbuf ≠ [] ∧
      remBytes content s = remBytes content st) st := by
  obtain ⟨c, s', hr, hc, hz⟩ := hF.read st.src st.inbufSize hb
  unfold readInput
  simp only [tot_bind, tot_get]
  rw [hr]
  simp only [hN]
  cases c with
  | nil =>
    have hcs : content st.src = [] := hz rfl
    have hcs' : content s' = [] := by simpa [hcs] using hc
    cases hie : st.inputEnd with
    | true => simp [remBytes, he, hcs, hie] at hne
    | false =>
      simp only [Bool.false_eq_true, ↓reduceIte, tot_set]
      refine ⟨⟨rfl, rfl⟩, trivial, by simp, ?_⟩
      simp [remBytes, he, hcs, hcs', hie]
  | cons x xs =>
    simp only [tot_set]
    refine ⟨⟨rfl, rfl⟩, trivial, by simp, ?_⟩
    simp only [remBytes, he, List.nil_append]
    rw [← hc]

theorem nextByte_tot (hF : Zip.Feeds S content) (hN : ∀ s, S.lzxLength s = none) (st : St σ)
    (hb : 1 ≤ st.inbufSize) (b : UInt8) (rest : Bytes) (h : remBytes content st = b :: rest) :
    tot (nextByte S) (fun a s => a = b ∧ Kp st s ∧ s.bits = st.bits ∧ remBytes content s = rest) st := by
  unfold nextByte
  simp only [tot_bind, tot_get, tot_ite, tot_pure]
  refine ⟨fun he => ?_, fun hne => ?_⟩
  · have he' : st.inbuf = [] := by simpa using he
    refine tot_mono (readInput_tot hF hN st hb he' (by rw [h]; simp)) ?_
    intro _ s ⟨hk, hbits, hne, hrem⟩
    have hrem' := hrem.trans h
    split
    · rename_i x xs hi
      simp only [tot_bind, tot_set, tot_pure]
      simp only [remBytes, hi, List.cons_append, List.cons.injEq] at hrem'
      exact ⟨hrem'.1, hk.trans ⟨rfl, rfl⟩, hbits, hrem'.2⟩
    · contradiction
  · split
    · rename_i x xs hi
      simp only [tot_bind, tot_set, tot_pure]
      simp only [remBytes, hi, List.cons_append, List.cons.injEq] at h
      exact ⟨h.1, ⟨rfl, rfl⟩, trivial, h.2⟩
    · rename_i hi; rw [hi] at hne; simp at hne

/-! ## bits: the stream as 16-bit words -/

def wordsBits : Bytes → List Bool
  | b0 :: b1 :: rest => wordBits b0 b1 ++ wordsBits rest
  | _ => []

theorem wordBits_length (b0 b1 : UInt8) : (wordBits b0 b1).length = 16 := by simp [wordBits]

theorem wordsBits_length : ∀ (W : Bytes), W.length % 2 = 0 → (wordsBits W).length = 8 * W.length
  | [], _ => rfl
  | [_], h => by simp at h
  | b0 :: b1 :: rest, h => by
    rw [wordsBits, List.length_append, wordBits_length, wordsBits_length rest (by simp at h; omega)]
    simp only [List.length_cons]; omega

/-- the bit buffer and the words `W` that follow it make up the bits `H`; after `W` comes `rest` -/
def BitsAt (content : σ → Bytes) (st : St σ) (H : List Bool) (rest : Bytes) : Prop :=
  ∃ W, W.length % 2 = 0 ∧ remBytes content st = W ++ rest ∧ st.bits ++ wordsBits W = H

theorem ensureBits_tot (hF : Zip.Feeds S content) (hN : ∀ s, S.lzxLength s = none) (n : Nat) (H : List Bool)
    (rest : Bytes) : ∀ (fuel : Nat) (st : St σ), 1 ≤ st.inbufSize → BitsAt content st H rest → n ≤ H.length →
    n ≤ st.bits.length + 16 * fuel →
    tot (ensureBits S n fuel) (fun _ s => Kp st s ∧ BitsAt content s H rest ∧ n ≤ s.bits.length ∧
      s.bits.length ≤ max st.bits.length (n + 15)) st := by
  intro fuel
  induction fuel with
  | zero =>
    intro st hb hH hn hf
    rw [ensureBits.eq_1]
    simp only [tot_bind, tot_get, tot_ite, tot_pure, tot_throw]
    exact ⟨fun h => by omega, fun _ => ⟨Kp.refl _, hH, by omega, Nat.le_max_left ..⟩⟩
  | succ fuel ih =>
    intro st hb hH hn hf
    rw [ensureBits.eq_2]
    simp only [tot_bind, tot_get, tot_ite, tot_pure]
    refine ⟨fun hlt => ?_, fun hge => ⟨Kp.refl _, hH, by omega, Nat.le_max_left ..⟩⟩
    obtain ⟨W, hW, hrem, hbits⟩ := hH
    have hlen := congrArg List.length hbits
    rw [List.length_append, wordsBits_length W hW] at hlen
    match W, hW, hrem, hbits, hlen with
    | [], _, _, _, hlen => simp at hlen; omega
    | [_], hW, _, _, _ => simp at hW
    | b0 :: b1 :: W', hW, hrem, hbits, _ =>
      refine tot_mono (nextByte_tot hF hN st hb b0 (b1 :: (W' ++ rest)) (by simpa using hrem)) ?_
      intro a s1 ⟨ha, hk1, hb1, hr1⟩
      subst ha
      refine tot_mono (nextByte_tot hF hN s1 (by rw [hk1.inbufSize]; exact hb) b1 (W' ++ rest) hr1) ?_
      intro a' s2 ⟨ha', hk2, hb2, hr2⟩
      subst ha'
      simp only [tot_modify]
      have hl2 : ({ s2 with bits := s2.bits ++ wordBits a a' } : St σ).bits.length = st.bits.length + 16 := by
        show (s2.bits ++ wordBits a a').length = _
        rw [List.length_append, wordBits_length, hb2, hb1]
      have hk : Kp st { s2 with bits := s2.bits ++ wordBits a a' } := (hk1.trans hk2).trans ⟨rfl, rfl⟩
      refine tot_mono (ih { s2 with bits := s2.bits ++ wordBits a a' }
        (by show 1 ≤ s2.inbufSize; rw [(hk1.trans hk2).inbufSize]; exact hb)
        ⟨W', by simp at hW; omega, hr2, ?_⟩ hn (by rw [hl2]; omega)) ?_
      · show (s2.bits ++ wordBits a a') ++ wordsBits W' = H
        rw [hb2, hb1, ← hbits, wordsBits, List.append_assoc]
      · intro _ s3 ⟨hk3, hH3, hn3, hm3⟩
        refine ⟨hk.trans hk3, hH3, hn3, ?_⟩
        rw [hl2] at hm3
        omega

/-- `READ_BITS(v, n)` on a stream that starts with the `n` bits `bs` -/
theorem readBits_tot (hF : Zip.Feeds S content) (hN : ∀ s, S.lzxLength s = none) (n : Nat) (hn : n ≤ 16)
    (st : St σ) (hb : 1 ≤ st.inbufSize) (bs H : List Bool) (rest : Bytes)
    (hH : BitsAt content st (bs ++ H) rest) (hl : bs.length = n) :
    tot (readBits S n) (fun v s => v = bitsVal bs ∧ Kp st s ∧ BitsAt content s H rest ∧
      s.bits.length + n ≤ max st.bits.length (n + 15)) st := by
  unfold readBits peekBits removeBits
  simp only [tot_bind, tot_get, tot_pure, tot_modify]
  refine tot_mono (ensureBits_tot hF hN n (bs ++ H) rest 3 st hb hH (by rw [List.length_append]; omega) (by omega)) ?_
  intro _ s ⟨hk, ⟨W, hW, hrem, hbits⟩, hns, hmax⟩
  obtain ⟨h1, h2⟩ := Zip.prefix_split hbits hl hns
  refine ⟨by rw [h1], hk.trans ⟨rfl, rfl⟩, ⟨W, hW, hrem, h2⟩, ?_⟩
  show (s.bits.drop n).length + n ≤ _
  rw [List.length_drop]; omega

/-! ## values of bit fields, packing -/

theorem encBitsVal_eq (bs : List Bool) : LzxEnc.bitsVal bs = bitsVal bs := rfl

theorem bitsVal_foldl (bs : List Bool) : ∀ acc : Nat,
    bs.foldl (fun acc b => acc * 2 + (if b then 1 else 0)) acc = acc * 2 ^ bs.length + bitsVal bs := by
  induction bs with
  | nil => intro acc; simp [bitsVal]
  | cons b rest ih =>
    intro acc
    unfold bitsVal
    rw [List.foldl_cons, List.foldl_cons, ih, ih (0 * 2 + _), List.length_cons, Nat.pow_succ, Nat.add_mul,
      Nat.mul_assoc, Nat.mul_comm 2, Nat.zero_mul, Nat.zero_add]
    omega

theorem bitsVal_append (a b : List Bool) : bitsVal (a ++ b) = bitsVal a * 2 ^ b.length + bitsVal b := by
  unfold bitsVal
  rw [List.foldl_append, bitsVal_foldl b]
  rfl

theorem bitsVal_concat (a : List Bool) (b : Bool) : bitsVal (a ++ [b]) = bitsVal a * 2 + (if b then 1 else 0) := by
  rw [bitsVal_append]; simp [bitsVal]

theorem msbBits_succ (n v : Nat) : LzxEnc.msbBits (n + 1) v = LzxEnc.msbBits n (v / 2) ++ [v.testBit 0] := by
  unfold LzxEnc.msbBits
  rw [List.range_succ, List.map_append]
  congr 1
  · apply List.map_congr_left
    intro i hi
    rw [List.mem_range] at hi
    rw [show n + 1 - 1 - i = (n - 1 - i) + 1 by omega, Nat.testBit_succ]
  · simp

theorem msbBits_length (n v : Nat) : (LzxEnc.msbBits n v).length = n := by simp [LzxEnc.msbBits]

theorem bitsVal_msbBits : ∀ (n v : Nat), bitsVal (LzxEnc.msbBits n v) = v % 2 ^ n
  | 0, v => by simp [LzxEnc.msbBits, bitsVal, Nat.mod_one]
  | n + 1, v => by
    rw [msbBits_succ, bitsVal_concat, bitsVal_msbBits n, Nat.pow_succ, Nat.mul_comm (2 ^ n) 2, Nat.mod_mul,
      Nat.testBit_zero]
    by_cases h : v % 2 = 1 <;> simp [h] <;> omega

theorem msbBits_bitsVal : ∀ (n : Nat) (bs : List Bool), bs.length = n → LzxEnc.msbBits n (bitsVal bs) = bs
  | 0, bs, h => by
    have : bs = [] := List.eq_nil_of_length_eq_zero h
    subst this; rfl
  | n + 1, bs, h => by
    have hne : bs ≠ [] := by intro e; rw [e] at h; simp at h
    rw [← List.dropLast_concat_getLast hne] at h ⊢
    generalize bs.dropLast = init at h ⊢
    generalize bs.getLast hne = b at h ⊢
    have hl : init.length = n := by simpa using h
    rw [msbBits_succ, bitsVal_concat, Nat.testBit_zero]
    have h1 : (bitsVal init * 2 + (if b then 1 else 0)) / 2 = bitsVal init := by cases b <;> simp <;> omega
    have h2 : decide ((bitsVal init * 2 + (if b then 1 else 0)) % 2 = 1) = b := by cases b <;> simp <;> omega
    rw [h1, h2, msbBits_bitsVal n init hl]

theorem wordBits_eq (b0 b1 : UInt8) : wordBits b0 b1 = LzxEnc.msbBits 16 (b1.toNat * 256 + b0.toNat) := rfl

theorem wordBits_pack (c : List Bool) (hc : c.length = 16) :
    wordBits (UInt8.ofNat (bitsVal c % 256)) (UInt8.ofNat (bitsVal c / 256)) = c := by
  have hlt : bitsVal c < 65536 := by have := bitsVal_lt c; rw [hc] at this; exact this
  rw [wordBits_eq, UInt8.toNat_ofNat', UInt8.toNat_ofNat']
  have : bitsVal c / 256 % 2 ^ 8 * 256 + bitsVal c % 256 % 2 ^ 8 = bitsVal c := by omega
  rw [this]
  exact msbBits_bitsVal 16 c hc

theorem wordsBits_packWords : ∀ (k : Nat) (H : List Bool), H.length % 16 = 0 → H.length ≤ 16 * k →
    wordsBits (LzxEnc.packWords k H) = H ∧ (LzxEnc.packWords k H).length % 2 = 0
  | 0, H, _, h => by
    have : H = [] := List.eq_nil_of_length_eq_zero (by omega)
    subst this; exact ⟨rfl, rfl⟩
  | k + 1, H, hm, h => by
    rw [LzxEnc.packWords]
    cases hH : H with
    | nil => exact ⟨rfl, rfl⟩
    | cons x xs =>
      rw [← hH]
      have hne : H.isEmpty = false := by rw [hH]; rfl
      have hpos : 0 < H.length := by rw [hH]; simp
      have ht : (H.take 16).length = 16 := by rw [List.length_take]; omega
      rw [hne]
      simp only [Bool.false_eq_true, ↓reduceIte, ht, Nat.sub_self, List.replicate_zero, List.append_nil,
        encBitsVal_eq]
      obtain ⟨ih1, ih2⟩ := wordsBits_packWords k (H.drop 16) (by rw [List.length_drop]; omega)
        (by rw [List.length_drop]; omega)
      refine ⟨?_, by simp only [List.length_cons]; omega⟩
      rw [wordsBits, wordBits_pack _ ht, ih1, List.take_append_drop]

/-! ## raw bytes -/

theorem readRaw_tot (hF : Zip.Feeds S content) (hN : ∀ s, S.lzxLength s = none) : ∀ (k : Nat) (acc : Bytes)
    (st : St σ) (bs rest : Bytes), 1 ≤ st.inbufSize → remBytes content st = bs ++ rest → bs.length = k →
    tot (readRaw S k acc) (fun r s => r = acc ++ bs ∧ Kp st s ∧ s.bits = st.bits ∧ remBytes content s = rest) st := by
  intro k
  induction k with
  | zero =>
    intro acc st bs rest hb hrem hl
    have : bs = [] := List.eq_nil_of_length_eq_zero hl
    subst this
    rw [readRaw.eq_1, tot_pure]
    exact ⟨by simp, Kp.refl _, rfl, by simpa using hrem⟩
  | succ k ih =>
    intro acc st bs rest hb hrem hl
    cases bs with
    | nil => simp at hl
    | cons b bs =>
      rw [readRaw.eq_2, tot_bind]
      refine tot_mono (nextByte_tot hF hN st hb b (bs ++ rest) (by simpa using hrem)) ?_
      intro a s ⟨ha, hk, hbits, hr⟩
      subst ha
      refine tot_mono (ih (acc ++ [a]) s bs rest (by rw [hk.inbufSize]; exact hb) hr (by simpa using hl)) ?_
      intro r s' ⟨h1, h2, h3, h4⟩
      exact ⟨by rw [h1]; simp, hk.trans h2, h3.trans hbits, h4⟩

theorem writeBytes_list : ∀ (bs : Bytes) (dst : Nat) (w : Array UInt8), dst + bs.length ≤ w.size →
    ∃ w', writeBytes bs dst w = .ok w' ∧ w'.size = w.size ∧
      w'.toList = w.toList.take dst ++ bs ++ w.toList.drop (dst + bs.length)
  | [], dst, w, _ => ⟨w, rfl, rfl, by simp⟩
  | b :: rest, dst, w, hd => by
    have h2 : dst < w.size := by simp only [List.length_cons] at hd; omega
    rw [writeBytes, dif_pos h2]
    obtain ⟨w', h, hsz, hl⟩ := writeBytes_list rest (dst + 1) (w.set dst b)
      (by simp only [Array.size_set, List.length_cons] at hd ⊢; omega)
    refine ⟨w', h, by rw [hsz, Array.size_set], ?_⟩
    rw [hl, Array.toList_set, Zip.take_set_succ _ _ _ (by simpa using h2), List.drop_set_of_lt (by omega)]
    simp only [List.length_cons, List.append_assoc, List.cons_append, List.nil_append]
    rw [show dst + 1 + rest.length = dst + (rest.length + 1) by omega]

theorem splice_splice {α : Type} (L : List α) (dest n t : Nat) (data : List α) (h1 : dest + t ≤ L.length)
    (hn : n ≤ t) (hd : data.length = t) :
    List.take (dest + n) (List.take dest L ++ List.take n data ++ List.drop (dest + n) L) ++ List.drop n data ++
      List.drop (dest + t) (List.take dest L ++ List.take n data ++ List.drop (dest + n) L) =
    List.take dest L ++ data ++ List.drop (dest + t) L := by
  have hAB : (List.take dest L ++ List.take n data).length = dest + n := by
    rw [List.length_append, List.length_take, List.length_take]; omega
  generalize hX : List.take dest L ++ List.take n data = X at hAB
  have e1 : List.take (dest + n) (X ++ List.drop (dest + n) L) = X := List.take_left' hAB
  have e2 : List.drop (dest + t) (X ++ List.drop (dest + n) L) = List.drop (dest + t) L := by
    rw [List.drop_append, List.drop_eq_nil_of_le (by omega), hAB, List.drop_drop, List.nil_append]
    congr 1; omega
  rw [e1, e2, ← hX, List.append_assoc (List.take dest L), List.take_append_drop]

theorem copyRaw_tot (hF : Zip.Feeds S content) (hN : ∀ s, S.lzxLength s = none) : ∀ (fuel thisRun dest : Nat)
    (st : St σ) (data rest : Bytes), 1 ≤ st.inbufSize → remBytes content st = data ++ rest →
    data.length = thisRun → dest + thisRun ≤ st.window.size →
    2 * thisRun + (if st.inbuf = [] then 1 else 0) + 1 ≤ fuel →
    tot (copyRaw S fuel dest thisRun) (fun _ s => core s = core st ∧ s.bits = st.bits ∧
      remBytes content s = rest ∧ s.window.size = st.window.size ∧
      s.window.toList = st.window.toList.take dest ++ data ++ st.window.toList.drop (dest + thisRun)) st := by
  intro fuel
  induction fuel with
  | zero => intro thisRun dest st data rest _ _ _ _ hf; omega
  | succ fuel ih =>
    intro thisRun dest st data rest hb hrem hl hfit hf
    rw [copyRaw.eq_2]
    simp only [tot_ite, tot_pure, tot_bind, tot_get]
    refine ⟨fun h0 => ?_, fun hpos => ⟨fun he => ?_, fun hne => ?_⟩⟩
    · have : data = [] := List.eq_nil_of_length_eq_zero (hl.trans h0)
      subst this
      subst h0
      exact ⟨by first | rfl | trivial, by first | rfl | trivial, by simpa using hrem, by first | rfl | trivial, by simp⟩
    · have he' : st.inbuf = [] := by simpa using he
      have hdne : data ≠ [] := by intro e; rw [e] at hl; exact hpos hl.symm
      refine tot_mono (readInput_tot hF hN st hb he' (by rw [hrem]; simp [hdne])) ?_
      intro _ s ⟨hk, hbits, hne, hrem'⟩
      refine tot_mono (ih thisRun dest s data rest (by rw [hk.inbufSize]; exact hb) (hrem'.trans hrem) hl
        (by rw [hk.2]; exact hfit) (by rw [if_neg hne]; rw [if_pos he'] at hf; omega)) ?_
      intro _ s' ⟨a, b, c, d, e⟩
      exact ⟨a.trans hk.1, b.trans hbits, c, d.trans (by rw [hk.2]), by rw [e, hk.2]⟩
    · have hne' : st.inbuf ≠ [] := by simpa using hne
      have hil : 0 < st.inbuf.length := List.length_pos_iff.mpr hne'
      simp only [tot_modifyGet]
      generalize hn : min st.inbuf.length thisRun = n
      have hn1 : 1 ≤ n := by omega
      have hn2 : n ≤ st.inbuf.length := by omega
      have hn3 : n ≤ data.length := by omega
      have hchunk : st.inbuf.take n = data.take n := by
        have := congrArg (List.take n) hrem
        rwa [remBytes, List.append_assoc, List.take_append_of_le_length hn2, List.take_append_of_le_length hn3] at this
      have hdrop : st.inbuf.drop n ++ content st.src ++ (if st.inputEnd then [] else [0, 0]) = data.drop n ++ rest := by
        have := congrArg (List.drop n) hrem
        rwa [remBytes, List.append_assoc, List.drop_append_of_le_length hn2, List.drop_append_of_le_length hn3,
          ← List.append_assoc] at this
      obtain ⟨w', hw, hsz, hwl⟩ := writeBytes_list (data.take n) dest st.window
        (by rw [List.length_take]; omega)
      rw [hchunk, hw]
      dsimp only
      refine tot_mono (ih (thisRun - n) (dest + n) _ (data.drop n) rest hb hdrop (by rw [List.length_drop, hl])
        (by show dest + n + (thisRun - n) ≤ w'.size; rw [hsz]; omega) (by split <;> omega)) ?_
      intro _ s' ⟨a, b, c, d, e⟩
      refine ⟨a, b, c, d.trans hsz, ?_⟩
      rw [e]
      show w'.toList.take (dest + n) ++ _ ++ w'.toList.drop (dest + n + (thisRun - n)) = _
      rw [hwl, List.length_take, Nat.min_eq_left hn3]
      have e1 : dest + n + (thisRun - n) = dest + thisRun := by omega
      rw [e1]
      exact splice_splice _ dest n thisRun data (by rw [Array.length_toList]; exact hfit) (by omega) hl

/-! ## the header of an uncompressed block -/

/-- the bits of an uncompressed block's header: type 3, the 24-bit length -/
def hdrBits (len : Nat) : List Bool := [false, true, true] ++ LzxEnc.msbBits 24 len

/-- the core of a state after the header of an uncompressed block of `len` bytes -/
def coreHdr (c : Core) (len : Nat) : Core :=
  { c with blockType := 3, blockLength := len, blockRemaining := len, intelStarted := true }

theorem hdrBody_tot (hF : Zip.Feeds S content) (hN : ∀ s, S.lzxLength s = none) (fuel len : Nat)
    (hlen : len < 16777216) (P : List Bool) (hP1 : 1 ≤ P.length) (hP2 : P.length ≤ 15) (r0 r1 r2 : Nat)
    (T : Bytes) (st : St σ) (hb : 1 ≤ st.inbufSize)
    (hH : BitsAt content st (hdrBits len ++ P) (putLE32 r0 ++ putLE32 r1 ++ putLE32 r2 ++ T)) :
    tot (hdrBody S fuel) (fun _ s => core s = coreHdr (core st) len ∧ s.window = st.window ∧ s.bits = [] ∧
      remBytes content s = T) st := by
  have hsplit : LzxEnc.msbBits 24 len = (LzxEnc.msbBits 24 len).take 16 ++ (LzxEnc.msbBits 24 len).drop 16 :=
    (List.take_append_drop ..).symm
  have hval : bitsVal ((LzxEnc.msbBits 24 len).take 16) * 256 + bitsVal ((LzxEnc.msbBits 24 len).drop 16) = len := by
    have h := bitsVal_append ((LzxEnc.msbBits 24 len).take 16) ((LzxEnc.msbBits 24 len).drop 16)
    rw [List.take_append_drop, bitsVal_msbBits, List.length_drop, msbBits_length] at h
    have : len % 2 ^ 24 = len := Nat.mod_eq_of_lt (by omega)
    rw [this] at h
    simpa using h.symm
  have hl16 : ((LzxEnc.msbBits 24 len).take 16).length = 16 := by rw [List.length_take, msbBits_length]; rfl
  have hl8 : ((LzxEnc.msbBits 24 len).drop 16).length = 8 := by rw [List.length_drop, msbBits_length]
  generalize (LzxEnc.msbBits 24 len).take 16 = b16 at hsplit hval hl16
  generalize (LzxEnc.msbBits 24 len).drop 16 = b8 at hsplit hval hl8
  unfold hdrBits at hH
  rw [hsplit, List.append_assoc, List.append_assoc] at hH
  unfold hdrBody
  rw [tot_bind]
  refine tot_mono (readBits_tot hF hN 3 (by omega) st hb [false, true, true] _ _ hH rfl) ?_
  intro bt s1 ⟨hbt, hk1, hH1, _⟩
  have hbt3 : bt = 3 := hbt
  subst hbt3
  simp only [tot_bind, tot_modify]
  refine tot_mono (readBits_tot hF hN 16 (by omega) { s1 with blockType := 3 } (by show 1 ≤ s1.inbufSize; rw [hk1.inbufSize]; exact hb)
    b16 _ _ hH1 hl16) ?_
  intro i s2 ⟨hi, hk2, hH2, _⟩
  refine tot_mono (readBits_tot hF hN 8 (by omega) s2 (by rw [hk2.inbufSize]; show 1 ≤ s1.inbufSize; rw [hk1.inbufSize]; exact hb)
    b8 _ _ hH2 hl8) ?_
  intro j s3 ⟨hj, hk3, hH3, _⟩
  subst hi hj
  rw [hval]
  simp only [show ¬ ((3 : Nat) = 1 ∨ (3 : Nat) = 2) by omega, if_false, if_true, tot_bind, tot_modify, tot_get]
  obtain ⟨W, hW, hrem3, hbits3⟩ := hH3
  have hWnil : W = [] := by
    have h := congrArg List.length hbits3
    rw [List.length_append, wordsBits_length W hW] at h
    match W, hW, h with
    | [], _, _ => rfl
    | [_], hW, _ => simp at hW
    | _ :: _ :: _, _, h => simp only [List.length_cons] at h; omega
  subst hWnil
  have hb3 : s3.bits = P := by simpa [wordsBits] using hbits3
  have hne : s3.bits.isEmpty = false := by
    rw [hb3]; cases P with
    | nil => simp at hP1
    | cons _ _ => rfl
  simp only [hne, Bool.false_eq_true, if_false, tot_pure, tot_bind, tot_modify]
  unfold hdrRaw
  simp only [tot_bind, tot_modify]
  have hk : core s3 = core { s1 with blockType := 3 } := hk3.1.trans hk2.1
  refine tot_mono (readRaw_tot hF hN 12 [] _ (putLE32 r0 ++ putLE32 r1 ++ putLE32 r2) T
    (by show 1 ≤ s3.inbufSize; rw [hk3.inbufSize, hk2.inbufSize]; show 1 ≤ s1.inbufSize; rw [hk1.inbufSize]; exact hb)
    (by show remBytes content s3 = _; simpa using hrem3) rfl) ?_
  intro buf s4 ⟨hbuf, hk4, hb4, hrem4⟩
  subst hbuf
  simp only [putLE32, List.nil_append, List.cons_append, tot_modify]
  generalize le32 _ _ _ _ = x0
  generalize le32 _ _ _ _ = x1
  generalize le32 _ _ _ _ = x2
  refine ⟨?_, ?_, Eq.trans (by rfl) hb4, ?_⟩
  rotate_left 2
  · unfold remBytes at hrem4 ⊢
    dsimp only
    exact hrem4
  · have e4 := hk4.1
    have e1 := hk1.1
    simp only [core, coreHdr, Core.mk.injEq] at e4 hk e1 ⊢
    obtain ⟨a1, a2, a3, a4, a5, a6, a7, a8, a9, a10, a11, a12, a13, a14, a15, a16, a17, a18, a19, a20⟩ := e4
    obtain ⟨b1, b2, b3, b4, b5, b6, b7, b8, b9, b10, b11, b12, b13, b14, b15, b16, b17, b18, b19, b20⟩ := hk
    obtain ⟨c1, c2, c3, c4, c5, c6, c7, c8, c9, c10, c11, c12, c13, c14, c15, c16, c17, c18, c19, c20⟩ := e1
    refine ⟨(a1.trans b1).trans c1, (a2.trans b2).trans c2, (a3.trans b3).trans c3, (a4.trans b4).trans c4,
      (a5.trans b5).trans c5, (a6.trans b6).trans c6, (a7.trans b7).trans c7, (a8.trans b8).trans c8, a9, a10,
      (a11.trans b11).trans c11, a12, a13.trans b13, (a14.trans b14).trans c14, (a15.trans b15).trans c15,
      (a16.trans b16).trans c16, (a17.trans b17).trans c17, (a18.trans b18).trans c18, (a19.trans b19).trans c19,
      (a20.trans b20).trans c20⟩
  · show s4.window = _
    rw [hk4.2]
    show s3.window = _
    rw [hk3.2, hk2.2]
    exact hk1.2

/-- the three register words of a block header -/
def regs (r0 r1 r2 : Nat) : Bytes := putLE32 r0 ++ putLE32 r1 ++ putLE32 r2

/-- what a block header needs: (A) no realignment byte is due and the header bits are next, or
    (B) the block before was an odd-sized uncompressed one, the bit buffer is empty, and the header
    words follow the pad byte.  `bt bl` = `block_type`, `block_length`; `X` = the unread bytes. -/
def HdrPreX (bt bl : Nat) (bits : List Bool) (X : Bytes) (len : Nat) (T : Bytes) : Prop :=
  ∃ (P : List Bool) (r0 r1 r2 : Nat), 1 ≤ P.length ∧ P.length ≤ 15 ∧
    ((¬ (bt = 3 ∧ bl % 2 = 1) ∧ ∃ W, W.length % 2 = 0 ∧ X = W ++ (regs r0 r1 r2 ++ T) ∧
        bits ++ wordsBits W = hdrBits len ++ P) ∨
     ((bt = 3 ∧ bl % 2 = 1) ∧ bits = [] ∧ ∃ x W, W.length % 2 = 0 ∧ X = x :: (W ++ (regs r0 r1 r2 ++ T)) ∧
        wordsBits W = hdrBits len ++ P))

theorem readBlockHeader_tot (hF : Zip.Feeds S content) (hN : ∀ s, S.lzxLength s = none) (fuel len : Nat)
    (hlen : len < 16777216) (T : Bytes) (st : St σ) (hb : 1 ≤ st.inbufSize)
    (hH : HdrPreX st.blockType st.blockLength st.bits (remBytes content st) len T) :
    tot (readBlockHeader S fuel) (fun _ s => core s = coreHdr (core st) len ∧ s.window = st.window ∧ s.bits = [] ∧
      remBytes content s = T) st := by
  obtain ⟨P, r0, r1, r2, hP1, hP2, hc⟩ := hH
  rw [readBlockHeader_eq]
  simp only [tot_bind, tot_get, tot_ite, tot_pure]
  rcases hc with ⟨hno, W, hW, hX, hbits⟩ | ⟨hyes, hb0, x, W, hW, hX, hbits⟩
  · refine ⟨fun h => absurd h hno, fun _ => ?_⟩
    exact hdrBody_tot hF hN fuel len hlen P hP1 hP2 r0 r1 r2 T st hb ⟨W, hW, by rw [hX]; rfl, hbits⟩
  · refine ⟨fun _ => ?_, fun h => absurd hyes h⟩
    refine tot_mono (nextByte_tot hF hN st hb x _ hX) ?_
    intro _ s1 ⟨_, hk1, hb1, hr1⟩
    refine tot_mono (hdrBody_tot hF hN fuel len hlen P hP1 hP2 r0 r1 r2 T s1 (by rw [hk1.inbufSize]; exact hb)
      ⟨W, hW, by rw [hr1]; rfl, by rw [hb1, hb0]; exact hbits⟩) ?_
    intro _ s ⟨h1, h2, h3, h4⟩
    exact ⟨by rw [h1, hk1.1], h2.trans hk1.2, h3, h4⟩

/-! ## the stream behind a point inside a block -/

def padB (len : Nat) : Bytes := if len % 2 = 1 then [0] else []

/-- what follows the last byte of a block of `bl` bytes when `room'` is left in the frame -/
def post (mark : Bytes) (room' bl : Nat) (bs : List Bytes) : Bytes :=
  padB bl ++ (if room' = LzxEnc.frameSize ∧ ¬ bs.isEmpty then mark else []) ++ LzxEnc.encBlocks mark [] room' bs

/-- the stream from a point in a block of `bl` bytes of which `cur` is left -/
def tl (mark : Bytes) (f room : Nat) (cur : Bytes) (bl : Nat) (bs : List Bytes) : Bytes :=
  LzxEnc.rawFrom mark f room cur ++ post mark (LzxEnc.roomAfter room cur.length) bl bs

theorem encBlocks_cons (mark : Bytes) (pre : List Bool) (room : Nat) (b : Bytes) (bs : List Bytes) :
    LzxEnc.encBlocks mark pre room (b :: bs) =
      LzxEnc.blockHeader pre b.length 1 1 1 ++ tl mark b.length room b b.length bs := by
  simp only [LzxEnc.encBlocks, tl, post, padB, List.append_assoc]

/-- the decoder's view at the top of a block-loop iteration: `cur` is left of the current block,
    the blocks `bs` follow, `room` output bytes are left in the frame -/
def TopX (mark extra : Bytes) (brem bt bl : Nat) (bits : List Bool) (X : Bytes) (room : Nat) (cur : Bytes)
    (bs : List Bytes) : Prop :=
  brem = cur.length ∧
  (cur ≠ [] → bits = [] ∧ bt = 3 ∧ ∃ f, cur.length ≤ f ∧ X = tl mark f room cur bl bs ++ extra) ∧
  (cur = [] → ∀ b bs', bs = b :: bs' →
    ∃ f, b.length ≤ f ∧ HdrPreX bt bl bits X b.length (tl mark f room b b.length bs' ++ extra))

theorem padBits_27 : LzxEnc.padBits 27 = [false, false, false, false, false] := rfl
theorem padBits_28 : LzxEnc.padBits 28 = [false, false, false, false] := rfl

theorem hdrBits_length (len : Nat) : (hdrBits len).length = 27 := by
  unfold hdrBits; rw [List.length_append, msbBits_length]; rfl

/-- the header the writer produces for a block that is not the first -/
theorem blockHeader_nil (len r0 r1 r2 : Nat) : ∃ W, W.length % 2 = 0 ∧
    LzxEnc.blockHeader [] len r0 r1 r2 = W ++ regs r0 r1 r2 ∧
    wordsBits W = hdrBits len ++ [false, false, false, false, false] := by
  have hl : ([] ++ [false, true, true] ++ LzxEnc.msbBits 24 len).length = 27 := hdrBits_length len
  refine ⟨LzxEnc.packWords 3 (hdrBits len ++ LzxEnc.padBits 27), ?_, ?_, ?_⟩
  · exact (wordsBits_packWords 3 _ (by rw [List.length_append, hdrBits_length]; rfl)
      (by rw [List.length_append, hdrBits_length]; decide)).2
  · unfold LzxEnc.blockHeader
    simp only [hl, regs, List.append_assoc]
    rfl
  · rw [(wordsBits_packWords 3 _ (by rw [List.length_append, hdrBits_length]; rfl)
      (by rw [List.length_append, hdrBits_length]; decide)).1, padBits_27]

theorem topX_next (mark extra : Bytes) (bl room : Nat) (bs : List Bytes) :
    TopX mark extra 0 3 bl [] (padB bl ++ (LzxEnc.encBlocks mark [] room bs ++ extra)) room [] bs := by
  refine ⟨rfl, fun h => absurd rfl h, ?_⟩
  intro _ b bs' hbs
  subst hbs
  obtain ⟨W, hW, hhdr, hbits⟩ := blockHeader_nil b.length 1 1 1
  refine ⟨b.length, Nat.le_refl _, [false, false, false, false, false], 1, 1, 1, by decide, by decide, ?_⟩
  rw [encBlocks_cons, hhdr]
  by_cases hodd : bl % 2 = 1
  · right
    refine ⟨⟨rfl, hodd⟩, rfl, 0, W, hW, ?_, hbits⟩
    simp only [padB, hodd, if_true, List.append_assoc, List.cons_append, List.nil_append]
  · left
    refine ⟨fun h => hodd h.2, W, hW, ?_, by simpa using hbits⟩
    simp only [padB, hodd, if_false, List.append_assoc, List.nil_append]

/-! ## arithmetic of frames, the writer's recursion -/

theorem roomAfter_lt {room L : Nat} (h : L < room) : LzxEnc.roomAfter room L = room - L := by
  unfold LzxEnc.roomAfter; rw [if_pos h]

theorem roomAfter_eq (room : Nat) : LzxEnc.roomAfter room room = 32768 := by
  unfold LzxEnc.roomAfter LzxEnc.frameSize; rw [if_neg (Nat.lt_irrefl _)]; omega

theorem roomAfter_gt {room L : Nat} (h : room < L) :
    LzxEnc.roomAfter room L = LzxEnc.roomAfter 32768 (L - room) := by
  unfold LzxEnc.roomAfter LzxEnc.frameSize
  rw [if_neg (by omega)]
  split <;> omega

theorem rawFrom_le (mark : Bytes) (f room : Nat) (data : Bytes) (h : data.length ≤ room) :
    LzxEnc.rawFrom mark f room data = data := by
  cases f with
  | zero => rfl
  | succ f => rw [LzxEnc.rawFrom, if_pos h]

theorem rawFrom_gt (mark : Bytes) (f room : Nat) (data : Bytes) (h : room < data.length) (hf : data.length ≤ f)
    (hr : 1 ≤ room) : ∃ f', (data.drop room).length ≤ f' ∧
      LzxEnc.rawFrom mark f room data = data.take room ++ (mark ++ LzxEnc.rawFrom mark f' 32768 (data.drop room)) := by
  cases f with
  | zero => omega
  | succ f =>
    refine ⟨f, by rw [List.length_drop]; omega, ?_⟩
    rw [LzxEnc.rawFrom, if_neg (by omega), List.append_assoc]
    rfl

theorem pad_mark_comm (delta : Bool) (bl : Nat) (Z : Bytes) :
    padB bl ++ (LzxEnc.chunkMark delta ++ Z) = LzxEnc.chunkMark delta ++ (padB bl ++ Z) := by
  unfold padB LzxEnc.chunkMark
  cases delta <;> by_cases h : bl % 2 = 1 <;> simp [h]

/-! ## the block loop on uncompressed blocks -/

/-- the fields of a state that a frame's block loop leaves alone -/
structure FCore where
  offset : Nat
  length : Nat
  windowSize : Nat
  refDataSize : Nat
  framePosn : Nat
  frame : Nat
  resetInterval : Nat
  intelFilesize : Int
  headerRead : Bool
  isDelta : Bool
  error : Err
  inbufSize : Nat
  oInE8 : Bool
  oPtr : Nat
  oEnd : Nat

def fc (c : Core) : FCore :=
  { offset := c.offset, length := c.length, windowSize := c.windowSize, refDataSize := c.refDataSize,
    framePosn := c.framePosn, frame := c.frame, resetInterval := c.resetInterval,
    intelFilesize := c.intelFilesize, headerRead := c.headerRead, isDelta := c.isDelta, error := c.error,
    inbufSize := c.inbufSize, oInE8 := c.oInE8, oPtr := c.oPtr, oEnd := c.oEnd }

theorem fc_coreHdr (c : Core) (len : Nat) : fc (coreHdr c len) = fc c := rfl

/-- block sizes the 24-bit length field can carry -/
def BOk (bs : List Bytes) : Prop := ∀ b ∈ bs, 1 ≤ b.length ∧ b.length < 16777216

/-- blocks (and part blocks) still to come -/
def cnt (cur : Bytes) (bs : List Bytes) : Nat := bs.length + (if cur = [] then 0 else 1)

/-- what the block loop did to the output side: `data` (`todo` bytes) is in the window behind the old
    position -/
def BlkOut (st s : St σ) (todo : Nat) (data : Bytes) : Prop :=
  fc (core s) = fc (core st) ∧ s.windowPosn = st.windowPosn + todo ∧ s.window.size = st.window.size ∧
  s.window.toList = st.window.toList.take st.windowPosn ++ data ++ st.window.toList.drop (st.windowPosn + todo)

/-- the input side when a frame is full and `D'` is still to come -/
def NextFrame (content : σ → Bytes) (mark extra : Bytes) (s : St σ) (D' : Bytes) (k : Nat) : Prop :=
  ∃ cur' bs', cur' ++ bs'.flatten = D' ∧ BOk bs' ∧ cur'.length < 16777216 ∧ cnt cur' bs' ≤ k ∧ s.bits = [] ∧
    ∃ X, remBytes content s = mark ++ X ∧
      TopX mark extra s.blockRemaining s.blockType s.blockLength [] X 32768 cur' bs'

def BLStmt (S : Src σ) (content : σ → Bytes) (mark extra : Bytes) (fuel : Nat) : Prop :=
  ∀ (todo : Nat) (st : St σ) (room : Nat) (cur : Bytes) (bs : List Bytes),
    TopX mark extra st.blockRemaining st.blockType st.blockLength st.bits (remBytes content st) room cur bs →
    BOk bs → cur.length < 16777216 → 1 ≤ room → room ≤ 32768 →
    todo = min room (cur.length + bs.flatten.length) → 1 ≤ st.inbufSize →
    st.windowPosn + todo ≤ st.window.size → cnt cur bs + 65538 ≤ fuel →
    tot (blockLoop S fuel (todo : Int)) (fun _ s => BlkOut st s todo ((cur ++ bs.flatten).take todo) ∧
      (todo = room → todo < cur.length + bs.flatten.length →
        NextFrame content mark extra s ((cur ++ bs.flatten).drop todo) (cnt cur bs)) ∧
      ((st.bits = [] ∨ 0 < todo) → s.bits = [])) st

theorem blkOut_refl (st : St σ) : BlkOut st st 0 [] :=
  ⟨rfl, rfl, rfl, by simp⟩

theorem blockLoop_zero (fuel : Nat) (Q : Unit → St σ → Prop) (st : St σ) (h : Q () st) :
    tot (blockLoop S (fuel + 1) ((0 : Nat) : Int)) Q st := by
  rw [blockLoop_eq, if_pos (by simp)]
  exact h

theorem win_compose (L0 L1 L2 : List UInt8) (wp n t' : Nat) (d1 d2 : Bytes)
    (h1 : L1 = L0.take wp ++ d1 ++ L0.drop (wp + n)) (h2 : L2 = L1.take (wp + n) ++ d2 ++ L1.drop (wp + n + t'))
    (hd1 : d1.length = n) (hd2 : d2.length = t') (hfit : wp + n + t' ≤ L0.length) :
    L2 = L0.take wp ++ (d1 ++ d2) ++ L0.drop (wp + (n + t')) := by
  have := splice_splice L0 wp n (n + t') (d1 ++ d2) (by omega) (by omega) (by rw [List.length_append]; omega)
  rw [List.take_left' hd1, List.drop_left' hd1] at this
  rw [h2, h1, ← this, Nat.add_assoc]

theorem blockRest_tot (hF : Zip.Feeds S content) (hN : ∀ s, S.lzxLength s = none) (delta : Bool) (extra : Bytes)
    (fuel : Nat) (ih : BLStmt S content (LzxEnc.chunkMark delta) extra fuel)
    (todo : Nat) (st : St σ) (room : Nat) (cur : Bytes) (bs : List Bytes) (hcur : cur ≠ [])
    (hT : TopX (LzxEnc.chunkMark delta) extra st.blockRemaining st.blockType st.blockLength st.bits
      (remBytes content st) room cur bs)
    (hB : BOk bs) (hcl : cur.length < 16777216) (hr1 : 1 ≤ room) (hr2 : room ≤ 32768)
    (htodo : todo = min room (cur.length + bs.flatten.length)) (hb : 1 ≤ st.inbufSize)
    (hfit : st.windowPosn + todo ≤ st.window.size) (hfuel : cnt cur bs + 65538 ≤ fuel + 1) :
    tot (blockRest S fuel (todo : Int)) (fun _ s => BlkOut st s todo ((cur ++ bs.flatten).take todo) ∧
      (todo = room → todo < cur.length + bs.flatten.length →
        NextFrame content (LzxEnc.chunkMark delta) extra s ((cur ++ bs.flatten).drop todo) (cnt cur bs)) ∧
      s.bits = []) st := by
  obtain ⟨hbrem, hne, _⟩ := hT
  obtain ⟨hbits, hbt, f, hf, hX⟩ := hne hcur
  have hcpos : 0 < cur.length := List.length_pos_iff.mpr hcur
  have hcnt : cnt cur bs = bs.length + 1 := by unfold cnt; rw [if_neg hcur]
  generalize hr : min cur.length todo = r
  have hthis : (if (cur.length : Int) > (todo : Int) then (todo : Int) else (cur.length : Int)) = (r : Int) := by
    split <;> omega
  have hsub : (todo : Int) - (r : Int) = ((todo - r : Nat) : Int) := by omega
  unfold blockRest
  simp only [tot_bind, tot_get, tot_set]
  rw [hbrem, hthis, hbt]
  simp only [show ¬ ((3 : Nat) = 1 ∨ (3 : Nat) = 2) by omega, if_false, if_true, tot_bind, tot_modify, tot_pure,
    Int.toNat_natCast, hsub]
  unfold blockAfter
  simp only [show ¬ ((0 : Int) < 0) by omega, if_false, tot_bind, tot_pure]
  have hrle : r ≤ todo := by omega
  have hrle2 : r ≤ 32768 := by omega
  obtain ⟨fk, hfk⟩ : ∃ k, fuel = k + 1 := ⟨fuel - 1, by omega⟩
  by_cases hL : cur.length ≤ room
  · -- the rest of the block fits into the frame
    have hrL : r = cur.length := by omega
    have hXA : remBytes content st = cur ++ (post (LzxEnc.chunkMark delta) (LzxEnc.roomAfter room cur.length)
        st.blockLength bs ++ extra) := by
      rw [hX, tl, rawFrom_le _ _ _ _ hL, List.append_assoc]
    refine tot_mono (copyRaw_tot hF hN fuel r st.windowPosn _ cur _ hb
      ((remBytes_congr _ _ rfl rfl rfl).trans hXA) hrL.symm (by show st.windowPosn + r ≤ st.window.size; omega)
      (by split <;> omega)) ?_
    intro _ s1 ⟨hc1, hb1, hrem1, hsz1, hw1⟩
    have e1 : s1.blockRemaining = 0 := by
      have := congrArg Core.blockRemaining hc1
      exact this.trans (by show cur.length - r = 0; omega)
    have e2 : s1.blockType = 3 := congrArg Core.blockType hc1
    have e3 : s1.blockLength = st.blockLength := congrArg Core.blockLength hc1
    have e4 : s1.windowPosn = st.windowPosn + r := congrArg Core.windowPosn hc1
    have e5 : s1.inbufSize = st.inbufSize := congrArg Core.inbufSize hc1
    have e6 : fc (core s1) = fc (core st) := by rw [hc1]; rfl
    have hb1' : s1.bits = [] := hb1.trans hbits
    have hw1' : s1.window.toList = st.window.toList.take st.windowPosn ++ cur ++
        st.window.toList.drop (st.windowPosn + r) := hw1
    have hsz1' : s1.window.size = st.window.size := hsz1
    by_cases hLr : cur.length < room
    · -- more of the frame is left: the next block's header follows
      have hrem1' : remBytes content s1 = padB st.blockLength ++
          (LzxEnc.encBlocks (LzxEnc.chunkMark delta) [] (room - cur.length) bs ++ extra) := by
        rw [hrem1, post, roomAfter_lt hLr, if_neg (by unfold LzxEnc.frameSize; omega)]
        simp only [List.append_nil, List.append_assoc]
      have hT1 : TopX (LzxEnc.chunkMark delta) extra s1.blockRemaining s1.blockType s1.blockLength s1.bits
          (remBytes content s1) (room - cur.length) [] bs := by
        rw [e1, e2, e3, hb1', hrem1']; exact topX_next _ _ _ _ _
      have hflat : ([] : Bytes) ++ bs.flatten = bs.flatten := rfl
      refine tot_mono (ih (todo - r) s1 (room - cur.length) [] bs hT1 hB (by simp) (by omega) (by omega)
        (by simp only [List.length_nil]; omega) (by rw [e5]; exact hb) (by rw [e4, hsz1']; omega)
        (by unfold cnt at hfuel ⊢; rw [if_neg hcur] at hfuel; rw [if_pos rfl]; omega)) ?_
      intro _ s ⟨⟨g1, g2, g3, g4⟩, hnext, hbs⟩
      rw [hflat] at g4 hnext
      refine ⟨⟨g1.trans e6, by rw [g2, e4]; omega, g3.trans hsz1', ?_⟩, ?_, hbs (Or.inl hb1')⟩
      · have hd : (cur ++ bs.flatten).take todo = cur ++ bs.flatten.take (todo - r) := by
          rw [List.take_append, hrL]
          congr 1
          exact List.take_of_length_le (by omega)
        rw [hd]
        have := win_compose st.window.toList s1.window.toList s.window.toList st.windowPosn r (todo - r) cur
          (bs.flatten.take (todo - r)) hw1' (by rw [g4, e4]) hrL.symm (by rw [List.length_take]; omega)
          (by rw [Array.length_toList]; omega)
        rw [this]
        congr 2
        omega
      · intro ht1 ht2
        have hn := hnext (by omega) (by simp only [List.length_nil]; omega)
        obtain ⟨cur', bs', q1, q2, q3, q4, q5, q6⟩ := hn
        refine ⟨cur', bs', ?_, q2, q3, ?_, q5, q6⟩
        · have hdn : List.drop todo cur = [] := List.drop_eq_nil_of_le (by omega)
          rw [q1, List.drop_append, hdn, List.nil_append, hrL]
        · unfold cnt at q4 ⊢; rw [if_neg hcur]; rw [if_pos rfl] at q4; omega
    · -- the block ends where the frame ends
      have hLe : cur.length = room := by omega
      have htr : todo = room := by omega
      have h0 : todo - r = 0 := by omega
      rw [h0, hfk]
      apply blockLoop_zero
      refine ⟨⟨e6, by rw [e4]; omega, hsz1', ?_⟩, ?_, hb1'⟩
      · have hd : (cur ++ bs.flatten).take todo = cur := by
          rw [List.take_append, List.take_of_length_le (by omega), show todo - cur.length = 0 by omega]
          simp
        rw [hd, hw1', show st.windowPosn + r = st.windowPosn + todo by omega]
      · intro _ ht2
        have hbs : bs ≠ [] := by intro e; rw [e] at ht2; simp at ht2; omega
        refine ⟨[], bs, ?_, hB, by simp, by unfold cnt; rw [if_pos rfl, if_neg hcur]; omega, hb1', ?_⟩
        · have hdn : List.drop todo cur = [] := List.drop_eq_nil_of_le (by omega)
          rw [List.drop_append, hdn, show todo - cur.length = 0 by omega]
          rfl
        · refine ⟨padB st.blockLength ++ (LzxEnc.encBlocks (LzxEnc.chunkMark delta) [] 32768 bs ++ extra), ?_, ?_⟩
          · rw [hrem1, post, hLe, roomAfter_eq, if_pos ⟨rfl, by simpa using hbs⟩]
            simp only [List.append_assoc]
            exact pad_mark_comm _ _ _
          · rw [e1, e2, e3]; exact topX_next _ _ _ _ _
  · -- the frame is full before the block ends
    have hLgt : room < cur.length := by omega
    have htr : todo = room := by omega
    have hrr : r = room := by omega
    obtain ⟨f', hf', hraw⟩ := rawFrom_gt (LzxEnc.chunkMark delta) f room cur hLgt hf hr1
    have hcl' : (cur.drop room).length = cur.length - room := List.length_drop
    have hXB : remBytes content st = cur.take room ++ (LzxEnc.chunkMark delta ++
        (tl (LzxEnc.chunkMark delta) f' 32768 (cur.drop room) st.blockLength bs ++ extra)) := by
      rw [hX, tl, tl, hraw, roomAfter_gt hLgt, hcl']
      simp only [List.append_assoc]
    refine tot_mono (copyRaw_tot hF hN fuel r st.windowPosn _ (cur.take room) _ hb
      ((remBytes_congr _ _ rfl rfl rfl).trans hXB) (by rw [List.length_take]; omega)
      (by show st.windowPosn + r ≤ st.window.size; omega) (by split <;> omega)) ?_
    intro _ s1 ⟨hc1, hb1, hrem1, hsz1, hw1⟩
    have e1 : s1.blockRemaining = cur.length - r := congrArg Core.blockRemaining hc1
    have e2 : s1.blockType = 3 := congrArg Core.blockType hc1
    have e3 : s1.blockLength = st.blockLength := congrArg Core.blockLength hc1
    have e4 : s1.windowPosn = st.windowPosn + r := congrArg Core.windowPosn hc1
    have e6 : fc (core s1) = fc (core st) := by rw [hc1]; rfl
    have hb1' : s1.bits = [] := hb1.trans hbits
    have hw1' : s1.window.toList = st.window.toList.take st.windowPosn ++ cur.take room ++
        st.window.toList.drop (st.windowPosn + r) := hw1
    have hsz1' : s1.window.size = st.window.size := hsz1
    have h0 : todo - r = 0 := by omega
    rw [h0, hfk]
    apply blockLoop_zero
    refine ⟨⟨e6, by rw [e4]; omega, hsz1', ?_⟩, ?_, hb1'⟩
    · rw [List.take_append_of_le_length (by omega), hw1', htr, hrr]
    · intro _ _
      have hne' : cur.drop room ≠ [] := by
        intro e; rw [e] at hcl'; simp at hcl'; omega
      refine ⟨cur.drop room, bs, ?_, hB, by rw [hcl']; omega, ?_, hb1', _, hrem1, ?_⟩
      · rw [htr, List.drop_append_of_le_length (by omega)]
      · unfold cnt; rw [if_neg hcur, if_neg hne']; omega
      · refine ⟨by rw [e1, hcl', hrr], fun _ => ⟨rfl, e2, f', hf', by rw [e3]⟩, fun h => absurd h hne'⟩

theorem blockLoop_tot (hF : Zip.Feeds S content) (hN : ∀ s, S.lzxLength s = none) (delta : Bool) (extra : Bytes) :
    ∀ fuel, BLStmt S content (LzxEnc.chunkMark delta) extra fuel := by
  intro fuel
  induction fuel with
  | zero => intro todo st room cur bs _ _ _ _ _ _ _ _ hfuel; omega
  | succ fuel ih =>
    intro todo st room cur bs hT hB hcl hr1 hr2 htodo hb hfit hfuel
    by_cases ht0 : todo = 0
    · subst ht0
      apply blockLoop_zero
      exact ⟨by simpa using blkOut_refl st, fun h => by omega, fun h => h.elim id (fun h => absurd h (by omega))⟩
    · rw [blockLoop_eq, if_neg (by omega)]
      simp only [tot_bind, tot_get, tot_ite, tot_pure]
      refine ⟨fun h0 => ?_, fun hn0 => ?_⟩
      · have hcur : cur = [] := List.eq_nil_of_length_eq_zero (hT.1.symm.trans h0)
        subst hcur
        cases bs with
        | nil => simp at htodo; omega
        | cons b bs' =>
          obtain ⟨fh, hfh, hH⟩ := hT.2.2 rfl b bs' rfl
          have hbb := hB b (List.mem_cons_self ..)
          have hbne : b ≠ [] := by intro e; rw [e] at hbb; simp at hbb
          refine tot_mono (readBlockHeader_tot hF hN fuel b.length hbb.2 _ st hb hH) ?_
          intro _ s1 ⟨hc1, hw1, hb1, hrem1⟩
          have e1 : s1.blockRemaining = b.length := congrArg Core.blockRemaining hc1
          have e2 : s1.blockType = 3 := congrArg Core.blockType hc1
          have e3 : s1.blockLength = b.length := congrArg Core.blockLength hc1
          have e4 : s1.windowPosn = st.windowPosn := congrArg Core.windowPosn hc1
          have e5 : s1.inbufSize = st.inbufSize := congrArg Core.inbufSize hc1
          have e6 : fc (core s1) = fc (core st) := by rw [hc1, fc_coreHdr]
          have hfl : (b :: bs').flatten = b ++ bs'.flatten := rfl
          have hT1 : TopX (LzxEnc.chunkMark delta) extra s1.blockRemaining s1.blockType s1.blockLength s1.bits
              (remBytes content s1) room b bs' :=
            ⟨e1, fun _ => ⟨hb1, e2, fh, hfh, by rw [hrem1, e3]⟩, fun h => absurd h hbne⟩
          refine tot_mono (blockRest_tot hF hN delta extra fuel ih todo s1 room b bs' hbne hT1
            (fun x hx => hB x (List.mem_cons_of_mem _ hx)) hbb.2 hr1 hr2
            (by rw [htodo, hfl, List.length_append]; simp) (by rw [e5]; exact hb) (by rw [e4, hw1]; exact hfit)
            (by unfold cnt at hfuel ⊢; rw [if_neg hbne]; rw [if_pos rfl, List.length_cons] at hfuel; omega)) ?_
          intro _ s ⟨⟨g1, g2, g3, g4⟩, hnext, hbs⟩
          have hcc : cnt b bs' = cnt [] (b :: bs') := by unfold cnt; rw [if_neg hbne, if_pos rfl]; simp
          rw [List.nil_append, hfl]
          refine ⟨⟨g1.trans e6, by rw [g2, e4], by rw [g3, hw1], by rw [g4, hw1, e4]⟩, ?_, fun _ => hbs⟩
          intro a1 a2
          rw [← hcc]
          exact hnext a1 (by rw [List.length_append] at a2; simpa using a2)
      · have hcur : cur ≠ [] := by intro e; rw [e] at hT; exact hn0 hT.1
        refine tot_mono (blockRest_tot hF hN delta extra fuel ih todo st room cur bs hcur hT hB hcl hr1 hr2 htodo hb
          hfit hfuel) ?_
        intro _ s ⟨a, b, c⟩
        exact ⟨a, b, fun _ => c⟩

end
end MsPack.Lzx
