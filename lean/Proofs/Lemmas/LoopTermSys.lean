import Proofs.Lemmas.SysLedger
import MsPack.Szdd.Api
import MsPack.Kwaj.Api
/-!
# Termination of the loops of the effect models (`Sys.M`): LZSS, KWAJ copy loop

The measure lives in the world: the bytes between the position of the input handle and the end of
the file it reads (`inLeft`).  It holds for every world - any files, any fault plan, any handle
table (ids need not even be unique: `findHandle` takes the first, `setHandle` rewrites all).
-/
namespace MsPack.Sys
open MsPack

/-- length of the file a read handle reads (0 for a write handle) -/
def hSize (files : List (String × Bytes)) (h : Handle) : Nat :=
  if h.mode = .read then ((files.lookup h.name).getD []).length else 0

/-- bytes a read handle can still deliver (0 for a write handle) -/
def hLeft (files : List (String × Bytes)) (h : Handle) : Nat :=
  if h.mode = .read then ((files.lookup h.name).getD []).length - h.pos else 0

/-- bytes `sys->read(fh, …)` can still deliver in this world (0 if `fh` is not open for reading) -/
def inLeft (w : World) (fh : Nat) : Nat := ((findHandle w fh).map (hLeft w.files)).getD 0

/-- size of the file behind `fh` (0 if `fh` is not open for reading) -/
def inSize (w : World) (fh : Nat) : Nat := ((findHandle w fh).map (hSize w.files)).getD 0

theorem hLeft_le_hSize (files : List (String × Bytes)) (h : Handle) : hLeft files h ≤ hSize files h := by
  unfold hLeft hSize; split <;> omega

theorem inLeft_le_inSize (w : World) (fh : Nat) : inLeft w fh ≤ inSize w fh := by
  unfold inLeft inSize
  cases findHandle w fh with
  | none => simp
  | some h => simp [hLeft_le_hSize]

theorem findHandle_id {w : World} {id : Nat} {h : Handle} (hf : findHandle w id = some h) : h.id = id := by
  unfold findHandle at hf
  simpa using List.find?_some hf

theorem findHandle_setHandle (h' : Handle) (w : World) (id : Nat) :
    findHandle (setHandle h' w) id = (findHandle w id).map (fun x => if x.id = h'.id then h' else x) := by
  unfold findHandle setHandle
  simp only
  rw [List.find?_map]
  congr 1
  congr 1
  funext x
  simp only [Function.comp]
  split
  · rename_i hx; rw [hx]
  · rfl

/-- replacing the handle found under `id` by one with the same id, mode and name -/
theorem inSize_setHandle (w : World) (id : Nat) (h h' : Handle) (hf : findHandle w id = some h)
    (hid : h'.id = h.id) (hmode : h'.mode = h.mode) (hname : h'.name = h.name) (fh : Nat) :
    inSize (setHandle h' w) fh = inSize w fh := by
  unfold inSize
  rw [findHandle_setHandle]
  have hfiles : (setHandle h' w).files = w.files := rfl
  rw [hfiles]
  cases hx : findHandle w fh with
  | none => rfl
  | some x =>
    simp only [Option.map_some, Option.getD_some]
    split
    · rename_i hxe
      -- `x` is the handle found under `id`
      have h1 := findHandle_id hx
      have h2 := findHandle_id hf
      have : fh = id := by omega
      subst this
      rw [hf] at hx
      simp only [Option.some.injEq] at hx
      subst hx
      simp only [hSize, hmode, hname]
    · rfl

theorem inLeft_setHandle (w : World) (id : Nat) (h h' : Handle) (hf : findHandle w id = some h)
    (hid : h'.id = h.id) (hmode : h'.mode = h.mode) (hname : h'.name = h.name)
    (hpos : h.pos ≤ h'.pos ∨ h.mode = .write) (fh : Nat) :
    inLeft (setHandle h' w) fh ≤ inLeft w fh := by
  unfold inLeft
  rw [findHandle_setHandle]
  have hfiles : (setHandle h' w).files = w.files := rfl
  rw [hfiles]
  cases hx : findHandle w fh with
  | none => simp
  | some x =>
    simp only [Option.map_some, Option.getD_some]
    split
    · rename_i hxe
      have h1 := findHandle_id hx
      have h2 := findHandle_id hf
      have : fh = id := by omega
      subst this
      rw [hf] at hx
      simp only [Option.some.injEq] at hx
      subst hx
      simp only [hLeft, hmode, hname]
      rcases hpos with hp | hp
      · split <;> omega
      · simp [hp]
    · exact Nat.le_refl _

/-! ### what the primitives do to the measure -/

theorem free_inLeft (p : Option Nat) (w : World) (fh : Nat) : inLeft (free p w).2 fh = inLeft w fh := by
  unfold free
  split
  · rfl
  · split <;> rfl

theorem free_inSize (p : Option Nat) (w : World) (fh : Nat) : inSize (free p w).2 fh = inSize w fh := by
  unfold free
  split
  · rfl
  · split <;> rfl

theorem alloc_inLeft (w : World) (fh : Nat) : inLeft (alloc w).2 fh = inLeft w fh := by
  unfold alloc
  simp only [tick]
  split <;> rfl

theorem alloc_inSize (w : World) (fh : Nat) : inSize (alloc w).2 fh = inSize w fh := by
  unfold alloc
  simp only [tick]
  split <;> rfl

/-- `read` on the handle itself: the bytes delivered come off the measure; `read` on any handle
    never increases it -/
theorem read_inLeft (id n : Nat) (w : World) (fh : Nat) :
    inLeft (read id n w).2 fh + (if id = fh then ((read id n w).1.getD []).length else 0) ≤ inLeft w fh := by
  unfold read
  simp only [tick]
  have hfh : ∀ c, findHandle { w with counts := c } id = findHandle w id := fun _ => rfl
  rw [hfh]
  cases hf : findHandle w id with
  | none =>
    simp only [Option.getD_none, List.length_nil, ite_self, Nat.add_zero]
    exact Nat.le_refl _
  | some h =>
    simp only
    split
    · simp only [Option.getD_none, List.length_nil, ite_self, Nat.add_zero]; exact Nat.le_refl _
    · rename_i hmode
      simp only [ne_eq, Decidable.not_not] at hmode
      split
      · simp only [Option.getD_none, List.length_nil, ite_self, Nat.add_zero]; exact Nat.le_refl _
      · simp only [Option.getD_some]
        split
        · -- the handle read from is `fh`: exact accounting
          rename_i hidfh
          subst hidfh
          generalize hc : w.counts.bump Kind.read = c
          have hf' : findHandle { w with counts := c } id = some h := hf
          unfold inLeft
          rw [findHandle_setHandle, hf', hf]
          have hfiles : ∀ h', (setHandle h' { w with counts := c }).files = w.files := fun _ => rfl
          rw [hfiles]
          simp only [Option.map_some, ↓reduceIte, Option.getD_some, hLeft, hmode,
            List.length_take, List.length_drop]
          omega
        · simp only [Nat.add_zero]
          generalize hc : w.counts.bump Kind.read = c
          have hf' : findHandle { w with counts := c } id = some h := hf
          refine inLeft_setHandle { w with counts := c } id h ?_ hf' ?_ ?_ ?_ (Or.inl ?_) fh
          · rfl
          · rfl
          · rfl
          · exact Nat.le_add_right _ _

theorem read_inSize (id n : Nat) (w : World) (fh : Nat) : inSize (read id n w).2 fh = inSize w fh := by
  unfold read
  simp only [tick]
  have hfh : ∀ c, findHandle { w with counts := c } id = findHandle w id := fun _ => rfl
  rw [hfh]
  cases hf : findHandle w id with
  | none => rfl
  | some h =>
    simp only
    split
    · rfl
    · split
      · rfl
      · generalize hc : w.counts.bump Kind.read = c
        have hf' : findHandle { w with counts := c } id = some h := hf
        refine inSize_setHandle { w with counts := c } id h ?_ hf' ?_ ?_ ?_ fh <;> rfl

theorem write_inLeft (id : Nat) (bs : Bytes) (w : World) (fh : Nat) : inLeft (write id bs w).2 fh ≤ inLeft w fh := by
  unfold write
  simp only [tick]
  have hfh : ∀ c, findHandle { w with counts := c } id = findHandle w id := fun _ => rfl
  rw [hfh]
  cases hf : findHandle w id with
  | none => exact Nat.le_refl _
  | some h =>
    simp only
    split
    · exact Nat.le_refl _
    · rename_i hmode
      simp only [ne_eq, Decidable.not_not] at hmode
      split
      · exact Nat.le_refl _
      · generalize hc : w.counts.bump Kind.write = c
        have hf' : findHandle { w with counts := c } id = some h := hf
        refine inLeft_setHandle { w with counts := c } id h ?_ hf' ?_ ?_ ?_ (Or.inr hmode) fh <;> rfl

theorem seekStart_inSize (id off : Nat) (w : World) (fh : Nat) : inSize (seekStart id off w).2 fh = inSize w fh := by
  unfold seekStart
  simp only [tick]
  have hfh : ∀ c, findHandle { w with counts := c } id = findHandle w id := fun _ => rfl
  rw [hfh]
  cases hf : findHandle w id with
  | none => rfl
  | some h =>
    simp only
    split
    · rfl
    · generalize hc : w.counts.bump Kind.seek = c
      have hf' : findHandle { w with counts := c } id = some h := hf
      refine inSize_setHandle { w with counts := c } id h ?_ hf' ?_ ?_ ?_ fh <;> rfl

theorem lookup_filter_ne (files : List (String × Bytes)) (name n : String) (hn : n ≠ name) :
    (files.filter (·.1 ≠ name)).lookup n = files.lookup n := by
  induction files with
  | nil => rfl
  | cons a t ih =>
    obtain ⟨k, v⟩ := a
    rw [List.filter_cons]
    by_cases hk : k = name
    · have h1 : (decide ((k, v).1 ≠ name)) = false := by simp [hk]
      rw [h1]
      simp only [Bool.false_eq_true, ↓reduceIte]
      rw [ih, List.lookup_cons]
      have : (n == k) = false := by simp [hk, hn]
      rw [this]
    · have h1 : decide ((k, v).1 ≠ name) = true := by simp [hk]
      rw [h1]
      simp only [↓reduceIte]
      rw [List.lookup_cons, List.lookup_cons, ih]

/-- opening an output file: the input handle keeps its position; its file stays as it is or (same
    name) is truncated; a fresh handle that takes over the id is a write handle -/
theorem openWrite_inLeft (name : String) (w : World) (fh : Nat) :
    inLeft (open_ name .write w).2 fh ≤ inLeft w fh := by
  unfold open_
  simp only [tick]
  split
  · exact Nat.le_refl _
  · split
    · exact Nat.le_refl _
    · simp only [↓reduceIte]
      unfold inLeft findHandle
      simp only [List.find?_cons]
      by_cases hid : w.nextId = fh
      · simp [hid, hLeft]
      · simp only [hid, decide_false]
        cases hx : w.liveHandles.find? (fun x => decide (x.id = fh)) with
        | none => simp
        | some x =>
          simp only [Option.map_some, Option.getD_some, hLeft]
          split
          · by_cases hn : x.name = name
            · simp [hn, List.lookup_cons]
            · have : (x.name == name) = false := by simp [hn]
              rw [List.lookup_cons, this, lookup_filter_ne _ _ _ hn]
              exact Nat.le_refl _
          · exact Nat.le_refl _

end MsPack.Sys

/-! ## `lzss_decompress` over `Sys.M` -/
namespace MsPack.Szdd.Api
open MsPack MsPack.Sys MsPack.Generated

/-- input the decoder can still consume: buffered + left behind the input handle -/
def left (inFh : Nat) (s : LSt) (w : World) : Nat := s.inbuf.length + inLeft w inFh

theorem nextByte_left (win inFh bufsize : Nat) (s : LSt) (w : World) :
    match (nextByte win inFh bufsize s w).1 with
    | .inl _ => True
    | .inr (_, s') => left inFh s' (nextByte win inFh bufsize s w).2 + 1 ≤ left inFh s w := by
  unfold nextByte
  cases hs : s.inbuf with
  | cons b rest => simp only [pure_apply, left, hs, List.length_cons]; omega
  | nil =>
    simp only [bind_apply]
    have hr := read_inLeft inFh bufsize w inFh
    generalize read inFh bufsize w = p at hr
    obtain ⟨r, w1⟩ := p
    simp only [↓reduceIte] at hr ⊢
    match r with
    | none => simp only [bind_apply, pure_apply]
    | some [] => simp only [bind_apply, pure_apply]
    | some (b :: rest) =>
      simp only [pure_apply, left, hs, List.length_nil, Option.getD_some, List.length_cons] at hr ⊢
      omega

theorem emit_left (win inFh outFh : Nat) (s : LSt) (b : UInt8) (w : World) :
    match (emit win outFh s b w).1 with
    | .inl _ => True
    | .inr s' => left inFh s' (emit win outFh s b w).2 ≤ left inFh s w := by
  unfold emit
  simp only [bind_apply]
  have hr := write_inLeft outFh [b] w inFh
  generalize write outFh [b] w = p at hr
  obtain ⟨r, w1⟩ := p
  simp only at hr ⊢
  match r with
  | some 1 => simp only [pure_apply, left]; omega
  | none => simp only [bind_apply, pure_apply]
  | some 0 => simp only [bind_apply, pure_apply]
  | some (n + 2) => simp only [bind_apply, pure_apply]

theorem copyMatch_left (win inFh outFh : Nat) : ∀ (len mpos : Nat) (s : LSt) (w : World),
    match (copyMatch win outFh len mpos s w).1 with
    | .inl _ => True
    | .inr s' => left inFh s' (copyMatch win outFh len mpos s w).2 ≤ left inFh s w := by
  intro len
  induction len with
  | zero => intro mpos s w; simp only [copyMatch, pure_apply]; exact Nat.le_refl _
  | succ len ih =>
    intro mpos s w
    unfold copyMatch
    simp only [bind_apply]
    have he := emit_left win inFh outFh s (s.window.getD mpos 0x20) w
    generalize emit win outFh s (s.window.getD mpos 0x20) w = p at he
    obtain ⟨r, w1⟩ := p
    match r with
    | .inl e => simp only [pure_apply]
    | .inr s1 =>
      simp only at he ⊢
      have := ih ((mpos + 1) % 4096) s1 w1
      generalize copyMatch win outFh len ((mpos + 1) % 4096) s1 w1 = q at this
      obtain ⟨r2, w2⟩ := q
      match r2 with
      | .inl e => trivial
      | .inr s2 => simp only at this ⊢; omega

theorem tokens_left (win inFh outFh bufsize cb : Nat) : ∀ (k mask : Nat) (s : LSt) (w : World),
    match (tokens win inFh outFh bufsize cb k mask s w).1 with
    | .inl _ => True
    | .inr s' => left inFh s' (tokens win inFh outFh bufsize cb k mask s w).2 ≤ left inFh s w := by
  intro k
  induction k with
  | zero => intro mask s w; simp only [tokens, pure_apply]; exact Nat.le_refl _
  | succ k ih =>
    intro mask s w
    unfold tokens
    by_cases hlit : cb &&& mask ≠ 0
    · rw [if_pos hlit]
      simp only [bind_apply]
      have h1 := nextByte_left win inFh bufsize s w
      generalize nextByte win inFh bufsize s w = p1 at h1
      obtain ⟨r1, w1⟩ := p1
      match r1 with
      | .inl e => simp only [pure_apply]
      | .inr (b, s1) =>
        simp only [bind_apply] at h1 ⊢
        have h2 := emit_left win inFh outFh s1 b w1
        generalize emit win outFh s1 b w1 = p2 at h2
        obtain ⟨r2, w2⟩ := p2
        match r2 with
        | .inl e => simp only [pure_apply]
        | .inr s2 =>
          simp only at h2 ⊢
          have := ih (mask <<< 1) s2 w2
          generalize tokens win inFh outFh bufsize cb k (mask <<< 1) s2 w2 = q at this
          obtain ⟨r3, w3⟩ := q
          match r3 with
          | .inl e => trivial
          | .inr s3 => simp only at this ⊢; omega
    · rw [if_neg hlit]
      simp only [bind_apply]
      have h1 := nextByte_left win inFh bufsize s w
      generalize nextByte win inFh bufsize s w = p1 at h1
      obtain ⟨r1, w1⟩ := p1
      match r1 with
      | .inl e => simp only [pure_apply]
      | .inr (b0, s1) =>
        simp only [bind_apply] at h1 ⊢
        have h2 := nextByte_left win inFh bufsize s1 w1
        generalize nextByte win inFh bufsize s1 w1 = p2 at h2
        obtain ⟨r2, w2⟩ := p2
        match r2 with
        | .inl e => simp only [pure_apply]
        | .inr (b1, s2) =>
          simp only [bind_apply] at h2 ⊢
          have h3 := copyMatch_left win inFh outFh ((b1.toNat &&& 0x0F) + 3)
            (b0.toNat ||| ((b1.toNat &&& 0xF0) <<< 4)) s2 w2
          generalize copyMatch win outFh ((b1.toNat &&& 0x0F) + 3) (b0.toNat ||| ((b1.toNat &&& 0xF0) <<< 4)) s2 w2 = p3 at h3
          obtain ⟨r3, w3⟩ := p3
          match r3 with
          | .inl e => simp only [pure_apply]
          | .inr s3 =>
            simp only at h3 ⊢
            have := ih (mask <<< 1) s3 w3
            generalize tokens win inFh outFh bufsize cb k (mask <<< 1) s3 w3 = q at this
            obtain ⟨r4, w4⟩ := q
            match r4 with
            | .inl e => trivial
            | .inr s4 => simp only at this ⊢; omega

/-- the main loop never runs out of fuel when it has more fuel than there are input bytes left -/
theorem mainLoop_no_hang (win inFh outFh bufsize invert : Nat) : ∀ (fuel : Nat) (s : LSt) (w : World),
    left inFh s w + 1 ≤ fuel → (mainLoop win inFh outFh bufsize invert fuel s w).1 ≠ none := by
  intro fuel
  induction fuel with
  | zero => intro s w h; omega
  | succ fuel ih =>
    intro s w h
    unfold mainLoop
    simp only [bind_apply]
    have h1 := nextByte_left win inFh bufsize s w
    generalize nextByte win inFh bufsize s w = p1 at h1
    obtain ⟨r1, w1⟩ := p1
    match r1 with
    | .inl e => simp [pure_apply]
    | .inr (cb, s1) =>
      simp only [bind_apply] at h1 ⊢
      have h2 := tokens_left win inFh outFh bufsize (cb.toNat ^^^ invert) 8 1 s1 w1
      generalize tokens win inFh outFh bufsize (cb.toNat ^^^ invert) 8 1 s1 w1 = p2 at h2
      obtain ⟨r2, w2⟩ := p2
      match r2 with
      | .inl e => simp [pure_apply]
      | .inr s2 =>
        simp only at h2 ⊢
        exact ih s2 w2 (by omega)

/-- `lzss_decompress` returns (never runs out of fuel) when it has more fuel than the input handle
    has bytes left — for every world: any files, any fault plan -/
theorem lzss_no_hang (inFh outFh bufsize : Nat) (qb : Bool) (fuel : Nat) (w : World)
    (h : inLeft w inFh + 1 ≤ fuel) : (lzss inFh outFh bufsize qb fuel w).1 ≠ none := by
  unfold lzss
  simp only [bind_apply]
  have ha := alloc_inLeft w inFh
  generalize alloc w = p at ha
  obtain ⟨r, w1⟩ := p
  match r with
  | none => simp [pure_apply]
  | some win =>
    simp only at ha ⊢
    apply mainLoop_no_hang
    simp only [left, List.length_nil, ha]
    omega

/-- `szddd_extract` returns when it has more fuel than the input file has bytes -/
theorem extract_no_hang (i : Inst) (h : Hdr) (out : String) (fuel : Nat) (w : World)
    (hf : inSize w h.fh + 1 ≤ fuel) : (extract i h out fuel w).1 ≠ none := by
  unfold extract
  generalize decide (h.format ≠ 0) = qb
  simp only [bind_apply]
  have hs := seekStart_inSize h.fh (if h.format = 0 then 14 else 12) w h.fh
  generalize seekStart h.fh (if h.format = 0 then 14 else 12) w = p at hs
  obtain ⟨r, w1⟩ := p
  simp only at hs ⊢
  cases r with
  | true => simp [pure_apply]
  | false =>
    simp only [Bool.false_eq_true, ↓reduceIte, bind_apply]
    have ho := openWrite_inLeft out w1 h.fh
    generalize Sys.open_ out .write w1 = p2 at ho
    obtain ⟨r2, w2⟩ := p2
    match r2 with
    | none => simp [pure_apply]
    | some o =>
      simp only [bind_apply] at ho ⊢
      have hl := lzss_no_hang h.fh o szddINPUT_SIZE qb fuel w2
        (by have := inLeft_le_inSize w1 h.fh; omega)
      generalize lzss h.fh o szddINPUT_SIZE qb fuel w2 = p3 at hl
      obtain ⟨r3, w3⟩ := p3
      match r3 with
      | none => exact absurd rfl hl
      | some e => simp [bind_apply, pure_apply]

end MsPack.Szdd.Api

namespace MsPack.Sys
open MsPack

/-- a fresh read handle stands at the start of the file found under that name -/
theorem openRead_inSize (name : String) (w : World) :
    match (open_ name .read w).1 with
    | some f => inSize (open_ name .read w).2 f = ((w.files.lookup name).getD []).length
    | none => True := by
  unfold open_
  simp only [tick]
  by_cases h1 : (w.plan.contains (Kind.open_, (w.counts.bump Kind.open_).get Kind.open_)) = true
  · rw [if_pos h1]; trivial
  · rw [if_neg h1]
    by_cases h2 : (True ∧ (w.files.lookup name).isNone = true)
    · rw [if_pos h2]; trivial
    · rw [if_neg h2]
      simp only [inSize, findHandle, List.find?_cons, decide_true, Option.map_some, Option.getD_some, hSize,
        ↓reduceIte]
      simp

end MsPack.Sys

namespace MsPack.Szdd.Api
open MsPack MsPack.Sys MsPack.Generated

theorem readHeaders_inSize (f : Nat) (w : World) (fh : Nat) : inSize (readHeaders f w).2 fh = inSize w fh := by
  unfold readHeaders
  simp only [bind_apply]
  have h1 := read_inSize f 8 w fh
  generalize read f 8 w = p1 at h1
  obtain ⟨r1, w1⟩ := p1
  match r1 with
  | none => exact h1
  | some buf =>
    simp only at h1 ⊢
    split
    · exact h1
    · split
      · simp only [bind_apply]
        have h2 := read_inSize f 6 w1 fh
        generalize read f 6 w1 = p2 at h2
        obtain ⟨r2, w2⟩ := p2
        match r2 with
        | none => simp only [pure_apply] at h2 ⊢; omega
        | some b =>
          simp only at h2 ⊢
          split
          · simp only [pure_apply]; omega
          · split <;> (simp only [pure_apply]; omega)
      · split
        · simp only [bind_apply]
          have h2 := read_inSize f 4 w1 fh
          generalize read f 4 w1 = p2 at h2
          obtain ⟨r2, w2⟩ := p2
          match r2 with
          | none => simp only [pure_apply] at h2 ⊢; omega
          | some b =>
            simp only at h2 ⊢
            split <;> (simp only [pure_apply]; omega)
        · exact h1

/-- `szddd_open`: the header's handle reads the file found under `name` -/
theorem open_inSize (i : Inst) (name : String) (w : World) :
    match (open_ i name w).1.2 with
    | some h => inSize (open_ i name w).2 h.fh ≤ ((w.files.lookup name).getD []).length
    | none => True := by
  unfold open_
  simp only [bind_apply]
  have h1 := openRead_inSize name w
  generalize Sys.open_ name .read w = p1 at h1
  obtain ⟨r1, w1⟩ := p1
  simp only at h1 ⊢
  have h2 := fun fh => alloc_inSize w1 fh
  generalize alloc w1 = p2 at h2
  obtain ⟨r2, w2⟩ := p2
  simp only at h2 ⊢
  match r1, r2 with
  | none, _ => simp only [bind_apply, pure_apply]
  | some f, none => simp only [bind_apply, pure_apply]
  | some f, some m =>
    simp only [bind_apply] at h1 ⊢
    have h3 := readHeaders_inSize f w2 f
    generalize readHeaders f w2 = p3 at h3
    obtain ⟨r3, w3⟩ := p3
    match r3 with
    | .error e => simp only [bind_apply, pure_apply]
    | .ok (fmt, miss, len) =>
      simp only [pure_apply] at h3 ⊢
      rw [h3, h2, h1]
      exact Nat.le_refl _

/-- `szddd_decompress` returns when it has more fuel than the input file has bytes -/
theorem decompress_no_hang (i : Inst) (input output : String) (fuel : Nat) (w : World)
    (hf : ((w.files.lookup input).getD []).length + 1 ≤ fuel) : (decompress i input output fuel w).1 ≠ none := by
  unfold decompress
  simp only [bind_apply]
  have h1 := open_inSize i input w
  generalize open_ i input w = p1 at h1
  obtain ⟨⟨i1, h?⟩, w1⟩ := p1
  match h? with
  | none => simp [pure_apply]
  | some h =>
    simp only [bind_apply] at h1 ⊢
    have h2 := extract_no_hang i1 h output fuel w1 (by omega)
    generalize extract i1 h output fuel w1 = p2 at h2
    obtain ⟨r2, w2⟩ := p2
    match r2 with
    | none => exact absurd rfl h2
    | some (i2, e) => simp [bind_apply, pure_apply]

end MsPack.Szdd.Api

/-! ## KWAJ over `Sys.M`: the copy loop of methods NONE / XOR, `kwajd_extract` -/
namespace MsPack.Kwaj.Api
open MsPack MsPack.Sys MsPack.Generated MsPack.Kwaj

/-- every round of the copy loop that goes round again has read at least one byte -/
theorem copyLoop_no_hang (inFh outFh : Nat) (xor : Bool) : ∀ (fuel : Nat) (w : World),
    inLeft w inFh + 1 ≤ fuel → (copyLoop inFh outFh xor fuel w).1 ≠ none := by
  intro fuel
  induction fuel with
  | zero => intro w h; omega
  | succ fuel ih =>
    intro w h
    unfold copyLoop
    simp only [bind_apply]
    have h1 := read_inLeft inFh kwajINPUT_SIZE w inFh
    generalize read inFh kwajINPUT_SIZE w = p1 at h1
    obtain ⟨r1, w1⟩ := p1
    match r1 with
    | none => simp [pure_apply]
    | some chunk =>
      simp only [↓reduceIte, Option.getD_some] at h1 ⊢
      split
      · simp [pure_apply]
      · rename_i hne
        simp only [bind_apply]
        have h2 := write_inLeft outFh (if xor = true then chunk.map (· ^^^ 0xFF) else chunk) w1 inFh
        generalize write outFh (if xor = true then chunk.map (· ^^^ 0xFF) else chunk) w1 = p2 at h2
        obtain ⟨r2, w2⟩ := p2
        match r2 with
        | none => simp [pure_apply]
        | some n =>
          simp only at h2 ⊢
          split
          · simp [pure_apply]
          · apply ih
            have : 1 ≤ chunk.length := by
              cases chunk with
              | nil => simp at hne
              | cons a t => simp
            omega

theorem stored_no_hang (inFh outFh : Nat) (xor : Bool) (fuel : Nat) (w : World)
    (h : inLeft w inFh + 1 ≤ fuel) : (stored inFh outFh xor fuel w).1 ≠ none := by
  unfold stored
  simp only [bind_apply]
  have ha := alloc_inLeft w inFh
  generalize alloc w = p at ha
  obtain ⟨r, w1⟩ := p
  match r with
  | none => simp [pure_apply]
  | some buf =>
    simp only [bind_apply] at ha ⊢
    have h2 := copyLoop_no_hang inFh outFh xor fuel w1 (by omega)
    generalize copyLoop inFh outFh xor fuel w1 = p2 at h2
    obtain ⟨r2, w2⟩ := p2
    match r2 with
    | none => exact absurd rfl h2
    | some e => simp [bind_apply, pure_apply]

/-- "decompress based on format": whatever the two bit-level decoder bodies are -/
theorem method_no_hang (d : Decoders) (ct inFh outFh fuel : Nat) (w : World)
    (h : inLeft w inFh + 1 ≤ fuel) : (method d ct inFh outFh fuel w).1 ≠ none := by
  unfold method
  split
  · exact stored_no_hang _ _ _ _ _ h
  · split
    · exact Szdd.Api.lzss_no_hang _ _ _ _ _ _ h
    · split
      · simp [bind_apply, pure_apply]
      · split
        · simp [bind_apply, pure_apply]
        · simp [pure_apply]

/-- `kwajd_extract` returns when it has more fuel than the input file has bytes -/
theorem extract_no_hang (d : Decoders) (i : Inst) (h : Hdr) (out : String) (fuel : Nat) (w : World)
    (hf : inSize w h.fh + 1 ≤ fuel) : (extract d i h out fuel w).1 ≠ none := by
  unfold extract
  simp only [bind_apply]
  have hs := seekStart_inSize h.fh h.f.dataOffset w h.fh
  generalize seekStart h.fh h.f.dataOffset w = p at hs
  obtain ⟨r, w1⟩ := p
  simp only at hs ⊢
  cases r with
  | true => simp [pure_apply]
  | false =>
    simp only [Bool.false_eq_true, ↓reduceIte, bind_apply]
    have ho := openWrite_inLeft out w1 h.fh
    generalize Sys.open_ out .write w1 = p2 at ho
    obtain ⟨r2, w2⟩ := p2
    match r2 with
    | none => simp [pure_apply]
    | some o =>
      simp only [bind_apply] at ho ⊢
      have hl := method_no_hang d h.f.compType h.fh o fuel w2
        (by have := inLeft_le_inSize w1 h.fh; omega)
      generalize method d h.f.compType h.fh o fuel w2 = p3 at hl
      obtain ⟨r3, w3⟩ := p3
      match r3 with
      | none => exact absurd rfl hl
      | some e => simp [bind_apply, pure_apply]

end MsPack.Kwaj.Api

/-! ## `kwajd_open` / `kwajd_decompress` over `Sys.M` -/
namespace MsPack.Sys
open MsPack

/-- the computation leaves the size of the file behind handle `fh` as it is -/
def Keeps (fh : Nat) {α : Type} (x : M α) : Prop := ∀ w, inSize (x w).2 fh = inSize w fh

theorem Keeps.pure (fh : Nat) {α : Type} (a : α) : Keeps fh (pure a : M α) := fun _ => rfl

theorem Keeps.bind {fh : Nat} {α β : Type} {x : M α} {f : α → M β} (hx : Keeps fh x) (hf : ∀ a, Keeps fh (f a)) :
    Keeps fh (x >>= f) := fun w => by
  rw [bind_apply]
  exact (hf _ _).trans (hx w)

theorem Keeps.alloc (fh : Nat) : Keeps fh alloc := fun w => alloc_inSize w fh
theorem Keeps.free (fh : Nat) (p : Option Nat) : Keeps fh (free p) := fun w => free_inSize p w fh
theorem Keeps.read (fh id n : Nat) : Keeps fh (read id n) := fun w => read_inSize id n w fh

theorem seekCur_inSize (id : Nat) (off : Int) (w : World) (fh : Nat) : inSize (seekCur id off w).2 fh = inSize w fh := by
  unfold seekCur
  simp only [tick]
  have hfh : ∀ c, findHandle { w with counts := c } id = findHandle w id := fun _ => rfl
  rw [hfh]
  cases hf : findHandle w id with
  | none => rfl
  | some h =>
    simp only
    split
    · rfl
    · split
      · rfl
      · generalize hc : w.counts.bump Kind.seek = c
        have hf' : findHandle { w with counts := c } id = some h := hf
        refine inSize_setHandle { w with counts := c } id h ?_ hf' ?_ ?_ ?_ fh <;> rfl

theorem Keeps.seekCur (fh id : Nat) (off : Int) : Keeps fh (seekCur id off) := fun w => seekCur_inSize id off w fh

end MsPack.Sys

namespace MsPack.Kwaj.Api
open MsPack MsPack.Sys MsPack.Generated MsPack.Kwaj

theorem readOptLength_keepsSize (f fh headers : Nat) : Keeps f (readOptLength fh headers) := by
  unfold readOptLength
  split
  · apply Keeps.bind (Keeps.read _ _ _)
    intro r
    match r with
    | none => exact Keeps.pure _ _
    | some b => simp only; split <;> exact Keeps.pure _ _
  · exact Keeps.pure _ _

theorem skipUnknown1_keepsSize (f fh headers : Nat) : Keeps f (skipUnknown1 fh headers) := by
  unfold skipUnknown1
  split
  · apply Keeps.bind (Keeps.read _ _ _)
    intro r
    match r with
    | none => exact Keeps.pure _ _
    | some b => simp only; split <;> exact Keeps.pure _ _
  · exact Keeps.pure _ _

theorem skipUnknown2_keepsSize (f fh headers : Nat) : Keeps f (skipUnknown2 fh headers) := by
  unfold skipUnknown2
  split
  · apply Keeps.bind (Keeps.read _ _ _)
    intro r
    match r with
    | none => exact Keeps.pure _ _
    | some b =>
      simp only
      split
      · exact Keeps.pure _ _
      · apply Keeps.bind (Keeps.seekCur _ _ _)
        intro r
        split <;> exact Keeps.pure _ _
  · exact Keeps.pure _ _

theorem readNamePart_keepsSize (f fh maxLen : Nat) (st : Array UInt8 × Nat) : Keeps f (readNamePart fh maxLen st) := by
  unfold readNamePart
  apply Keeps.bind (Keeps.read _ _ _)
  intro r
  match r with
  | none => exact Keeps.pure _ _
  | some buf =>
    simp only
    split
    · exact Keeps.pure _ _
    · split
      · exact Keeps.pure _ _
      · apply Keeps.bind (Keeps.seekCur _ _ _)
        intro r
        split <;> exact Keeps.pure _ _

theorem namePartIf_keepsSize (f : Nat) (present : Bool) (fh maxLen : Nat) (st : Array UInt8 × Nat) :
    Keeps f (namePartIf present fh maxLen st) := by
  unfold namePartIf
  split
  · exact readNamePart_keepsSize _ _ _ _
  · exact Keeps.pure _ _

theorem nameFields_keepsSize (f fh headers : Nat) : Keeps f (nameFields fh headers) := by
  unfold nameFields
  apply Keeps.bind (namePartIf_keepsSize _ _ _ _ _)
  intro r1
  split
  · exact Keeps.pure _ _
  · apply Keeps.bind (namePartIf_keepsSize _ _ _ _ _)
    intro r2
    split <;> exact Keeps.pure _ _

theorem readNames_keepsSize (f fh headers : Nat) : Keeps f (readNames fh headers) := by
  unfold readNames
  split
  · apply Keeps.bind (Keeps.alloc _)
    intro r
    match r with
    | none => exact Keeps.pure _ _
    | some a =>
      simp only
      exact Keeps.bind (nameFields_keepsSize _ _ _) fun _ => Keeps.pure _ _
  · exact Keeps.pure _ _

theorem readExtra_keepsSize (f fh headers : Nat) : Keeps f (readExtra fh headers) := by
  unfold readExtra
  split
  · apply Keeps.bind (Keeps.read _ _ _)
    intro r
    match r with
    | none => exact Keeps.pure _ _
    | some b =>
      simp only
      split
      · exact Keeps.pure _ _
      · apply Keeps.bind (Keeps.alloc _)
        intro r
        match r with
        | none => exact Keeps.pure _ _
        | some a =>
          simp only
          apply Keeps.bind (Keeps.read _ _ _)
          intro r
          match r with
          | none => exact Keeps.pure _ _
          | some t => simp only; split <;> exact Keeps.pure _ _
  · exact Keeps.pure _ _

theorem readOptional_keepsSize (f fh compType dataOffset headers : Nat) :
    Keeps f (readOptional fh compType dataOffset headers) := by
  unfold readOptional
  simp only
  apply Keeps.bind (readOptLength_keepsSize _ _ _)
  intro r1
  split
  · exact Keeps.pure _ _
  · apply Keeps.bind (skipUnknown1_keepsSize _ _ _)
    intro e2
    split
    · exact Keeps.pure _ _
    · apply Keeps.bind (skipUnknown2_keepsSize _ _ _)
      intro e3
      split
      · exact Keeps.pure _ _
      · apply Keeps.bind (readNames_keepsSize _ _ _)
        intro r4
        split
        · exact Keeps.pure _ _
        · exact Keeps.bind (readExtra_keepsSize _ _ _) fun _ => Keeps.pure _ _

theorem readHeaders_keepsSize (f fh : Nat) : Keeps f (readHeaders fh) := by
  unfold readHeaders
  apply Keeps.bind (Keeps.read _ _ _)
  intro r
  match r with
  | none => exact Keeps.pure _ _
  | some buf =>
    simp only
    split
    · exact Keeps.pure _ _
    · split
      · exact Keeps.pure _ _
      · exact readOptional_keepsSize _ _ _ _ _

/-- `kwajd_open`: the header's handle reads the file found under `name` -/
theorem open_inSize (i : Inst) (name : String) (w : World) :
    match (open_ i name w).1.2 with
    | some h => inSize (open_ i name w).2 h.fh ≤ ((w.files.lookup name).getD []).length
    | none => True := by
  unfold open_
  simp only [bind_apply]
  have h1 := openRead_inSize name w
  generalize Sys.open_ name .read w = p1 at h1
  obtain ⟨r1, w1⟩ := p1
  match r1 with
  | none => simp only [pure_apply]
  | some fh =>
    simp only [bind_apply] at h1 ⊢
    have h2 := alloc_inSize w1 fh
    generalize alloc w1 = p2 at h2
    obtain ⟨r2, w2⟩ := p2
    match r2 with
    | none => simp only [bind_apply, pure_apply]
    | some mem =>
      simp only [bind_apply] at h2 ⊢
      have h3 := readHeaders_keepsSize fh fh w2
      generalize readHeaders fh w2 = p3 at h3
      obtain ⟨r3, w3⟩ := p3
      simp only at h3 ⊢
      by_cases hr : r3.1 ≠ .ok
      · rw [if_pos hr]
        simp only [bind_apply, pure_apply]
      · rw [if_neg hr]
        simp only [pure_apply]
        omega

/-- `kwajd_decompress` returns when it has more fuel than the input file has bytes -/
theorem decompress_no_hang (d : Decoders) (i : Inst) (input output : String) (fuel : Nat) (w : World)
    (hf : ((w.files.lookup input).getD []).length + 1 ≤ fuel) : (decompress d i input output fuel w).1 ≠ none := by
  unfold decompress
  simp only [bind_apply]
  have h1 := open_inSize i input w
  generalize open_ i input w = p1 at h1
  obtain ⟨⟨i1, h?⟩, w1⟩ := p1
  match h? with
  | none => simp [pure_apply]
  | some h =>
    simp only [bind_apply] at h1 ⊢
    have h2 := extract_no_hang d i1 h output fuel w1 (by omega)
    generalize extract d i1 h output fuel w1 = p2 at h2
    obtain ⟨r2, w2⟩ := p2
    match r2 with
    | none => exact absurd rfl h2
    | some (i2, e) => simp [bind_apply, pure_apply]

end MsPack.Kwaj.Api
