import MsPack.Lzx.Decoder
import Proofs.Lemmas.LzxFrame
import Proofs.Lemmas.FillSim
/-!
# LZX: two runs from states that differ only in never-read cells stay in step

`Sim μ a b`: every field equal except
* `pretreeLen`, `alignedLen` (same sizes; same contents below `μ.pk` / `μ.ak`: their first 20 / 8
  entries are written before each use),
* `maintreeLen`, `lengthLen` (same sizes, same contents below `MAXSYMBOLS`, which is all that
  `lzxd_reset_state` clears, `lzxd_read_lens` reads and `make_decode_table` looks at; the 64 spare
  entries above keep the allocator's fill),
* `e8Buf` (same size; same contents below `oEnd` while the pending output lives there),
* `blockLength` (equal once a block header has been read: `blockType = 3 →`; `μ.w = true` suspends
  the clause between the two assignments in the header),
* `lengthEmpty` (equal in verbatim/aligned blocks: `blockType ∈ {1,2} →`; while a header is being
  read, `μ.hm = some bt`, the clause is replaced by `blockType = bt`).
The window is equal in both runs (zero-filled by `lzxd_init`, then reference data and output).
Join points of the `do` blocks are handled with `extract_lets`: one lemma per continuation; the
block header is cut into `rbh*` pieces (`readBlockHeader_eq` is `rfl`), the frame into the `fb*`
pieces of `LzxFrame.lean`.
-/
set_option linter.unusedSimpArgs false
set_option linter.unusedVariables false
set_option linter.unusedSectionVars false
namespace MsPack.Lzx.Fill
open MsPack MsPack.Generated MsPack.FillSim MsPack.Lzx
variable {σ : Type}

/-- which conditional clauses of `Sim` are in force -/
structure Mode where
  /-- `true`: the `blockLength` clause is suspended (between the two assignments of the block header) -/
  w  : Bool
  /-- `some bt`: a block header is being read, `blockType = bt`; the `lengthEmpty` clause is suspended -/
  hm : Option Nat
  /-- `pretreeLen` agrees below `pk`, `alignedLen` below `ak` -/
  pk : Nat
  ak : Nat

/-- between blocks -/
def Mode.normal : Mode := ⟨false, none, 0, 0⟩
def Mode.weak (bt : Nat) : Mode := ⟨true, some bt, 0, 0⟩

structure Sim (μ : Mode) (a b : St σ) : Prop where
  eq : b = { a with blockLength := b.blockLength, lengthEmpty := b.lengthEmpty, pretreeLen := b.pretreeLen,
                    maintreeLen := b.maintreeLen, lengthLen := b.lengthLen, alignedLen := b.alignedLen,
                    e8Buf := b.e8Buf }
  pre : Agree μ.pk a.pretreeLen b.pretreeLen
  ali : Agree μ.ak a.alignedLen b.alignedLen
  main : Agree lzxMAINTREE_MAXSYMBOLS a.maintreeLen b.maintreeLen
  len : Agree lzxLENGTH_MAXSYMBOLS a.lengthLen b.lengthLen
  nOff : lzxNUM_CHARS + a.numOffsets ≤ lzxMAINTREE_MAXSYMBOLS
  e8sz : b.e8Buf.size = a.e8Buf.size
  e8 : a.oInE8 = true → Agree a.oEnd a.e8Buf b.e8Buf
  bl : μ.w = false → a.blockType = 3 → b.blockLength = a.blockLength
  le : match μ.hm with
       | none => (a.blockType = 1 ∨ a.blockType = 2) → b.lengthEmpty = a.lengthEmpty
       | some bt => a.blockType = bt

theorem Sim.split {μ} {a b : St σ} (h : Sim μ a b) :
    ∃ bl0 le0 p0 m0 l0 al0 eb0, b =
      { a with blockLength := bl0, lengthEmpty := le0, pretreeLen := p0,
               maintreeLen := m0, lengthLen := l0, alignedLen := al0, e8Buf := eb0 } :=
  ⟨_, _, _, _, _, _, _, h.eq⟩

theorem Sim.weaken {μ} {a b : St σ} (h : Sim μ a b) : Sim (Mode.weak a.blockType) a b :=
  ⟨h.eq, h.pre.mono (Nat.zero_le _), h.ali.mono (Nat.zero_le _), h.main, h.len, h.nOff, h.e8sz, h.e8,
    fun h => by contradiction, rfl⟩

/-- exceptions: the same one; after a status return (`.sys`) the sticky `error` is set -/
def EE : Halt → Halt → St σ → St σ → Prop := fun e1 e2 t1 t2 =>
  e1 = e2 ∧ match e1 with
    | .sys e => (∃ bt, Sim (Mode.weak bt) t1 t2) ∧ t1.error = e ∧ e ≠ .ok
    | .fault _ => True

abbrev QS (μ : Mode) {α : Type} : α → α → St σ → St σ → Prop := EqR (Sim μ)

macro "wsimp" : tactic =>
  `(tactic| try simp only [wp2_get_bind, wp2_set_bind, wp2_modify_bind, wp2_modifyGet_bind, wp2_pure_bind,
      wp2_throw_bind, wp2_pure, wp2_throw, wp2_get, wp2_set, wp2_modify, wp2_modifyGet, bind_assoc, pure_bind])

/-- `Sim` of two states got from related ones by the same update of fields the relation does not
    mention -/
macro "sim_same" h:ident : tactic =>
  `(tactic| exact ⟨rfl, ($h).pre, ($h).ali, ($h).main, ($h).len, ($h).nOff, ($h).e8sz, ($h).e8, ($h).bl, ($h).le⟩)

/-! ## pure helpers -/

theorem zero_agree {n : Nat} : ∀ (l : List Nat) (a b : Array UInt8), Agree n a b →
    Agree n (l.foldl (fun a i => a.setIfInBounds i 0) a) (l.foldl (fun a i => a.setIfInBounds i 0) b)
  | [], a, b, h => h
  | i :: l, a, b, h => by
    rw [List.foldl_cons, List.foldl_cons]
    exact zero_agree l _ _ (h.setIfInBounds i 0)

theorem lensOf_agree {m n : Nat} {a b : Array UInt8} (h : Agree m a b) (hn : n ≤ m) : lensOf a n = lensOf b n := by
  unfold lensOf
  rw [h.extract_eq hn]

theorem copyAcross_agree (src : Array UInt8) (start : Nat) : ∀ (n k : Nat) (a b : Array UInt8), Agree k a b →
    RelX (Agree (k + n)) (copyAcross src start n k a) (copyAcross src start n k b)
  | 0, k, a, b, h => by simp only [copyAcross, relX_ok]; exact h
  | n + 1, k, a, b, h => by
    rw [copyAcross, copyAcross]
    cases hv : src[start + k]? with
    | none => simp
    | some v =>
      simp only [h.size]
      by_cases hk : k < b.size
      · have hk' : k < a.size := by rw [h.size]; exact hk
        simp only [dif_pos hk]
        have := copyAcross_agree src start n (k + 1) (a.set k v hk') (b.set k v hk) (h.set_extend v hk' hk)
        rw [Nat.add_assoc, Nat.add_comm 1 n] at this
        exact this
      · simp only [dif_neg hk, relX_error]

theorem e8Loop_agree {n : Nat} (dataend : Nat) (filesize : Int) (hd : dataend + 10 ≤ n) :
    ∀ (fuel p : Nat) (curpos : Int) (a b : Array UInt8), Agree n a b →
    RelX (Agree n) (e8Loop dataend filesize fuel p curpos a) (e8Loop dataend filesize fuel p curpos b)
  | 0, p, curpos, a, b, h => by
    rw [e8Loop, e8Loop]
    by_cases hp : p < dataend
    · simp only [if_pos hp, relX_error]
    · simp only [if_neg hp, relX_ok]; exact h
  | fuel + 1, p, curpos, a, b, h => by
    rw [e8Loop, e8Loop]
    by_cases hp : p < dataend
    · simp only [if_pos hp]
      rw [← h.get? (i := p) (by omega)]
      cases hv : a[p]? with
      | none => simp
      | some v =>
        simp only
        by_cases hv8 : v ≠ 0xE8
        · simp only [if_pos hv8]
          exact e8Loop_agree dataend filesize hd fuel _ _ a b h
        · simp only [if_neg hv8, h.size]
          by_cases h3 : p + 1 + 3 < b.size
          · have h3' : p + 1 + 3 < a.size := by rw [h.size]; exact h3
            simp only [dif_pos h3]
            have g0 : a[p + 1]'(by omega) = b[p + 1]'(by omega) := h.get (by omega) _ _
            have g1 : a[p + 1 + 1]'(by omega) = b[p + 1 + 1]'(by omega) := h.get (by omega) _ _
            have g2 : a[p + 1 + 2]'(by omega) = b[p + 1 + 2]'(by omega) := h.get (by omega) _ _
            have g3 : a[p + 1 + 3]'(by omega) = b[p + 1 + 3]'(by omega) := h.get (by omega) _ _
            simp only [g0, g1, g2, g3]
            apply e8Loop_agree dataend filesize hd fuel
            split
            · exact (((h.set _ _ _ _).set _ _ _ _).set _ _ _ _).set _ _ _ _
            · exact h
          · simp only [dif_neg h3, relX_error]
    · simp only [if_neg hp, relX_ok]
      exact h

/-! ## the bit reader -/
section
variable (S : Src σ)

theorem fail_sim {α β : Type} (e : Err) (he : e ≠ .ok) {μ} {s1 s2 : St σ} (h : Sim μ s1 s2)
    (Q : α → β → St σ → St σ → Prop) : wp2 (fail e : LM σ α) (fail e : LM σ β) Q EE s1 s2 := by
  obtain ⟨bl0, le0, p0, m0, l0, al0, eb0, rfl⟩ := h.split
  have hw := h.weaken
  unfold fail
  wsimp
  exact ⟨rfl, ⟨s1.blockType, by sim_same hw⟩, rfl, he⟩

theorem readInput_sim {μ} {s1 s2 : St σ} (h : Sim μ s1 s2) :
    wp2 (readInput S) (readInput S) (QS μ) EE s1 s2 := by
  obtain ⟨bl0, le0, p0, m0, l0, al0, eb0, rfl⟩ := h.split
  have hw := h.weaken
  unfold readInput
  wsimp
  split
  · wsimp; exact ⟨rfl, trivial⟩
  · split
    · wsimp
      exact ⟨rfl, ⟨s1.blockType, by sim_same hw⟩, rfl, by decide⟩
    · split
      · wsimp
        exact ⟨rfl, ⟨s1.blockType, by sim_same hw⟩, rfl, by decide⟩
      · wsimp
        exact ⟨rfl, by sim_same h⟩
    · wsimp
      exact ⟨rfl, by sim_same h⟩

theorem nextByte_sim {μ} {s1 s2 : St σ} (h : Sim μ s1 s2) :
    wp2 (nextByte S) (nextByte S) (QS μ) EE s1 s2 := by
  have tail : ∀ {t1 t2 : St σ}, Sim μ t1 t2 →
      wp2 (do let st ← get
              match st.inbuf with
              | b :: rest => set { st with inbuf := rest }; pure b
              | [] => throw (.fault (.oob "inbuf")) : LM σ UInt8)
          (do let st ← get
              match st.inbuf with
              | b :: rest => set { st with inbuf := rest }; pure b
              | [] => throw (.fault (.oob "inbuf")) : LM σ UInt8) (QS μ) EE t1 t2 := by
    intro t1 t2 ht
    obtain ⟨bl0, le0, p0, m0, l0, al0, eb0, rfl⟩ := ht.split
    wsimp
    split
    · wsimp; exact ⟨rfl, by sim_same ht⟩
    · wsimp; exact ⟨rfl, trivial⟩
  unfold nextByte
  obtain ⟨bl0, le0, p0, m0, l0, al0, eb0, rfl⟩ := h.split
  rw [wp2_get_bind]
  simp only []
  split
  · apply wp2_bind_eq (readInput_sim S h)
    intro _ t1 t2 ht
    exact tail ht
  · exact tail h

theorem ensureBits_sim (n : Nat) {μ} : ∀ (fuel : Nat) {s1 s2 : St σ}, Sim μ s1 s2 →
    wp2 (ensureBits S n fuel) (ensureBits S n fuel) (QS μ) EE s1 s2
  | 0, s1, s2, h => by
    rw [ensureBits]
    obtain ⟨bl0, le0, p0, m0, l0, al0, eb0, rfl⟩ := h.split
    wsimp
    split
    · wsimp; exact ⟨rfl, trivial⟩
    · wsimp; exact ⟨rfl, h⟩
  | fuel + 1, s1, s2, h => by
    rw [ensureBits]
    obtain ⟨bl0, le0, p0, m0, l0, al0, eb0, rfl⟩ := h.split
    wsimp
    split
    · apply wp2_bind_eq (nextByte_sim S h)
      intro b0 t1 t2 ht
      apply wp2_bind_eq (nextByte_sim S ht)
      intro b1 u1 u2 hu
      obtain ⟨bl1, le1, p1, m1, l1, al1, eb1, rfl⟩ := hu.split
      wsimp
      exact ensureBits_sim n fuel (by sim_same hu)
    · wsimp; exact ⟨rfl, h⟩

theorem removeBits_sim (n : Nat) {μ} {s1 s2 : St σ} (h : Sim μ s1 s2) :
    wp2 (removeBits n : LM σ Unit) (removeBits n) (QS μ) EE s1 s2 := by
  obtain ⟨bl0, le0, p0, m0, l0, al0, eb0, rfl⟩ := h.split
  unfold removeBits
  wsimp
  exact ⟨rfl, by sim_same h⟩

theorem peekBits_sim (n : Nat) {μ} {s1 s2 : St σ} (h : Sim μ s1 s2) :
    wp2 (peekBits n : LM σ Nat) (peekBits n) (QS μ) EE s1 s2 := by
  obtain ⟨bl0, le0, p0, m0, l0, al0, eb0, rfl⟩ := h.split
  unfold peekBits
  wsimp
  exact ⟨rfl, h⟩

theorem readBits_sim (n : Nat) {μ} {s1 s2 : St σ} (h : Sim μ s1 s2) :
    wp2 (readBits S n) (readBits S n) (QS μ) EE s1 s2 := by
  unfold readBits
  apply wp2_bind_eq (ensureBits_sim S n 3 h)
  intro _ t1 t2 ht
  apply wp2_bind_eq (peekBits_sim n ht)
  intro v u1 u2 hu
  apply wp2_bind_eq (removeBits_sim n hu)
  intro _ v1 v2 hv
  wsimp
  exact ⟨rfl, hv⟩

theorem readHuffSym_sim (tbl : Option Huff.Canon) (name : String) {μ} {s1 s2 : St σ} (h : Sim μ s1 s2) :
    wp2 (readHuffSym S tbl name) (readHuffSym S tbl name) (QS μ) EE s1 s2 := by
  unfold readHuffSym
  apply wp2_bind_eq (ensureBits_sim S 16 3 h)
  intro _ t1 t2 ht
  split
  · wsimp; exact ⟨rfl, trivial⟩
  · obtain ⟨bl0, le0, p0, m0, l0, al0, eb0, rfl⟩ := ht.split
    wsimp
    split
    · apply wp2_bind_eq (removeBits_sim _ ht)
      intro _ v1 v2 hv
      wsimp
      exact ⟨rfl, hv⟩
    · exact fail_sim _ (by decide) ht _

theorem readRaw_sim {μ} : ∀ (k : Nat) (acc : Bytes) {s1 s2 : St σ}, Sim μ s1 s2 →
    wp2 (readRaw S k acc) (readRaw S k acc) (QS μ) EE s1 s2
  | 0, acc, s1, s2, h => by rw [readRaw]; wsimp; exact ⟨rfl, h⟩
  | k + 1, acc, s1, s2, h => by
    rw [readRaw]
    apply wp2_bind_eq (nextByte_sim S h)
    intro b t1 t2 ht
    exact readRaw_sim k _ ht

theorem readExtraLen_sim {μ} {s1 s2 : St σ} (h : Sim μ s1 s2) :
    wp2 (readExtraLen S) (readExtraLen S) (QS μ) EE s1 s2 := by
  unfold readExtraLen
  apply wp2_bind_eq (ensureBits_sim S 3 3 h)
  intro _ t1 t2 ht
  apply wp2_bind_eq (peekBits_sim 1 ht)
  intro v1 a1 a2 ha
  split
  · apply wp2_bind_eq (removeBits_sim 1 ha)
    intro _ b1 b2 hb
    exact readBits_sim S 8 hb
  · apply wp2_bind_eq (peekBits_sim 2 ha)
    intro v2 b1 b2 hb
    split
    · apply wp2_bind_eq (removeBits_sim 2 hb)
      intro _ c1 c2 hc
      apply wp2_bind_eq (readBits_sim S 10 hc)
      intro x d1 d2 hd
      wsimp; exact ⟨rfl, hd⟩
    · apply wp2_bind_eq (peekBits_sim 3 hb)
      intro v3 c1 c2 hc
      split
      · apply wp2_bind_eq (removeBits_sim 3 hc)
        intro _ d1 d2 hd
        apply wp2_bind_eq (readBits_sim S 12 hd)
        intro x e1 e2 he
        wsimp; exact ⟨rfl, he⟩
      · apply wp2_bind_eq (removeBits_sim 3 hc)
        intro _ d1 d2 hd
        exact readBits_sim S 15 hd

end

/-! ## the length arrays -/
section
variable (S : Src σ)

/-- the part of a length array that `lzxd_reset_state` clears -/
def bound : Tree → Nat
  | .main => lzxMAINTREE_MAXSYMBOLS
  | .length => lzxLENGTH_MAXSYMBOLS

theorem getLen_sim (t : Tree) (x : Nat) (hx : x < bound t) {μ} {s1 s2 : St σ} (h : Sim μ s1 s2) :
    wp2 (getLen t x : LM σ Nat) (getLen t x) (QS μ) EE s1 s2 := by
  obtain ⟨bl0, le0, p0, m0, l0, al0, eb0, rfl⟩ := h.split
  unfold getLen
  wsimp
  cases t
  · have := h.main.get? hx
    simp only at this
    simp only [← this]
    split
    · wsimp; exact ⟨rfl, h⟩
    · wsimp; exact ⟨rfl, trivial⟩
  · have := h.len.get? hx
    simp only at this
    simp only [← this]
    split
    · wsimp; exact ⟨rfl, h⟩
    · wsimp; exact ⟨rfl, trivial⟩

theorem setLen_sim (t : Tree) (x : Nat) (v : UInt8) {μ} {s1 s2 : St σ} (h : Sim μ s1 s2) :
    wp2 (setLen t x v : LM σ Unit) (setLen t x v) (QS μ) EE s1 s2 := by
  obtain ⟨bl0, le0, p0, m0, l0, al0, eb0, rfl⟩ := h.split
  unfold setLen
  wsimp
  cases t
  · have hsz := h.main.size
    simp only at hsz
    simp only [← hsz]
    apply wp2_dite
    · intro hc
      wsimp
      exact ⟨rfl, rfl, h.pre, h.ali, h.main.set x v hc (by rw [← hsz]; exact hc), h.len, h.nOff, h.e8sz, h.e8, h.bl, h.le⟩
    · intro hc
      wsimp; exact ⟨rfl, trivial⟩
  · have hsz := h.len.size
    simp only at hsz
    simp only [← hsz]
    apply wp2_dite
    · intro hc
      wsimp
      exact ⟨rfl, rfl, h.pre, h.ali, h.main, h.len.set x v hc (by rw [← hsz]; exact hc), h.nOff, h.e8sz, h.e8, h.bl, h.le⟩
    · intro hc
      wsimp; exact ⟨rfl, trivial⟩

theorem fillLens_sim (t : Tree) (v : UInt8) {μ} : ∀ (y x : Nat) {s1 s2 : St σ}, Sim μ s1 s2 →
    wp2 (fillLens t v y x : LM σ Unit) (fillLens t v y x) (QS μ) EE s1 s2
  | 0, x, s1, s2, h => by rw [fillLens]; wsimp; exact ⟨rfl, h⟩
  | y + 1, x, s1, s2, h => by
    rw [fillLens]
    apply wp2_bind_eq (setLen_sim t x v h)
    intro _ t1 t2 ht
    exact fillLens_sim t v y (x + 1) ht

theorem readLensLoop_sim (t : Tree) (pre : Huff.Canon) (last : Nat) (hl : last ≤ bound t) {μ} :
    ∀ (fuel x : Nat) {s1 s2 : St σ}, Sim μ s1 s2 →
    wp2 (readLensLoop S t pre last fuel x) (readLensLoop S t pre last fuel x) (QS μ) EE s1 s2
  | 0, x, s1, s2, h => by rw [readLensLoop]; wsimp; exact ⟨rfl, trivial⟩
  | fuel + 1, x, s1, s2, h => by
    rw [readLensLoop]
    split
    · rename_i hx
      apply wp2_bind_eq (readHuffSym_sim S _ _ h)
      intro z t1 t2 ht
      split
      · apply wp2_bind_eq (readBits_sim S 4 ht)
        intro y u1 u2 hu
        apply wp2_bind_eq (fillLens_sim t 0 _ x hu)
        intro _ v1 v2 hv
        exact readLensLoop_sim t pre last hl fuel _ hv
      · split
        · apply wp2_bind_eq (readBits_sim S 5 ht)
          intro y u1 u2 hu
          apply wp2_bind_eq (fillLens_sim t 0 _ x hu)
          intro _ v1 v2 hv
          exact readLensLoop_sim t pre last hl fuel _ hv
        · split
          · apply wp2_bind_eq (readBits_sim S 1 ht)
            intro y u1 u2 hu
            apply wp2_bind_eq (readHuffSym_sim S _ _ hu)
            intro z' a1 a2 ha
            apply wp2_bind_eq (getLen_sim t x (by omega) ha)
            intro old b1 b2 hb
            apply wp2_bind_eq (fillLens_sim t _ _ x hb)
            intro _ v1 v2 hv
            exact readLensLoop_sim t pre last hl fuel _ hv
          · apply wp2_bind_eq (getLen_sim t x (by omega) ht)
            intro old b1 b2 hb
            apply wp2_bind_eq (setLen_sim t x _ hb)
            intro _ v1 v2 hv
            exact readLensLoop_sim t pre last hl fuel _ hv
    · wsimp; exact ⟨rfl, h⟩

theorem readPretreeLens_sim {w hm ak} : ∀ (k x : Nat) {s1 s2 : St σ}, Sim ⟨w, hm, x, ak⟩ s1 s2 →
    wp2 (readPretreeLens S k x) (readPretreeLens S k x) (QS ⟨w, hm, x + k, ak⟩) EE s1 s2
  | 0, x, s1, s2, h => by rw [readPretreeLens]; wsimp; exact ⟨rfl, h⟩
  | k + 1, x, s1, s2, h => by
    rw [readPretreeLens]
    apply wp2_bind_eq (readBits_sim S 4 h)
    intro y t1 t2 ht
    obtain ⟨bl0, le0, p0, m0, l0, al0, eb0, rfl⟩ := ht.split
    wsimp
    have hsz := ht.pre.size
    simp only at hsz
    simp only [← hsz]
    apply wp2_dite
    · intro hc
      wsimp
      have := readPretreeLens_sim (w := w) (hm := hm) (ak := ak) k (x + 1)
        (s1 := { t1 with pretreeLen := t1.pretreeLen.set x (UInt8.ofNat y) hc })
        (s2 := { t1 with
                  blockLength := bl0, lengthEmpty := le0, pretreeLen := p0.set x (UInt8.ofNat y) (by omega),
                  maintreeLen := m0, lengthLen := l0, alignedLen := al0, e8Buf := eb0 })
        ⟨rfl, ht.pre.set_extend _ hc (by show x < p0.size; omega), ht.ali, ht.main, ht.len, ht.nOff, ht.e8sz, ht.e8, ht.bl, ht.le⟩
      rw [Nat.add_assoc, Nat.add_comm 1 k] at this
      exact this
    · intro hc
      wsimp; exact ⟨rfl, trivial⟩

theorem readAlignedLens_sim {w hm pk} : ∀ (k x : Nat) {s1 s2 : St σ}, Sim ⟨w, hm, pk, x⟩ s1 s2 →
    wp2 (readAlignedLens S k x) (readAlignedLens S k x) (QS ⟨w, hm, pk, x + k⟩) EE s1 s2
  | 0, x, s1, s2, h => by rw [readAlignedLens]; wsimp; exact ⟨rfl, h⟩
  | k + 1, x, s1, s2, h => by
    rw [readAlignedLens]
    apply wp2_bind_eq (readBits_sim S 3 h)
    intro y t1 t2 ht
    obtain ⟨bl0, le0, p0, m0, l0, al0, eb0, rfl⟩ := ht.split
    wsimp
    have hsz := ht.ali.size
    simp only at hsz
    simp only [← hsz]
    apply wp2_dite
    · intro hc
      wsimp
      have := readAlignedLens_sim (w := w) (hm := hm) (pk := pk) k (x + 1)
        (s1 := { t1 with alignedLen := t1.alignedLen.set x (UInt8.ofNat y) hc })
        (s2 := { t1 with
                  blockLength := bl0, lengthEmpty := le0, pretreeLen := p0,
                  maintreeLen := m0, lengthLen := l0, alignedLen := al0.set x (UInt8.ofNat y) (by omega), e8Buf := eb0 })
        ⟨rfl, ht.pre, ht.ali.set_extend _ hc (by show x < al0.size; omega), ht.main, ht.len, ht.nOff, ht.e8sz, ht.e8, ht.bl, ht.le⟩
      rw [Nat.add_assoc, Nat.add_comm 1 k] at this
      exact this
    · intro hc
      wsimp; exact ⟨rfl, trivial⟩

theorem Sim.setPk {w hm pk ak pk'} {a b : St σ} (h : Sim ⟨w, hm, pk, ak⟩ a b) (hp : pk' ≤ pk) :
    Sim ⟨w, hm, pk', ak⟩ a b :=
  ⟨h.eq, h.pre.mono hp, h.ali, h.main, h.len, h.nOff, h.e8sz, h.e8, h.bl, h.le⟩

theorem Sim.setAk {w hm pk ak ak'} {a b : St σ} (h : Sim ⟨w, hm, pk, ak⟩ a b) (hp : ak' ≤ ak) :
    Sim ⟨w, hm, pk, ak'⟩ a b :=
  ⟨h.eq, h.pre, h.ali.mono hp, h.main, h.len, h.nOff, h.e8sz, h.e8, h.bl, h.le⟩

/-- `READ_LENGTHS`: the pretree lengths are written (20 of them) before they are looked at -/
theorem readLengths_sim (fuel : Nat) (t : Tree) (first last : Nat) (hl : last ≤ bound t) {w hm pk ak}
    {s1 s2 : St σ} (h : Sim ⟨w, hm, pk, ak⟩ s1 s2) :
    wp2 (readLengths S fuel t first last) (readLengths S fuel t first last) (QS ⟨w, hm, 0, ak⟩) EE s1 s2 := by
  unfold readLengths
  apply wp2_bind_eq (readPretreeLens_sim S lzxPRETREE_MAXSYMBOLS 0 (h.setPk (Nat.zero_le _)))
  intro _ t1 t2 ht
  obtain ⟨bl0, le0, p0, m0, l0, al0, eb0, rfl⟩ := ht.split
  wsimp
  have hp := ht.pre
  simp only [Nat.zero_add] at hp
  rw [← lensOf_agree hp (Nat.le_refl _)]
  split
  · exact fail_sim _ (by decide) ht _
  · exact readLensLoop_sim S t _ last hl fuel first (ht.setPk (Nat.zero_le _))

end

/-! ## the block header, cut into pieces (`readBlockHeader_eq` is `rfl`) -/
section
variable (S : Src σ)

/-- the LENGTH tree part of a verbatim/aligned block header -/
def rbhLength (fuel : Nat) : LM σ Unit := do
    readLengths S fuel .length 0 lzxNUM_SECONDARY_LENGTHS
    modify fun st => { st with lengthEmpty := false }
    let ll := lensOf (← get).lengthLen lzxLENGTH_MAXSYMBOLS
    match Huff.build lzxLENGTH_TABLEBITS ll with
    | some c => modify fun st => { st with lengthTbl := some c }
    | none =>
      modify fun st => { st with lengthTbl := none }
      if ll.any (· > 0) then fail .decrunch
      modify fun st => { st with lengthEmpty := true }

/-- the MAINTREE part and what follows -/
def rbhMain (fuel : Nat) : LM σ Unit := do
    readLengths S fuel .main 0 256
    readLengths S fuel .main 256 (lzxNUM_CHARS + (← get).numOffsets)
    match Huff.build lzxMAINTREE_TABLEBITS (lensOf (← get).maintreeLen lzxMAINTREE_MAXSYMBOLS) with
    | none => modify (fun st => { st with maintreeTbl := none }); fail .decrunch
    | some c => modify fun st => { st with maintreeTbl := some c }
    if (← getLen .main 0xE8) ≠ 0 then modify fun st => { st with intelStarted := true }
    rbhLength S fuel

def rbhTrees (fuel bt : Nat) : LM σ Unit := do
    if bt = 2 then
      readAlignedLens S lzxALIGNED_MAXSYMBOLS 0
      match Huff.build lzxALIGNED_TABLEBITS (lensOf (← get).alignedLen lzxALIGNED_MAXSYMBOLS) with
      | none => modify (fun st => { st with alignedTbl := none }); fail .decrunch
      | some c => modify fun st => { st with alignedTbl := some c }
    rbhMain S fuel

def rbhRaw : LM σ Unit := do
    modify fun st => { st with intelStarted := true }
    if (← get).bits.isEmpty then ensureBits S 16 3
    modify fun st => { st with bits := [] }
    let buf ← readRaw S 12 []
    match buf with
    | [a0, a1, a2, a3, b0, b1, b2, b3, c0, c1, c2, c3] =>
      modify fun st => { st with r0 := le32 a0 a1 a2 a3, r1 := le32 b0 b1 b2 b3, r2 := le32 c0 c1 c2 c3 }
    | _ => throw (.fault (.oob "buf"))

def rbhRest (fuel : Nat) : LM σ Unit := do
  let bt ← readBits S 3
  modify fun st => { st with blockType := bt }
  let i ← readBits S 16
  let j ← readBits S 8
  let len := i * 256 + j
  modify fun st => { st with blockRemaining := len, blockLength := len }
  if bt = 1 ∨ bt = 2 then rbhTrees S fuel bt
  else if bt = 3 then rbhRaw S
  else fail .decrunch

theorem readBlockHeader_eq (fuel : Nat) : readBlockHeader S fuel = (do
    let st ← get
    if st.blockType = 3 ∧ st.blockLength % 2 = 1 then
      let _ ← nextByte S
    rbhRest S fuel) := rfl

theorem rbhLength_sim (fuel : Nat) {bt : Nat} {s1 s2 : St σ} (h : Sim ⟨false, some bt, 0, 0⟩ s1 s2) :
    wp2 (rbhLength S fuel) (rbhLength S fuel) (QS Mode.normal) EE s1 s2 := by
  unfold rbhLength
  apply wp2_bind_eq (readLengths_sim S fuel .length 0 _ (by decide) h)
  intro _ t1 t2 ht
  obtain ⟨bl0, le0, p0, m0, l0, al0, eb0, rfl⟩ := ht.split
  wsimp
  have hl := ht.len
  simp only at hl
  rw [← lensOf_agree hl (Nat.le_refl _)]
  have hn : ∀ (tb : Option Huff.Canon) (le : Bool), Sim Mode.normal
      { t1 with lengthEmpty := le, lengthTbl := tb }
      { t1 with blockLength := bl0, lengthEmpty := le, pretreeLen := p0, maintreeLen := m0, lengthLen := l0,
                alignedLen := al0, e8Buf := eb0, lengthTbl := tb } :=
    fun tb le => ⟨rfl, ht.pre, ht.ali, ht.main, ht.len, ht.nOff, ht.e8sz, ht.e8, ht.bl, fun _ => rfl⟩
  split
  · wsimp
    exact ⟨rfl, hn _ _⟩
  · wsimp
    split
    · apply wp2_bind (fail_sim (α := PUnit) (β := PUnit) _ (by decide) (hn none false) (fun _ _ _ _ => False))
      intro _ _ _ _ hf
      exact hf.elim
    · wsimp
      exact ⟨rfl, hn _ _⟩

theorem rbhMain_sim (fuel : Nat) {bt : Nat} {s1 s2 : St σ} (h : Sim ⟨false, some bt, 0, 0⟩ s1 s2) :
    wp2 (rbhMain S fuel) (rbhMain S fuel) (QS Mode.normal) EE s1 s2 := by
  unfold rbhMain
  apply wp2_bind_eq (readLengths_sim S fuel .main 0 256 (by decide) h)
  intro _ t1 t2 ht
  obtain ⟨bl0, le0, p0, m0, l0, al0, eb0, rfl⟩ := ht.split
  wsimp
  apply wp2_bind_eq (readLengths_sim S fuel .main 256 _ ht.nOff ht)
  intro _ u1 u2 hu
  obtain ⟨bl1, le1, p1, m1, l1, al1, eb1, rfl⟩ := hu.split
  wsimp
  have hm := hu.main
  simp only at hm
  rw [← lensOf_agree hm (Nat.le_refl _)]
  have tail : ∀ {v1 v2 : St σ}, Sim ⟨false, some bt, 0, 0⟩ v1 v2 →
      wp2 (do if (← getLen .main 0xE8) ≠ 0 then modify fun st => { st with intelStarted := true }
              rbhLength S fuel : LM σ Unit)
          (do if (← getLen .main 0xE8) ≠ 0 then modify fun st => { st with intelStarted := true }
              rbhLength S fuel : LM σ Unit) (QS Mode.normal) EE v1 v2 := by
    intro v1 v2 hv
    simp only [bind_assoc]
    apply wp2_bind_eq (getLen_sim .main 0xE8 (by decide) hv)
    intro x a1 a2 ha
    obtain ⟨bl2, le2, p2, m2, l2, al2, eb2, rfl⟩ := ha.split
    split
    · wsimp
      exact rbhLength_sim S fuel (by sim_same ha)
    · first | wsimp | skip
      exact rbhLength_sim S fuel ha
  split
  · wsimp
    apply wp2_bind (fail_sim (α := PUnit) (β := PUnit) _ (by decide)
      (s1 := { u1 with maintreeTbl := none }) (by sim_same hu) (fun _ _ _ _ => False))
    intro _ _ _ _ hf
    exact hf.elim
  · wsimp
    exact tail (by sim_same hu)

theorem rbhTrees_sim (fuel : Nat) {bt : Nat} {s1 s2 : St σ} (h : Sim ⟨false, some bt, 0, 0⟩ s1 s2) :
    wp2 (rbhTrees S fuel bt) (rbhTrees S fuel bt) (QS Mode.normal) EE s1 s2 := by
  unfold rbhTrees
  split
  · apply wp2_bind_eq (readAlignedLens_sim S lzxALIGNED_MAXSYMBOLS 0 h)
    intro _ t1 t2 ht
    obtain ⟨bl0, le0, p0, m0, l0, al0, eb0, rfl⟩ := ht.split
    wsimp
    have ha := ht.ali
    simp only [Nat.zero_add] at ha
    rw [← lensOf_agree ha (Nat.le_refl _)]
    have ht' := ht.setAk (Nat.zero_le _)
    split
    · wsimp
      apply wp2_bind (fail_sim (α := PUnit) (β := PUnit) _ (by decide)
        (s1 := { t1 with alignedTbl := none }) (by sim_same ht') (fun _ _ _ _ => False))
      intro _ _ _ _ hf
      exact hf.elim
    · wsimp
      exact rbhMain_sim S fuel (by sim_same ht')
  · wsimp
    exact rbhMain_sim S fuel h

theorem rbhRaw_sim {s1 s2 : St σ} (h : Sim ⟨false, some 3, 0, 0⟩ s1 s2) :
    wp2 (rbhRaw S) (rbhRaw S) (QS Mode.normal) EE s1 s2 := by
  have conv : ∀ {a b : St σ}, Sim ⟨false, some 3, 0, 0⟩ a b → Sim Mode.normal a b := by
    intro a b hab
    refine ⟨hab.eq, hab.pre, hab.ali, hab.main, hab.len, hab.nOff, hab.e8sz, hab.e8, hab.bl, ?_⟩
    have h3 : a.blockType = 3 := hab.le
    show (a.blockType = 1 ∨ a.blockType = 2) → b.lengthEmpty = a.lengthEmpty
    intro h12
    omega
  have tail : ∀ {v1 v2 : St σ}, Sim ⟨false, some 3, 0, 0⟩ v1 v2 →
      wp2 (do modify fun st => { st with bits := [] }
              let buf ← readRaw S 12 []
              match buf with
              | [a0, a1, a2, a3, b0, b1, b2, b3, c0, c1, c2, c3] =>
                modify fun st => { st with r0 := le32 a0 a1 a2 a3, r1 := le32 b0 b1 b2 b3, r2 := le32 c0 c1 c2 c3 }
              | _ => throw (.fault (.oob "buf")) : LM σ Unit)
          (do modify fun st => { st with bits := [] }
              let buf ← readRaw S 12 []
              match buf with
              | [a0, a1, a2, a3, b0, b1, b2, b3, c0, c1, c2, c3] =>
                modify fun st => { st with r0 := le32 a0 a1 a2 a3, r1 := le32 b0 b1 b2 b3, r2 := le32 c0 c1 c2 c3 }
              | _ => throw (.fault (.oob "buf")) : LM σ Unit) (QS Mode.normal) EE v1 v2 := by
    intro v1 v2 hv
    obtain ⟨bl2, le2, p2, m2, l2, al2, eb2, rfl⟩ := hv.split
    rw [wp2_modify_bind]
    apply wp2_bind_eq (readRaw_sim S 12 [] (s1 := { v1 with bits := [] }) (by sim_same hv))
    intro buf a1 a2 ha
    obtain ⟨bl3, le3, p3, m3, l3, al3, eb3, rfl⟩ := ha.split
    split
    · wsimp
      exact ⟨rfl, conv (by sim_same ha)⟩
    · wsimp
      exact ⟨rfl, trivial⟩
  unfold rbhRaw
  obtain ⟨bl0, le0, p0, m0, l0, al0, eb0, rfl⟩ := h.split
  rw [wp2_modify_bind, wp2_get_bind]
  simp only []
  split
  · apply wp2_bind_eq (ensureBits_sim S 16 3 (s1 := { s1 with intelStarted := true }) (by sim_same h))
    intro _ t1 t2 ht
    exact tail ht
  · exact tail (v1 := { s1 with intelStarted := true }) (by sim_same h)

theorem rbhRest_sim (fuel : Nat) {s1 s2 : St σ} (h : Sim Mode.normal s1 s2) :
    wp2 (rbhRest S fuel) (rbhRest S fuel) (QS Mode.normal) EE s1 s2 := by
  unfold rbhRest
  apply wp2_bind_eq (readBits_sim S 3 h)
  intro bt t1 t2 ht
  obtain ⟨bl0, le0, p0, m0, l0, al0, eb0, rfl⟩ := ht.split
  rw [wp2_modify_bind]
  have h1 : Sim ⟨true, some bt, 0, 0⟩ { t1 with blockType := bt }
      { t1 with blockLength := bl0, lengthEmpty := le0, pretreeLen := p0, maintreeLen := m0, lengthLen := l0,
                alignedLen := al0, e8Buf := eb0, blockType := bt } :=
    ⟨rfl, ht.pre, ht.ali, ht.main, ht.len, ht.nOff, ht.e8sz, ht.e8, fun hw => by contradiction, rfl⟩
  apply wp2_bind_eq (readBits_sim S 16 h1)
  intro i u1 u2 hu
  apply wp2_bind_eq (readBits_sim S 8 hu)
  intro j v1 v2 hv
  obtain ⟨bl1, le1, p1, m1, l1, al1, eb1, rfl⟩ := hv.split
  rw [wp2_modify_bind]
  have h2 : Sim ⟨false, some bt, 0, 0⟩ { v1 with blockRemaining := i * 256 + j, blockLength := i * 256 + j }
      { v1 with lengthEmpty := le1, pretreeLen := p1, maintreeLen := m1, lengthLen := l1,
                alignedLen := al1, e8Buf := eb1, blockRemaining := i * 256 + j, blockLength := i * 256 + j } :=
    ⟨rfl, hv.pre, hv.ali, hv.main, hv.len, hv.nOff, hv.e8sz, hv.e8, fun _ _ => rfl, hv.le⟩
  split
  · exact rbhTrees_sim S fuel h2
  · split
    · rename_i hb3
      subst hb3
      exact rbhRaw_sim S h2
    · exact fail_sim _ (by decide) h2 _

theorem readBlockHeader_sim (fuel : Nat) {s1 s2 : St σ} (h : Sim Mode.normal s1 s2) :
    wp2 (readBlockHeader S fuel) (readBlockHeader S fuel) (QS Mode.normal) EE s1 s2 := by
  rw [readBlockHeader_eq]
  obtain ⟨bl0, le0, p0, m0, l0, al0, eb0, rfl⟩ := h.split
  rw [wp2_get_bind]
  simp only []
  by_cases hb3 : s1.blockType = 3
  · have := h.bl rfl hb3
    simp only at this
    subst this
    split
    · apply wp2_bind_eq (nextByte_sim S h)
      intro _ t1 t2 ht
      exact rbhRest_sim S fuel ht
    · exact rbhRest_sim S fuel h
  · simp only [hb3, false_and, if_false]
    exact rbhRest_sim S fuel h

end

/-! ## the window -/
section
variable (S : Src σ)

theorem winCopy_sim (n src dst : Nat) {μ} {s1 s2 : St σ} (h : Sim μ s1 s2) :
    wp2 (winCopy n src dst : LM σ Unit) (winCopy n src dst) (QS μ) EE s1 s2 := by
  obtain ⟨bl0, le0, p0, m0, l0, al0, eb0, rfl⟩ := h.split
  unfold winCopy
  rw [wp2_modifyGet_bind]
  simp only []
  generalize copyFwd n src dst s1.window = r
  cases r with
  | error f => wsimp; exact ⟨rfl, trivial⟩
  | ok w' => wsimp; exact ⟨rfl, by sim_same h⟩

theorem putLiteral_sim (b : UInt8) {μ} {s1 s2 : St σ} (h : Sim μ s1 s2) :
    wp2 (putLiteral b : LM σ Unit) (putLiteral b) (QS μ) EE s1 s2 := by
  obtain ⟨bl0, le0, p0, m0, l0, al0, eb0, rfl⟩ := h.split
  unfold putLiteral
  rw [wp2_modifyGet_bind]
  simp only []
  by_cases hc : s1.windowPosn < s1.window.size
  · simp only [dif_pos hc]
    first | wsimp | skip
    exact ⟨rfl, by sim_same h⟩
  · simp only [dif_neg hc]
    first | wsimp | skip
    exact ⟨rfl, trivial⟩

theorem readOffset_sim (c : RunCtx) (slot : Nat) {μ} {s1 s2 : St σ} (h : Sim μ s1 s2) :
    wp2 (readOffset S c slot) (readOffset S c slot) (QS μ) EE s1 s2 := by
  unfold readOffset
  extract_lets jp1 jp2 jp3
  have k1 : ∀ (mo : Nat) {t1 t2 : St σ}, Sim μ t1 t2 → wp2 (jp1 mo) (jp1 mo) (QS μ) EE t1 t2 := by
    intro mo t1 t2 ht
    obtain ⟨bl0, le0, p0, m0, l0, al0, eb0, rfl⟩ := ht.split
    simp only [jp1]
    wsimp
    exact ⟨rfl, by sim_same ht⟩
  clear_value jp1
  have k2 : ∀ (mo : Nat) {t1 t2 : St σ}, Sim μ t1 t2 → wp2 (jp2 mo) (jp2 mo) (QS μ) EE t1 t2 := by
    intro mo t1 t2 ht
    simp only [jp2]
    apply wp2_bind_eq (readHuffSym_sim S _ _ ht)
    intro ab u1 u2 hu
    wsimp
    exact k1 _ hu
  clear_value jp2
  have k3 : ∀ (extra : Nat) {t1 t2 : St σ}, Sim μ t1 t2 → wp2 (jp3 extra) (jp3 extra) (QS μ) EE t1 t2 := by
    intro extra t1 t2 ht
    simp only [jp3]
    split
    · wsimp
      split
      · split
        · apply wp2_bind_eq (readBits_sim S _ ht)
          intro vb u1 u2 hu
          wsimp
          exact k2 _ hu
        · wsimp
          exact k2 _ ht
      · split
        · apply wp2_bind_eq (readBits_sim S _ ht)
          intro vb u1 u2 hu
          wsimp
          exact k1 _ hu
        · wsimp
          exact k1 _ ht
    · wsimp
      exact ⟨rfl, trivial⟩
  clear_value jp3
  split
  · wsimp
    exact k3 _ h
  · split
    · wsimp
      exact k3 _ h
    · wsimp
      exact ⟨rfl, trivial⟩

theorem fail_bind_sim {α β γ δ : Type} (e : Err) (he : e ≠ .ok) {μ} {s1 s2 : St σ} (h : Sim μ s1 s2)
    (f1 : α → LM σ γ) (f2 : β → LM σ δ) (Q : γ → δ → St σ → St σ → Prop) :
    wp2 (fail e >>= f1) (fail e >>= f2) Q EE s1 s2 := by
  apply wp2_bind (fail_sim (α := α) (β := β) e he h (fun _ _ _ _ => False))
  intro _ _ _ _ hf
  exact hf.elim

theorem copyMatch_sim (c : RunCtx) (mo ml : Nat) {μ} {s1 s2 : St σ} (h : Sim μ s1 s2) :
    wp2 (copyMatch c mo ml : LM σ Unit) (copyMatch c mo ml) (QS μ) EE s1 s2 := by
  unfold copyMatch
  extract_lets jpEnd
  have kEnd : ∀ {t1 t2 : St σ}, Sim μ t1 t2 → wp2 (jpEnd ()) (jpEnd ()) (QS μ) EE t1 t2 := by
    intro t1 t2 ht
    obtain ⟨bl0, le0, p0, m0, l0, al0, eb0, rfl⟩ := ht.split
    simp only [jpEnd]
    wsimp
    exact ⟨rfl, by sim_same ht⟩
  clear_value jpEnd
  obtain ⟨bl0, le0, p0, m0, l0, al0, eb0, rfl⟩ := h.split
  rw [wp2_get_bind]
  simp -zeta -zetaHave only []
  extract_lets wp j jn src jp3 jp2 jp1 jp0
  have k3 : ∀ {t1 t2 : St σ}, Sim μ t1 t2 → wp2 (jp3 ()) (jp3 ()) (QS μ) EE t1 t2 := by
    intro t1 t2 ht
    simp only [jp3]
    split
    · apply wp2_bind_eq (winCopy_sim _ _ _ ht)
      intro _ u1 u2 hu
      apply wp2_bind_eq (winCopy_sim _ _ _ hu)
      intro _ v1 v2 hv
      exact kEnd hv
    · apply wp2_bind_eq (winCopy_sim _ _ _ ht)
      intro _ u1 u2 hu
      exact kEnd hu
  clear_value jp3
  have k2 : ∀ {t1 t2 : St σ}, Sim μ t1 t2 → wp2 (jp2 ()) (jp2 ()) (QS μ) EE t1 t2 := by
    intro t1 t2 ht
    simp only [jp2]
    split
    · wsimp; exact ⟨rfl, trivial⟩
    · exact k3 ht
  clear_value jp2
  have k1 : ∀ {t1 t2 : St σ}, Sim μ t1 t2 → wp2 (jp1 ()) (jp1 ()) (QS μ) EE t1 t2 := by
    intro t1 t2 ht
    simp only [jp1]
    split
    · exact fail_bind_sim _ (by decide) ht _ _ _
    · exact k2 ht
  clear_value jp1
  have k0 : ∀ {t1 t2 : St σ}, Sim μ t1 t2 → wp2 (jp0 ()) (jp0 ()) (QS μ) EE t1 t2 := by
    intro t1 t2 ht
    simp only [jp0]
    split
    · split
      · exact fail_bind_sim _ (by decide) ht _ _ _
      · exact k1 ht
    · apply wp2_bind_eq (winCopy_sim _ _ _ ht)
      intro _ u1 u2 hu
      exact kEnd hu
  clear_value jp0
  split
  · exact fail_bind_sim _ (by decide) h _ _ _
  · exact k0 h

theorem decodeRun_sim (c : RunCtx) {μ} : ∀ (fuel : Nat) (tr : Int) {s1 s2 : St σ}, Sim μ s1 s2 →
    wp2 (decodeRun S c fuel tr) (decodeRun S c fuel tr) (QS μ) EE s1 s2
  | 0, tr, s1, s2, h => by rw [decodeRun]; wsimp; exact ⟨rfl, trivial⟩
  | fuel + 1, tr, s1, s2, h => by
    rw [decodeRun]
    split
    · wsimp; exact ⟨rfl, h⟩
    · apply wp2_bind_eq (readHuffSym_sim S _ _ h)
      intro me t1 t2 ht
      split
      · apply wp2_bind_eq (putLiteral_sim _ ht)
        intro _ u1 u2 hu
        exact decodeRun_sim c fuel _ hu
      · extract_lets me' ml0 slot jpA jpD
        clear_value ml0 slot
        clear_value me'
        have kA : ∀ (ml : Nat) {t1 t2 : St σ}, Sim μ t1 t2 → wp2 (jpA ml) (jpA ml) (QS μ) EE t1 t2 := by
          intro ml a1 a2 ha
          simp -zeta -zetaHave only [jpA]
          extract_lets ml' jpB
          have kB : ∀ (mo : Nat) {t1 t2 : St σ}, Sim μ t1 t2 → wp2 (jpB mo) (jpB mo) (QS μ) EE t1 t2 := by
            intro mo b1 b2 hb
            simp -zeta -zetaHave only [jpB]
            extract_lets jpC
            have kC : ∀ (ml : Nat) {t1 t2 : St σ}, Sim μ t1 t2 → wp2 (jpC ml) (jpC ml) (QS μ) EE t1 t2 := by
              intro ml c1 c2 hc
              simp only [jpC]
              apply wp2_bind_eq (copyMatch_sim c mo ml hc)
              intro _ d1 d2 hd
              exact decodeRun_sim c fuel _ hd
            clear_value jpC
            split
            · apply wp2_bind_eq (readExtraLen_sim S hb)
              intro x c1 c2 hc
              wsimp
              exact kC _ hc
            · wsimp
              exact kC _ hb
          clear_value jpB
          split
          · obtain ⟨bl0, le0, p0, m0, l0, al0, eb0, rfl⟩ := ha.split
            wsimp
            exact kB _ ha
          · split
            · obtain ⟨bl0, le0, p0, m0, l0, al0, eb0, rfl⟩ := ha.split
              wsimp
              exact kB _ (by sim_same ha)
            · split
              · obtain ⟨bl0, le0, p0, m0, l0, al0, eb0, rfl⟩ := ha.split
                wsimp
                exact kB _ (by sim_same ha)
              · apply wp2_bind_eq (readOffset_sim S c slot ha)
                intro mo b1 b2 hb
                exact kB _ hb
        clear_value jpA
        have kD : ∀ {t1 t2 : St σ}, Sim μ t1 t2 → wp2 (jpD ()) (jpD ()) (QS μ) EE t1 t2 := by
          intro a1 a2 ha
          simp only [jpD]
          apply wp2_bind_eq (readHuffSym_sim S _ _ ha)
          intro footer b1 b2 hb
          wsimp
          exact kA _ hb
        clear_value jpD
        refine wp2_ite (fun hc => ?_) (fun hc => ?_)
        · refine wp2_ite (fun hc2 => ?_) (fun hc2 => ?_)
          · exact fail_bind_sim _ (by decide) ht _ _ _
          · exact kD ht
        · wsimp
          exact kA _ ht

theorem copyRaw_sim {μ} : ∀ (fuel dest thisRun : Nat) {s1 s2 : St σ}, Sim μ s1 s2 →
    wp2 (copyRaw S fuel dest thisRun) (copyRaw S fuel dest thisRun) (QS μ) EE s1 s2
  | 0, _, _, s1, s2, h => by rw [copyRaw]; wsimp; exact ⟨rfl, trivial⟩
  | fuel + 1, dest, thisRun, s1, s2, h => by
    rw [copyRaw]
    split
    · wsimp; exact ⟨rfl, h⟩
    · obtain ⟨bl0, le0, p0, m0, l0, al0, eb0, rfl⟩ := h.split
      rw [wp2_get_bind]
      simp only []
      split
      · apply wp2_bind_eq (readInput_sim S h)
        intro _ t1 t2 ht
        exact copyRaw_sim fuel dest thisRun ht
      · rw [wp2_modifyGet_bind]
        simp only []
        generalize writeBytes (List.take (min s1.inbuf.length thisRun) s1.inbuf) dest s1.window = r
        cases r with
        | error f => wsimp; exact ⟨rfl, trivial⟩
        | ok w' =>
          wsimp
          exact copyRaw_sim fuel _ _ (by sim_same h)

theorem blockLoop_sim : ∀ (fuel : Nat) (todo : Int) {s1 s2 : St σ}, Sim Mode.normal s1 s2 →
    wp2 (blockLoop S fuel todo) (blockLoop S fuel todo) (QS Mode.normal) EE s1 s2
  | 0, _, s1, s2, h => by rw [blockLoop]; wsimp; exact ⟨rfl, trivial⟩
  | fuel + 1, todo, s1, s2, h => by
    rw [blockLoop]
    split
    · wsimp; exact ⟨rfl, h⟩
    · extract_lets jpMain
      have kMain : ∀ {t1 t2 : St σ}, Sim Mode.normal t1 t2 → wp2 (jpMain ()) (jpMain ()) (QS Mode.normal) EE t1 t2 := by
        intro t1 t2 ht
        obtain ⟨bl0, le0, p0, m0, l0, al0, eb0, rfl⟩ := ht.split
        simp -zeta -zetaHave only [jpMain]
        rw [wp2_get_bind]
        simp -zeta -zetaHave only []
        extract_lets thisRun bytesTodo bt c1 wp jpLoop jpL c2
        have kLoop : ∀ {u1 u2 : St σ}, Sim Mode.normal u1 u2 → wp2 (jpLoop ()) (jpLoop ()) (QS Mode.normal) EE u1 u2 := by
          intro u1 u2 hu
          simp only [jpLoop]
          exact blockLoop_sim fuel _ hu
        clear_value jpLoop
        have kL : ∀ (left : Int) {u1 u2 : St σ}, Sim Mode.normal u1 u2 →
            wp2 (jpL left) (jpL left) (QS Mode.normal) EE u1 u2 := by
          intro left u1 u2 hu
          simp -zeta -zetaHave only [jpL]
          refine wp2_ite (fun hc => ?_) (fun hc => ?_)
          · extract_lets over jpM
            clear_value over
            obtain ⟨bl1, le1, p1, m1, l1, al1, eb1, rfl⟩ := hu.split
            rw [wp2_get_bind]
            simp -zeta -zetaHave only []
            have kM : ∀ {v1 v2 : St σ}, Sim Mode.normal v1 v2 → wp2 (jpM ()) (jpM ()) (QS Mode.normal) EE v1 v2 := by
              intro v1 v2 hv
              obtain ⟨bl2, le2, p2, m2, l2, al2, eb2, rfl⟩ := hv.split
              simp only [jpM]
              wsimp
              exact kLoop (by sim_same hv)
            clear_value jpM
            refine wp2_ite (fun hc2 => ?_) (fun hc2 => ?_)
            · exact fail_bind_sim _ (by decide) hu _ _ _
            · exact kM hu
          · exact kLoop hu
        clear_value jpL
        rw [wp2_set_bind]
        have hset : Sim Mode.normal
            { t1 with blockRemaining := t1.blockRemaining - thisRun.toNat }
            { t1 with blockLength := bl0, lengthEmpty := le0, pretreeLen := p0, maintreeLen := m0, lengthLen := l0,
                      alignedLen := al0, e8Buf := eb0, blockRemaining := t1.blockRemaining - thisRun.toNat } := by
          sim_same ht
        refine wp2_ite (fun hbt => ?_) (fun hbt => ?_)
        · have hle : (t1.blockType = 1 ∨ t1.blockType = 2) → le0 = t1.lengthEmpty := ht.le
          have hle' := hle hbt
          subst hle'
          have hcc : c2 = c1 := rfl
          rw [hcc]
          apply wp2_bind_eq (decodeRun_sim S c1 fuel thisRun hset)
          intro left u1 u2 hu
          exact kL left hu
        · refine wp2_ite (fun hb3 => ?_) (fun hb3 => ?_)
          · rw [wp2_modify_bind]
            apply wp2_bind_eq (copyRaw_sim S fuel wp thisRun.toNat
              (s1 := { t1 with blockRemaining := t1.blockRemaining - thisRun.toNat,
                               windowPosn := t1.windowPosn + thisRun.toNat }) (by sim_same ht))
            intro _ u1 u2 hu
            wsimp
            exact kL 0 hu
          · exact fail_bind_sim _ (by decide) hset _ _ _
      clear_value jpMain
      obtain ⟨bl0, le0, p0, m0, l0, al0, eb0, rfl⟩ := h.split
      rw [wp2_get_bind]
      simp only []
      refine wp2_ite (fun hc => ?_) (fun hc => ?_)
      · apply wp2_bind_eq (readBlockHeader_sim S fuel h)
        intro _ t1 t2 ht
        exact kMain ht
      · exact kMain h

theorem extract_empty (a b : Array UInt8) (p : Nat) : a.extract p (p + 0) = b.extract p (p + 0) := by
  apply Array.ext
  · simp only [Array.size_extract]; omega
  · intro k h1 h2
    simp only [Array.size_extract] at h1
    omega

theorem outSlice_sim {μ} {s1 s2 : St σ} (h : Sim μ s1 s2) (n : Nat)
    (hn : s1.oInE8 = true → n = 0 ∨ s1.oPtr + n ≤ s1.oEnd) : outSlice s2 n = outSlice s1 n := by
  obtain ⟨bl0, le0, p0, m0, l0, al0, eb0, rfl⟩ := h.split
  unfold outSlice
  simp only []
  by_cases he : s1.oInE8 = true
  · simp only [he, if_true]
    have hsz := h.e8sz
    simp only at hsz
    rw [hsz]
    by_cases hc : s1.oPtr + n ≤ s1.e8Buf.size
    · simp only [if_pos hc]
      congr 1
      rcases hn he with h0 | hle
      · subst h0; exact extract_empty _ _ _
      · have := h.e8 he
        simp only at this
        exact (this.extract_eq hle).symm
    · simp only [if_neg hc]
  · have he' : s1.oInE8 = false := by simpa using he
    simp only [he', Bool.false_eq_true, if_false]

theorem fbWrite_sim (frameSize outBytes : Nat) {s1 s2 : St σ} (h : Sim Mode.normal s1 s2)
    (hn : s1.oInE8 = true → s1.oPtr + (if outBytes < frameSize then outBytes else frameSize) ≤ s1.oEnd) :
    wp2 (fbWrite frameSize outBytes : LM σ (Array UInt8)) (fbWrite frameSize outBytes) (QS Mode.normal) EE s1 s2 := by
  unfold fbWrite
  have ho := outSlice_sim h (if outBytes < frameSize then outBytes else frameSize) (fun he => Or.inr (hn he))
  obtain ⟨bl0, le0, p0, m0, l0, al0, eb0, rfl⟩ := h.split
  simp only []
  rw [wp2_get_bind]
  simp only []
  rw [ho]
  split
  · wsimp; exact ⟨rfl, trivial⟩
  · wsimp
    exact ⟨rfl, by sim_same h⟩

theorem fbE8_sim (frameSize outBytes : Nat) {s1 s2 : St σ} (h : Sim Mode.normal s1 s2) :
    wp2 (fbE8 frameSize outBytes : LM σ (Array UInt8)) (fbE8 frameSize outBytes) (QS Mode.normal) EE s1 s2 := by
  unfold fbE8
  obtain ⟨bl0, le0, p0, m0, l0, al0, eb0, rfl⟩ := h.split
  rw [wp2_get_bind]
  simp only []
  refine wp2_ite (fun hc0 => ?_) (fun hc0 => ?_)
  · exact fail_bind_sim _ (by decide) h _ _ _
  · refine wp2_ite (fun hc => ?_) (fun hc => ?_)
    · have hsz := h.e8sz
      simp only at hsz
      have h0 : Agree 0 s1.e8Buf eb0 := ⟨hsz.symm, fun i hi => absurd hi (Nat.not_lt_zero _)⟩
      have hca := copyAcross_agree s1.window s1.framePosn frameSize 0 _ _ h0
      rcases hca.cases with ⟨f, e1, e2⟩ | ⟨a, b, e1, e2, hab⟩
      · rw [e1, e2]
        wsimp; exact ⟨rfl, trivial⟩
      · rw [e1, e2]
        simp only []
        have hel := e8Loop_agree (n := 0 + frameSize) (frameSize - 10) s1.intelFilesize (by omega) frameSize 0
          (toS32 s1.offset) a b hab
        rcases hel.cases with ⟨f, e3, e4⟩ | ⟨a', b', e3, e4, hab'⟩
        · rw [e3, e4]
          wsimp; exact ⟨rfl, trivial⟩
        · rw [e3, e4]
          simp only []
          rw [wp2_set_bind]
          apply fbWrite_sim
          · refine ⟨rfl, h.pre, h.ali, h.main, h.len, h.nOff, hab'.size.symm, fun _ => ?_, h.bl, h.le⟩
            simp only [Nat.zero_add] at hab'
            exact hab'
          · intro _
            simp only []
            split <;> omega
    · rw [wp2_set_bind]
      apply fbWrite_sim
      · exact ⟨rfl, h.pre, h.ali, h.main, h.len, h.nOff, h.e8sz, fun he => by simp at he, h.bl, h.le⟩
      · intro he
        simp at he

theorem fbAlign_sim (frameSize outBytes : Nat) {s1 s2 : St σ} (h : Sim Mode.normal s1 s2) :
    wp2 (fbAlign S frameSize outBytes) (fbAlign S frameSize outBytes) (QS Mode.normal) EE s1 s2 := by
  unfold fbAlign
  extract_lets jpE jpA
  have kA : ∀ {t1 t2 : St σ}, Sim Mode.normal t1 t2 → wp2 (jpA ()) (jpA ()) (QS Mode.normal) EE t1 t2 := by
    intro t1 t2 ht
    obtain ⟨bl0, le0, p0, m0, l0, al0, eb0, rfl⟩ := ht.split
    simp only [jpA]
    rw [wp2_get_bind]
    simp only []
    refine wp2_ite (fun hc => ?_) (fun hc => ?_)
    · apply wp2_bind_eq (removeBits_sim _ ht)
      intro _ u1 u2 hu
      exact fbE8_sim frameSize outBytes hu
    · exact fbE8_sim frameSize outBytes ht
  clear_value jpA
  obtain ⟨bl0, le0, p0, m0, l0, al0, eb0, rfl⟩ := h.split
  rw [wp2_get_bind]
  simp only []
  refine wp2_ite (fun hc => ?_) (fun hc => ?_)
  · apply wp2_bind_eq (ensureBits_sim S 16 3 h)
    intro _ t1 t2 ht
    exact kA ht
  · exact kA h

theorem fbDecode_sim (fuel outBytes : Nat) {s1 s2 : St σ} (h : Sim Mode.normal s1 s2) :
    wp2 (fbDecode S fuel outBytes) (fbDecode S fuel outBytes) (QS Mode.normal) EE s1 s2 := by
  unfold fbDecode
  obtain ⟨bl0, le0, p0, m0, l0, al0, eb0, rfl⟩ := h.split
  rw [wp2_get_bind]
  simp -zeta -zetaHave only []
  extract_lets frameSize bytesTodo
  clear_value bytesTodo
  clear_value frameSize
  apply wp2_bind_eq (blockLoop_sim S fuel bytesTodo h)
  intro _ t1 t2 ht
  obtain ⟨bl1, le1, p1, m1, l1, al1, eb1, rfl⟩ := ht.split
  rw [wp2_get_bind]
  simp only []
  refine wp2_ite (fun hc => ?_) (fun hc => ?_)
  · exact fail_bind_sim _ (by decide) ht _ _ _
  · exact fbAlign_sim S frameSize outBytes ht

theorem fbLen_sim (fuel outBytes : Nat) {s1 s2 : St σ} (h : Sim Mode.normal s1 s2) :
    wp2 (fbLen S fuel outBytes) (fbLen S fuel outBytes) (QS Mode.normal) EE s1 s2 := by
  unfold fbLen
  obtain ⟨bl0, le0, p0, m0, l0, al0, eb0, rfl⟩ := h.split
  rw [wp2_get_bind]
  simp only []
  refine wp2_ite (fun hc => ?_) (fun hc => ?_)
  · refine wp2_ite (fun hc2 => ?_) (fun hc2 => ?_)
    · apply wp2_bind_eq (readInput_sim S h)
      intro _ t1 t2 ht
      exact fbDecode_sim S fuel outBytes ht
    · exact fbDecode_sim S fuel outBytes h
  · exact fbDecode_sim S fuel outBytes h

theorem fbHeader_sim (fuel outBytes : Nat) {s1 s2 : St σ} (h : Sim Mode.normal s1 s2) :
    wp2 (fbHeader S fuel outBytes) (fbHeader S fuel outBytes) (QS Mode.normal) EE s1 s2 := by
  unfold fbHeader
  obtain ⟨bl0, le0, p0, m0, l0, al0, eb0, rfl⟩ := h.split
  rw [wp2_get_bind]
  simp -zeta -zetaHave only []
  refine wp2_ite (fun hc => ?_) (fun hc => ?_)
  · apply wp2_bind_eq (readBits_sim S 1 h)
    intro i t1 t2 ht
    extract_lets jpA
    have kA : ∀ (ij : Nat × Nat) {u1 u2 : St σ}, Sim Mode.normal u1 u2 →
        wp2 (jpA ij) (jpA ij) (QS Mode.normal) EE u1 u2 := by
      intro ij u1 u2 hu
      obtain ⟨i', j'⟩ := ij
      obtain ⟨bl1, le1, p1, m1, l1, al1, eb1, rfl⟩ := hu.split
      simp only [jpA]
      wsimp
      generalize toS32 _ = v
      exact fbLen_sim S fuel outBytes (by sim_same hu)
    clear_value jpA
    refine wp2_ite (fun hc2 => ?_) (fun hc2 => ?_)
    · apply wp2_bind_eq (readBits_sim S 16 ht)
      intro i2 u1 u2 hu
      apply wp2_bind_eq (readBits_sim S 16 hu)
      intro j2 v1 v2 hv
      wsimp
      exact kA _ hv
    · wsimp
      exact kA _ ht
  · exact fbLen_sim S fuel outBytes h

theorem fbDelta_sim (fuel outBytes : Nat) {s1 s2 : St σ} (h : Sim Mode.normal s1 s2) :
    wp2 (fbDelta S fuel outBytes) (fbDelta S fuel outBytes) (QS Mode.normal) EE s1 s2 := by
  unfold fbDelta
  obtain ⟨bl0, le0, p0, m0, l0, al0, eb0, rfl⟩ := h.split
  rw [wp2_get_bind]
  simp only []
  refine wp2_ite (fun hc => ?_) (fun hc => ?_)
  · apply wp2_bind_eq (ensureBits_sim S 16 3 h)
    intro _ t1 t2 ht
    apply wp2_bind_eq (removeBits_sim 16 ht)
    intro _ u1 u2 hu
    exact fbHeader_sim S fuel outBytes hu
  · exact fbHeader_sim S fuel outBytes h

theorem resetState_sim {s1 s2 : St σ} (h : Sim Mode.normal s1 s2) : Sim Mode.normal (resetState s1) (resetState s2) := by
  obtain ⟨bl0, le0, p0, m0, l0, al0, eb0, rfl⟩ := h.split
  refine ⟨?_, h.pre, h.ali, ?_, ?_, h.nOff, h.e8sz, h.e8, fun _ h3 => ?_, fun h12 => ?_⟩
  · simp only [resetState]
  · unfold resetState
    dsimp only
    generalize List.range lzxMAINTREE_MAXSYMBOLS = l
    exact zero_agree l _ _ h.main
  · unfold resetState
    dsimp only
    generalize List.range lzxLENGTH_MAXSYMBOLS = l
    exact zero_agree l _ _ h.len
  · simp [resetState] at h3
  · simp [resetState] at h12

theorem frameBody_sim (fuel outBytes : Nat) {s1 s2 : St σ} (h : Sim Mode.normal s1 s2) :
    wp2 (frameBody S fuel outBytes) (frameBody S fuel outBytes) (QS Mode.normal) EE s1 s2 := by
  rw [frameBody_eq]
  obtain ⟨bl0, le0, p0, m0, l0, al0, eb0, rfl⟩ := h.split
  rw [wp2_get_bind]
  simp only []
  refine wp2_ite (fun hc => ?_) (fun hc => ?_)
  · rw [wp2_modify_bind]
    exact fbDelta_sim S fuel outBytes (resetState_sim h)
  · exact fbDelta_sim S fuel outBytes h


/-! ## the API level -/

/-- between calls: the decoder is alive and the states are related, or a status return has made
    `error` sticky (then every later `decompress` returns at once) -/
def TS (a b : St σ) : Prop :=
  Sim Mode.normal a b ∨ ((∃ bt, Sim (Mode.weak bt) a b) ∧ a.error ≠ .ok)

/-- same fault, or same status, same bytes written, related states -/
def OutR : Except Fault (DecodeOut (St σ)) → Except Fault (DecodeOut (St σ)) → Prop :=
  RelX (fun o1 o2 => o1.err = o2.err ∧ o1.written = o2.written ∧ TS o1.st o2.st)

theorem OutR.ok {o1 o2 : DecodeOut (St σ)} (h1 : o1.err = o2.err) (h2 : o1.written = o2.written)
    (h3 : TS o1.st o2.st) : OutR (.ok o1) (.ok o2) := ⟨h1, h2, h3⟩

theorem OutR.error (f : Fault) : OutR (σ := σ) (.error f) (.error f) := rfl

theorem frameLoop_sim (fuel endFrame : Nat) : ∀ (n : Nat) (s1 s2 : St σ) (outBytes : Nat) (acc : Array UInt8),
    Sim Mode.normal s1 s2 →
    OutR (frameLoop S fuel endFrame n s1 outBytes acc) (frameLoop S fuel endFrame n s2 outBytes acc)
  | 0, s1, s2, outBytes, acc, h => by
    obtain ⟨bl0, le0, p0, m0, l0, al0, eb0, rfl⟩ := h.split
    have hw := h.weaken
    rw [frameLoop, frameLoop]
    simp only []
    split
    · exact OutR.error _
    · split
      · exact OutR.ok rfl rfl (Or.inr ⟨⟨s1.blockType, by sim_same hw⟩, by simp⟩)
      · exact OutR.ok rfl rfl (Or.inl h)
  | n + 1, s1, s2, outBytes, acc, h => by
    have hfb := frameBody_sim S fuel outBytes h
    unfold wp2 at hfb
    obtain ⟨bl0, le0, p0, m0, l0, al0, eb0, rfl⟩ := h.split
    have hw := h.weaken
    rw [frameLoop, frameLoop]
    simp only []
    split
    · cases h1 : ((frameBody S fuel outBytes).run.run s1 : Except Halt (Array UInt8) × St σ) with
      | mk r1 t1 =>
        cases h2 : ((frameBody S fuel outBytes).run.run
            { s1 with blockLength := bl0, lengthEmpty := le0, pretreeLen := p0, maintreeLen := m0, lengthLen := l0,
                      alignedLen := al0, e8Buf := eb0 } : Except Halt (Array UInt8) × St σ) with
        | mk r2 t2 =>
          rw [h1, h2] at hfb
          cases r1 with
          | ok c1 =>
            cases r2 with
            | ok c2 =>
              obtain ⟨rfl, ht⟩ := hfb
              exact frameLoop_sim fuel endFrame n t1 t2 _ _ ht
            | error e2 => exact hfb.elim
          | error e1 =>
            cases r2 with
            | ok c2 => exact hfb.elim
            | error e2 =>
              obtain ⟨rfl, he⟩ := hfb
              cases e1 with
              | fault f => exact OutR.error f
              | sys e =>
                obtain ⟨hs, herr, hne⟩ := he
                exact OutR.ok rfl rfl (Or.inr ⟨hs, by rw [herr]; exact hne⟩)
    · split
      · exact OutR.ok rfl rfl (Or.inr ⟨⟨s1.blockType, by sim_same hw⟩, by simp⟩)
      · exact OutR.ok rfl rfl (Or.inl h)

theorem decompress_sim (fuel : Nat) {a b : St σ} (h : TS a b) (n : Nat) :
    OutR (decompress S fuel a n) (decompress S fuel b n) := by
  rcases h with h | ⟨⟨bt, h⟩, hne⟩
  · have ho := outSlice_sim h (min (a.oEnd - a.oPtr) n) (fun _ => by omega)
    obtain ⟨bl0, le0, p0, m0, l0, al0, eb0, rfl⟩ := h.split
    unfold decompress
    simp only []
    split
    · exact OutR.ok rfl rfl (Or.inl h)
    · (try simp only [] at ho)
      rw [ho]
      split
      · exact OutR.error _
      · split
        · exact OutR.ok rfl rfl (Or.inl (by sim_same h))
        · exact frameLoop_sim S fuel _ _ _ _ _ _ (by sim_same h)
  · obtain ⟨bl0, le0, p0, m0, l0, al0, eb0, rfl⟩ := h.split
    unfold decompress
    simp only []
    rw [if_pos hne, if_pos hne]
    exact OutR.ok rfl rfl (Or.inr ⟨⟨bt, h⟩, hne⟩)

theorem setOutputLength_sim {a b : St σ} (h : TS a b) (n : Nat) : TS (setOutputLength a n) (setOutputLength b n) := by
  unfold setOutputLength
  split
  · rcases h with h | ⟨⟨bt, h⟩, hne⟩
    · obtain ⟨bl0, le0, p0, m0, l0, al0, eb0, rfl⟩ := h.split
      exact Or.inl (by sim_same h)
    · obtain ⟨bl0, le0, p0, m0, l0, al0, eb0, rfl⟩ := h.split
      exact Or.inr ⟨⟨bt, by sim_same h⟩, hne⟩
  · exact h

theorem setReferenceData_sim {μ} {a b : St σ} (h : Sim μ a b) (len : Nat) (ref : Option Bytes) :
    (setReferenceData a len ref).1 = (setReferenceData b len ref).1 ∧
    Sim μ (setReferenceData a len ref).2 (setReferenceData b len ref).2 ∧
    (setReferenceData a len ref).2.error = a.error := by
  obtain ⟨bl0, le0, p0, m0, l0, al0, eb0, rfl⟩ := h.split
  unfold setReferenceData
  simp only []
  repeat' split
  all_goals first
    | exact ⟨rfl, h, rfl⟩
    | exact ⟨rfl, by sim_same h, rfl⟩
    | (exfalso; simp_all; done)

theorem setReferenceData_ts {a b : St σ} (h : TS a b) (len : Nat) (ref : Option Bytes) :
    (setReferenceData a len ref).1 = (setReferenceData b len ref).1 ∧
    TS (setReferenceData a len ref).2 (setReferenceData b len ref).2 := by
  rcases h with h | ⟨⟨bt, h⟩, hne⟩
  · have := setReferenceData_sim h len ref
    exact ⟨this.1, Or.inl this.2.1⟩
  · have := setReferenceData_sim h len ref
    exact ⟨this.1, Or.inr ⟨⟨bt, this.2.1⟩, by rw [this.2.2]; exact hne⟩⟩

/-! ## `lzxd_init` -/

theorem lens_agree (c d : Nat) (f1 f2 : UInt8) :
    Agree c (Array.replicate c (0 : UInt8) ++ Array.replicate (d - c) f1)
            (Array.replicate c (0 : UInt8) ++ Array.replicate (d - c) f2) := by
  refine ⟨by simp, fun i hi => ?_⟩
  rw [Array.getElem?_append_left (by simpa using hi), Array.getElem?_append_left (by simpa using hi)]

set_option maxRecDepth 8000 in
theorem slots_le : ∀ s ∈ lzxPositionSlots, s ≤ 290 := by decide

def InitR : Option (St σ) → Option (St σ) → Prop
  | some a, some b => TS a b
  | none, none => True
  | _, _ => False

/-- `lzxd_init` fails or succeeds regardless of the fill byte, and the two fresh states are related -/
theorem init_sim (src : σ) (wb ri ibs ol : Nat) (isDelta : Bool) (f1 f2 : UInt8) :
    InitR (init src wb ri ibs ol isDelta f1) (init src wb ri ibs ol isDelta f2) := by
  unfold init
  simp only []
  cases hs : lzxPositionSlots[wb - 15]? with
  | none =>
    simp only []
    repeat' split
    all_goals exact True.intro
  | some slots =>
    simp only []
    have hsl := slots_le slots (List.mem_of_getElem? hs)
    repeat' split
    all_goals first
      | exact True.intro
      | (refine Or.inl ⟨rfl, ?_, ?_, lens_agree _ _ _ _, lens_agree _ _ _ _, ?_, by simp, fun _ => ?_,
            fun _ h3 => ?_, fun h12 => ?_⟩
         · exact (lens_agree 0 _ _ _).mono (Nat.zero_le _)
         · exact (lens_agree 0 _ _ _).mono (Nat.zero_le _)
         · show lzxNUM_CHARS + slots * 8 ≤ lzxMAINTREE_MAXSYMBOLS
           simp only [lzxNUM_CHARS, lzxMAINTREE_MAXSYMBOLS]
           omega
         · exact ⟨by simp, fun i hi => absurd hi (Nat.not_lt_zero _)⟩
         · simp at h3
         · simp at h12)

/-! ## sequences of calls -/

/-- a call of the streaming API between `lzxd_init` and `lzxd_free` -/
inductive Call
  | decompress (outBytes : Nat)
  | setOutputLength (n : Nat)
  /-- `lzxd_set_reference_data(lzx, sys, input, length)`; `ref` = what the base file delivers -/
  | setReferenceData (length : Nat) (ref : Option Bytes)

/-- what the caller observes: per `decompress` call the fault, or the status and the bytes written
    (a fault ends the trace: the C program has no defined behaviour after it); per
    `set_reference_data` call its status -/
def trace (fuel : Nat) : St σ → List Call → List (Except Fault (Err × Bytes))
  | _, [] => []
  | st, .setOutputLength n :: cs => trace fuel (setOutputLength st n) cs
  | st, .setReferenceData len ref :: cs =>
    .ok ((setReferenceData st len ref).1, []) :: trace fuel (setReferenceData st len ref).2 cs
  | st, .decompress n :: cs =>
    match decompress S fuel st n with
    | .error f => [.error f]
    | .ok o => .ok (o.err, o.written) :: trace fuel o.st cs

theorem trace_sim (fuel : Nat) : ∀ (cs : List Call) (a b : St σ), TS a b → trace S fuel a cs = trace S fuel b cs
  | [], _, _, _ => rfl
  | .setOutputLength n :: cs, a, b, h => by
    rw [trace, trace]
    exact trace_sim fuel cs _ _ (setOutputLength_sim h n)
  | .setReferenceData len ref :: cs, a, b, h => by
    rw [trace, trace]
    have hr := setReferenceData_ts h len ref
    rw [hr.1, trace_sim fuel cs _ _ hr.2]
  | .decompress n :: cs, a, b, h => by
    rw [trace, trace]
    have hd := decompress_sim S fuel h n
    rcases hd.cases with ⟨f, e1, e2⟩ | ⟨o1, o2, e1, e2, he, hw, hs⟩
    · rw [e1, e2]
    · rw [e1, e2]
      simp only [he, hw]
      rw [trace_sim fuel cs _ _ hs]

theorem lzx_fill_independent (fuel : Nat) (src : σ) (wb ri ibs ol : Nat) (isDelta : Bool) (f1 f2 : UInt8)
    (cs : List Call) :
    (init src wb ri ibs ol isDelta f1).map (fun st => trace S fuel st cs) =
    (init src wb ri ibs ol isDelta f2).map (fun st => trace S fuel st cs) := by
  have hi := init_sim src wb ri ibs ol isDelta f1 f2
  cases h1 : init src wb ri ibs ol isDelta f1 with
  | none =>
    cases h2 : init src wb ri ibs ol isDelta f2 with
    | none => rfl
    | some b => rw [h1, h2] at hi; exact hi.elim
  | some a =>
    cases h2 : init src wb ri ibs ol isDelta f2 with
    | none => rw [h1, h2] at hi; exact hi.elim
    | some b =>
      rw [h1, h2] at hi
      simp only [Option.map_some]
      rw [trace_sim S fuel cs a b hi]


end

end MsPack.Lzx.Fill
