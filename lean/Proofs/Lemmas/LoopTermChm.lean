import MsPack.Chm.Extract
import Lean.Elab.Tactic
/-!
# CHM: the fuel the model's callers pass always suffices (C04, CHM part)

Every fuel loop of the CHM model, with the fuel its caller passes, never reports "out of fuel"
(`Fault.hang`; for `compareGo` / `copyLoop`, whose out-of-fuel result is not a separate value, the
result does not change when more fuel is given).  Pattern as in `Proofs/Lemmas/FeederTerm.lean`: a
measure that every iteration decreases, induction on the fuel with hypothesis `measure + 1 ≤ fuel`.

| loop          | fuel the caller passes      | measure                                   |
|---------------|-----------------------------|-------------------------------------------|
| `encLoop`     | 10 (`readEncint`)           | `9 - i` (bytes of the ENCINT still allowed) |
| `compareGo`   | `s1.length + 1` (`compare`) | `s1.length`                               |
| `skipEncint`  | `e - p + 1` (`linear`)      | `e - p`                                   |
| `bsearch`     | `qrEntries + 1`, `0 … qrEntries - 1` (`searchChunk`) | `R - L`          |
| `descend`/`walk` | `numChunks + 1` (`fastFind`) | no out-of-fuel fault at all: fuel 0 = the C's `visits++ > num_chunks` check |
| `readEntries`/`readChunks` | structural in the entry / chunk count | — |
| `copyLoop`    | `file.length / 512 + 2` (`extract`) | `(bytes of the file left) / 512 + 1`, `+ 0` once `length ≤ 0` |
-/
namespace MsPack.Chm
open MsPack MsPack.Generated

/-! ## `read_encint` -/

/-- at most `9 - i` more bytes are accepted: `9 - i + 1` rounds suffice -/
theorem encLoop_no_hang (bs : Bytes) (e : Nat) : ∀ (fuel i p result : Nat) (c : UInt8),
    9 - i + 1 ≤ fuel → encLoop bs e fuel i p result c ≠ .error .hang := by
  intro fuel
  induction fuel with
  | zero => intro i p result c h; omega
  | succ fuel ih =>
    intro i p result c h
    rw [encLoop]
    split
    · simp
    · split
      · simp
      · rename_i hi
        split
        · simp
        · split
          · simp
          · apply ih
            have : encintMaxBytes = 9 := rfl
            rw [this] at hi
            omega

theorem readEncint_no_hang (bs : Bytes) (p e : Nat) : readEncint bs p e ≠ .error .hang := by
  unfold readEncint
  split
  · rename_i f hf
    intro hc
    simp only [Except.error.injEq] at hc
    subst hc
    exact encLoop_no_hang bs e _ 0 p 0 0x80 (by decide) hf
  · split
    · simp
    · split <;> simp

/-! ## `compare` -/

theorem getUtf8Char_length (x : UInt8) (s : Bytes) : (getUtf8Char (x :: s)).2.length ≤ s.length := by
  unfold getUtf8Char
  simp only
  split
  · exact Nat.le_refl _
  · split
    · split
      · simp
      · simp
    · split
      · split
        · simp; omega
        · simp
      · split
        · split
          · simp; omega
          · simp
        · simp

/-- out of fuel and "one string ended" are the same value `none` in `compareGo`; with
    `s1.length + 1` rounds or more the result no longer depends on the fuel, i.e. the first equation
    (`fuel = 0`) is only ever reached with an empty `s1`, where the loop condition gives `none` too -/
theorem compareGo_fuel : ∀ (fuel fuel' : Nat) (s1 s2 : Bytes), s1.length + 1 ≤ fuel → s1.length + 1 ≤ fuel' →
    compareGo fuel s1 s2 = compareGo fuel' s1 s2 := by
  intro fuel
  induction fuel with
  | zero => intro fuel' s1 s2 h; omega
  | succ fuel ih =>
    intro fuel' s1 s2 h h'
    match fuel', h' with
    | fuel' + 1, h' =>
      rw [compareGo, compareGo]
      match s1, h, h' with
      | [], _, _ => simp
      | x :: s1, h, h' =>
        have hl := getUtf8Char_length x s1
        simp only [List.length_cons] at h h'
        have e1 := ih fuel' (getUtf8Char (x :: s1)).2 (getUtf8Char s2).2 (by omega) (by omega)
        simp only [e1]

/-! ## `search_chunk` -/

theorem skipEncint_no_hang (chunk : Bytes) (e : Nat) : ∀ (fuel p : Nat),
    e - p + 1 ≤ fuel → skipEncint chunk e fuel p ≠ .error .hang := by
  intro fuel
  induction fuel with
  | zero => intro p h; omega
  | succ fuel ih =>
    intro p h
    rw [skipEncint]
    split
    · split
      · simp
      · split
        · apply ih; omega
        · simp
    · simp

theorem qrTarget_no_hang (chunk : Bytes) (cs entriesOff m : Nat) : qrTarget chunk cs entriesOff m ≠ .error .hang := by
  unfold qrTarget
  split
  · simp
  · split <;> simp

/-- the interval `[L, R]` shrinks every round: `R - L + 1` rounds suffice -/
theorem bsearch_no_hang (chunk : Bytes) (cs entriesOff e : Nat) (fname : Bytes) : ∀ (fuel l r : Nat),
    r - l + 1 ≤ fuel → bsearch chunk cs entriesOff e fname fuel l r ≠ .error .hang := by
  intro fuel
  induction fuel with
  | zero => intro l r h; omega
  | succ fuel ih =>
    intro l r h
    rw [bsearch]
    simp only
    split
    · rename_i f hf
      intro hc
      simp only [Except.error.injEq] at hc
      subst hc
      exact qrTarget_no_hang _ _ _ _ hf
    · split
      · rename_i f hf
        intro hc
        simp only [Except.error.injEq] at hc
        subst hc
        exact readEncint_no_hang _ _ _ hf
      · split
        · simp
        · split
          · simp
          · split
            · split
              · split
                · apply ih; omega
                · simp
              · simp
            · split
              · apply ih; omega
              · simp

/-- an error passed on unchanged from a callee that does not hang is not `hang` -/
theorem err_of_no_hang {α β : Type} {x : Except Fault α} {f : Fault} (hx : x ≠ .error .hang) (hf : x = .error f) :
    (Except.error f : Except Fault β) ≠ .error .hang := by
  intro hc
  simp only [Except.error.injEq] at hc
  subst hc
  exact hx hf

/-- `linear` is structural in the entry count; its three/one `skipEncint` calls get `e - p + 1` -/
theorem linear_no_hang (chunk : Bytes) (e : Nat) (fname : Bytes) (isPmgl : Bool) : ∀ (n p : Nat) (res : Option Nat),
    linear chunk e fname isPmgl n p res ≠ .error .hang := by
  intro n
  induction n with
  | zero => intro p res; cases res <;> simp [linear]
  | succ n ih =>
    intro p res
    cases res <;> rw [linear] <;> (
      simp only
      split
      · rename_i f hf
        exact err_of_no_hang (readEncint_no_hang _ _ _) hf
      · split
        · simp
        · split
          · simp
          · split
            · simp
            · split
              · split
                · rename_i f hf
                  exact err_of_no_hang (skipEncint_no_hang _ _ _ _ (Nat.le_refl _)) hf
                · split
                  · rename_i f hf
                    exact err_of_no_hang (skipEncint_no_hang _ _ _ _ (Nat.le_refl _)) hf
                  · split
                    · rename_i f hf
                      exact err_of_no_hang (skipEncint_no_hang _ _ _ _ (Nat.le_refl _)) hf
                    · exact ih _ _
              · split
                · rename_i f hf
                  exact err_of_no_hang (skipEncint_no_hang _ _ _ _ (Nat.le_refl _)) hf
                · exact ih _ _
    )

/-- `search_chunk`: the binary search gets `qr_entries + 1` rounds for the interval `[0, qr_entries - 1]` -/
theorem searchChunk_no_hang (h : Header) (chunk fname : Bytes) : searchChunk h chunk fname ≠ .error .hang := by
  unfold searchChunk
  simp only
  generalize (1 + 2 ^ (if h.density < 16 then h.density else 16)) = qd
  generalize (if byteAt chunk 3 = 76 then pmgl_Entries else pmgi_Entries) = eo
  generalize u16At chunk (h.chunkSize - 2) = ne
  generalize u32At chunk pmgl_QuickRefSize = qs
  generalize (if Int.ofNat ((ne + qd - 1) % 4294967296 / qd * 2) > Int.ofNat qs - 2 then 0
    else (ne + qd - 1) % 4294967296 / qd) = qe
  split
  · simp
  · split
    · simp
    · split
      · split
        · rename_i f hf
          exact err_of_no_hang (bsearch_no_hang _ _ _ _ _ _ _ _ (by omega)) hf
        · simp
        · simp
        · split
          · simp
          · split
            · rename_i f hf
              exact err_of_no_hang (qrTarget_no_hang _ _ _ _) hf
            · exact linear_no_hang _ _ _ _ _ _ _
      · exact linear_no_hang _ _ _ _ _ _ _

theorem readFound_no_hang (chunk : Bytes) (p e : Nat) (st : FF) : readFound chunk p e st ≠ .error .hang := by
  unfold readFound
  split
  · rename_i f hf
    exact err_of_no_hang (readEncint_no_hang _ _ _) hf
  · split
    · rename_i f hf
      exact err_of_no_hang (readEncint_no_hang _ _ _) hf
    · split
      · rename_i f hf
        exact err_of_no_hang (readEncint_no_hang _ _ _) hf
      · simp only
        split <;> simp

/-- the PMGI descent: running out of fuel is the C's own `visits++ > num_chunks` check (MSPACK_ERR_DATAFORMAT), not a
    fault; whatever the fuel, `hang` is not returned -/
theorem descend_no_hang (file fname : Bytes) : ∀ (fuel n : Nat) (st : FF), descend file fname fuel n st ≠ .error .hang := by
  intro fuel
  induction fuel with
  | zero => intro n st; rw [descend]; simp
  | succ fuel ih =>
    intro n st
    rw [descend]
    split
    · simp
    · split
      · rename_i f hf
        exact err_of_no_hang (searchChunk_no_hang _ _ _) hf
      · simp
      · simp
      · split
        · exact readFound_no_hang _ _ _ _
        · split
          · rename_i f hf
            exact err_of_no_hang (readEncint_no_hang _ _ _) hf
          · split
            · simp
            · exact ih _ _

/-- the PMGL chain walk, likewise -/
theorem walk_no_hang (file fname : Bytes) : ∀ (fuel n : Nat) (last : Search) (st : FF),
    walk file fname fuel n last st ≠ .error .hang := by
  intro fuel
  induction fuel with
  | zero => intro n last st; rw [walk]; simp
  | succ fuel ih =>
    intro n last st
    rw [walk]
    simp only
    split
    · simp
    · split
      · simp
      · split
        · rename_i f hf
          exact err_of_no_hang (searchChunk_no_hang _ _ _) hf
        · exact readFound_no_hang _ _ _ _
        · split
          · simp
          · exact ih _ _ _

theorem fastFind_no_hang (file : Option Bytes) (st : FF) (filename : Bytes) :
    fastFind file st filename ≠ .error .hang := by
  unfold fastFind
  split
  · simp
  · simp only
    split
    · exact descend_no_hang _ _ _ _ _
    · exact walk_no_hang _ _ _ _ _ _

/-! ## `chmd_read_headers` -/

/-- structural in the entry count; the only fuel below it is `read_encint`'s -/
theorem readEntries_no_hang (chunk : Bytes) (e : Nat) : ∀ (n p : Nat) (w : Walk),
    readEntries chunk e n p w ≠ .error .hang := by
  intro n
  induction n with
  | zero => intro p w; rw [readEntries]; simp
  | succ n ih =>
    intro p w
    rw [readEntries]
    split
    · rename_i f hf
      exact err_of_no_hang (readEncint_no_hang _ _ _) hf
    · simp only
      split
      · simp
      · split
        · rename_i f hf
          exact err_of_no_hang (readEncint_no_hang _ _ _) hf
        · split
          · rename_i f hf
            exact err_of_no_hang (readEncint_no_hang _ _ _) hf
          · split
            · rename_i f hf
              exact err_of_no_hang (readEncint_no_hang _ _ _) hf
            · split
              · simp
              · exact ih _ _

/-- structural in the chunk count (`last_pmgl - first_pmgl + 1`, whatever the header says) -/
theorem readChunks_no_hang (chunkSize : Nat) : ∀ (n : Nat) (r : Rd) (w : Walk),
    readChunks chunkSize n r w ≠ .error .hang := by
  intro n
  induction n with
  | zero => intro r w; rw [readChunks]; simp
  | succ n ih =>
    intro r w
    rw [readChunks]
    split
    · simp
    · split
      · exact ih _ _
      · simp only
        split
        · rename_i f hf
          exact err_of_no_hang (readEntries_no_hang _ _ _ _ _) hf
        · exact ih _ _

/-! ### stepping through the big header functions

`simp only []` / `split` on `readHeaders` make the *kernel* compare terms through matchers whose discriminants read
32/64-bit header fields (`x * 16777216`): minutes, then "deep recursion".  So the walk below uses only syntactic
steps: a `have x := v; body` at the head of the left-hand side is replaced by `∀ x, body` (the value is forgotten:
no later step needs it), `if`s and matchers are taken apart with one lemma per constant. -/

open Lean Elab Tactic Meta in
/-- goal `(have x := v; b) ≠ rhs` ↦ `b ≠ rhs` with `x` a fresh variable (repeatedly) -/
elab "nh_lets" : tactic => do
  let rec go (fuel : Nat) : TacticM Unit := do
    match fuel with
    | 0 => pure ()
    | fuel + 1 =>
      let g ← getMainGoal
      let more ← g.withContext do
        let t := (← instantiateMVars (← g.getType)).consumeMData
        let some (_, lhs, rhs) := t.ne? | throwError "nh_lets: not a ≠ goal"
        match lhs.consumeMData with
        | .letE n ty v b _ =>
          let newT ← withLocalDeclD n ty fun x => do
            mkForallFVars #[x] (← mkAppM ``Ne #[b.instantiate1 x, rhs])
          let g' ← mkFreshExprSyntheticOpaqueMVar newT
          g.assign (mkApp g' v)
          let (_, g'') ← g'.mvarId!.intro n
          replaceMainGoal [g'']
          pure true
        | _ => pure false
      if more then go fuel
  go 64

theorem ne_hang_ite {α : Type} {c : Prop} [Decidable c] {a b : Except Fault α}
    (ha : a ≠ .error .hang) (hb : b ≠ .error .hang) : (if c then a else b) ≠ .error .hang := by
  split <;> assumption

theorem ne_hang_ok {α : Type} (v : α) : (Except.ok v : Except Fault α) ≠ .error .hang := by
  intro h; cases h

theorem ne_hang_matchRead {α : Type} (x : Option (Bytes × Rd)) (a : Unit → Except Fault α)
    (k : Bytes → Rd → Except Fault α) (ha : a () ≠ .error .hang) (hk : ∀ b r, k b r ≠ .error .hang) :
    readChunks.match_3 (fun _ => Except Fault α) x a k ≠ .error .hang := by
  cases x with
  | none => exact ha
  | some p => cases p; exact hk _ _

theorem ne_hang_matchSeek {α : Type} (x : Option Rd) (a : Unit → Except Fault α)
    (k : Rd → Except Fault α) (ha : a () ≠ .error .hang) (hk : ∀ r, k r ≠ .error .hang) :
    readHeaders.match_3 (fun _ => Except Fault α) x a k ≠ .error .hang := by
  cases x with
  | none => exact ha
  | some p => exact hk _

theorem ne_hang_matchChunks {α : Type} (x : Except Fault (Except Err Walk)) (a : Err → Except Fault α)
    (k : Walk → Except Fault α) (hx : x ≠ .error .hang) (ha : ∀ e, a e ≠ .error .hang) (hk : ∀ w, k w ≠ .error .hang) :
    readHeaders.match_1 (fun _ => Except Fault α) x (fun f => .error f) a k ≠ .error .hang := by
  cases x with
  | error f => exact err_of_no_hang hx rfl
  | ok y =>
    cases y with
    | error e => exact ha e
    | ok w => exact hk w

/-- `chmd_read_headers`: the chunk loop is the only callee that can fault -/
theorem readHeaders_no_hang (filename : String) (file : Bytes) (entire : Bool) :
    readHeaders filename file entire ≠ .error .hang := by
  unfold readHeaders
  refine ne_hang_matchRead _ _ _ (ne_hang_ok _) (fun buf r => ?_)
  refine ne_hang_ite (ne_hang_ok _) (ne_hang_ite (ne_hang_ok _) ?_)
  nh_lets
  refine ne_hang_matchRead _ _ _ (ne_hang_ok _) (fun buf r => ?_)
  nh_lets
  refine ne_hang_matchSeek _ _ _ (ne_hang_ok _) (fun r => ?_)
  refine ne_hang_matchRead _ _ _ (ne_hang_ok _) (fun buf r => ?_)
  nh_lets
  refine ne_hang_matchSeek _ _ _ (ne_hang_ok _) (fun r => ?_)
  refine ne_hang_matchRead _ _ _ (ne_hang_ok _) (fun buf r => ?_)
  nh_lets
  refine ne_hang_ite (ne_hang_ok _) (ne_hang_ite (ne_hang_ok _) (ne_hang_ite (ne_hang_ok _) (ne_hang_ite (ne_hang_ok _)
    (ne_hang_ite (ne_hang_ok _) (ne_hang_ite (ne_hang_ok _) (ne_hang_ite (ne_hang_ok _) (ne_hang_ite (ne_hang_ok _) ?_)))))))
  nh_lets
  refine ne_hang_ite (ne_hang_ok _) ?_
  nh_lets
  refine ne_hang_matchChunks _ _ _ (readChunks_no_hang _ _ _ _) (fun e => ne_hang_ok _) (fun w => ?_)
  nh_lets
  exact ne_hang_ok _

theorem realOpen_no_hang (filename : String) (file : Bytes) (entire : Bool) :
    realOpen filename file entire ≠ .error .hang := by
  unfold realOpen
  split
  · rename_i f hf
    exact err_of_no_hang (readHeaders_no_hang _ _ _) hf
  · simp
  · split
    · simp
    · split <;> simp

/-! ## `chmd_extract`: system files, reset table, span info, decoder set-up -/

theorem ne_hang_err {α : Type} {f : Fault} (h : f ≠ .hang) : (Except.error f : Except Fault α) ≠ .error .hang := by
  intro hc; cases hc; exact h rfl

theorem findSysFile_no_hang (files : Files) (x : X) (slot : Slot) : findSysFile files x slot ≠ .error .hang := by
  unfold findSysFile
  split
  · exact ne_hang_ok _
  · split
    · rename_i f hf
      exact err_of_no_hang (fastFind_no_hang _ _ _) hf
    · nh_lets
      split
      · exact ne_hang_ok _
      · refine ne_hang_ite (ne_hang_ok _) ?_
        nh_lets
        exact ne_hang_ok _

theorem readSpaninfo_no_hang (files : Files) (x : X) : readSpaninfo files x ≠ .error .hang := by
  unfold readSpaninfo
  split
  · rename_i f hf
    exact err_of_no_hang (findSysFile_no_hang _ _ _) hf
  · refine ne_hang_ite (ne_hang_ok _) ?_
    split
    · exact ne_hang_err (by intro h; cases h)
    · refine ne_hang_ite (ne_hang_ok _) ?_
      split
      · exact ne_hang_ok _
      · nh_lets
        exact ne_hang_ite (ne_hang_ok _) (ne_hang_ok _)

/-- `read_reset_table`: no loop of its own; the look-up of the table file goes through `chmd_fast_find` -/
theorem readResetTable_no_hang (files : Files) (x : X) (entry : Nat) : readResetTable files x entry ≠ .error .hang := by
  unfold readResetTable
  split
  · rename_i f hf
    exact err_of_no_hang (findSysFile_no_hang _ _ _) hf
  · refine ne_hang_ite (ne_hang_ok _) ?_
    split
    · exact ne_hang_err (by intro h; cases h)
    · refine ne_hang_ite (ne_hang_ok _) (ne_hang_ite (ne_hang_ok _) ?_)
      split
      · exact ne_hang_ok _
      · refine ne_hang_ite (ne_hang_ok _) ?_
        nh_lets
        refine ne_hang_ite (ne_hang_ite (ne_hang_ite (ne_hang_err (by intro h; cases h)) (ne_hang_ok _))
          (ne_hang_ite (ne_hang_ite (ne_hang_err (by intro h; cases h)) (ne_hang_ok _)) (ne_hang_ok _))) (ne_hang_ok _)

open Lean Elab Tactic Meta in
/-- goal `(have x := v; b) ≠ rhs` ↦ `b[v/x] ≠ rhs` (one binding, at the head only) -/
elab "nh_zeta" : tactic => do
  let g ← getMainGoal
  g.withContext do
    let t := (← instantiateMVars (← g.getType)).consumeMData
    let some (_, lhs, rhs) := t.ne? | throwError "nh_zeta: not a ≠ goal"
    match lhs.consumeMData with
    | .letE _ _ v b _ =>
      let g' ← g.replaceTargetDefEq (← mkAppM ``Ne #[(b.instantiate1 v).headBeta, rhs])
      replaceMainGoal [g']
    | _ => throwError "nh_zeta: no binding at the head"

theorem ne_hang_matchChosen {α : Type} (c : Except Fault (Except Err (Int × Int × Int) × X))
    (a : Err → X → Except Fault α) (k : Int → Int → Int → X → Except Fault α)
    (hc : c ≠ .error .hang) (ha : ∀ e x, a e x ≠ .error .hang) (hk : ∀ l o e x, k l o e x ≠ .error .hang) :
    initDecomp.match_5 (fun _ => Except Fault α) c (fun f => .error f) a k ≠ .error .hang := by
  cases c with
  | error f => exact err_of_no_hang hc rfl
  | ok y =>
    obtain ⟨y, x⟩ := y
    cases y with
    | error e => exact ha e x
    | ok t => obtain ⟨l, o, e⟩ := t; exact hk l o e x

/-- `chmd_init_decomp`: four system-file look-ups (`chmd_fast_find`) and the two table reads -/
theorem initDecomp_no_hang (files : Files) (fill : UInt8) (x : X) (fileOffset : Int) :
    initDecomp files fill x fileOffset ≠ .error .hang := by
  unfold initDecomp
  nh_zeta
  split
  · rename_i f hf
    exact err_of_no_hang (findSysFile_no_hang _ _ _) hf
  · refine ne_hang_ite (ne_hang_ok _) ?_
    split
    · rename_i f hf
      exact err_of_no_hang (findSysFile_no_hang _ _ _) hf
    · refine ne_hang_ite (ne_hang_ok _) ?_
      split
      · exact ne_hang_err (by intro h; cases h)
      · exact ne_hang_err (by intro h; cases h)
      · refine ne_hang_ite (ne_hang_ok _) ?_
        split
        · exact ne_hang_ok _
        · refine ne_hang_ite (ne_hang_ok _) ?_
          nh_lets
          split
          · exact ne_hang_ok _
          · split
            · exact ne_hang_ok _
            · refine ne_hang_ite (ne_hang_ok _) ?_
              nh_lets
              split
              · rename_i f hf
                exact err_of_no_hang (readResetTable_no_hang _ _ _) hf
              · nh_zeta
                refine ne_hang_matchChosen _ _ _ ?_ (fun e x => ne_hang_ok _) (fun length offset entry x => ?_)
                · split
                  · nh_lets
                    exact ne_hang_ok _
                  · split
                    · rename_i f hf
                      exact err_of_no_hang (readSpaninfo_no_hang _ _) hf
                    · exact ne_hang_ite (ne_hang_ok _) (ne_hang_ok _)
                · nh_lets
                  refine ne_hang_ite ?_ ?_
                  · nh_lets
                    exact ne_hang_ok _
                  · nh_lets
                    exact ne_hang_ok _

/-! ## the section-0 copy loop -/

/-- bytes between the handle's position and the end of its file (0 when the position is beyond the end) -/
def rdLeft (r : Rd) : Nat := r.file.length - r.pos

theorem read_rdLeft (r : Rd) (n : Nat) : (r.read n).1.length + rdLeft (r.read n).2 = rdLeft r := by
  simp only [Rd.read, rdLeft, List.length_take, List.length_drop]
  omega

/-- out of fuel and "all copied" are the same value (`none` error) in `copyLoop`.  A full 512-byte run takes 512 bytes
    of the file, a shorter run is the last one: once the fuel is above `(bytes left) / 512` — or `length ≤ 0` already —
    the result does not depend on the fuel -/
theorem copyLoop_fuel_aux : ∀ (fuel fuel' : Nat) (r : Rd) (length : Int) (acc : Bytes),
    (length ≤ 0 ∨ rdLeft r / 512 + 1 ≤ fuel) → (length ≤ 0 ∨ rdLeft r / 512 + 1 ≤ fuel') →
    copyLoop fuel r length acc = copyLoop fuel' r length acc := by
  intro fuel
  induction fuel with
  | zero =>
    intro fuel' r length acc h h'
    have hl : length ≤ 0 := by omega
    cases fuel' with
    | zero => rfl
    | succ f => rw [copyLoop, copyLoop, if_pos hl]
  | succ fuel ih =>
    intro fuel' r length acc h h'
    cases fuel' with
    | zero =>
      have hl : length ≤ 0 := by omega
      rw [copyLoop, copyLoop, if_pos hl]
    | succ fuel' =>
      rw [copyLoop, copyLoop]
      by_cases hl : length ≤ 0
      · rw [if_pos hl, if_pos hl]
      · rw [if_neg hl, if_neg hl]
        simp only
        generalize hrun : (if (512 : Int) > length then length.toNat else 512) = run
        have hrl := read_rdLeft r run
        generalize r.read run = pr at hrl ⊢
        obtain ⟨got, r'⟩ := pr
        simp only at hrl ⊢
        by_cases hg : got.length = run
        · rw [if_neg (fun hn => hn hg), if_neg (fun hn => hn hg)]
          apply ih
          · split at hrun
            · left; simp only [Int.ofNat_eq_natCast]; omega
            · right; omega
          · split at hrun
            · left; simp only [Int.ofNat_eq_natCast]; omega
            · right; omega
        · rw [if_pos hg, if_pos hg]

/-- with that much fuel a run that ends without MSPACK_ERR_READ has copied all `length` bytes: the `none` of the
    fuel-0 equation ("stopped early, no error") is not among the results -/
theorem copyLoop_none : ∀ (fuel : Nat) (r : Rd) (length : Int) (acc : Bytes),
    (length ≤ 0 ∨ rdLeft r / 512 + 1 ≤ fuel) → (copyLoop fuel r length acc).1 = none →
    (copyLoop fuel r length acc).2.1 = acc ++ (r.file.drop r.pos).take length.toNat := by
  intro fuel
  induction fuel with
  | zero =>
    intro r length acc h _
    have hl : length ≤ 0 := by omega
    have h0 : length.toNat = 0 := by omega
    rw [copyLoop, h0]; simp
  | succ fuel ih =>
    intro r length acc h
    rw [copyLoop]
    by_cases hl : length ≤ 0
    · have h0 : length.toNat = 0 := by omega
      rw [if_pos hl, h0]; intro _; simp
    · rw [if_neg hl]
      simp only
      generalize hrun : (if (512 : Int) > length then length.toNat else 512) = run
      have hrl := read_rdLeft r run
      have hgot : (r.read run).1 = (r.file.drop r.pos).take run := rfl
      have hfile : (r.read run).2.file = r.file := rfl
      have hpos : (r.read run).2.pos = r.pos + (r.read run).1.length := rfl
      generalize r.read run = pr at hrl hgot hfile hpos ⊢
      obtain ⟨got, r'⟩ := pr
      simp only at hrl hgot hfile hpos ⊢
      by_cases hg : got.length = run
      · rw [if_neg (fun hn => hn hg)]
        intro hnone
        have hle : (run : Int) ≤ length := by split at hrun <;> omega
        have hinv : length - Int.ofNat run ≤ 0 ∨ rdLeft r' / 512 + 1 ≤ fuel := by
          split at hrun
          · left; simp only [Int.ofNat_eq_natCast]; omega
          · right; omega
        rw [ih r' _ _ hinv hnone, hfile, hpos, hg, List.append_assoc]
        congr 1
        have hsum : length.toNat = run + (length - Int.ofNat run).toNat := by
          simp only [Int.ofNat_eq_natCast]; omega
        rw [hsum, List.take_add, List.drop_drop, hgot]
      · rw [if_pos hg]; intro hc; cases hc

/-! ## `chmd_extract` -/

theorem ne_ite {α : Type} {c : Prop} [Decidable c] {a b v : α} (ha : a ≠ v) (hb : b ≠ v) :
    (if c then a else b) ≠ v := by
  split <;> assumption

theorem done_ne_hang (ret : Err) (inst : Inst) (hdr : Header) (out : Option Bytes) :
    ExtractResult.done ret inst hdr out ≠ .fault .hang := by
  intro h; cases h

theorem unsupported_ne_hang (inst : Inst) (hdr : Header) : ExtractResult.unsupported inst hdr ≠ .fault .hang := by
  intro h; cases h

theorem fault_ne_hang {f : Fault} (h : f ≠ .hang) : ExtractResult.fault f ≠ .fault .hang := by
  intro hc; cases hc; exact h rfl

theorem fault_of_no_hang {α : Type} {x : Except Fault α} {f : Fault} (hx : x ≠ .error .hang) (hf : x = .error f) :
    ExtractResult.fault f ≠ .fault .hang := by
  intro hc
  cases hc
  exact hx hf

theorem ne_matchInited (c : Except Fault (Bool × X)) (a k : X → ExtractResult)
    (hc : c ≠ .error .hang) (ha : ∀ x, a x ≠ .fault .hang) (hk : ∀ x, k x ≠ .fault .hang) :
    extract.match_15 (fun _ => ExtractResult) c (fun f => .fault f) a k ≠ .fault .hang := by
  cases c with
  | error f => exact fault_of_no_hang hc rfl
  | ok y =>
    obtain ⟨b, x⟩ := y
    cases b with
    | true => exact ha x
    | false => exact hk x

theorem ne_matchPhase1 (c : Except Fault (Option X)) (a : Unit → ExtractResult) (k : X → ExtractResult)
    (hc : c ≠ .error .hang) (ha : a () ≠ .fault .hang) (hk : ∀ x, k x ≠ .fault .hang) :
    extract.match_13 (fun _ => ExtractResult) c (fun f => .fault f) a k ≠ .fault .hang := by
  cases c with
  | error f => exact fault_of_no_hang hc rfl
  | ok y =>
    cases y with
    | none => exact ha
    | some x => exact hk x

theorem ne_matchPhase2 (c : Except Fault (Option (X × Bytes))) (a : Unit → ExtractResult) (k : X → Bytes → ExtractResult)
    (hc : c ≠ .error .hang) (ha : a () ≠ .fault .hang) (hk : ∀ x o, k x o ≠ .fault .hang) :
    extract.match_11 (fun _ => ExtractResult) c (fun f => .fault f) a k ≠ .fault .hang := by
  cases c with
  | error f => exact fault_of_no_hang hc rfl
  | ok y =>
    cases y with
    | none => exact ha
    | some p => obtain ⟨x, o⟩ := p; exact hk x o

/-- `chmd_extract`: apart from the LZX decoder calls (whose fuel `lzxFuel` is the bit-level decoder's business, not
    covered here) nothing in it can run out of fuel -/
theorem extract_no_hang (files : Files) (fill : UInt8) (inst : Inst) (key : Nat) (hdr : Header)
    (sec : Nat) (offset length : Int)
    (hl : sec ≠ 0 → ∀ x bytes, lzxCall files x bytes ≠ .error .hang) :
    extract files fill inst key hdr sec offset length ≠ .fault .hang := by
  unfold extract
  nh_lets
  split
  · exact done_ne_hang _ _ _ _
  · refine ne_ite (done_ne_hang _ _ _ _) ?_
    nh_zeta
    nh_zeta
    by_cases hs : sec = 0
    · rw [if_pos hs]
      split
      · exact fault_ne_hang (by intro h; cases h)
      · nh_lets
        split
        · exact done_ne_hang _ _ _ _
        · split
          nh_lets
          exact done_ne_hang _ _ _ _
    · rw [if_neg hs]
      nh_zeta
      refine ne_matchInited _ _ _ ?_ (fun x => done_ne_hang _ _ _ _) (fun x => ?_)
      · refine ne_hang_ite ?_ (ne_hang_ok _)
        split
        · rename_i f hf
          exact err_of_no_hang (initDecomp_no_hang _ _ _ _) hf
        · exact ne_hang_ok _
      · refine ne_ite (done_ne_hang _ _ _ _) ?_
        split
        · exact fault_ne_hang (by intro h; cases h)
        · refine ne_ite (done_ne_hang _ _ _ _) ?_
          nh_zeta
          nh_zeta
          nh_zeta
          refine ne_matchPhase1 _ _ _ ?_ (unsupported_ne_hang _ _) (fun x => ?_)
          · refine ne_hang_ite (ne_hang_ok _) ?_
            split
            · rename_i f hf
              exact err_of_no_hang (hl hs _ _) hf
            · exact ne_hang_ok _
            · exact ne_hang_ok _
          · nh_zeta
            refine ne_matchPhase2 _ _ _ ?_ (unsupported_ne_hang _ _) (fun x out => ?_)
            · refine ne_hang_ite (ne_hang_ok _) ?_
              nh_lets
              split
              · rename_i f hf
                exact err_of_no_hang (hl hs _ _) hf
              · exact ne_hang_ok _
              · exact ne_hang_ok _
            · nh_lets
              exact done_ne_hang _ _ _ _

/-! ## the C04 statements for CHM -/

/-- `read_encint`: 10 rounds (9 bytes + the failing test) always suffice -/
theorem C04_chm_read_encint_no_hang (bs : Bytes) (p e : Nat) : readEncint bs p e ≠ .error .hang :=
  readEncint_no_hang bs p e

/-- `compare`: the `l1 + 1` rounds `compare` passes are enough — more fuel never changes the loop's result (out of
    fuel is not a separate value here; this is the statement that the fuel-0 equation does not influence the result) -/
theorem C04_chm_compare_no_hang (s1 s2 : Bytes) (fuel : Nat) (h : s1.length + 1 ≤ fuel) :
    compareGo fuel s1 s2 = compareGo (s1.length + 1) s1 s2 :=
  compareGo_fuel fuel (s1.length + 1) s1 s2 h (Nat.le_refl _)

example : compareGo 3 [0x41, 0x42] [0x61, 0x62, 0x63] = compareGo 100 [0x41, 0x42] [0x61, 0x62, 0x63] := by
  rw [C04_chm_compare_no_hang _ _ 100 (by decide)]; rfl

/-- `search_chunk` (binary search over the quick-ref area with `qr_entries + 1` rounds, linear scan, the ENCINT
    skipping loops with `end - p + 1` rounds): never out of fuel, for every chunk and header -/
theorem C04_chm_search_chunk_no_hang (h : Header) (chunk fname : Bytes) : searchChunk h chunk fname ≠ .error .hang :=
  searchChunk_no_hang h chunk fname

/-- the two chunk-chasing loops of `chmd_fast_find` for *every* fuel: the model (like the C since the `visits`
    counter) turns an exhausted budget into MSPACK_ERR_DATAFORMAT, so `hang` is not among the results at all -/
theorem C04_chm_descend_walk_no_hang (file fname : Bytes) (fuel n : Nat) (last : Search) (st : FF) :
    descend file fname fuel n st ≠ .error .hang ∧ walk file fname fuel n last st ≠ .error .hang :=
  ⟨descend_no_hang file fname fuel n st, walk_no_hang file fname fuel n last st⟩

/-- `chmd_fast_find` never hangs: for every file (cyclic PMGI/PMGL chains included), state and name -/
theorem C04_chm_fast_find_no_hang (file : Option Bytes) (st : FF) (filename : Bytes) :
    fastFind file st filename ≠ .error .hang :=
  fastFind_no_hang file st filename

/-- `chmd_read_headers` (entry loop, chunk loop — the latter runs `last_pmgl - first_pmgl + 1` times whatever the
    file says, and ends at the end of the file) and `chmd_real_open` -/
theorem C04_chm_read_headers_no_hang (filename : String) (file : Bytes) (entire : Bool) :
    readHeaders filename file entire ≠ .error .hang ∧ realOpen filename file entire ≠ .error .hang :=
  ⟨readHeaders_no_hang filename file entire, realOpen_no_hang filename file entire⟩

/-- the reset-table and span-info look-ups and `chmd_init_decomp` -/
theorem C04_chm_init_decomp_no_hang (files : Files) (fill : UInt8) (x : X) (entry : Nat) (fileOffset : Int) :
    readResetTable files x entry ≠ .error .hang ∧ readSpaninfo files x ≠ .error .hang ∧
    initDecomp files fill x fileOffset ≠ .error .hang :=
  ⟨readResetTable_no_hang files x entry, readSpaninfo_no_hang files x, initDecomp_no_hang files fill x fileOffset⟩

/-- the section-0 copy loop with the fuel `chmd_extract` passes (`file.length / 512 + 2`, `r` a handle on that file
    at any position, also beyond the end): more fuel never changes the result … -/
theorem C04_chm_copy_no_hang (r : Rd) (length : Int) (acc : Bytes) (fuel : Nat) (h : r.file.length / 512 + 2 ≤ fuel) :
    copyLoop fuel r length acc = copyLoop (r.file.length / 512 + 2) r length acc := by
  have hle : rdLeft r ≤ r.file.length := Nat.sub_le _ _
  apply copyLoop_fuel_aux <;> (right; omega)

/-- … and a run that ends without an error has copied exactly the `length` bytes asked for -/
theorem C04_chm_copy_complete (r : Rd) (length : Int) (acc : Bytes)
    (h : (copyLoop (r.file.length / 512 + 2) r length acc).1 = none) :
    (copyLoop (r.file.length / 512 + 2) r length acc).2.1 = acc ++ (r.file.drop r.pos).take length.toNat := by
  have hle : rdLeft r ≤ r.file.length := Nat.sub_le _ _
  exact copyLoop_none _ r length acc (by right; omega) h

-- non-vacuity: 3 bytes from a 3-byte file need both rounds of the fuel `3 / 512 + 2` (copy, then the `length ≤ 0` exit)
example : (copyLoop (([1, 2, 3] : Bytes).length / 512 + 2) ⟨[1, 2, 3], 0⟩ 3 []).1 = none ∧
    (copyLoop (([1, 2, 3] : Bytes).length / 512 + 2) ⟨[1, 2, 3], 0⟩ 3 []).2.1 = [1, 2, 3] := by decide

/-- `chmd_extract` of a section-0 member never hangs -/
theorem C04_chm_extract_sec0_no_hang (files : Files) (fill : UInt8) (inst : Inst) (key : Nat) (hdr : Header)
    (offset length : Int) : extract files fill inst key hdr 0 offset length ≠ .fault .hang :=
  extract_no_hang files fill inst key hdr 0 offset length (fun h => absurd rfl h)

/-- `chmd_extract` of a compressed member: `hang` can only come out of an `lzxd_decompress` call (the bit-level
    decoder with its budget `lzxFuel`, not covered here); header look-ups, reset table, decoder set-up never cause it -/
theorem C04_chm_extract_no_hang (files : Files) (fill : UInt8) (inst : Inst) (key : Nat) (hdr : Header)
    (sec : Nat) (offset length : Int) (h : extract files fill inst key hdr sec offset length = .fault .hang) :
    sec ≠ 0 ∧ ∃ x bytes, lzxCall files x bytes = .error .hang := by
  refine ⟨fun hs => ?_, ?_⟩
  · subst hs
    exact C04_chm_extract_sec0_no_hang files fill inst key hdr offset length h
  · apply Classical.byContradiction
    intro hex
    exact extract_no_hang files fill inst key hdr sec offset length
      (fun _ x bytes hc => hex ⟨x, bytes, hc⟩) h

end MsPack.Chm
